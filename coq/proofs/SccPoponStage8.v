(* C05, stage 8 of the pop-on refinement: ONE load with SEVERAL rows over the FULL item domain: basic / special / extended
   characters, backspaces and MID-ROW CODES, every preamble style (colours, underline, italics), rows adjacent (one
   caption, BREAK) or apart (new caption, REPOSITION) in any transmission order, control codes single or doubled.
   Stage 2c (one row, mid-row codes: the oracle-level invariant `match_cells`) and stage 5 (several rows: tracker and
   style-node mechanics) are combined.

   RESULT, in the interface of the generic lifting of stage 7 (Section Lift: lc_ok := lc_ok8, lc_good := lc_good8):
     line8         a load line, run from ANY between-lines state B, pops the queue and queues a creator cr, lc_good8 ld cr;
     good8         storing such a creator extends the stash by one batch of captions with the given times, lines of at
                   most 32 characters, and the per-load oracle load_ok for every later end;
     lc_ok8_wf     lc_ok8 ld = true -> load_wf ld = true (trivial now);
     popon_stage8  the one-load corollary: `read` returns captions that, observed, satisfy ok_c05.

   DOMAIN. lc_ok8 ld := load_wf ld.  A mid-row code makes the reader append a blank to the last text transmitted before it
   (get_previous_text_node) whenever its own row shows no character at that moment (first item of the row, after other
   mid-row codes only, after `Ch a; Bs`, ...).  If the row before fills its 32 cells that text has 33 characters when the
   buffer is queued (lclosed, lineokw: at most ONE such blank, the last character of the line).  Pass 7 of _format_italics
   right-strips the last text node in front of every BREAK / REPOSITION / the end, looking through italics nodes: the text
   nodes of a formatted list are not empty, so a line that ends with a blank loses at least that blank (srel, sle_view_aux)
   and every line of the captions has at most as many characters as its row has cells (lineok_srel).  Before pass 7 looked
   through italics nodes the blank survived behind an italics-off node and the domain had to exclude "a row with 32 cells
   followed by a row in which some mid-row code arrives while no character of the row is on the screen"
   (no_mid_after_full8; Example cex_loads_now_read: the former counterexamples are read correctly).

   METHOD. `rx` renders a node list as a flat list of (character, italic) with BREAK / REPOSITION separators (the
   italic state runs across them); passes 1-6 of _format_italics keep `rx` (section 2), pass 7 strips blanks at line ends
   (section 5); `build_captions` cuts a formatted list into captions whose observed lines are the segments of `rx`
   (build_view); addresses: every text node with text carries its caption's address (W).  The decoder side is stated on
   ARBITRARY buffers through `rx` (St: add_chars_inv, prev_rx, pac_style_St, spacing_St), the token run of stage 2c is
   redone on it (mtoks_run8) with the line before the current one in view (a mid-row code may add one blank to it:
   lclosed), rows are chained with stage 5's tracker lemmas (pac_run8, rows_run8). *)
From Coq Require Import List ZArith QArith Qabs Lia Bool ZifyBool.
From PV Require Import lib.Sx lib.Str lib.Result model.GenScc model.SccLen model.SccTime model.SccStash model.SccDecoder model.SccLayout
                       spec.Spec608 spec.SpecScc05 spec.SpecSccLen proofs.SccTableFacts proofs.SccTableFixFacts proofs.SccDoubleFacts
                       proofs.SccLenFacts proofs.SccStashFacts proofs.SccItalicsFacts proofs.SccPoponStage1 proofs.SccPoponStage2
                       proofs.SccPoponStage2c proofs.SccPoponStage3 proofs.SccPoponStage4 proofs.SccPoponStage5.
Import ListNotations. Open Scope Z_scope.

(* performance only (see stage 1): the conversion must never evaluate the filter inside basic_code on a variable *)
Local Strategy 1000 [basic_code is_basic].
Local Arguments stash_extend : simpl never.


(* ---- 1. what a node list shows, with its line and caption separators ---------------------------------------------- *)
Inductive xch : Type := XC (c : Z) (it : bool) | XB | XR (p : pos).
Definition tagx (b : bool) (s : str) : list xch := map (fun c => XC c b) s.
Definition line : Type := list (Z * bool).
Definition xl (o : line) : list xch := map (fun x => XC (fst x) (snd x)) o.

Fixpoint rx (b : bool) (l : list inode) : list xch :=
  match l with
  | [] => []
  | n :: t => match i_kind n with
              | IText => tagx b (i_text n) ++ rx b t
              | IItalOn => rx true t
              | IItalOff => rx false t
              | IBreak => XB :: rx b t
              | IRepos => XR (i_pos n) :: rx b t
              end
  end.

Lemma tagx_app : forall b s t, tagx b (s ++ t) = tagx b s ++ tagx b t.
Proof. intros. unfold tagx. apply map_app. Qed.

Lemma xl_app : forall a b, xl (a ++ b) = xl a ++ xl b.
Proof. intros. unfold xl. apply map_app. Qed.

Lemma xl_tag : forall b s, xl (tag b s) = tagx b s.
Proof. intros b s. unfold xl, tag, tagx. rewrite map_map. reflexivity. Qed.

Lemma rx_app : forall l1 l2 b, rx b (l1 ++ l2) = rx b l1 ++ rx (fin b l1) l2.
Proof.
  induction l1 as [|n t IH]; intros l2 b; [reflexivity|].
  destruct n as [k x q]; destruct k; cbn [app rx fin i_kind i_text i_pos]; rewrite ?IH, ?app_assoc; reflexivity.
Qed.

(* ---- 2. the passes 1-6 of format_italics keep it -------------------------------------------------------------------- *)
Lemma sio_rx : forall l, rx false (skip_initial_off l false) = rx false l.
Proof.
  induction l as [|n t IH]; [reflexivity|].
  destruct n as [k x q]; destruct k; cbn [skip_initial_off is_on is_off i_kind rx i_text i_pos]; rewrite ?IH, ?SccPoponStage2c.sio_true; reflexivity.
Qed.

Lemma set_rx : forall l b, rx b (skip_empty_text l) = rx b l.
Proof.
  induction l as [|n t IH]; intros b; [reflexivity|].
  destruct n as [k x q]; destruct k; unfold skip_empty_text in *; cbn [filter is_text i_kind i_text i_pos andb negb rx]; rewrite ?IH; try reflexivity.
  destruct x as [|c x']; cbn [nonempty negb rx i_kind i_text]; rewrite IH; reflexivity.
Qed.

Lemma sr_rx : forall l s, rx (st_on s) (skip_redundant l s) = rx (st_on s) l.
Proof.
  induction l as [|n t IH]; intros s; [reflexivity|].
  destruct n as [k x q]; destruct k; cbn [skip_redundant is_on is_off i_kind orb rx i_text i_pos]; rewrite ?IH; try reflexivity.
  - destruct s as [[|]|]; cbn [Bool.eqb st_on rx i_kind]; exact (IH (Some true)).
  - destruct s as [[|]|]; cbn [Bool.eqb st_on rx i_kind]; exact (IH (Some false)).
Qed.

Lemma cbr_rx : forall l op, rx (isS op) (close_before_repos l op) = rx (isS op) l.
Proof.
  induction l as [|n t IH]; intros op; [reflexivity|].
  destruct n as [k x q]; destruct k; cbn [close_before_repos is_on is_off is_repos i_kind i_pos rx i_text].
  - rewrite IH. reflexivity.
  - rewrite IH. reflexivity.
  - exact (IH (Some q)).
  - exact (IH None).
  - destruct op as [p0|]; cbn [rx i_kind i_pos isS].
    + apply f_equal. exact (IH (Some p0)).
    + apply f_equal. exact (IH None).
Qed.

Lemma efc_rx : forall l b, rx b (ensure_final_closes l) = rx b l.
Proof.
  intros l b. rewrite ensure_final_closes_eq, rx_app. destruct (final_on_pos l None); cbn [rx i_kind]; apply app_nil_r.
Qed.

Lemma roo_rx : forall l,
  (forall on, chk on l = true -> rx on (remove_on_off l None) = rx on l) /\
  (forall p, is_on p = true -> chk true l = true -> rx false (remove_on_off l (Some p)) = rx true l).
Proof.
  induction l as [|n t [IH1 IH2]]; split.
  - reflexivity.
  - reflexivity.
  - intros on H. destruct n as [k x q]; destruct k; cbn [chk remove_on_off is_on is_off is_repos i_kind rx i_text i_pos] in *.
    + rewrite (IH1 _ H). reflexivity.
    + rewrite (IH1 _ H). reflexivity.
    + apply andb_true_iff in H. destruct H as [H1 H2]. destruct on; [discriminate|].
      exact (IH2 (mkI IItalOn x q) eq_refl H2).
    + apply andb_true_iff in H. destruct H as [H1 H2]. exact (IH1 _ H2).
    + apply andb_true_iff in H. destruct H as [H1 H2]. destruct on; [discriminate|]. rewrite (IH1 _ H2). reflexivity.
  - intros p Hp H.
    assert (Hk : i_kind p = IItalOn) by (unfold is_on in Hp; destruct (i_kind p); try discriminate; reflexivity).
    destruct n as [k x q]; destruct k; cbn [chk remove_on_off is_on is_off is_repos i_kind rx i_text i_pos] in *; rewrite ?Hk.
    + rewrite (IH1 _ H). reflexivity.
    + rewrite (IH1 _ H). reflexivity.
    + discriminate H.
    + exact (IH1 _ H).
    + discriminate H.
Qed.

Lemma rof_rx : forall l,
  (forall on, chk on l = true -> rx on (remove_off_on l None) = rx on l) /\
  (forall p, is_off p = true -> chk false l = true -> rx true (remove_off_on l (Some p)) = rx false l).
Proof.
  induction l as [|n t [IH1 IH2]]; split.
  - reflexivity.
  - intros p Hp _.
    assert (Hk : i_kind p = IItalOff) by (unfold is_off in Hp; destruct (i_kind p); try discriminate; reflexivity).
    cbn [remove_off_on rx]. rewrite Hk. reflexivity.
  - intros on H. destruct n as [k x q]; destruct k; cbn [chk remove_off_on is_on is_off is_repos i_kind rx i_text i_pos] in *.
    + rewrite (IH1 _ H). reflexivity.
    + rewrite (IH1 _ H). reflexivity.
    + apply andb_true_iff in H. destruct H as [H1 H2]. exact (IH1 _ H2).
    + apply andb_true_iff in H. destruct H as [H1 H2]. destruct on; [|discriminate].
      exact (IH2 (mkI IItalOff x q) eq_refl H2).
    + apply andb_true_iff in H. destruct H as [H1 H2]. destruct on; [discriminate|]. rewrite (IH1 _ H2). reflexivity.
  - intros p Hp H.
    assert (Hk : i_kind p = IItalOff) by (unfold is_off in Hp; destruct (i_kind p); try discriminate; reflexivity).
    destruct n as [k x q]; destruct k; cbn [chk remove_off_on is_on is_off is_repos i_kind rx i_text i_pos] in *; rewrite ?Hk.
    + rewrite (IH1 _ H). reflexivity.
    + rewrite (IH1 _ H). reflexivity.
    + exact (IH1 _ H).
    + discriminate H.
    + rewrite (IH1 false H). reflexivity.
Qed.

Lemma passes16_chk : forall l, chk false (passes16 l) = true.
Proof.
  intros l. unfold passes16. apply (proj1 (remove_off_on_chk _)). apply (proj1 (remove_on_off_chk _)).
  rewrite ensure_final_closes_eq. apply (final_chk _ None). apply (close_chkr _ None). apply (skip_redundant_alt _ None).
Qed.

Lemma passes16_rx : forall l, rx false (passes16 l) = rx false l.
Proof.
  intros l. unfold passes16.
  set (l4 := close_before_repos (skip_redundant (skip_empty_text (skip_initial_off l false)) None) None).
  assert (C5 : chk false (ensure_final_closes l4) = true).
  { rewrite ensure_final_closes_eq. apply (final_chk _ None). apply (close_chkr _ None). apply (skip_redundant_alt _ None). }
  rewrite (proj1 (rof_rx _) false (proj1 (remove_on_off_chk _) false C5)).
  rewrite (proj1 (roo_rx _) false C5), efc_rx. unfold l4.
  rewrite (cbr_rx _ None). cbn [isS]. rewrite (sr_rx _ None). cbn [st_on]. rewrite set_rx. apply sio_rx.
Qed.


(* ---- 3. addresses: every text node with text carries the address of its caption ------------------------------------ *)
Fixpoint W (p : pos) (l : list inode) : Prop :=
  match l with
  | [] => True
  | n :: t => match i_kind n with
              | IText => (i_text n = [] \/ i_pos n = p) /\ W p t
              | IRepos => W (i_pos n) t
              | _ => W p t
              end
  end.
Fixpoint fa (p : pos) (l : list inode) : pos :=
  match l with [] => p | n :: t => if is_repos n then fa (i_pos n) t else fa p t end.

Lemma W_app : forall a b p, W p (a ++ b) <-> W p a /\ W (fa p a) b.
Proof.
  induction a as [|n a IH]; intros b p; [cbn; tauto|].
  destruct n as [k x q]; destruct k; cbn [app W fa is_repos i_kind i_text i_pos]; rewrite IH; tauto.
Qed.

Lemma fa_app : forall a b p, fa p (a ++ b) = fa (fa p a) b.
Proof.
  induction a as [|n a IH]; intros b p; [reflexivity|]. cbn [app fa]. destruct (is_repos n); apply IH.
Qed.

Definition corep (n : inode) : bool := is_repos n || (is_text n && nonempty (i_text n)).

Lemma W_core : forall l p, W p l <-> W p (filter corep l).
Proof.
  induction l as [|n l IH]; intros p; [reflexivity|].
  destruct n as [k x q]; destruct k; unfold corep; cbn [filter W is_repos is_text i_kind i_text i_pos orb andb]; try (apply IH).
  pose proof (IH p) as E. destruct x as [|c x']; cbn [nonempty W i_kind i_text i_pos]; [|tauto].
  split; [tauto|]. intros H. split; [left; reflexivity|tauto].
Qed.

Lemma filter_sub : forall A (f g : A -> bool) l, (forall x, f x = true -> g x = true) -> filter f (filter g l) = filter f l.
Proof.
  intros A f g l H. induction l as [|a l IH]; [reflexivity|]. cbn [filter].
  destruct (g a) eqn:G; cbn [filter]; [rewrite IH; reflexivity|].
  destruct (f a) eqn:F; [rewrite (H a F) in G; discriminate|exact IH].
Qed.

Lemma core_passes16 : forall l, filter corep (passes16 l) = filter corep l.
Proof.
  intros l. rewrite <- (filter_sub _ corep plain (passes16 l)), passes16_keep_plain.
  - apply filter_sub. intros [k x q]; destruct k; unfold corep, keep, plain, is_repos, is_text, is_on, is_off; cbn [i_kind i_text orb andb negb]; intros H; try discriminate H; try reflexivity.
    rewrite H. reflexivity.
  - intros [k x q]; destruct k; unfold corep, plain, is_repos, is_text, is_on, is_off; cbn [i_kind orb andb negb]; intros H; try discriminate H; reflexivity.
Qed.

Lemma rstrip_nil : rstrip [] = [].
Proof. reflexivity. Qed.

Lemma W_rstrip_node : forall n p t, W p (n :: t) -> W p (rstrip_node n :: t).
Proof.
  intros [k x q] p t H. destruct k; cbn [W rstrip_node i_kind i_text i_pos] in *; try exact H.
  destruct H as [[->| ->] H]; (split; [|exact H]); [left; reflexivity|right; reflexivity].
Qed.

Lemma W_cons_eq : forall n n' p t t', i_kind n = i_kind n' -> i_pos n = i_pos n' -> (i_text n = [] -> i_text n' = []) ->
  (forall p', W p' t -> W p' t') -> W p (n :: t) -> W p (n' :: t').
Proof.
  intros [k x q] [k' x' q'] p t t' Hk Hq Hx Ht H. cbn [i_kind i_pos i_text] in *. subst k' q'.
  destruct k; cbn [W i_kind i_text i_pos] in *; try (apply Ht; exact H).
  destruct H as [H1 H2]. split; [|apply Ht; exact H2]. destruct H1 as [H1|H1]; [left; exact (Hx H1)|right; exact H1].
Qed.

Lemma W_sle : forall l p, W p l -> W p (strip_line_ends l).
Proof.
  induction l as [|n t IH]; intros p H; [exact I|].
  rewrite sle_cons2. destruct (is_text n && next_plain_is_sep t).
  - apply W_rstrip_node. revert H. apply W_cons_eq; try reflexivity; [tauto|]. intros p'. apply IH.
  - revert H. apply W_cons_eq; try reflexivity; [tauto|]. intros p'. apply IH.
Qed.

Lemma W_format : forall l p, W p l -> W p (format_italics l).
Proof.
  intros l p H. rewrite format_italics_is. apply W_sle. apply (proj2 (W_core _ _)). rewrite core_passes16. apply (proj1 (W_core _ _)). exact H.
Qed.

(* ---- 4. the captions a flat list is cut into -------------------------------------------------------------------------- *)
Definition nonemptyl (o : line) : bool := match o with [] => false | _ => true end.
Definition anychar (ls : list line) : bool := existsb nonemptyl ls.
Definition rawv : Type := (pos * list line)%type.
Definition vw : Type := (option pos * list line)%type.
Definition mkv (v : rawv) : vw := (if anychar (snd v) then Some (fst v) else None, snd v).

Fixpoint xcaps (x : list xch) (p : pos) (cur : line) (ls : list line) : list rawv :=
  match x with
  | [] => [(p, ls ++ [cur])]
  | XC c it :: t => xcaps t p (cur ++ [(c, it)]) ls
  | XB :: t => xcaps t p [] (ls ++ [cur])
  | XR q :: t => (p, ls ++ [cur]) :: xcaps t q [] []
  end.

Definition cview (c : precap) : vw := (pc_layout c, obs_lines (map onode_of (pc_nodes c)) [] false).

Lemma xcaps_xl : forall o x p cur ls, xcaps (xl o ++ x) p cur ls = xcaps x p (cur ++ o) ls.
Proof.
  induction o as [|[c it] o IH]; intros x p cur ls; [cbn [xl map app]; rewrite app_nil_r; reflexivity|].
  cbn [xl map app xcaps fst snd]. fold (xl o). rewrite IH, <- app_assoc. reflexivity.
Qed.

Lemma xcaps_tagx : forall b s x p cur ls, xcaps (tagx b s ++ x) p cur ls = xcaps x p (cur ++ tag b s) ls.
Proof. intros b s x p cur ls. rewrite <- xl_tag. apply xcaps_xl. Qed.

Lemma anychar_snoc : forall ls c, anychar (ls ++ [c]) = anychar ls || nonemptyl c.
Proof. intros ls c. unfold anychar. rewrite existsb_app. cbn [existsb]. rewrite orb_false_r. reflexivity. Qed.

Lemma build_view : forall F on p s e done cur ls c, chk on F = true -> W p F ->
  (forall rest, obs_lines (map onode_of (pc_nodes cur) ++ rest) [] false = ls ++ obs_lines rest c on) ->
  pc_layout cur = (if anychar (ls ++ [c]) then Some p else None) ->
  map cview (build_captions F s e done cur) = map cview done ++ map mkv (xcaps (rx on F) p c ls).
Proof.
  induction F as [|n t IH]; intros on p s e done cur ls c Hc Hw Ho Hl.
  - cbn [build_captions rx xcaps map]. rewrite map_app. cbn [map]. f_equal. unfold cview, mkv. cbn [fst snd].
    specialize (Ho []). rewrite app_nil_r in Ho. rewrite Ho, Hl. reflexivity.
  - destruct n as [k x q]; destruct k; cbn [build_captions i_kind i_text i_pos rx chk is_on is_off is_repos W] in *.
    + destruct x as [|c0 x']; cbn [nonempty].
      * destruct Hw as [_ Hw]. exact (IH on p s e done cur ls c Hc Hw Ho Hl).
      * destruct Hw as [[X|Hq] Hw]; [discriminate X|]. subst q. rewrite xcaps_tagx.
        apply (IH on p s e done _ ls _ Hc Hw).
        -- intros rest. cbn [pc_nodes]. rewrite map_app, <- app_assoc. cbn [map onode_of app]. rewrite Ho. reflexivity.
        -- cbn [pc_layout]. rewrite anychar_snoc. destruct c; cbn [app tag map nonemptyl]; rewrite orb_true_r; reflexivity.
    + unfold add_node. cbn [xcaps]. apply (IH on p s e done _ (ls ++ [c]) [] Hc Hw).
      * intros rest. cbn [pc_nodes]. rewrite map_app, <- app_assoc. cbn [map onode_of app]. rewrite Ho. cbn [obs_lines].
        rewrite <- app_assoc. reflexivity.
      * cbn [pc_layout]. rewrite Hl, !anychar_snoc. cbn [nonemptyl]. rewrite orb_false_r. reflexivity.
    + apply andb_true_iff in Hc. destruct Hc as [H1 Hc]. destruct on; [discriminate|].
      unfold add_node. apply (IH true p s e done _ ls c Hc Hw).
      * intros rest. cbn [pc_nodes]. rewrite map_app, <- app_assoc. cbn [map onode_of app]. rewrite Ho. reflexivity.
      * exact Hl.
    + apply andb_true_iff in Hc. destruct Hc as [H1 Hc]. destruct on; [|discriminate].
      unfold add_node. apply (IH false p s e done _ ls c Hc Hw).
      * intros rest. cbn [pc_nodes]. rewrite map_app, <- app_assoc. cbn [map onode_of app]. rewrite Ho. reflexivity.
      * exact Hl.
    + apply andb_true_iff in Hc. destruct Hc as [H1 Hc]. destruct on; [discriminate|].
      cbn [xcaps map]. rewrite (IH false q s e (done ++ [cur]) (mkPre s e [] None) [] [] Hc Hw).
      * rewrite map_app, <- app_assoc. cbn [map app]. f_equal. f_equal. unfold cview, mkv. cbn [fst snd].
        specialize (Ho []). rewrite app_nil_r in Ho. rewrite Ho, Hl. reflexivity.
      * intros rest. reflexivity.
      * reflexivity.
Qed.

Lemma build_times : forall F s e done cur, Forall (fun c => pc_start c = s /\ pc_end c = e) done ->
  pc_start cur = s /\ pc_end cur = e -> Forall (fun c => pc_start c = s /\ pc_end c = e) (build_captions F s e done cur).
Proof.
  induction F as [|n t IH]; intros s e done cur Hd Hc.
  - cbn [build_captions]. apply Forall_app. split; [exact Hd|constructor; [exact Hc|constructor]].
  - destruct n as [k x q]; destruct k; cbn [build_captions i_kind i_text i_pos].
    + destruct (nonempty x); apply IH; assumption.
    + apply IH; assumption.
    + apply IH; assumption.
    + apply IH; assumption.
    + apply IH; [apply Forall_app; split; [exact Hd|constructor; [exact Hc|constructor]]|split; reflexivity].
Qed.

(* ---- 5. pass 7 removes blanks at the end of lines ---------------------------------------------------------------------- *)
Definition lrel (o o' : line) : Prop := exists sp, o = o' ++ sp /\ blanks sp.
(* the line ends with a blank *)
Definition endsb (o : line) : bool := is_space (fst (last o (0, false))).
(* blanks are removed at the end, at least one if the line ends with a blank *)
Definition srel (o o' : line) : Prop := lrel o o' /\ (endsb o = true -> (length o' < length o)%nat).
Definition vrel (v v' : rawv) : Prop := fst v = fst v' /\ Forall2 srel (snd v) (snd v').

Lemma lrel_refl : forall o, lrel o o.
Proof. intros o. exists []. split; [symmetry; apply app_nil_r|reflexivity]. Qed.

Lemma srel_refl : forall o, endsb o = false -> srel o o.
Proof. intros o H. split; [apply lrel_refl|]. intros X. congruence. Qed.

Lemma F2_snoc : forall A B (R : A -> B -> Prop) l l' a b, Forall2 R l l' -> R a b -> Forall2 R (l ++ [a]) (l' ++ [b]).
Proof. intros A B R l l' a b H Hab. apply Forall2_app; [exact H|constructor; [exact Hab|constructor]]. Qed.

Lemma sle_nontext : forall m t, is_text m = false -> strip_line_ends (m :: t) = m :: strip_line_ends t.
Proof. intros m t H. rewrite sle_cons2, H. reflexivity. Qed.

Lemma lrel_rstrip : forall (cur : line) b x, lrel (cur ++ tag b x) (cur ++ tag b (rstrip x)).
Proof.
  intros cur b x. destruct (rstrip_split x) as [sp [E F]]. exists (tag b sp). split; [|exact (blanks_tag b sp F)].
  rewrite E at 1. rewrite tag_app, app_assoc. reflexivity.
Qed.

Lemma lstrip_len : forall f l, (length (lstrip_by f l) <= length l)%nat.
Proof.
  intros f l. destruct (lstrip_split f l) as [sp [E _]]. apply (f_equal (@length Z)) in E. rewrite app_length in E. lia.
Qed.

(* a text node with text that ends with a blank loses at least that blank *)
Lemma srel_rstrip : forall (cur : line) b x, nonempty x = true -> srel (cur ++ tag b x) (cur ++ tag b (rstrip x)).
Proof.
  intros cur b x Hx. split; [apply lrel_rstrip|]. intros He.
  destruct x as [|c0 x0]; [discriminate Hx|]. destruct (exists_last (l := c0 :: x0)) as (l & c & E); [discriminate|]. rewrite E in *.
  unfold endsb in He. rewrite tag_app, app_assoc in He. cbn [tag map] in He. rewrite last_last in He. cbn [fst] in He.
  rewrite !app_length. unfold tag. rewrite !map_length. unfold rstrip, rstrip_by. rewrite rev_unit. cbn [lstrip_by]. rewrite He.
  rewrite rev_length, app_length. cbn [length]. pose proof (lstrip_len is_space (rev l)) as L. rewrite rev_length in L. lia.
Qed.

(* no empty text node (pass 2) *)
Definition net (l : list inode) : Prop := Forall (fun n => is_text n = true -> nonempty (i_text n) = true) l.

Lemma passes16_net : forall l, net (passes16 l).
Proof.
  intros l. unfold net. apply Forall_forall. intros n Hn Ht.
  assert (Ep : plain n = true) by (unfold plain, is_on, is_off, is_text in *; destruct (i_kind n); try discriminate; reflexivity).
  assert (Hin : In n (filter plain (passes16 l))) by (apply filter_In; split; assumption).
  rewrite passes16_keep_plain in Hin. apply filter_In in Hin. destruct Hin as [_ Hk]. unfold keep in Hk. rewrite Ep, Ht in Hk.
  cbn [andb] in Hk. apply negb_true_iff in Hk. apply negb_false_iff in Hk. exact Hk.
Qed.

(* cur: the current line so far. Either it does not end with a blank, or a text node follows on the same line *)
Definition Qs (l : list inode) : Prop := forall b p cur ls ls', endsb cur = false \/ next_plain_is_sep l = false -> Forall2 srel ls ls' ->
  Forall2 vrel (xcaps (rx b l) p cur ls) (xcaps (rx b (strip_line_ends l)) p cur ls').
(* when only italics nodes stand in front of the next separator, the current line has already been stripped *)
Definition Qs2 (l : list inode) : Prop := next_plain_is_sep l = true -> forall b p cur cur' ls ls', srel cur cur' -> Forall2 srel ls ls' ->
  Forall2 vrel (xcaps (rx b l) p cur ls) (xcaps (rx b (strip_line_ends l)) p cur' ls').

Lemma sle_view_aux : forall l, net l -> Qs l /\ Qs2 l.
Proof.
  induction l as [|n t IH]; intros N.
  - split.
    + intros b p cur ls ls' Hc H. cbn [strip_line_ends rx xcaps]. constructor; [|constructor].
      split; [reflexivity|]. cbn [snd]. apply F2_snoc; [exact H|]. apply srel_refl. destruct Hc as [Hc|Hc]; [exact Hc|discriminate Hc].
    + intros _ b p cur cur' ls ls' Hc H. cbn [strip_line_ends rx xcaps]. constructor; [|constructor].
      split; [reflexivity|]. cbn [snd]. apply F2_snoc; assumption.
  - inversion N as [|? ? Hn Nt]; subst. destruct (IH Nt) as [IH1 IH2]. split.
    + intros b p cur ls ls' Hc H. rewrite sle_cons2.
      destruct n as [k x q]; destruct k;
        cbn [next_plain_is_sep is_on is_off is_break is_repos is_text i_kind orb andb] in Hc |- *.
      * destruct (next_plain_is_sep t) eqn:Es.
        -- cbn [rx rstrip_node i_kind i_text i_pos]. rewrite !xcaps_tagx. apply (IH2 Es); [apply srel_rstrip; exact (Hn eq_refl)|exact H].
        -- cbn [rx i_kind i_text]. rewrite !xcaps_tagx. apply IH1; [right; exact Es|exact H].
      * assert (Hc' : endsb cur = false) by (destruct Hc as [Hc|Hc]; [exact Hc|discriminate Hc]).
        cbn [rx i_kind xcaps]. apply IH1; [left; reflexivity|]. apply F2_snoc; [exact H|exact (srel_refl cur Hc')].
      * cbn [rx i_kind]. apply IH1; assumption.
      * cbn [rx i_kind]. apply IH1; assumption.
      * assert (Hc' : endsb cur = false) by (destruct Hc as [Hc|Hc]; [exact Hc|discriminate Hc]).
        cbn [rx i_kind i_pos xcaps]. constructor; [|apply IH1; [left; reflexivity|constructor]].
        split; [reflexivity|]. cbn [snd]. apply F2_snoc; [exact H|exact (srel_refl cur Hc')].
    + intros Hs b p cur cur' ls ls' Hc H. rewrite sle_cons2.
      destruct n as [k x q]; destruct k;
        cbn [next_plain_is_sep is_on is_off is_break is_repos is_text i_kind orb andb] in Hs |- *.
      * discriminate Hs.
      * cbn [rx i_kind xcaps]. apply IH1; [left; reflexivity|]. apply F2_snoc; assumption.
      * cbn [rx i_kind]. apply (IH2 Hs); assumption.
      * cbn [rx i_kind]. apply (IH2 Hs); assumption.
      * cbn [rx i_kind i_pos xcaps]. constructor; [|apply IH1; [left; reflexivity|constructor]].
        split; [reflexivity|]. cbn [snd]. apply F2_snoc; assumption.
Qed.

Lemma format_view : forall l p, Forall2 vrel (xcaps (rx false l) p [] []) (xcaps (rx false (format_italics l)) p [] []).
Proof.
  intros l p. rewrite format_italics_is, <- (passes16_rx l).
  apply (proj1 (sle_view_aux (passes16 l) (passes16_net l))); [left; reflexivity|constructor].
Qed.

Lemma format_chk : forall l, chk false (format_italics l) = true.
Proof. exact italics_balanced. Qed.


(* ---- 6. the decoder's buffer and tracker, seen through rx ------------------------------------------------------------ *)
(* a BREAK / REPOSITION the tracker still owes *)
Definition pend (tk : tracker) : list xch :=
  match tk_break tk with Some _ => [XB] | None => if tk_repos tk then [XR (current_position tk)] else [] end.
Definition norm (tk : tracker) : tracker := mkTk (tk_pos tk) None false (tk_default tk).
Definition tkgood (tk : tracker) : Prop := tk_break tk = None \/ tk_repos tk = false.

(* positions: text nodes with text carry their caption's address; unless a reposition is owed, the tracker's position is
   the address of the last caption, and so is the position of the last node if it is a text node *)
Definition PI (p0 : pos) (tk : tracker) (nodes : list inode) : Prop :=
  W p0 nodes /\
  (tk_repos tk = false -> current_position tk = fa p0 nodes /\
     forall n, last (map Some nodes) None = Some n -> is_text n = true -> i_pos n = fa p0 nodes).

Definition St (p0 : pos) (tk : tracker) (nodes : list inode) (sty : istyle) (V : list xch) (ital : bool) : Prop :=
  tkgood tk /\ rx false nodes ++ pend tk = V /\ fin false nodes = ital /\ is_son sty = ital /\ PI p0 tk nodes.

Lemma fa_snoc_nr : forall p l n, is_repos n = false -> fa p (l ++ [n]) = fa p l.
Proof. intros p l n H. rewrite fa_app. cbn [fa]. rewrite H. reflexivity. Qed.

Lemma last_inj : forall A (l l' : list A) a b, l ++ [a] = l' ++ [b] -> l = l' /\ a = b.
Proof. intros A l l' a b H. apply app_inj_tail in H. exact H. Qed.

Lemma exists_last_or_nil : forall A (l : list A), l = [] \/ exists l' a, l = l' ++ [a].
Proof. intros A l. destruct l as [|x t]; [left; reflexivity|right]. destruct (exists_last (l := x :: t)) as (l' & a & E); [discriminate|]. exists l', a. exact E. Qed.

Ltac lastgoal := let n := fresh "n" in let E := fresh "E" in
  intros n E _; first [rewrite last_some_app in E | cbn [map last] in E]; injection E as <-.

Lemma tagx_nil : forall b, tagx b [] = [].
Proof. reflexivity. Qed.

Ltac rxfin :=
  rewrite ?rx_app, ?fin_app; cbn [rx fin i_kind i_text i_pos];
  repeat match goal with H : i_kind _ = IText |- _ => rewrite !H end;
  cbn [rx fin i_kind i_text i_pos]; rewrite ?tagx_nil, ?tagx_app, ?app_nil_r, <- ?app_assoc; cbn [app]; try reflexivity.

Lemma add_chars_inv : forall p0 tk nodes sty V ital s, St p0 tk nodes sty V ital ->
  exists nodes', add_chars tk (mkCr nodes sty) s = (norm tk, mkCr nodes' sty) /\
                 St p0 (norm tk) nodes' sty (V ++ tagx ital s) ital.
Proof.
  intros p0 tk nodes sty V ital s (Hg & Hr & Hf & Hy & Hw & Hp). subst ital. set (ital := fin false nodes) in *.
  destruct tk as [ps brk rep dflt].
  assert (Ecur : forall b r, current_position (mkTk ps b r dflt) = current_position (mkTk ps brk rep dflt)) by reflexivity.
  unfold tkgood, pend, norm in *. cbn [tk_break tk_repos tk_pos tk_default] in *.
  unfold add_chars. cbn [cr_nodes cr_style break_required tk_break tk_repos tk_pos tk_default ack_break ack_repos].
  set (cur := current_position (mkTk ps brk rep dflt)) in *.
  assert (G : forall nodes', rx false nodes' = rx false nodes ++ (match brk with Some _ => [XB] | None => if rep then [XR cur] else [] end) ++ tagx ital s ->
              fin false nodes' = ital -> W p0 nodes' ->
              (cur = fa p0 nodes' /\ forall n, last (map Some nodes') None = Some n -> is_text n = true -> i_pos n = fa p0 nodes') ->
              St p0 (mkTk ps None false dflt) nodes' sty (V ++ tagx ital s) ital).
  { intros nodes' E1 E2 E3 E4. split; [left; reflexivity|]. split; [|split; [exact E2|split; [exact Hy|split; [exact E3|]]]].
    - unfold pend. cbn [tk_break tk_repos]. rewrite app_nil_r, E1, <- Hr, <- !app_assoc. reflexivity.
    - intros _. rewrite (Ecur None false). exact E4. }
  assert (Hnr : forall x, is_text x = true -> is_repos x = false) by (intros [k x q]; destruct k; cbn; congruence).
  unfold ital in *. clear ital. destruct (exists_last_or_nil _ nodes) as [En|(l & n & En)]; subst nodes.
  - (* empty buffer *)
    cbn [map last app]. destruct brk as [c|]; [|destruct rep].
    + destruct Hg as [X|Hg]; [discriminate|]. subst rep. destruct (Hp eq_refl) as [Hc _]. cbn [fa] in Hc.
      eexists. split; [reflexivity|]. cbn [map_last app]. unfold add_text. cbn [i_kind i_text i_pos app]. apply G.
      * rxfin.
      * rxfin.
      * cbn [W i_kind i_text i_pos]. rewrite Hc. intuition auto.
      * cbn [fa is_repos i_kind]. split; [exact Hc|].
        lastgoal; exact Hc.
    + eexists. split; [reflexivity|]. cbn [map_last app]. unfold add_text. cbn [i_kind i_text i_pos app]. apply G.
      * rxfin.
      * rxfin.
      * cbn [W i_kind i_text i_pos]. intuition auto.
      * cbn [fa is_repos i_kind i_pos]. split; [reflexivity|].
        lastgoal; reflexivity.
    + destruct (Hp eq_refl) as [Hc _]. cbn [fa] in Hc.
      eexists. split; [reflexivity|]. cbn [map_last app]. unfold add_text. cbn [i_kind i_text i_pos app]. apply G.
      * rxfin.
      * rxfin.
      * cbn [W i_kind i_text i_pos]. rewrite Hc. intuition auto.
      * cbn [fa is_repos i_kind]. split; [exact Hc|].
        lastgoal; exact Hc.
  - rewrite last_some_app. apply W_app in Hw. destruct Hw as [Hw1 Hw2].
    destruct (is_text n) eqn:Etn; cbn [andb].
    + (* the last node is a text node *)
      assert (Hk : i_kind n = IText) by (unfold is_text in Etn; destruct (i_kind n); try discriminate; reflexivity).
      assert (Efn : fa p0 (l ++ [n]) = fa p0 l) by (apply fa_snoc_nr; exact (Hnr n Etn)).
      assert (Hw2' : i_text n = [] \/ i_pos n = fa p0 l) by (cbn [W] in Hw2; rewrite Hk in Hw2; tauto).
      destruct brk as [c|]; [|destruct rep]; cbn [break_required tk_break tk_repos tk_pos tk_default ack_break ack_repos negb andb].
      * destruct Hg as [X|Hg]; [discriminate|]. subst rep.
        cbn [break_required tk_break tk_repos tk_pos tk_default ack_break ack_repos negb andb].
        replace ((l ++ [n]) ++ [mkI IBreak [] cur; mkI IText [] cur]) with ((l ++ [n; mkI IBreak [] cur]) ++ [mkI IText [] cur])
          by (rewrite <- !app_assoc; reflexivity).
        rewrite map_last_snoc. eexists. split; [reflexivity|]. unfold add_text. cbn [i_kind i_text i_pos app].
        destruct (Hp eq_refl) as [Hc Hl]. rewrite Efn in Hc.
        assert (Ef : fa p0 ((l ++ [n; mkI IBreak [] cur]) ++ [mkI IText s cur]) = fa p0 l).
        { rewrite !fa_app. cbn [fa is_repos i_kind]. rewrite (Hnr n Etn). reflexivity. }
        apply G.
        -- rxfin.
        -- rxfin.
        -- apply W_app. split; [apply W_app; split; [exact Hw1|]|].
           ++ cbn [W]. rewrite Hk. cbn [i_kind]. tauto.
           ++ rewrite fa_app. cbn [fa is_repos i_kind]. rewrite (Hnr n Etn). cbn [W i_kind i_text i_pos]. intuition auto.
        -- rewrite Ef. split; [exact Hc|]. lastgoal; exact Hc.
      * replace (((l ++ [n]) ++ [mkI IText [] cur]) ++ [mkI IRepos [] cur; mkI IText [] cur])
          with ((l ++ [n; mkI IText [] cur; mkI IRepos [] cur]) ++ [mkI IText [] cur]) by (rewrite <- !app_assoc; reflexivity).
        rewrite map_last_snoc. eexists. split; [reflexivity|]. unfold add_text. cbn [i_kind i_text i_pos app].
        assert (Ef : fa p0 ((l ++ [n; mkI IText [] cur; mkI IRepos [] cur]) ++ [mkI IText s cur]) = cur).
        { rewrite !fa_app. cbn [fa is_repos i_kind i_pos]. rewrite (Hnr n Etn). reflexivity. }
        apply G.
        -- rxfin.
        -- rxfin.
        -- apply W_app. split; [apply W_app; split; [exact Hw1|]|].
           ++ cbn [W]. rewrite Hk. cbn [i_kind i_text i_pos]. intuition auto.
           ++ rewrite fa_app. cbn [fa is_repos i_kind i_pos]. rewrite (Hnr n Etn). cbn [W i_kind i_text i_pos]. intuition auto.
        -- rewrite Ef. split; [reflexivity|]. lastgoal; reflexivity.
      * rewrite map_last_snoc. eexists. split; [reflexivity|]. destruct (Hp eq_refl) as [Hc Hl]. rewrite Efn in Hc, Hl.
        pose proof (Hl n (last_some_app _ l n) Etn) as Hpn. unfold add_text.
        assert (Ef : fa p0 (l ++ [mkI (i_kind n) (i_text n ++ s) (i_pos n)]) = fa p0 l).
        { apply fa_snoc_nr. unfold is_repos. cbn [i_kind]. rewrite Hk. reflexivity. }
        apply G.
        -- rxfin.
        -- rxfin.
        -- apply W_app. split; [exact Hw1|]. rewrite Hk. cbn [W i_kind i_text i_pos]. intuition auto.
        -- rewrite Ef. split; [exact Hc|]. lastgoal; exact Hpn.
    + (* the last node is not a text node *)
      destruct brk as [c|]; [|destruct rep]; cbn [break_required tk_break tk_repos tk_pos tk_default ack_break ack_repos negb andb].
      * destruct Hg as [X|Hg]; [discriminate|]. subst rep.
        replace (((l ++ [n]) ++ [mkI IText [] cur]) ++ [mkI IBreak [] cur; mkI IText [] cur])
          with (((l ++ [n]) ++ [mkI IText [] cur; mkI IBreak [] cur]) ++ [mkI IText [] cur]) by (rewrite <- !app_assoc; reflexivity).
        rewrite map_last_snoc. eexists. split; [reflexivity|]. unfold add_text. cbn [i_kind i_text i_pos app].
        destruct (Hp eq_refl) as [Hc Hl].
        assert (Ef : fa p0 (((l ++ [n]) ++ [mkI IText [] cur; mkI IBreak [] cur]) ++ [mkI IText s cur]) = fa p0 (l ++ [n])).
        { rewrite (fa_app ((l ++ [n]) ++ _)), (fa_app (l ++ [n])). reflexivity. }
        apply G.
        -- rxfin.
        -- rxfin.
        -- apply W_app. split; [apply W_app; split; [apply W_app; split; assumption|]|].
           ++ cbn [W i_kind i_text i_pos]. intuition auto.
           ++ rewrite (fa_app (l ++ [n])). cbn [fa is_repos i_kind W i_text i_pos]. rewrite Hc. intuition auto.
        -- rewrite Ef. split; [exact Hc|]. lastgoal; exact Hc.
      * replace (((l ++ [n]) ++ [mkI IText [] cur]) ++ [mkI IRepos [] cur; mkI IText [] cur])
          with (((l ++ [n]) ++ [mkI IText [] cur; mkI IRepos [] cur]) ++ [mkI IText [] cur]) by (rewrite <- !app_assoc; reflexivity).
        rewrite map_last_snoc. eexists. split; [reflexivity|]. unfold add_text. cbn [i_kind i_text i_pos app].
        assert (Ef : fa p0 (((l ++ [n]) ++ [mkI IText [] cur; mkI IRepos [] cur]) ++ [mkI IText s cur]) = cur).
        { rewrite (fa_app ((l ++ [n]) ++ _)), (fa_app (l ++ [n])). reflexivity. }
        apply G.
        -- rxfin.
        -- rxfin.
        -- apply W_app. split; [apply W_app; split; [apply W_app; split; assumption|]|].
           ++ cbn [W i_kind i_text i_pos]. intuition auto.
           ++ rewrite (fa_app (l ++ [n])). cbn [fa is_repos i_kind W i_text i_pos]. intuition auto.
        -- rewrite Ef. split; [reflexivity|]. lastgoal; reflexivity.
      * rewrite map_last_snoc. eexists. split; [reflexivity|]. unfold add_text. cbn [i_kind i_text i_pos app].
        destruct (Hp eq_refl) as [Hc Hl].
        apply G.
        -- rxfin.
        -- rxfin.
        -- apply W_app. split; [apply W_app; split; assumption|]. cbn [W i_kind i_text i_pos]. rewrite Hc. intuition auto.
        -- rewrite (fa_app (l ++ [n])). cbn [fa is_repos i_kind]. split; [exact Hc|]. lastgoal; exact Hc.
Qed.


(* ---- 7. the last text node with text (get_previous_text_node), on any buffer ----------------------------------------- *)
Lemma existsb_rev : forall A (f : A -> bool) l, existsb f (rev l) = existsb f l.
Proof.
  intros A f l. induction l as [|a l IH]; [reflexivity|]. cbn [rev existsb]. rewrite existsb_app, IH. cbn [existsb].
  rewrite orb_false_r. apply orb_comm.
Qed.

Lemma prev_cases8 : forall nodes,
  (quiet nodes /\ prev_text nodes = None /\ forall f, upd_prev_text f nodes = nodes) \/
  (exists l1 n l2, nodes = l1 ++ n :: l2 /\ quiet l2 /\ is_text n = true /\ i_text n <> [] /\
     prev_text nodes = Some (i_text n, existsb is_break l2) /\
     forall f, upd_prev_text f nodes = l1 ++ mkI IText (f (i_text n)) (i_pos n) :: l2).
Proof.
  intros nodes. unfold prev_text, upd_prev_text.
  destruct (prev_rev_cases (rev nodes) false) as [(Q & P & U)|(r2 & n & r1 & E & Q & T & N & P & U)].
  - left. repeat split; [|exact P|intros f; rewrite U; apply rev_involutive].
    rewrite <- (rev_involutive nodes). exact (forallb_rev _ _ _ Q).
  - right. exists (rev r1), n, (rev r2).
    assert (En : nodes = rev r1 ++ n :: rev r2).
    { rewrite <- (rev_involutive nodes), E, rev_app_distr. cbn [rev]. rewrite <- app_assoc. reflexivity. }
    assert (Hk : i_kind n = IText) by (unfold is_text in T; destruct (i_kind n); try discriminate; reflexivity).
    repeat split; try assumption.
    + exact (forallb_rev _ _ _ Q).
    + rewrite P, existsb_rev. reflexivity.
    + intros f. rewrite U, rev_app_distr. cbn [rev]. rewrite <- app_assoc, Hk. reflexivity.
Qed.

Definition issep (x : xch) : bool := match x with XC _ _ => false | _ => true end.
Definition isxb (x : xch) : bool := match x with XB => true | _ => false end.
Definition seps (S : list xch) : Prop := forallb issep S = true.

Lemma quiet_rx : forall l b, quiet l -> seps (rx b l) /\ existsb isxb (rx b l) = existsb is_break l.
Proof.
  induction l as [|n t IH]; intros b H; [split; reflexivity|]. unfold quiet in *. cbn [forallb] in H. apply andb_true_iff in H.
  destruct H as [H1 H2]. destruct n as [k x q]; destruct k; cbn [rx i_kind i_text i_pos is_text is_break andb negb existsb] in *.
  - destruct x; [|discriminate H1]. cbn [tagx map app]. exact (IH b H2).
  - destruct (IH b H2) as [A B]. split; [exact A|]. cbn [existsb isxb orb]. reflexivity.
  - exact (IH true H2).
  - exact (IH false H2).
  - destruct (IH b H2) as [A B]. split; [exact A|]. cbn [existsb isxb orb]. exact B.
Qed.

Lemma seps_app : forall a b, seps (a ++ b) <-> seps a /\ seps b.
Proof. intros a b. unfold seps. rewrite forallb_app, andb_true_iff. reflexivity. Qed.

(* what the buffer shows around that node *)
Lemma prev_rx : forall nodes b0,
  (prev_text nodes = None /\ (forall f, upd_prev_text f nodes = nodes) /\ seps (rx b0 nodes)) \/
  (exists l1 n l2 A b S, nodes = l1 ++ n :: l2 /\ is_text n = true /\ i_text n <> [] /\
     prev_text nodes = Some (i_text n, existsb isxb S) /\ seps S /\
     (forall f, upd_prev_text f nodes = l1 ++ mkI IText (f (i_text n)) (i_pos n) :: l2) /\
     (forall txt, rx b0 (l1 ++ mkI IText txt (i_pos n) :: l2) = A ++ tagx b txt ++ S) /\
     rx b0 nodes = A ++ tagx b (i_text n) ++ S /\
     (forall txt, fin b0 (l1 ++ mkI IText txt (i_pos n) :: l2) = fin b0 nodes)).
Proof.
  intros nodes b0. destruct (prev_cases8 nodes) as [(Q & P & U)|(l1 & n & l2 & E & Q & T & N & P & U)].
  - left. split; [exact P|split; [exact U|exact (proj1 (quiet_rx nodes b0 Q))]].
  - right. assert (Hk : i_kind n = IText) by (unfold is_text in T; destruct (i_kind n); try discriminate; reflexivity).
    destruct (quiet_rx l2 (fin b0 l1) Q) as [HS HB].
    exists l1, n, l2, (rx b0 l1), (fin b0 l1), (rx (fin b0 l1) l2).
    split; [exact E|split; [exact T|split; [exact N|split; [rewrite P, HB; reflexivity|split; [exact HS|split; [exact U|split; [|split]]]]]]].
    + intros txt. rewrite rx_app. cbn [rx i_kind i_text]. reflexivity.
    + rewrite E, rx_app. cbn [rx]. rewrite Hk. reflexivity.
    + intros txt. rewrite E, !fin_app. cbn [fin i_kind]. rewrite Hk. reflexivity.
Qed.

(* replacing the text of a text node keeps the addresses *)
Lemma PI_upd : forall p0 tk l1 n l2 txt, is_text n = true -> i_text n <> [] -> PI p0 tk (l1 ++ n :: l2) ->
  PI p0 tk (l1 ++ mkI IText txt (i_pos n) :: l2).
Proof.
  intros p0 tk l1 n l2 txt T N [Hw Hp].
  assert (Hk : i_kind n = IText) by (unfold is_text in T; destruct (i_kind n); try discriminate; reflexivity).
  assert (Ef : fa p0 (l1 ++ mkI IText txt (i_pos n) :: l2) = fa p0 (l1 ++ n :: l2)).
  { rewrite !fa_app. cbn [fa]. unfold is_repos. cbn [i_kind]. rewrite Hk. reflexivity. }
  split.
  - apply W_app in Hw. destruct Hw as [H1 H2]. apply W_app. split; [exact H1|]. cbn [W] in H2 |- *. rewrite Hk in H2. cbn [i_kind i_text i_pos].
    destruct H2 as [[X|H2] H3]; [congruence|]. split; [right; exact H2|exact H3].
  - intros Hr. destruct (Hp Hr) as [Hc Hl]. rewrite Ef. split; [exact Hc|]. intros m E Tm.
    destruct (exists_last_or_nil _ l2) as [->|(l2' & z & ->)].
    + rewrite last_some_app in E. injection E as <-. cbn [i_pos]. apply (Hl n); [apply last_some_app|exact T].
    + apply (Hl m); [|exact Tm]. rewrite app_comm_cons, app_assoc, last_some_app in E |- *. exact E.
Qed.


(* ---- 8. list surgery: the last character of a flat list ------------------------------------------------------------------ *)
Lemma first_char_unique : forall l1 l2 x y (r1 r2 : list xch), seps l1 -> seps l2 -> issep x = false -> issep y = false ->
  l1 ++ x :: r1 = l2 ++ y :: r2 -> l1 = l2 /\ x = y /\ r1 = r2.
Proof.
  induction l1 as [|a l1 IH]; intros l2 x y r1 r2 H1 H2 Hx Hy E.
  - destruct l2 as [|b l2]; cbn [app] in E.
    + injection E as -> ->. repeat split.
    + injection E as -> _. unfold seps in H2. cbn [forallb] in H2. rewrite Hx in H2. discriminate.
  - destruct l2 as [|b l2]; cbn [app] in E.
    + injection E as -> _. unfold seps in H1. cbn [forallb] in H1. rewrite Hy in H1. discriminate.
    + injection E as -> E. unfold seps in *. cbn [forallb] in H1, H2. apply andb_true_iff in H1, H2.
      destruct (IH l2 x y r1 r2 (proj2 H1) (proj2 H2) Hx Hy E) as (-> & -> & ->). repeat split.
Qed.

Lemma seps_rev : forall S, seps S -> seps (rev S).
Proof. intros S H. exact (forallb_rev _ _ _ H). Qed.

Lemma last_char_unique : forall A B c b c' b' S S', seps S -> seps S' ->
  A ++ XC c b :: S = B ++ XC c' b' :: S' -> A = B /\ c = c' /\ b = b' /\ S = S'.
Proof.
  intros A B c b c' b' S S' H1 H2 E. apply (f_equal (@rev xch)) in E. rewrite !rev_app_distr in E. cbn [rev] in E.
  rewrite <- !app_assoc in E. cbn [app] in E.
  destruct (first_char_unique (rev S) (rev S') (XC c b) (XC c' b') _ _ (seps_rev _ H1) (seps_rev _ H2) eq_refl eq_refl E) as (E1 & E2 & E3).
  apply (f_equal (@rev xch)) in E1, E3. rewrite !rev_involutive in E1, E3. injection E2 as -> ->. subst. repeat split.
Qed.

Lemma pend_cases : forall tk, pend tk = [] \/ exists z, issep z = true /\ pend tk = [z].
Proof.
  intros tk. unfold pend. destruct (tk_break tk); [right; exists XB; split; reflexivity|].
  destruct (tk_repos tk); [right; exists (XR (current_position tk)); split; reflexivity|left; reflexivity].
Qed.

Lemma ends_char_nopend : forall X tk V0 c b, X ++ pend tk = V0 ++ [XC c b] -> pend tk = [] /\ X = V0 ++ [XC c b].
Proof.
  intros X tk V0 c b E. destruct (pend_cases tk) as [P|(z & Hz & P)]; rewrite P in E.
  - rewrite app_nil_r in E. split; assumption.
  - apply app_inj_tail in E. destruct E as [_ ->]. discriminate Hz.
Qed.

Lemma pend_nil_norm : forall tk, tkgood tk -> pend tk = [] -> tk = norm tk.
Proof.
  intros [ps brk rep dflt] Hg H. unfold pend, norm in *. cbn [tk_break tk_repos tk_pos tk_default] in *.
  destruct brk; [discriminate|]. destruct rep; [discriminate|]. reflexivity.
Qed.

(* ---- 9. has_break_before: no BREAK since the last text node ------------------------------------------------------------ *)
Definition HB (nodes : list inode) (V : list xch) : Prop :=
  (exists V0 c b, V = V0 ++ [XC c b]) -> has_break_before nodes = false.
Definition St2 (p0 : pos) (tk : tracker) (nodes : list inode) (sty : istyle) (V : list xch) (ital : bool) : Prop :=
  St p0 tk nodes sty V ital /\ HB nodes V.

Lemma hbb_snoc : forall l n, has_break_before (l ++ [n]) = if is_text n then false else if is_break n then true else has_break_before l.
Proof. intros l n. unfold has_break_before. rewrite rev_unit. reflexivity. Qed.

Lemma map_last_last_text : forall l s, l <> [] -> (exists pre n, l = pre ++ [n] /\ is_text n = true) ->
  exists pre n, map_last (add_text s) l = pre ++ [n] /\ is_text n = true.
Proof.
  intros l s _ (pre & n & -> & T). exists pre, (add_text s n). rewrite map_last_snoc. split; [reflexivity|exact T].
Qed.

Lemma add_chars_hbb : forall tk c s, has_break_before (cr_nodes (snd (add_chars tk c s))) = false.
Proof.
  intros tk c s. unfold add_chars. cbv zeta.
  set (cur := current_position tk).
  set (reuse := match last (map Some (cr_nodes c)) None with Some n => is_text n && negb (tk_repos tk) | None => false end).
  assert (H1 : exists pre n, (if reuse then cr_nodes c else cr_nodes c ++ [mkI IText [] cur]) = pre ++ [n] /\ is_text n = true).
  { destruct reuse eqn:Er; [|exists (cr_nodes c), (mkI IText [] cur); split; reflexivity].
    unfold reuse in Er. destruct (exists_last_or_nil _ (cr_nodes c)) as [E|(l & n & E)]; rewrite E in *.
    - discriminate Er.
    - rewrite last_some_app in Er. apply andb_true_iff in Er. exists l, n. split; [reflexivity|exact (proj1 Er)]. }
  set (nodes1 := if reuse then cr_nodes c else cr_nodes c ++ [mkI IText [] cur]) in *.
  assert (K : forall l, (exists pre n, l = pre ++ [n] /\ is_text n = true) -> has_break_before (map_last (add_text s) l) = false).
  { intros l (pre & n & -> & T). rewrite map_last_snoc, hbb_snoc. unfold add_text, is_text in *. cbn [i_kind]. rewrite T. reflexivity. }
  destruct (break_required tk); [|destruct (tk_repos tk)]; cbn [snd cr_nodes]; apply K.
  - exists (nodes1 ++ [mkI IBreak [] cur]), (mkI IText [] cur). split; [rewrite <- app_assoc; reflexivity|reflexivity].
  - exists (nodes1 ++ [mkI IRepos [] cur]), (mkI IText [] cur). split; [rewrite <- app_assoc; reflexivity|reflexivity].
  - exact H1.
Qed.

Lemma add_chars_inv2 : forall p0 tk nodes sty V ital s, St2 p0 tk nodes sty V ital ->
  exists nodes', add_chars tk (mkCr nodes sty) s = (norm tk, mkCr nodes' sty) /\
                 St2 p0 (norm tk) nodes' sty (V ++ tagx ital s) ital.
Proof.
  intros p0 tk nodes sty V ital s [H _]. destruct (add_chars_inv p0 tk nodes sty V ital s H) as (nodes' & E & H').
  exists nodes'. split; [exact E|]. split; [exact H'|]. intros _.
  pose proof (add_chars_hbb tk (mkCr nodes sty) s) as B. rewrite E in B. exact B.
Qed.

Lemma hbb_kinds : forall l l', map i_kind l = map i_kind l' -> has_break_before l = has_break_before l'.
Proof.
  intros l l' H. unfold has_break_before.
  assert (E : map i_kind (rev l) = map i_kind (rev l')) by (rewrite !map_rev, H; reflexivity).
  revert E. generalize (rev l) (rev l'). clear. induction l as [|a l IH]; intros [|b l'] E; try discriminate E; [reflexivity|].
  cbn [map] in E. injection E as E1 E2. cbn [has_break_before_rev]. unfold is_text, is_break. rewrite E1.
  destruct (i_kind b); try reflexivity; exact (IH _ E2).
Qed.

(* ---- 10. backspace ---------------------------------------------------------------------------------------------------------- *)
Lemma removelast_snoc : forall A (l : list A) x, removelast (l ++ [x]) = l.
Proof. intros. apply removelast_last. Qed.

Lemma drop_last_St : forall p0 tk nodes sty V0 c b ital, St2 p0 tk nodes sty (V0 ++ [XC c b]) ital ->
  exists txt, prev_text nodes = Some (txt, false) /\ last_char txt = c /\
    St2 p0 tk (upd_prev_text drop_last nodes) sty V0 ital.
Proof.
  intros p0 tk nodes sty V0 c b ital [(Hg & Hr & Hf & Hy & Hp) Hb].
  destruct (ends_char_nopend _ _ _ _ _ Hr) as [Pn Er].
  destruct (prev_rx nodes false) as [(_ & _ & Sx)|(l1 & n & l2 & A & bb & S & E & T & N & P & HS & U & RX & R0 & FN)].
  - exfalso. rewrite Er in Sx. apply seps_app in Sx. destruct Sx as [_ Sx]. discriminate Sx.
  - destruct (exists_last N) as (t0 & c' & Et). rewrite Et in R0. rewrite tagx_app in R0. cbn [tagx map] in R0.
    rewrite Er in R0. rewrite <- app_assoc in R0. cbn [app] in R0. rewrite app_assoc in R0.
    change (V0 ++ [XC c b]) with (V0 ++ XC c b :: []) in R0.
    destruct (last_char_unique _ _ _ _ _ _ _ _ (eq_refl : seps []) HS R0) as (EA & -> & -> & <-).
    exists (i_text n). split; [rewrite P; reflexivity|]. split; [rewrite Et; unfold last_char; apply last_last|].
    rewrite U. unfold drop_last. rewrite Et, removelast_snoc.
    assert (HB' : has_break_before (l1 ++ mkI IText t0 (i_pos n) :: l2) = has_break_before nodes).
    { apply hbb_kinds. rewrite E, !map_app. cbn [map i_kind]. unfold is_text in T. destruct (i_kind n); try discriminate T. reflexivity. }
    split; [split; [exact Hg|split; [|split; [|split; [exact Hy|]]]]|].
    + rewrite RX, Pn, !app_nil_r. symmetry. exact EA.
    + rewrite FN. exact Hf.
    + apply PI_upd; [exact T|exact N|]. rewrite <- E. exact Hp.
    + intros X. rewrite HB'. apply Hb. eexists _, _, _. reflexivity.
Qed.

Lemma hb_bs_St : forall p0 tk nodes sty V0 c b ital, St2 p0 tk nodes sty (V0 ++ [XC c b]) ital ->
  exists nodes', handle_backspace w_bs (mkCr nodes sty) = mkCr nodes' sty /\ St2 p0 tk nodes' sty V0 ital.
Proof.
  intros p0 tk nodes sty V0 c b ital H. destruct (drop_last_St _ _ _ _ _ _ _ _ H) as (txt & P & _ & H').
  unfold handle_backspace. cbn [cr_nodes cr_style]. rewrite P, Z.eqb_refl, orb_true_r.
  eexists. split; [reflexivity|exact H'].
Qed.

Lemma hb_ext_St : forall p0 tk nodes sty V0 c b ital w x, St2 p0 tk nodes sty (V0 ++ [XC c b]) ital ->
  extended_of w = Some x -> is_extended_value c = false ->
  exists nodes', handle_backspace w (mkCr nodes sty) = mkCr nodes' sty /\ St2 p0 tk nodes' sty V0 ital.
Proof.
  intros p0 tk nodes sty V0 c b ital w x H He Hc. destruct (drop_last_St _ _ _ _ _ _ _ _ H) as (txt & P & L & H').
  unfold handle_backspace. cbn [cr_nodes cr_style]. rewrite P, He, L, Hc. cbn [andb negb orb].
  eexists. split; [reflexivity|exact H'].
Qed.


(* ---- 11. style nodes (mid-row codes and preamble address codes), with the BREAK they may materialise --------------------- *)
Lemma PI_snoc_nt : forall p0 tk tk' l x, is_text x = false -> is_repos x = false -> tk_repos tk' = tk_repos tk ->
  current_position tk' = current_position tk -> PI p0 tk l -> PI p0 tk' (l ++ [x]).
Proof.
  intros p0 tk tk' l x Hx Hr E1 E2 [Hw Hp]. split.
  - apply W_app. split; [exact Hw|]. destruct x as [k y q]; destruct k; try discriminate Hx; try discriminate Hr; exact I.
  - rewrite E1, E2, (fa_snoc_nr _ _ _ Hr). intros R. destruct (Hp R) as [Hc _]. split; [exact Hc|].
    intros n E T. rewrite last_some_app in E. injection E as <-. rewrite Hx in T. discriminate T.
Qed.

Lemma not_ends_char : forall (X : list xch) z, issep z = true -> ~ exists V0 c b, X ++ [z] = V0 ++ [XC c b].
Proof. intros X z Hz (V0 & c & b & E). apply app_inj_tail in E. destruct E as [_ ->]. discriminate Hz. Qed.

Lemma pac_style_St : forall p0 tk nodes sty V ital it, St2 p0 tk nodes sty V ital ->
  exists tk' nodes' sty', pac_style it sty tk nodes = (tk', mkCr nodes' sty') /\ St2 p0 tk' nodes' sty' V it /\
     tk_pos tk' = tk_pos tk /\ tk_default tk' = tk_default tk /\ tk_repos tk' = tk_repos tk /\
     (tk_break tk' = tk_break tk \/ (tk_break tk' = None /\ tk_break tk <> None /\ has_break_before nodes' = true)).
Proof.
  intros p0 tk nodes sty V ital it [(Hg & Hr & Hf & Hy & Hp) Hb].
  destruct tk as [ps brk rep dflt]. unfold tkgood in Hg. cbn [tk_break tk_repos] in Hg.
  unfold pac_style. cbv zeta. cbn [break_required tk_break ack_break tk_pos tk_repos tk_default].
  set (tk := mkTk ps brk rep dflt) in *. set (cur := current_position tk).
  assert (Same : is_son sty = it ->
     exists tk' nodes' sty', (tk, mkCr nodes sty) = (tk', mkCr nodes' sty') /\ St2 p0 tk' nodes' sty' V it /\
       tk_pos tk' = tk_pos tk /\ tk_default tk' = tk_default tk /\ tk_repos tk' = tk_repos tk /\
       (tk_break tk' = tk_break tk \/ (tk_break tk' = None /\ tk_break tk <> None /\ has_break_before nodes' = true))).
  { intros E. exists tk, nodes, sty. split; [reflexivity|]. replace it with ital by congruence.
    split; [split; [exact (conj Hg (conj Hr (conj Hf (conj Hy Hp))))|exact Hb]|repeat split; left; reflexivity]. }
  (* one style node, no break owed *)
  assert (One : forall x sty', is_text x = false -> is_repos x = false -> is_break x = false -> rx (fin false nodes) [x] = [] ->
     fin (fin false nodes) [x] = it -> is_son sty' = it ->
     St2 p0 tk (nodes ++ [x]) sty' V it).
  { intros x sty' H1 H2 H3 H4 H5 H6. split; [split; [exact Hg|split; [|split; [|split; [exact H6|]]]]|].
    - rewrite rx_app, H4, app_nil_r. exact Hr.
    - rewrite fin_app. exact H5.
    - apply (PI_snoc_nt p0 tk tk); try assumption; reflexivity.
    - intros X. rewrite hbb_snoc, H1, H3. exact (Hb X). }
  (* a style node and the owed break *)
  assert (Two : forall c0 x y sty', brk = Some c0 -> is_text x = false -> is_repos x = false -> is_text y = false -> is_repos y = false ->
     rx (fin false nodes) [x; y] = [XB] -> fin (fin false nodes) [x; y] = it -> is_son sty' = it ->
     has_break_before ((nodes ++ [x]) ++ [y]) = true ->
     St2 p0 (mkTk ps None rep dflt) ((nodes ++ [x]) ++ [y]) sty' V it).
  { intros c0 x y sty' Eb H1 H2 H3 H4 H5 H6 H7 H8. subst brk. destruct Hg as [X|Hg]; [discriminate|]. subst rep.
    unfold pend in Hr. cbn [tk_break tk tk_repos] in Hr.
    split; [split; [left; reflexivity|split; [|split; [|split; [exact H7|]]]]|].
    - unfold pend. cbn [tk_break tk_repos]. rewrite <- app_assoc, rx_app. cbn [app]. rewrite H5, app_nil_r. exact Hr.
    - rewrite <- app_assoc, fin_app. exact H6.
    - apply (PI_snoc_nt p0 (mkTk ps None false dflt) (mkTk ps None false dflt)); try assumption; try reflexivity.
      apply (PI_snoc_nt p0 tk (mkTk ps None false dflt)); try assumption; reflexivity.
    - intros X. exfalso. rewrite <- Hr in X. exact (not_ends_char _ XB eq_refl X). }
  destruct it.
  - destruct sty; try (apply Same; reflexivity).
    + destruct brk as [c0|].
      * eexists _, _, _. split; [reflexivity|]. split; [|cbn [tk_pos tk_default tk_repos tk_break tk]; repeat split; right; repeat split; [discriminate|apply hbb_break_on]].
        apply (Two c0); try reflexivity. apply hbb_break_on.
      * eexists _, _, _. split; [reflexivity|]. split; [|repeat split; left; reflexivity]. apply One; reflexivity.
    + destruct brk as [c0|].
      * eexists _, _, _. split; [reflexivity|]. split; [|cbn [tk_pos tk_default tk_repos tk_break tk]; repeat split; right; repeat split; [discriminate|apply hbb_break_on]].
        apply (Two c0); try reflexivity. apply hbb_break_on.
      * eexists _, _, _. split; [reflexivity|]. split; [|repeat split; left; reflexivity]. apply One; reflexivity.
  - destruct sty; try (apply Same; reflexivity).
    destruct brk as [c0|].
    + eexists _, _, _. split; [reflexivity|]. split; [|cbn [tk_pos tk_default tk_repos tk_break tk]; repeat split; right; repeat split; [discriminate|apply hbb_break]].
      apply (Two c0); try reflexivity. apply hbb_break.
    + eexists _, _, _. split; [reflexivity|]. split; [|repeat split; left; reflexivity]. apply One; reflexivity.
Qed.

(* ---- 12. the blank a mid-row code may add ------------------------------------------------------------------------------------ *)
Lemma pend_seps : forall tk, seps (pend tk).
Proof. intros tk. destruct (pend_cases tk) as [->|(z & Hz & ->)]; [reflexivity|]. unfold seps. cbn [forallb]. rewrite Hz. reflexivity. Qed.

Lemma spacing_St : forall p0 tk nodes sty V ital np, St2 p0 tk nodes sty V ital ->
  exists tk' nodes' V', spacing tk (mkCr nodes sty) np = (tk', mkCr nodes' sty) /\ St2 p0 tk' nodes' sty V' ital /\
    (tk' = tk \/ tk' = norm tk) /\
    (V' = V \/ V' = V ++ [XC 32 ital] \/
     exists A c b S, V = A ++ XC c b :: S /\ seps S /\ is_space c = false /\ V' = A ++ XC c b :: XC 32 b :: S).
Proof.
  intros p0 tk nodes sty V ital np H. pose proof H as [(Hg & Hr & Hf & Hy & Hp) Hb].
  unfold spacing. cbn [cr_nodes cr_style].
  assert (Same : exists tk' nodes' V', (tk, mkCr nodes sty) = (tk', mkCr nodes' sty) /\ St2 p0 tk' nodes' sty V' ital /\
    (tk' = tk \/ tk' = norm tk) /\
    (V' = V \/ V' = V ++ [XC 32 ital] \/
     exists A c b S, V = A ++ XC c b :: S /\ seps S /\ is_space c = false /\ V' = A ++ XC c b :: XC 32 b :: S)).
  { exists tk, nodes, V. split; [reflexivity|split; [exact H|split; left; reflexivity]]. }
  destruct (prev_rx nodes false) as [(P & _ & _)|(l1 & n & l2 & A & bb & S & E & T & N & P & HS & U & RX & R0 & FN)]; rewrite P.
  - exact Same.
  - destruct (true && negb (existsb isxb S) && negb (is_space (last_char (i_text n))) && negb false && negb np) eqn:Ec; [|exact Same].
    apply andb_true_iff in Ec. destruct Ec as [Ec _]. apply andb_true_iff in Ec. destruct Ec as [Ec _].
    apply andb_true_iff in Ec. destruct Ec as [_ Ec]. apply negb_true_iff in Ec.
    assert (Upd : exists tk' nodes' V', (tk, mkCr (upd_prev_text (fun s => s ++ [32]) nodes) sty) = (tk', mkCr nodes' sty) /\ St2 p0 tk' nodes' sty V' ital /\
      (tk' = tk \/ tk' = norm tk) /\
      (V' = V \/ V' = V ++ [XC 32 ital] \/
       exists A c b S, V = A ++ XC c b :: S /\ seps S /\ is_space c = false /\ V' = A ++ XC c b :: XC 32 b :: S)).
    { destruct (exists_last N) as (t0 & c' & Et). unfold last_char in Ec. rewrite Et, last_last in Ec.
      assert (EV : V = (A ++ tagx bb t0) ++ XC c' bb :: (S ++ pend tk)).
      { rewrite <- Hr, R0, Et, tagx_app. cbn [tagx map]. rewrite <- !app_assoc. reflexivity. }
      exists tk, (l1 ++ mkI IText (i_text n ++ [32]) (i_pos n) :: l2), ((A ++ tagx bb t0) ++ XC c' bb :: XC 32 bb :: (S ++ pend tk)).
      split; [rewrite U; reflexivity|]. split; [|split; [left; reflexivity|right; right]].
      - split; [split; [exact Hg|split; [|split; [|split; [exact Hy|]]]]|].
        + rewrite RX, Et, !tagx_app. cbn [tagx map]. rewrite <- !app_assoc. reflexivity.
        + rewrite FN. exact Hf.
        + apply PI_upd; [exact T|exact N|]. rewrite <- E. exact Hp.
        + intros (V0 & c0 & b0 & X).
          assert (HB' : has_break_before (l1 ++ mkI IText (i_text n ++ [32]) (i_pos n) :: l2) = has_break_before nodes).
          { apply hbb_kinds. rewrite E, !map_app. cbn [map i_kind]. unfold is_text in T. destruct (i_kind n); try discriminate T. reflexivity. }
          rewrite HB'. apply Hb. rewrite EV.
          destruct (exists_last_or_nil _ (S ++ pend tk)) as [E0|(S1 & z & E0)]; rewrite E0 in *.
          * eexists _, _, _. reflexivity.
          * exfalso. assert (Hz : issep z = true).
            { assert (SS : seps (S1 ++ [z])) by (rewrite <- E0; apply seps_app; split; [exact HS|apply pend_seps]).
              apply seps_app in SS. destruct SS as [_ SS]. unfold seps in SS. cbn [forallb] in SS. rewrite andb_true_r in SS. exact SS. }
            change (XC c' bb :: XC 32 bb :: S1 ++ [z]) with ([XC c' bb; XC 32 bb] ++ S1 ++ [z]) in X. rewrite !app_assoc in X.
            apply app_inj_tail in X. destruct X as [_ ->]. discriminate Hz.
      - exists (A ++ tagx bb t0), c', bb, (S ++ pend tk). split; [exact EV|]. split; [apply seps_app; split; [exact HS|apply pend_seps]|].
        split; [exact Ec|reflexivity]. }
    destruct sty; try exact Upd.
    destruct (add_chars_inv2 p0 tk nodes SOff V ital [32] H) as (nodes' & Ea & Ha).
    exists (norm tk), nodes', (V ++ [XC 32 ital]). split; [exact Ea|]. split; [exact Ha|]. split; [right; reflexivity|right; left; reflexivity].
Qed.

Lemma interp_mid8 : forall tk c w n it, tab_of w = None -> pac_pos w = None -> (w =? w_bs) = false ->
  memz w scc_background_color_codes = false -> memz w scc_style_setting_commands = true ->
  memz w scc_italics_commands = it -> memz w scc_mid_row_codes = true ->
  interpret_command tk c w n =
  (let '(t1, c1) := pac_style it (cr_style c) tk (cr_nodes c) in let '(t2, c2) := spacing t1 c1 (next_punct n) in (t2, c2, None)).
Proof.
  intros tk c w n it Ht Hp Hbs Hbg Hst Hit Hmid. unfold interpret_command, update_positioning, pac_style. cbv zeta.
  rewrite Ht, Hp, Hbs, Hbg, Hst, Hit, Hmid. cbv beta iota.
  destruct c as [nodes sty]. cbn [cr_style cr_nodes]. destruct it, sty, (break_required tk); reflexivity.
Qed.


(* ---- 13. single words on the pop-on buffer, any tracker state ------------------------------------------------------------- *)
Lemma norm_norm : forall tk, norm (norm tk) = norm tk.
Proof. reflexivity. Qed.

Section Run8.
Variables (st : stash) (p0 : pos) (d : bool) (pa ro : creator) (q : option (creator * Q)) (tm : Q) (tc : str) (off : Q).
Notation R8 sty tk l nodes fr := (RS st d sty pa ro q tm tc off tk l nodes fr).

Lemma tw_char8 : forall tk l nodes sty V ital fr w a b n,
  char_of (hi w) = Some a -> char_of (lo w) = Some b -> St2 p0 tk nodes sty V ital ->
  exists nodes', translate_word (R8 sty tk l nodes fr) w n = R8 sty (norm tk) (LWord w) nodes' (fr + 1) /\
                 St2 p0 (norm tk) nodes' sty (V ++ tagx ital (a ++ b)) ital.
Proof.
  intros tk l nodes sty V ital fr w a b n Ha Hb Hh.
  destruct (add_chars_inv2 p0 tk nodes sty V ital (a ++ b) Hh) as (nodes' & Ea & Ga).
  exists nodes'. split; [|exact Ga]. unfold RS.
  destruct (char_word_class w a b Ha Hb) as (Hc & Hp & Hs & He & Ht & Hq & Hbs).
  unfold translate_word. proj_red. unfold handle_double. proj_red. rewrite Hc, Hp, Hs, He, Ht, Hq.
  proj_red. rewrite ?andb_false_r. proj_red. rewrite Ha, Hb. unfold add_to_buf. proj_red.
  rewrite Ea. proj_red. reflexivity.
Qed.

Lemma xl_snoc : forall o c b, xl (o ++ [(c, b)]) = xl o ++ [XC c b].
Proof. intros. rewrite xl_app. reflexivity. Qed.

(* the first copy of a special / extended character or a backspace; C: what is shown before the current line *)
Lemma tw_code8 : forall w k tk l nodes sty C rend ital fr, kind_ok w k -> kprer k rend -> (k = KBs -> rend <> []) ->
  last_is l w = false -> St2 p0 tk nodes sty (C ++ xl rend) ital ->
  exists nodes', (forall n, translate_word (R8 sty tk l nodes fr) w n = R8 sty (norm tk) (LWord w) nodes' (fr + 1)) /\
                 St2 p0 (norm tk) nodes' sty (C ++ xl (ksemr k ital rend)) ital.
Proof.
  intros w k tk l nodes sty C rend ital fr Hk Hp Hne Hl Hh. destruct (kind_class w k Hk) as [Cp Ct Cq _ _].
  destruct k as [ch|ch|]; cbn [kind_ok kprer ksemr] in *.
  - assert (X : special_of w <> None) by congruence.
    destruct classes_disjoint as (D & _). destruct (D w X) as (Hc & _).
    destruct (add_chars_inv2 p0 tk nodes sty _ ital [ch] Hh) as (nodes' & Ea & Ga).
    exists nodes'. split; [|rewrite xl_snoc, app_assoc; exact Ga].
    intros n. unfold RS, translate_word. proj_red. rewrite (hd_code _ _ _ _ _ _ _ _ _ _ _ _ _ Cp Ct Cq Hl). proj_red.
    rewrite Hc, Cp. proj_red. rewrite Hk. unfold add_to_buf. proj_red. rewrite Ea. proj_red. reflexivity.
  - assert (X : extended_of w <> None) by congruence.
    destruct classes_disjoint as (D1 & D & _). destruct (D w X) as (Hc & _).
    assert (Hs : special_of w = None).
    { destruct (special_of w) eqn:E; [|reflexivity]. exfalso.
      assert (Y : special_of w <> None) by congruence. destruct (D1 w Y) as (_ & _ & Z0 & _). congruence. }
    destruct Hp as (o & c & b & -> & Hlast). rewrite xl_snoc, app_assoc in Hh.
    pose proof Hh as [(Hg & Hr & _) _]. destruct (ends_char_nopend _ _ _ _ _ Hr) as [Pn _].
    destruct (hb_ext_St p0 tk nodes sty _ c b ital w [ch] Hh Hk Hlast) as (nodes1 & E1 & G1).
    destruct (add_chars_inv2 p0 tk nodes1 sty _ ital [ch] G1) as (nodes' & Ea & Ga).
    exists nodes'. split; [|rewrite removelast_last, xl_snoc, app_assoc; exact Ga].
    intros n. unfold RS, translate_word. proj_red. rewrite (hd_code _ _ _ _ _ _ _ _ _ _ _ _ _ Cp Ct Cq Hl). proj_red.
    rewrite Hc, Cp. proj_red. rewrite Hs, Hk. unfold add_to_buf. proj_red. rewrite E1, Ea. proj_red. reflexivity.
  - subst w. destruct bs_facts as (Hc & _ & _ & _ & _ & _ & _ & _ & _ & _ & Hn).
    destruct (exists_last (Hne eq_refl)) as (o & [c b] & ->). rewrite xl_snoc, app_assoc in Hh.
    pose proof Hh as [(Hg & Hr & _) _]. destruct (ends_char_nopend _ _ _ _ _ Hr) as [Pn _].
    destruct (hb_bs_St p0 tk nodes sty _ c b ital Hh) as (nodes' & E & Hh').
    exists nodes'. rewrite removelast_last. rewrite <- (pend_nil_norm tk Hg Pn). split; [|exact Hh'].
    intros n. unfold RS, translate_word. proj_red. rewrite (hd_code _ _ _ _ _ _ _ _ _ _ _ _ _ Cp Ct Cq Hl). proj_red.
    rewrite Hc. proj_red. rewrite (translate_command_other _ w_bs n Hn). unfold do_interpret. proj_red.
    rewrite interp_bs, E. proj_red. reflexivity.
Qed.

Lemma dt_code8 : forall w k tk l nodes sty fr, kind_ok w k -> d = true -> doubled_type (R8 sty tk l nodes fr) w = true.
Proof.
  intros w k tk l nodes sty fr Hk _. unfold doubled_type.
  destruct k as [ch|ch|]; cbn [kind_ok] in Hk.
  - rewrite Hk. rewrite orb_true_r. reflexivity.
  - rewrite Hk. apply orb_true_r.
  - subst w. vm_compute. reflexivity.
Qed.

Lemma code_run8 : forall w k pc tk l nodes sty C rend ital fr nx, kind_ok w k -> kprer k rend -> (k = KBs -> rend <> []) -> pc <> Some w ->
  St2 p0 tk nodes sty (C ++ xl rend) ital -> linv l pc ->
  exists l' nodes', tws (R8 sty tk l nodes fr) (ctl d w) nx = R8 sty (norm tk) l' nodes' (fr + Z.of_nat (length (ctl d w))) /\
                    St2 p0 (norm tk) nodes' sty (C ++ xl (ksemr k ital rend)) ital /\ linv l' (Some w) /\ rowlast l'.
Proof.
  intros w k pc tk l nodes sty C rend ital fr nx Hk Hp Hne Hpc Hh [Hg _]. pose proof (kind_class w k Hk) as Cc.
  assert (Hl : last_is l w = false) by (apply Hg; [exact (cc_code w Cc)|exact (cc_pac w Cc)|exact Hpc]).
  destruct (tw_code8 w k tk l nodes sty C rend ital fr Hk Hp Hne Hl Hh) as (nodes' & E1 & Hh').
  destruct (d_cases d) as [Ed|Ed]; [replace (ctl d w) with [w; w] by (rewrite Ed; reflexivity)|replace (ctl d w) with [w] by (rewrite Ed; reflexivity)]; cbn [tws length].
  - exists LNone, nodes'. split; [|split; [exact Hh'|split; [apply linv_none|apply rowlast_none]]].
    rewrite E1. rewrite tw_second; [|reflexivity|reflexivity|exact (dt_code8 w k _ _ _ _ _ Hk Ed)].
    rewrite (cc_cue w Cc). unfold RS, bump, set_dbl, set_clock. proj_red. f_equal. lia.
  - exists (LWord w), nodes'. split; [|split; [exact Hh'|split; [exact (linv_code w Cc)|exact (rowlast_word w (cc_pac w Cc))]]].
    rewrite E1. reflexivity.
Qed.

(* a mid-row code that is executed *)
Definition vstep (V V' : list xch) : Prop :=
  V' = V \/ (exists b, V' = V ++ [XC 32 b]) \/
  exists A c b S, V = A ++ XC c b :: S /\ seps S /\ is_space c = false /\ V' = A ++ XC c b :: XC 32 b :: S.

Lemma mid_exec8 : forall a tk l nodes sty V ital fr n, 0 <= a < 16 -> last_is l (midrow_word a) = false ->
  St2 p0 tk nodes sty V ital ->
  exists tk' nodes' sty' V', translate_word (R8 sty tk l nodes fr) (midrow_word a) n = R8 sty' tk' (LWord (midrow_word a)) nodes' (fr + 1) /\
    St2 p0 tk' nodes' sty' V' (is_italic_attr a) /\ tk_pos tk' = tk_pos tk /\ tk_default tk' = tk_default tk /\ vstep V V'.
Proof.
  intros a tk l nodes sty V ital fr n Ha Hl Hh. set (w := midrow_word a) in *.
  destruct (mid_facts a Ha) as (Ht & Hp & Hbs & Hbg & Hq & _ & _ & _). fold w in Ht, Hp, Hbs, Hbg, Hq.
  destruct (midrow_classes a Ha) as (Hmid & Hc & Hit & Hst). fold w in Hmid, Hc, Hit, Hst.
  destruct (mid_class a Ha) as [Cc Hn]. fold w in Cc, Hn.
  destruct (pac_style_St p0 tk nodes sty V ital (is_italic_attr a) Hh) as (tk1 & nodes1 & sty1 & E1 & G1 & P1 & D1 & _).
  destruct (spacing_St p0 tk1 nodes1 sty1 V (is_italic_attr a) (next_punct n) G1) as (tk2 & nodes2 & V2 & E2 & G2 & T2 & HV).
  exists tk2, nodes2, sty1, V2. split; [|split; [exact G2|split; [|split]]].
  - unfold RS. apply (tw_cmd _ _ _ _ _ _ _ _ _ _ _ _ w n (LWord w)).
    + rewrite Hc. reflexivity.
    + exact Hn.
    + exact (hd_code _ _ _ _ _ _ _ _ _ _ _ _ _ (cc_pac w Cc) Ht Hq Hl).
    + rewrite (interp_mid8 tk (mkCr nodes sty) w n (is_italic_attr a) Ht Hp Hbs Hbg Hst Hit Hmid).
      cbn [cr_style cr_nodes]. rewrite E1, E2. reflexivity.
  - destruct T2 as [->| ->]; [exact P1|cbn [norm tk_pos]; exact P1].
  - destruct T2 as [->| ->]; [exact D1|cbn [norm tk_default]; exact D1].
  - destruct HV as [->|[->|X]]; [left; reflexivity|right; left; eexists; reflexivity|right; right; exact X].
Qed.

Lemma mid_skip8 : forall a tk nodes sty fr n, 0 <= a < 16 ->
  translate_word (R8 sty tk (LWord (midrow_word a)) nodes fr) (midrow_word a) n = R8 sty tk LNone nodes (fr + 1).
Proof.
  intros a tk nodes sty fr n Ha. destruct (mid_facts a Ha) as (_ & _ & Hbs & _ & Hq & _). destruct (midrow_classes a Ha) as (_ & Hc & _).
  rewrite tw_second; [|reflexivity|reflexivity|].
  - rewrite Hq. reflexivity.
  - unfold doubled_type. rewrite Hc. reflexivity.
Qed.

Lemma vstep_refl : forall V, vstep V V.
Proof. intros V. left. reflexivity. Qed.

Lemma mid_run8 : forall a pc tk l nodes sty V ital fr nx, 0 <= a < 16 -> (pc = Some (midrow_word a) -> ital = is_italic_attr a) ->
  St2 p0 tk nodes sty V ital -> linv l pc ->
  exists l' tk' nodes' sty' V',
    tws (R8 sty tk l nodes fr) (ctl d (midrow_word a)) nx = R8 sty' tk' l' nodes' (fr + Z.of_nat (length (ctl d (midrow_word a)))) /\
    St2 p0 tk' nodes' sty' V' (is_italic_attr a) /\ tk_pos tk' = tk_pos tk /\ tk_default tk' = tk_default tk /\ vstep V V' /\
    linv l' (Some (midrow_word a)) /\ rowlast l'.
Proof.
  intros a pc tk l nodes sty V ital fr nx Ha Hpc Hh [Hg _]. set (w := midrow_word a) in *.
  destruct (mid_class a Ha) as [Cc _]. fold w in Cc.
  destruct (last_is l w) eqn:Hl.
  - assert (El : l = LWord w).
    { destruct l as [|x|x y]; try discriminate Hl. cbn [last_is] in Hl. apply Z.eqb_eq in Hl. subst x. reflexivity. }
    assert (Ei : ital = is_italic_attr a).
    { apply Hpc. destruct pc as [x|].
      - destruct (Z.eq_dec x w) as [->|Hne]; [reflexivity|]. exfalso.
        assert (F : last_is l w = false) by (apply Hg; [exact (cc_code w Cc)|exact (cc_pac w Cc)|congruence]). congruence.
      - exfalso. assert (F : last_is l w = false) by (apply Hg; [exact (cc_code w Cc)|exact (cc_pac w Cc)|discriminate]). congruence. }
    subst l ital. destruct (d_cases d) as [Ed|Ed]; [replace (ctl d w) with [w; w] by (rewrite Ed; reflexivity)|replace (ctl d w) with [w] by (rewrite Ed; reflexivity)]; cbn [tws length].
    + unfold w at 1 2. rewrite (mid_skip8 a tk nodes sty fr _ Ha). fold w.
      destruct (mid_exec8 a tk LNone nodes sty V _ (fr + 1) nx Ha eq_refl Hh) as (tk' & nodes' & sty' & V' & E & G & P & D & Hr). fold w in E.
      exists (LWord w), tk', nodes', sty', V'. split; [|split; [exact G|split; [exact P|split; [exact D|split; [exact Hr|split; [exact (linv_code w Cc)|exact (rowlast_word w (cc_pac w Cc))]]]]]].
      rewrite E. f_equal. lia.
    + unfold w at 1 2. rewrite (mid_skip8 a tk nodes sty fr _ Ha).
      exists LNone, tk, nodes, sty, V. split; [reflexivity|split; [exact Hh|split; [reflexivity|split; [reflexivity|split; [apply vstep_refl|split; [apply linv_none|apply rowlast_none]]]]]].
  - destruct (d_cases d) as [Ed|Ed]; [replace (ctl d w) with [w; w] by (rewrite Ed; reflexivity)|replace (ctl d w) with [w] by (rewrite Ed; reflexivity)]; cbn [tws length].
    + destruct (mid_exec8 a tk l nodes sty V ital fr (Some w) Ha Hl Hh) as (tk' & nodes' & sty' & V' & E & G & P & D & Hr). fold w in E.
      rewrite E. unfold w at 1 2. rewrite (mid_skip8 a tk' nodes' sty' (fr + 1) _ Ha).
      exists LNone, tk', nodes', sty', V'. split; [|split; [exact G|split; [exact P|split; [exact D|split; [exact Hr|split; [apply linv_none|apply rowlast_none]]]]]]. f_equal. lia.
    + destruct (mid_exec8 a tk l nodes sty V ital fr nx Ha Hl Hh) as (tk' & nodes' & sty' & V' & E & G & P & D & Hr). fold w in E.
      exists (LWord w), tk', nodes', sty', V'. split; [exact E|split; [exact G|split; [exact P|split; [exact D|split; [exact Hr|split; [exact (linv_code w Cc)|exact (rowlast_word w (cc_pac w Cc))]]]]]].
Qed.
End Run8.


(* ---- 14. the run over the tokens of a row ------------------------------------------------------------------------------------ *)
(* the line before the current one: it shows its cells, possibly followed by one blank (added by a mid-row code of the
   current row; pass 7 of _format_italics removes it again: srel) *)
Definition lclosed (cs : list cell) (o : line) : Prop :=
  exists o0 sp, o = o0 ++ sp /\ match_cells cs o0 = true /\ Forall gch o /\
    (sp = [] \/ exists b, sp = [(32, b)]).
Definition Shape (CC : list xch) (o : line) (SEP : list xch) : Prop :=
  (CC = [] /\ o = [] /\ SEP = []) \/ (o <> [] /\ exists z, issep z = true /\ SEP = [z]).

Lemma gch_blank : forall b, gch (32, b).
Proof. intros b. reflexivity. Qed.

Lemma mid_shape : forall CC SEP csp o lc acc rend V', Shape CC o SEP -> lclosed csp o -> J lc acc rend ->
  vstep ((CC ++ xl o ++ SEP) ++ xl rend) V' ->
  exists o' rend', V' = (CC ++ xl o' ++ SEP) ++ xl rend' /\ Shape CC o' SEP /\ lclosed csp o' /\ J None (acc ++ [Opt]) rend'.
Proof.
  intros CC SEP csp o lc acc rend V' Hs Hc Hj Hv. destruct Hv as [->|[[b ->]|(A & c & b & S & EV & HS & Hsp & ->)]].
  - exists o, rend. split; [reflexivity|split; [exact Hs|split; [exact Hc|]]]. apply (J_mid lc acc rend); [exact Hj|left; reflexivity].
  - exists o, (rend ++ [(32, b)]). split; [rewrite xl_snoc; symmetry; apply app_assoc|split; [exact Hs|split; [exact Hc|]]].
    apply (J_mid lc acc rend); [exact Hj|right; exists b; reflexivity].
  - destruct (exists_last_or_nil _ rend) as [->|(r0 & [c1 b1] & ->)].
    + cbn [xl map] in EV. rewrite app_nil_r in EV. destruct Hs as [(-> & -> & ->)|(Hne & z & Hz & ->)].
      * exfalso. cbn [xl map app] in EV. exact (app_cons_not_nil _ _ _ EV).
      * destruct (exists_last Hne) as (o1 & [c1 b1] & ->). rewrite xl_snoc in EV. rewrite <- !app_assoc in EV. cbn [app] in EV.
        rewrite app_assoc in EV.
        assert (Sz : seps [z]) by (unfold seps; cbn [forallb]; rewrite Hz; reflexivity).
        destruct (last_char_unique _ _ _ _ _ _ _ _ Sz HS EV) as (EA & <- & <- & <-).
        exists ((o1 ++ [(c1, b1)]) ++ [(32, b1)]), []. split.
        { cbn [xl map]. rewrite app_nil_r, !xl_snoc, <- EA, <- !app_assoc. reflexivity. }
        split; [right; split; [intros X; apply app_eq_nil in X; destruct X as [_ X]; discriminate X|exists z; split; [exact Hz|reflexivity]]|].
        split.
        -- destruct Hc as (o0 & sp & Eo & Hm & Hg & Hsp').
           destruct Hsp' as [->|[b2 ->]].
           ++ rewrite app_nil_r in Eo. exists o0, [(32, b1)]. split; [rewrite Eo; reflexivity|split; [exact Hm|split]].
              ** apply Forall_app. split; [exact Hg|constructor; [apply gch_blank|constructor]].
              ** right. exists b1. reflexivity.
           ++ apply app_inj_tail in Eo. destruct Eo as [_ Eo]. injection Eo as -> _. discriminate Hsp.
        -- apply (J_mid lc acc []); [exact Hj|left; reflexivity].
    + rewrite xl_snoc in EV. rewrite app_assoc in EV.
      change ((((CC ++ xl o ++ SEP) ++ xl r0) ++ [XC c1 b1])) with (((CC ++ xl o ++ SEP) ++ xl r0) ++ XC c1 b1 :: []) in EV.
      destruct (last_char_unique _ _ _ _ _ _ _ _ (eq_refl : seps []) HS EV) as (EA & <- & <- & <-).
      exists o, ((r0 ++ [(c1, b1)]) ++ [(32, b1)]). split.
      { rewrite !xl_snoc, <- EA, <- !app_assoc. reflexivity. }
      split; [exact Hs|split; [exact Hc|]]. apply (J_mid lc acc (r0 ++ [(c1, b1)])); [exact Hj|right; exists b1; reflexivity].
Qed.

Section RunD8.
Variables (st : stash) (p0 : pos) (d : bool) (pa ro : creator) (q : option (creator * Q)) (tm : Q) (tc : str) (off : Q).
Variables (CC SEP : list xch) (csp : list cell).
Notation R8 sty tk l nodes fr := (RS st d sty pa ro q tm tc off tk l nodes fr).
Notation VV o rend := ((CC ++ xl o ++ SEP) ++ xl rend).

Definition mgoal8 (tk : tracker) (l : lastcmd) (nodes : list inode) (sty : istyle) (fr : Z) (nx : option Z) (ws : list Z) (cells : list cell) : Prop :=
  exists l' tk' nodes' sty' o' rend' ital',
    tws (R8 sty tk l nodes fr) ws nx = R8 sty' tk' l' nodes' (fr + Z.of_nat (length ws)) /\
    St2 p0 tk' nodes' sty' (VV o' rend') ital' /\ tk_pos tk' = tk_pos tk /\ tk_default tk' = tk_default tk /\
    Shape CC o' SEP /\ lclosed csp o' /\ J None cells rend' /\ last_is l' w_eoc = false /\ ((l' = l /\ ws = []) \/ rowlast l').

Lemma mgoal8_step : forall tk l nodes sty fr nx a rest cells tk1 l1 nodes1 sty1,
  tws (R8 sty tk l nodes fr) a (nxt rest nx) = R8 sty1 tk1 l1 nodes1 (fr + Z.of_nat (length a)) ->
  tk_pos tk1 = tk_pos tk -> tk_default tk1 = tk_default tk -> rowlast l1 ->
  mgoal8 tk1 l1 nodes1 sty1 (fr + Z.of_nat (length a)) nx rest cells -> mgoal8 tk l nodes sty fr nx (a ++ rest) cells.
Proof.
  intros tk l nodes sty fr nx a rest cells tk1 l1 nodes1 sty1 E P1 D1 R1 (l' & tk' & nodes' & sty' & o' & rend' & ital' & E' & Hh & P & D & Hs & Hc & Hj & Hl & Hr).
  exists l', tk', nodes', sty', o', rend', ital'. rewrite tws_app, E, E'.
  split; [f_equal; rewrite app_length; lia|]. split; [exact Hh|]. split; [congruence|]. split; [congruence|]. split; [exact Hs|split; [exact Hc|split; [exact Hj|split; [exact Hl|]]]].
  right. destruct Hr as [[-> _]|Hr]; assumption.
Qed.

Lemma VV_chars : forall o rend ital s, VV o rend ++ tagx ital s = VV o (rend ++ tag ital s).
Proof. intros o rend ital s. rewrite xl_app, xl_tag, <- !app_assoc. reflexivity. Qed.

Lemma mgoal8_char : forall tk l nodes sty o rend ital fr nx w a b rest cells,
  char_of (hi w) = Some a -> char_of (lo w) = Some b -> St2 p0 tk nodes sty (VV o rend) ital ->
  (forall l1 nodes1 fr1, St2 p0 (norm tk) nodes1 sty (VV o (rend ++ tag ital (a ++ b))) ital -> linv l1 None ->
     mgoal8 (norm tk) l1 nodes1 sty fr1 nx rest cells) ->
  mgoal8 tk l nodes sty fr nx (w :: rest) cells.
Proof.
  intros tk l nodes sty o rend ital fr nx w a b rest cells Ha Hb Hh K.
  destruct (tw_char8 st p0 d pa ro q tm tc off tk l nodes sty _ ital fr w a b (nxt rest nx) Ha Hb Hh) as (nodes' & E & Gn).
  apply (mgoal8_step tk l nodes sty fr nx [w] rest cells (norm tk) (LWord w) nodes' sty).
  - cbn [tws length]. exact E.
  - reflexivity.
  - reflexivity.
  - destruct (char_word_class w a b Ha Hb) as (_ & Hp & _). exact (rowlast_word w Hp).
  - apply K; [rewrite <- VV_chars; exact Gn|exact (linv_char w a b Ha Hb)].
Qed.

Lemma mtoks_run8 : forall nx ts,
  (forall acc ital lc pc o rend tk l nodes sty fr, mok ts pc lc ital -> St2 p0 tk nodes sty (VV o rend) ital ->
     Shape CC o SEP -> lclosed csp o -> J lc acc rend -> linv l pc ->
     mgoal8 tk l nodes sty fr nx (mpack d ts None) (csem ts acc ital)) /\
  (forall b0 c0 acc ital lc o rend tk l nodes sty fr, carries b0 c0 -> gcharb c0 = true -> mok ts None (Some c0) ital ->
     St2 p0 tk nodes sty (VV o rend) ital -> Shape CC o SEP -> lclosed csp o -> J lc acc rend ->
     mgoal8 tk l nodes sty fr nx (mpack d ts (Some b0)) (csem ts (acc ++ [Cell c0 ital]) ital)).
Proof.
  intros nx.
  assert (FL : forall ts,
     (forall acc ital lc pc o rend tk l nodes sty fr, mok ts pc lc ital -> St2 p0 tk nodes sty (VV o rend) ital ->
        Shape CC o SEP -> lclosed csp o -> J lc acc rend -> linv l pc ->
        mgoal8 tk l nodes sty fr nx (mpack d ts None) (csem ts acc ital)) ->
     forall b0 c0 acc ital lc o rend tk l nodes sty fr, carries b0 c0 -> gcharb c0 = true -> mok ts None (Some c0) ital ->
        St2 p0 tk nodes sty (VV o rend) ital -> Shape CC o SEP -> lclosed csp o -> J lc acc rend ->
        mgoal8 tk l nodes sty fr nx ((b0 * 256 + 128) :: mpack d ts None) (csem ts (acc ++ [Cell c0 ital]) ital)).
  { intros ts A1 b0 c0 acc ital lc o rend tk l nodes sty fr [Rg0 Hc0] Hg0 Hok Hh Hs Hcl Hj.
    assert (Ha : char_of (hi (b0 * 256 + 128)) = Some [c0]) by (rewrite hi_word by lia; exact Hc0).
    assert (Hl : char_of (lo (b0 * 256 + 128)) = Some []) by (rewrite lo_word by lia; exact char_of_pad).
    apply (mgoal8_char tk l nodes sty o rend ital fr nx _ [c0] [] _ _ Ha Hl Hh).
    intros l1 nodes1 fr1 Hh1 Hl1.
    exact (A1 _ ital (Some c0) None o _ (norm tk) l1 nodes1 sty fr1 Hok Hh1 Hs Hcl (J_char lc acc rend c0 ital Hj Hg0) Hl1). }
  induction ts as [|tk0 ts [IHa IHb]].
  - assert (A1 : forall acc ital lc pc o rend tk l nodes sty fr, mok [] pc lc ital -> St2 p0 tk nodes sty (VV o rend) ital ->
        Shape CC o SEP -> lclosed csp o -> J lc acc rend -> linv l pc ->
        mgoal8 tk l nodes sty fr nx (mpack d [] None) (csem [] acc ital)).
    { intros acc ital lc pc o rend tk l nodes sty fr _ Hh Hs Hcl Hj [_ Hl]. exists l, tk, nodes, sty, o, rend, ital.
      cbn [mpack flush tws length csem]. rewrite Z.add_0_r.
      split; [reflexivity|split; [exact Hh|split; [reflexivity|split; [reflexivity|split; [exact Hs|split; [exact Hcl|split; [exact (J_weak _ _ _ Hj)|split; [exact Hl|left; split; reflexivity]]]]]]]]. }
    split; [exact A1|]. exact (FL [] A1).
  - destruct tk0 as [b c|w k|a].
    + split.
      * intros acc ital lc pc o rend tk l nodes sty fr (Hc & Hg & Hok) Hh Hs Hcl Hj _. cbn [mpack csem].
        exact (IHb b c acc ital lc o rend tk l nodes sty fr Hc Hg Hok Hh Hs Hcl Hj).
      * intros b0 c0 acc ital lc o rend tk l nodes sty fr [Rg0 Hc0] Hg0 ([Rg Hc] & Hg & Hok) Hh Hs Hcl Hj. cbn [mpack csem].
        assert (Ha : char_of (hi (b0 * 256 + b)) = Some [c0]) by (rewrite hi_word by exact Rg; exact Hc0).
        assert (Hl : char_of (lo (b0 * 256 + b)) = Some [c]) by (rewrite lo_word by exact Rg; exact Hc).
        apply (mgoal8_char tk l nodes sty o rend ital fr nx _ [c0] [c] _ _ Ha Hl Hh).
        intros l1 nodes1 fr1 Hh1 Hl1.
        apply (IHa _ ital (Some c) None o ((rend ++ [(c0, ital)]) ++ [(c, ital)]) (norm tk) l1 nodes1 sty fr1 Hok).
        -- cbn [app tag map] in Hh1. replace ((rend ++ [(c0, ital)]) ++ [(c, ital)]) with (rend ++ [(c0, ital); (c, ital)]) by (rewrite <- app_assoc; reflexivity). exact Hh1.
        -- exact Hs.
        -- exact Hcl.
        -- apply (J_char (Some c0)); [|exact Hg]. exact (J_char lc acc rend c0 ital Hj Hg0).
        -- exact Hl1.
    + assert (A1 : forall acc ital lc pc o rend tk l nodes sty fr, mok (MCode w k :: ts) pc lc ital -> St2 p0 tk nodes sty (VV o rend) ital ->
          Shape CC o SEP -> lclosed csp o -> J lc acc rend -> linv l pc ->
          mgoal8 tk l nodes sty fr nx (mpack d (MCode w k :: ts) None) (csem (MCode w k :: ts) acc ital)).
      { intros acc ital lc pc o rend tk l nodes sty fr (Hpc & Hk & Hrest) Hh Hs Hcl Hj Hl. cbn [mpack flush app].
        assert (Hpre : kprer k rend).
        { destruct k as [ch|ch|]; cbn [kprer]; try exact I. destruct Hrest as (_ & (c & -> & Hx) & _).
          destruct (J_pop c acc rend Hj) as (o1 & b & -> & _). exists o1, c, b. split; [reflexivity|exact Hx]. }
        assert (Hne : k = KBs -> rend <> []).
        { intros ->. destruct Hrest as (Hlc & _). destruct lc as [c|]; [|congruence].
          destruct (J_pop c acc rend Hj) as (o1 & b & -> & _). intros X. apply app_eq_nil in X. destruct X as [_ X]. discriminate X. }
        destruct (code_run8 st p0 d pa ro q tm tc off w k pc tk l nodes sty _ rend ital fr (nxt (mpack d ts None) nx) Hk Hpre Hne Hpc Hh Hl)
          as (l1 & nodes1 & E1 & Hh1 & Hl1 & Hr1).
        apply (mgoal8_step tk l nodes sty fr nx (ctl d w) _ _ (norm tk) l1 nodes1 sty E1 eq_refl eq_refl Hr1).
        destruct k as [ch|ch|]; cbn [csem ksemr] in *.
        - destruct Hrest as (Hg & Hok). exact (IHa _ ital (Some ch) (Some w) o _ (norm tk) l1 nodes1 sty _ Hok Hh1 Hs Hcl (J_char lc acc rend ch ital Hj Hg) Hl1).
        - destruct Hrest as (Hg & (c & -> & Hx) & Hok). destruct (J_pop c acc rend Hj) as (o1 & b & -> & Hj').
          rewrite removelast_last in Hh1.
          exact (IHa _ ital (Some ch) (Some w) o _ (norm tk) l1 nodes1 sty _ Hok Hh1 Hs Hcl (J_char None _ o1 ch ital Hj' Hg) Hl1).
        - destruct Hrest as (Hlc & Hok). destruct lc as [c|]; [|congruence]. destruct (J_pop c acc rend Hj) as (o1 & b & -> & Hj').
          rewrite removelast_last in Hh1.
          exact (IHa _ ital None (Some w) o _ (norm tk) l1 nodes1 sty _ Hok Hh1 Hs Hcl Hj' Hl1). }
      split; [exact A1|]. exact (FL (MCode w k :: ts) A1).
    + assert (A1 : forall acc ital lc pc o rend tk l nodes sty fr, mok (MMid a :: ts) pc lc ital -> St2 p0 tk nodes sty (VV o rend) ital ->
          Shape CC o SEP -> lclosed csp o -> J lc acc rend -> linv l pc ->
          mgoal8 tk l nodes sty fr nx (mpack d (MMid a :: ts) None) (csem (MMid a :: ts) acc ital)).
      { intros acc ital lc pc o rend tk l nodes sty fr (Ha & Hpc & Hok) Hh Hs Hcl Hj Hl. cbn [mpack flush app csem].
        destruct (mid_run8 st p0 d pa ro q tm tc off a pc tk l nodes sty _ ital fr (nxt (mpack d ts None) nx) Ha Hpc Hh Hl)
          as (l1 & tk1 & nodes1 & sty1 & V1 & E1 & Hh1 & P1 & D1 & Hv & Hl1 & Hr1).
        destruct (mid_shape CC SEP csp o lc acc rend V1 Hs Hcl Hj Hv) as (o' & rend' & -> & Hs' & Hcl' & Hj').
        apply (mgoal8_step tk l nodes sty fr nx (ctl d (midrow_word a)) _ _ tk1 l1 nodes1 sty1 E1 P1 D1 Hr1).
        exact (IHa _ _ None (Some (midrow_word a)) o' rend' tk1 l1 nodes1 sty1 _ Hok Hh1 Hs' Hcl' Hj' Hl1). }
      split; [exact A1|]. exact (FL (MMid a :: ts) A1).
Qed.
End RunD8.


(* ---- 15. the domain ---------------------------------------------------------------------------------------------------------- *)
(* load_wf: every row in row_ok, distinct row numbers.  (Until pass 7 of _format_italics looked through italics nodes the
   domain also excluded "a row with 32 cells followed by a row in which a mid-row code arrives while no character of the
   row is on the screen" (no_mid_after_full8): the blank such a code appends to the full line survived behind an
   italics-off node.) *)
Definition lc_ok8 (ld : load) : bool := load_wf ld.

(* ---- 16. flat lists made of rows ------------------------------------------------------------------------------------------------ *)
Inductive sepk : Type := SF | SB | SR (p : pos).
Definition sepx (s : sepk) : list xch := match s with SF => [] | SB => [XB] | SR p => [XR p] end.
Definition xseg : Type := (sepk * line)%type.
Definition flat (xs : list xseg) : list xch := concat (map (fun so => sepx (fst so) ++ xl (snd so)) xs).
Definition sepof (prev : option Z) (r : row) : sepk :=
  match prev with None => SF | Some lr => if rw_row r =? lr + 1 then SB else SR (row_pos r) end.
Definition lineok (cs : list cell) (o : line) : Prop :=
  match_line cs o = true /\ (length o <= 32)%nat /\ Forall gch o /\ existsb (fun x => negb (is_space (fst x))) o = true.
(* in the queued buffer a line may still carry the blank of a mid-row code of the next row: 33 characters at most, the
   last one a blank *)
Definition lineokw (cs : list cell) (o : line) : Prop :=
  match_line cs o = true /\ (length o <= (if endsb o then 33 else 32))%nat /\ Forall gch o /\ existsb (fun x => negb (is_space (fst x))) o = true.
Fixpoint Rrows (prev : option Z) (rows : list row) (xs : list xseg) : Prop :=
  match rows, xs with
  | [], [] => True
  | r :: t, so :: xs' => fst so = sepof prev r /\ lineokw (cells_of r) (snd so) /\ Rrows (Some (rw_row r)) t xs'
  | _, _ => False
  end.

Lemma flat_app : forall a b, flat (a ++ b) = flat a ++ flat b.
Proof. intros a b. unfold flat. rewrite map_app, concat_app. reflexivity. Qed.

Lemma flat_one : forall s o, flat [(s, o)] = sepx s ++ xl o.
Proof. intros s o. unfold flat. cbn [map concat fst snd]. apply app_nil_r. Qed.

Lemma vis_char : forall cs o, match_cells cs o = true -> Forall gch o -> existsb cell_vis cs = true ->
  existsb (fun x => negb (is_space (fst x))) o = true.
Proof.
  intros cs o Hm Hg Hv. destruct (match_vis_in cs o Hm Hv) as (x & Hx & Hne). apply existsb_exists. exists x. split; [exact Hx|].
  rewrite Forall_forall in Hg. destruct (gcharb_parts _ (Hg x Hx)) as [_ Q]. destruct (is_space (fst x)); [|reflexivity].
  exfalso. apply Hne. apply Q. reflexivity.
Qed.

Lemma blanks_novis : forall sp, blanks sp -> existsb (fun x => negb (is_space (fst x))) sp = false.
Proof.
  induction sp as [|x sp IH]; intros H; [reflexivity|]. unfold blanks in *. cbn [forallb] in H. apply andb_true_iff in H.
  cbn [existsb]. rewrite (proj1 H), (IH (proj2 H)). reflexivity.
Qed.

Lemma lclosed_lineok : forall cs o, lclosed cs o -> existsb cell_vis cs = true -> (length cs <= 32)%nat -> lineokw cs o.
Proof.
  intros cs o (o0 & sp & -> & Hm & Hg & Hsp) Hv Hlen.
  assert (Hb : blanks sp) by (destruct Hsp as [->|[b ->]]; reflexivity).
  pose proof (match_len _ _ Hm) as L0.
  split; [|split; [|split; [exact Hg|]]].
  - unfold match_line. rewrite (rstrip_obs_app_blanks o0 sp Hb). exact (match_rstrip _ _ Hm).
  - destruct Hsp as [->|[b ->]].
    + rewrite app_nil_r. destruct (endsb o0); lia.
    + unfold endsb. rewrite last_last. cbn [fst]. replace (is_space 32) with true by reflexivity.
      rewrite app_length. cbn [length]. lia.
  - rewrite existsb_app. apply Forall_app in Hg. rewrite (vis_char cs o0 Hm (proj1 Hg) Hv). reflexivity.
Qed.

Lemma J_lclosed : forall cs o, J None cs o -> lclosed cs o.
Proof. intros cs o (Hm & Hg & _). exists o, []. split; [symmetry; apply app_nil_r|split; [exact Hm|split; [exact Hg|left; reflexivity]]]. Qed.

Lemma J_nonempty : forall cs o, J None cs o -> existsb cell_vis cs = true -> o <> [].
Proof. intros cs o Hj Hv. apply (shown_nonempty cs o o [] Hj Hv); [symmetry; apply app_nil_r|reflexivity]. Qed.

Lemma row_len : forall r, row_ok r = true -> (length (cells_of r) <= 32)%nat /\ existsb cell_vis (cells_of r) = true /\ rw_items r <> [].
Proof.
  intros r H. destruct (row_ok_parts r H) as (_ & Hm & Ht & _ & Hv & _ & Hn). apply mem_In in Hm.
  assert (H0 : 0 <= rw_indent r) by (unfold indents_608 in Hm; cbn [In] in Hm; lia).
  split; [lia|split; [exact Hv|]]. intros E. unfold cells_of in Hv. rewrite E in Hv. discriminate Hv.
Qed.

(* ---- 17. moving the tracker ------------------------------------------------------------------------------------------------------ *)
Lemma St2_settk : forall p0 tk tk' nodes sty V ital, St2 p0 tk nodes sty V ital -> pend tk = [] -> tkgood tk' ->
  (tk_repos tk' = false -> tk_repos tk = false /\ current_position tk' = current_position tk) ->
  St2 p0 tk' nodes sty (V ++ pend tk') ital.
Proof.
  intros p0 tk tk' nodes sty V ital [(Hg & Hr & Hf & Hy & Hw & Hp) Hb] Pn Hg' Hc. rewrite Pn, app_nil_r in Hr.
  split; [split; [exact Hg'|split; [rewrite Hr; reflexivity|split; [exact Hf|split; [exact Hy|split; [exact Hw|]]]]]|].
  - intros R. destruct (Hc R) as [R0 ->]. exact (Hp R0).
  - intros (V0 & c & b & E). destruct (ends_char_nopend _ _ _ _ _ E) as [_ E']. apply Hb. eexists _, _, _. exact E'.
Qed.

Lemma St2_tkeq : forall p0 tk tk' nodes sty V ital, St2 p0 tk nodes sty V ital ->
  tk_pos tk' = tk_pos tk -> tk_pos tk <> [] -> tk_break tk' = tk_break tk -> tk_repos tk' = tk_repos tk -> St2 p0 tk' nodes sty V ital.
Proof.
  intros p0 [ps b r df] [ps' b' r' df'] nodes sty V ital H E1 Hne E2 E3. cbn [tk_pos tk_break tk_repos] in *. subst ps' b' r'.
  destruct ps as [|p ps]; [congruence|]. exact H.
Qed.

Lemma St2_repos_move : forall p0 tk tk' nodes sty X ital, St2 p0 tk nodes sty (X ++ pend tk) ital ->
  tk_break tk = None -> tk_repos tk = true -> tk_break tk' = None -> tk_repos tk' = true -> St2 p0 tk' nodes sty (X ++ pend tk') ital.
Proof.
  intros p0 tk tk' nodes sty X ital [(Hg & Hr & Hf & Hy & Hw & Hp) Hb] B R B' R'.
  apply app_inv_tail in Hr.
  split; [split; [left; exact B'|split; [rewrite Hr; reflexivity|split; [exact Hf|split; [exact Hy|split; [exact Hw|]]]]]|].
  - intros X0. congruence.
  - intros Y. exfalso. unfold pend in Y. rewrite B', R' in Y. exact (not_ends_char X (XR (current_position tk')) eq_refl Y).
Qed.

Lemma pac_style_hbb : forall it sty tk nodes tk' nodes' sty', tk_break tk = None ->
  pac_style it sty tk nodes = (tk', mkCr nodes' sty') -> has_break_before nodes' = has_break_before nodes.
Proof.
  intros it sty tk nodes tk' nodes' sty' B E. unfold pac_style in E. cbv zeta in E. unfold break_required in E. rewrite B in E.
  destruct it, sty; injection E as _ <- _; try reflexivity; rewrite hbb_snoc; reflexivity.
Qed.

Lemma tab_upd_0 : forall tk, tab_upd 0 tk = tk.
Proof. reflexivity. Qed.


Lemma ctl_ne : forall d w, ctl d w <> [].
Proof. intros [|] w; discriminate. Qed.

Lemma mpack_ne : forall d ts pend, ts <> [] \/ pend <> None -> mpack d ts pend <> [].
Proof.
  intros d. induction ts as [|t ts IH]; intros pend H.
  - destruct H as [H|H]; [congruence|]. destruct pend; [discriminate|congruence].
  - destruct t as [b c|w k|a]; cbn [mpack].
    + destruct pend; [discriminate|]. apply IH. right. discriminate.
    + intros E. apply app_eq_nil in E. destruct E as [_ E]. apply app_eq_nil in E. destruct E as [E _]. exact (ctl_ne d w E).
    + intros E. apply app_eq_nil in E. destruct E as [_ E]. apply app_eq_nil in E. destruct E as [E _]. exact (ctl_ne d _ E).
Qed.

Section Rows8.
Variables (st : stash) (p0 : pos) (d : bool) (pa ro : creator) (q : option (creator * Q)) (tm : Q) (tc : str) (off : Q).
Notation R8 sty tk l nodes fr := (RS st d sty pa ro q tm tc off tk l nodes fr).

(* ---- 18. the items of a row --------------------------------------------------------------------------------------------------- *)
Lemma items_run8 : forall r CC SEP csp oprev tk l nodes sty fr nx, row_ok r = true ->
  St2 p0 tk nodes sty ((CC ++ xl oprev ++ SEP) ++ xl []) (rw_ital r) -> Shape CC oprev SEP -> lclosed csp oprev -> linv l None ->
  exists l' nodes' sty' ital' o' rend',
    tws (R8 sty tk l nodes fr) (mpack d (flat_map mtoks_of_item (rw_items r)) None) nx
      = R8 sty' (norm tk) l' nodes' (fr + Z.of_nat (length (mpack d (flat_map mtoks_of_item (rw_items r)) None))) /\
    St2 p0 (norm tk) nodes' sty' ((CC ++ xl o' ++ SEP) ++ xl rend') ital' /\ Shape CC o' SEP /\ lclosed csp o' /\
    J None (cells_of r) rend' /\ rend' <> [] /\ last_is l' w_eoc = false /\ rowlast l'.
Proof.
  intros r CC SEP csp oprev tk l nodes sty fr nx H Hh Hs Hcl Hl.
  destruct (row_ok_parts r H) as (_ & _ & _ & Hio & _). destruct (row_len r H) as (_ & Hv & Hne).
  destruct (items_mok (rw_items r) None [] (rw_ital r) None Hio I) as [Hok Hsem]. cbn [pc_of_c] in Hok. fold (cells_of r) in Hsem.
  destruct (proj1 (mtoks_run8 st p0 d pa ro q tm tc off CC SEP csp nx (flat_map mtoks_of_item (rw_items r)))
              [] (rw_ital r) None None oprev [] tk l nodes sty fr Hok Hh Hs Hcl (conj eq_refl (conj (Forall_nil _) I)) Hl)
    as (l' & tk' & nodes' & sty' & o' & rend' & ital' & E & Hh' & P & D & Hs' & Hcl' & Hj & Hl' & Hr).
  rewrite Hsem in Hj. pose proof (J_nonempty _ _ Hj Hv) as Hrn.
  assert (Etk : tk' = norm tk).
  { destruct (exists_last Hrn) as (r0 & [c b] & Er). pose proof Hh' as [(Hg & Hrx & _) _]. rewrite Er, xl_snoc, app_assoc in Hrx.
    destruct (ends_char_nopend _ _ _ _ _ Hrx) as [Pn _]. rewrite (pend_nil_norm tk' Hg Pn). unfold norm. rewrite P, D. reflexivity. }
  subst tk'. exists l', nodes', sty', ital', o', rend'.
  split; [exact E|split; [exact Hh'|split; [exact Hs'|split; [exact Hcl'|split; [exact Hj|split; [exact Hrn|split; [exact Hl'|]]]]]]].
  destruct Hr as [[_ X]|Hr]; [|exact Hr]. exfalso. revert X. apply mpack_ne. left.
  destruct (rw_items r) as [|it t]; [congruence|]. destruct it; discriminate.
Qed.

(* ---- 19. the preamble address code (+ tab offset) of a second or later row ------------------------------------------------------ *)
Lemma tk_eta : forall tk ps b r df, tk_pos tk = ps -> tk_break tk = b -> tk_repos tk = r -> tk_default tk = df -> tk = mkTk ps b r df.
Proof. intros [ps' b' r' df'] ps b r df. cbn. intros -> -> -> ->. reflexivity. Qed.

Lemma pac_run8 : forall r cur (ps : list pos) dflt l nodes sty ital V fr nx lastrow c0, row_ok r = true ->
  St2 p0 (mkTk (cur :: ps) None false dflt) nodes sty V ital -> (exists V0 c b, V = V0 ++ [XC c b]) ->
  last (map Some (cur :: ps)) None = Some (lastrow, c0) -> rw_row r <> lastrow ->
  last_contains l (pac_word (rw_row r) (pac_attr r)) = false ->
  exists tk2 l' nodes' sty',
    tws (R8 sty (mkTk (cur :: ps) None false dflt) l nodes fr) (pac_unit d r) nx
      = R8 sty' tk2 l' nodes' (fr + Z.of_nat (length (pac_unit d r))) /\ linv l' None /\
    St2 p0 tk2 nodes' sty' (V ++ sepx (sepof (Some lastrow) r)) (rw_ital r) /\
    tk_pos tk2 = (if rw_row r =? lastrow + 1 then (cur :: ps) ++ [(lastrow + 1, c0)] else [row_pos r]) /\
    tkgood tk2.
Proof.
  intros r cur ps dflt l nodes sty ital V fr nx lastrow c0 H Hh Hend Hlast Hne Hl.
  pose proof (rich_of_ok r H) as Hrich. destruct (rich_facts (rich_of r) Hrich) as (_ & _ & Hk & _).
  change (rw_tab (rich_of r)) with (rw_tab r) in Hk.
  set (tk := mkTk (cur :: ps) None false dflt) in *.
  assert (Hhb : has_break_before nodes = false) by (destruct Hh as [_ Hb]; exact (Hb Hend)).
  assert (Hrd : pac_ready tk nodes).
  { left. intros ->. destruct Hh as [(_ & Hr & _) _]. destruct Hend as (V0 & c & b & ->). cbn [rx pend tk tk_break tk_repos app] in Hr.
    symmetry in Hr. apply app_eq_nil in Hr. destruct Hr as [_ Hr]. discriminate Hr. }
  unfold sepof. destruct (Z.eqb_spec (rw_row r) (lastrow + 1)) as [Eadj|Nadj].
  - set (tkA := mkTk ((cur :: ps) ++ [(lastrow + 1, c0)]) (Some (rw_indent r)) false (lastrow + 1, rw_indent r)).
    assert (Etk : tracker_update tk (rw_row r, rw_indent r) = tkA) by (rewrite Eadj; exact (tracker_adj_pac (cur :: ps) lastrow c0 dflt (rw_indent r) Hlast)).
    assert (H1 : St2 p0 tkA nodes sty (V ++ [XB]) ital).
    { apply (St2_settk p0 tk tkA nodes sty V ital Hh eq_refl); [right; reflexivity|]. intros _. split; reflexivity. }
    destruct (pac_style_St p0 tkA nodes sty (V ++ [XB]) ital (rw_ital r) H1) as (tk1 & nodes1 & sty1 & E1 & G1 & P1 & D1 & R1 & Bk).
    destruct (pac_unit_run5b st d pa ro q tm tc off (rich_of r) sty tk l nodes fr nx tk1 nodes1 sty1 Hrich) as (l1 & E & Hl1).
    { change (rw_ital (rich_of r)) with (rw_ital r). change (rw_row (rich_of r), rw_indent (rich_of r)) with (rw_row r, rw_indent r).
      rewrite Etk. exact E1. }
    { exact Hl. }
    { exact Hrd. }
    change (pac_unit d (rich_of r)) with (pac_unit d r) in E. change (rw_tab (rich_of r)) with (rw_tab r) in E.
    exists (tab_eff (rw_tab r) nodes1 tk1), l1, nodes1, sty1. split; [exact E|]. split; [exact Hl1|].
    assert (T : tk_pos (tab_eff (rw_tab r) nodes1 tk1) = tk_pos tk1 /\ tk_break (tab_eff (rw_tab r) nodes1 tk1) = tk_break tk1 /\
                tk_repos (tab_eff (rw_tab r) nodes1 tk1) = tk_repos tk1).
    { unfold tab_eff. destruct (has_break_before nodes1) eqn:Eh; [repeat split|].
      destruct Bk as [Bk|(_ & _ & X)]; [|congruence].
      rewrite (tk_eta tk1 _ _ _ _ P1 Bk R1 D1). unfold tkA. cbn [tk_pos tk_break tk_repos tk_default].
      rewrite (tab_adj (cur :: ps) lastrow c0 (rw_indent r) (rw_tab r) Hk). repeat split. }
    destruct T as (T1 & T2 & T3).
    split; [|split; [rewrite T1, P1; reflexivity|]].
    + cbn [sepx]. apply (St2_tkeq p0 tk1 _ nodes1 sty1 _ _ G1 T1); [rewrite P1; discriminate|exact T2|exact T3].
    + right. rewrite T3, R1. reflexivity.
  - set (tkF := mkTk [(rw_row r, rw_indent r)] None true (rw_row r, rw_indent r)).
    assert (Etk : tracker_update tk (rw_row r, rw_indent r) = tkF) by exact (tracker_far_pac (cur :: ps) lastrow c0 dflt (rw_row r) (rw_indent r) Hlast Hne Nadj).
    assert (H1 : St2 p0 tkF nodes sty (V ++ pend tkF) ital).
    { apply (St2_settk p0 tk tkF nodes sty V ital Hh eq_refl); [left; reflexivity|]. intros X. discriminate X. }
    destruct (pac_style_St p0 tkF nodes sty _ ital (rw_ital r) H1) as (tk1 & nodes1 & sty1 & E1 & G1 & P1 & D1 & R1 & Bk).
    assert (B1 : tk_break tk1 = None) by (destruct Bk as [Bk|(Bk & _)]; exact Bk).
    pose proof (tk_eta tk1 _ _ _ _ P1 B1 R1 D1) as Et1. cbn [tkF tk_pos tk_default tk_repos] in Et1. fold tkF in Et1. subst tk1.
    pose proof (pac_style_hbb (rw_ital r) sty tkF nodes tkF nodes1 sty1 eq_refl E1) as Hh1. rewrite Hhb in Hh1.
    destruct (pac_unit_run5b st d pa ro q tm tc off (rich_of r) sty tk l nodes fr nx tkF nodes1 sty1 Hrich) as (l1 & E & Hl1).
    { change (rw_ital (rich_of r)) with (rw_ital r). change (rw_row (rich_of r), rw_indent (rich_of r)) with (rw_row r, rw_indent r).
      rewrite Etk. exact E1. }
    { exact Hl. }
    { exact Hrd. }
    change (pac_unit d (rich_of r)) with (pac_unit d r) in E. change (rw_tab (rich_of r)) with (rw_tab r) in E.
    unfold tab_eff in E. rewrite Hh1 in E. unfold tkF in E. rewrite (tab_far (rw_row r) (rw_indent r) (rw_tab r) Hk) in E.
    eexists _, l1, nodes1, sty1. split; [exact E|]. split; [exact Hl1|]. split; [|split; [reflexivity|left; reflexivity]].
    exact (St2_repos_move p0 tkF (mkTk [(rw_row r, rw_indent r + rw_tab r)] None true (rw_row r, rw_indent r + rw_tab r)) nodes1 sty1 V (rw_ital r) G1 eq_refl eq_refl eq_refl eq_refl).
Qed.
End Rows8.


Lemma emit_row_m : forall d r, emit_row d r = pac_unit d r ++ mpack d (flat_map mtoks_of_item (rw_items r)) None.
Proof. intros d r. unfold emit_row. rewrite pack_mpack. reflexivity. Qed.

Section Rows8b.
Variables (st : stash) (p0 : pos) (d : bool) (pa ro : creator) (q : option (creator * Q)) (tm : Q) (tc : str) (off : Q).
Notation R8 sty tk l nodes fr := (RS st d sty pa ro q tm tc off tk l nodes fr).

(* ---- 20. the second and later rows ---------------------------------------------------------------------------------------------- *)
Lemma rows_run8 : forall t, Forall (fun r => row_ok r = true) t ->
  forall nx xs pp rprev oprev cur (ps : list pos) lastrow c0 dflt l fr nodes sty ital,
  chain_ok lastrow t -> rw_row rprev = lastrow -> row_ok rprev = true ->
  St2 p0 (mkTk (cur :: ps) None false dflt) nodes sty (flat xs ++ sepx (sepof pp rprev) ++ xl oprev) ital ->
  J None (cells_of rprev) oprev -> rowlast l -> last_is l w_eoc = false ->
  last (map Some (cur :: ps)) None = Some (lastrow, c0) ->
  exists tk' l' nodes' sty' ys,
    tws (R8 sty (mkTk (cur :: ps) None false dflt) l nodes fr) (flat_map (emit_row d) t) nx
      = R8 sty' tk' l' nodes' (fr + Z.of_nat (length (flat_map (emit_row d) t))) /\
    rx false nodes' = flat (xs ++ ys) /\ W p0 nodes' /\ Rrows pp (rprev :: t) ys /\ last_is l' w_eoc = false.
Proof.
  intros t F. induction F as [|r t Hrow F IH]; intros nx xs pp rprev oprev cur ps lastrow c0 dflt l fr nodes sty ital Hch Elr Hprev Hh Hj Hl Hle Hlast.
  - destruct (row_len rprev Hprev) as (Hlen & Hv & _).
    exists (mkTk (cur :: ps) None false dflt), l, nodes, sty, [(sepof pp rprev, oprev)].
    cbn [flat_map tws length]. rewrite Z.add_0_r. split; [reflexivity|].
    destruct Hh as [(_ & Hr & _ & _ & Hw & _) _]. unfold pend in Hr. cbn [tk_break tk_repos] in Hr. rewrite app_nil_r in Hr.
    split; [rewrite Hr, flat_app, flat_one; reflexivity|]. split; [exact Hw|]. split; [|exact Hle].
    cbn [Rrows fst snd]. split; [reflexivity|split; [|exact I]]. exact (lclosed_lineok _ _ (J_lclosed _ _ Hj) Hv Hlen).
  - destruct Hch as [Hne Hch].
    destruct (row_len rprev Hprev) as (Hlen & Hv & _). pose proof (J_nonempty _ _ Hj Hv) as Hon.
    cbn [flat_map]. rewrite tws_app, app_length, Nat2Z.inj_add, emit_row_m, tws_app, app_length, Nat2Z.inj_add.
    set (toks := mpack d (flat_map mtoks_of_item (rw_items r)) None).
    destruct (pac_row_facts2 (rich_of r) (rich_of_ok r Hrow)) as (_ & Hpac & _).
    change (pac_word (rw_row (rich_of r)) (pac_attr (rich_of r))) with (pac_word (rw_row r) (pac_attr r)) in Hpac.
    assert (Hend : exists V0 c b, flat xs ++ sepx (sepof pp rprev) ++ xl oprev = V0 ++ [XC c b]).
    { destruct (exists_last Hon) as (o1 & [c b] & ->). rewrite xl_snoc, !app_assoc. eexists _, _, _. reflexivity. }
    destruct (pac_run8 st p0 d pa ro q tm tc off r cur ps dflt l nodes sty ital _ fr (nxt toks (nxt (flat_map (emit_row d) t) nx)) lastrow c0
                Hrow Hh Hend Hlast Hne (Hl _ Hpac)) as (tk2 & l1 & nodes1 & sty1 & E1 & Hl1 & Hh1 & P2 & G2).
    rewrite E1.
    set (sp := sepof pp rprev) in *. set (sr := sepof (Some lastrow) r) in *.
    assert (Hsr : exists z, issep z = true /\ sepx sr = [z]).
    { unfold sr, sepof. destruct (rw_row r =? lastrow + 1); [exists XB|exists (XR (row_pos r))]; split; reflexivity. }
    destruct Hsr as (z & Hz & Ez).
    destruct (items_run8 st p0 d pa ro q tm tc off r (flat xs ++ sepx sp) (sepx sr) (cells_of rprev) oprev tk2 l1 nodes1 sty1
                (fr + Z.of_nat (length (pac_unit d r))) (nxt (flat_map (emit_row d) t) nx) Hrow)
      as (l2 & nodes2 & sty2 & ital2 & o' & rend' & E2 & Hh2 & Hs2 & Hcl2 & Hj2 & Hrn & Hle2 & Hl2).
    { cbn [xl map]. rewrite app_nil_r. repeat rewrite <- app_assoc in Hh1. repeat rewrite <- app_assoc. exact Hh1. }
    { right. split; [exact Hon|]. exists z. split; assumption. }
    { exact (J_lclosed _ _ Hj). }
    { exact Hl1. }
    fold toks in E2. rewrite E2.
    assert (Htk : exists cur' ps' c1, norm tk2 = mkTk (cur' :: ps') None false (tk_default tk2) /\
                    last (map Some (cur' :: ps')) None = Some (rw_row r, c1)).
    { unfold norm. rewrite P2. destruct (Z.eqb_spec (rw_row r) (lastrow + 1)) as [Ea|Na].
      - exists cur, (ps ++ [(lastrow + 1, c0)]), c0. split; [reflexivity|].
        change (cur :: ps ++ [(lastrow + 1, c0)]) with ((cur :: ps) ++ [(lastrow + 1, c0)]). rewrite last_some_app, Ea. reflexivity.
      - exists (row_pos r), [], (rw_indent r + rw_tab r). split; reflexivity. }
    destruct Htk as (cur' & ps' & c1 & Etk & Hlast').
    rewrite Etk in *.
    destruct (IH nx (xs ++ [(sp, o')]) (Some lastrow) r rend' cur' ps' (rw_row r) c1 (tk_default tk2) l2
                (fr + Z.of_nat (length (pac_unit d r)) + Z.of_nat (length toks)) nodes2 sty2 ital2 Hch eq_refl Hrow)
      as (tk' & l' & nodes' & sty' & ys & E & Hrx & Hw & HR & Hle').
    { fold sr. rewrite flat_app, flat_one. repeat rewrite <- app_assoc in Hh2. repeat rewrite <- app_assoc. exact Hh2. }
    { exact Hj2. }
    { exact Hl2. }
    { exact Hle2. }
    { exact Hlast'. }
    exists tk', l', nodes', sty', ((sp, o') :: ys). split; [rewrite E; f_equal; lia|].
    split; [rewrite Hrx, <- app_assoc; reflexivity|]. split; [exact Hw|]. split; [|exact Hle'].
    cbn [Rrows fst snd]. split; [reflexivity|]. split; [exact (lclosed_lineok _ _ Hcl2 Hv Hlen)|]. rewrite Elr. exact HR.
Qed.
End Rows8b.


(* ---- 21. the prologue ENM RCL from a between-lines state: the double-starter flag ends as d --------------------------- *)
Lemma prologue8 : forall d st tk l ds c pa ro q tm tc fr off nx, last_is l w_enm = false ->
  exists l0, tws (mkR st tk l ds c pa ro MPop q tm tc fr off None) (ctl d (ctrl_word 46) ++ ctl d (ctrl_word 32)) nx
   = mkR st (tracker_reset tk) l0 d creator0 pa ro MPop q tm tc (fr + (if d then 4 else 2)) off None
   /\ (l0 = LNone \/ l0 = LWord w_rcl).
Proof.
  intros d st tk l ds c pa ro q tm tc fr off nx Hl. change (ctrl_word 46) with w_enm. change (ctrl_word 32) with w_rcl.
  destruct d; cbn [ctl app tws].
  - exists LNone. split; [|left; reflexivity]. rewrite (tw_enm _ _ _ _ _ _ _ _ _ _ _ _ _ Hl).
    rewrite (tw_second _ w_enm); [|reflexivity|reflexivity|reflexivity].
    unfold bump, set_dbl, set_clock. proj_red. rewrite tw_rcl by reflexivity.
    rewrite (tw_second _ w_rcl); [|reflexivity|reflexivity|reflexivity].
    unfold bump, set_dbl, set_clock. proj_red. replace (is_cue_start w_rcl) with true by (vm_compute; reflexivity).
    f_equal. lia.
  - exists (LWord w_rcl). split; [|right; reflexivity]. rewrite (tw_enm _ _ _ _ _ _ _ _ _ _ _ _ _ Hl).
    rewrite tw_rcl by reflexivity. f_equal. lia.
Qed.

(* ---- 22. End-Of-Caption on any non-empty buffer --------------------------------------------------------------------------------- *)
Lemma tw_eoc8 : forall st tk l ds c pa ro q tm tc fr off n t, cr_is_empty c = false ->
  last_is l w_eoc = false -> get_time tc fr off = Ok t ->
  translate_word (mkR st tk l ds c pa ro MPop q tm tc fr off None) w_eoc n
  = mkR (popped st q t) tk (LWord w_eoc) ds creator0 pa ro MPop (Some (c, t)) t tc (fr + 1) off None.
Proof.
  intros st tk l ds c pa ro q tm tc fr off n t Hne Hl Hg.
  unfold translate_word. proj_red. rewrite (hd_eoc _ _ _ _ _ _ _ _ _ _ _ _ Hl). proj_red.
  replace (is_command w_eoc || is_pac w_eoc) with true by (vm_compute; reflexivity).
  rewrite translate_command_eoc. unfold with_time. proj_red. rewrite Hg. cbv zeta.
  destruct q as [[c1 t1]|]; proj_red.
  - unfold pop_on. proj_red. unfold store. proj_red. rewrite Hne. proj_red. reflexivity.
  - rewrite Hne. proj_red. reflexivity.
Qed.

Lemma eoc_gen8 : forall d st tk l ds c pa ro q tm tc fr off nx t, cr_is_empty c = false ->
  last_is l w_eoc = false -> get_time tc fr off = Ok t ->
  exists l' ds', tws (mkR st tk l ds c pa ro MPop q tm tc fr off None) (ctl d (ctrl_word 47)) nx
   = mkR (popped st q t) tk l' ds' creator0 pa ro MPop (Some (c, t)) t tc (fr + (if d then 2 else 1)) off None
   /\ (l' = LNone \/ l' = LWord w_eoc).
Proof.
  intros d st tk l ds c pa ro q tm tc fr off nx t Hne Hl Hg. change (ctrl_word 47) with w_eoc.
  destruct (ctl_pair d w_eoc nx _ _ (fun n => tw_eoc8 st tk l ds c pa ro q tm tc fr off n t Hne Hl Hg) eq_refl eq_refl eq_refl)
    as (l1 & ds1 & E1 & Hl1).
  red_in E1. rewrite E1. exists l1, ds1. split; [|exact Hl1]. f_equal. destruct d; lia.
Qed.

(* ---- 23. a buffer that shows a character is not empty ---------------------------------------------------------------------------- *)
Definition hasxc (x : list xch) : bool := existsb (fun a => negb (issep a)) x.

Lemma rx_hasxc : forall nodes b, hasxc (rx b nodes) = true -> existsb (fun n => nonempty (i_text n)) nodes = true.
Proof.
  induction nodes as [|n t IH]; intros b H; [discriminate H|].
  destruct n as [k x q]; destruct k; cbn [rx i_kind i_text i_pos existsb] in *.
  - destruct x as [|c x']; [exact (IH _ H)|reflexivity].
  - unfold hasxc in *. cbn [existsb issep negb orb] in H. rewrite (IH _ H). apply orb_true_r.
  - rewrite (IH _ H). apply orb_true_r.
  - rewrite (IH _ H). apply orb_true_r.
  - unfold hasxc in *. cbn [existsb issep negb orb] in H. rewrite (IH _ H). apply orb_true_r.
Qed.

Lemma lineok_nonempty : forall cs o, lineok cs o -> o <> [].
Proof. intros cs o (_ & _ & _ & H) ->. discriminate H. Qed.

Lemma lineokw_nonempty : forall cs o, lineokw cs o -> o <> [].
Proof. intros cs o (_ & _ & _ & H) ->. discriminate H. Qed.

Lemma hasxc_xl : forall o, o <> [] -> hasxc (xl o) = true.
Proof. intros [|[c b] o] H; [congruence|reflexivity]. Qed.

Lemma hasxc_app : forall a b, hasxc (a ++ b) = hasxc a || hasxc b.
Proof. intros. unfold hasxc. apply existsb_app. Qed.

(* ---- 24. what is known about the creator queued for a load ------------------------------------------------------------------------ *)
Definition lc_good8 (ld : load) (cr : creator) : Prop :=
  exists r t xs, ld = r :: t /\ rx false (cr_nodes cr) = flat xs /\ Rrows None ld xs /\ W (row_pos r) (cr_nodes cr).

Lemma lc_good8_not_empty : forall ld cr, lc_good8 ld cr -> cr_is_empty cr = false.
Proof.
  intros ld cr (r & t & xs & -> & Hrx & HR & _). unfold cr_is_empty. apply negb_false_iff. apply (rx_hasxc _ false). rewrite Hrx.
  destruct xs as [|[s o] xs]; [destruct HR|]. cbn [Rrows fst snd] in HR. destruct HR as (_ & Hlo & _).
  unfold flat. cbn [map concat fst snd]. rewrite !hasxc_app, (hasxc_xl o (lineokw_nonempty _ _ Hlo)). rewrite orb_true_r. reflexivity.
Qed.

Lemma lc_ok8_parts : forall ld, lc_ok8 ld = true ->
  exists r t, ld = r :: t /\ row_ok r = true /\ Forall (fun r => row_ok r = true) t /\ chain_ok (rw_row r) t.
Proof.
  intros ld Hw. unfold lc_ok8 in Hw.
  destruct ld as [|r t]; [discriminate Hw|]. exists r, t. unfold load_wf in Hw.
  apply andb_true_iff in Hw. destruct Hw as [Hr Hd].
  rewrite forallb_cons in Hr. apply andb_true_iff in Hr. destruct Hr as [Hr Ht].
  split; [reflexivity|split; [exact Hr|split]].
  - apply Forall_forall. intros x Hx. exact (proj1 (forallb_forall _ _) Ht x Hx).
  - cbn [map distinct] in Hd. apply andb_true_iff in Hd. destruct Hd as [Hm Hd]. apply negb_true_iff in Hm.
    apply distinct_chain; assumption.
Qed.

Lemma lc_ok8_wf : forall ld, lc_ok8 ld = true -> load_wf ld = true.
Proof. intros ld H. exact H. Qed.

(* ---- 25. a load line from any between-lines state --------------------------------------------------------------------------------- *)
Theorem line8 : forall d off ld st tk l ds q tm tc fr tc' t,
  lc_ok8 ld = true -> last_is l w_enm = false ->
  get_time tc' (Z.of_nat (length (emit_load d ld)) - (if d then 2 else 1)) off = Ok t ->
  exists cr tk' l' ds' fr',
    translate_line (B off st tk l ds q tm tc fr) (tc', emit_load d ld)
      = B off (popped st q t) tk' l' ds' (Some (cr, t)) t tc' fr'
    /\ lc_good8 ld cr /\ last_is l' w_edm = false /\ last_is l' w_enm = false.
Proof.
  intros d off ld st tk l ds q tm tc fr tc' t H Hl Hg. rewrite translate_line_B. unfold B.
  destruct (lc_ok8_parts ld H) as (r & rest & -> & Hrow & Frest & Hch).
  assert (El : emit_load d (r :: rest) = (ctl d (ctrl_word 46) ++ ctl d (ctrl_word 32)) ++ pac_unit d r ++
               mpack d (flat_map mtoks_of_item (rw_items r)) None ++ flat_map (emit_row d) rest ++ ctl d (ctrl_word 47)).
  { unfold emit_load. cbn [flat_map]. rewrite emit_row_m, <- !app_assoc. reflexivity. }
  set (toks := mpack d (flat_map mtoks_of_item (rw_items r)) None) in *.
  rewrite El in *. rewrite !app_length, !Nat2Z.inj_add, !ctl_length in Hg.
  rewrite (tws_app (ctl d (ctrl_word 46) ++ ctl d (ctrl_word 32))), (tws_app (pac_unit d r)), (tws_app toks),
          (tws_app (flat_map (emit_row d) rest)).
  destruct (prologue8 d st tk l ds creator0 creator0 creator0 q tm tc' 0 off
              (nxt (pac_unit d r ++ toks ++ flat_map (emit_row d) rest ++ ctl d (ctrl_word 47)) None) Hl) as (l0 & -> & Hl0).
  pose proof (rich_of_ok r Hrow) as Hrich.
  destruct (pac_row_facts2 (rich_of r) Hrich) as (_ & _ & _ & C & _).
  change (pac_word (rw_row (rich_of r)) (pac_attr (rich_of r))) with (pac_word (rw_row r) (pac_attr r)) in C.
  assert (Hc0 : last_contains l0 (pac_word (rw_row r) (pac_attr r)) = false).
  { destruct Hl0 as [->| ->]; [reflexivity|]. cbn [last_contains]. apply Z.eqb_neq. intros E. apply (cf_ctl _ C).
    rewrite <- E. unfold ctl_words. cbn [In]. tauto. }
  destruct (pac_unit_run2 (rich_of r) Hrich st d creator0 creator0 q tm tc' off d (tk_default tk) l0 (0 + (if d then 4 else 2))
              (nxt (toks ++ flat_map (emit_row d) rest ++ ctl d (ctrl_word 47)) None) Hc0) as (l1 & E1 & Hl1).
  unfold SQ in E1.
  change (pac_unit d (rich_of r)) with (pac_unit d r) in E1. change (pre_of (rich_of r)) with (pre_of r) in E1.
  change (sty_of (rich_of r)) with (sty_of r) in E1. change (row_pos (rich_of r)) with (row_pos r) in E1.
  unfold tracker_reset. rewrite E1.
  set (p0 := row_pos r). set (tk1 := mkTk [p0] None false p0).
  assert (H0 : St2 p0 tk1 (pre_of r) (sty_of r) (([] ++ xl [] ++ []) ++ xl []) (rw_ital r)).
  { cbn [xl map app]. unfold pre_of, sty_of. split.
    - split; [left; reflexivity|]. destruct (rw_ital r); (split; [reflexivity|split; [reflexivity|split; [reflexivity|split; [exact I|]]]]);
        intros _; (split; [reflexivity|]); intros n E T; cbn [map last] in E; try discriminate E. injection E as <-. discriminate T.
    - intros (V0 & c & b & E). destruct V0; discriminate E. }
  destruct (items_run8 st p0 d creator0 creator0 q tm tc' off r [] [] [] [] tk1 l1 (pre_of r) (sty_of r)
              (0 + (if d then 4 else 2) + Z.of_nat (length (pac_unit d r))) (nxt (flat_map (emit_row d) rest ++ ctl d (ctrl_word 47)) None) Hrow H0)
    as (l2 & nodes2 & sty2 & ital2 & o' & rend' & E2 & Hh2 & Hs2 & Hcl2 & Hj2 & Hrn & Hle2 & Hl2).
  { left. repeat split. }
  { exists [], []. split; [reflexivity|split; [reflexivity|split; [constructor|left; reflexivity]]]. }
  { exact Hl1. }
  fold toks in E2. unfold RS in E2. rewrite E2.
  assert (Eo : o' = []) by (destruct Hs2 as [(_ & Eo & _)|(_ & z & _ & X)]; [exact Eo|discriminate X]). subst o'.
  destruct (rows_run8 st p0 d creator0 creator0 q tm tc' off rest Frest (nxt (ctl d (ctrl_word 47)) None) [] None r rend' p0 [] (rw_row r)
              (rw_indent r + rw_tab r) p0 l2 (0 + (if d then 4 else 2) + Z.of_nat (length (pac_unit d r)) + Z.of_nat (length toks))
              nodes2 sty2 ital2 Hch eq_refl Hrow)
    as (tk3 & l3 & nodes3 & sty3 & ys & E3 & Hrx & Hw & HR & Hle3).
  { cbn [flat concat map sepof sepx app xl] in Hh2 |- *. exact Hh2. }
  { exact Hj2. }
  { exact Hl2. }
  { exact Hle2. }
  { reflexivity. }
  unfold RS in E3. change (norm tk1) with tk1. unfold tk1. rewrite E3.
  assert (Hgood : lc_good8 (r :: rest) (mkCr nodes3 sty3)).
  { exists r, rest, ys. split; [reflexivity|split; [exact Hrx|split; [exact HR|exact Hw]]]. }
  set (f := 0 + (if d then 4 else 2) + Z.of_nat (length (pac_unit d r)) + Z.of_nat (length toks) + Z.of_nat (length (flat_map (emit_row d) rest))) in *.
  replace ((if d then 2 else 1) + (if d then 2 else 1) + (Z.of_nat (length (pac_unit d r)) + (Z.of_nat (length toks) +
           (Z.of_nat (length (flat_map (emit_row d) rest)) + (if d then 2 else 1)))) - (if d then 2 else 1)) with f in Hg
    by (unfold f; destruct d; lia).
  destruct (eoc_gen8 d st tk3 l3 d (mkCr nodes3 sty3) creator0 creator0 q tm tc' f off None t (lc_good8_not_empty _ _ Hgood) Hle3 Hg)
    as (l4 & ds4 & E4 & Hl4).
  exists (mkCr nodes3 sty3), tk3, l4, ds4, (f + (if d then 2 else 1)). split; [exact E4|]. split; [exact Hgood|].
  destruct Hl4 as [->| ->]; split; reflexivity.
Qed.


(* ---- 26. the captions a flat list of rows is cut into are the expected captions -------------------------------------------- *)
Definition ebounds (e : ecap) : Prop := 1 <= e_row e <= 15 /\ 0 <= e_col e <= 31.
Definition capok (e : ecap) (v : rawv) : Prop :=
  fst v = (e_row e, e_col e) /\ Forall2 lineok (e_lines e) (snd v) /\ ebounds e /\ snd v <> [].
(* before pass 7 *)
Definition capokw (e : ecap) (v : rawv) : Prop :=
  fst v = (e_row e, e_col e) /\ Forall2 lineokw (e_lines e) (snd v) /\ ebounds e /\ snd v <> [].

Lemma flat_cons : forall so xs, flat (so :: xs) = sepx (fst so) ++ xl (snd so) ++ flat xs.
Proof. intros so xs. unfold flat. cbn [map concat]. rewrite <- app_assoc. reflexivity. Qed.

Lemma row_bounds : forall r, row_ok r = true -> ebounds (mkE (rw_row r) (rw_indent r + rw_tab r) [cells_of r]).
Proof.
  intros r H. destruct (row_ok_parts r H) as (Hr & Hm & Ht & _ & Hv & _ & Hn). apply mem_In in Hm.
  assert (H0 : 0 <= rw_indent r) by (unfold indents_608 in Hm; cbn [In] in Hm; lia).
  assert (Hlen : (1 <= length (cells_of r))%nat) by (destruct (cells_of r); [discriminate Hv|cbn [length]; lia]).
  unfold ebounds. cbn [e_row e_col]. lia.
Qed.

Lemma group_view : forall t, Forall (fun r => row_ok r = true) t -> forall xs lr e p cur ls,
  Rrows (Some lr) t xs -> capokw e (p, ls ++ [cur]) ->
  Forall2 capokw (group_rows t (Some (e, lr))) (xcaps (flat xs) p cur ls).
Proof.
  intros t F. induction F as [|r t Hrow F IH]; intros xs lr e p cur ls HR Hc.
  - destruct xs as [|so xs]; [|destruct HR]. cbn [group_rows flat concat map xcaps]. constructor; [exact Hc|constructor].
  - destruct xs as [|so xs]; [destruct HR|]. cbn [Rrows] in HR. destruct HR as (Es & Hlo & HR).
    rewrite flat_cons, Es. cbn [group_rows sepof]. destruct Hc as (Hp & Hl & Hb & Hn). cbn [fst snd] in Hp, Hl.
    destruct (rw_row r =? lr + 1).
    + cbn [sepx app xcaps]. rewrite xcaps_xl. cbn [app]. apply IH; [exact HR|].
      split; [exact Hp|split; [|split; [exact Hb|]]]; cbn [fst snd e_row e_col e_lines].
      * apply F2_snoc; assumption.
      * intros X. apply app_eq_nil in X. destruct X as [_ X]. discriminate X.
    + cbn [sepx app xcaps]. constructor.
      * split; [exact Hp|split; [exact Hl|split; [exact Hb|]]]. cbn [snd]. intros X. apply app_eq_nil in X. destruct X as [_ X]. discriminate X.
      * rewrite xcaps_xl. cbn [app]. apply IH; [exact HR|].
        split; [reflexivity|split; [|split; [exact (row_bounds r Hrow)|discriminate]]]. cbn [e_lines snd app]. constructor; [exact Hlo|constructor].
Qed.

Lemma load_view : forall r t xs, row_ok r = true -> Forall (fun r => row_ok r = true) t -> Rrows None (r :: t) xs ->
  Forall2 capokw (expected_load (r :: t)) (xcaps (flat xs) (row_pos r) [] []).
Proof.
  intros r t xs Hrow F HR. destruct xs as [|so xs]; [destruct HR|]. cbn [Rrows] in HR. destruct HR as (Es & Hlo & HR).
  rewrite flat_cons, Es. unfold expected_load. cbn [group_rows sepof sepx app]. rewrite xcaps_xl. cbn [app].
  apply (group_view t F xs); [exact HR|].
  split; [reflexivity|split; [|split; [exact (row_bounds r Hrow)|discriminate]]]. cbn [e_lines snd app]. constructor; [exact Hlo|constructor].
Qed.

(* pass 7 strips the blanks at the end of the lines: what is left fits the row *)
Lemma lineok_srel : forall cs o o', lineokw cs o -> srel o o' -> lineok cs o'.
Proof.
  intros cs o o' (Hm & Hl & Hg & Hv) ((sp & -> & Hb) & Hs).
  split; [|split; [|split]].
  - unfold match_line in *. rewrite (rstrip_obs_app_blanks o' sp Hb) in Hm. exact Hm.
  - pose proof (app_length o' sp) as L. destruct (endsb (o' ++ sp)); [specialize (Hs eq_refl)|]; lia.
  - apply Forall_app in Hg. exact (proj1 Hg).
  - rewrite existsb_app, (blanks_novis sp Hb), orb_false_r in Hv. exact Hv.
Qed.

Lemma F2_lineok_srel : forall ls os os', Forall2 lineokw ls os -> Forall2 srel os os' -> Forall2 lineok ls os'.
Proof.
  intros ls os os' H. revert os'. induction H as [|l o ls os H1 H IH]; intros os' H2; inversion H2; subst; constructor.
  - eapply lineok_srel; eassumption.
  - apply IH. assumption.
Qed.

Lemma capok_vrel : forall es vs vs', Forall2 capokw es vs -> Forall2 vrel vs vs' -> Forall2 capok es vs'.
Proof.
  intros es vs vs' H. revert vs'. induction H as [|e v es vs H1 H IH]; intros vs' H2; inversion H2 as [|v0 v' vs0 vs'0 Hv H3]; subst; constructor.
  - destruct H1 as (Hp & Hl & Hb & Hn). destruct Hv as [Ev Hv]. split; [rewrite <- Ev; exact Hp|split; [exact (F2_lineok_srel _ _ _ Hl Hv)|split; [exact Hb|]]].
    intros X. rewrite X in Hv. inversion Hv. congruence.
  - apply IH. assumption.
Qed.

Lemma F2_map_views : forall A B C D (f : C -> D) (g : B -> D) (P : A -> B -> Prop) es vs caps,
  map f caps = map g vs -> Forall2 P es vs -> Forall2 (fun e c => exists v, f c = g v /\ P e v) es caps.
Proof.
  intros A B C D f g P es vs caps E H. revert caps E. induction H as [|e v es vs H1 H IH]; intros caps E.
  - destruct caps; [constructor|discriminate E].
  - destruct caps as [|c caps]; [discriminate E|]. cbn [map] in E. injection E as E1 E2.
    constructor; [exists v; split; assumption|apply IH; exact E2].
Qed.

(* ---- 27. from the view of a caption to the oracle --------------------------------------------------------------------------------- *)
Lemma match_lines_ok : forall ls os, Forall2 lineok ls os -> match_lines ls os = true.
Proof.
  intros ls os H. induction H as [|l o ls os (Hm & _) H IH]; [reflexivity|]. cbn [match_lines]. rewrite Hm, IH. reflexivity.
Qed.

Lemma anychar_ok : forall ls os, Forall2 lineok ls os -> os <> [] -> anychar os = true.
Proof.
  intros ls os H Hn. destruct H as [|l o ls os H1 H]; [congruence|]. unfold anychar. cbn [existsb].
  pose proof (lineok_nonempty _ _ H1) as X. destruct o; [congruence|reflexivity].
Qed.

Definition capgood (t0 : Q) (e : ecap) (c : precap) : Prop :=
  pc_start c = t0 /\ cchk false (pc_nodes c) = true /\ exists v, cview c = mkv v /\ capok e v.

Lemma cap_ok_good8 : forall t0 e' e c, capgood t0 e c -> (t0 < e')%Q -> cap_ok e (observe (set_end e' c)) = true.
Proof.
  intros t0 e' e c (Hs & Hbal & v & Ev & Hp & Hl & (Hr & Hc) & Hn) Hlt.
  unfold cview, mkv in Ev. rewrite (anychar_ok _ _ Hl Hn) in Ev. injection Ev as Elay Elines.
  assert (Hg : In (e_row e, e_col e) grid_positions) by (apply grid_positions_complete; assumption).
  destruct (layout_linear_exhaustive _ Hg) as (Lx & Ly & _).
  unfold cap_ok, observe, set_end. cbn [o_nodes o_xy o_start o_end pc_start pc_end pc_nodes pc_layout].
  rewrite Elines, (match_lines_ok _ _ Hl), <- cchk_balanced, Hbal, Elay, Hp. cbn [option_map andb fst snd] in *.
  destruct (layout_of_pos (e_row e, e_col e)) as [x y].
  destruct (layout_608 (e_row e) (e_col e)) as [ex ey]. cbn [fst snd] in Lx, Ly.
  rewrite (q_near9_eq _ _ Lx), (q_near9_eq _ _ Ly), Hs. cbn [andb].
  destruct (Qle_bool e' t0) eqn:Eq; [|reflexivity].
  apply Qle_bool_iff in Eq. exfalso. exact (Qlt_not_le _ _ Hlt Eq).
Qed.

Lemma load_ok_good8 : forall t0 e' es caps rest, Forall2 (capgood t0) es caps -> (t0 < e')%Q -> forall span,
  span = None \/ span = Some (t0, e') ->
  load_ok es (map observe (map (set_end e') caps) ++ rest) span = Some (rest, match es with [] => span | _ => Some (t0, e') end).
Proof.
  intros t0 e' es caps rest F Hlt. induction F as [|e c es caps Hc F IH]; intros span Hs; [reflexivity|].
  cbn [map app load_ok]. rewrite (cap_ok_good8 t0 e' e c Hc Hlt). cbn [andb].
  assert (E1 : o_start (observe (set_end e' c)) = t0) by (destruct Hc as (X & _); exact X).
  assert (E2 : o_end (observe (set_end e' c)) = e') by reflexivity.
  rewrite E1, E2.
  assert (Hq : match span with Some (s, t) => Qeq_bool s t0 && Qeq_bool t e' | None => true end = true).
  { destruct Hs as [->| ->]; [reflexivity|]. apply andb_true_iff. split; apply Qeq_bool_iff; reflexivity. }
  rewrite Hq. rewrite IH by (right; reflexivity). destruct es; reflexivity.
Qed.

(* ---- 28. the length scan: the lines of the text are the observed lines ----------------------------------------------------------- *)
Lemma obs_head : forall ns cur it, exists o rest, obs_lines ns cur it = (cur ++ o) :: rest.
Proof.
  induction ns as [|n ns IH]; intros cur it.
  - exists [], []. cbn [obs_lines]. rewrite app_nil_r. reflexivity.
  - destruct n as [s| |b]; cbn [obs_lines].
    + destruct (IH (cur ++ map (fun c => (c, it)) s) it) as (o & rest & E). exists (map (fun c => (c, it)) s ++ o), rest.
      rewrite E, <- app_assoc. reflexivity.
    + exists [], (obs_lines ns [] it). rewrite app_nil_r. reflexivity.
    + exact (IH cur b).
Qed.

Lemma split_nosep_app : forall sep s r acc, ~ In sep s -> split_ch_aux sep (s ++ r) acc = split_ch_aux sep r (rev s ++ acc).
Proof.
  intros sep. induction s as [|c s IH]; intros r acc H; [reflexivity|]. cbn [app split_ch_aux].
  destruct (Z.eqb_spec c sep) as [E|E]; [exfalso; apply H; left; exact E|].
  rewrite IH by (intros X; apply H; right; exact X). cbn [rev]. rewrite <- app_assoc. reflexivity.
Qed.

Lemma split_obs : forall ns cur it acc, rev acc = map fst cur ->
  (forall ln x, In ln (obs_lines ns cur it) -> In x ln -> fst x <> 10) ->
  split_ch_aux 10 (concat (map otxt ns)) acc = map (map fst) (obs_lines ns cur it).
Proof.
  induction ns as [|n ns IH]; intros cur it acc Ha Hn.
  - cbn [map concat split_ch_aux obs_lines]. rewrite Ha. reflexivity.
  - destruct n as [s| |b]; cbn [map concat otxt obs_lines] in *.
    + assert (Hs : ~ In 10 s).
      { intros X. destruct (obs_head ns (cur ++ map (fun c => (c, it)) s) it) as (o & rest & E).
        apply (Hn ((cur ++ map (fun c => (c, it)) s) ++ o) (10, it)); [rewrite E; left; reflexivity| |reflexivity].
        apply in_or_app. left. apply in_or_app. right. apply in_map_iff. exists 10. split; [reflexivity|exact X]. }
      rewrite (split_nosep_app 10 s _ acc Hs). apply IH; [|exact Hn].
      rewrite rev_app_distr, rev_involutive, Ha, map_app, map_map. cbn [fst]. rewrite map_id. reflexivity.
    + cbn [app split_ch_aux map]. rewrite Z.eqb_refl, Ha. f_equal. apply (IH [] it []); [reflexivity|].
      intros ln x H1 H2. exact (Hn ln x (or_intror H1) H2).
    + exact (IH cur b acc Ha Hn).
Qed.


(* ---- 29. storing the creator queued for a load ------------------------------------------------------------------------------------ *)
Lemma F2_and_right : forall A B (R : A -> B -> Prop) (P : B -> Prop) l l', Forall2 R l l' -> Forall P l' -> Forall2 (fun a b => R a b /\ P b) l l'.
Proof. intros A B R P l l' H. induction H; intros F; inversion F; subst; constructor; auto. Qed.

Lemma F2_in_r : forall A B (R : A -> B -> Prop) l l' b, Forall2 R l l' -> In b l' -> exists a, In a l /\ R a b.
Proof.
  intros A B R l l' b H. induction H as [|x y l l' Hxy H IH]; intros Hb; [destruct Hb|]. destruct Hb as [<-|Hb].
  - exists x. split; [left; reflexivity|exact Hxy].
  - destruct (IH Hb) as (a & Ha & Hr). exists a. split; [right; exact Ha|exact Hr].
Qed.

Lemma filter_none : forall A (f : A -> bool) l, (forall x, In x l -> f x = false) -> filter f l = [].
Proof.
  intros A f l H. induction l as [|a l IH]; [reflexivity|]. cbn [filter]. rewrite (H a (or_introl eq_refl)). apply IH.
  intros x Hx. apply H. right. exact Hx.
Qed.

Theorem good8 : forall ld cr st t0 t1, lc_ok8 ld = true -> lc_good8 ld cr ->
  exists caps, create_and_store st cr t0 t1 = stash_extend st caps /\ caps <> [] /\
    Forall (fun c => pc_start c = t0 /\ pc_end c = t1 /\ has_nodes c = true) caps /\
    (forall c ln, In c caps -> In ln (lines_of (cap_text c)) -> (length ln <= 32)%nat) /\
    (forall e, (t0 < e)%Q -> forall rest,
       load_ok (expected_load ld) (map observe (map (set_end e) caps) ++ rest) None = Some (rest, Some (t0, e))).
Proof.
  intros ld cr st t0 t1 Hok Hg. pose proof (lc_good8_not_empty ld cr Hg) as Hemp.
  destruct (lc_ok8_parts ld Hok) as (r & t & -> & Hrow & Ft & _).
  destruct Hg as (r' & t' & xs & Eld & Hrx & HR & Hw). injection Eld as <- <-.
  set (nodes := cr_nodes cr) in *. set (F := format_italics nodes). set (p0 := row_pos r) in *.
  set (caps := build_captions F t0 t1 [] (mkPre t0 t1 [] None)).
  assert (Hview : map cview caps = map mkv (xcaps (rx false F) p0 [] [])).
  { exact (build_view F false p0 t0 t1 [] (mkPre t0 t1 [] None) [] [] (format_chk nodes) (W_format nodes p0 Hw) (fun rest => eq_refl) eq_refl). }
  assert (Hcap : Forall2 capok (expected_load (r :: t)) (xcaps (rx false F) p0 [] [])).
  { apply (capok_vrel _ (xcaps (rx false nodes) p0 [] [])); [rewrite Hrx; exact (load_view r t xs Hrow Ft HR)|exact (format_view nodes p0)]. }
  pose proof (F2_map_views _ _ _ _ cview mkv capok _ _ caps Hview Hcap) as F2.
  assert (Ftimes : Forall (fun c => pc_start c = t0 /\ pc_end c = t1) caps).
  { apply build_times; [constructor|split; reflexivity]. }
  pose proof (captions_balanced nodes t0 t1) as Fbal. fold F in Fbal. fold caps in Fbal.
  assert (FG : Forall2 (capgood t0) (expected_load (r :: t)) caps).
  { pose proof (F2_and_right _ _ _ _ _ _ (F2_and_right _ _ _ _ _ _ F2 Ftimes) Fbal) as X.
    clear -X. induction X as [|e c es cs [[H1 [H2 _]] H3] X IH]; constructor; [|exact IH]. split; [exact H2|split; [exact H3|exact H1]]. }
  assert (Hnodes : forall c, In c caps -> has_nodes c = true).
  { intros c Hc. destruct (F2_in_r _ _ _ _ _ c F2 Hc) as (e & _ & v & Ev & _ & Hl & _ & Hn).
    unfold has_nodes. destruct (pc_nodes c) eqn:En; [|reflexivity]. exfalso.
    unfold cview, mkv in Ev. rewrite En in Ev. cbn [map obs_lines] in Ev. injection Ev as _ Ev. rewrite <- Ev in Hl.
    inversion Hl as [|l0 o0 ls os H1 H2]; subst. exact (lineok_nonempty _ _ H1 eq_refl). }
  exists caps. split; [|split; [|split; [|split]]].
  - unfold create_and_store. rewrite Hemp. reflexivity.
  - pose proof (expected_load_nonempty r t) as Hne. intros E. rewrite E in FG. inversion FG as [X|]. congruence.
  - rewrite Forall_forall in *. intros c Hc. destruct (Ftimes c Hc) as [A1 A2]. split; [exact A1|split; [exact A2|exact (Hnodes c Hc)]].
  - intros c ln Hc Hln. destruct (F2_in_r _ _ _ _ _ c F2 Hc) as (e & _ & v & Ev & _ & Hl & _ & _).
    unfold cview, mkv in Ev. injection Ev as _ Ev.
    unfold lines_of, split_ch in Hln. rewrite cap_text_observe in Hln. unfold observe in Hln. cbn [o_nodes] in Hln.
    rewrite (split_obs _ [] false [] eq_refl) in Hln.
    + apply in_map_iff in Hln. destruct Hln as (o & <- & Ho). rewrite map_length. rewrite Ev in Ho.
      destruct (F2_in_r _ _ _ _ _ o Hl Ho) as (cs & _ & _ & Hlen & _). exact Hlen.
    + intros o x Ho Hx. rewrite Ev in Ho. destruct (F2_in_r _ _ _ _ _ o Hl Ho) as (cs & _ & _ & _ & Hgc & _).
      rewrite Forall_forall in Hgc. destruct (gcharb_parts _ (Hgc x Hx)) as [G _]. lia.
  - intros e Hlt rest. rewrite (load_ok_good8 t0 e _ caps rest FG Hlt None (or_introl eq_refl)).
    pose proof (expected_load_nonempty r t) as Hne. destruct (expected_load (r :: t)); [congruence|reflexivity].
Qed.

(* ---- 30. one load, read ----------------------------------------------------------------------------------------------------------- *)
Lemma map_set_end_same : forall e caps, Forall (fun c => pc_end c = e) caps -> map (set_end e) caps = caps.
Proof.
  intros e caps F. induction F as [|c caps Hc F IH]; [reflexivity|]. cbn [map]. rewrite IH. f_equal.
  destruct c as [s e0 n l]. cbn [pc_end] in Hc. subst e0. reflexivity.
Qed.

Lemma filter_all8 : forall A (f : A -> bool) l, Forall (fun x => f x = true) l -> filter f l = l.
Proof. intros A f l F. induction F as [|x l Hx F IH]; [reflexivity|]. cbn [filter]. rewrite Hx, IH. reflexivity. Qed.

Theorem popon_stage8 : forall d l off tc tc2 t1 t2, lc_ok8 l = true ->
  get_time tc (Z.of_nat (length (emit_load d l)) - (if d then 2 else 1)) off = Ok t1 ->
  get_time tc2 0 off = Ok t2 -> (0 < t1)%Q -> (t1 < t2)%Q -> is_flash (mkPre t1 t2 [] None) = false ->
  exists caps, read off [(tc, emit_load d l); (tc2, emit_clear d)] = ROk caps /\
               ok_c05 (mkProg d [l]) (Ok (map observe caps)) = true.
Proof.
  intros d l off tc tc2 t1 t2 H Hg1 Hg2 H0 Hlt Hfl.
  destruct (line8 d off l stash0 tracker0 LNone false None 0%Q (lit "00:00:00;00") 0 tc t1 H eq_refl Hg1)
    as (cr & tk' & l' & ds' & fr' & E1 & Hgood & Hl1 & _).
  destruct (clear_line_some d off stash0 tk' l' ds' cr t1 t1 tc fr' tc2 t2 Hl1 Hg2) as (l2 & ds2 & fr2 & E2 & _).
  destruct (good8 l cr stash0 t1 t2 H Hgood) as (caps & Es & Hne & Fc & Hlen & Hor).
  exists caps.
  assert (Hread : read off [(tc, emit_load d l); (tc2, emit_clear d)] = ROk caps).
  { unfold read, run_lines. cbn [fold_left]. change (rstate0 off) with (B off stash0 tracker0 LNone false None 0%Q (lit "00:00:00;00") 0).
    rewrite E1. cbn [popped]. rewrite E2. unfold B. cbn [r_err flush_implicit r_active r_queue r_stash].
    rewrite Es, stash_extend0.
    assert (Hf : filter has_nodes caps = caps).
    { apply filter_all8. rewrite Forall_forall in *. intros c Hc. apply (Fc c Hc). }
    rewrite Hf. unfold finish_read. cbn [st_caps].
    assert (Hlc : length_check (map to_lcap caps) = None).
    { apply length_check_none_iff. unfold offending. rewrite map_map.
      assert (X : forall cs, (forall c, In c cs -> In c caps) -> concat (map (fun c => filter spec_long (spec_lines (snd (to_lcap c)))) cs) = []).
      { induction cs as [|c cs IH]; intros Hin; [reflexivity|]. cbn [map concat]. rewrite IH by (intros x Hx; apply Hin; right; exact Hx).
        rewrite app_nil_r. apply filter_none. intros ln Hln. unfold to_lcap in Hln. cbn [snd] in Hln.
        pose proof (Hlen c ln (Hin c (or_introl eq_refl)) Hln) as L. unfold spec_long. lia. }
      apply X. auto. }
    rewrite Hlc.
    assert (Hfl' : existsb is_flash caps = false).
    { rewrite Forall_forall in Fc. clear -Fc Hfl. induction caps as [|c caps IH]; [reflexivity|]. cbn [existsb].
      rewrite IH by (intros x Hx; apply Fc; right; exact Hx). destruct (Fc c (or_introl eq_refl)) as (A1 & A2 & _).
      unfold is_flash in *. cbn [pc_start pc_end] in Hfl. rewrite A1, A2, Hfl. reflexivity. }
    rewrite Hfl'. destruct caps as [|c0 cs] eqn:Ec; [congruence|]. rewrite <- Ec in *.
    rewrite fix_last_ended; [reflexivity|]. intros c Hc. rewrite Forall_forall in Fc. destruct (Fc c Hc) as (_ & A2 & _).
    rewrite A2. exact (pos_times_nonzero t1 t2 H0 Hlt). }
  split; [exact Hread|].
  unfold ok_c05. cbn [pg_loads loads_ok]. specialize (Hor t2 Hlt []). rewrite app_nil_r in Hor.
  rewrite map_set_end_same in Hor by (rewrite Forall_forall in *; intros c Hc; apply (Fc c Hc)).
  rewrite Hor. reflexivity.
Qed.

(* ---- 31. the former counterexamples; non-vacuity ------------------------------------------------------------------------------- *)
(* a row of 32 characters, then (not on the next screen row) a row whose mid-row code arrives after a backspace has emptied
   the row: the reader appends a blank to the full line, the text node then stands directly in front of the REPOSITION node
   and is right-stripped by pass 7: the load is read, the first caption has its 32 characters *)
Definition cex_load : load := [mkRow 3 0 0 0 (map Ch (repeat 97 32)); mkRow 8 0 0 0 [Ch 97; Bs; Mid 0; Ch 98]].
Example cex_load_now_reads :
  load_wf cex_load = true /\ lc_ok8 cex_load = true /\
  map (fun d => match read 0 [(lit "00:00:01;00", emit_load d cex_load); (lit "00:00:05;00", emit_clear d)] with
                | ROk caps => Some (map (fun c => (cap_text c, length (cap_text c))) caps) | _ => None end) [false; true]
  = [Some [(repeat 97 32, 32%nat); ([98], 1%nat)]; Some [(repeat 97 32, 32%nat); ([98], 1%nat)]].
Proof. vm_compute. repeat split. Qed.

(* the same with an ITALIC full row and an italic mid-row code on the still empty new row (italic or plain preamble): the
   blank goes to the full line, the italics are closed in front of the reposition (queued ItalOn Text(33) [ItalOff ItalOn]
   Text() Repos Text, passes 1-6 give ItalOn Text(33) ItalOff Repos ItalOn Text ItalOff): pass 7 looks through the
   italics-off node and strips the text node; the first caption has its 32 characters (until pass 7 did so, `read` raised
   CaptionLineLengthError on these two loads) *)
Definition cex_load_ital : load := [mkRow 3 0 0 14 (map Ch (repeat 97 32)); mkRow 8 0 0 14 [Mid 14; Ch 98]].
Definition cex_load_ital2 : load := [mkRow 3 0 0 14 (map Ch (repeat 97 32)); mkRow 8 0 0 0 [Mid 14; Ch 98]].
Example cex_loads_now_read :
  forallb (fun ld => load_wf ld &&
     forallb (fun d => match read 0 [(lit "00:00:01;00", emit_load d ld); (lit "00:00:05;00", emit_clear d)] with
                       | ROk (c :: _) => Nat.eqb (length (cap_text c)) 32 | _ => false end) [false; true]) [cex_load_ital; cex_load_ital2] = true.
Proof. vm_compute. reflexivity. Qed.

(* the other shapes that failed: the second row directly below the full italic row (one caption, BREAK: 32 + newline + text) *)
Definition cex_load_adj : load := [mkRow 3 0 0 14 (map Ch (repeat 97 32)); mkRow 4 0 0 14 [Mid 14; Mid 0; Ch 98]].
Definition cex_load_adj2 : load := [mkRow 3 0 0 14 (map Ch (repeat 97 32)); mkRow 4 0 0 14 [Mid 14; Ch 44]].
Example cex_loads_adj_now_read :
  forallb (fun ld => load_wf ld &&
     forallb (fun d => match read 0 [(lit "00:00:01;00", emit_load d ld); (lit "00:00:05;00", emit_clear d)] with
                       | ROk [c] => Nat.eqb (length (cap_text c)) 34 && ok_c05 (mkProg d [ld]) (Ok [observe c]) | _ => false end) [false; true])
    [cex_load_adj; cex_load_adj2] = true.
Proof. vm_compute. reflexivity. Qed.

(* the domain is inhabited: three captions; italics carried over a break and over a reposition; mid-row codes first,
   in the middle and last in a row; a backspace emptying a row before a mid-row code (after a row that is not full);
   coloured, underlined, indented, tabbed and italic preambles; special and extended characters *)
Definition wit_load8 : load :=
  [mkRow 3 0 1 13 [Ch 97; Mid 14; Ext 101 1 5; Sp 3]; mkRow 4 4 2 1 [Mid 15; Ch 98; Bs; Mid 2; Ch 99; Mid 14];
   mkRow 9 0 0 14 [Ch 100; Bs; Mid 0; Ch 101; Mid 15; Ch 102]; mkRow 10 8 0 0 [Ch 103]; mkRow 1 0 0 15 [Mid 1; Sp 0; Ch 32; Ch 104]].
Example wit_load8_ok : lc_ok8 wit_load8 = true /\ map e_row (expected_load wit_load8) = [3; 9; 1] /\
  map (fun e => length (e_lines e)) (expected_load wit_load8) = [2; 2; 1]%nat.
Proof. vm_compute. repeat split. Qed.

(* the hypotheses of the theorem are satisfiable together: the theorem applied to a concrete doubled stream *)
Example stage8_instance : exists caps,
  read 0 [(lit "00:00:01;00", emit_load true wit_load8); (lit "00:00:05;00", emit_clear true)] = ROk caps /\
  ok_c05 (mkProg true [wit_load8]) (Ok (map observe caps)) = true.
Proof.
  apply (popon_stage8 true wit_load8 0 (lit "00:00:01;00") (lit "00:00:05;00") 2700000 5000000); vm_compute; reflexivity.
Qed.

(* OPEN: nothing of the stage-8 plan: lc_ok8 = load_wf (stages A, B, C of the plan are all instances of line8 / good8 /
   popon_stage8). Whole programs: apply Section Lift of stage 7 to lc_ok8 / lc_good8 / line8 / good8 / lc_ok8_wf. *)
