(* C12 (wave 7): alignment names printed by the writer read back as the same enum members, absent parts as start / after. *)
From Coq Require Import List ZArith QArith Bool Lia.
From PV Require Import lib.Sx lib.Str lib.Result model.Geometry model.Positioning model.DfxpAlign spec.SpecGeom spec.SpecPos.
From PV Require Import proofs.GeomStr.
Import ListNotations.
Open Scope Z_scope.

Theorem halign_name_roundtrip : forall h, halign_of_name (halign_name h) = Some h.
Proof. intros []; vm_compute; reflexivity. Qed.
Theorem valign_name_roundtrip : forall v, valign_of_name (valign_name v) = Some v.
Proof. intros []; vm_compute; reflexivity. Qed.

(* the names are exactly the five / three of TTML: any other string gives no component *)
Theorem halign_of_name_some : forall s h, halign_of_name s = Some h -> s = halign_name h.
Proof.
  intros s h H. unfold halign_of_name in H.
  repeat match type of H with
  | context [str_eqb s ?l] => let E := fresh "E" in destruct (str_eqb s l) eqn:E;
      [apply str_eqb_eq in E; inversion H; subst; reflexivity|]
  end. discriminate.
Qed.
Theorem valign_of_name_some : forall s v, valign_of_name s = Some v -> s = valign_name v.
Proof.
  intros s v H. unfold valign_of_name in H.
  repeat match type of H with
  | context [str_eqb s ?l] => let E := fresh "E" in destruct (str_eqb s l) eqn:E;
      [apply str_eqb_eq in E; inversion H; subst; reflexivity|]
  end. discriminate.
Qed.

Lemma or_default_name_h : forall h d, or_default (Some (halign_name h)) d = halign_name h.
Proof. intros [] d; reflexivity. Qed.
Lemma or_default_name_v : forall v d, or_default (Some (valign_name v)) d = valign_name v.
Proof. intros [] d; reflexivity. Qed.

(* write then read, at string level: every alignment (any of the 6 x 4 combinations of set / unset components, or no
   Alignment object at all) comes back with its own members, the unset ones as start / after - what read_region assumes *)
Theorem alignment_strings_roundtrip : forall a,
  read_alignment (fst (written_alignment a)) (snd (written_alignment a))
  = Some (mkAlign (Some (match a with Some al => match al_h al with Some h => h | None => HStart end | None => HStart end))
                  (Some (match a with Some al => match al_v al with Some v => v | None => VBottom end | None => VBottom end))).
Proof.
  intros [[[h|] [v|]]|]; unfold written_alignment, align_attrs, read_alignment; cbn [fst snd option_map al_h al_v];
  rewrite ?or_default_name_h, ?or_default_name_v, ?halign_name_roundtrip, ?valign_name_roundtrip; try reflexivity.
Qed.

(* the reader's defaults: nothing found (or an empty attribute) is start / after *)
Theorem read_alignment_defaults :
  read_alignment None None = Some (mkAlign (Some HStart) (Some VBottom))
  /\ read_alignment (Some []) (Some []) = Some (mkAlign (Some HStart) (Some VBottom)).
Proof. split; reflexivity. Qed.
