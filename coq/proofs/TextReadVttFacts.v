(* C04, WebVTT: the replace chain of WebVTTReader._decode decodes every character reference exactly once. *)
From Coq Require Import List ZArith Bool Lia ZifyBool.
From PV Require Import lib.Sx lib.Str model.TextNodes model.TextRead proofs.TextStrFacts.
Import ListNotations.
Open Scope Z_scope.

(* cue text as the WebVTT grammar structures it: literal characters other than '&', and references &name; *)
Inductive piece : Type := PRaw (c : Z) | PEnt (name : str).

Definition render_piece (p : piece) : str :=
  match p with PRaw c => [c] | PEnt n => 38 :: n ++ [59] end.
Definition render (ps : list piece) : str := flat_map render_piece ps.

Definition name_ok (n : str) : bool := forallb (fun c => negb (c =? 38) && negb (c =? 59)) n.
Definition piece_ok (p : piece) : bool :=
  match p with PRaw c => negb (c =? 38) | PEnt n => name_ok n end.

Definition subst_piece (n0 : str) (v0 : Z) (p : piece) : piece :=
  match p with
  | PEnt n => if str_eqb n0 n then PRaw v0 else p
  | _ => p
  end.

Lemma str_eqb_refl : forall s, str_eqb s s = true.
Proof. induction s as [|c s IH]; [reflexivity|]. cbn [str_eqb]. rewrite Z.eqb_refl, IH. reflexivity. Qed.

Lemma str_eqb_eq : forall a b, str_eqb a b = true -> a = b.
Proof.
  induction a as [|x a IH]; intros [|y b] H; cbn [str_eqb] in H; try discriminate; [reflexivity|].
  apply andb_true_iff in H. destruct H as [H1 H2]. apply Z.eqb_eq in H1. subst. f_equal. apply IH. exact H2.
Qed.

(* a name followed by ';' is a prefix of another name followed by ';' exactly when the names are equal *)
Lemma prefix_name_semi : forall n0 n R, name_ok n0 = true -> name_ok n = true ->
  is_prefix (n0 ++ [59]) (n ++ 59 :: R) = str_eqb n0 n.
Proof.
  induction n0 as [|x n0 IH]; intros n R H0 Hn.
  - destruct n as [|y n]; [reflexivity|]. cbn [app is_prefix str_eqb].
    cbn [name_ok forallb] in Hn. apply andb_true_iff in Hn. destruct Hn as [Hy _]. apply andb_true_iff in Hy.
    destruct Hy as [_ Hy]. rewrite (Z.eqb_sym 59 y). destruct (y =? 59); [discriminate|reflexivity].
  - cbn [name_ok forallb] in H0. apply andb_true_iff in H0. destruct H0 as [Hx H0].
    destruct n as [|y n].
    + cbn [app is_prefix str_eqb]. apply andb_true_iff in Hx. destruct Hx as [_ Hx].
      destruct (x =? 59); [discriminate|reflexivity].
    + cbn [name_ok forallb] in Hn. apply andb_true_iff in Hn. destruct Hn as [_ Hn].
      cbn [app is_prefix str_eqb]. rewrite (IH n R H0 Hn). reflexivity.
Qed.

Lemma replace_skip_name : forall p r n R, p <> [] -> hd 0 p = 38 -> forallb (fun c => negb (c =? 38)) n = true ->
  replace p r (n ++ 59 :: R) = n ++ 59 :: replace p r R.
Proof.
  intros p r n R Hp Hh. induction n as [|c n IH]; intros Hn.
  - cbn [app]. rewrite replace_cons by exact Hp. destruct p as [|x p]; [congruence|]. cbn [hd] in Hh. subst x.
    cbn [is_prefix]. reflexivity.
  - cbn [forallb] in Hn. apply andb_true_iff in Hn. destruct Hn as [Hc Hn].
    cbn [app]. rewrite replace_cons by exact Hp. destruct p as [|x p]; [congruence|]. cbn [hd] in Hh. subst x.
    cbn [is_prefix]. rewrite (Z.eqb_sym 38 c). destruct (c =? 38); [discriminate|]. cbn [andb].
    rewrite IH by exact Hn. reflexivity.
Qed.

Lemma name_ok_no_amp : forall n, name_ok n = true -> forallb (fun c => negb (c =? 38)) n = true.
Proof.
  induction n as [|c n IH]; intros H; [reflexivity|]. cbn [name_ok forallb] in *.
  apply andb_true_iff in H. destruct H as [Hc Hn]. apply andb_true_iff in Hc. destruct Hc as [Hc _].
  rewrite Hc. apply IH. exact Hn.
Qed.

(* one replace of the chain = decoding the references with that name, nothing else *)
Lemma replace_entity_step : forall n0 v0 ps, name_ok n0 = true -> forallb piece_ok ps = true ->
  replace (38 :: n0 ++ [59]) [v0] (render ps) = render (map (subst_piece n0 v0) ps).
Proof.
  intros n0 v0 ps H0. induction ps as [|p ps IH]; intros Hps; [reflexivity|].
  cbn [forallb] in Hps. apply andb_true_iff in Hps. destruct Hps as [Hp Hps].
  unfold render in *. cbn [flat_map map]. destruct p as [c|n]; cbn [render_piece subst_piece piece_ok] in *.
  - cbn [app]. rewrite replace_cons by discriminate. cbn [is_prefix].
    rewrite (Z.eqb_sym 38 c). destruct (c =? 38); [discriminate|]. cbn [andb]. rewrite (IH Hps). reflexivity.
  - cbn [app]. rewrite <- app_assoc. cbn [app]. rewrite replace_cons by discriminate.
    cbn [is_prefix]. rewrite Z.eqb_refl. cbn [andb]. rewrite prefix_name_semi by assumption.
    destruct (str_eqb n0 n) eqn:E.
    + apply str_eqb_eq in E. subst n. cbn [render_piece app].
      replace (skipn (length (38 :: n0 ++ [59])) (38 :: n0 ++ 59 :: flat_map render_piece ps))
        with (flat_map render_piece ps).
      * rewrite (IH Hps). reflexivity.
      * cbn [length skipn]. rewrite app_length. cbn [length].
        replace (n0 ++ 59 :: flat_map render_piece ps) with ((n0 ++ [59]) ++ flat_map render_piece ps)
          by (rewrite <- app_assoc; reflexivity).
        replace (length n0 + 1)%nat with (length (n0 ++ [59])) by (rewrite app_length; reflexivity).
        rewrite skipn_app_exact. reflexivity.
    + cbn [render_piece app]. f_equal.
      rewrite replace_skip_name; [|discriminate|reflexivity|apply name_ok_no_amp; exact Hp].
      rewrite <- app_assoc. cbn [app]. rewrite (IH Hps). reflexivity.
Qed.

Lemma subst_piece_ok : forall n0 v0 ps, v0 <> 38 -> forallb piece_ok ps = true ->
  forallb piece_ok (map (subst_piece n0 v0) ps) = true.
Proof.
  intros n0 v0 ps Hv. induction ps as [|p ps IH]; intros H; [reflexivity|].
  cbn [forallb map] in *. apply andb_true_iff in H. destruct H as [Hp Hps]. rewrite (IH Hps), andb_true_r.
  destruct p as [c|n]; cbn [subst_piece]; [exact Hp|]. destruct (str_eqb n0 n); [|exact Hp].
  cbn [piece_ok]. destruct (Z.eqb_spec v0 38); [congruence|reflexivity].
Qed.

(* the six named references of the reader, in the order of the chain *)
Definition vtt_ref_value (n : str) : option Z :=
  if str_eqb n (lit "lt") then Some 60 else if str_eqb n (lit "gt") then Some 62
  else if str_eqb n (lit "lrm") then Some 8206 else if str_eqb n (lit "rlm") then Some 8207
  else if str_eqb n (lit "nbsp") then Some 160 else if str_eqb n (lit "amp") then Some 38 else None.

Definition decode_piece (p : piece) : piece :=
  match p with
  | PEnt n => match vtt_ref_value n with Some v => PRaw v | None => p end
  | _ => p
  end.

Lemma chain_pieces : forall p,
  subst_piece (lit "amp") 38 (subst_piece (lit "nbsp") 160 (subst_piece (lit "rlm") 8207
    (subst_piece (lit "lrm") 8206 (subst_piece (lit "gt") 62 (subst_piece (lit "lt") 60 p))))) = decode_piece p.
Proof.
  intros [c|n]; [reflexivity|]. unfold decode_piece, vtt_ref_value. cbn [subst_piece].
  destruct (str_eqb (lit "lt") n) eqn:E1.
  { apply str_eqb_eq in E1. subst n. reflexivity. }
  cbn [subst_piece]. destruct (str_eqb (lit "gt") n) eqn:E2.
  { apply str_eqb_eq in E2. subst n. reflexivity. }
  cbn [subst_piece]. destruct (str_eqb (lit "lrm") n) eqn:E3.
  { apply str_eqb_eq in E3. subst n. reflexivity. }
  cbn [subst_piece]. destruct (str_eqb (lit "rlm") n) eqn:E4.
  { apply str_eqb_eq in E4. subst n. reflexivity. }
  cbn [subst_piece]. destruct (str_eqb (lit "nbsp") n) eqn:E5.
  { apply str_eqb_eq in E5. subst n. reflexivity. }
  cbn [subst_piece]. destruct (str_eqb (lit "amp") n) eqn:E6.
  { apply str_eqb_eq in E6. subst n. reflexivity. }
  assert (S : forall a, str_eqb a n = false -> str_eqb n a = false).
  { intros a H. destruct (str_eqb n a) eqn:F; [|reflexivity]. apply str_eqb_eq in F. subst a. rewrite str_eqb_refl in H. discriminate. }
  rewrite (S _ E1), (S _ E2), (S _ E3), (S _ E4), (S _ E5), (S _ E6). reflexivity.
Qed.

(* every reference is decoded exactly once; unknown references and everything else stay as they are *)
Theorem vtt_entities_once : forall ps, forallb piece_ok ps = true ->
  vtt_entities (render ps) = render (map decode_piece ps).
Proof.
  intros ps H. unfold vtt_entities.
  change (lit "&lt;") with (38 :: lit "lt" ++ [59]). change (lit "&gt;") with (38 :: lit "gt" ++ [59]).
  change (lit "&lrm;") with (38 :: lit "lrm" ++ [59]). change (lit "&rlm;") with (38 :: lit "rlm" ++ [59]).
  change (lit "&nbsp;") with (38 :: lit "nbsp" ++ [59]). change (lit "&amp;") with (38 :: lit "amp" ++ [59]).
  rewrite (replace_entity_step (lit "lt") 60 ps eq_refl H).
  pose proof (subst_piece_ok (lit "lt") 60 ps ltac:(discriminate) H) as H1.
  rewrite (replace_entity_step (lit "gt") 62 _ eq_refl H1).
  pose proof (subst_piece_ok (lit "gt") 62 _ ltac:(discriminate) H1) as H2.
  rewrite (replace_entity_step (lit "lrm") 8206 _ eq_refl H2).
  pose proof (subst_piece_ok (lit "lrm") 8206 _ ltac:(discriminate) H2) as H3.
  rewrite (replace_entity_step (lit "rlm") 8207 _ eq_refl H3).
  pose proof (subst_piece_ok (lit "rlm") 8207 _ ltac:(discriminate) H3) as H4.
  rewrite (replace_entity_step (lit "nbsp") 160 _ eq_refl H4).
  pose proof (subst_piece_ok (lit "nbsp") 160 _ ltac:(discriminate) H4) as H5.
  rewrite (replace_entity_step (lit "amp") 38 _ eq_refl H5).
  rewrite !map_map. f_equal. apply map_ext. intros p. apply chain_pieces.
Qed.

(* in particular: &amp;lt; is the four characters &lt; *)
Example vtt_amp_lt : vtt_entities (lit "&amp;lt;") = lit "&lt;".
Proof. vm_compute. reflexivity. Qed.
