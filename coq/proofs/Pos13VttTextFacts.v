(* C13 (wave 7): "WebVTT output never contains a non-percentage length" at the level of the printed text. *)
From Coq Require Import List ZArith QArith Qabs Bool Lia.
From PV Require Import lib.Sx lib.Str lib.Result model.Geometry model.Positioning model.DfxpAlign model.VttText spec.SpecGeom spec.SpecPos.
From PV Require Import proofs.GeomStr proofs.GeomEq proofs.GeomPrint proofs.GeomFacts proofs.PosFacts.
Import ListNotations.
Open Scope Z_scope.

(* digits, optionally a point and one or two digits, then the percent sign *)
Definition pct_text (t : str) : Prop :=
  exists ip fp, t = dotted ip fp ++ lit "%" /\ all_digits ip = true /\ (fp = [] \/ all_digits fp = true) /\ (length fp <= 2)%nat.

Definition vs_nonneg (v : vtt_settings) : Prop :=
  forall z, In (Some z) [vs_position v; vs_line v; vs_size v] -> (0 <= s_val z)%Q.

Lemma pct_size_text : forall z, s_unit z = PCT -> (0 <= s_val z)%Q -> pct_text (size_str z).
Proof.
  intros z U N. destruct (size_str_shape z N) as (ip & fp & H1 & H2 & H3 & _ & _ & H6 & _).
  exists ip, fp. rewrite H1, U. repeat split; assumption.
Qed.

Lemma opt_pct_unit : forall z, opt_pct (Some z) = true -> s_unit z = PCT.
Proof. intros z H. cbn [opt_pct] in H. destruct (s_unit z); try discriminate; reflexivity. Qed.

(* every length of computed cue settings is printed as a number followed by "%" - whatever the configuration *)
Theorem vtt_text_percent : forall c lo v, vtt_convert_positioning c lo = Ok (VSet v) -> vs_nonneg v ->
  forall z, In (Some z) [vs_position v; vs_line v; vs_size v] -> pct_text (size_str z).
Proof.
  intros c lo v H N z Hz. pose proof (vtt_only_percent c lo (VSet v) H) as P. cbn [vtt_out_pct] in P.
  rewrite vs_all_pct_opt in P. apply andb_true_iff in P. destruct P as [P P3]. apply andb_true_iff in P. destruct P as [P1 P2].
  apply pct_size_text; [|apply N; exact Hz].
  destruct Hz as [Hz|[Hz|[Hz|[]]]]; rewrite Hz in *; apply opt_pct_unit; assumption.
Qed.

(* the printed string itself: optional align part, then for each of position / line / size either nothing (absent) or the
   key followed by a number and "%" *)
Definition setting_pct (key : str) (o : option size) (t : str) : Prop :=
  (o = None /\ t = []) \/ (exists z, o = Some z /\ t = key ++ size_str z /\ pct_text (size_str z)).

Theorem vtt_settings_text_percent : forall c lo v, vtt_convert_positioning c lo = Ok (VSet v) -> vs_nonneg v ->
  exists t1 t2 t3,
    vtt_settings_text (VSet v)
    = (match vs_align v with Some h => lit " align:" ++ halign_name h | None => [] end) ++ t1 ++ t2 ++ t3
    /\ setting_pct (lit " position:") (vs_position v) t1 /\ setting_pct (lit " line:") (vs_line v) t2
    /\ setting_pct (lit " size:") (vs_size v) t3.
Proof.
  intros c lo v H N. pose proof (vtt_text_percent c lo v H N) as P.
  exists (setting_text (lit " position:") (vs_position v)), (setting_text (lit " line:") (vs_line v)),
         (setting_text (lit " size:") (vs_size v)).
  split; [reflexivity|].
  assert (A : forall key o, In o [vs_position v; vs_line v; vs_size v] -> setting_pct key o (setting_text key o)).
  { intros key [z|] Ho; [right; exists z; repeat split; apply P; exact Ho|left; split; reflexivity]. }
  repeat split; apply A; cbn; auto.
Qed.

(* and the text is made of exactly those pieces *)
Theorem vtt_text_shape : forall v,
  vtt_settings_text (VSet v)
  = (match vs_align v with Some h => lit " align:" ++ halign_name h | None => [] end)
    ++ setting_text (lit " position:") (vs_position v) ++ setting_text (lit " line:") (vs_line v)
    ++ setting_text (lit " size:") (vs_size v).
Proof. reflexivity. Qed.
