(* C13 (round 4): SAMI and WebVTT down to the printed text: every margin / cue setting is a percentage that re-parses to
   the exact relativized value within 1/200. *)
From Coq Require Import List ZArith QArith Qabs Bool Lia.
From PV Require Import lib.Sx lib.Str lib.Result model.Geometry model.Positioning model.DfxpAlign model.VttText model.Pos13Doc
                       spec.SpecGeom spec.SpecPos.
From PV Require Import proofs.GeomStr proofs.GeomEq proofs.GeomPrint proofs.GeomFacts proofs.PosFacts proofs.Pos12Facts
                       proofs.Pos13VttFacts proofs.Pos13VttTextFacts.
Import ListNotations.
Open Scope Z_scope.

(* the text t printed for the exact length z: a number followed by "%", which Size.from_string reads as a percentage
   within 1/200 of z *)
Definition printed_pct_of (t : str) (z : size) : Prop :=
  t = size_str z /\ pct_text t
  /\ exists z', size_from_string t = Ok z' /\ s_unit z' = PCT /\ (Qabs (s_val z' - s_val z) <= 1 # 200)%Q.

Lemma printed_pct : forall z, s_unit z = PCT -> (0 <= s_val z)%Q -> printed_pct_of (size_str z) z.
Proof.
  intros z U N. split; [reflexivity|]. split; [apply pct_size_text; assumption|].
  destruct (print_parse z N) as (z' & E & _ & U'). destruct (print_parse_print z N) as (z2 & E2 & _ & C).
  rewrite E in E2. inversion E2; subst z2. exists z'. split; [exact E|]. split; [rewrite U'; exact U|exact C].
Qed.

(* ---- SAMI ------------------------------------------------------------------------------------------------------------ *)
Definition padding_sizes (o : option layout) : list size :=
  match o with
  | Some l => match l_padding l with Some p => [pd_before p; pd_end p; pd_after p; pd_start p] | None => [] end
  | None => []
  end.

Lemma padding_units : forall l p z, all_pct l = true -> l_padding l = Some p -> In z [pd_before p; pd_end p; pd_after p; pd_start p] ->
  s_unit z = PCT.
Proof.
  intros l p z H Hp Hz. unfold all_pct in H. rewrite forallb_forall in H.
  assert (K : exists b, In (z, b) (sizes_axes l)).
  { unfold sizes_axes. rewrite Hp. destruct Hz as [<-|[<-|[<-|[<-|[]]]]]; eexists; apply in_or_app; right; apply in_or_app; right; cbn; eauto. }
  destruct K as (b & K). specialize (H _ K). cbn [fst] in H. destruct (s_unit z); try discriminate; reflexivity.
Qed.

Definition opt_pad_nonneg (o : option layout) : Prop := forall z, In z (padding_sizes o) -> (0 <= s_val z)%Q.

(* every margin of a block is the print of a padding component of that level, a percentage within 1/200 *)
Lemma sami_margins_pct : forall o, opt_all_pct o = true -> opt_pad_nonneg o ->
  forall k t, In (k, t) (sami_margins o) -> exists z, In z (padding_sizes o) /\ printed_pct_of t z.
Proof.
  intros [l|] P N k t Hin; [|destruct Hin]. unfold opt_pad_nonneg in N. cbn [sami_margins padding_sizes opt_all_pct] in *.
  destruct (layout_truthy l); [|destruct Hin]. destruct (l_padding l) as [p|] eqn:Ep; [|destruct Hin].
  assert (A : forall z, In z [pd_before p; pd_end p; pd_after p; pd_start p] -> printed_pct_of (size_str z) z).
  { intros z Hz. apply printed_pct; [eapply padding_units; eauto|apply N; exact Hz]. }
  destruct Hin as [E|[E|[E|[E|[]]]]]; inversion E; subst; eexists; (split; [|apply A]); cbn; auto.
Qed.

Theorem sami_document_percent : forall c s s', w_rel c = true -> sami_transform c s = Ok s' ->
  Forall opt_pad_nonneg (ns_layout s' :: map nl_layout (ns_langs s')) ->
  Forall2 (fun block o => forall k t, In (k, t) block -> exists z, In z (padding_sizes o) /\ printed_pct_of t z)
          (sami_doc_margins s') (ns_layout s' :: map nl_layout (ns_langs s')).
Proof.
  intros c s s' Hr H NN. destruct (sami_writes_percentages c s s' Hr H) as [Pg Pw].
  unfold sami_doc_margins. constructor.
  - apply sami_margins_pct; [exact Pg|exact (Forall_inv NN)].
  - apply Forall_inv_tail in NN. rewrite forallb_forall in Pw.
    assert (L : forall lg, In lg (ns_langs s') -> opt_all_pct (nl_layout lg) = true).
    { intros lg Hlg. apply Pw. unfold written_layouts. apply in_flat_map. exists lg. split; [exact Hlg|left; reflexivity]. }
    revert NN L. generalize (ns_langs s'). induction l as [|lg t IH]; intros NN L; cbn [map]; constructor.
    + apply sami_margins_pct; [apply L; left; reflexivity|exact (Forall_inv NN)].
    + apply IH; [exact (Forall_inv_tail NN)|intros x Hx; apply L; right; exact Hx].
Qed.

(* ---- WebVTT ------------------------------------------------------------------------------------------------------------ *)
Definition cue_text_pct (o : vtt_out) : Prop :=
  match o with
  | VSet v => vs_nonneg v -> forall z, In (Some z) [vs_position v; vs_line v; vs_size v] -> printed_pct_of (size_str z) z
  | _ => True
  end.

Lemma set_text_pct : forall v, vs_all_pct v = true -> cue_text_pct (VSet v).
Proof.
  intros v P N z Hz. rewrite vs_all_pct_opt in P. apply andb_true_iff in P. destruct P as [P P3]. apply andb_true_iff in P. destruct P as [P1 P2].
  apply printed_pct; [|apply N; exact Hz].
  destruct Hz as [Hz|[Hz|[Hz|[]]]]; rewrite Hz in *; apply opt_pct_unit; assumption.
Qed.

(* every COMPUTED cue setting of the document (position / line / size of every cue of every caption of the written
   language) is printed as a percentage that re-parses within 1/200 of the exact value the model computed *)
Theorem vtt_document_percent : forall c lg outs, vtt_language c lg = Ok outs ->
  Forall (Forall cue_text_pct) outs.
Proof.
  intros c lg outs H. unfold vtt_language in H. apply res_map_F2 in H.
  induction H as [|cp cues t t' Hc _ IH]; constructor; [|exact IH].
  unfold vtt_caption in Hc. apply res_map_F2 in Hc. clear IH.
  induction Hc as [|g o u u' Ho _ IH2]; constructor; [|exact IH2].
  destruct o as [|raw|v]; try exact I. apply set_text_pct.
  pose proof (vtt_only_percent c _ _ Ho) as P. exact P.
Qed.
