(* STAGE 9 = popon_refines_608 for whole programs over the FULL item domain: the generic lifting of stage 7 (Section Lift)
   instantiated with the one-load result of stage 8 (all five item kinds incl. mid-row codes, every preamble style,
   any number of rows per load). *)
From Coq Require Import List ZArith QArith Bool.
From PV Require Import lib.Sx lib.Str lib.Result model.SccLen model.SccTime model.SccStash model.SccDecoder model.SccPopon.
From PV Require Import spec.Spec608 spec.SpecScc05 spec.SpecSccTime.
From PV Require Import proofs.SccPoponFacts proofs.SccPoponStage3 proofs.SccPoponStage4 proofs.SccPoponStage6 proofs.SccPoponStage7 proofs.SccPoponStage8.
Import ListNotations.

Definition no_caps_fact : load -> Q -> list precap -> Prop := fun _ _ _ => True.

Lemma good8_lift : forall ld cr st t0 t1, lc_ok8 ld = true -> lc_good8 ld cr ->
  exists caps, create_and_store st cr t0 t1 = stash_extend st caps /\ caps <> [] /\
    Forall (fun c => pc_start c = t0 /\ pc_end c = t1 /\ has_nodes c = true) caps /\
    (forall c ln, In c caps -> In ln (lines_of (cap_text c)) -> (length ln <= 32)%nat) /\
    (forall e, (t0 < e)%Q -> forall rest,
       load_ok (expected_load ld) (map observe (map (set_end e) caps) ++ rest) None = Some (rest, Some (t0, e))) /\
    no_caps_fact ld t0 caps.
Proof.
  intros ld cr st t0 t1 H G. destruct (good8 ld cr st t0 t1 H G) as (caps & A & B & C & D & E).
  exists caps. repeat split; assumption.
Qed.

Definition pseg_ok8 (s : pseg) : bool := match s with PLoad _ l => lc_ok8 l | PClear _ => true end.

Theorem popon_refines_608 : forall d off segs evs spans,
  forallb pseg_ok8 segs = true -> res_map (pseg_event d off) segs = Ok evs -> positive evs -> after_show None evs ->
  expected_with join_threshold evs = Ok spans ->
  exists caps, read off (map (pseg_line d) segs) = ROk caps /\
               ok_c05 (mkProg d (ploads_of segs)) (Ok (map observe caps)) = true /\
               dom_c05 (mkProg d (ploads_of segs)) = true.
Proof. exact (lift lc_ok8 lc_good8 no_caps_fact line8 good8_lift lc_ok8_wf). Qed.

Theorem popon_times : forall d off segs evs,
  forallb pseg_ok8 segs = true -> res_map (pseg_event d off) segs = Ok evs -> positive evs ->
  spans_of (read off (map (pseg_line d) segs))
  = rmap (fun spans => flat_map bspans (combine (ploads_of segs) spans)) (expected_with join_threshold evs).
Proof. exact (lift_spans_mult lc_ok8 lc_good8 no_caps_fact line8 good8_lift). Qed.

Theorem popon_times_screens : forall d off segs evs,
  forallb pseg_ok8 segs = true -> res_map (pseg_event d off) segs = Ok evs -> positive evs ->
  rmap screens (spans_of (read off (map (pseg_line d) segs))) = rmap screens (expected_with join_threshold evs).
Proof. exact (lift_spans lc_ok8 lc_good8 no_caps_fact line8 good8_lift). Qed.
