(* C04 end to end, on the models: what the reader models return for the SPEC serialisation of abstract cue content is
   what a conformant consumer displays (spec display), judged by the harness oracle ok_lines_a.
   Part 1: SRT and MicroDVD (plain text formats).  Part 2 (TextReadEndVttFacts.v): WebVTT. *)
From Coq Require Import List ZArith Bool Lia.
From PV Require Import lib.Sx lib.Str model.TextNodes model.TextRead.
From PV Require Import spec.SpecTextLines spec.SpecTextRead proofs.TextLinesFacts proofs.TextBlocksFacts.
Import ListNotations.
Open Scope Z_scope.

(* ---- lines <-> TEXT/BREAK nodes ---------------------------------------------------------------------- *)
Definition text_break (ks : list str) : list node := flat_map (fun l => [NText l; NBreak]) ks.

Lemma node_lines_text_break : forall ks, ks <> [] -> node_lines (removelast (text_break ks)) = ks.
Proof.
  unfold node_lines. induction ks as [|k ks IH]; intros H; [congruence|].
  destruct ks as [|k2 ks'].
  - cbn. reflexivity.
  - change (text_break (k :: k2 :: ks')) with (NText k :: NBreak :: text_break (k2 :: ks')).
    assert (N : text_break (k2 :: ks') <> []) by (cbn; discriminate).
    change (removelast (NText k :: NBreak :: text_break (k2 :: ks')))
      with (NText k :: removelast (NBreak :: text_break (k2 :: ks'))).
    assert (R : removelast (NBreak :: text_break (k2 :: ks')) = NBreak :: removelast (text_break (k2 :: ks'))).
    { cbn [removelast]. destruct (text_break (k2 :: ks')); [congruence|reflexivity]. }
    rewrite R. cbn [node_lines_aux]. rewrite app_nil_l. f_equal. apply IH. discriminate.
Qed.

Lemma norm_line_a_nil : norm_line_a [] = [].
Proof. reflexivity. Qed.

Lemma norm_lines_a_filter : forall ls, norm_lines_a (filter nonempty ls) = norm_lines_a ls.
Proof.
  unfold norm_lines_a. induction ls as [|l ls IH]; [reflexivity|].
  destruct l as [|c l]; cbn [filter nonempty map].
  - rewrite norm_line_a_nil. cbn [filter nonempty]. exact IH.
  - cbn [map filter]. rewrite IH. reflexivity.
Qed.

Lemma norm_lines_a_lines_or_empty : forall ks,
  norm_lines_a (match ks with [] => [[]] | _ => ks end) = norm_lines_a ks.
Proof. intros [|k ks]; reflexivity. Qed.

(* node_lines of the nodes built from the non-empty lines: the same lines up to dropped empty ones *)
Lemma norm_nodes_of_lines : forall ks,
  norm_lines_a (node_lines (removelast (text_break ks))) = norm_lines_a ks.
Proof.
  intros [|k ks]; [reflexivity|]. rewrite node_lines_text_break by discriminate. reflexivity.
Qed.

(* ---- MicroDVD reader model ----------------------------------------------------------------------------- *)
Lemma mdvd_nodes_text_break : forall ls,
  flat_map (fun l : str => match l with [] => [] | _ => [NText l; NBreak] end) ls = text_break (filter nonempty ls).
Proof.
  induction ls as [|l ls IH]; [reflexivity|]. destruct l as [|c l]; cbn [flat_map filter nonempty].
  - exact IH.
  - unfold text_break in *. cbn [flat_map]. rewrite IH. reflexivity.
Qed.

Lemma mdvd_text_nodes_lines : forall txt,
  norm_lines_a (node_lines (mdvd_text_nodes txt)) = norm_lines_a (split_ch 124 txt).
Proof.
  intros txt. unfold mdvd_text_nodes. rewrite mdvd_nodes_text_break, norm_nodes_of_lines. apply norm_lines_a_filter.
Qed.

(* ---- SRT reader model ----------------------------------------------------------------------------------- *)
Fixpoint srt_kept (lines : list str) (have : bool) : list str :=
  match lines with
  | [] => []
  | l :: t => if negb have || negb (match l with [] => true | _ => false end)
              then l :: srt_kept t true else srt_kept t have
  end.
Lemma srt_aux_kept : forall ls have, srt_text_nodes_aux ls have = text_break (srt_kept ls have).
Proof.
  induction ls as [|l ls IH]; intros have; [reflexivity|]. cbn [srt_text_nodes_aux srt_kept].
  destruct (negb have || negb (match l with [] => true | _ => false end)).
  - unfold text_break in *. cbn [flat_map app]. rewrite IH. reflexivity.
  - apply IH.
Qed.
Lemma srt_kept_norm : forall ls have, norm_lines_a (srt_kept ls have) = norm_lines_a ls.
Proof.
  unfold norm_lines_a. induction ls as [|l ls IH]; intros have; [reflexivity|]. cbn [srt_kept].
  destruct l as [|c l].
  - destruct have; cbn [negb orb map filter]; rewrite ?norm_line_a_nil; cbn [filter nonempty]; apply IH.
  - replace (negb have || negb false) with true by (destruct have; reflexivity). cbn [map filter]. rewrite IH. reflexivity.
Qed.
Lemma srt_text_nodes_lines : forall ls, norm_lines_a (node_lines (srt_text_nodes ls)) = norm_lines_a ls.
Proof. intros ls. unfold srt_text_nodes. rewrite srt_aux_kept, norm_nodes_of_lines. apply srt_kept_norm. Qed.

(* ---- the spec serialisation of plain formats: the display lines joined by the line separator ------------------- *)
(* domain: no separator inside text; the WebVTT-only items (voice, unknown tag) do not exist in these formats *)
Definition plain_ok (sep : Z) (it : item) : bool :=
  match it with
  | ITxt cs => forallb (fun c => negb (c =? sep)) (chars cs)
  | IEnt _ c => negb (c =? sep)
  | IVoice _ _ => false
  | IUnk _ _ => false
  | _ => true
  end.

Lemma spell_all_plain : forall fmt cs, (fmt = F_SRT \/ fmt = F_MDVD) -> spell_all fmt cs = chars cs.
Proof.
  intros fmt cs H. unfold spell_all, chars. induction cs as [|[c sp] cs IH]; [reflexivity|].
  cbn [flat_map map fst]. rewrite IH. destruct H as [-> | ->]; reflexivity.
Qed.

Section plain.
  Variables (fmt sep : Z).
  Hypothesis Hf : (fmt = F_SRT /\ sep = 10) \/ (fmt = F_MDVD /\ sep = 124).

  Lemma plain_fmt : fmt = F_SRT \/ fmt = F_MDVD.
  Proof. destruct Hf as [[-> _]|[-> _]]; auto. Qed.

  Lemma plain_split : forall items cur, forallb (plain_ok sep) items = true ->
    forallb (fun c => negb (c =? sep)) cur = true ->
    split_ch sep (cur ++ serialise fmt items) = display_aux items cur.
  Proof.
    unfold serialise. induction items as [|it items IH]; intros cur Hok Hcur.
    - cbn [flat_map display_aux]. rewrite split_ch_app_nosep by exact Hcur. cbn. rewrite app_nil_r. reflexivity.
    - cbn [forallb] in Hok. apply andb_true_iff in Hok. destruct Hok as [Hit Hok].
      cbn [flat_map display_aux].
      assert (step : forall x, forallb (fun c => negb (c =? sep)) x = true -> ser_item fmt it = x ->
                split_ch sep (cur ++ ser_item fmt it ++ flat_map (ser_item fmt) items) = display_aux items (cur ++ x)).
      { intros x Hx ->. rewrite app_assoc. apply IH; [exact Hok|]. rewrite forallb_app, Hcur, Hx. reflexivity. }
      destruct it as [cs|n|nm c| |k|k|cls nm|s|cl nm|s|s]; cbn [plain_ok] in Hit; try discriminate.
      + apply step; [exact Hit|]. cbn [ser_item]. apply spell_all_plain, plain_fmt.
      + apply step; [destruct Hf as [[_ ->]|[_ ->]]; reflexivity|]. destruct Hf as [[-> _]|[-> _]]; reflexivity.
      + apply step; [cbn [forallb]; rewrite Hit; reflexivity|]. destruct Hf as [[-> _]|[-> _]]; reflexivity.
      + (* IBr *)
        assert (E : ser_item fmt IBr = [sep]) by (destruct Hf as [[-> ->]|[-> ->]]; reflexivity).
        rewrite E. rewrite split_ch_app_nosep by exact Hcur. cbn [app]. rewrite split_ch_cons_sep.
        cbn [app]. rewrite app_nil_r. f_equal. apply (IH [] Hok eq_refl).
      + rewrite <- (app_nil_r cur) at 2. apply step; [reflexivity|]. destruct Hf as [[-> _]|[-> _]]; reflexivity.
      + rewrite <- (app_nil_r cur) at 2. apply step; [reflexivity|]. destruct Hf as [[-> _]|[-> _]]; reflexivity.
      + rewrite <- (app_nil_r cur) at 2. apply step; [reflexivity|]. destruct Hf as [[-> _]|[-> _]]; reflexivity.
      + rewrite <- (app_nil_r cur) at 2. apply step; [reflexivity|]. destruct Hf as [[-> _]|[-> _]]; reflexivity.
      + rewrite <- (app_nil_r cur) at 2. apply step; [reflexivity|]. destruct Hf as [[-> _]|[-> _]]; reflexivity.
  Qed.
End plain.

(* ==== END TO END, SRT: the reader model on the spec serialisation shows what a consumer displays ================== *)
Theorem srt_end_to_end : forall items, forallb (plain_ok 10) items = true ->
  ok_lines_a (display items) (node_lines (read_srt items)) = true.
Proof.
  intros items H. unfold ok_lines_a, read_srt. rewrite srt_text_nodes_lines.
  rewrite <- (app_nil_l (serialise F_SRT items)).
  rewrite (plain_split F_SRT 10 (or_introl (conj eq_refl eq_refl)) items [] H eq_refl).
  apply strs_eqb_refl.
Qed.

(* ==== END TO END, MicroDVD ========================================================================================= *)
Theorem mdvd_end_to_end : forall items, forallb (plain_ok 124) items = true ->
  ok_lines_a (display items) (node_lines (read_mdvd items)) = true.
Proof.
  intros items H. unfold ok_lines_a, read_mdvd. rewrite mdvd_text_nodes_lines.
  rewrite <- (app_nil_l (serialise F_MDVD items)).
  rewrite (plain_split F_MDVD 124 (or_intror (conj eq_refl eq_refl)) items [] H eq_refl).
  apply strs_eqb_refl.
Qed.

Example plain_ok_example :
  forallb (plain_ok 10) [ITxt [(97, 0); (38, 1)]; IOpen 0; IWrap 3; IEnt (lit "eacute") 233; IClose 0; IBr; ITxt [(60, 2)]] = true.
Proof. reflexivity. Qed.
