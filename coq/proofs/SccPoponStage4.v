(* C05 / C06, stage 4 of the pop-on refinement: several loads (one row of basic characters each), each on its own line,
   with Erase-Displayed-Memory lines anywhere in between, control codes single or doubled. The decoder state between
   two lines is described explicitly; the captions stored are those of the event-level model (model/SccPopon.v) with
   real nodes, hence the (start, end) of the captions read are the spans of the display events (spec/SpecSccTime.v). *)
From Coq Require Import List ZArith QArith Qabs Lia Bool ZifyBool.
From PV Require Import lib.Sx lib.Str lib.Result model.GenScc model.SccLen model.SccTime model.SccStash model.SccDecoder model.SccLayout
                       model.SccPopon spec.Spec608 spec.SpecScc05 spec.SpecSccLen spec.SpecSccTime proofs.SccTableFacts
                       proofs.SccDoubleFacts proofs.SccLenFacts proofs.SccStashFacts proofs.SccTimeFacts proofs.SccPoponFacts proofs.SccPoponStage1.
Import ListNotations. Open Scope Z_scope.

(* performance only (see stage 1) *)
Local Strategy 1000 [basic_code is_basic].
Local Arguments stash_extend : simpl never.

(* ---- 0. the stream ------------------------------------------------------------------------------------ *)
Inductive seg : Type := SLoad (tc : str) (r : row) | SClear (tc : str).
Definition seg_line (d : bool) (s : seg) : sline :=
  match s with SLoad tc r => (tc, emit_load d [r]) | SClear tc => (tc, emit_clear d) end.
Definition seg_ok (s : seg) : bool := match s with SLoad _ r => basic_row r | SClear _ => true end.
(* the display event of a segment: the instant of its (first) End-Of-Caption word / of its Erase-Displayed-Memory word *)
Definition seg_event (d : bool) (off : Q) (s : seg) : result ev :=
  match s with
  | SLoad tc r => match get_time tc (Z.of_nat (length (emit_load d [r])) - (if d then 2 else 1)) off with
                  | Ok t => Ok (Show t) | Err e => Err e end
  | SClear tc => match get_time tc 0 off with Ok t => Ok (Clear t) | Err e => Err e end
  end.
Definition loads_of (segs : list seg) : list row :=
  flat_map (fun s => match s with SLoad _ r => [r] | SClear _ => [] end) segs.

(* ---- 1. one control code, single or doubled ------------------------------------------------------------ *)
Lemma ctl_pair : forall d w nx s s1,
  (forall n, translate_word s w n = s1) -> r_err s1 = None -> r_last s1 = LWord w -> doubled_type s1 w = true ->
  exists l' ds', tws s (ctl d w) nx = set_clock (set_dbl s1 l' ds') (r_tc s1) (r_frames s1 + (if d then 1 else 0))
                 /\ (l' = LNone \/ l' = LWord w).
Proof.
  intros d w nx s s1 H1 He Hl Hd. destruct d; cbn [ctl tws].
  - exists LNone, (if is_cue_start w then true else r_dstart s1). split; [|left; reflexivity].
    rewrite H1, (tw_second s1 w nx He Hl Hd). reflexivity.
  - exists (r_last s1), (r_dstart s1). split; [|right; exact Hl]. rewrite H1, Z.add_0_r. destruct s1. reflexivity.
Qed.

Lemma translate_command_enm : forall s n, translate_command s w_enm n = set_tk (set_buf s creator0) (tracker_reset (r_tk s)).
Proof. reflexivity. Qed.
Lemma translate_command_rcl : forall s n, translate_command s w_rcl n = activate s MPop.
Proof. reflexivity. Qed.

Lemma hd_enm : forall st tk l ds c pa ro q tm tc fr off, last_is l w_enm = false ->
  handle_double (mkR st tk l ds c pa ro MPop q tm tc fr off None) w_enm
  = (false, mkR st tk (LWord w_enm) ds c pa ro MPop q tm tc fr off None).
Proof.
  intros st tk l ds c pa ro q tm tc fr off Hl. unfold handle_double. proj_red. rewrite Hl.
  rewrite !andb_false_r. reflexivity.
Qed.

Lemma hd_rcl : forall st tk l ds c pa ro q tm tc fr off, last_is l w_rcl = false ->
  handle_double (mkR st tk l ds c pa ro MPop q tm tc fr off None) w_rcl
  = (false, mkR st tk (LWord w_rcl) false c pa ro MPop q tm tc fr off None).
Proof.
  intros st tk l ds c pa ro q tm tc fr off Hl. unfold handle_double. proj_red. rewrite Hl.
  rewrite !andb_false_r. reflexivity.
Qed.

Lemma tw_enm : forall st tk l ds c pa ro q tm tc fr off n, last_is l w_enm = false ->
  translate_word (mkR st tk l ds c pa ro MPop q tm tc fr off None) w_enm n
  = mkR st (tracker_reset tk) (LWord w_enm) ds creator0 pa ro MPop q tm tc (fr + 1) off None.
Proof.
  intros st tk l ds c pa ro q tm tc fr off n Hl. unfold translate_word. proj_red.
  rewrite (hd_enm _ _ _ _ _ _ _ _ _ _ _ _ Hl). proj_red.
  replace (is_command w_enm || is_pac w_enm) with true by (vm_compute; reflexivity).
  rewrite translate_command_enm. proj_red. reflexivity.
Qed.

Lemma tw_rcl : forall st tk l ds c pa ro q tm tc fr off n, last_is l w_rcl = false ->
  translate_word (mkR st tk l ds c pa ro MPop q tm tc fr off None) w_rcl n
  = mkR st tk (LWord w_rcl) false c pa ro MPop q tm tc (fr + 1) off None.
Proof.
  intros st tk l ds c pa ro q tm tc fr off n Hl. unfold translate_word. proj_red.
  rewrite (hd_rcl _ _ _ _ _ _ _ _ _ _ _ _ Hl). proj_red.
  replace (is_command w_rcl || is_pac w_rcl) with true by (vm_compute; reflexivity).
  rewrite translate_command_rcl. unfold activate. proj_red. cbn [mode_eqb]. proj_red. reflexivity.
Qed.

Ltac red_in H :=
  unfold set_clock, set_dbl in H;
  cbn [r_stash r_tk r_last r_dstart r_pop r_paint r_roll r_active r_queue r_time r_tc r_frames r_offset r_err] in H.

(* ---- 2. the prologue ENM RCL from any pop-on state ------------------------------------------------------ *)
Lemma prologue_gen : forall d st tk l ds c pa ro q tm tc fr off nx, last_is l w_enm = false ->
  exists l0 ds0, tws (mkR st tk l ds c pa ro MPop q tm tc fr off None) (ctl d (ctrl_word 46) ++ ctl d (ctrl_word 32)) nx
   = mkR st (tracker_reset tk) l0 ds0 creator0 pa ro MPop q tm tc (fr + (if d then 4 else 2)) off None
   /\ (l0 = LNone \/ l0 = LWord w_rcl).
Proof.
  intros d st tk l ds c pa ro q tm tc fr off nx Hl.
  change (ctrl_word 46) with w_enm. change (ctrl_word 32) with w_rcl. rewrite tws_app.
  destruct (ctl_pair d w_enm (nxt (ctl d w_rcl) nx) _ _
              (fun n => tw_enm st tk l ds c pa ro q tm tc fr off n Hl) eq_refl eq_refl eq_refl) as (l1 & ds1 & E1 & Hl1).
  red_in E1. rewrite E1.
  assert (Hr : last_is l1 w_rcl = false) by (destruct Hl1 as [->| ->]; reflexivity).
  destruct (ctl_pair d w_rcl nx _ _
              (fun n => tw_rcl st (tracker_reset tk) l1 ds1 creator0 pa ro q tm tc (fr + 1 + (if d then 1 else 0)) off n Hr)
              eq_refl eq_refl eq_refl) as (l2 & ds2 & E2 & Hl2).
  red_in E2. rewrite E2. exists l2, ds2. split; [|exact Hl2]. f_equal. destruct d; lia.
Qed.

(* ---- 3. End-Of-Caption and Erase-Displayed-Memory with or without a queued cue ---------------------------- *)
(* _pop_on(end) when something is queued *)
Definition popped (st : stash) (q : option (creator * Q)) (t : Q) : stash :=
  match q with Some (c, t0) => create_and_store st c t0 t | None => st end.

Lemma tw_eoc : forall st tk l ds txt p pa ro q tm tc fr off n t, txt <> [] -> last_is l w_eoc = false ->
  get_time tc fr off = Ok t ->
  translate_word (mkR st tk l ds (mkCr [mkI IText txt p] SNone) pa ro MPop q tm tc fr off None) w_eoc n
  = mkR (popped st q t) tk (LWord w_eoc) ds creator0 pa ro MPop (Some (mkCr [mkI IText txt p] SNone, t)) t tc (fr + 1) off None.
Proof.
  intros st tk l ds txt p pa ro q tm tc fr off n t Hne Hl Hg. destruct txt as [|c0 txt']; [congruence|].
  unfold translate_word. proj_red. rewrite (hd_eoc _ _ _ _ _ _ _ _ _ _ _ _ Hl). proj_red.
  replace (is_command w_eoc || is_pac w_eoc) with true by (vm_compute; reflexivity).
  rewrite translate_command_eoc. unfold with_time. proj_red. rewrite Hg.
  destruct q as [[c1 t1]|]; reflexivity.
Qed.

Lemma eoc_gen : forall d st tk l ds txt p pa ro q tm tc fr off nx t, txt <> [] -> last_is l w_eoc = false ->
  get_time tc fr off = Ok t ->
  exists l' ds', tws (mkR st tk l ds (mkCr [mkI IText txt p] SNone) pa ro MPop q tm tc fr off None) (ctl d (ctrl_word 47)) nx
   = mkR (popped st q t) tk l' ds' creator0 pa ro MPop (Some (mkCr [mkI IText txt p] SNone, t)) t tc (fr + (if d then 2 else 1)) off None
   /\ (l' = LNone \/ l' = LWord w_eoc).
Proof.
  intros d st tk l ds txt p pa ro q tm tc fr off nx t Hne Hl Hg. change (ctrl_word 47) with w_eoc.
  destruct (ctl_pair d w_eoc nx _ _ (fun n => tw_eoc st tk l ds txt p pa ro q tm tc fr off n t Hne Hl Hg) eq_refl eq_refl eq_refl)
    as (l1 & ds1 & E1 & Hl1).
  red_in E1. rewrite E1. exists l1, ds1. split; [|exact Hl1]. f_equal. destruct d; lia.
Qed.

Lemma interp_edm : forall tk n, interpret_command tk creator0 w_edm n = (tk, creator0, None).
Proof. intros tk n. vm_compute. reflexivity. Qed.

Lemma tw_edm_some : forall st tk l ds c pa ro c0 t0 tm tc fr off n t, last_is l w_edm = false -> get_time tc fr off = Ok t ->
  translate_word (mkR st tk l ds c pa ro MPop (Some (c0, t0)) tm tc fr off None) w_edm n
  = mkR (create_and_store st c0 t0 t) tk (LWord w_edm) ds c pa ro MPop None tm tc (fr + 1) off None.
Proof.
  intros st tk l ds c pa ro c0 t0 tm tc fr off n t Hl Hg.
  unfold translate_word. proj_red. rewrite (hd_edm _ _ _ _ _ _ _ _ _ _ _ _ Hl). proj_red.
  replace (is_command w_edm || is_pac w_edm) with true by (vm_compute; reflexivity).
  rewrite translate_command_edm. proj_red. unfold with_time. proj_red. rewrite Hg. reflexivity.
Qed.

Lemma tw_edm_none : forall st tk l ds pa ro tm tc fr off n, last_is l w_edm = false ->
  translate_word (mkR st tk l ds creator0 pa ro MPop None tm tc fr off None) w_edm n
  = mkR st tk (LWord w_edm) ds creator0 pa ro MPop None tm tc (fr + 1) off None.
Proof.
  intros st tk l ds pa ro tm tc fr off n Hl.
  unfold translate_word. proj_red. rewrite (hd_edm _ _ _ _ _ _ _ _ _ _ _ _ Hl). proj_red.
  replace (is_command w_edm || is_pac w_edm) with true by (vm_compute; reflexivity).
  rewrite translate_command_edm. proj_red. unfold do_interpret. proj_red. rewrite interp_edm. proj_red. reflexivity.
Qed.

Lemma tw_edm_skip : forall st tk ds c pa ro q tm tc fr off n,
  translate_word (mkR st tk (LWord w_edm) ds c pa ro MPop q tm tc fr off None) w_edm n
  = mkR st tk LNone ds c pa ro MPop q tm tc (fr + 1) off None.
Proof. intros. rewrite tw_second; reflexivity. Qed.

(* ---- 4. the state between two lines, and what one line does to it ------------------------------------------- *)
(* pop-on mode, every buffer empty, no error; q is the pop_ons_queue *)
Definition B (off : Q) (st : stash) (tk : tracker) (l : lastcmd) (ds : bool) (q : option (creator * Q)) (tm : Q) (tc : str)
             (fr : Z) : rstate :=
  mkR st tk l ds creator0 creator0 creator0 MPop q tm tc fr off None.

Lemma translate_line_B : forall off st tk l ds q tm tc fr tc' ws,
  translate_line (B off st tk l ds q tm tc fr) (tc', ws) = tws (B off st tk l ds q tm tc' 0) ws None.
Proof. intros. unfold translate_line, B. cbn [r_err fst snd]. rewrite tws_words. reflexivity. Qed.

(* the creator holding the row r *)
Definition rcr (r : row) : creator := mkCr [mkI IText (row_text r) (row_pos r)] SNone.

(* (i-a) a load line from any between-lines state *)
Lemma load_line : forall d off st tk l ds q tm tc fr tc' r t, basic_row r = true -> last_is l w_enm = false ->
  get_time tc' (Z.of_nat (length (emit_load d [r])) - (if d then 2 else 1)) off = Ok t ->
  exists l' ds' fr',
    translate_line (B off st tk l ds q tm tc fr) (tc', emit_load d [r])
    = B off (popped st q t) (mkTk [row_pos r] None false (row_pos r)) l' ds' (Some (rcr r, t)) t tc' fr'
    /\ last_is l' w_edm = false /\ last_is l' w_enm = false.
Proof.
  intros d off st tk l ds q tm tc fr tc' r t H Hl Hg. rewrite translate_line_B. unfold B.
  destruct (basic_row_facts r H) as (_ & _ & _ & _ & _ & Hb & _ & Hne & _).
  rewrite (emit_load_one d r H) in *. rewrite !app_length, !Nat2Z.inj_add, !ctl_length in Hg.
  rewrite (tws_app (ctl d (ctrl_word 46) ++ ctl d (ctrl_word 32))), (tws_app (pac_unit d r)),
          (tws_app (pack d (map TCh (row_text r)) None)).
  destruct (prologue_gen d st tk l ds creator0 creator0 creator0 q tm tc' 0 off
              (nxt (pac_unit d r ++ pack d (map TCh (row_text r)) None ++ ctl d (ctrl_word 47)) None) Hl)
    as (l0 & ds0 & -> & Hl0).
  destruct (pac_row_facts r H) as (_ & _ & _ & I).
  assert (Hc0 : last_contains l0 (pac_word (rw_row r) (pac_attr r)) = false).
  { destruct Hl0 as [->| ->]; [reflexivity|]. cbn [last_contains]. apply Z.eqb_neq. intros E. apply (in_ctl _ I).
    rewrite <- E. unfold ctl_words. cbn [In]. tauto. }
  destruct (pac_unit_run r H st ds0 creator0 creator0 q tm tc' off d (tk_default tk) l0 (0 + (if d then 4 else 2))
              (nxt (pack d (map TCh (row_text r)) None ++ ctl d (ctrl_word 47)) None) Hc0) as (l1 & E1 & Hl1).
  unfold SP in E1. unfold tracker_reset. rewrite E1.
  destruct (chars_run st (row_pos r) (row_pos r) ds0 creator0 creator0 q tm tc' off d (nxt (ctl d (ctrl_word 47)) None)
              (row_text r) l1 [] [] (0 + (if d then 4 else 2) + Z.of_nat (length (pac_unit d r))) Hb
              (or_introl (conj eq_refl eq_refl))) as (l2 & nodes2 & E2 & Hh2 & Hl2).
  unfold SC in E2. fold creator0 in E2. rewrite E2. cbn [app] in Hh2.
  destruct Hh2 as [[_ X]| ->]; [congruence|].
  set (f := 0 + (if d then 4 else 2) + Z.of_nat (length (pac_unit d r)) + Z.of_nat (length (pack d (map TCh (row_text r)) None))) in *.
  replace ((if d then 2 else 1) + (if d then 2 else 1) + (Z.of_nat (length (pac_unit d r)) +
           (Z.of_nat (length (pack d (map TCh (row_text r)) None)) + (if d then 2 else 1))) - (if d then 2 else 1)) with f in Hg
    by (unfold f; destruct d; lia).
  destruct (eoc_gen d st (mkTk [row_pos r] None false (row_pos r)) l2 ds0 (row_text r) (row_pos r) creator0 creator0 q tm tc' f off
              None t Hne (Hl2 Hl1) Hg) as (l3 & ds3 & E3 & Hl3).
  exists l3, ds3, (f + (if d then 2 else 1)). split; [exact E3|]. destruct Hl3 as [->| ->]; split; reflexivity.
Qed.

(* (i-b) a clear line: the queued cue is stored with the instant of the (first) Erase-Displayed-Memory word as its end *)
Lemma clear_line_some : forall d off st tk l ds c0 t0 tm tc fr tc' t, last_is l w_edm = false ->
  get_time tc' 0 off = Ok t ->
  exists l' ds' fr',
    translate_line (B off st tk l ds (Some (c0, t0)) tm tc fr) (tc', emit_clear d)
    = B off (create_and_store st c0 t0 t) tk l' ds' None tm tc' fr' /\ last_is l' w_enm = false.
Proof.
  intros d off st tk l ds c0 t0 tm tc fr tc' t Hl Hg. rewrite translate_line_B. unfold B, emit_clear.
  change (ctrl_word 44) with w_edm.
  destruct (ctl_pair d w_edm None _ _ (fun n => tw_edm_some st tk l ds creator0 creator0 creator0 c0 t0 tm tc' 0 off n t Hl Hg)
              eq_refl eq_refl eq_refl) as (l1 & ds1 & E1 & Hl1).
  red_in E1. rewrite E1. exists l1, ds1, (0 + 1 + (if d then 1 else 0)). split; [reflexivity|].
  destruct Hl1 as [->| ->]; reflexivity.
Qed.

(* with nothing queued a clear line changes nothing (its word is interpreted without effect, or, directly after another
   single Erase-Displayed-Memory, taken for the second half of a doubled pair and skipped) *)
Lemma clear_line_none : forall d off st tk l ds tm tc fr tc',
  exists l' ds' fr',
    translate_line (B off st tk l ds None tm tc fr) (tc', emit_clear d) = B off st tk l' ds' None tm tc' fr'
    /\ last_is l' w_enm = false.
Proof.
  intros d off st tk l ds tm tc fr tc'. rewrite translate_line_B. unfold B, emit_clear. change (ctrl_word 44) with w_edm.
  destruct (last_is l w_edm) eqn:Hl.
  - assert (El : l = LWord w_edm).
    { destruct l as [|x|a b]; try discriminate Hl. cbn [last_is] in Hl. apply Z.eqb_eq in Hl. subst x. reflexivity. }
    subst l. destruct d; cbn [ctl tws].
    + rewrite tw_edm_skip, tw_edm_none by reflexivity. eexists _, _, _. split; reflexivity.
    + rewrite tw_edm_skip. eexists _, _, _. split; reflexivity.
  - destruct (ctl_pair d w_edm None _ _ (fun n => tw_edm_none st tk l ds creator0 creator0 tm tc' 0 off n Hl)
                eq_refl eq_refl eq_refl) as (l1 & ds1 & E1 & Hl1).
    red_in E1. rewrite E1. exists l1, ds1, (0 + 1 + (if d then 1 else 0)). split; [reflexivity|].
    destruct Hl1 as [->| ->]; reflexivity.
Qed.

(* ---- 5. what is stored: one caption per row ------------------------------------------------------------------ *)
Definition rnodes (r : row) : list cnode := [CText (row_text r) (row_pos r)].
Definition rcap (r : row) (s e : Q) : precap := mkPre s e (rnodes r) (Some (row_pos r)).

Lemma store_row : forall st r t0 t1, basic_row r = true -> create_and_store st (rcr r) t0 t1 = stash_extend st [rcap r t0 t1].
Proof.
  intros st r t0 t1 H. destruct (row_text_facts r H) as [Hrs _].
  destruct (basic_row_facts r H) as (_ & _ & _ & _ & _ & _ & _ & Hne & _).
  unfold rcap, rnodes, rcr. destruct (row_text r) as [|c0 txt]; [congruence|].
  unfold create_and_store. cbn [cr_is_empty cr_nodes existsb i_text nonempty orb negb].
  rewrite format_one, Hrs. reflexivity.
Qed.

(* the run of the reader at the level of rows: the stash and the queued row with its display instant *)
Definition aq : Type := option (row * Q).
Definition qreal (q : aq) : option (creator * Q) := match q with Some (r, t) => Some (rcr r, t) | None => None end.
Definition item : Type := (option row * Q)%type.       (* a load of the row r shown at t / a clear at t *)
Definition astep (a : stash * aq) (it : item) : stash * aq :=
  let '(st, q) := a in
  (match q with Some (r0, t0) => stash_extend st [rcap r0 t0 (snd it)] | None => st end,
   match fst it with Some r => Some (r, snd it) | None => None end).
Definition afinish (a : stash * aq) : stash :=
  let '(st, q) := a in match q with Some (r0, t0) => stash_extend st [rcap r0 t0 0] | None => st end.

Definition a0 : stash * aq := (stash0, None).

Definition seg_item (d : bool) (off : Q) (s : seg) : result item :=
  match s with
  | SLoad tc r => match get_time tc (Z.of_nat (length (emit_load d [r])) - (if d then 2 else 1)) off with
                  | Ok t => Ok (Some r, t) | Err e => Err e end
  | SClear tc => match get_time tc 0 off with Ok t => Ok (None, t) | Err e => Err e end
  end.
Definition ev_of (it : item) : ev := match fst it with Some _ => Show (snd it) | None => Clear (snd it) end.
Definition rows_of (its : list item) : list row := flat_map (fun it => match fst it with Some r => [r] | None => [] end) its.
Definition qrow (q : aq) : list row := match q with Some (r, _) => [r] | None => [] end.

Lemma res_map_cons : forall A B (f : A -> result B) a t l, res_map f (a :: t) = Ok l ->
  exists b bs, f a = Ok b /\ res_map f t = Ok bs /\ l = b :: bs.
Proof.
  intros A B f a t l H. cbn [res_map] in H. unfold bind in H. destruct (f a) as [b|e]; [|discriminate].
  destruct (res_map f t) as [bs|e]; [|discriminate]. inversion H. exists b, bs. auto.
Qed.

Lemma seg_items : forall d off segs evs, res_map (seg_event d off) segs = Ok evs ->
  exists its, res_map (seg_item d off) segs = Ok its /\ map ev_of its = evs /\ rows_of its = loads_of segs.
Proof.
  intros d off. induction segs as [|s segs IH]; intros evs H.
  - inversion H. exists []. auto.
  - destruct (res_map_cons _ _ _ _ _ _ H) as (e & es & He & Hes & ->). destruct (IH es Hes) as (its & Hi & Hm & Hr).
    destruct s as [tc r|tc]; cbn [seg_event] in He.
    + destruct (get_time tc _ off) as [t|x] eqn:Eg; [|discriminate]. inversion He. subst e.
      exists ((Some r, t) :: its). cbn [res_map seg_item bind]. rewrite Eg, Hi. cbn [bind map ev_of fst snd]. rewrite Hm.
      unfold rows_of, loads_of in *. cbn [flat_map fst]. rewrite Hr. auto.
    + destruct (get_time tc 0 off) as [t|x] eqn:Eg; [|discriminate]. inversion He. subst e.
      exists ((None, t) :: its). cbn [res_map seg_item bind]. rewrite Eg, Hi. cbn [bind map ev_of fst snd]. rewrite Hm.
      unfold rows_of, loads_of in *. cbn [flat_map fst]. rewrite Hr. auto.
Qed.

Lemma loads_basic : forall segs, forallb seg_ok segs = true -> Forall (fun r => basic_row r = true) (loads_of segs).
Proof.
  induction segs as [|s segs IH]; intros H; [constructor|].
  rewrite forallb_cons in H. apply andb_true_iff in H. destruct H as [Hs Ht]. unfold loads_of in *. cbn [flat_map].
  destruct s as [tc r|tc]; cbn [app]; [constructor; [exact Hs|]|]; exact (IH Ht).
Qed.

(* ---- 6. the lines of the stream, run from a between-lines state ------------------------------------------------ *)
Definition q_ok (q : aq) : Prop := match q with Some (r, _) => basic_row r = true | None => True end.
(* the first word of the next line (ENM or EDM) will not be taken for the second half of a doubled pair, except an EDM
   after an EDM, when nothing is queued *)
Definition inv (l : lastcmd) (q : aq) : Prop :=
  last_is l w_enm = false /\ (q = None \/ last_is l w_edm = false) /\ q_ok q.

Lemma run_segs : forall d off segs its st tk l ds q tm tc fr,
  forallb seg_ok segs = true -> res_map (seg_item d off) segs = Ok its -> inv l q ->
  exists tk' l' ds' tm' tc' fr',
    fold_left translate_line (map (seg_line d) segs) (B off st tk l ds (qreal q) tm tc fr)
    = B off (fst (fold_left astep its (st, q))) tk' l' ds' (qreal (snd (fold_left astep its (st, q)))) tm' tc' fr'
    /\ q_ok (snd (fold_left astep its (st, q))).
Proof.
  intros d off. induction segs as [|s segs IH]; intros its st tk l ds q tm tc fr Hok Hi (Hl1 & Hl2 & Hq).
  - inversion Hi. cbn [map fold_left fst snd]. exists tk, l, ds, tm, tc, fr. auto.
  - destruct (res_map_cons _ _ _ _ _ _ Hi) as (it & its' & Hit & Hi' & ->).
    rewrite forallb_cons in Hok. apply andb_true_iff in Hok. destruct Hok as [Hs Hok].
    cbn [map fold_left]. destruct s as [tc1 r|tc1]; cbn [seg_item seg_ok seg_line] in *.
    + destruct (get_time tc1 _ off) as [t|x] eqn:Eg; [|discriminate]. inversion Hit. subst it.
      destruct (load_line d off st tk l ds (qreal q) tm tc fr tc1 r t Hs Hl1 Eg) as (l' & ds' & fr' & E & Hl' & Hl'').
      rewrite E.
      assert (Ep : popped st (qreal q) t = fst (astep (st, q) (Some r, t))).
      { destruct q as [[r0 t0]|]; [|reflexivity]. cbn [qreal popped astep fst snd]. apply store_row. exact Hq. }
      rewrite Ep. change (Some (rcr r, t)) with (qreal (snd (astep (st, q) (Some r, t)))).
      destruct (IH its' (fst (astep (st, q) (Some r, t))) (mkTk [row_pos r] None false (row_pos r)) l' ds'
                   (snd (astep (st, q) (Some r, t))) t tc1 fr' Hok Hi') as (tk2 & l2 & ds2 & tm2 & tc2 & fr2 & E2 & Hq2).
      { split; [exact Hl''|split; [right; exact Hl'|exact Hs]]. }
      rewrite <- surjective_pairing in E2, Hq2. exists tk2, l2, ds2, tm2, tc2, fr2. split; assumption.
    + destruct (get_time tc1 0 off) as [t|x] eqn:Eg; [|discriminate]. inversion Hit. subst it.
      destruct q as [[r0 t0]|].
      * destruct Hl2 as [X|Hl2]; [discriminate|]. cbn [qreal].
        destruct (clear_line_some d off st tk l ds (rcr r0) t0 tm tc fr tc1 t Hl2 Eg) as (l' & ds' & fr' & E & Hl').
        rewrite E, (store_row st r0 t0 t Hq).
        destruct (IH its' (stash_extend st [rcap r0 t0 t]) tk l' ds' None tm tc1 fr' Hok Hi')
          as (tk2 & l2 & ds2 & tm2 & tc2 & fr2 & E2 & Hq2).
        { split; [exact Hl'|split; [left; reflexivity|exact I]]. }
        exists tk2, l2, ds2, tm2, tc2, fr2. split; assumption.
      * cbn [qreal].
        destruct (clear_line_none d off st tk l ds tm tc fr tc1) as (l' & ds' & fr' & E & Hl').
        rewrite E.
        destruct (IH its' st tk l' ds' None tm tc1 fr' Hok Hi') as (tk2 & l2 & ds2 & tm2 & tc2 & fr2 & E2 & Hq2).
        { split; [exact Hl'|split; [left; reflexivity|exact I]]. }
        exists tk2, l2, ds2, tm2, tc2, fr2. split; assumption.
Qed.

(* (ii, general form) read-level: the whole stream is read as the tail of read() applied to the row-level run *)
Theorem read_segs : forall d off segs its,
  forallb seg_ok segs = true -> res_map (seg_item d off) segs = Ok its ->
  read off (map (seg_line d) segs) = finish_read (afinish (fold_left astep its a0)).
Proof.
  intros d off segs its Hok Hi.
  destruct (run_segs d off segs its stash0 tracker0 LNone false None 0%Q (lit "00:00:00;00") 0 Hok Hi)
    as (tk & l & ds & tm & tc & fr & E & Hq).
  { split; [reflexivity|split; [left; reflexivity|exact I]]. }
  unfold read, run_lines. change (rstate0 off) with (B off stash0 tracker0 LNone false (qreal None) 0%Q (lit "00:00:00;00") 0).
  rewrite E. clear E. revert Hq. change (@pair stash aq stash0 None) with a0. destruct (fold_left astep its a0) as [st q]. cbn [fst snd]. intros Hq.
  unfold B. cbn [r_err]. unfold flush_implicit. cbn [r_active r_queue].
  destruct q as [[r0 t0]|]; cbn [qreal afinish].
  - unfold pop_on. cbn [r_queue]. unfold store, set_queue, set_stash. cbn [r_err r_stash]. rewrite (store_row st r0 t0 0%Q Hq).
    reflexivity.
  - reflexivity.
Qed.

(* ---- 7. order and content of what is stored --------------------------------------------------------------------- *)
Lemma afold_map : forall X (f : precap -> X) (g : row -> X),
  (forall e c, f (set_end e c) = f c) -> (forall r s e, f (rcap r s e) = g r) ->
  forall its st q, map f (st_caps (afinish (fold_left astep its (st, q)))) = map f (st_caps st) ++ map g (qrow q ++ rows_of its).
Proof.
  intros X f g Hf Hg. induction its as [|it its IH]; intros st q.
  - cbn [fold_left afinish rows_of flat_map]. rewrite app_nil_r. destruct q as [[r0 t0]|]; cbn [qrow map].
    + rewrite (stash_extend_map _ f) by exact Hf. cbn [filter has_nodes rcap rnodes pc_nodes map]. rewrite Hg. reflexivity.
    + rewrite app_nil_r. reflexivity.
  - cbn [fold_left astep]. rewrite IH. unfold rows_of. cbn [flat_map]. fold (rows_of its).
    destruct q as [[r0 t0]|]; cbn [qrow app].
    + rewrite (stash_extend_map _ f) by exact Hf. cbn [filter has_nodes rcap rnodes pc_nodes map]. rewrite Hg, <- app_assoc.
      destruct (fst it) as [r|]; reflexivity.
    + destruct (fst it) as [r|]; reflexivity.
Qed.

(* ---- 8. erasing the nodes: the times are those of the event-level model ---------------------------------------- *)
Definition span (c : precap) : Q * Q := (pc_start c, pc_end c).
Definition erase (c : precap) : precap := cue (pc_start c) (pc_end c).
Definition erase_st (s : stash) : stash := mkStash (map erase (st_caps s)) (st_batch s).

Lemma erase_cue' : forall l, map erase l = map cue' (map span l).
Proof. intros l. rewrite map_map. reflexivity. Qed.

Lemma last_map_some : forall A X (f : A -> X) l, last (map Some (map f l)) None = option_map f (last (map Some l) None).
Proof.
  intros A X f. induction l as [|a t IH]; [reflexivity|]. destruct t as [|b t']; [reflexivity|].
  change (last (map Some (map f (b :: t'))) None = option_map f (last (map Some (b :: t')) None)). exact IH.
Qed.

Lemma skipn_map : forall A X (f : A -> X) n l, skipn n (map f l) = map f (skipn n l).
Proof. intros A X f. induction n as [|n IH]; intros [|a l]; try reflexivity. cbn [skipn map]. apply IH. Qed.

Lemma map_tail_map : forall A X (f : A -> X) (g : A -> A) (g' : X -> X) n l, (forall x, f (g x) = g' (f x)) ->
  map f (map_tail n g l) = map_tail n g' (map f l).
Proof.
  intros A X f g g' n l H. unfold map_tail. rewrite map_app, map_length, firstn_map, skipn_map, !map_map. f_equal.
  apply map_ext. exact H.
Qed.

Lemma erase_extend : forall s c, has_nodes c = true -> erase_st (stash_extend s [c]) = stash_extend (erase_st s) [erase c].
Proof.
  intros s c Hc. unfold stash_extend, erase_st. cbn [filter]. rewrite Hc. cbn [has_nodes erase cue pc_nodes dummy_nodes st_caps st_batch length].
  f_equal. rewrite map_app. cbn [map]. f_equal.
  unfold update_last_batch. cbn [st_caps st_batch]. rewrite map_length, skipn_map, last_map_some.
  destruct (last (map Some (skipn (length (st_caps s) - st_batch s) (st_caps s))) None) as [b|]; cbn [option_map]; [|reflexivity].
  change (pc_end (erase b)) with (pc_end b). change (pc_start (cue (pc_start c) (pc_end c))) with (pc_start c).
  destruct (_ || _); [|reflexivity]. apply map_tail_map. reflexivity.
Qed.

Lemma erase_run : forall its st q,
  erase_st (afinish (fold_left astep its (st, q)))
  = pfinish (fold_left pstep (map to_pev (map ev_of its)) (erase_st st, option_map snd q)).
Proof.
  induction its as [|it its IH]; intros st q.
  - cbn [fold_left map afinish pfinish]. destruct q as [[r0 t0]|]; cbn [option_map snd]; [|reflexivity].
    rewrite erase_extend by reflexivity. reflexivity.
  - cbn [fold_left map astep]. rewrite IH. f_equal. f_equal. destruct it as [[r|] t]; unfold ev_of; cbn [fst snd to_pev pstep];
      destruct q as [[r0 t0]|]; cbn [option_map snd]; try reflexivity; rewrite erase_extend by reflexivity; reflexivity.
Qed.

Lemma existsb_map : forall A X (f : X -> bool) (g : A -> X) l, existsb f (map g l) = existsb (fun x => f (g x)) l.
Proof. intros A X f g. induction l as [|a l IH]; [reflexivity|]. cbn [map existsb]. rewrite IH. reflexivity. Qed.

Lemma fix_last_rev_erase : forall l, fix_last_rev (map erase l) = map erase (fix_last_rev l).
Proof.
  induction l as [|c t IH]; [reflexivity|]. cbn [map fix_last_rev]. change (pc_end (erase c)) with (pc_end c).
  destruct (Qeq_bool (pc_end c) 0); [|reflexivity]. cbn [map]. rewrite IH. reflexivity.
Qed.

Lemma fix_last_erase : forall l, fix_last (map erase l) = map erase (fix_last l).
Proof. intros l. unfold fix_last. rewrite <- map_rev, fix_last_rev_erase, map_rev. reflexivity. Qed.

Lemma finish_read_erase : forall s, length_check (map to_lcap (st_caps s)) = None ->
  spans_of (finish_read s) = spans_of (finish_read (erase_st s)).
Proof.
  intros s H. unfold finish_read. rewrite H. cbn [erase_st st_caps]. rewrite (erase_cue' (st_caps s)), length_check_cues.
  rewrite <- erase_cue', existsb_map. change (fun x => is_flash (erase x)) with is_flash.
  destruct (existsb is_flash (st_caps s)); [reflexivity|]. destruct (st_caps s) as [|c0 t]; [reflexivity|].
  change (map erase (c0 :: t)) with (erase c0 :: map erase t) at 1. cbv iota. cbn [spans_of].
  rewrite fix_last_erase, map_map. reflexivity.
Qed.

(* the length scan passes: every caption is one row of at most 32 characters without a newline *)
Lemma length_check_rows : forall caps rows, Forall (fun r => basic_row r = true) rows ->
  map pc_nodes caps = map rnodes rows -> length_check (map to_lcap caps) = None.
Proof.
  intros caps rows HF Hn. apply length_check_none_iff. unfold offending. rewrite map_map.
  assert (E : map (fun c => filter spec_long (spec_lines (snd (to_lcap c)))) caps
              = map (fun ns => filter spec_long (spec_lines (concat (map node_text ns)))) (map pc_nodes caps))
    by (rewrite map_map; reflexivity).
  rewrite E, Hn, map_map. clear E Hn. induction HF as [|r rows Hr HF IH]; [reflexivity|].
  cbn [map concat]. rewrite IH, app_nil_r. destruct (row_text_facts r Hr) as [_ Ho].
  unfold offending in Ho. cbn [map snd concat] in Ho. rewrite app_nil_r in Ho.
  unfold rnodes. cbn [map node_text concat]. rewrite app_nil_r. exact Ho.
Qed.

(* ---- 9. the theorems ------------------------------------------------------------------------------------------------ *)
Lemma stored_nodes : forall its, map pc_nodes (st_caps (afinish (fold_left astep its a0))) = map rnodes (rows_of its).
Proof. intros its. unfold a0. rewrite (afold_map _ pc_nodes rnodes) by reflexivity. reflexivity. Qed.

Lemma stored_layouts : forall its,
  map pc_layout (st_caps (afinish (fold_left astep its a0))) = map (fun r => Some (row_pos r)) (rows_of its).
Proof. intros its. unfold a0. rewrite (afold_map _ pc_layout (fun r => Some (row_pos r))) by reflexivity. reflexivity. Qed.

(* C06: well-formed stream -> display events -> spans, beyond one load *)
Theorem popon_stage4_spans : forall d off segs evs,
  forallb seg_ok segs = true -> res_map (seg_event d off) segs = Ok evs -> positive evs ->
  spans_of (read off (map (seg_line d) segs)) = expected_with join_threshold evs.
Proof.
  intros d off segs evs Hok He Hp. destruct (seg_items d off segs evs He) as (its & Hi & Hm & Hr).
  rewrite (read_segs d off segs its Hok Hi).
  rewrite finish_read_erase.
  - unfold a0. rewrite erase_run, Hm. rewrite <- (popon_read_expected evs Hp). reflexivity.
  - apply (length_check_rows _ (rows_of its)); [rewrite Hr; apply loads_basic; exact Hok|apply stored_nodes].
Qed.

(* C05: every load is read as exactly one caption with its row's characters at its row's address, in order *)
Theorem popon_stage4_captions : forall d off segs evs caps,
  forallb seg_ok segs = true -> res_map (seg_event d off) segs = Ok evs -> positive evs ->
  read off (map (seg_line d) segs) = ROk caps ->
  map pc_nodes caps = map (fun r => [CText (row_text r) (row_pos r)]) (loads_of segs) /\
  map pc_layout caps = map (fun r => Some (row_pos r)) (loads_of segs).
Proof.
  intros d off segs evs caps Hok He _ Hread. destruct (seg_items d off segs evs He) as (its & Hi & _ & Hr).
  rewrite (read_segs d off segs its Hok Hi) in Hread. destruct (flash_rejected _ _ Hread) as [-> _]. split.
  - rewrite fix_last_nodes, stored_nodes, Hr. reflexivity.
  - rewrite (fix_last_map _ pc_layout) by reflexivity. rewrite stored_layouts, Hr. reflexivity.
Qed.

(* ---- 10. (ii) two loads with an optional clear line between them, captions and times explicit -------------------- *)
Definition ev_instant (d : bool) (off : Q) (s : seg) : result Q :=
  match seg_event d off s with Ok e => Ok (ev_time e) | Err e => Err e end.

Lemma extend_two : forall c1 c2, has_nodes c1 = true -> has_nodes c2 = true ->
  st_caps (stash_extend (stash_extend stash0 [c1]) [c2])
  = [if Qeq_bool (pc_end c1) 0 || negb (Qle_bool join_threshold (pc_start c2 - pc_end c1)) then set_end (pc_start c2) c1 else c1; c2].
Proof.
  intros c1 c2 H1 H2. unfold stash_extend, stash0. cbn [filter]. rewrite H1, H2. unfold update_last_batch, map_tail.
  cbn [st_caps st_batch app length Nat.sub skipn firstn map last].
  destruct (_ || _); reflexivity.
Qed.

Theorem popon_two_loads : forall d off tc1 r1 mid tc2 r2 t1 t2 tm,
  basic_row r1 = true -> basic_row r2 = true ->
  ev_instant d off (SLoad tc1 r1) = Ok t1 -> ev_instant d off (SLoad tc2 r2) = Ok t2 ->
  match mid with Some tcm => ev_instant d off (SClear tcm) = Ok tm /\ (0 < tm)%Q | None => True end -> (0 < t2)%Q ->
  let e1 := match mid with
            | Some _ => if Qle_bool join_threshold (t2 - tm) then tm else t2   (* a gap under five frames is closed *)
            | None => t2
            end in
  is_flash (mkPre t1 e1 [] None) = false ->
  read off (map (seg_line d) ([SLoad tc1 r1] ++ match mid with Some tcm => [SClear tcm] | None => [] end ++ [SLoad tc2 r2]))
  = ROk [rcap r1 t1 e1; rcap r2 t2 (t2 + inject_Z 4000000)%Q].
Proof.
  intros d off tc1 r1 mid tc2 r2 t1 t2 tm H1 H2 G1 G2 Gm Hp2 e1 Hfl.
  unfold ev_instant in G1, G2, Gm. cbn [seg_event] in G1, G2, Gm.
  destruct (get_time tc1 _ off) as [t1'|] eqn:E1; [|discriminate]. inversion G1. subst t1'.
  destruct (get_time tc2 _ off) as [t2'|] eqn:E2; [|discriminate]. inversion G2. subst t2'.
  assert (Hz2 : Qeq_bool t2 0 = false) by (apply Qeq_bool_pos_false; exact Hp2).
  assert (Hfl2 : is_flash (rcap r2 t2 0) = false) by exact (pending_not_flash t2 Hp2).
  assert (Hfin : forall st, st_caps st = [rcap r1 t1 e1; rcap r2 t2 0%Q] -> Qeq_bool e1 0 = false ->
            finish_read st = ROk [rcap r1 t1 e1; rcap r2 t2 (t2 + inject_Z 4000000)%Q]).
  { intros st Hst Hz1. unfold finish_read. rewrite Hst.
    rewrite (length_check_rows _ [r1; r2]); [|repeat constructor; assumption|reflexivity].
    cbn [existsb]. change (is_flash (rcap r1 t1 e1)) with (is_flash (mkPre t1 e1 [] None)). rewrite Hfl, Hfl2. cbn [orb].
    change [rcap r1 t1 e1; rcap r2 t2 0%Q] with ([rcap r1 t1 e1] ++ [rcap r2 t2 0%Q]). rewrite fix_last_spec_all.
    - reflexivity.
    - intros c [<-|[]]. reflexivity.
    - intros c [<-|[]]. exact Hz1. }
  destruct mid as [tcm|].
  - destruct Gm as [Gm Hpm]. destruct (get_time tcm 0 off) as [tm'|] eqn:Em; [|discriminate]. inversion Gm. subst tm'.
    rewrite (read_segs d off _ [(Some r1, t1); (None, tm); (Some r2, t2)]).
    + apply Hfin.
      * unfold a0. cbn [fold_left astep afinish fst snd]. rewrite extend_two by reflexivity.
        cbn [rcap pc_end pc_start]. rewrite (Qeq_bool_pos_false tm Hpm). cbn [orb]. subst e1.
        destruct (Qle_bool join_threshold (t2 - tm)); reflexivity.
      * subst e1. destruct (Qle_bool _ _); apply Qeq_bool_pos_false; assumption.
    + cbn [app forallb seg_ok]. rewrite H1, H2. reflexivity.
    + cbn [app res_map seg_item bind]. rewrite E1, Em, E2. reflexivity.
  - rewrite (read_segs d off _ [(Some r1, t1); (Some r2, t2)]).
    + apply Hfin; [|exact Hz2].
      unfold a0. cbn [fold_left astep afinish fst snd]. rewrite extend_two by reflexivity.
      cbn [rcap pc_end pc_start]. rewrite Hz2. cbn [orb].
      assert (X : Qle_bool join_threshold (t2 - t2) = false).
      { destruct (Qle_bool join_threshold (t2 - t2)) eqn:E; [|reflexivity]. apply Qle_bool_iff in E. exfalso.
        assert (Y : (t2 - t2 == 0)%Q) by ring. rewrite Y in E. revert E. rewrite join_threshold_value. vm_compute. intros E. apply E. reflexivity. }
      rewrite X. reflexivity.
    + cbn [app forallb seg_ok]. rewrite H1, H2. reflexivity.
    + cbn [app res_map seg_item bind]. rewrite E1, E2. reflexivity.
Qed.
