(* C05 / C06 wave 8: MIXED per-code doubling - special / extended characters (and backspace) sent SINGLE among DOUBLED
   control codes, what pycaption's own SCCWriter emits.
   1. sh: a quiet word does not read the frame counter (frame lemma for a shifted counter); tw_last_indep: a word whose
      doubling decision does not distinguish two values of last_command is translated alike.
   2. dd prev m d: the word list d is m with some redundant copies inserted (w -> w w for words of a doubled type that are
      not preamble codes, not cue-starting, without lookahead, not followed / preceded by the same word); dd_run: from related
      states the reader reaches related states (equal up to the frame counter and the memory of the last command).
   3. load_line_mixed: ENM RCL bm EOC and ENM RCL bd EOC (dd bm bd) leave the reader in the same state when the EOC words
      have the same instant.
   4. whole programs with writer-style lines whose body is any bm with dd bm (rows doubled): read_mixed, popon_refines_608_mixed,
      popon_times_mixed. *)
From Coq Require Import List ZArith QArith Lia Bool ZifyBool.
From PV Require Import lib.Sx lib.Str lib.Result model.GenScc model.SccLen model.SccTime model.SccStash model.SccDecoder model.SccPopon.
From PV Require Import spec.Spec608 spec.SpecScc05 spec.SpecScc05Inline spec.SpecSccMixed spec.SpecSccTime.
From PV Require Import proofs.SccTableFacts proofs.SccDoubleFacts proofs.SccTimeFacts proofs.SccPoponFacts proofs.SccPoponStage1 proofs.SccPoponStage2
                       proofs.SccPoponStage3 proofs.SccPoponStage4 proofs.SccPoponStage6 proofs.SccPoponStage7 proofs.SccPoponStage8
                       proofs.SccPoponStage9 proofs.SccLineLayoutFacts proofs.SccInlineEdmFacts.
Import ListNotations.
Open Scope Z_scope.

(* ================================================================================================== *)
(* 1. the frame counter and last_command                                                               *)
Definition sh (k : Z) (x : rstate) : rstate :=
  mkR (r_stash x) (r_tk x) (r_last x) (r_dstart x) (r_pop x) (r_paint x) (r_roll x) (r_active x) (r_queue x) (r_time x) (r_tc x)
      (r_frames x + k) (r_offset x) (r_err x).
Definition setl (x : rstate) (l : lastcmd) : rstate :=
  mkR (r_stash x) (r_tk x) l (r_dstart x) (r_pop x) (r_paint x) (r_roll x) (r_active x) (r_queue x) (r_time x) (r_tc x)
      (r_frames x) (r_offset x) (r_err x).

Ltac dx x := destruct x as [st0 tk0 l0 ds0 po pa ro ac q0 tm0 tc0 fr0 off0 e0].

Lemma sh_hd : forall k x w, handle_double (sh k x) w = (fst (handle_double x w), sh k (snd (handle_double x w))).
Proof.
  intros k x w. dx x. unfold handle_double, sh. proj_red. cbv zeta.
  repeat match goal with
         | |- context [if ?b then _ else _] => destruct b
         | |- context [match ?x with _ => _ end] => destruct x
         end; reflexivity.
Qed.

Lemma sh_tc : forall k x w n, r_active x = MPop -> quiet w = true ->
  translate_command (sh k x) w n = sh k (translate_command x w n).
Proof.
  intros k x w n Ha Hq. destruct (quiet_parts w Hq) as (H1 & H2 & H3 & H4 & H5 & H6 & H7).
  dx x. cbn [r_active] in Ha. subst. unfold translate_command, sh. rewrite H1, H2, H3, H4, H5, H6, H7. proj_red.
  destruct (w =? w_rcl); [unfold activate; proj_red; cbn [mode_eqb]; reflexivity|].
  destruct (w =? w_enm); [reflexivity|].
  unfold do_interpret. proj_red. destruct (interpret_command tk0 po w n) as [[t c] e]. destruct e; reflexivity.
Qed.

Lemma sh_add : forall k x txt, add_to_buf (sh k x) txt = sh k (add_to_buf x txt).
Proof.
  intros k x txt. dx x. unfold add_to_buf, sh. proj_red.
  destruct ac; proj_red; match goal with |- context [add_chars ?a ?b ?c] => destruct (add_chars a b c) end; reflexivity.
Qed.
Lemma sh_buf : forall k x, buf (sh k x) = buf x.
Proof. intros k x. dx x. destruct ac; reflexivity. Qed.
Lemma sh_set_buf : forall k x c, set_buf (sh k x) c = sh k (set_buf x c).
Proof. intros k x c. dx x. destruct ac; reflexivity. Qed.
Lemma sh_bump : forall k x, bump (sh k x) = sh k (bump x).
Proof. intros k x. dx x. unfold bump, sh, set_clock. proj_red. f_equal. lia. Qed.
Lemma sh_tail : forall k y,
  match r_err (sh k y) with Some _ => sh k y | None => bump (sh k y) end
  = sh k (match r_err y with Some _ => y | None => bump y end).
Proof. intros k y. destruct (r_err y) eqn:E; dx y; cbn [r_err] in E; subst; [reflexivity|]. apply (sh_bump k (mkR st0 tk0 l0 ds0 po pa ro ac q0 tm0 tc0 fr0 off0 None)). Qed.

Theorem sh_tw : forall k x w n, r_active x = MPop -> quiet w = true ->
  translate_word (sh k x) w n = sh k (translate_word x w n).
Proof.
  intros k x w n Ha Hq. unfold translate_word.
  replace (r_err (sh k x)) with (r_err x) by (dx x; reflexivity).
  destruct (r_err x); [reflexivity|].
  rewrite sh_hd. pose proof (hd_active x w) as Hact. destruct (handle_double x w) as [b a]. cbn [fst snd] in *.
  rewrite Ha in Hact. destruct b; [apply sh_bump|]. cbv zeta.
  destruct (is_command w || is_pac w).
  { rewrite (sh_tc k a w n Hact Hq). apply sh_tail. }
  destruct (special_of w); [rewrite sh_add; apply sh_tail|].
  destruct (extended_of w); [rewrite sh_buf, sh_set_buf, sh_add; apply sh_tail|].
  destruct (char_of (hi w)); [|apply sh_tail]. destruct (char_of (lo w)); [rewrite sh_add|]; apply sh_tail.
Qed.

Lemma sh_sh : forall a b x, sh a (sh b x) = sh (b + a) x.
Proof. intros a b x. dx x. unfold sh. proj_red. f_equal. lia. Qed.
Lemma sh_0 : forall x, sh 0 x = x.
Proof. intros x. dx x. unfold sh. proj_red. f_equal. lia. Qed.
Lemma setl_eta : forall x, setl x (r_last x) = x.
Proof. intros x. dx x. reflexivity. Qed.

(* the translation of a word (not a tab offset) looks at last_command only through two tests *)
Lemma tw_last_indep : forall x l1 l2 v n, r_err x = None -> tab_of v = None ->
  last_is l1 v = last_is l2 v -> last_contains l1 v = last_contains l2 v ->
  translate_word (setl x l1) v n = translate_word (setl x l2) v n.
Proof.
  intros x l1 l2 v n He Ht H1 H2. dx x. cbn [r_err] in He. subst. unfold translate_word, setl. proj_red.
  unfold handle_double. proj_red. cbv zeta. rewrite H1, H2, Ht. reflexivity.
Qed.

(* after a word that is not a tab offset last_command is that word or nothing *)
Lemma hd_last_after : forall x v, tab_of v = None ->
  r_last (snd (handle_double x v)) = LWord v \/ r_last (snd (handle_double x v)) = LNone.
Proof.
  intros x v Ht. dx x. unfold handle_double. proj_red. cbv zeta. rewrite Ht.
  repeat match goal with |- context [if ?b then _ else _] => destruct b end; cbn [snd]; proj_red; auto.
Qed.

(* ================================================================================================== *)
(* 2. redundant copies                                                                                 *)


(* dd prev m d: d = m with redundant copies inserted; prev = the word before m *)
Inductive dd : option Z -> list Z -> list Z -> Prop :=
| dd_nil : forall prev, dd prev [] []
| dd_same : forall prev v m d, quiet v = true -> tab_of v = None -> dd (Some v) m d -> dd prev (v :: m) (v :: d)
| dd_dup : forall prev w m d, quiet w = true -> tab_of w = None -> dupable w = true -> prev <> Some w -> nexto m <> Some w ->
    dd (Some w) m d -> dd prev (w :: m) (w :: w :: d).

Lemma dd_head : forall prev m d, dd prev m d -> nexto m = nexto d.
Proof. intros prev m d H. destruct H; reflexivity. Qed.

Lemma dd_quiet : forall prev m d, dd prev m d -> forallb quiet m = true /\ forallb quiet d = true.
Proof.
  intros prev m d H. induction H as [|prev v m d Hq Ht H [IH1 IH2]|prev w m d Hq Ht Hd Hp Hn H [IH1 IH2]]; cbn [forallb];
    rewrite ?Hq, ?IH1, ?IH2; split; reflexivity.
Qed.

(* y is x up to the frame counter; if wo = Some w, x remembers the single w as last_command and y has forgotten it *)
Definition Rel (wo : option Z) (x y : rstate) : Prop :=
  exists k, y = sh k (setl x (match wo with Some _ => LNone | None => r_last x end)) /\
            match wo with Some w => r_last x = LWord w | None => True end.

Lemma rel_err : forall wo x y, Rel wo x y -> r_err y = r_err x.
Proof. intros wo x y (k & -> & _). dx x. reflexivity. Qed.

Lemma nxt_dd : forall prev m d nx, dd prev m d -> nxt m nx = nxt d nx.
Proof. intros prev m d nx H. destruct H; reflexivity. Qed.

(* one common word *)
Lemma rel_step : forall wo x y v n, r_active x = MPop -> r_err x = None -> Rel wo x y -> quiet v = true -> tab_of v = None ->
  (forall w, wo = Some w -> v <> w) ->
  Rel None (translate_word x v n) (translate_word y v n).
Proof.
  intros wo x y v n Ha He (k & -> & Hw) Hq Ht Hne.
  rewrite sh_tw; [|dx x; exact Ha|exact Hq].
  assert (E : translate_word (setl x (match wo with Some _ => LNone | None => r_last x end)) v n = translate_word x v n).
  { destruct wo as [w|]; [|rewrite setl_eta; reflexivity].
    rewrite <- (setl_eta x) at 2. rewrite Hw. apply tw_last_indep; try assumption.
    - cbn [last_is]. symmetry. apply Z.eqb_neq. intro E. apply (Hne w eq_refl). symmetry. exact E.
    - cbn [last_contains]. symmetry. apply Z.eqb_neq. intro E. apply (Hne w eq_refl). symmetry. exact E. }
  rewrite E. exists k. split; [rewrite setl_eta; reflexivity|exact I].
Qed.

Lemma tw_last_after : forall x v n, r_active x = MPop -> r_err x = None -> quiet v = true -> tab_of v = None ->
  r_last (translate_word x v n) = LWord v \/ r_last (translate_word x v n) = LNone.
Proof. intros x v n Ha He Hq Ht. rewrite (quiet_last_hd x v n He Ha Hq). apply hd_last_after, Ht. Qed.

(* the first copy of a dupable word is executed when last_command is another word *)
Lemma tw_first_last : forall x w n, r_active x = MPop -> r_err x = None -> quiet w = true -> tab_of w = None -> dupable w = true ->
  last_is (r_last x) w = false -> r_last (translate_word x w n) = LWord w.
Proof.
  intros x w n Ha He Hq Ht Hd Hl. rewrite (quiet_last_hd x w n He Ha Hq).
  unfold dupable in Hd. apply andb_true_iff in Hd. destruct Hd as [Hd _]. apply andb_true_iff in Hd. destruct Hd as [Hd _].
  apply andb_true_iff in Hd. destruct Hd as [_ Hp]. apply negb_true_iff in Hp.
  dx x. cbn [r_last] in Hl. unfold handle_double. proj_red. cbv zeta. rewrite Hl, Hp, Ht. rewrite !andb_false_r. reflexivity.
Qed.

Lemma dupable_parts : forall w, dupable w = true ->
  doubled_type (rstate0 0) w = true /\ is_pac w = false /\ is_cue_start w = false /\ no_lookahead w = true.
Proof.
  intros w H. unfold dupable in H. apply andb_true_iff in H. destruct H as [H H4]. apply andb_true_iff in H. destruct H as [H H3].
  apply andb_true_iff in H. destruct H as [H1 H2]. apply negb_true_iff in H2, H3. repeat split; assumption.
Qed.

Theorem dd_run : forall prev m d, dd prev m d -> forall wo x y nx, r_active x = MPop -> Rel wo x y ->
  (forall u, last_is (r_last x) u = true -> prev = Some u) -> (forall w, wo = Some w -> nexto m <> Some w) ->
  exists wo', Rel wo' (tws x m nx) (tws y d nx).
Proof.
  intros prev m d H. induction H as [prev|prev v m d Hq Ht H IH|prev w m d Hq Ht Hd Hp Hn H IH]; intros wo x y nx Ha HR Hprev Hnext.
  - exists wo. exact HR.
  - destruct (r_err x) as [e|] eqn:He.
    { rewrite (tws_error _ x nx e He), (tws_error _ y nx e) by (rewrite (rel_err _ _ _ HR); exact He). exists wo. exact HR. }
    change (tws x (v :: m) nx) with (tws (translate_word x v (nxt m nx)) m nx).
    change (tws y (v :: d) nx) with (tws (translate_word y v (nxt d nx)) d nx).
    rewrite <- (nxt_dd _ _ _ nx H).
    assert (Hne : forall w0, wo = Some w0 -> v <> w0).
    { intros w0 E Ev. apply (Hnext w0 E). cbn [nexto]. rewrite Ev. reflexivity. }
    apply (IH None _ _ nx (quiet_active x v _ Ha Hq) (rel_step wo x y v _ Ha He HR Hq Ht Hne)); [|discriminate].
    intros u Hu. destruct (tw_last_after x v (nxt m nx) Ha He Hq Ht) as [E|E]; rewrite E in Hu; cbn [last_is] in Hu; [|discriminate].
    apply Z.eqb_eq in Hu. subst u. reflexivity.
  - destruct (r_err x) as [e|] eqn:He.
    { rewrite (tws_error _ x nx e He), (tws_error _ y nx e) by (rewrite (rel_err _ _ _ HR); exact He). exists wo. exact HR. }
    destruct (dupable_parts w Hd) as (Hty & Hpac & Hcs & Hnl).
    change (tws x (w :: m) nx) with (tws (translate_word x w (nxt m nx)) m nx).
    change (tws y (w :: w :: d) nx) with (tws (translate_word (translate_word y w (Some w)) w (nxt d nx)) d nx).
    rewrite (tw_next_irrelevant x w (nxt m nx)) by (rewrite Hnl; reflexivity).
    rewrite (tw_next_irrelevant y w (Some w)) by (rewrite Hnl; reflexivity).
    assert (Hne : forall w0, wo = Some w0 -> w <> w0).
    { intros w0 E Ev. apply (Hnext w0 E). cbn [nexto]. rewrite Ev. reflexivity. }
    pose proof (rel_step wo x y w None Ha He HR Hq Ht Hne) as HR1.
    assert (Hl : last_is (r_last x) w = false).
    { destruct (last_is (r_last x) w) eqn:E; [|reflexivity]. exfalso. apply Hp. apply Hprev. exact E. }
    pose proof (quiet_active x w None Ha Hq) as Ha1.
    set (x1 := translate_word x w None) in *. set (y1 := translate_word y w None) in *.
    destruct (r_err x1) as [e|] eqn:He1.
    + rewrite (tw_err y1 w _ e) by (rewrite (rel_err _ _ _ HR1); exact He1).
      apply (IH None x1 y1 nx Ha1 HR1); [|discriminate].
      intros u Hu. destruct (tw_last_after x w None Ha He Hq Ht) as [E|E]; fold x1 in E; rewrite E in Hu; cbn [last_is] in Hu; [|discriminate].
      apply Z.eqb_eq in Hu. subst u. reflexivity.
    + pose proof (tw_first_last x w None Ha He Hq Ht Hd Hl) as Hl1. fold x1 in Hl1.
      destruct HR1 as (k & Ey & _). rewrite setl_eta in Ey.
      assert (E2 : translate_word y1 w (nxt d nx) = sh (k + 1) (setl x1 LNone)).
      { rewrite Ey. rewrite (tw_second (sh k x1) w).
        - rewrite Hcs. clear - Hl1. dx x1. cbn [r_last] in Hl1. unfold bump, set_dbl, set_clock, sh, setl. proj_red. f_equal. lia.
        - dx x1. exact He1.
        - dx x1. exact Hl1.
        - exact Hty. }
      rewrite E2. apply (IH (Some w) x1 _ nx Ha1).
      * exists (k + 1). split; [reflexivity|exact Hl1].
      * intros u Hu. rewrite Hl1 in Hu. cbn [last_is] in Hu. apply Z.eqb_eq in Hu. subst u. reflexivity.
      * intros w' E. injection E as <-. exact Hn.
Qed.

(* ================================================================================================== *)
(* 3. a load line with some codes single = the load line with all codes doubled, EOC at the same instant *)

Theorem load_line_mixed : forall d s tcA tcB bm bd,
  r_err s = None -> r_active s = MPop -> last_is (r_last s) w_enm = false ->
  dd (Some w_rcl) bm bd ->
  same_clock (r_offset s) tcB (Z.of_nat (length bd) - Z.of_nat (length bm)) tcA -> (length bm <= length bd)%nat ->
  r_err (translate_line s (tcB, (ctl d w_enm ++ ctl d w_rcl ++ bd) ++ ctl d w_eoc)) = None ->
  state_eq (translate_line s (tcA, (ctl d w_enm ++ ctl d w_rcl ++ bm) ++ ctl d w_eoc))
           (translate_line s (tcB, (ctl d w_enm ++ ctl d w_rcl ++ bd) ++ ctl d w_eoc)).
Proof.
  intros d s tcA tcB bm bd He Ha Hl Hdd Hck Hlen Hne.
  destruct (dd_quiet _ _ _ Hdd) as [Hqm Hqd].
  dx s. cbn [r_err r_active r_last r_offset] in *. subst ac e0.
  set (k := if d then 4 else 2).
  unfold translate_line in *. cbn [r_err fst snd] in *. unfold set_clock in *. proj_red. rs_cbn_in Hne.
  rewrite !tws_words in *.
  rewrite !(SccPoponStage1.tws_app (ctl d w_enm ++ ctl d w_rcl ++ _)) in *.
  rewrite !(app_assoc (ctl d w_enm)) in *.
  rewrite !(SccPoponStage1.tws_app (ctl d w_enm ++ ctl d w_rcl)) in *.
  rewrite !prologue_det in * by assumption. fold k in Hne |- *.
  set (nx := nxt (ctl d w_eoc) None) in *.
  set (P0 := mkR st0 (tracker_reset tk0) (if d then LNone else LWord w_rcl) d creator0 pa ro MPop q0 tm0 tcA (0 + k) off0 None).
  change (mkR st0 (tracker_reset tk0) (if d then LNone else LWord w_rcl) d creator0 pa ro MPop q0 tm0 tcB (0 + k) off0 None)
    with (fr_set P0 st0 q0 tm0 tcB) in *.
  destruct (frame_tws bd P0 st0 q0 tm0 tcB nx eq_refl Hqd) as [EF _]. rewrite EF in *. clear EF.
  destruct (dd_run _ _ _ Hdd None P0 P0 nx eq_refl) as (wo & k' & EY & Hwo).
  { exists 0. rewrite setl_eta, sh_0. split; [reflexivity|exact I]. }
  { intros u Hu. unfold P0 in Hu. cbn [r_last] in Hu. destruct d; cbn [last_is] in Hu; [discriminate|].
    apply Z.eqb_eq in Hu. subst u. reflexivity. }
  { discriminate. }
  assert (K5 : last_is (r_last (tws P0 bm nx)) w_eoc = false).
  { apply (quiet_last w_eoc eq_refl); [reflexivity|exact Hqm|destruct d; reflexivity]. }
  pose proof (tws_clock bm P0) as (A1 & A2 & A3). pose proof (tws_clock bd P0) as (B1 & B2 & B3).
  rewrite tws_words in A1, A2, A3, B1, B2, B3.
  rewrite (tws_nx bm P0 nx) in * by (destruct d; reflexivity). rewrite (tws_nx bd P0 nx) in * by (destruct d; reflexivity).
  destruct (quiet_keeps bm P0 None eq_refl Hqm) as (K1 & K2 & K3 & K4).
  set (X := tws P0 bm None) in *. set (Y := tws P0 bd None) in *.
  assert (EeY : r_err Y = None).
  { destruct (r_err Y) as [er|] eqn:E; [|reflexivity]. exfalso.
    rewrite (tws_error _ _ _ er) in Hne by (destruct Y as [stY tkY lY0 dsY poY paY roY acY qY tmY tcY frY offY eY]; exact E). revert Hne. destruct Y as [stY tkY lY0 dsY poY paY roY acY qY tmY tcY frY offY eY]. cbn [r_err] in E. subst. discriminate. }
  assert (EeX : r_err X = None).
  { rewrite EY in EeY. clear - EeY. destruct X as [stY tkY lY0 dsY poY paY roY acY qY tmY tcY frY offY eY]. exact EeY. }
  specialize (A3 EeX). specialize (B3 EeY).
  assert (Hk' : r_frames X + k' = r_frames Y).
  { rewrite EY. clear. destruct X as [stY tkY lY0 dsY poY paY roY acY qY tmY tcY frY offY eY]. reflexivity. }
  (* both End-Of-Caption runs start from X up to last_command and the clock *)
  rewrite EY. clear EY Hne.
  destruct X as [stX tkX lX dsX poX paX roX acX qX tmX tcX frX offX eX]. cbn [r_err r_last r_frames r_tc r_offset r_stash r_queue r_time r_active] in *. subst eX.
  unfold P0 in A1, A2, A3, B3, K1, K2, K3. cbn [r_tc r_offset r_frames r_stash r_queue r_time] in *. subst tcX offX stX qX tmX acX.
  unfold sh, setl, fr_set. proj_red.
  set (lY := match wo with Some _ => LNone | None => lX end).
  assert (HlY : last_is lY w_eoc = false).
  { unfold lY. destruct wo; [reflexivity|exact K5]. }
  rewrite (eoc_washout d _ _ lX LNone) by (exact K5 || reflexivity).
  rewrite (eoc_washout d _ _ lY LNone) by (exact HlY || reflexivity).
  rewrite <- !tws_words. apply se_translate_words. apply se_mk. intros j Hj.
  assert (Ek : frX + k' + j = (Z.of_nat (length bd) - Z.of_nat (length bm)) + (frX + j)).
  { clearbody k. clear - A3 B3 Hk'. lia. }
  rewrite Ek. symmetry. apply Hck. clear - A3 Hj. unfold k in A3. destruct d; lia.
Qed.

(* ================================================================================================== *)
(* 4. whole programs                                                                                   *)

(* a segment: one of wave 7 (old layout / writer-style line, all codes single or all doubled), or a writer-style line
   tc: ENM RCL bm EDM EOC  whose body bm is the doubled rows of the load l with some redundant copies left out
   (dd bm (rows doubled)). tcE: the instant of its EDM word; tcL: tc + (1|2) frames; tcD: the timecode from which the
   all-doubled load line has its EOC at the instant of this line's EOC. *)
Inductive mseg : Type :=
| MW (w : wseg)
| MMix (tc tcE tcL tcD : str) (l : load) (bm : list Z).

Definition mseg_line (d : bool) (s : mseg) : sline :=
  match s with
  | MW w => wseg_line d w
  | MMix tc _ _ _ _ bm => (tc, (ctl d w_enm ++ ctl d w_rcl ++ bm) ++ ctl d w_edm ++ ctl d w_eoc)
  end.
Definition mseg_expand (s : mseg) : list pseg :=
  match s with MW w => wseg_expand w | MMix _ tcE _ tcD l _ => [PClear tcE; PLoad tcD l] end.
Definition mseg_ok (d : bool) (off : Q) (s : mseg) : Prop :=
  match s with
  | MW w => wseg_clock d off w
  | MMix tc tcE tcL tcD l bm =>
      dd (Some w_rcl) bm (flat_map (emit_row d) l) /\
      same_clock off tc (Z.of_nat (length (ctl d w_enm ++ ctl d w_rcl ++ bm))) tcE /\
      same_clock off tc (if d then 2 else 1) tcL /\
      same_clock off tcD (Z.of_nat (length (flat_map (emit_row d) l)) - Z.of_nat (length bm)) tcL /\
      (length bm <= length (flat_map (emit_row d) l))%nat
  end.
Definition mexpand (ms : list mseg) : list pseg := flat_map mseg_expand ms.

Lemma psegs_run : forall d off ps, forallb pseg_ok8 ps = true ->
  Forall (fun p => exists ev, pseg_event d off p = Ok ev) ps ->
  forall st tk l ds q tm tc fr, binv l q ->
  exists st' tk' l' ds' q' tm' tc' fr',
    run (B off st tk l ds q tm tc fr) (map (pseg_line d) ps) = B off st' tk' l' ds' q' tm' tc' fr' /\ binv l' q'.
Proof.
  intros d off. induction ps as [|p ps IH]; intros Hok Hev st tk l ds q tm tc fr Hinv.
  - eexists _, _, _, _, _, _, _, _. split; [reflexivity|exact Hinv].
  - rewrite forallb_cons in Hok. apply andb_true_iff in Hok. destruct Hok as [Hp Hok].
    inversion Hev as [|p0 x0 [ev Hevp] Hev']; subst.
    destruct (pseg_step d off p ev Hp Hevp st tk l ds q tm tc fr Hinv) as (st' & tk' & l' & ds' & q' & tm' & tc' & fr' & E & Hinv').
    unfold run. cbn [map fold_left]. rewrite E. apply (IH Hok Hev'). exact Hinv'.
Qed.

Lemma run_msegs : forall d off ms, Forall (mseg_ok d off) ms -> forallb pseg_ok8 (mexpand ms) = true ->
  Forall (fun p => exists ev, pseg_event d off p = Ok ev) (mexpand ms) ->
  forall s1 st tk l ds q tm tc fr, binv l q -> state_eq s1 (B off st tk l ds q tm tc fr) ->
  state_eq (run s1 (map (mseg_line d) ms)) (run (B off st tk l ds q tm tc fr) (map (pseg_line d) (mexpand ms))).
Proof.
  intros d off. induction ms as [|m ms IH]; intros Hck Hok Hev s1 st tk l ds q tm tc fr Hinv Hse; [exact Hse|].
  inversion Hck as [|m0 ms0 Hm Hck']; subst. unfold mexpand in *. cbn [flat_map map] in *.
  rewrite forallb_app in Hok. apply andb_true_iff in Hok. destruct Hok as [Hok1 Hok2].
  apply Forall_app in Hev. destruct Hev as [Hev1 Hev2].
  rewrite map_app, run_app.
  destruct (psegs_run d off (mseg_expand m) Hok1 Hev1 st tk l ds q tm tc fr Hinv)
    as (st' & tk' & l' & ds' & q' & tm' & tc' & fr' & E & Hinv').
  change (run s1 (mseg_line d m :: map (mseg_line d) ms)) with (run (run s1 [mseg_line d m]) (map (mseg_line d) ms)).
  rewrite E. apply (IH Hck' Hok2 Hev2); [exact Hinv'|]. rewrite <- E.
  destruct m as [w|tc1 tcE tcL tcD ld bm]; cbn [mseg_line mseg_expand mseg_ok] in *.
  - pose proof (run_wsegs d off [w]) as R. unfold wexpand in R. cbn [flat_map map] in R. rewrite app_nil_r in R.
    apply R; try assumption. constructor; [exact Hm|constructor].
  - destruct Hm as (Hdd & HcE & HcL & HcD & Hlen). destruct Hinv as [Hl1 Hl2].
    cbn [forallb] in Hok1. apply andb_true_iff in Hok1. destruct Hok1 as [_ Hok1]. apply andb_true_iff in Hok1. destruct Hok1 as [Hld _].
    inversion Hev1 as [|p0 x0 [ev1 Hevc] Hev1']; subst. inversion Hev1' as [|p1 x1 [ev2 Hevl] _]; subst.
    destruct (pseg_step d off (PClear tcE) ev1 eq_refl Hevc st tk l ds q tm tc fr (conj Hl1 Hl2))
      as (sa & ta & la & dsa & qa & tma & tca & fra & E1 & Hinva).
    destruct (pseg_step d off (PLoad tcD ld) ev2 Hld Hevl sa ta la dsa qa tma tca fra Hinva)
      as (sb & tb & lb & dsb & qb & tmb & tcb & frb & E2 & Hinvb).
    unfold run. cbn [map fold_left pseg_line] in *. unfold emit_clear in *. change (ctrl_word 44) with w_edm in *.
    rewrite emit_load_shape in *.
    destruct (dd_quiet _ _ _ Hdd) as [Hqm _].
    set (s' := translate_line s1 (tcE, ctl d w_edm)).
    assert (Hs' : state_eq s' (B off sa ta la dsa qa tma tca fra)).
    { rewrite <- E1. apply se_translate_line, Hse. }
    assert (Hmix : state_eq (translate_line s' (tcL, (ctl d w_enm ++ ctl d w_rcl ++ bm) ++ ctl d w_eoc))
                            (translate_line s' (tcD, (ctl d w_enm ++ ctl d w_rcl ++ flat_map (emit_row d) ld) ++ ctl d w_eoc))).
    { apply load_line_mixed.
      - rewrite (se_err _ _ Hs'). reflexivity.
      - rewrite (se_active _ _ Hs'). reflexivity.
      - rewrite (se_last _ _ Hs'). exact (proj1 Hinva).
      - exact Hdd.
      - rewrite (se_offset _ _ Hs'). exact HcD.
      - exact Hlen.
      - rewrite (se_err _ _ (se_translate_line _ _ _ Hs')), E2. reflexivity. }
    assert (Hd2 : state_eq (translate_line s' (tcD, (ctl d w_enm ++ ctl d w_rcl ++ flat_map (emit_row d) ld) ++ ctl d w_eoc))
                           (B off sb tb lb dsb qb tmb tcb frb)).
    { rewrite <- E2. apply se_translate_line, Hs'. }
    eapply se_trans; [|rewrite E1, E2; exact Hd2]. eapply se_trans; [|exact Hmix].
    apply inline_edm.
    + rewrite (se_err _ _ Hse). reflexivity.
    + rewrite (se_active _ _ Hse). reflexivity.
    + rewrite (se_last _ _ Hse). exact Hl1.
    + rewrite (se_last _ _ Hse), (se_queue _ _ Hse). cbn [r_last r_queue B]. destruct Hl2; [right|left]; assumption.
    + exact Hqm.
    + rewrite (se_offset _ _ Hse). exact HcE.
    + rewrite (se_offset _ _ Hse). exact HcL.
    + fold s'. rewrite (se_err _ _ Hmix), (se_err _ _ Hd2). reflexivity.
Qed.

Theorem read_msegs : forall d off ms evs, Forall (mseg_ok d off) ms -> forallb pseg_ok8 (mexpand ms) = true ->
  res_map (pseg_event d off) (mexpand ms) = Ok evs ->
  read off (map (mseg_line d) ms) = read off (map (pseg_line d) (mexpand ms)).
Proof.
  intros d off ms evs Hck Hok Hev.
  assert (F : Forall (fun p => exists ev, pseg_event d off p = Ok ev) (mexpand ms)).
  { clear - Hev. revert evs Hev. induction (mexpand ms) as [|p t IH]; intros evs Hev; [constructor|].
    destruct (res_map_cons _ _ _ _ _ _ Hev) as (b & bs & Hb & Ht & _). constructor; [exists b; exact Hb|exact (IH _ Ht)]. }
  pose proof (run_msegs d off ms Hck Hok F (rstate0 off) stash0 tracker0 LNone false None 0%Q (lit "00:00:00;00") 0
                (conj eq_refl (or_introl eq_refl)) (se_refl _)) as H0.
  change (B off stash0 tracker0 LNone false None 0%Q (lit "00:00:00;00") 0) with (rstate0 off) in H0. unfold run in H0.
  assert (HR : state_eq (run_lines off (map (mseg_line d) ms)) (run_lines off (map (pseg_line d) (mexpand ms)))).
  { unfold run_lines. cbv zeta. rewrite (se_err _ _ H0).
    destruct (r_err (fold_left translate_line (map (pseg_line d) (mexpand ms)) (rstate0 off))); [exact H0|].
    apply se_flush_implicit, H0. }
  unfold read. cbv zeta. rewrite (se_err _ _ HR), (se_stash _ _ HR). reflexivity.
Qed.

Theorem popon_refines_608_mixed : forall d off ms evs spans,
  Forall (mseg_ok d off) ms -> forallb pseg_ok8 (mexpand ms) = true ->
  res_map (pseg_event d off) (mexpand ms) = Ok evs -> positive evs -> after_show None evs ->
  expected_with join_threshold evs = Ok spans ->
  exists caps, read off (map (mseg_line d) ms) = ROk caps /\
               ok_c05 (mkProg d (ploads_of (mexpand ms))) (Ok (map observe caps)) = true /\
               dom_c05 (mkProg d (ploads_of (mexpand ms))) = true.
Proof.
  intros d off ms evs spans Hck Hok Hev Hp Ha Hx. rewrite (read_msegs d off ms evs Hck Hok Hev).
  exact (popon_refines_608 d off (mexpand ms) evs spans Hok Hev Hp Ha Hx).
Qed.

Theorem popon_times_mixed : forall d off ms evs,
  Forall (mseg_ok d off) ms -> forallb pseg_ok8 (mexpand ms) = true ->
  res_map (pseg_event d off) (mexpand ms) = Ok evs -> positive evs ->
  spans_of (read off (map (mseg_line d) ms))
  = rmap (fun spans => flat_map bspans (combine (ploads_of (mexpand ms)) spans)) (expected_with join_threshold evs).
Proof.
  intros d off ms evs Hck Hok Hev Hp. rewrite (read_msegs d off ms evs Hck Hok Hev).
  exact (popon_times d off (mexpand ms) evs Hok Hev Hp).
Qed.

(* ================================================================================================== *)
(* 5. a decision procedure for dd (sound), so that the hypothesis can be computed for a given pair of word lists *)

Lemma opt_is_false : forall o w, opt_is o w = false -> o <> Some w.
Proof. intros [x|] w H E; [|discriminate]. injection E as ->. cbn [opt_is] in H. rewrite Z.eqb_refl in H. discriminate. Qed.

Theorem ddb_sound : forall m prev d, ddb prev m d = true -> dd prev m d.
Proof.
  induction m as [|v m IH]; intros prev d H; destruct d as [|v1 d']; try discriminate H; [constructor|].
  cbn [ddb] in H. apply andb_true_iff in H. destruct H as [H Hor]. apply andb_true_iff in H. destruct H as [H Ht].
  apply andb_true_iff in H. destruct H as [He Hq]. apply Z.eqb_eq in He. subst v1.
  assert (Ht' : tab_of v = None) by (unfold tab_none in Ht; destruct (tab_of v); [discriminate|reflexivity]).
  apply orb_true_iff in Hor. destruct Hor as [Hs|Hd].
  - apply dd_same; [exact Hq|exact Ht'|apply IH, Hs].
  - destruct d' as [|v2 d'']; [discriminate|].
    apply andb_true_iff in Hd. destruct Hd as [Hd H5]. apply andb_true_iff in Hd. destruct Hd as [Hd H4].
    apply andb_true_iff in Hd. destruct Hd as [Hd H3]. apply andb_true_iff in Hd. destruct Hd as [H1 H2].
    apply Z.eqb_eq in H1. subst v2. apply negb_true_iff in H3, H4.
    apply dd_dup; [exact Hq|exact Ht'|exact H2|apply opt_is_false, H3|apply opt_is_false, H4|apply IH, H5].
Qed.


Definition mmix (t : timecode) (l : load) : mseg :=
  let nm := Z.of_nat (length (body_m l)) in let nd := Z.of_nat (length (flat_map (emit_row true) l)) in
  MMix (render_tc t) (render_tc (tc_shift t (4 + nm))) (render_tc (tc_shift t 2)) (render_tc (tc_shift t (2 + nm - nd))) l (body_m l).

(* an instance: "Hi ♪" / "a½b" as the writer sends it - preamble codes doubled, the special characters 9137 / 9132 single *)
Definition exm_l : load := [mkRow 14 0 0 16 [Ch 72; Ch 105; Ch 32; Sp 7]; mkRow 15 0 0 16 [Ch 97; Sp 2; Ch 98]].
Definition exm_ms : list mseg := [mmix (mkTc 0 0 1 false 0) exm_l; MW (WSeg (PClear (lit "00:00:05:00")))].

Example exm_line : mseg_line true (mmix (mkTc 0 0 1 false 0) exm_l) =
  (lit "00:00:01:00", [38062; 38062; 37920; 37920; 38096; 38096; 51433; 8320; 37175; 38000; 38000; 24960; 37170; 25216;
                       37932; 37932; 37935; 37935]).
Proof. vm_compute. reflexivity. Qed.

Example exm_hyps : Forall (mseg_ok true 0) exm_ms /\ forallb pseg_ok8 (mexpand exm_ms) = true.
Proof.
  split; [|vm_compute; reflexivity].
  constructor; [|constructor; [exact I|constructor]].
  unfold mmix, mseg_ok. split; [apply ddb_sound; vm_compute; reflexivity|].
  split; [apply same_clock_shift; [reflexivity|vm_compute; discriminate|vm_compute; reflexivity]|].
  split; [apply same_clock_shift; [reflexivity|vm_compute; discriminate|vm_compute; reflexivity]|].
  split; [|vm_compute; lia].
  apply (same_clock_wf 0 (tc_shift (mkTc 0 0 1 false 0) (2 + Z.of_nat (length (body_m exm_l)) - Z.of_nat (length (flat_map (emit_row true) exm_l))))
                       (tc_shift (mkTc 0 0 1 false 0) 2)); vm_compute; try reflexivity; discriminate.
Qed.

Example exm_runs :
  match res_map (pseg_event true 0) (mexpand exm_ms) with
  | Ok evs => match read 0 (map (mseg_line true) exm_ms) with
              | ROk caps => ok_c05 (mkProg true [exm_l]) (Ok (map observe caps)) && Nat.eqb (length caps) 1
              | _ => false
              end
  | Err _ => false
  end = true.
Proof. vm_compute. reflexivity. Qed.
