(* C17, wave 7 (part 1): the node layer of builder sccr's reader model (model/SccDecoder.v) on the kind of buffer the SCC
   writer's loads produce - text and break nodes only, no italics, no repositioning.
     * add_chars on such a buffer appends the characters to the last text node, after an explicit break when the position
       tracker asks for one (`add_chars_plain`);
     * the seven passes of _format_italics change such a buffer only by dropping empty text nodes and stripping the
       whitespace in front of a break / the end (`format_plain`);
     * CaptionCreator.create_and_store builds exactly ONE caption from it, whose text has the same words (`store_plain`).
   `ntext` is the text a buffer stands for (break = newline). *)
From Coq Require Import List ZArith QArith Lia Bool ZifyBool.
From PV Require Import lib.Sx lib.Str lib.Result model.SccLen model.SccStash model.SccDecoder spec.SpecSccw.
From PV Require proofs.SccPoponStage2c proofs.SccWordsFacts.
Import ListNotations.
Open Scope Z_scope.

(* ---- plain buffers -------------------------------------------------------------------------------------------- *)
Definition plain_node (n : inode) : bool := is_text n || is_break n.
Definition plain (l : list inode) : bool := forallb plain_node l.
Definition node_str (n : inode) : str :=
  match i_kind n with IText => i_text n | IBreak => [10] | _ => [] end.
Definition ntext (l : list inode) : str := concat (map node_str l).
Definition last_text (l : list inode) : bool :=
  match last (map Some l) None with Some n => is_text n | None => false end.

Lemma ntext_app : forall a b, ntext (a ++ b) = ntext a ++ ntext b.
Proof. intros. unfold ntext. rewrite map_app, concat_app. reflexivity. Qed.
Lemma plain_app : forall a b, plain (a ++ b) = plain a && plain b.
Proof. intros. unfold plain. apply forallb_app. Qed.

Lemma last_some_snoc : forall (l : list inode) n, last (map Some (l ++ [n])) None = Some n.
Proof.
  induction l as [|a t IH]; intros n; [reflexivity|]. cbn [app map]. specialize (IH n).
  destruct (map Some (t ++ [n])) as [|x r] eqn:E; [destruct t; discriminate|].
  change (last (Some a :: x :: r) None) with (last (x :: r) None). exact IH.
Qed.
Lemma last_text_snoc : forall l n, last_text (l ++ [n]) = is_text n.
Proof. intros. unfold last_text. rewrite last_some_snoc. reflexivity. Qed.

Lemma last_text_split : forall l, last_text l = true -> exists pre n, l = pre ++ [n] /\ is_text n = true.
Proof.
  intros l H. destruct (exists_last (l := l)) as (pre & n & E).
  - intros ->. discriminate.
  - exists pre, n. split; [exact E|]. rewrite E, last_text_snoc in H. exact H.
Qed.

Lemma map_last_snoc : forall (f : inode -> inode) l n, map_last f (l ++ [n]) = l ++ [f n].
Proof.
  induction l as [|a t IH]; intros n; [reflexivity|]. cbn [app]. specialize (IH n).
  destruct (t ++ [n]) as [|x r] eqn:E; [destruct t; discriminate|].
  change (map_last f (a :: x :: r)) with (a :: map_last f (x :: r)). rewrite IH. reflexivity.
Qed.

(* all whitespace of the text is the blank (true for the CEA-608 basic set) *)
Definition tame (s : str) : bool := forallb (fun c => negb (is_space c) || (c =? 32)) s.
Definition tame_node (n : inode) : bool := tame (i_text n).

(* ---- add_chars -------------------------------------------------------------------------------------------------- *)
Definition brk_str (t : tracker) : str := if break_required t then [10] else [].

Lemma add_chars_plain : forall t nodes s, tk_repos t = false -> plain nodes = true ->
  forallb tame_node nodes = true -> tame s = true ->
  exists nodes',
    add_chars t (mkCr nodes SNone) s = (mkTk (tk_pos t) None false (tk_default t), mkCr nodes' SNone)
    /\ plain nodes' = true /\ last_text nodes' = true /\ ntext nodes' = ntext nodes ++ brk_str t ++ s
    /\ forallb tame_node nodes' = true.
Proof.
  intros t nodes s R P TN TS. unfold add_chars. cbn [cr_nodes cr_style]. rewrite R.
  assert (RE : match last (map Some nodes) None with Some n => is_text n && negb false | None => false end = last_text nodes).
  { unfold last_text. destruct (last (map Some nodes) None); [apply andb_true_r|reflexivity]. }
  rewrite RE. clear RE.
  set (cur := current_position t).
  set (reuse := last_text nodes).
  assert (N1 : exists pre n, (if reuse then nodes else nodes ++ [mkI IText [] cur]) = pre ++ [n] /\ is_text n = true
                             /\ plain (pre ++ [n]) = true /\ ntext (pre ++ [n]) = ntext nodes
                             /\ forallb tame_node (pre ++ [n]) = true).
  { destruct reuse eqn:E.
    - destruct (last_text_split nodes E) as (pre & n & -> & Hn). exists pre, n. auto.
    - exists nodes, (mkI IText [] cur). split; [reflexivity|]. split; [reflexivity|]. split; [|split].
      + rewrite plain_app, P. reflexivity.
      + rewrite ntext_app. unfold ntext at 2. cbn. rewrite app_nil_r. reflexivity.
      + rewrite forallb_app, TN. reflexivity. }
  destruct N1 as (pre & n & -> & Hn & Pp & Nt & Tp). unfold brk_str.
  destruct (break_required t) eqn:B.
  - exists ((pre ++ [n]) ++ [mkI IBreak [] cur; mkI IText s cur]). split; [|split; [|split; [|split]]].
    + change ((pre ++ [n]) ++ [mkI IBreak [] cur; mkI IText [] cur])
        with ((pre ++ [n]) ++ [mkI IBreak [] cur] ++ [mkI IText [] cur]).
      rewrite !app_assoc, map_last_snoc. unfold ack_repos, ack_break. cbn [tk_pos tk_break tk_repos tk_default add_text i_kind i_text i_pos app].
      rewrite <- !app_assoc. reflexivity.
    + rewrite plain_app, Pp. reflexivity.
    + change [mkI IBreak [] cur; mkI IText s cur] with ([mkI IBreak [] cur] ++ [mkI IText s cur]). rewrite app_assoc, last_text_snoc. reflexivity.
    + rewrite ntext_app, Nt. unfold ntext at 2. cbn. rewrite app_nil_r. reflexivity.
    + rewrite forallb_app, Tp. cbn [forallb]. unfold tame_node. cbn [i_text]. rewrite TS. reflexivity.
  - exists (pre ++ [add_text s n]). unfold is_text in Hn. destruct n as [k tx ps]. cbn [i_kind] in Hn. destruct k; try discriminate.
    split; [|split; [|split; [|split]]].
    + rewrite map_last_snoc. destruct t as [tp tb tr td]. cbn [tk_pos tk_break tk_repos tk_default] in *. subst tr.
      unfold break_required in B. cbn [tk_break] in B. destruct tb; [discriminate|]. reflexivity.
    + rewrite plain_app in *. apply andb_prop in Pp. destruct Pp as [P1 _]. rewrite P1. reflexivity.
    + rewrite last_text_snoc. reflexivity.
    + rewrite <- Nt, !ntext_app. unfold add_text, ntext. cbn. rewrite !app_nil_r, app_assoc. reflexivity.
    + rewrite forallb_app in *. apply andb_prop in Tp. destruct Tp as [T1 T2]. rewrite T1. cbn [forallb] in *.
      unfold tame_node, add_text in *. cbn [i_text] in *. unfold tame in *. rewrite forallb_app, TS.
      rewrite andb_true_r in T2. rewrite T2. reflexivity.
Qed.

(* ---- the seven passes on a plain buffer ------------------------------------------------------------------------ *)
Lemma plain_cons : forall n l, plain (n :: l) = true -> plain_node n = true /\ plain l = true.
Proof. intros n l H. unfold plain in *. cbn [forallb] in H. apply andb_prop in H. exact H. Qed.

Lemma plain_kinds : forall n, plain_node n = true ->
  is_on n = false /\ is_off n = false /\ is_repos n = false.
Proof. intros [k t p] H. unfold plain_node, is_text, is_break, is_on, is_off, is_repos in *. cbn [i_kind] in *. destruct k; try discriminate; auto. Qed.

Lemma skip_initial_off_plain : forall l b, plain l = true -> skip_initial_off l b = l.
Proof.
  induction l as [|n t IH]; intros b H; [reflexivity|]. apply plain_cons in H. destruct H as [Hn Ht].
  destruct (plain_kinds n Hn) as (A & B & _). cbn [skip_initial_off]. rewrite A, B, IH by exact Ht. reflexivity.
Qed.
Lemma skip_redundant_plain : forall l st, plain l = true -> skip_redundant l st = l.
Proof.
  induction l as [|n t IH]; intros st H; [reflexivity|]. apply plain_cons in H. destruct H as [Hn Ht].
  destruct (plain_kinds n Hn) as (A & B & _). cbn [skip_redundant]. rewrite A, B, IH by exact Ht. reflexivity.
Qed.
Lemma close_before_repos_plain : forall l op, plain l = true -> close_before_repos l op = l.
Proof.
  induction l as [|n t IH]; intros op H; [reflexivity|]. apply plain_cons in H. destruct H as [Hn Ht].
  destruct (plain_kinds n Hn) as (A & B & C). cbn [close_before_repos]. rewrite A, B, C, IH by exact Ht. reflexivity.
Qed.
Lemma final_on_pos_plain : forall l op, plain l = true -> final_on_pos l op = op.
Proof.
  induction l as [|n t IH]; intros op H; [reflexivity|]. apply plain_cons in H. destruct H as [Hn Ht].
  destruct (plain_kinds n Hn) as (A & B & _). cbn [final_on_pos]. rewrite A, B. apply IH. exact Ht.
Qed.
Lemma remove_on_off_plain : forall l, plain l = true -> remove_on_off l None = l.
Proof.
  induction l as [|n t IH]; intros H; [reflexivity|]. apply plain_cons in H. destruct H as [Hn Ht].
  destruct (plain_kinds n Hn) as (A & B & _). cbn [remove_on_off]. rewrite A, B, IH by exact Ht. reflexivity.
Qed.
Lemma remove_off_on_plain : forall l, plain l = true -> remove_off_on l None = l.
Proof.
  induction l as [|n t IH]; intros H; [reflexivity|]. apply plain_cons in H. destruct H as [Hn Ht].
  destruct (plain_kinds n Hn) as (A & B & _). cbn [remove_off_on]. rewrite B, A, IH by exact Ht. reflexivity.
Qed.
Lemma skip_empty_plain : forall l, plain l = true -> plain (skip_empty_text l) = true /\ ntext (skip_empty_text l) = ntext l.
Proof.
  induction l as [|n t IH]; intros H; [split; reflexivity|]. apply plain_cons in H. destruct H as [Hn Ht].
  destruct (IH Ht) as [I1 I2]. unfold skip_empty_text in *. cbn [filter].
  destruct (is_text n && negb (nonempty (i_text n))) eqn:E; cbn [negb].
  - split; [exact I1|]. rewrite I2. apply andb_prop in E. destruct E as [E1 E2].
    destruct n as [k tx p]. unfold is_text in E1. cbn [i_kind i_text] in *. destruct k; try discriminate. destruct tx; [reflexivity|discriminate].
  - split.
    + unfold plain. cbn [forallb]. rewrite Hn. exact I1.
    + change (ntext (n :: filter (fun n0 => negb (is_text n0 && negb (nonempty (i_text n0)))) t))
        with (node_str n ++ ntext (filter (fun n0 => negb (is_text n0 && negb (nonempty (i_text n0)))) t)).
      rewrite I2. reflexivity.
Qed.

Lemma format_plain : forall l, plain l = true -> format_italics l = strip_line_ends (skip_empty_text l).
Proof.
  intros l H. unfold format_italics. cbv zeta. rewrite (skip_initial_off_plain l false H).
  destruct (skip_empty_plain l H) as [P _]. set (m := skip_empty_text l) in *.
  rewrite (skip_redundant_plain m None P), (close_before_repos_plain m None P).
  unfold ensure_final_closes. rewrite (final_on_pos_plain m None P), (remove_on_off_plain m P), (remove_off_on_plain m P).
  reflexivity.
Qed.

(* ---- words of the text ------------------------------------------------------------------------------------------- *)

Definition flushw (cur : str) : list str := match cur with [] => [] | _ => [rev cur] end.
Lemma words_aux_blank_head : forall R cur, (R = [] \/ exists c R2, R = c :: R2 /\ is_blank c = true) ->
  words_aux R cur = flushw cur ++ words_aux R [].
Proof.
  intros R cur [->|(c & R2 & -> & Hc)].
  - cbn [words_aux]. rewrite app_nil_r. destruct cur; reflexivity.
  - cbn [words_aux]. rewrite Hc. destruct cur; reflexivity.
Qed.
Lemma words_aux_spaces : forall sp R cur, forallb (fun c => c =? 32) sp = true ->
  (R = [] \/ exists c R2, R = c :: R2 /\ is_blank c = true) ->
  words_aux (sp ++ R) cur = words_aux R cur.
Proof.
  induction sp as [|c t IH]; intros R cur H HR; [reflexivity|]. cbn [forallb] in H. apply andb_prop in H. destruct H as [Hc Ht].
  assert (c = 32) by lia. subst c. cbn [app words_aux]. change (is_blank 32) with true. cbv iota.
  rewrite (words_aux_blank_head R cur HR). destruct cur as [|x cur']; cbn [flushw app]; rewrite (IH R [] Ht HR); reflexivity.
Qed.
Lemma words_aux_app_eq : forall a R R' cur, (forall cur, words_aux R cur = words_aux R' cur) ->
  words_aux (a ++ R) cur = words_aux (a ++ R') cur.
Proof.
  induction a as [|c t IH]; intros R R' cur H; [apply H|]. cbn [app words_aux].
  destruct (is_blank c); [destruct cur|]; rewrite ?(IH R R' _ H); reflexivity.
Qed.

Lemma tame_split : forall x, tame x = true -> exists sp, x = rstrip x ++ sp /\ forallb (fun c => c =? 32) sp = true.
Proof.
  intros x T. destruct (SccPoponStage2c.rstrip_split x) as (sp & E & S). exists sp. split; [exact E|].
  apply forallb_forall. intros c Hc. unfold tame in T. rewrite forallb_forall in T, S.
  assert (In c x) by (rewrite E; apply in_or_app; right; exact Hc).
  specialize (T c H). specialize (S c Hc). rewrite S in T. exact T.
Qed.

Definition blank_head (R : str) : Prop := R = [] \/ exists c R2, R = c :: R2 /\ is_blank c = true.

Lemma sle_words : forall l, plain l = true -> forallb tame_node l = true ->
  (forall cur, words_aux (ntext (strip_line_ends l)) cur = words_aux (ntext l) cur)
  /\ (blank_head (ntext l) -> blank_head (ntext (strip_line_ends l))) /\ (l = [] \/ is_break (hd (mkI IText [] (0,0)) l) = true -> blank_head (ntext l)).
Proof.
  induction l as [|n t IH]; intros P T.
  - split; [reflexivity|]. split; [auto|]. intros _. left. reflexivity.
  - apply plain_cons in P. destruct P as [Pn Pt]. cbn [forallb] in T. apply andb_prop in T. destruct T as [Tn Tt].
    destruct (IH Pt Tt) as (I1 & I2 & I3). cbn [strip_line_ends].
    change (ntext (n :: t)) with (node_str n ++ ntext t).
    match goal with |- context [ntext (?x :: strip_line_ends t)] =>
      change (ntext (x :: strip_line_ends t)) with (node_str x ++ ntext (strip_line_ends t)) end.
    destruct n as [k tx p]. unfold plain_node, is_text, is_break in Pn. cbn [i_kind] in Pn.
    destruct k; try discriminate.
    + (* text node *)
      unfold is_text at 1. cbn [i_kind andb].
      assert (S1 : next_plain_is_sep t = true -> blank_head (ntext t)).
      { intros Hs. apply I3. destruct t as [|m t']; [left; reflexivity|right]. cbn [next_plain_is_sep hd] in *.
        apply plain_cons in Pt. destruct Pt as [Pm _]. destruct (plain_kinds m Pm) as (A & B & C). rewrite A, B, C in Hs.
        cbn [orb] in Hs. rewrite orb_false_r in Hs. exact Hs. }
      destruct (next_plain_is_sep t) eqn:Hs.
      * specialize (S1 eq_refl). unfold rstrip_node, node_str. cbn [i_kind i_text i_pos].
        destruct (tame_split tx Tn) as (sp & E & Sp).
        set (y := rstrip tx) in *. clearbody y. subst tx.
        split; [|split].
        -- intros cur. rewrite (words_aux_app_eq y _ _ cur I1). rewrite <- app_assoc.
           apply words_aux_app_eq. intros cur'. symmetry. apply words_aux_spaces; assumption.
        -- intros BH. destruct y as [|c r].
           ++ cbn [app]. apply I2. exact S1.
           ++ right. exists c, (r ++ ntext (strip_line_ends t)). split; [reflexivity|].
              destruct BH as [BH|(c0 & R2 & BH & Hc)]; [discriminate|]. cbn [app] in BH. inversion BH; subst. exact Hc.
        -- intros [X|X]; [discriminate|]. cbn [hd] in X. discriminate.
      * unfold node_str. cbn [i_kind i_text].
        split; [|split].
        -- intros cur. apply words_aux_app_eq. exact I1.
        -- intros BH. destruct tx as [|c r].
           ++ cbn [app] in *. apply I2. exact BH.
           ++ destruct BH as [BH|(c0 & R2 & BH & Hc)]; [discriminate|]. right. exists c, (r ++ ntext (strip_line_ends t)).
              split; [reflexivity|]. cbn [app] in BH. inversion BH; subst. exact Hc.
        -- intros [X|X]; [discriminate|]. cbn [hd] in X. discriminate.
    + (* break node *)
      unfold is_text at 1. cbn [i_kind andb]. unfold node_str. cbn [i_kind].
      split; [|split].
      * intros cur. apply (words_aux_app_eq [10]). exact I1.
      * intros _. right. exists 10, (ntext (strip_line_ends t)). split; reflexivity.
      * intros _. right. exists 10, (ntext t). split; reflexivity.
Qed.

(* ---- build_captions on a plain list ------------------------------------------------------------------------------- *)
Definition cnode_of (n : inode) : list cnode :=
  match i_kind n with
  | IText => if nonempty (i_text n) then [CText (i_text n) (i_pos n)] else []
  | IBreak => [CBreak (i_pos n)]
  | _ => []
  end.

Lemma build_plain : forall l s e done cur, plain l = true ->
  exists lay, build_captions l s e done cur
              = done ++ [mkPre (pc_start cur) (pc_end cur) (pc_nodes cur ++ flat_map cnode_of l) lay].
Proof.
  induction l as [|n t IH]; intros s e done cur P.
  - exists (pc_layout cur). cbn [build_captions flat_map]. rewrite app_nil_r. destruct cur; reflexivity.
  - apply plain_cons in P. destruct P as [Pn Pt]. destruct n as [k tx p]. unfold plain_node, is_text, is_break in Pn. cbn [i_kind] in Pn.
    destruct k; try discriminate; cbn [build_captions i_kind i_text i_pos flat_map].
    + unfold cnode_of at 1. cbn [i_kind i_text i_pos]. destruct (nonempty tx).
      * destruct (IH s e done (mkPre (pc_start cur) (pc_end cur) (pc_nodes cur ++ [CText tx p]) (Some p)) Pt) as (lay & E).
        exists lay. rewrite E. cbn [pc_start pc_end pc_nodes]. rewrite <- app_assoc. reflexivity.
      * destruct (IH s e done cur Pt) as (lay & E). exists lay. rewrite E. reflexivity.
    + unfold cnode_of at 1. cbn [i_kind i_pos].
      destruct (IH s e done (add_node cur (CBreak p)) Pt) as (lay & E). exists lay. rewrite E. unfold add_node.
      cbn [pc_start pc_end pc_nodes]. rewrite <- app_assoc. reflexivity.
Qed.

Lemma cnode_text : forall l, plain l = true -> concat (map node_text (flat_map cnode_of l)) = ntext l.
Proof.
  induction l as [|n t IH]; intros P; [reflexivity|]. apply plain_cons in P. destruct P as [Pn Pt].
  cbn [flat_map]. rewrite map_app, concat_app, (IH Pt). change (ntext (n :: t)) with (node_str n ++ ntext t). f_equal.
  destruct n as [k tx p]. unfold plain_node, is_text, is_break in Pn. cbn [i_kind] in Pn.
  destruct k; try discriminate; unfold cnode_of, node_str; cbn [i_kind i_text i_pos].
  - destruct tx; cbn [nonempty map concat node_text]; rewrite ?app_nil_r; reflexivity.
  - reflexivity.
Qed.

Lemma sle_plain : forall l, plain l = true -> plain (strip_line_ends l) = true.
Proof.
  induction l as [|n t IH]; intros P; [reflexivity|]. apply plain_cons in P. destruct P as [Pn Pt]. cbn [strip_line_ends].
  unfold plain. cbn [forallb]. fold (plain (strip_line_ends t)). rewrite (IH Pt), andb_true_r.
  destruct (is_text n && next_plain_is_sep t); [|exact Pn]. destruct n as [k tx p]. exact Pn.
Qed.

Lemma skip_empty_tame : forall l, forallb tame_node l = true -> forallb tame_node (skip_empty_text l) = true.
Proof.
  intros l H. apply forallb_forall. intros n Hn. unfold skip_empty_text in Hn. apply filter_In in Hn. destruct Hn as [Hn _].
  rewrite forallb_forall in H. apply H. exact Hn.
Qed.

(* the caption built from a plain buffer: one caption, same words *)
Theorem caption_of_plain : forall nodes s e, plain nodes = true -> forallb tame_node nodes = true ->
  exists cn lay, build_captions (format_italics nodes) s e [] (mkPre s e [] None) = [mkPre s e cn lay]
                 /\ words (concat (map node_text cn)) = words (ntext nodes).
Proof.
  intros nodes s e P T. rewrite (format_plain nodes P).
  destruct (skip_empty_plain nodes P) as [P2 N2]. pose proof (sle_plain _ P2) as P3.
  destruct (build_plain (strip_line_ends (skip_empty_text nodes)) s e [] (mkPre s e [] None) P3) as (lay & E).
  cbn [pc_start pc_end pc_nodes app] in E. eexists _, lay. split; [exact E|].
  rewrite (cnode_text _ P3). unfold words.
  destruct (sle_words (skip_empty_text nodes) P2 (skip_empty_tame nodes T)) as (W & _). rewrite W, N2. reflexivity.
Qed.
