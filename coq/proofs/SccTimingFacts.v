(* C17: the pre-roll arithmetic of SCCWriter.write (PASS 2 / PASS 3) and the timecode format. *)
From Coq Require Import List ZArith QArith Qround Qabs Lia Lqa Bool ZifyBool Arith.
From PV Require Import lib.Sx lib.Str lib.Result model.GenSccw model.SccWrap model.SccWrite spec.SpecSccw
     proofs.SccwStr.
Import ListNotations.
Open Scope Q_scope.

(* ---- PASS 2 as a look-ahead: a caption's clear-screen time is removed exactly when the next caption's
        advanced start is at most 3 frames after it ------------------------------------------------- *)
Fixpoint pass2_ahead (c : str) (s e : Q) (todo : list (str * Q * Q)) : list (str * Q * option Q) :=
  match todo with
  | [] => [(c, s, Some e)]
  | (c', s', e') :: t =>
      let cs := pre_roll c' s' in
      (c, s, if Qle_bool cs (e + 3 * mpc) then None else Some e) :: pass2_ahead c' cs e' t
  end.

Lemma pass2_ahead_eq : forall todo done_ c s e,
  pass2 ((c, s, Some e) :: done_) todo = rev done_ ++ pass2_ahead c s e todo.
Proof.
  induction todo as [|[[c' s'] e'] t IH]; intros done_ c s e; cbn [pass2 pass2_ahead].
  - reflexivity.
  - destruct (Qle_bool (pre_roll c' s') (e + 3 * mpc)); rewrite IH; cbn [rev]; rewrite <- app_assoc; reflexivity.
Qed.

Theorem pass2_lookahead : forall c s e todo,
  pass2 [] ((c, s, e) :: todo) = pass2_ahead c (pre_roll c s) e todo.
Proof. intros. cbn [pass2]. apply (pass2_ahead_eq todo [] c (pre_roll c s) e). Qed.

(* ---- the times written, in file order ---------------------------------------------------------- *)
Definition emitted (l : list (str * Q * option Q)) : list Q :=
  flat_map (fun x => snd (fst x) :: match snd x with Some e => [e] | None => [] end) l.

Fixpoint chain (lo : Q) (l : list Q) : Prop :=
  match l with [] => True | x :: t => lo <= x /\ chain x t end.

Lemma mpc_pos : 0 < mpc.
Proof. reflexivity. Qed.
Lemma code_words_nonneg : forall code, 0 <= code_words code.
Proof.
  intros. unfold code_words. change 0 with (inject_Z 0). rewrite <- Zle_Qle.
  assert (0 <= Z.of_nat (length code) / 5)%Z by (apply Z.div_pos; lia). lia.
Qed.

Lemma pre_roll_le : forall code start, 0 <= start -> pre_roll code start <= start /\ 0 <= pre_roll code start.
Proof.
  intros code start H. unfold pre_roll.
  pose proof (code_words_nonneg code) as W. pose proof mpc_pos as M.
  assert (P : 0 <= code_words code * mpc) by (apply Qmult_le_0_compat; lra).
  destruct (Qle_bool 0 (start - code_words code * mpc)) eqn:E.
  - apply Qle_bool_iff in E. split; lra.
  - split; lra.
Qed.
Lemma pre_roll_exact : forall code start, 0 <= start - code_words code * mpc ->
  pre_roll code start == start - code_words code * mpc.
Proof.
  intros code start H. unfold pre_roll. apply Qle_bool_iff in H. rewrite H. reflexivity.
Qed.

(* the spacing hypothesis: cues are ordered, do not overlap, and each cue starts at least its own
   transmission time (code words x one frame) after the previous cue's start, the first after 0 *)
Fixpoint spaced (prev_start : Q) (todo : list (str * Q * Q)) : Prop :=
  match todo with
  | [] => True
  | (c, s, e) :: t => prev_start <= s - code_words c * mpc /\ s <= e /\
                      match t with [] => True | (_, s', _) :: _ => e <= s' end /\ spaced s t
  end.

Lemma pass2_ahead_chain : forall todo c s s0 e lo,
  lo <= s -> s <= s0 -> s0 <= e -> 0 <= s0 ->
  match todo with [] => True | (_, s', _) :: _ => e <= s' end -> spaced s0 todo ->
  chain lo (emitted (pass2_ahead c s e todo)).
Proof.
  induction todo as [|[[c' s'] e'] t IH]; intros c s s0 e lo L1 L2 L3 L0 N S; cbn [pass2_ahead].
  - simpl. repeat split; lra.
  - destruct S as (S1 & S2 & S3 & S4).
    assert (P : pre_roll c' s' == s' - code_words c' * mpc) by (apply pre_roll_exact; lra).
    pose proof (code_words_nonneg c') as W. pose proof mpc_pos as M.
    assert (PW : 0 <= code_words c' * mpc) by (apply Qmult_le_0_compat; lra).
    unfold emitted. cbn [flat_map fst snd].
    destruct (Qle_bool (pre_roll c' s') (e + 3 * mpc)) eqn:E; cbn [app chain].
    + split; [exact L1|]. apply (IH c' (pre_roll c' s') s' e' s); try lra; auto.
    + assert (E' : e + 3 * mpc < pre_roll c' s').
      { apply Qnot_le_lt. intros C. apply Qle_bool_iff in C. congruence. }
      split; [exact L1|]. split; [lra|].
      apply (IH c' (pre_roll c' s') s' e' e); try lra; auto.
Qed.

(* timecodes_monotone: the times written are non-negative and non-decreasing *)
Theorem emitted_times_monotone : forall codes, spaced 0 codes -> chain 0 (emitted (pass2 [] codes)).
Proof.
  intros [|[[c s] e] t] S; [exact I|]. rewrite pass2_lookahead.
  destruct S as (S1 & S2 & S3 & S4).
  pose proof (code_words_nonneg c) as W. pose proof mpc_pos as M.
  assert (PW : 0 <= code_words c * mpc) by (apply Qmult_le_0_compat; lra).
  assert (P : pre_roll c s == s - code_words c * mpc) by (apply pre_roll_exact; lra).
  apply (pass2_ahead_chain t c (pre_roll c s) s e 0); try lra; auto.
Qed.

Fixpoint chainZ (lo : Z) (l : list Z) : Prop :=
  match l with [] => True | x :: t => (lo <= x)%Z /\ chainZ x t end.

Lemma tc_frames_mono : forall a b, a <= b -> (tc_frames a <= tc_frames b)%Z.
Proof.
  intros a b H. unfold tc_frames. apply Qfloor_resp_le. apply Qmult_le_compat_r; [exact H|]. discriminate.
Qed.
Lemma chain_frames : forall l lo, chain lo l -> chainZ (tc_frames lo) (map tc_frames l).
Proof.
  induction l as [|x t IH]; intros lo H; [exact I|]. destruct H as [H1 H2].
  split; [apply tc_frames_mono; exact H1|apply IH; exact H2].
Qed.

Theorem timecodes_monotone : forall codes, spaced 0 codes ->
  chainZ 0 (map tc_frames (emitted (pass2 [] codes))).
Proof. intros codes S. apply (chain_frames _ 0). apply emitted_times_monotone. exact S. Qed.

(* ---- displayed within three frames ---------------------------------------------------------------
   The load line starts at frame F = tc_frames(advanced start) and carries 4 + n + 4 words; the first
   End-Of-Caption is word number n + 6, so the caption is displayed at frame F + n + 6. *)
Theorem visible_within_3_frames : forall code start,
  0 <= start - code_words code * mpc ->
  let n := (Z.of_nat (length code) / 5)%Z in
  let shown := inject_Z (tc_frames (pre_roll code start) + (n + 6)) * mpc in
  start - 3 * mpc < shown /\ shown <= start - 2 * mpc.
Proof.
  intros code start H n shown.
  pose proof (pre_roll_exact code start H) as P.
  set (cs := pre_roll code start) in *.
  assert (W : code_words code == inject_Z n + 8).
  { unfold code_words. fold n. rewrite inject_Z_plus. reflexivity. }
  unfold shown, tc_frames. rewrite inject_Z_plus, inject_Z_plus.
  set (x := cs * (30 # 1001000)).
  pose proof (Qfloor_le x) as F1. pose proof (Qlt_floor x) as F2. rewrite inject_Z_plus in F2.
  set (f := inject_Z (Qfloor x)) in *.
  assert (X : x * mpc == cs) by (unfold x, mpc; field).
  change (inject_Z 6) with 6. change (inject_Z 1) with 1 in F2.
  assert (M : mpc == 1001000 # 30) by reflexivity.
  rewrite W in P. rewrite M in *. split; nra.
Qed.

(* ---- the timecode text -------------------------------------------------------------------------- *)
Lemma two_two_digits : forallb (fun z => match two_digits (two z) with Some v => (v =? z)%Z | None => false end)
                               (map Z.of_nat (seq 0 100)) = true.
Proof. vm_compute. reflexivity. Qed.
Lemma two_spec : forall z, (0 <= z < 100)%Z -> two_digits (two z) = Some z.
Proof.
  intros z H. pose proof two_two_digits as T. rewrite forallb_forall in T.
  assert (C : In z (map Z.of_nat (seq 0 100))).
  { apply in_map_iff. exists (Z.to_nat z). split; [lia|]. apply in_seq. lia. }
  specialize (T z C). destruct (two_digits (two z)); [f_equal; lia|discriminate].
Qed.
Lemma two_no_colon : forall z, (0 <= z)%Z -> forallb (fun c => negb (c =? 58)%Z) (two z) = true.
Proof.
  intros z H. unfold two. assert (E : (z <? 0)%Z = false) by lia. rewrite E.
  destruct (dec_nonneg_spec z H) as (D1 & _ & _). destruct (zpad_spec 2 _ D1) as (Z1 & _).
  rewrite forallb_forall in *. intros c Hc. specialize (Z1 c Hc). unfold is_digit in Z1. lia.
Qed.

Theorem timecode_roundtrip : forall f, (0 <= f)%Z -> parse_timecode (format_frames f) = Some f.
Proof.
  intros f H. unfold parse_timecode, format_frames.
  set (h := (f / 108000)%Z). set (m := ((f / 1800) mod 60)%Z). set (s := ((f / 30) mod 60)%Z). set (r := (f mod 30)%Z).
  assert (Hh : (0 <= h)%Z) by (apply Z.div_pos; lia).
  assert (Hm : (0 <= m < 60)%Z) by (apply Z.mod_pos_bound; lia).
  assert (Hs : (0 <= s < 60)%Z) by (apply Z.mod_pos_bound; lia).
  assert (Hr : (0 <= r < 30)%Z) by (apply Z.mod_pos_bound; lia).
  assert (S : split_ch 58 (two h ++ [58%Z] ++ two m ++ [58%Z] ++ two s ++ [58%Z] ++ two r)
              = [two h; two m; two s; two r]).
  { cbn [app]. rewrite !split_ch_app_sep.
    rewrite !split_ch_nosep by (apply two_no_colon; lia). reflexivity. }
  rewrite S. clear S.
  assert (E : (h <? 0)%Z = false) by lia.
  destruct (dec_nonneg_spec h Hh) as (D1 & D2 & D3). destruct (zpad_spec 2 _ D1) as (Z1 & Z2 & Z3 & Z4).
  assert (L : (2 <=? length (two h))%nat = true) by (unfold two; rewrite E; apply Nat.leb_le; exact Z3).
  rewrite L.
  assert (I : int_of_digits (two h) = Some h).
  { unfold two. rewrite E. rewrite int_of_digits_spec; [rewrite Z2, D2; reflexivity| |exact Z1].
    intros C. rewrite C in Z3. simpl in Z3. lia. }
  rewrite I, !two_spec by lia.
  assert (B : (m <? 60)%Z && (s <? 60)%Z && (r <? 30)%Z = true) by lia. rewrite B.
  f_equal. unfold h, m, s, r.
  pose proof (Z.div_mod f 30). pose proof (Z.div_mod (f / 30) 60). pose proof (Z.div_mod (f / 1800) 60).
  replace (f / 1800)%Z with (f / 30 / 60)%Z in * by (rewrite Z.div_div; lia).
  replace (f / 108000)%Z with (f / 30 / 60 / 60)%Z by (rewrite !Z.div_div; lia).
  lia.
Qed.

Theorem timestamp_roundtrip : forall t, 0 <= t -> parse_timecode (format_timestamp t) = Some (tc_frames t).
Proof.
  intros t H. apply timecode_roundtrip. change 0%Z with (tc_frames 0). apply tc_frames_mono. exact H.
Qed.
