(* C18, heap level: as_percentage_of / fit_to_screen only allocate.  No location of the store they start in is assigned
   (so no object reachable from the receiver - or from anything else - changes), the receiver's snapshot is unchanged,
   and a result that is not the receiver itself is a newly allocated object. *)
From Coq Require Import List ZArith QArith Bool Lia.
From PV Require Import lib.Sx lib.Str lib.Result.
From PV Require Import model.Geometry model.Store model.GeomStore proofs.StoreFacts proofs.GeomEq.
Import ListNotations.
Open Scope Z_scope.

Definition extends {A} (m : SM A) : Prop := forall st st' a, m st = Ok (st', a) -> exists ext, st' = st ++ ext.

Lemma ext_ret : forall A (a : A), extends (ret a).
Proof. intros A a st st' b H. inversion H; subst. exists []. symmetry. apply app_nil_r. Qed.
Lemma ext_fail : forall A e, extends (@fail A e).
Proof. intros A e st st' b H. discriminate H. Qed.
Lemma ext_lift : forall A (r : result A), extends (lift r).
Proof. intros A [a|e] st st' b H; [|discriminate H]. inversion H; subst. exists []. symmetry. apply app_nil_r. Qed.
Lemma ext_rd : forall v k, extends (rd v k).
Proof. intros v k st st' b H. inversion H; subst. exists []. symmetry. apply app_nil_r. Qed.
Lemma ext_new : forall k its, extends (new k its).
Proof. intros k its st st' b H. unfold new, new_obj, alloc in H. inversion H; subst. eexists. reflexivity. Qed.
Lemma ext_rd_size : forall v, extends (rd_size v).
Proof.
  intros v st st' b H. unfold rd_size in H. destruct (dec_size st v); [|discriminate H].
  inversion H; subst. exists []. symmetry. apply app_nil_r.
Qed.
Lemma ext_bnd : forall A B (m : SM A) (f : A -> SM B), extends m -> (forall a, extends (f a)) -> extends (bnd m f).
Proof.
  intros A B m f Hm Hf st st' b H. unfold bnd in H. destruct (m st) as [[st1 a]|e] eqn:E; [|discriminate H].
  destruct (Hm _ _ _ E) as [e1 ->]. destruct (Hf a _ _ _ H) as [e2 ->]. exists (e1 ++ e2). symmetry. apply app_assoc.
Qed.

Ltac ext_step :=
  first [ apply ext_ret | apply ext_fail | apply ext_lift | apply ext_rd | apply ext_new | apply ext_rd_size
        | (apply ext_bnd; [|intros ?])
        | match goal with |- extends (if ?x then _ else _) => destruct x end ].

Lemma ext_new_size : forall a, extends (new_size a).
Proof. intros a. apply ext_new. Qed.
Lemma ext_size_pct : forall v w h, extends (size_pct_s v w h).
Proof. intros. unfold size_pct_s. repeat first [apply ext_new_size | ext_step]. Qed.
Lemma ext_point_pct : forall v w h, extends (point_pct_s v w h).
Proof. intros. unfold point_pct_s. repeat first [apply ext_size_pct | ext_step]. Qed.
Lemma ext_stretch_pct : forall v w h, extends (stretch_pct_s v w h).
Proof. intros. unfold stretch_pct_s. repeat first [apply ext_size_pct | ext_step]. Qed.
Lemma ext_padding_pct : forall v w h, extends (padding_pct_s v w h).
Proof. intros. unfold padding_pct_s. repeat first [apply ext_size_pct | ext_step]. Qed.
Lemma ext_opt_s : forall f v, (forall x, extends (f x)) -> extends (opt_s f v).
Proof. intros f v H. unfold opt_s. destruct (is_none v); [apply ext_ret|apply H]. Qed.
Lemma ext_layout_pct : forall v w h, extends (layout_pct_s v w h).
Proof.
  intros. unfold layout_pct_s.
  repeat first [ apply ext_opt_s; intros ? | apply ext_point_pct | apply ext_stretch_pct | apply ext_padding_pct | ext_step ].
Qed.
Lemma ext_layout_fit : forall v, extends (layout_fit_s v).
Proof. intros. unfold layout_fit_s. repeat first [apply ext_new_size | ext_step]. Qed.

(* ---- what "only allocates" gives ------------------------------------------------------------------------------ *)
Theorem extends_untouched : forall A (m : SM A), extends m -> forall st st' a, m st = Ok (st', a) ->
  forall l, (l < length st)%nat -> get st' l = get st l.
Proof. intros A m Hm st st' a H l Hl. destruct (Hm _ _ _ H) as [ext ->]. apply get_app_l. exact Hl. Qed.

Theorem extends_snapshot : forall A (m : SM A), extends m -> forall st st' a, m st = Ok (st', a) ->
  wf st -> forall fuel v, below (length st) v -> snap fuel st' v = snap fuel st v.
Proof.
  intros A m Hm st st' a H Hwf fuel v Hv. apply snap_agree; [exact Hwf| |exact Hv].
  intros l Hl. eapply extends_untouched; eassumption.
Qed.

(* ---- a result that is built is a new object --------------------------------------------------------------------- *)
Definition fresh (m : SM val) : Prop := forall st st' a, m st = Ok (st', a) -> exists l, a = VLoc l /\ (length st <= l)%nat.

Lemma fresh_new : forall k its, fresh (new k its).
Proof. intros k its st st' a H. unfold new, new_obj, alloc in H. inversion H; subst. eexists. split; [reflexivity|lia]. Qed.
Lemma fresh_bnd : forall A (m : SM A) (f : A -> SM val), extends m -> (forall a, fresh (f a)) -> fresh (bnd m f).
Proof.
  intros A m f Hm Hf st st' b H. unfold bnd in H. destruct (m st) as [[st1 a]|e] eqn:E; [|discriminate H].
  destruct (Hm _ _ _ E) as [e1 ->]. destruct (Hf a _ _ _ H) as (l & -> & Hl). exists l. split; [reflexivity|].
  rewrite app_length in Hl. lia.
Qed.
Lemma fresh_fail : forall e, fresh (fail e).
Proof. intros e st st' a H. discriminate H. Qed.

Ltac fresh_step :=
  first [ apply fresh_new | apply fresh_fail
        | (apply fresh_bnd; [ repeat first [ apply ext_opt_s; intros ? | apply ext_point_pct | apply ext_stretch_pct
                                            | apply ext_padding_pct | apply ext_size_pct | apply ext_new_size | ext_step ]
                            | intros ? ]) ].

Lemma fresh_point_pct : forall v w h, fresh (point_pct_s v w h).
Proof. intros. unfold point_pct_s. repeat fresh_step. Qed.
Lemma fresh_stretch_pct : forall v w h, fresh (stretch_pct_s v w h).
Proof. intros. unfold stretch_pct_s. repeat fresh_step. Qed.
Lemma fresh_padding_pct : forall v w h, fresh (padding_pct_s v w h).
Proof. intros. unfold padding_pct_s. repeat fresh_step. Qed.
Lemma fresh_layout_pct : forall v w h, fresh (layout_pct_s v w h).
Proof. intros. unfold layout_pct_s. repeat fresh_step. Qed.

(* Size.as_percentage_of: the receiver itself (a percentage), or a new Size *)
Theorem size_pct_self_or_new : forall v w h st st' r, size_pct_s v w h st = Ok (st', r) ->
  (r = v /\ st' = st) \/ (exists l, r = VLoc l /\ (length st <= l)%nat).
Proof.
  intros v w h st st' r H. unfold size_pct_s, bnd in H.
  destruct (rd_size v st) as [[st1 a]|e] eqn:E; [|discriminate H].
  unfold rd_size in E. destruct (dec_size st v); [|discriminate E]. inversion E; subst st1 s.
  destruct (unit_eqb (s_unit a) PCT).
  - left. inversion H; subst. split; reflexivity.
  - right. unfold lift in H. destruct (size_as_pct a w h) as [q|e]; [|discriminate H].
    exact (fresh_new _ _ _ _ _ H).
Qed.

(* Layout.fit_to_screen: the receiver itself (no origin), or a new Layout *)
Theorem layout_fit_self_or_new : forall v st st' r, layout_fit_s v st = Ok (st', r) ->
  (r = v /\ st' = st) \/ (exists l, r = VLoc l /\ (length st <= l)%nat).
Proof.
  intros v st st' r H. unfold layout_fit_s in H. unfold bnd at 1 in H. cbn [rd] in H.
  destruct (is_none (field st v (VInt 1))).
  - left. inversion H; subst. split; reflexivity.
  - right. revert H. generalize (field st v (VInt 1)). intros o H.
    assert (F : fresh (fun st0 => (
      run ox <~ rd o 1; run sx_ <~ rd_size ox; run oy <~ rd o 2; run sy_ <~ rd_size oy;
      run dh <~ new_size (mkSize (Qred (clamp0 (90 - s_val sx_))%Q) PCT);
      run dv <~ new_size (mkSize (Qred (clamp0 (95 - s_val sy_))%Q) PCT);
      run e <~ rd v 2;
      run ne <~ (if is_none e then new KStretch [(VInt 1, dh); (VInt 2, dv)]
         else
           run eh <~ rd e 1; run seh <~ rd_size eh; run ev <~ rd e 2; run sev <~ rd_size ev;
           run brx <~ lift (size_add sx_ seh); run bx <~ new_size brx;
           run bry <~ lift (size_add sy_ sev); run by_ <~ new_size bry;
           run _ <~ new KPoint [(VInt 1, bx); (VInt 2, by_)];
           if negb (unit_eqb (s_unit brx) PCT) then fail ValueError else
           new KStretch [(VInt 1, if Qle_bool (s_val brx) 90%Q then eh else dh);
                         (VInt 2, if Qle_bool (s_val bry) 95%Q then ev else dv)]);
      run p <~ rd v 3; run al <~ rd v 4;
      new KGLayout [(VInt 1, o); (VInt 2, ne); (VInt 3, p); (VInt 4, al); (VInt 5, VNone)]) st0)).
    { repeat fresh_step. }
    exact (F _ _ _ H).
Qed.

(* ---- the statements of props/C18.v ---------------------------------------------------------------------------- *)
Theorem geom_ops_allocate_only : forall w h v,
  extends (size_pct_s v w h) /\ extends (point_pct_s v w h) /\ extends (stretch_pct_s v w h)
  /\ extends (padding_pct_s v w h) /\ extends (layout_pct_s v w h) /\ extends (layout_fit_s v).
Proof.
  intros w h v. repeat split;
  [apply ext_size_pct|apply ext_point_pct|apply ext_stretch_pct|apply ext_padding_pct|apply ext_layout_pct|apply ext_layout_fit].
Qed.

Theorem receiver_snapshot_unchanged : forall v w h st st' r fuel x,
  (layout_pct_s v w h st = Ok (st', r) \/ layout_fit_s v st = Ok (st', r)) ->
  wf st -> below (length st) x -> snap fuel st' x = snap fuel st x.
Proof.
  intros v w h st st' r fuel x [H|H] Hwf Hx.
  - exact (extends_snapshot _ _ (ext_layout_pct v w h) _ _ _ H Hwf fuel x Hx).
  - exact (extends_snapshot _ _ (ext_layout_fit v) _ _ _ H Hwf fuel x Hx).
Qed.

Theorem as_percentage_new_object : forall v w h,
  fresh (point_pct_s v w h) /\ fresh (stretch_pct_s v w h) /\ fresh (padding_pct_s v w h) /\ fresh (layout_pct_s v w h).
Proof.
  intros. repeat split; [apply fresh_point_pct|apply fresh_stretch_pct|apply fresh_padding_pct|apply fresh_layout_pct].
Qed.

(* ---- the value of the result, Size level: the heap operation computes Size.as_percentage_of of the decoded receiver ---- *)
Lemma dec_new_size : forall st a, dec_size (st ++ [mkObj KSize (size_cells a)]) (VLoc (length st)) = Some a.
Proof.
  intros st a. unfold dec_size, field, items_of. rewrite get_app_new. cbn [o_items size_cells assoc val_eqb Z.eqb Pos.eqb].
  assert (U : unit_of (ucode (s_unit a)) = Some (s_unit a)) by (destruct (s_unit a); reflexivity).
  rewrite U. destruct a as [[n d] u]. reflexivity.
Qed.

Theorem size_pct_value : forall v w h st a, dec_size st v = Some a ->
  match size_pct_s v w h st, size_as_pct a w h with
  | Ok (st', r), Ok a' => dec_size st' r = Some a'
  | Err e, Err e' => e = e'
  | _, _ => False
  end.
Proof.
  intros v w h st a D. unfold size_pct_s, bnd, rd_size. rewrite D.
  destruct (unit_eqb (s_unit a) PCT) eqn:U.
  - apply unit_eqb_eq in U. unfold size_as_pct. rewrite U. cbn [ret]. exact D.
  - unfold lift. destruct (size_as_pct a w h) as [q|e]; [|reflexivity].
    unfold new_size, new, new_obj, alloc. apply dec_new_size.
Qed.
