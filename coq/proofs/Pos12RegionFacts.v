(* C12 (wave 7): RegionCreator's bookkeeping: the keys of the region table are pairwise different layouts, the ids are
   r0, r1, ... without gaps, equal layouts share a region and different layouts never do. *)
From Coq Require Import List ZArith QArith Qabs Bool Lia.
From PV Require Import lib.Sx lib.Str lib.Result model.Geometry model.Positioning model.DfxpTree spec.SpecGeom spec.SpecPos.
From PV Require Import proofs.GeomStr proofs.GeomEq proofs.GeomPrint proofs.GeomFacts proofs.PosFacts proofs.Pos12Facts.
From PV Require Import proofs.DfxpTreeFacts.
From PV Require Export spec.SpecPos12Regions.
Import ListNotations.
Open Scope Z_scope.

(* pairwise different under Layout.__eq__ *)
Fixpoint ldistinct (s : list layout) : Prop :=
  match s with
  | [] => True
  | k :: t => (forall x, In x t -> layout_eqb k x = false) /\ ldistinct t
  end.

Lemma ldistinct_snoc : forall s l, ldistinct s -> (forall x, In x s -> layout_eqb x l = false) -> ldistinct (s ++ [l]).
Proof.
  induction s as [|k t IH]; intros l D F; cbn [app ldistinct] in *.
  - split; [intros x []|exact I].
  - destruct D as [D1 D2]. split.
    + intros x Hx. apply in_app_or in Hx. destruct Hx as [Hx|[<-|[]]]; [apply D1; exact Hx|apply F; left; reflexivity].
    + apply IH; [exact D2|intros x Hx; apply F; right; exact Hx].
Qed.

Lemma oset_mem_false : forall l s, oset_mem l s = false -> forall x, In x s -> layout_eqb x l = false.
Proof.
  intros l s H x Hx. destruct (layout_eqb x l) eqn:E; [|reflexivity].
  assert (K : oset_mem l s = true) by (unfold oset_mem; apply existsb_exists; exists x; split; assumption).
  congruence.
Qed.

Lemma oset_add_distinct : forall s l, ldistinct s -> ldistinct (oset_add s l).
Proof.
  intros s l D. unfold oset_add. destruct (oset_mem l s) eqn:E; [exact D|].
  apply ldistinct_snoc; [exact D|apply oset_mem_false; exact E].
Qed.

Lemma collect_fold_distinct : forall ls s, ldistinct s ->
  ldistinct (fold_left (fun s o => match o with Some l => oset_add s l | None => s end) ls s).
Proof.
  induction ls as [|o ls IH]; intros s D; [exact D|]. cbn [fold_left]. apply IH.
  destruct o; [apply oset_add_distinct|]; exact D.
Qed.

Lemma discard_in : forall d s x, In x (oset_discard d s) -> In x s.
Proof.
  induction s as [|k t IH]; intros x H; [destruct H|]. cbn [oset_discard] in H.
  destruct (layout_eqb k d); [right; exact H|]. destruct H as [H|H]; [left; exact H|right; apply IH; exact H].
Qed.

Lemma discard_distinct : forall d s, ldistinct s -> ldistinct (oset_discard d s).
Proof.
  induction s as [|k t IH]; intros D; [exact I|]. cbn [oset_discard]. destruct D as [D1 D2].
  destruct (layout_eqb k d); [exact D2|]. cbn [ldistinct]. split; [|apply IH; exact D2].
  intros x Hx. apply D1. eapply discard_in. exact Hx.
Qed.

(* after discard(d) no member equals d: the members are pairwise different, so at most one did *)
Lemma discard_none_eq : forall d s, ldistinct s -> forall x, In x (oset_discard d s) -> layout_eqb x d = false.
Proof.
  induction s as [|k t IH]; intros D x Hx; [destruct Hx|]. cbn [oset_discard] in Hx. destruct D as [D1 D2].
  destruct (layout_eqb k d) eqn:E.
  - destruct (layout_eqb x d) eqn:E2; [|reflexivity]. exfalso.
    assert (K : layout_eqb k x = true).
    { eapply layout_eqb_trans; [exact E|]. rewrite layout_eqb_sym. exact E2. }
    rewrite (D1 x Hx) in K. discriminate.
  - destruct Hx as [<-|Hx]; [exact E|]. apply IH; assumption.
Qed.

Lemma filter_distinct : forall (p : layout -> bool) s, ldistinct s -> ldistinct (filter p s).
Proof.
  induction s as [|k t IH]; intros D; [exact I|]. destruct D as [D1 D2]. cbn [filter].
  destruct (p k); [|apply IH; exact D2]. cbn [ldistinct]. split; [|apply IH; exact D2].
  intros x Hx. apply filter_In in Hx. apply D1. exact (proj1 Hx).
Qed.

Lemma collect_distinct : forall ls, ldistinct (collect_regions ls).
Proof. intros ls. unfold collect_regions. apply discard_distinct. apply collect_fold_distinct. exact I. Qed.

(* ---- _create_unique_regions: keys and ids ----------------------------------------------------------------------- *)
Lemma number_regions_keys : forall s seed, map fst (number_regions s seed) = filter has_region s.
Proof.
  induction s as [|k t IH]; intros seed; [reflexivity|]. cbn [number_regions filter].
  destruct (has_region k); [cbn [map fst]; rewrite IH; reflexivity|apply IH].
Qed.

Lemma number_regions_ids : forall s seed,
  map snd (number_regions s seed)
  = map (fun n => RId (seed + Z.of_nat n)) (seq 0 (length (filter has_region s))).
Proof.
  induction s as [|k t IH]; intros seed; [reflexivity|]. cbn [number_regions filter].
  destruct (has_region k); [|apply IH]. cbn [map snd length seq]. f_equal; [f_equal; lia|].
  rewrite IH, <- seq_shift, map_map. apply map_ext. intros n. f_equal. lia.
Qed.

(* created_keys (statement-level definition): spec/SpecPos12Regions.v *)

Theorem region_map_keys : forall ls, map fst (region_map ls) = created_keys ls ++ [dfxp_default_region].
Proof. intros ls. unfold region_map. rewrite map_app, number_regions_keys. reflexivity. Qed.

(* ids r0, r1, ..., r(n-1) in creation order, no gap, no repetition; then the default region *)
Theorem region_map_ids : forall ls,
  map snd (region_map ls) = map (fun n => RId (Z.of_nat n)) (seq 0 (length (created_keys ls))) ++ [RDefault].
Proof. intros ls. unfold region_map. rewrite map_app, number_regions_ids. reflexivity. Qed.

(* no two regions of the table are made from equal layouts (the default region included) *)
Theorem region_map_keys_distinct : forall ls, ldistinct (map fst (region_map ls)).
Proof.
  intros ls. rewrite region_map_keys. apply ldistinct_snoc.
  - apply filter_distinct. apply collect_distinct.
  - intros x Hx. unfold created_keys in Hx. apply filter_In in Hx. destruct Hx as [Hx _].
    unfold collect_regions in Hx. eapply discard_none_eq; [|exact Hx]. apply collect_fold_distinct. exact I.
Qed.

(* every created region comes from a layout that occurs in the caption set *)
Lemma oset_add_in : forall s l x, In x (oset_add s l) -> In x s \/ x = l.
Proof.
  intros s l x H. unfold oset_add in H. destruct (oset_mem l s); [left; exact H|].
  apply in_app_or in H. destruct H as [H|[<-|[]]]; [left; exact H|right; reflexivity].
Qed.

Lemma collect_fold_in : forall ls s x,
  In x (fold_left (fun s o => match o with Some l => oset_add s l | None => s end) ls s) -> In x s \/ In (Some x) ls.
Proof.
  induction ls as [|o ls IH]; intros s x H; [left; exact H|]. cbn [fold_left] in H. apply IH in H.
  destruct H as [H|H]; [|right; right; exact H]. destruct o as [l|]; [|left; exact H].
  apply oset_add_in in H. destruct H as [H| ->]; [left; exact H|right; left; reflexivity].
Qed.

Theorem created_keys_occur : forall ls k, In k (created_keys ls) ->
  In (Some k) ls /\ has_region k = true /\ layout_eqb k dfxp_default_region = false.
Proof.
  intros ls k H. unfold created_keys in H. apply filter_In in H. destruct H as [H R].
  split; [|split; [exact R|]].
  - unfold collect_regions in H. apply discard_in in H. apply collect_fold_in in H. destruct H as [[]|H]. exact H.
  - unfold collect_regions in H. eapply discard_none_eq; [|exact H]. apply collect_fold_distinct. exact I.
Qed.

(* ---- lookup -------------------------------------------------------------------------------------------------------- *)
Lemma layout_eqb_congr : forall a b, layout_eqb a b = true -> forall k, layout_eqb k a = layout_eqb k b.
Proof.
  intros a b H k. destruct (layout_eqb k a) eqn:E1, (layout_eqb k b) eqn:E2; try reflexivity; exfalso.
  - rewrite (layout_eqb_trans _ _ _ E1 H) in E2. discriminate.
  - rewrite layout_eqb_sym in H. rewrite (layout_eqb_trans _ _ _ E2 H) in E1. discriminate.
Qed.

Lemma find_ext' : forall {A} (f g : A -> bool) l, (forall x, f x = g x) -> List.find f l = List.find g l.
Proof.
  intros A f g l H. induction l as [|x l IH]; [reflexivity|]. cbn [List.find]. rewrite H, IH. reflexivity.
Qed.

(* equal layouts get the same region, in ANY table (dict.get with coherent eq / hash) *)
Theorem region_lookup_compat : forall m a b, layout_eqb a b = true -> region_lookup m (Some a) = region_lookup m (Some b).
Proof.
  intros m a b H. unfold region_lookup.
  rewrite (find_ext' (fun kv => layout_eqb (fst kv) a) (fun kv => layout_eqb (fst kv) b)); [reflexivity|].
  intros kv. apply layout_eqb_congr. exact H.
Qed.

(* a layout that occurs and needs a region finds the entry made from an equal layout (the default region's included) *)
Lemma region_lookup_found : forall ls a, In (Some a) ls -> has_region a = true ->
  exists k id, In (k, id) (region_map ls) /\ layout_eqb k a = true /\ region_lookup (region_map ls) (Some a) = id.
Proof.
  intros ls a Hin R. unfold region_lookup.
  destruct (List.find (fun kv => layout_eqb (fst kv) a) (region_map ls)) as [[k id]|] eqn:F.
  - apply find_some in F. destruct F as [I1 E1]. exists k, id. split; [exact I1|split; [exact E1|reflexivity]].
  - exfalso. destruct (layout_eqb a dfxp_default_region) eqn:D.
    + pose proof (find_none _ _ F _ (region_map_default ls)) as K. cbn [fst] in K. rewrite layout_eqb_sym in K. congruence.
    + destruct (region_lookup_total ls a Hin R D) as (k & id & _ & _ & L). unfold region_lookup in L. rewrite F in L. discriminate.
Qed.

(* layouts of the caption set that need a region share one EXACTLY when they are equal *)
Theorem region_shared_iff_equal : forall ls a b, In (Some a) ls -> In (Some b) ls -> has_region a = true -> has_region b = true ->
  (region_lookup (region_map ls) (Some a) = region_lookup (region_map ls) (Some b) <-> layout_eqb a b = true).
Proof.
  intros ls a b Ha Hb Ra Rb. split; [|apply region_lookup_compat].
  intros E. destruct (region_lookup_found ls a Ha Ra) as (ka & ia & Ia & Ea & La).
  destruct (region_lookup_found ls b Hb Rb) as (kb & ib & Ib & Eb & Lb).
  rewrite La, Lb in E. subst ib. pose proof (region_map_ids_unique ls _ _ _ Ia Ib) as K. subst kb.
  eapply layout_eqb_trans; [|exact Eb]. rewrite layout_eqb_sym. exact Ea.
Qed.

(* whatever is looked up, the id returned names a region of the table *)
Theorem region_lookup_defined : forall ls o, exists k, In (k, region_lookup (region_map ls) o) (region_map ls).
Proof.
  intros ls [a|]; cbn [region_lookup]; [|exists dfxp_default_region; apply region_map_default].
  destruct (List.find (fun kv => layout_eqb (fst kv) a) (region_map ls)) as [[k id]|] eqn:F.
  - apply find_some in F. exists k. exact (proj1 F).
  - exists dfxp_default_region. apply region_map_default.
Qed.
