(* C16: the event-level roll-up / paint-on timing model (model/SccRollPaint.v), run on any sequence of events with
   positive instants (the first mode command may be at instant 0: `rp_nonneg`), yields the chain through the event
   instants: each caption ends exactly when the next begins (`rp_chain_all_nonneg`).
   The only caption that does not end at an event instant is the last one when it never received an end: a paint-on
   caption stored by the last event (`ends_in_paint`) or still open at the end of the file (`pending`) lasts 4 s.
   When the instants increase, the captions are ordered by start and every caption has start < end
   (`rp_chain_ordered`); without that the chain may run backwards (`rp_chain_unordered_backwards`). *)
From Coq Require Import List ZArith QArith Lia Bool ZifyBool Lqa.
From PV Require Import lib.Sx lib.Str lib.Result model.SccLen model.SccStash model.SccPopon model.SccRollPaint
  spec.SpecSccLen spec.SpecSccTime proofs.SccLenFacts proofs.SccStashFacts proofs.SccPoponFacts.
Import ListNotations.
Local Open Scope Q_scope.
Local Arguments stash_extend : simpl never.

Definition rp_positive (t0 : Q) (evs : list rpev) : Prop := (0 < t0)%Q /\ forall e, In e evs -> (0 < rp_time e)%Q.
(* the first mode command may be sent at instant 0: the first caption then starts at 0 and its end is set by the first
   event; the "not ended yet" sentinel is `end == 0`, never `start == 0` *)
Definition rp_nonneg (t0 : Q) (evs : list rpev) : Prop := (0 <= t0)%Q /\ forall e, In e evs -> (0 < rp_time e)%Q.

Lemma rp_positive_nonneg : forall t0 evs, rp_positive t0 evs -> rp_nonneg t0 evs.
Proof. intros t0 evs [Ht Hp]. split; [apply Qlt_le_weak; exact Ht|exact Hp]. Qed.

(* strictly increasing instants, starting above t *)
Fixpoint increasing (t : Q) (ts : list Q) : Prop :=
  match ts with [] => True | x :: r => (t < x)%Q /\ increasing x r end.
Definition ends_in_paint (evs : list rpev) : bool :=
  match last (map Some evs) None with Some (RPaint _) => true | _ => false end.

(* expected spans: the chain through the event instants; a paint-on buffer still open at the end lasts 4 s *)
Definition rp_expected (t0 : Q) (evs : list rpev) (pending : bool) : result (list (Q * Q)) :=
  let ts := map rp_time evs in
  let l := chain t0 ts ++ (if pending then [(last ts t0, (last ts t0 + four_s)%Q)] else []) in
  if existsb flash l then Err ETiming else match l with [] => Err ENoCaptions | _ => Ok l end.

(* the general expectation, for ALL event lists: when nothing is pending and the last event is an RPaint, the caption
   stored by that event is never given an end (the end would have been set by the next store) and gets the 4 s
   default instead of the instant of the event *)
Fixpoint open_last (l : list (Q * Q)) : list (Q * Q) :=
  match l with
  | [] => []
  | [p] => [(fst p, fst p + four_s)]
  | p :: t => p :: open_last t
  end.

Definition rp_spans (t0 : Q) (evs : list rpev) (pending : bool) : list (Q * Q) :=
  let ts := map rp_time evs in
  if pending then chain t0 ts ++ [(last ts t0, last ts t0 + four_s)]
  else if ends_in_paint evs then open_last (chain t0 ts) else chain t0 ts.

Definition rp_expected_all (t0 : Q) (evs : list rpev) (pending : bool) : result (list (Q * Q)) :=
  let l := rp_spans t0 evs pending in
  if existsb flash l then Err ETiming else match l with [] => Err ENoCaptions | _ => Ok l end.

(* ---- small list facts --------------------------------------------------------------------------- *)
Lemma open_last_snoc : forall l s e, open_last (l ++ [(s, e)]) = l ++ [(s, s + four_s)].
Proof.
  induction l as [|p l IH]; intros s e; [reflexivity|].
  change ((p :: l) ++ [(s, e)]) with (p :: (l ++ [(s, e)])).
  assert (E : open_last (p :: (l ++ [(s, e)])) = p :: open_last (l ++ [(s, e)])).
  { destruct l; reflexivity. }
  rewrite E, IH. reflexivity.
Qed.

Lemma last_cons : forall A (x : A) l d, last (x :: l) d = last l x.
Proof.
  intros A x l. revert x. induction l as [|y l IH]; intros x d; [reflexivity|].
  change (last (x :: y :: l) d) with (last (y :: l) d). rewrite (IH y d), (IH y x). reflexivity.
Qed.

Lemma chain_snoc : forall ts t0 x, chain t0 (ts ++ [x]) = chain t0 ts ++ [(last ts t0, x)].
Proof.
  induction ts as [|t ts IH]; intros t0 x; [reflexivity|].
  cbn [app chain]. rewrite IH, last_cons. reflexivity.
Qed.

Lemma last_snoc : forall A (l : list A) x d, last (l ++ [x]) d = x.
Proof.
  intros A l x d. induction l as [|a l IH]; [reflexivity|].
  cbn [app]. destruct (l ++ [x]) eqn:E; [destruct l; discriminate|]. exact IH.
Qed.

Lemma ends_in_paint_snoc : forall evs x, ends_in_paint (evs ++ [RPaint x]) = true.
Proof. intros evs x. unfold ends_in_paint. rewrite map_app. cbn [map]. rewrite last_snoc. reflexivity. Qed.

Lemma ends_in_paint_cons : forall e e' r, ends_in_paint (e :: e' :: r) = ends_in_paint (e' :: r).
Proof. reflexivity. Qed.

(* ---- (A) what the stash holds after a run of events ----------------------------------------------- *)
(* time: the instant of the previous event. A caption stored by RPaint keeps the sentinel end 0 until the next store *)
Fixpoint held (time : Q) (evs : list rpev) : list (Q * Q) :=
  match evs with
  | [] => []
  | e :: r => (time, match e, r with RPaint _, [] => 0 | _, _ => rp_time e end) :: held (rp_time e) r
  end.

Lemma join_threshold_pos : 0 < join_threshold.
Proof. vm_compute. reflexivity. Qed.

Lemma same_instant_joins : forall t : Q, negb (Qle_bool join_threshold (t - t)) = true.
Proof.
  intros t. apply negb_true_iff. destruct (Qle_bool join_threshold (t - t)) eqn:E; [|reflexivity].
  apply Qle_bool_iff in E. pose proof join_threshold_pos. exfalso. lra.
Qed.

(* storing a caption that starts at `time` closes the previous one at `time` when its end is still the sentinel 0 or
   is `time` itself *)
Lemma ext1_close : forall acc s e time, (e = 0 \/ e = time) ->
  ext1 (mkStash (acc ++ [cue' (s, e)]) 1) (time, 0) = mkStash ((acc ++ [cue' (s, time)]) ++ [cue' (time, 0)]) 1.
Proof.
  intros acc s e time He. rewrite ext1_snoc. cbn [fst snd].
  destruct He as [->| ->].
  - reflexivity.
  - rewrite same_instant_joins, orb_true_r. reflexivity.
Qed.

Lemma rpstep_snoc : forall acc s e time ev, (e = 0 \/ e = time) ->
  rpstep (mkStash (acc ++ [cue' (s, e)]) 1, time) ev =
  (mkStash ((acc ++ [cue' (s, time)]) ++ [cue' (time, match ev with RRoll t => t | RPaint _ => 0 end)]) 1, rp_time ev).
Proof.
  intros acc s e time ev He. destruct ev as [t|t]; cbn [rpstep rp_time].
  - change (stash_extend (mkStash (acc ++ [cue' (s, e)]) 1) [cue time 0])
      with (ext1 (mkStash (acc ++ [cue' (s, e)]) 1) (time, 0)).
    rewrite (ext1_close _ _ _ _ He). unfold correct_last_timing. cbn [st_caps st_batch].
    rewrite map_tail_1_snoc. reflexivity.
  - change (stash_extend (mkStash (acc ++ [cue' (s, e)]) 1) [cue time 0])
      with (ext1 (mkStash (acc ++ [cue' (s, e)]) 1) (time, 0)).
    rewrite (ext1_close _ _ _ _ He). reflexivity.
Qed.

Lemma fold_held : forall evs acc s e time, (e = 0 \/ e = time) ->
  fold_left rpstep evs (mkStash (acc ++ [cue' (s, e)]) 1, time) =
  (mkStash (acc ++ map cue' (match evs with [] => [(s, e)] | _ => (s, time) :: held time evs end)) 1,
   last (map rp_time evs) time).
Proof.
  induction evs as [|ev r IH]; intros acc s e time He; [reflexivity|].
  cbn [fold_left]. rewrite (rpstep_snoc _ _ _ _ _ He).
  rewrite IH by (destruct ev; [right|left]; reflexivity).
  cbn [map]. rewrite last_cons. f_equal. f_equal. rewrite <- app_assoc. f_equal.
  cbn [app map held]. f_equal.
  destruct r as [|ev' r']; [destruct ev; reflexivity|].
  destruct ev; reflexivity.
Qed.

Lemma rpstep_first : forall t0 ev,
  rpstep (stash0, t0) ev =
  (mkStash ([] ++ [cue' (t0, match ev with RRoll t => t | RPaint _ => 0 end)]) 1, rp_time ev).
Proof. intros t0 [t|t]; reflexivity. Qed.

Lemma run_held : forall evs t0,
  fold_left rpstep evs (stash0, t0) =
  (match evs with [] => stash0 | _ => mkStash (map cue' (held t0 evs)) 1 end, last (map rp_time evs) t0).
Proof.
  intros [|ev r] t0; [reflexivity|].
  cbn [fold_left]. rewrite rpstep_first.
  rewrite fold_held by (destruct ev; [right|left]; reflexivity).
  cbn [map]. rewrite last_cons. f_equal. cbn [app held]. f_equal.
  destruct r as [|ev' r']; [destruct ev; reflexivity|]. destruct ev; reflexivity.
Qed.

(* ---- (B) the held list against the chain -------------------------------------------------------- *)
Lemma held_shape : forall evs time, 0 <= time -> (forall e, In e evs -> 0 < rp_time e) ->
  (ends_in_paint evs = false /\ held time evs = chain time (map rp_time evs) /\
   Forall pos_end (chain time (map rp_time evs))) \/
  (ends_in_paint evs = true /\ exists l s e, chain time (map rp_time evs) = l ++ [(s, e)] /\
     held time evs = l ++ [(s, 0)] /\ Forall pos_end l /\ 0 <= s).
Proof.
  induction evs as [|ev r IH]; intros time Ht Hp.
  - left. repeat split. constructor.
  - assert (Hev : 0 < rp_time ev) by (apply Hp; left; reflexivity).
    assert (Hr : forall e, In e r -> 0 < rp_time e) by (intros e He; apply Hp; right; exact He).
    destruct r as [|ev' r'].
    + destruct ev as [t|t]; cbn [rp_time] in Hev.
      * left. repeat split. constructor; [exact Hev|constructor].
      * right. split; [reflexivity|]. exists [], time, t. repeat split; [constructor|exact Ht].
    + assert (Hne : ev' :: r' <> []) by discriminate.
      remember (ev' :: r') as r eqn:Er. clear Er.
      assert (Hh : held time (ev :: r) = (time, rp_time ev) :: held (rp_time ev) r)
        by (destruct r; [congruence|destruct ev; reflexivity]).
      assert (He' : ends_in_paint (ev :: r) = ends_in_paint r) by (destruct r; [congruence|reflexivity]).
      rewrite Hh, He'. cbn [map chain].
      destruct (IH (rp_time ev) (Qlt_le_weak _ _ Hev) Hr) as [[He [Hc HF]]|[He [l [s [e [Hc [Hl [HF Hs]]]]]]]].
      * left. split; [exact He|]. split.
        -- rewrite Hc. reflexivity.
        -- constructor; [exact Hev|exact HF].
      * right. split; [exact He|]. exists ((time, rp_time ev) :: l), s, e. repeat split.
        -- rewrite Hc. reflexivity.
        -- rewrite Hl. reflexivity.
        -- constructor; [exact Hev|exact HF].
        -- exact Hs.
Qed.

(* ---- (C) the tail of read() ---------------------------------------------------------------------- *)
Definition verdict (l : list (Q * Q)) : result (list (Q * Q)) :=
  if existsb flash l then Err ETiming else match l with [] => Err ENoCaptions | _ => Ok l end.

Lemma finish_ended : forall l n, Forall pos_end l ->
  spans_of (finish_read (mkStash (map cue' l) n)) = verdict l.
Proof.
  intros l n HF. unfold finish_read, verdict. cbn [st_caps]. rewrite length_check_cues, existsb_flash_cues.
  destruct (existsb flash l); [reflexivity|].
  destruct l as [|p l']; [reflexivity|].
  cbn [map]. change (cue' p :: map cue' l') with (map cue' (p :: l')). cbn [spans_of].
  rewrite fix_last_ended by (apply cues_ended; exact HF). rewrite spans_cues. reflexivity.
Qed.

Lemma pending_not_flash0 : forall s : Q, 0 <= s -> is_flash (cue s 0) = false.
Proof.
  intros s H. unfold is_flash. cbn [cue pc_start pc_end].
  assert (E : Qle_bool (0 - s) 0 = true) by (apply Qle_bool_iff; lra).
  rewrite E. reflexivity.
Qed.

Lemma finish_open : forall l s n, Forall pos_end l -> 0 <= s ->
  spans_of (finish_read (mkStash (map cue' (l ++ [(s, 0)])) n)) = verdict (l ++ [(s, s + four_s)]).
Proof.
  intros l s n HF Hs. unfold finish_read, verdict. cbn [st_caps]. rewrite length_check_cues.
  rewrite map_app, !existsb_app, existsb_flash_cues. cbn [map existsb].
  change (cue' (s, 0)) with (cue s 0). rewrite pending_not_flash0 by exact Hs. rewrite four_s_not_flash.
  destruct (existsb flash l); [reflexivity|]. cbn [orb].
  assert (E1 : forall (A : Type) (x : A) (k : list A) (R : Type) (a b : R),
                 match k ++ [x] with [] => a | _ :: _ => b end = b) by (intros A x [|y k] R a b; reflexivity).
  rewrite !E1. cbn [spans_of].
  rewrite fix_last_spec_all.
  - rewrite map_app, spans_cues. reflexivity.
  - intros c [<-|[]]. reflexivity.
  - apply cues_ended. exact HF.
Qed.

(* ---- the theorems -------------------------------------------------------------------------------- *)
Lemma rp_read_not_pending_nonneg : forall t0 evs, rp_nonneg t0 evs ->
  rp_read t0 evs false = rp_expected_all t0 evs false.
Proof.
  intros t0 evs [Ht Hp]. unfold rp_read, rprun, rp_expected_all, rp_spans. rewrite run_held.
  fold (verdict (if ends_in_paint evs then open_last (chain t0 (map rp_time evs)) else chain t0 (map rp_time evs))).
  destruct evs as [|ev r]; [reflexivity|].
  destruct (held_shape (ev :: r) t0 Ht Hp) as [[He [Hc HF]]|[He [l [s [e [Hc [Hl [HF Hs]]]]]]]]; rewrite He.
  - rewrite Hc. apply finish_ended. exact HF.
  - rewrite Hl, Hc, open_last_snoc. apply finish_open; assumption.
Qed.

Lemma rp_read_not_pending : forall t0 evs, rp_positive t0 evs ->
  rp_read t0 evs false = rp_expected_all t0 evs false.
Proof. intros t0 evs H. apply rp_read_not_pending_nonneg, rp_positive_nonneg, H. Qed.

(* a paint-on buffer still open at the end of the file is one more RPaint event (its instant is irrelevant) *)
Lemma pending_as_event : forall t0 evs x, rprun t0 evs true = rprun t0 (evs ++ [RPaint x]) false.
Proof.
  intros t0 evs x. unfold rprun. rewrite fold_left_app.
  destruct (fold_left rpstep evs (stash0, t0)) as [s time]. reflexivity.
Qed.

Lemma last_positive : forall t0 evs, rp_positive t0 evs -> 0 < last (map rp_time evs) t0.
Proof.
  intros t0 evs. revert t0. induction evs as [|e r IH]; intros t0 [Ht Hp]; [exact Ht|].
  cbn [map]. rewrite last_cons. apply IH. split.
  - apply Hp. left. reflexivity.
  - intros x Hx. apply Hp. right. exact Hx.
Qed.

(* the general theorem: every event list with positive instants; the first mode command may be at instant 0 *)
Theorem rp_chain_all_nonneg : forall t0 evs pending, rp_nonneg t0 evs ->
  rp_read t0 evs pending = rp_expected_all t0 evs pending.
Proof.
  intros t0 evs [|] H; [|apply rp_read_not_pending_nonneg; exact H].
  (* the instant of the closing pseudo-event is irrelevant: take 1 *)
  unfold rp_read. rewrite (pending_as_event t0 evs 1).
  change (rp_read t0 (evs ++ [RPaint 1]) false = rp_expected_all t0 evs true).
  rewrite rp_read_not_pending_nonneg.
  - unfold rp_expected_all, rp_spans. rewrite ends_in_paint_snoc, map_app. cbn [map rp_time].
    rewrite chain_snoc, open_last_snoc. reflexivity.
  - destruct H as [Ht Hp]. split; [exact Ht|]. intros e He. apply in_app_or in He.
    destruct He as [He|[<-|[]]]; [apply Hp; exact He|reflexivity].
Qed.

Theorem rp_chain_all : forall t0 evs pending, rp_positive t0 evs ->
  rp_read t0 evs pending = rp_expected_all t0 evs pending.
Proof. intros t0 evs pending H. apply rp_chain_all_nonneg, rp_positive_nonneg, H. Qed.

(* Leibniz equality: both sides only copy the given instants; the 4 s end is `s + inject_Z 4000000` on the model side
   and `s + four_s` on the statement side, and four_s unfolds to inject_Z 4000000. *)
Theorem rp_chain : forall t0 evs pending, rp_positive t0 evs ->
  (pending = false -> ends_in_paint evs = false) ->
  rp_read t0 evs pending = rp_expected t0 evs pending.
Proof.
  intros t0 evs pending H Hside. rewrite rp_chain_all by exact H.
  unfold rp_expected_all, rp_expected, rp_spans. destruct pending; [reflexivity|].
  rewrite (Hside eq_refl), app_nil_r. reflexivity.
Qed.

(* the side condition cannot be dropped: the caption stored by a final RPaint lasts 4 s, not until the event *)
Example rp_chain_needs_side_condition :
  rp_read 10 [RRoll 1000000; RPaint 2000000] false = Ok [(10, 1000000); (1000000, 1000000 + four_s)] /\
  rp_expected 10 [RRoll 1000000; RPaint 2000000] false = Ok [(10, 1000000); (1000000, 2000000)].
Proof. split; vm_compute; reflexivity. Qed.

(* ---- each caption ends exactly when the next one begins ----------------------------------------- *)
Lemma chain_linked : forall ts t0 tail, (tail = [] \/ exists e, tail = [(last ts t0, e)]) ->
  forall i a b, nth_error (chain t0 ts ++ tail) i = Some a -> nth_error (chain t0 ts ++ tail) (S i) = Some b ->
  snd a = fst b.
Proof.
  induction ts as [|t r IH]; intros t0 tail Htail i a b Ha Hb.
  - cbn [chain app] in *. destruct Htail as [->|[e ->]].
    + destruct i; discriminate.
    + destruct i; discriminate.
  - cbn [chain app] in Ha, Hb. rewrite last_cons in Htail. destruct i as [|i].
    + cbn [nth_error] in Ha, Hb. inversion Ha; subst a. cbn [snd].
      destruct r as [|t' r'].
      * cbn [chain app last] in *. destruct Htail as [->|[e ->]]; [discriminate|].
        inversion Hb; subst b. reflexivity.
      * cbn [chain app nth_error] in Hb. inversion Hb; subst b. reflexivity.
    + cbn [nth_error] in Ha. change (nth_error (chain t r ++ tail) (S i) = Some b) in Hb.
      exact (IH t tail Htail i a b Ha Hb).
Qed.

Corollary rp_chain_ends_meet : forall t0 evs pending l, rp_positive t0 evs ->
  (pending = false -> ends_in_paint evs = false) ->
  rp_read t0 evs pending = Ok l ->
  forall i a b, nth_error l i = Some a -> nth_error l (S i) = Some b -> snd a = fst b.
Proof.
  intros t0 evs pending l H Hside Hr. rewrite rp_chain in Hr by assumption.
  unfold rp_expected in Hr. cbv zeta in Hr.
  destruct (existsb flash _); [discriminate|].
  set (tail := if pending then [(last (map rp_time evs) t0, last (map rp_time evs) t0 + four_s)] else []) in *.
  assert (El : l = chain t0 (map rp_time evs) ++ tail).
  { destruct (chain t0 (map rp_time evs) ++ tail); [discriminate|]. inversion Hr. reflexivity. }
  subst l. apply chain_linked. unfold tail. destruct pending; [right; eexists; reflexivity|left; reflexivity].
Qed.

(* ---- ordered by start, start < end -------------------------------------------------------------- *)
Lemma four_s_pos : 0 < four_s.
Proof. reflexivity. Qed.

Lemma increasing_prefix : forall ts t x, increasing t (ts ++ [x]) -> increasing t ts.
Proof.
  induction ts as [|y r IH]; intros t x H; [exact I|].
  cbn [app increasing] in *. destruct H as [H1 H2]. split; [exact H1|exact (IH y x H2)].
Qed.

Lemma ends_in_paint_inv : forall evs, ends_in_paint evs = true -> exists evs' x, evs = evs' ++ [RPaint x].
Proof.
  induction evs as [|e r IH]; intros H; [discriminate|].
  destruct r as [|e' r'].
  - destruct e as [t|t]; [discriminate|]. exists [], t. reflexivity.
  - rewrite ends_in_paint_cons in H. destruct (IH H) as (evs' & x & E). exists (e :: evs'), x. rewrite E. reflexivity.
Qed.

(* every span list of the statement is a chain through increasing instants, possibly followed by one span that starts
   at the last instant and ends later *)
Definition later_tail (ts : list Q) (t0 : Q) (tail : list (Q * Q)) : Prop :=
  tail = [] \/ exists e, tail = [(last ts t0, e)] /\ last ts t0 < e.

Lemma rp_spans_form : forall t0 evs pending, increasing t0 (map rp_time evs) ->
  exists ts tail, rp_spans t0 evs pending = chain t0 ts ++ tail /\ increasing t0 ts /\ later_tail ts t0 tail.
Proof.
  intros t0 evs pending Hinc. unfold rp_spans. cbv zeta. destruct pending.
  - exists (map rp_time evs), [(last (map rp_time evs) t0, last (map rp_time evs) t0 + four_s)].
    split; [reflexivity|]. split; [exact Hinc|]. right. eexists. split; [reflexivity|].
    pose proof four_s_pos. lra.
  - destruct (ends_in_paint evs) eqn:E.
    + destruct (ends_in_paint_inv evs E) as (evs' & x & ->).
      rewrite map_app in *. cbn [map rp_time] in *. rewrite chain_snoc, open_last_snoc.
      exists (map rp_time evs'), [(last (map rp_time evs') t0, last (map rp_time evs') t0 + four_s)].
      split; [reflexivity|]. split; [exact (increasing_prefix _ _ _ Hinc)|].
      right. eexists. split; [reflexivity|]. pose proof four_s_pos. lra.
    + exists (map rp_time evs), []. split; [symmetry; apply app_nil_r|]. split; [exact Hinc|]. left. reflexivity.
Qed.

Lemma chain_ordered : forall ts t0 tail, increasing t0 ts -> later_tail ts t0 tail ->
  Forall (fun p => fst p < snd p) (chain t0 ts ++ tail) /\
  (forall i a b, nth_error (chain t0 ts ++ tail) i = Some a -> nth_error (chain t0 ts ++ tail) (S i) = Some b ->
     fst a < fst b).
Proof.
  induction ts as [|t r IH]; intros t0 tail Hinc Htail.
  - cbn [chain app]. destruct Htail as [->|[e [-> He]]].
    + split; [constructor|]. intros [|i] a b Ha; discriminate.
    + split; [constructor; [exact He|constructor]|]. intros [|i] a b Ha Hb; [discriminate|destruct i; discriminate].
  - cbn [increasing] in Hinc. destruct Hinc as [H0 Hinc].
    assert (Htail' : later_tail r t tail).
    { unfold later_tail in *. rewrite last_cons in Htail. exact Htail. }
    destruct (IH t tail Hinc Htail') as [HF HO]. cbn [chain app]. split.
    + constructor; [exact H0|exact HF].
    + intros [|i] a b Ha Hb.
      * cbn [nth_error] in Ha, Hb. inversion Ha; subst a. cbn [fst].
        destruct r as [|t' r'].
        -- cbn [chain app] in Hb. destruct Htail' as [->|[e [-> He]]]; [discriminate|].
           cbn [last] in Hb. inversion Hb; subst b. exact H0.
        -- cbn [chain app] in Hb. inversion Hb; subst b. exact H0.
      * cbn [nth_error] in Ha. change (nth_error (chain t r ++ tail) (S i) = Some b) in Hb.
        exact (HO i a b Ha Hb).
Qed.

(* C16 "captions are ordered by start with start < end, and each caption ends exactly when the next one begins":
   no side condition on the last event is needed - the caption opened to 4 s is the last one *)
Theorem rp_chain_ordered : forall t0 evs pending l, rp_nonneg t0 evs -> increasing t0 (map rp_time evs) ->
  rp_read t0 evs pending = Ok l ->
  Forall (fun p => (fst p < snd p)%Q) l /\
  (forall i a b, nth_error l i = Some a -> nth_error l (S i) = Some b -> (fst a < fst b)%Q /\ snd a = fst b).
Proof.
  intros t0 evs pending l H Hinc Hr. rewrite rp_chain_all_nonneg in Hr by exact H.
  unfold rp_expected_all in Hr. cbv zeta in Hr.
  destruct (existsb flash _); [discriminate|].
  destruct (rp_spans_form t0 evs pending Hinc) as (ts & tail & E & Hi & Ht). rewrite E in Hr.
  assert (El : l = chain t0 ts ++ tail) by (destruct (chain t0 ts ++ tail); [discriminate|inversion Hr; reflexivity]).
  subst l. destruct (chain_ordered ts t0 tail Hi Ht) as [HF HO]. split; [exact HF|].
  intros i a b Ha Hb. split; [exact (HO i a b Ha Hb)|].
  apply (chain_linked ts t0 tail) with (i := i); [|exact Ha|exact Hb].
  destruct Ht as [->|[e [-> _]]]; [left; reflexivity|right; eexists; reflexivity].
Qed.

(* without increasing instants the spans are still chained but may run backwards *)
Example rp_chain_unordered_backwards :
  rp_read 5000000 [RRoll 3000000] false = Ok [(5000000, 3000000)].
Proof. vm_compute. reflexivity. Qed.

(* ---- non-vacuity: a mixed list, first mode command at instant 0, a paint-on caption pending at the end --------- *)
Example rp_chain_all_example :
  let evs := [RRoll 1000000; RPaint 2000000; RPaint 3500000; RRoll 5000000] in
  rp_nonneg 0 evs /\ increasing 0 (map rp_time evs) /\
  rp_read 0 evs true =
    Ok [(0, 1000000); (1000000, 2000000); (2000000, 3500000); (3500000, 5000000); (5000000, 5000000 + four_s)] /\
  rp_expected_all 0 evs true = rp_read 0 evs true.
Proof.
  cbv zeta. split; [|split; [|split]].
  - split; [apply Qle_refl|]. intros e He. cbn [In] in He.
    destruct He as [<-|[<-|[<-|[<-|[]]]]]; reflexivity.
  - cbn [map rp_time increasing]. repeat split.
  - vm_compute. reflexivity.
  - vm_compute. reflexivity.
Qed.

Example rp_chain_ordered_example :
  exists l, rp_read 0 [RRoll 1000000; RPaint 2000000; RPaint 3500000; RRoll 5000000] true = Ok l /\
    length l = 5%nat /\ Forall (fun p => fst p < snd p) l /\
    (forall i a b, nth_error l i = Some a -> nth_error l (S i) = Some b -> fst a < fst b /\ snd a = fst b).
Proof.
  destruct rp_chain_all_example as (Hn & Hi & Hr & _). eexists. split; [exact Hr|]. split; [reflexivity|].
  exact (rp_chain_ordered _ _ _ _ Hn Hi Hr).
Qed.

(* the same with a final RPaint and nothing pending: the caption stored by the last event is the one opened to 4 s *)
Example rp_chain_ordered_example_open_last :
  rp_read 0 [RRoll 1000000; RPaint 2000000] false = Ok [(0, 1000000); (1000000, 1000000 + four_s)].
Proof. vm_compute. reflexivity. Qed.
