(* C20 (wave 7, round 4): "and that reader reads the document" for SRT.  The document written by the node-level writer
   model (model/OwnWrite.v srt_write) for ONE language is C01's abstract SRT document with the blank line behind the last
   cue removed (srt[:-1]); the reader model of C01 (model/TimeRead.v srt_read) returns exactly one caption per written
   (merged) cue with the written instants and text lines.  TimeDocFacts is used read-only: srt_loop_cues_tail for all cues
   but the last, srt_loop_last_cue for the last one. *)
From Coq Require Import List ZArith QArith Qround Bool Lia ZifyBool.
From PV Require Import lib.Sx lib.Str lib.Result lib.Dec lib.StrSplit model.Generated model.Detect spec.SpecDetect
  spec.SpecOwn model.OwnWrite spec.SpecOwnNodes proofs.DetectFacts proofs.DetectOwnFacts proofs.DetectNodeFacts
  model.TimeRead spec.SpecTime proofs.TimeStrFacts proofs.TimeDocFacts proofs.OwnReadFacts.
Import ListNotations.
Open Scope Z_scope.
#[local] Ltac Zify.zify_post_hook ::= Z.to_euclidean_division_equations.

(* ---------------- the written timestamp as an abstract stamp ---------------- *)
Definition hpad (h : Z) : nat := (2 - length (dec_nonneg h))%nat.
Definition stamp_of (us : Z) : srt_stamp :=
  let s := td_seconds us in
  mkSrt (hpad (s / 3600)) (s / 3600) ((s mod 3600) / 60) ((s mod 3600) mod 60) (Some (td_millis us)).

Lemma padded_two : forall h, 0 <= h < 100 -> padded (hpad h) h = two h.
Proof. intros h H. rewrite <- (zpad2_two h H). reflexivity. Qed.

Lemma stamp_render : forall us, srt_render_stamp (stamp_of us) = srt_timestamp us.
Proof.
  intros us. pose proof (td_seconds_range us) as Hs. unfold srt_render_stamp, stamp_of, srt_timestamp. cbv zeta.
  cbn [sr_pad sr_h sr_m sr_s sr_ms]. rewrite padded_two by lia. reflexivity.
Qed.

Lemma stamp_dom : forall us, srt_stamp_dom (stamp_of us) = true.
Proof.
  intros us. pose proof (td_seconds_range us) as Hs. pose proof (td_millis_range us) as Hm.
  unfold srt_stamp_dom, stamp_of. cbv zeta. cbn [sr_h sr_m sr_s sr_ms]. lia.
Qed.

Lemma stamp_instant : forall t, us (srt_instant (stamp_of t)) = (td_seconds t * 1000 + td_millis t) * 1000.
Proof.
  intros t. pose proof (td_seconds_range t) as Hs. unfold us, srt_instant, stamp_of. cbv zeta. cbn [sr_h sr_m sr_s sr_ms].
  set (s := td_seconds t) in *. set (ms := td_millis t).
  assert (E : secs (s / 3600) (s mod 3600 / 60) ((s mod 3600) mod 60) = s) by (unfold secs; lia).
  rewrite E.
  assert (Q : ((inject_Z s + (ms # 1000)) * 1000000 == inject_Z ((s * 1000 + ms) * 1000))%Q).
  { unfold Qeq, Qplus, Qmult, inject_Z. cbn. lia. }
  rewrite Q. apply Qfloor_Z.
Qed.

(* ---------------- one written cue as an abstract cue ---------------- *)
Definition kept (m : ocap) : list str := filter nonblank (split_ch 10 (strip (cap_text m))).
Definition to_sc (k : Z) (m : ocap) : srt_cue := mkSrtCue k (stamp_of (oc_start m)) (stamp_of (oc_end m)) (kept m) 0.
Fixpoint sc_list (k : Z) (M : list ocap) : list srt_cue :=
  match M with [] => [] | m :: t => to_sc k m :: sc_list (k + 1) t end.

Definition cap_ok (c : ocap) : bool := srt_visible c && negb (existsb (Z.eqb 13) (cap_text c)).

Lemma timing_eq : forall k m, TimeDocFacts.srt_timing (to_sc k m) = OwnWrite.srt_timing m.
Proof.
  intros k m. unfold TimeDocFacts.srt_timing, OwnWrite.srt_timing, to_sc. cbn [sc_t0 sc_t1]. rewrite !stamp_render. reflexivity.
Qed.

Lemma not_in_13 : forall s, existsb (Z.eqb 13) s = false -> ~ In 13 s.
Proof.
  intros s H Hin. assert (E : existsb (Z.eqb 13) s = true) by (apply existsb_exists; exists 13; split; [exact Hin|reflexivity]).
  congruence.
Qed.

Lemma part_in : forall p s x, part p s -> In x p -> In x s.
Proof. intros p s x [a [b ->]] H. apply in_or_app. right. apply in_or_app. left. exact H. Qed.

Lemma kept_lines_ok : forall m, cap_ok m = true -> forallb text_line_ok (kept m) = true.
Proof.
  intros m H. unfold cap_ok in H. apply andb_true_iff in H. destruct H as [_ H13]. apply negb_true_iff in H13.
  apply forallb_forall. intros l Hl. unfold kept in Hl. apply filter_In in Hl. destruct Hl as [Hin Hnb].
  unfold text_line_ok. apply andb_true_iff. split.
  - unfold SpecTime.no_linebreak. apply forallb_forall. intros x Hx. apply negb_true_iff.
    destruct ((x =? 10) || (x =? 13)) eqn:E; [|reflexivity]. exfalso. apply orb_true_iff in E. destruct E as [E|E]; apply Z.eqb_eq in E; subst x.
    + apply (split_ch_no_sep 10 _ l Hin Hx).
    + apply (not_in_13 _ H13). apply (part_in l (cap_text m) 13); [|exact Hx].
      apply (part_trans _ (strip (cap_text m))); [apply (split_ch_part 10 _ l Hin)|apply strip_part].
  - unfold visible_line. unfold nonblank in Hnb. exact Hnb.
Qed.

Lemma kept_nonempty : forall m, cap_ok m = true -> kept m <> [].
Proof.
  intros m H. unfold cap_ok in H. apply andb_true_iff in H. destruct H as [Hv _].
  unfold srt_visible in Hv. apply existsb_exists in Hv. destruct Hv as [x [Hx Hsp]]. apply negb_true_iff in Hsp.
  assert (Hs : In x (strip (cap_text m))).
  { unfold strip, strip_by. apply rstrip_by_in; [apply lstrip_by_in; assumption|exact Hsp]. }
  destruct (split_ch_aux_in 10 _ [] x Hs ltac:(unfold is_space in Hsp; lia)) as [p [Hp Hxp]].
  intros E. assert (Hk : In p (kept m)).
  { unfold kept. apply filter_In. split; [exact Hp|]. unfold nonblank.
    pose proof (strip_witness p (ex_intro _ x (conj Hxp Hsp))) as W. unfold is_blank in W. destruct (strip p); [discriminate|reflexivity]. }
  rewrite E in Hk. destruct Hk.
Qed.

Lemma to_sc_dom : forall k m, 0 <= k -> cap_ok m = true -> srt_cue_dom (to_sc k m) = true.
Proof.
  intros k m Hk H. unfold srt_cue_dom, to_sc. cbn [sc_idx sc_t0 sc_t1 sc_lines].
  rewrite !stamp_dom, (kept_lines_ok m H). replace (0 <=? k) with true by lia. cbn [andb].
  pose proof (kept_nonempty m H) as N. destruct (kept m); [congruence|reflexivity].
Qed.

Lemma sc_list_dom : forall M k, 0 <= k -> forallb cap_ok M = true -> forallb srt_cue_dom (sc_list k M) = true.
Proof.
  induction M as [|m t IH]; intros k Hk H; [reflexivity|]. cbn [forallb] in H. apply andb_true_iff in H. destruct H as [Hm Ht].
  cbn [sc_list forallb]. rewrite (to_sc_dom k m Hk Hm), (IH (k + 1) ltac:(lia) Ht). reflexivity.
Qed.

Lemma sc_list_app : forall a b k, sc_list k (a ++ b) = sc_list k a ++ sc_list (k + Z.of_nat (length a)) b.
Proof.
  induction a as [|x a IH]; intros b k.
  - cbn [app sc_list length]. replace (k + Z.of_nat 0) with k by lia. reflexivity.
  - cbn [app sc_list length]. rewrite IH. replace (k + 1 + Z.of_nat (length a)) with (k + Z.of_nat (S (length a))) by lia. reflexivity.
Qed.

(* ---------------- the written blocks are the rendered cue lines ---------------- *)
Definition nlf (l : str) : str := l ++ nl_of false.

Lemma split_nlf : forall ls, forallb no_lb ls = true -> split_lines (flat_map nlf ls) = ls.
Proof. exact (splitlines_lines false). Qed.

Lemma join_nl : forall ls, ls <> [] -> join [10] ls ++ [10] = flat_map nlf ls.
Proof.
  induction ls as [|a t IH]; intros H; [congruence|]. destruct t as [|b t'].
  - cbn. rewrite app_nil_r. reflexivity.
  - rewrite join_cons2. change (flat_map nlf (a :: b :: t')) with (nlf a ++ flat_map nlf (b :: t')).
    rewrite <- (IH ltac:(discriminate)). unfold nlf at 1. cbn [nl_of].
    rewrite <- !app_assoc. reflexivity.
Qed.

Lemma blocks_lines : forall M k, 1 <= k -> forallb cap_ok M = true ->
  srt_blocks_w k (map OwnWrite.srt_cue M) = flat_map nlf (flat_map srt_cue_lines (sc_list k M)).
Proof.
  induction M as [|m t IH]; intros k Hk H; [reflexivity|]. cbn [forallb] in H. apply andb_true_iff in H. destruct H as [Hm Ht].
  cbn [map sc_list flat_map]. rewrite flat_map_app, <- (IH (k + 1) ltac:(lia) Ht).
  unfold OwnWrite.srt_cue at 1. cbn [srt_blocks_w]. unfold srt_cue_lines, to_sc at 1. cbn [sc_idx sc_lines sc_gap repeat].
  fold (to_sc k m). rewrite timing_eq. cbn [flat_map]. rewrite flat_map_app. cbn [flat_map].
  unfold srt_clean. fold (kept m).
  change (sc_lines (to_sc k m)) with (kept m). change (sc_gap (to_sc k m)) with 0%nat. cbn [repeat flat_map].
  rewrite <- (join_nl (kept m) (kept_nonempty m Hm)).
  unfold nlf. cbn [nl_of]. unfold dec_z. replace (k <? 0) with false by lia.
  repeat (rewrite <- ?app_assoc; cbn [app]). reflexivity.
Qed.

Lemma lines_no_lb : forall cues, forallb srt_cue_dom cues = true -> forallb no_lb (flat_map srt_cue_lines cues) = true.
Proof.
  induction cues as [|c t IH]; intros H; [reflexivity|]. cbn [forallb] in H. apply andb_true_iff in H. destruct H as [Hc Ht].
  cbn [flat_map]. rewrite forallb_app, (srt_cue_lines_no_lb c Hc), (IH Ht). reflexivity.
Qed.

Lemma cues_le_lines : forall cs, (length cs <= length (flat_map srt_cue_lines cs))%nat.
Proof.
  induction cs as [|c t IH]; [reflexivity|]. cbn [flat_map length]. rewrite app_length.
  unfold srt_cue_lines at 1. cbn [length]. lia.
Qed.

(* ---------------- what the reader must return ---------------- *)
Lemma last_tuple : forall k m,
  (us (srt_instant (sc_t0 (to_sc k m))), us (srt_instant (sc_t1 (to_sc k m))), sc_lines (to_sc k m)) = srt_expected_cap m.
Proof. intros k m. unfold to_sc. cbn [sc_t0 sc_t1 sc_lines]. rewrite !stamp_instant. reflexivity. Qed.

Lemma expected_one : forall k m, cap_ok m = true -> srt_expected_caps [to_sc k m] = [srt_expected_cap m].
Proof.
  intros k m H. unfold srt_expected_caps. cbn [flat_map]. rewrite app_nil_r. unfold to_sc at 1. cbn [sc_lines].
  pose proof (kept_nonempty m H) as N. destruct (kept m) as [|l ls] eqn:E; [congruence|].
  unfold to_sc. cbn [sc_t0 sc_t1]. rewrite !stamp_instant. unfold srt_expected_cap. fold (kept m). rewrite E. reflexivity.
Qed.

Lemma expected_list : forall M k, forallb cap_ok M = true -> srt_expected_caps (sc_list k M) = map srt_expected_cap M.
Proof.
  induction M as [|m t IH]; intros k H; [reflexivity|]. cbn [forallb] in H. apply andb_true_iff in H. destruct H as [Hm Ht].
  cbn [sc_list map]. change (to_sc k m :: sc_list (k + 1) t) with ([to_sc k m] ++ sc_list (k + 1) t).
  unfold srt_expected_caps. rewrite flat_map_app. fold (srt_expected_caps [to_sc k m]). fold (srt_expected_caps (sc_list (k + 1) t)).
  rewrite (expected_one k m Hm), (IH (k + 1) Ht). reflexivity.
Qed.

(* ---------------- merged captions stay in the domain ---------------- *)
Lemma existsb_app' : forall (f : Z -> bool) a b, existsb f (a ++ b) = existsb f a || existsb f b.
Proof. intros. apply existsb_app. Qed.

Lemma cap_ok_merge : forall a b, cap_ok a = true -> cap_ok b = true ->
  cap_ok (mk_ocap (oc_start b) (oc_end b) (oc_nodes a ++ OBreak :: oc_nodes b)) = true.
Proof.
  intros a b Ha Hb. unfold cap_ok, srt_visible, cap_text in *. cbn [oc_nodes].
  apply andb_true_iff in Ha. destruct Ha as [A1 A2]. apply andb_true_iff in Hb. destruct Hb as [B1 B2].
  apply negb_true_iff in A2, B2.
  rewrite flat_map_app. change (flat_map node_text (OBreak :: oc_nodes b)) with (10 :: flat_map node_text (oc_nodes b)).
  rewrite !existsb_app'. cbn [existsb]. rewrite A1, A2, B2. reflexivity.
Qed.

Lemma merge_from_ok : forall l last, cap_ok last = true -> forallb cap_ok l = true ->
  forallb cap_ok (srt_merge_from last l) = true.
Proof.
  induction l as [|c t IH]; intros last Hl H.
  - cbn [srt_merge_from forallb]. rewrite Hl. reflexivity.
  - cbn [forallb] in H. apply andb_true_iff in H. destruct H as [Hc Ht]. cbn [srt_merge_from].
    destruct (OwnWrite.same_span c last).
    + apply IH; [apply cap_ok_merge; assumption|exact Ht].
    + cbn [forallb]. rewrite Hl. cbn [andb]. apply IH; assumption.
Qed.

(* ---------------- the theorem ---------------- *)
Lemma drop_last_nl : forall s, firstn (length (s ++ [10]) - 1) (s ++ [10]) = s.
Proof. intros s. rewrite app_length. cbn [length]. replace (length s + 1 - 1)%nat with (length s) by lia. rewrite firstn_app, Nat.sub_diag, firstn_all. cbn. apply app_nil_r. Qed.

Theorem own_read_srt : forall langs, srt_read_dom langs = true ->
  srt_read (srt_write langs) = Ok (map srt_expected_cap (srt_merge (hd [] langs))).
Proof.
  intros langs H. unfold srt_read_dom in H.
  destruct langs as [|[|c t] [|l2 ls]]; try discriminate. cbn [hd].
  change (forallb cap_ok (c :: t) = true) in H.
  assert (HM : forallb cap_ok (srt_merge (c :: t)) = true).
  { cbn [forallb] in H. apply andb_true_iff in H. destruct H as [Hc Ht]. cbn [srt_merge]. apply merge_from_ok; assumption. }
  assert (Hne : srt_merge (c :: t) <> []).
  { cbn [srt_merge]. destruct (srt_merge_from_cons t c) as [x [y E]]. rewrite E. discriminate. }
  set (M := srt_merge (c :: t)) in *.
  destruct (exists_last Hne) as [init [last EM]].
  unfold srt_write. cbn [map join]. unfold srt_lang. cbv zeta. fold M.
  rewrite (blocks_lines M 1 ltac:(lia) HM).
  rewrite EM in HM. rewrite forallb_app in HM. apply andb_true_iff in HM. destruct HM as [Hi Hl].
  cbn [forallb] in Hl. rewrite andb_true_r in Hl.
  rewrite EM, sc_list_app. cbn [sc_list]. set (kl := 1 + Z.of_nat (length init)).
  rewrite flat_map_app. cbn [flat_map]. rewrite app_nil_r.
  set (Li := flat_map srt_cue_lines (sc_list 1 init)).
  set (cl := to_sc kl last).
  set (tailL := dec_nonneg (sc_idx cl) :: TimeDocFacts.srt_timing cl :: sc_lines cl).
  assert (EL : srt_cue_lines cl = tailL ++ [[]]).
  { unfold srt_cue_lines, tailL, cl, to_sc. cbn [sc_idx sc_lines sc_gap repeat]. reflexivity. }
  rewrite EL.
  assert (ED : flat_map nlf (Li ++ tailL ++ [[]]) = flat_map nlf (Li ++ tailL) ++ [10]).
  { rewrite app_assoc, flat_map_app. reflexivity. }
  rewrite ED, drop_last_nl.
  assert (Di : forallb srt_cue_dom (sc_list 1 init) = true) by (apply sc_list_dom; [lia|exact Hi]).
  assert (Dl : srt_cue_dom cl = true) by (apply to_sc_dom; [unfold kl; lia|exact Hl]).
  assert (NL : forallb no_lb (Li ++ tailL) = true).
  { rewrite forallb_app. unfold Li. rewrite (lines_no_lb _ Di). cbn [andb].
    pose proof (srt_cue_lines_no_lb cl Dl) as N. rewrite EL, forallb_app in N. apply andb_true_iff in N. apply N. }
  unfold srt_read. cbv zeta. rewrite (split_nlf _ NL).
  assert (HT : forall f acc', (0 < f)%nat -> srt_loop f tailL acc' = Ok (acc' ++ [srt_expected_cap last])).
  { intros f acc' Hf. unfold tailL. rewrite (srt_loop_last_cue cl f acc' Dl Hf). unfold cl. rewrite last_tuple. reflexivity. }
  unfold Li. rewrite (srt_loop_cues_tail (sc_list 1 init) tailL _ [] [srt_expected_cap last]).
  - cbn [app]. rewrite (expected_list init 1 Hi), map_app. cbn [map].
    unfold no_captions_if_empty. destruct (map srt_expected_cap init); reflexivity.
  - pose proof (cues_le_lines (sc_list 1 init)) as G. rewrite app_length. lia.
  - exact Di.
  - unfold tailL. apply digits_not_blank; [apply dec_nonneg_nonempty|apply dec_nonneg_digits; unfold cl, to_sc, kl; cbn [sc_idx]; lia].
  - exact HT.
Qed.

Theorem own_detect_and_read_srt : forall langs, srt_dom langs = true -> srt_read_dom langs = true ->
  detect_format (srt_write langs) = Ok (Some R_SRT) /\
  exists caps, srt_read (srt_write langs) = Ok caps /\ length caps = length (srt_merge (hd [] langs)) /\
               map (fun r => (fst (fst r), snd (fst r))) caps
               = map (fun c => ((td_seconds (oc_start c) * 1000 + td_millis (oc_start c)) * 1000,
                                (td_seconds (oc_end c) * 1000 + td_millis (oc_end c)) * 1000)) (srt_merge (hd [] langs)).
Proof.
  intros langs Hd Hr. split; [apply own_nodes_srt; exact Hd|].
  exists (map srt_expected_cap (srt_merge (hd [] langs))). split; [apply own_read_srt; exact Hr|].
  split; [apply map_length|]. rewrite map_map. reflexivity.
Qed.
