(* C12: WebVTT settings arithmetic, cue splitting, verbatim pass-through; DFXP effective-layout fallback, region
   table lookup, attribute print/read-back. *)
From Coq Require Import List ZArith QArith Qabs Bool Lia Lqa Field.
From PV Require Import lib.Sx lib.Str lib.Result model.Geometry model.Positioning spec.SpecGeom spec.SpecPos.
From PV Require Import proofs.GeomStr proofs.GeomEq proofs.GeomParse proofs.GeomPrint proofs.GeomLang proofs.GeomFacts proofs.PosFacts.
Import ListNotations.
Open Scope Z_scope.

(* ---- WebVTT arithmetic -------------------------------------------------------------------------------- *)
Lemma size_sub_pct : forall a b, s_unit a = PCT -> s_unit b = PCT ->
  size_sub a b = Ok (mkSize (Qred (s_val a - s_val b)) PCT).
Proof. intros a b Ha Hb. unfold size_sub. rewrite Ha, Hb. reflexivity. Qed.

Lemma q_close_tol_eq : forall a b, (a == b)%Q -> q_close_tol a b = true.
Proof.
  intros a b H. unfold q_close_tol, tol200. apply Qle_bool_iff. rewrite H. setoid_replace (b - b)%Q with 0%Q by ring. cbn. lra.
Qed.

Lemma vtt_align_spec : forall l,
  match vtt_align (l_alignment l) with
  | None => halign_eqb (spec_halign l) HCenter
  | Some h => halign_eqb h (spec_halign l) && negb (halign_eqb h HCenter)
  end = true.
Proof.
  intros l. unfold vtt_align, spec_halign. destruct (l_alignment l) as [[[[]|] v]|]; reflexivity.
Qed.

Definition is_pct_val (o : option size) (v : Q) : Prop :=
  exists s, o = Some s /\ s_unit s = PCT /\ (s_val s == v)%Q.

(* exact form: what the settings are, for a percentage layout with an origin *)
Theorem vtt_arith_exact : forall l org, all_pct l = true -> l_origin l = Some org ->
  exists pos line wd,
    vtt_arith l = Ok (VSet (mkVs (vtt_align (l_alignment l)) pos line wd))
    /\ is_pct_val pos (s_val (p_x org) + pad_of pd_start l)
    /\ is_pct_val line (s_val (p_y org) + pad_of pd_before l)
    /\ match l_extent l with
       | Some e => is_pct_val wd (s_val (st_h e) - pad_of pd_start l - pad_of pd_end l)
       | None => wd = None
       end.
Proof.
  intros [o e p al wv] [ox oy] P Ho. cbn [l_origin] in Ho. inversion Ho; subst o.
  unfold all_pct, sizes_axes in P. cbn [l_origin l_extent l_padding] in P.
  cbn [app forallb fst p_x p_y] in P. apply andb_true_iff in P. destruct P as [U1 P]. apply andb_true_iff in P. destruct P as [U2 P].
  apply unit_eqb_eq in U1, U2.
  unfold vtt_arith, pad_of, is_pct_val. cbn [l_origin l_extent l_padding l_alignment option_map p_x p_y].
  destruct e as [[eh ev]|]; cbn [app forallb fst st_h st_v] in P.
  - apply andb_true_iff in P. destruct P as [U3 P]. apply andb_true_iff in P. destruct P as [U4 P].
    apply unit_eqb_eq in U3, U4. cbn [option_map st_h].
    destruct p as [[pb pa ps pe]|]; cbn [forallb fst pd_before pd_after pd_start pd_end] in P.
    + apply andb_true_iff in P. destruct P as [V1 P]. apply andb_true_iff in P. destruct P as [V2 P].
      apply andb_true_iff in P. destruct P as [V3 P]. apply andb_true_iff in P. destruct P as [V4 _].
      apply unit_eqb_eq in V1, V2, V3, V4. cbn [pd_before pd_after pd_start pd_end].
      rewrite (size_add_pct ox ps U1 V3). cbn [bind opt_bind].
      rewrite (size_sub_pct eh ps U3 V3). cbn [bind snd fst opt_bind].
      rewrite (size_sub_pct (mkSize (Qred (s_val eh - s_val ps)) PCT) pe eq_refl V4). cbn [bind opt_bind].
      rewrite (size_add_pct oy pb U2 V1). cbn [bind s_val].
      do 3 eexists. split; [reflexivity|].
      split; [eexists; split; [reflexivity|]; split; [reflexivity|cbn [s_val]; apply Qred_correct]|].
      split; [eexists; split; [reflexivity|]; split; [reflexivity|cbn [s_val]; apply Qred_correct]|].
      eexists. split; [reflexivity|]. split; [reflexivity|]. cbn [s_val]. rewrite !Qred_correct. reflexivity.
    + do 3 eexists. split; [reflexivity|].
      split; [eexists; split; [reflexivity|]; split; [exact U1|ring]|].
      split; [eexists; split; [reflexivity|]; split; [exact U2|ring]|].
      eexists. split; [reflexivity|]. split; [exact U3|ring].
  - cbn [option_map].
    destruct p as [[pb pa ps pe]|]; cbn [forallb fst pd_before pd_after pd_start pd_end] in P.
    + apply andb_true_iff in P. destruct P as [V1 P]. apply andb_true_iff in P. destruct P as [V2 P].
      apply andb_true_iff in P. destruct P as [V3 P]. apply andb_true_iff in P. destruct P as [V4 _].
      apply unit_eqb_eq in V1, V2, V3, V4. cbn [pd_before pd_after pd_start pd_end].
      rewrite (size_add_pct ox ps U1 V3). cbn [bind opt_bind snd fst].
      rewrite (size_add_pct oy pb U2 V1). cbn [bind s_val].
      do 3 eexists. split; [reflexivity|].
      split; [eexists; split; [reflexivity|]; split; [reflexivity|cbn [s_val]; apply Qred_correct]|].
      split; [eexists; split; [reflexivity|]; split; [reflexivity|cbn [s_val]; apply Qred_correct]|].
      reflexivity.
    + do 3 eexists. split; [reflexivity|].
      split; [eexists; split; [reflexivity|]; split; [exact U1|ring]|].
      split; [eexists; split; [reflexivity|]; split; [exact U2|ring]|].
      reflexivity.
Qed.

(* the check's oracle holds of the model: align omitted iff center, position, line, size, all percentages *)
Theorem ok_vtt_arith_model : forall l, all_pct l = true -> l_origin l <> None ->
  exists s, vtt_arith l = Ok (VSet s) /\ ok_vtt_arith l s = true /\ vs_all_pct s = true.
Proof.
  intros l P Ho. destruct (l_origin l) as [org|] eqn:E; [|contradiction].
  destruct (vtt_arith_exact l org P E) as (pos & line & wd & H & (ps & -> & Up & Vp) & (ls & -> & Ul & Vl) & Hw).
  eexists. split; [exact H|]. split.
  - unfold ok_vtt_arith. rewrite E. cbn [vs_align vs_position vs_line vs_size].
    rewrite (vtt_align_spec l). cbn [andb]. unfold size_is. rewrite Up, Ul. cbn [unit_eqb andb].
    rewrite (q_close_tol_eq _ _ Vp), (q_close_tol_eq _ _ Vl). cbn [andb].
    destruct (l_extent l) as [e|].
    + destruct Hw as (ws & -> & Uw & Vw). rewrite Uw. cbn [unit_eqb andb]. apply q_close_tol_eq. exact Vw.
    + subst wd. reflexivity.
  - rewrite vs_all_pct_opt. cbn [vs_position vs_line vs_size opt_pct]. rewrite Up, Ul. cbn [unit_eqb andb].
    destruct (l_extent l) as [e|].
    + destruct Hw as (ws & -> & Uw & _). cbn [opt_pct]. rewrite Uw. reflexivity.
    + subst wd. reflexivity.
Qed.

(* the settings depend on the geometric components only *)
Lemma vtt_arith_geometry : forall l wv, vtt_arith (mkLayout (l_origin l) (l_extent l) (l_padding l) (l_alignment l) wv) = vtt_arith l.
Proof. intros [o e p al w] wv. reflexivity. Qed.

(* writer level, relativization and fit off or on: a percentage layout (no raw settings) *)
Theorem vtt_convert_relative : forall c l, layout_truthy l = true -> (l_webvtt l = None \/ l_webvtt l = Some []) ->
  all_pct l = true -> w_fit c = false -> vtt_convert_positioning c (Some l) = vtt_arith l.
Proof.
  intros c l T W P F. cbn [vtt_convert_positioning]. rewrite T. cbn [negb].
  assert (R : layout_is_relative l = true) by (rewrite layout_is_relative_all_pct; exact P).
  assert (Main : (if negb (w_rel c) && negb (layout_is_relative l) then Ok VNone else
      do l1 <- (if w_rel c then layout_as_pct l (w_w c) (w_h c) else Ok l);
      do l2 <- (if w_fit c then layout_fit l1 else Ok l1); vtt_arith l2) = vtt_arith l).
  { rewrite R, F. cbn [negb andb]. rewrite andb_false_r. destruct (w_rel c).
    - rewrite layout_as_pct_relative.
      + cbn [bind]. apply vtt_arith_geometry.
      + unfold layout_relative. unfold all_pct in P. rewrite forallb_forall in P. apply Forall_forall.
        intros x Hx. apply unit_eqb_eq. apply P. exact Hx.
    - reflexivity. }
  destruct W as [W|W]; rewrite W; exact Main.
Qed.

(* with fit on: the same arithmetic on the fitted layout *)
Theorem vtt_convert_relative_fit : forall c l, layout_truthy l = true -> (l_webvtt l = None \/ l_webvtt l = Some []) ->
  all_pct l = true -> w_fit c = true ->
  exists l2, layout_fit (mkLayout (l_origin l) (l_extent l) (l_padding l) (l_alignment l) (if w_rel c then None else l_webvtt l)) = Ok l2
             /\ all_pct l2 = true /\ vtt_convert_positioning c (Some l) = vtt_arith l2.
Proof.
  intros c l T W P F. cbn [vtt_convert_positioning]. rewrite T. cbn [negb].
  assert (R : layout_is_relative l = true) by (rewrite layout_is_relative_all_pct; exact P).
  set (l1 := mkLayout (l_origin l) (l_extent l) (l_padding l) (l_alignment l) (if w_rel c then None else l_webvtt l)).
  assert (P1 : all_pct l1 = true) by (destruct l; exact P).
  destruct (layout_fit_pct_ok l1 P1) as [l2 H2]. exists l2. split; [exact H2|]. split; [eapply layout_fit_all_pct; eauto|].
  assert (Main : (if negb (w_rel c) && negb (layout_is_relative l) then Ok VNone else
      do l1' <- (if w_rel c then layout_as_pct l (w_w c) (w_h c) else Ok l);
      do l2' <- (if w_fit c then layout_fit l1' else Ok l1'); vtt_arith l2') = vtt_arith l2).
  { rewrite R, F. cbn [negb andb]. rewrite andb_false_r. subst l1. destruct (w_rel c).
    - rewrite layout_as_pct_relative.
      + cbn [bind]. rewrite H2. reflexivity.
      + unfold layout_relative. unfold all_pct in P. rewrite forallb_forall in P. apply Forall_forall.
        intros x Hx. apply unit_eqb_eq. apply P. exact Hx.
    - cbn [bind]. destruct l as [o e p al wv]. cbn [l_origin l_extent l_padding l_alignment l_webvtt] in *. rewrite H2. reflexivity. }
  destruct W as [W|W]; rewrite W; exact Main.
Qed.

(* raw cue settings are passed through verbatim, whatever the configuration *)
Theorem vtt_settings_verbatim : forall c l ch raw, l_webvtt l = Some (ch :: raw) ->
  vtt_convert_positioning c (Some l) = Ok (VRaw (ch :: raw)).
Proof.
  intros c [o e p al wv] ch raw H. cbn [l_webvtt] in H. subst wv. cbn [vtt_convert_positioning].
  assert (T : layout_truthy (mkLayout o e p al (Some (ch :: raw))) = true) by (destruct o, e, p, al; reflexivity).
  rewrite T. reflexivity.
Qed.

(* ---- WebVTT cue splitting ------------------------------------------------------------------------------- *)
Definition text_node (l : layout) : nnode := mkNode 1 (Some l).

Lemma vtt_groups_aux_runs : forall ls a, layout_truthy a = true -> forallb layout_truthy ls = true ->
  vtt_groups_aux (map text_node ls) true (Some a) = map Some (runs_last (a :: ls)).
Proof.
  induction ls as [|b t IH]; intros a Ta Tl.
  - reflexivity.
  - cbn [forallb] in Tl. apply andb_true_iff in Tl. destruct Tl as [Tb Tt].
    cbn [map vtt_groups_aux text_node n_kind n_layout]. change (1 =? 1) with true. cbn iota.
    cbn [opt_layout_truthy opt_layout_eqb andb]. rewrite Ta. cbn [andb].
    rewrite (IH b Tb Tt). cbn [runs_last]. destruct (layout_eqb b a); reflexivity.
Qed.

(* a caption whose text nodes all carry a layout: one cue per maximal run of equal layouts *)
Theorem vtt_split_by_layout : forall ls, forallb layout_truthy ls = true ->
  vtt_groups (map text_node ls) = map Some (runs_last ls).
Proof.
  intros [|a ls] T; [reflexivity|]. cbn [forallb] in T. apply andb_true_iff in T. destruct T as [Ta Tl].
  unfold vtt_groups. cbn [map vtt_groups_aux text_node n_kind n_layout]. change (1 =? 1) with true. cbn iota.
  cbn [andb]. apply vtt_groups_aux_runs; assumption.
Qed.

Lemma layout_eqb_sym : forall a b, layout_eqb a b = layout_eqb b a.
Proof. exact (proj1 (proj2 layout_eqb_equivalence)). Qed.
Lemma layout_eqb_trans : forall a b c, layout_eqb a b = true -> layout_eqb b c = true -> layout_eqb a c = true.
Proof. exact (proj2 (proj2 layout_eqb_equivalence)). Qed.
Lemma layout_eqb_refl : forall a, layout_eqb a a = true.
Proof. exact (proj1 layout_eqb_equivalence). Qed.

Lemma runs_last_head : forall t b, exists h r, runs_last (b :: t) = h :: r /\ layout_eqb h b = true.
Proof.
  induction t as [|c t IH]; intros b.
  - exists b, []. split; [reflexivity|apply layout_eqb_refl].
  - cbn [runs_last]. destruct (layout_eqb c b) eqn:E.
    + destruct (IH c) as (h & r & Hr & Hh). exists h, r. split; [exact Hr|]. eapply layout_eqb_trans; eauto.
    + eexists. eexists. split; [reflexivity|apply layout_eqb_refl].
Qed.

Fixpoint adj_distinct (l : list layout) : Prop :=
  match l with
  | a :: t => match t with b :: _ => layout_eqb b a = false | [] => True end /\ adj_distinct t
  | [] => True
  end.

(* consecutive cues of one caption have different layouts: the runs are maximal *)
Theorem runs_last_adjacent_distinct : forall ls, adj_distinct (runs_last ls).
Proof.
  induction ls as [|a t IH]; [exact I|]. destruct t as [|b t]; [cbn; auto|].
  change (runs_last (a :: b :: t)) with (if layout_eqb b a then runs_last (b :: t) else a :: runs_last (b :: t)).
  destruct (layout_eqb b a) eqn:E; [exact IH|].
  destruct (runs_last_head t b) as (h & r & Hr & Hh). rewrite Hr in *.
  change (adj_distinct (a :: h :: r)) with (layout_eqb h a = false /\ adj_distinct (h :: r)). split; [|exact IH].
  destruct (layout_eqb h a) eqn:E2; [|reflexivity].
  assert (K : layout_eqb b a = true).
  { eapply layout_eqb_trans; [|exact E2]. rewrite layout_eqb_sym. exact Hh. }
  congruence.
Qed.

(* the cues partition the text nodes in order: runs_members ls = the members of each run *)
Fixpoint runs_members (ls : list layout) : list (list layout) :=
  match ls with
  | [] => []
  | a :: t => match t with
              | [] => [[a]]
              | b :: _ => if layout_eqb b a then
                            match runs_members t with
                            | r :: rs => (a :: r) :: rs
                            | [] => [[a]]
                            end
                          else [a] :: runs_members t
              end
  end.

Theorem runs_partition : forall ls, concat (runs_members ls) = ls /\ length (runs_members ls) = length (runs_last ls).
Proof.
  induction ls as [|a t IH]; [split; reflexivity|]. destruct IH as [IH1 IH2]. destruct t as [|b t]; [split; reflexivity|].
  change (runs_members (a :: b :: t)) with (if layout_eqb b a then match runs_members (b :: t) with r :: rs => (a :: r) :: rs | [] => [[a]] end
                                            else [a] :: runs_members (b :: t)).
  change (runs_last (a :: b :: t)) with (if layout_eqb b a then runs_last (b :: t) else a :: runs_last (b :: t)).
  destruct (layout_eqb b a).
  - destruct (runs_members (b :: t)) as [|r rs] eqn:E.
    + cbn in IH1. discriminate.
    + cbn [concat app] in *. split; [f_equal; exact IH1|exact IH2].
  - cbn [concat app length]. split; [f_equal; exact IH1|f_equal; exact IH2].
Qed.

(* ---- DFXP: effective layout fallback ---------------------------------------------------------------------- *)
(* node level first, then caption level, then language level; a layout that creates no region (or nothing at all)
   lands in the default region *)
Definition pick (f : layout -> layout) (l c n : option layout) : layout :=
  match spec_effective l c n with
  | Some x => if layout_truthy x then (if has_region x then f x else spec_default_read) else spec_default_read
  | None => spec_default_read
  end.

Lemma choice_pick : forall f l c n,
  pick f l c n =
  match dfxp_choice None l c n with
  | Some e => if layout_truthy e && has_region e then f e else spec_default_read
  | None => spec_default_read
  end.
Proof.
  intros f l c n. unfold pick, spec_effective, dfxp_choice, opt_layout_truthy.
  destruct n as [n|], c as [c|], l as [l|]; cbn iota beta;
    repeat (match goal with |- context [layout_truthy ?x] => destruct (layout_truthy x) eqn:? end; cbn iota beta);
    cbn [andb]; try reflexivity; try congruence.
Qed.

Theorem dfxp_choice_is_spec : forall l c n,
  expected_effective l c n =
  match dfxp_choice None l c n with
  | Some e => if layout_truthy e && has_region e then spec_read_back e else spec_default_read
  | None => spec_default_read
  end.
Proof. intros l c n. exact (choice_pick spec_read_back l c n). Qed.

Theorem dfxp_choice_priority : forall g l c n,
  (opt_layout_truthy n = true -> dfxp_choice g l c n = n)
  /\ (opt_layout_truthy n = false -> opt_layout_truthy c = true -> dfxp_choice g l c n = c)
  /\ (opt_layout_truthy n = false -> opt_layout_truthy c = false -> opt_layout_truthy l = true -> dfxp_choice g l c n = l).
Proof.
  intros g l c n. unfold dfxp_choice. repeat split; intros; repeat match goal with H : _ = _ |- _ => rewrite H end; reflexivity.
Qed.

(* ---- DFXP: the region table --------------------------------------------------------------------------------- *)
Lemma has_region_eqb : forall a b, layout_eqb a b = true -> has_region a = has_region b.
Proof.
  intros [o e p al w] [o' e' p' al' w'] H. unfold layout_eqb in H. cbn [l_origin l_extent l_padding l_alignment] in H.
  unfold has_region. cbn [l_origin l_extent l_padding l_alignment].
  destruct o, o', e, e', p, p', al, al'; cbn [opt_eqb andb] in H; try discriminate; try reflexivity;
  repeat (rewrite andb_false_r in H || rewrite andb_false_l in H); try discriminate; reflexivity.
Qed.

Lemma oset_mem_add : forall s l k, oset_mem k s = true -> oset_mem k (oset_add s l) = true.
Proof.
  intros s l k H. unfold oset_add. destruct (oset_mem l s); [exact H|]. unfold oset_mem in *. rewrite existsb_app, H. reflexivity.
Qed.

Lemma oset_mem_added : forall s l, oset_mem l (oset_add s l) = true.
Proof.
  intros s l. unfold oset_add. destruct (oset_mem l s) eqn:E; [exact E|]. unfold oset_mem. rewrite existsb_app. cbn [existsb].
  rewrite layout_eqb_refl. cbn. apply orb_true_r.
Qed.

Lemma collect_fold_mem : forall ls s l, (oset_mem l s = true \/ In (Some l) ls) ->
  oset_mem l (fold_left (fun s o => match o with Some l => oset_add s l | None => s end) ls s) = true.
Proof.
  induction ls as [|o ls IH]; intros s l H.
  - destruct H as [H|[]]. exact H.
  - cbn [fold_left]. apply IH. destruct H as [H|[H|H]].
    + left. destruct o; [apply oset_mem_add|]; exact H.
    + subst o. left. apply oset_mem_added.
    + right. exact H.
Qed.

Lemma oset_mem_discard : forall d s l, oset_mem l s = true -> layout_eqb l d = false -> oset_mem l (oset_discard d s) = true.
Proof.
  induction s as [|k t IH]; intros l H Hd; [discriminate|].
  cbn [oset_discard]. unfold oset_mem in H. cbn [existsb] in H. destruct (layout_eqb k d) eqn:E.
  - apply orb_true_iff in H. destruct H as [H|H]; [|exact H].
    exfalso. assert (K : layout_eqb l d = true).
    { eapply layout_eqb_trans; [|exact E]. rewrite layout_eqb_sym. exact H. }
    congruence.
  - unfold oset_mem. cbn [existsb]. apply orb_true_iff in H. destruct H as [H|H]; [rewrite H; reflexivity|].
    apply orb_true_iff. right. apply IH; assumption.
Qed.

Lemma number_regions_find : forall s seed l, oset_mem l s = true -> has_region l = true ->
  exists k id, List.find (fun kv => layout_eqb (fst kv) l) (number_regions s seed) = Some (k, RId id) /\ layout_eqb k l = true.
Proof.
  induction s as [|k t IH]; intros seed l H R; [discriminate|].
  unfold oset_mem in H. cbn [existsb] in H. cbn [number_regions].
  destruct (layout_eqb k l) eqn:E.
  - rewrite (has_region_eqb _ _ E), R. cbn [List.find fst]. rewrite E. eauto.
  - cbn [orb] in H. destruct (has_region k).
    + cbn [List.find fst]. rewrite E. apply IH; assumption.
    + apply IH; assumption.
Qed.

Lemma find_app_some : forall {A} (f : A -> bool) a b x, List.find f a = Some x -> List.find f (a ++ b) = Some x.
Proof.
  intros A f. induction a as [|y a IH]; intros b x H; [discriminate|]. cbn [app List.find] in *.
  destruct (f y); [exact H|apply IH; exact H].
Qed.

(* every layout of the caption set that needs a region finds one, created from an equal (==) layout *)
Theorem region_lookup_total : forall ls l, In (Some l) ls -> has_region l = true ->
  layout_eqb l dfxp_default_region = false ->
  exists k id, In (k, RId id) (region_map ls) /\ layout_eqb k l = true /\ region_lookup (region_map ls) (Some l) = RId id.
Proof.
  intros ls l Hin R Hd. unfold region_map, collect_regions.
  set (s := oset_discard dfxp_default_region _).
  assert (M : oset_mem l s = true).
  { subst s. apply oset_mem_discard; [|exact Hd]. apply collect_fold_mem. right. exact Hin. }
  destruct (number_regions_find s 0 l M R) as (k & id & Hf & Hk).
  exists k, id. split; [|split; [exact Hk|]].
  - apply in_or_app. left. apply find_some in Hf. exact (proj1 Hf).
  - unfold region_lookup. rewrite (find_app_some _ _ _ _ Hf). reflexivity.
Qed.

(* no collision: region ids are unique, so two layouts that are assigned the same created region are equal (==) *)
Lemma number_regions_ge : forall s seed k i, In (k, RId i) (number_regions s seed) -> seed <= i.
Proof.
  induction s as [|x t IH]; intros seed k i H; [destruct H|]. cbn [number_regions] in H.
  destruct (has_region x).
  - destruct H as [H|H]; [inversion H; lia|]. specialize (IH _ _ _ H). lia.
  - eauto.
Qed.

Lemma number_regions_unique : forall s seed k k' i,
  In (k, RId i) (number_regions s seed) -> In (k', RId i) (number_regions s seed) -> k = k'.
Proof.
  induction s as [|x t IH]; intros seed k k' i H H'; [destruct H|]. cbn [number_regions] in H, H'.
  destruct (has_region x); [|eauto].
  destruct H as [H|H], H' as [H'|H'].
  - congruence.
  - inversion H; subst. apply number_regions_ge in H'. lia.
  - inversion H'; subst. apply number_regions_ge in H. lia.
  - eauto.
Qed.

Theorem region_lookup_faithful : forall ls l l' i,
  region_lookup (region_map ls) (Some l) = RId i -> region_lookup (region_map ls) (Some l') = RId i ->
  layout_eqb l l' = true.
Proof.
  intros ls l l' i H H'. unfold region_lookup in H, H'.
  destruct (List.find (fun kv => layout_eqb (fst kv) l) (region_map ls)) as [[k r]|] eqn:F; [|discriminate].
  destruct (List.find (fun kv => layout_eqb (fst kv) l') (region_map ls)) as [[k' r']|] eqn:F'; [|discriminate].
  cbn [snd] in H, H'. subst r r'. apply find_some in F, F'. destruct F as [I1 E1], F' as [I2 E2]. cbn [fst] in E1, E2.
  unfold region_map in I1, I2. apply in_app_or in I1, I2.
  destruct I1 as [I1|[I1|[]]]; [|discriminate]. destruct I2 as [I2|[I2|[]]]; [|discriminate].
  pose proof (number_regions_unique _ _ _ _ _ I1 I2) as K. subst k'.
  eapply layout_eqb_trans; [|exact E2]. rewrite layout_eqb_sym. exact E1.
Qed.

(* ---- DFXP: attributes printed by the writer and resolved by the reader ----------------------------------- *)
Definition nonneg_layout (l : layout) : Prop := Forall (fun sh => (0 <= s_val (fst sh))%Q) (sizes_axes l).

Lemma size_str_free_of_space : forall a, (0 <= s_val a)%Q -> free_of 32 (size_str a).
Proof.
  intros a Ha. destruct (size_str_shape a Ha) as (ip & fp & H1 & H2 & H3 & _). rewrite H1. unfold free_of, dotted.
  apply all_digits_iff in H2. destruct H2 as [_ D1].
  assert (Fd : forall s, forallb is_digit s = true -> Forall (fun x => x <> 32) s).
  { induction s as [|c s IH]; intros H; [constructor|]. cbn [forallb] in H. apply andb_true_iff in H. destruct H as [Hc Hs].
    constructor; [apply is_digit_range in Hc; lia|auto]. }
  apply Forall_app. split; [apply Forall_app; split|].
  - apply Fd. exact D1.
  - destruct H3 as [->|H3]; [constructor|]. destruct fp as [|c fp]; [constructor|].
    apply all_digits_iff in H3. destruct H3 as [_ D2]. constructor; [lia|apply Fd; exact D2].
  - destruct (s_unit a); cbn; repeat constructor; lia.
Qed.

Lemma from_string_round2 : forall a, (0 <= s_val a)%Q ->
  exists z, size_from_string (size_str a) = Ok z /\ size_equiv z (round2 a).
Proof.
  intros a Ha. destruct (print_parse a Ha) as (z & Hz & Hv & Hu). exists z. split; [exact Hz|]. split; [exact Hv|exact Hu].
Qed.

Lemma two_sizes_print : forall x y, (0 <= s_val x)%Q -> (0 <= s_val y)%Q ->
  exists x' y', two_sizes (size_str x ++ 32 :: size_str y) = Ok (x', y') /\ size_equiv x' (round2 x) /\ size_equiv y' (round2 y).
Proof.
  intros x y Hx Hy. unfold two_sizes.
  rewrite (split_ch_app _ _ _ (size_str_free_of_space x Hx)), (split_ch_free _ _ (size_str_free_of_space y Hy)).
  destruct (from_string_round2 x Hx) as (x' & Ex & Qx). destruct (from_string_round2 y Hy) as (y' & Ey & Qy).
  rewrite Ex, Ey. cbn [bind]. eauto.
Qed.

Lemma padding_print : forall p, (0 <= s_val (pd_before p))%Q -> (0 <= s_val (pd_after p))%Q ->
  (0 <= s_val (pd_start p))%Q -> (0 <= s_val (pd_end p))%Q ->
  exists p', padding_from_attr (padding_attr p) = Ok p'
    /\ size_equiv (pd_before p') (round2 (pd_before p)) /\ size_equiv (pd_after p') (round2 (pd_after p))
    /\ size_equiv (pd_start p') (round2 (pd_start p)) /\ size_equiv (pd_end p') (round2 (pd_end p)).
Proof.
  intros [b a s e] Hb Ha Hs He. cbn [pd_before pd_after pd_start pd_end] in *.
  assert (Hj : padding_attr (mkPadding b a s e) = join [32] [size_str b; size_str e; size_str a; size_str s]).
  { unfold padding_attr. cbn [pd_before pd_after pd_start pd_end join app]. repeat rewrite <- app_assoc. reflexivity. }
  rewrite Hj. rewrite padding_from_attr_tokens; [|discriminate|].
  - destruct (from_string_round2 b Hb) as (b' & Eb & Qb). destruct (from_string_round2 e He) as (e' & Ee & Qe).
    destruct (from_string_round2 a Ha) as (a' & Ea & Qa). destruct (from_string_round2 s Hs) as (s' & Es & Qs).
    cbn [res_map]. rewrite Eb, Ee, Ea, Es. cbn [bind padding_of_sizes].
    eexists. split; [reflexivity|]. cbn [pd_before pd_after pd_start pd_end]. auto.
  - repeat constructor; apply size_str_free_of_space; assumption.
Qed.

(* a region written from a layout with non-negative lengths reads back as that layout with every value rounded to two
   decimals and the absent alignment parts filled with start / after *)
Theorem dfxp_attr_roundtrip : forall l, nonneg_layout l ->
  exists r, read_region (layout_attrs l) = Ok r /\ layout_equiv r (spec_read_back l).
Proof.
  intros [o e p al wv] N. unfold nonneg_layout, sizes_axes in N. cbn [l_origin l_extent l_padding] in N.
  unfold read_region, layout_attrs. cbn [ra_origin ra_extent ra_padding ra_text_align ra_display_align l_origin l_extent l_padding l_alignment].
  assert (No : match o with Some p0 => (0 <= s_val (p_x p0))%Q /\ (0 <= s_val (p_y p0))%Q | None => True end).
  { destruct o as [[ox oy]|]; [|exact I]. cbn [app] in N. inversion N as [|? ? H1 Na]; subst. inversion Na as [|? ? H2 _]; subst. split; assumption. }
  assert (N2 : Forall (fun sh : size * bool => (0 <= s_val (fst sh))%Q)
                 ((match e with Some e0 => [(st_h e0, true); (st_v e0, false)] | None => [] end)
                  ++ (match p with Some p0 => [(pd_before p0, false); (pd_after p0, false); (pd_start p0, true); (pd_end p0, true)]
                      | None => [] end))).
  { destruct o; [|exact N]. cbn [app] in N. inversion N as [|? ? _ Na]; subst. inversion Na; subst. assumption. }
  assert (Ne : match e with Some e0 => (0 <= s_val (st_h e0))%Q /\ (0 <= s_val (st_v e0))%Q | None => True end).
  { destruct e as [[eh ev]|]; [|exact I]. cbn [app] in N2. inversion N2 as [|? ? H1 Na]; subst. inversion Na as [|? ? H2 _]; subst. split; assumption. }
  assert (N3 : Forall (fun sh : size * bool => (0 <= s_val (fst sh))%Q)
                 (match p with Some p0 => [(pd_before p0, false); (pd_after p0, false); (pd_start p0, true); (pd_end p0, true)]
                  | None => [] end)).
  { destruct e; [|exact N2]. cbn [app] in N2. inversion N2 as [|? ? _ Na]; subst. inversion Na; subst. assumption. }
  assert (Ro : exists o', opt_res point_of_attr (option_map point_attr o) = Ok o'
                          /\ opt_rel point_equiv o' (option_map (fun p => mkPoint (round2 (p_x p)) (round2 (p_y p))) o)).
  { destruct o as [[ox oy]|]; [|exists None; split; [reflexivity|exact I]]. destruct No as [H1 H2].
    cbn [option_map opt_res point_of_attr point_attr p_x p_y].
    destruct (two_sizes_print ox oy H1 H2) as (x' & y' & E & Qx & Qy). unfold point_of_attr, point_attr. cbn [p_x p_y]. rewrite E. cbn [bind fst snd].
    eexists. split; [reflexivity|]. cbn [opt_rel]. split; assumption. }
  assert (Re : exists e', opt_res stretch_of_attr (option_map stretch_attr e) = Ok e'
                          /\ opt_rel stretch_equiv e' (option_map (fun p => mkStretch (round2 (st_h p)) (round2 (st_v p))) e)).
  { destruct e as [[eh ev]|]; [|exists None; split; [reflexivity|exact I]]. destruct Ne as [H1 H2].
    cbn [option_map opt_res stretch_attr st_h st_v].
    destruct (two_sizes_print eh ev H1 H2) as (x' & y' & E & Qx & Qy). unfold stretch_of_attr, stretch_attr. cbn [st_h st_v]. rewrite E. cbn [bind fst snd].
    eexists. split; [reflexivity|]. cbn [opt_rel]. split; assumption. }
  assert (Rp : exists p', opt_res padding_from_attr (option_map padding_attr p) = Ok p'
                          /\ opt_rel padding_equiv p' (option_map (fun p => mkPadding (round2 (pd_before p)) (round2 (pd_after p))
                                                                                        (round2 (pd_start p)) (round2 (pd_end p))) p)).
  { destruct p as [pp|]; [|exists None; split; [reflexivity|exact I]].
    inversion N3 as [|? ? H1 Na]; subst. inversion Na as [|? ? H2 Nb]; subst. inversion Nb as [|? ? H3 Nc]; subst.
    inversion Nc as [|? ? H4 _]; subst. cbn [fst] in *.
    destruct (padding_print pp H1 H2 H3 H4) as (p' & E & Q1 & Q2 & Q3 & Q4).
    cbn [option_map opt_res]. rewrite E. cbn [bind]. eexists. split; [reflexivity|]. cbn [opt_rel]. unfold padding_equiv.
    cbn [pd_before pd_after pd_start pd_end]. split; [exact Q1|split; [exact Q2|split; [exact Q3|exact Q4]]]. }
  destruct Ro as (o' & Eo & Qo). destruct Re as (e' & Ee & Qe). destruct Rp as (p' & Ep & Qp).
  rewrite Eo, Ee, Ep. cbn [bind]. eexists. split; [reflexivity|].
  unfold layout_equiv, spec_read_back. cbn [l_origin l_extent l_padding l_alignment].
  split; [exact Qo|]. split; [exact Qe|]. split; [exact Qp|].
  cbn [opt_rel]. unfold alignment_equiv, align_attrs. cbn [al_h al_v].
  destruct al as [[h v]|]; cbn [fst snd al_h al_v]; [destruct h, v|]; split; reflexivity.
Qed.

(* one character: the layout chosen for it, written as region attributes and resolved by the reader, is the
   statement's expected effective layout (node > caption > language, two decimals, defaults start / after) *)
Theorem dfxp_layout_roundtrip_char : forall l c n e,
  dfxp_choice None l c n = Some e -> layout_truthy e = true -> has_region e = true -> nonneg_layout e ->
  exists r, read_region (layout_attrs e) = Ok r /\ layout_equiv r (expected_effective l c n).
Proof.
  intros l c n e H T R N. rewrite dfxp_choice_is_spec, H, T, R. cbn [andb]. apply dfxp_attr_roundtrip. exact N.
Qed.

Theorem dfxp_default_roundtrip : read_region (layout_attrs dfxp_default_region) = Ok spec_default_read.
Proof. reflexivity. Qed.

(* the check's oracle (values within 1/200 of the exact ones, defaults filled) accepts what the model reads back *)
Lemma size_close_round2 : forall z a, size_equiv z (round2 a) -> size_close z a = true.
Proof.
  intros z a [Hv Hu]. unfold size_close. cbn [round2 s_val s_unit] in Hv, Hu. rewrite Hu.
  assert (E : unit_eqb (s_unit a) (s_unit a) = true) by (apply unit_eqb_eq; reflexivity). rewrite E. cbn [andb].
  unfold q_close_tol, tol200. apply Qle_bool_iff. rewrite Hv. pose proof (hundredths_close (s_val a)) as H. lra.
Qed.

Theorem ok_effective_model : forall l c n e,
  dfxp_choice None l c n = Some e -> layout_truthy e = true -> has_region e = true -> nonneg_layout e ->
  exists r, read_region (layout_attrs e) = Ok r /\ ok_effective l c n (Some r) = true.
Proof.
  intros l c n e H T R N. destruct (dfxp_attr_roundtrip e N) as (r & Hr & Q). exists r. split; [exact Hr|].
  unfold ok_effective.
  assert (X : expected_effective_exact l c n = spec_fill_defaults e).
  { change (expected_effective_exact l c n) with (pick spec_fill_defaults l c n). rewrite choice_pick, H, T, R. reflexivity. }
  rewrite X. destruct Q as (Qo & Qe & Qp & Qa). unfold layout_close, spec_fill_defaults, spec_read_back in *.
  cbn [l_origin l_extent l_padding l_alignment] in *.
  assert (Ho : opt_eqb (fun p q => size_close (p_x p) (p_x q) && size_close (p_y p) (p_y q)) (l_origin r) (l_origin e) = true).
  { destruct (l_origin r) as [p|], (l_origin e) as [q|]; cbn [option_map opt_rel opt_eqb] in *; try contradiction; [|reflexivity].
    destruct Qo as [Q1 Q2]. cbn [p_x p_y] in *. rewrite (size_close_round2 _ _ Q1), (size_close_round2 _ _ Q2). reflexivity. }
  assert (He : opt_eqb (fun p q => size_close (st_h p) (st_h q) && size_close (st_v p) (st_v q)) (l_extent r) (l_extent e) = true).
  { destruct (l_extent r) as [p|], (l_extent e) as [q|]; cbn [option_map opt_rel opt_eqb] in *; try contradiction; [|reflexivity].
    destruct Qe as [Q1 Q2]. cbn [st_h st_v] in *. rewrite (size_close_round2 _ _ Q1), (size_close_round2 _ _ Q2). reflexivity. }
  assert (Hp : opt_eqb (fun p q => size_close (pd_before p) (pd_before q) && size_close (pd_after p) (pd_after q)
                                   && size_close (pd_start p) (pd_start q) && size_close (pd_end p) (pd_end q))
                       (l_padding r) (l_padding e) = true).
  { destruct (l_padding r) as [p|], (l_padding e) as [q|]; cbn [option_map opt_rel opt_eqb] in *; try contradiction; [|reflexivity].
    destruct Qp as (Q1 & Q2 & Q3 & Q4). cbn [pd_before pd_after pd_start pd_end] in *.
    rewrite (size_close_round2 _ _ Q1), (size_close_round2 _ _ Q2), (size_close_round2 _ _ Q3), (size_close_round2 _ _ Q4). reflexivity. }
  rewrite Ho, He, Hp. cbn [andb].
  destruct (l_alignment r) as [ar|]; cbn [opt_rel opt_eqb] in *; [|contradiction].
  apply alignment_eqb_iff. exact Qa.
Qed.

(* ---- WebVTT and fit_to_screen: the right edge of the cue box ------------------------------------------------- *)
(* a percentage layout with origin in the safe area, fit on: position + size = x + fitted width - right padding <= 90 - right padding *)
Theorem vtt_fit_right_edge : forall c l org, layout_truthy l = true -> (l_webvtt l = None \/ l_webvtt l = Some []) ->
  all_pct l = true -> w_fit c = true -> l_origin l = Some org -> in_safe_area org = true ->
  exists s ps ss, vtt_convert_positioning c (Some l) = Ok (VSet s)
    /\ vs_position s = Some ps /\ vs_size s = Some ss /\ s_unit ps = PCT /\ s_unit ss = PCT
    /\ (s_val ps + s_val ss <= 90 - pad_of pd_end l)%Q.
Proof.
  intros c l org T W P F Ho Hs.
  destruct (vtt_convert_relative_fit c l T W P F) as (l2 & H2 & P2 & Hc). rewrite Hc.
  set (l1 := mkLayout (l_origin l) (l_extent l) (l_padding l) (l_alignment l) (if w_rel c then None else l_webvtt l)) in *.
  assert (P1 : all_pct l1 = true) by (destruct l; exact P).
  assert (Ho1 : l_origin l1 = Some org) by exact Ho.
  destruct (fit_safe l1 org Ho1 Hs (all_pct_extent _ P1)) as (e' & Hf & U1 & U2 & R1 & _).
  rewrite Hf in H2. inversion H2; subst l2. clear H2.
  set (l2 := mkLayout (Some org) (Some e') (l_padding l1) (l_alignment l1) None) in *.
  destruct (vtt_arith_exact l2 org P2 eq_refl) as (pos & line & wd & Ha & (ps & -> & Up & Vp) & _ & Hw).
  cbn [l_extent l2] in Hw. destruct Hw as (ss & -> & Us & Vs).
  exists (mkVs (vtt_align (l_alignment l2)) (Some ps) line (Some ss)), ps, ss.
  split; [exact Ha|]. repeat split; try assumption.
  rewrite Vp, Vs. unfold pad_of. cbn [l_padding l2 l1 st_h]. destruct (l_padding l); lra.
Qed.

(* ---- cue splitting on arbitrary node lists: BREAK and STYLE nodes between (and around) the text nodes ----------- *)
Definition text_layouts (nodes : list nnode) : list layout :=
  flat_map (fun n => if n_kind n =? 1 then match n_layout n with Some l => [l] | None => [] end else []) nodes.

Definition texts_have_layouts (nodes : list nnode) : Prop :=
  forall n, In n nodes -> n_kind n = 1 -> exists l, n_layout n = Some l /\ layout_truthy l = true.

(* a STYLE START node that carries a layout opens the span of the text that follows: its layout equals the layout of the
   next text node (what the readers produce: the text inside a positioned span carries the span's layout) *)
Fixpoint spans_follow (nodes : list nnode) : Prop :=
  match nodes with
  | [] => True
  | n :: t =>
      (n_kind n <> 1 -> n_kind n <> 3 -> style_start (n_kind n) = true ->
       forall l, n_layout n = Some l -> layout_truthy l = true ->
       exists b, hd_error (text_layouts t) = Some b /\ layout_eqb l b = true)
      /\ spans_follow t
  end.

Lemma runs_last_cons2 : forall a b t,
  runs_last (a :: b :: t) = if layout_eqb b a then runs_last (b :: t) else a :: runs_last (b :: t).
Proof. reflexivity. Qed.

(* state "s non-empty, current layout a" (A), and state "current layout a is the layout of the next text node" (B: the
   state right after a span opened a new group; s may still be empty) *)
Lemma vtt_groups_aux_general : forall nodes, texts_have_layouts nodes -> spans_follow nodes ->
  (forall a, layout_truthy a = true ->
     vtt_groups_aux nodes true (Some a) = map Some (runs_last (a :: text_layouts nodes)))
  /\ (forall has a b, layout_truthy a = true -> hd_error (text_layouts nodes) = Some b -> layout_eqb a b = true ->
     vtt_groups_aux nodes has (Some a) = map Some (runs_last (text_layouts nodes))).
Proof.
  induction nodes as [|n t IH]; intros H S.
  - split; [reflexivity|]. intros has a b _ Hb. discriminate Hb.
  - assert (Ht : texts_have_layouts t) by (intros x Hx; apply H; right; exact Hx).
    destruct S as [Sn St]. destruct (IH Ht St) as [IHA IHB]. clear IH.
    assert (TLn : n_kind n =? 1 = false -> text_layouts (n :: t) = text_layouts t).
    { intros K. unfold text_layouts. cbn [flat_map]. rewrite K. reflexivity. }
    destruct (n_kind n =? 1) eqn:K.
    + destruct (H n (or_introl eq_refl) ltac:(lia)) as (b & Eb & Tb).
      assert (TL : text_layouts (n :: t) = b :: text_layouts t).
      { unfold text_layouts. cbn [flat_map]. rewrite K, Eb. reflexivity. }
      rewrite TL. split.
      * intros a Ta. cbn [vtt_groups_aux]. rewrite K, Eb.
        cbn [opt_layout_truthy opt_layout_eqb andb]. rewrite Ta. cbn [andb].
        rewrite (IHA b Tb), runs_last_cons2. destruct (layout_eqb b a); reflexivity.
      * intros has a b' Ta Hb Eab. cbn [hd_error] in Hb. inversion Hb; subst b'.
        cbn [vtt_groups_aux]. rewrite K, Eb. cbn [opt_layout_truthy opt_layout_eqb].
        rewrite (layout_eqb_sym b a), Eab. cbn [negb]. rewrite andb_false_r.
        apply IHA. exact Tb.
    + rewrite (TLn eq_refl). destruct (n_kind n =? 3) eqn:K3.
      * split.
        -- intros a Ta. cbn [vtt_groups_aux]. rewrite K, K3. apply IHA. exact Ta.
        -- intros has a b Ta Hb Eab. cbn [vtt_groups_aux]. rewrite K, K3. eapply IHB; eassumption.
      * assert (N1 : n_kind n <> 1) by lia. assert (N3 : n_kind n <> 3) by lia.
        specialize (Sn N1 N3). split.
        -- intros a Ta. cbn [vtt_groups_aux]. rewrite K, K3.
           destruct (style_start (n_kind n)) eqn:SS; [|cbn [andb orb]; apply IHA; exact Ta].
           cbn [andb opt_layout_truthy]. rewrite Ta. cbn [andb].
           destruct (n_layout n) as [l|] eqn:El; [|cbn [opt_layout_truthy andb orb]; apply IHA; exact Ta].
           cbn [opt_layout_truthy opt_layout_eqb].
           destruct (layout_truthy l) eqn:Tl; [|cbn [andb orb]; apply IHA; exact Ta].
           cbn [andb]. destruct (layout_eqb l a) eqn:Ela; cbn [negb orb]; [apply IHA; exact Ta|].
           destruct (Sn eq_refl l eq_refl Tl) as (b & Hb & Elb).
           rewrite (IHB _ l b Tl Hb Elb).
           destruct (text_layouts t) as [|b' r] eqn:TLt; [discriminate Hb|]. cbn [hd_error] in Hb. inversion Hb; subst b'.
           rewrite runs_last_cons2.
           destruct (layout_eqb b a) eqn:Eba; [|reflexivity].
           rewrite (layout_eqb_trans _ _ _ Elb Eba) in Ela. discriminate Ela.
        -- intros has a b Ta Hb Eab. cbn [vtt_groups_aux]. rewrite K, K3.
           assert (NoFlush : style_start (n_kind n) && has && opt_layout_truthy (Some a) && opt_layout_truthy (n_layout n)
                             && negb (opt_layout_eqb (n_layout n) (Some a)) = false).
           { destruct (style_start (n_kind n)) eqn:SS; [|reflexivity].
             destruct (n_layout n) as [l|] eqn:El; [|cbn [opt_layout_truthy]; rewrite andb_false_r; reflexivity].
             cbn [opt_layout_truthy opt_layout_eqb]. destruct (layout_truthy l) eqn:Tl; [|rewrite andb_false_r; reflexivity].
             destruct (Sn eq_refl l eq_refl Tl) as (b' & Hb' & Elb). rewrite Hb in Hb'. inversion Hb'; subst b'.
             rewrite (layout_eqb_sym a b) in Eab. rewrite (layout_eqb_trans _ _ _ Elb Eab). cbn [negb].
             apply andb_false_r. }
           rewrite NoFlush. eapply IHB; eassumption.
Qed.

(* a caption with at least one text node, every text node carrying a layout, any BREAK / STYLE nodes anywhere, every
   positioned span opening on a text node of its own layout: one cue per maximal run of equal text-node layouts *)
Theorem vtt_split_by_layout_general : forall nodes, texts_have_layouts nodes -> spans_follow nodes -> text_layouts nodes <> [] ->
  vtt_groups nodes = map Some (runs_last (text_layouts nodes)).
Proof.
  intros nodes. unfold vtt_groups. generalize false.
  induction nodes as [|n t IH]; intros has H S Hn; [contradiction|].
  assert (Ht : texts_have_layouts t) by (intros x Hx; apply H; right; exact Hx).
  destruct S as [_ St].
  cbn [vtt_groups_aux]. unfold text_layouts in *. cbn [flat_map] in *. fold (text_layouts t) in *.
  destruct (n_kind n =? 1) eqn:K.
  - destruct (H n (or_introl eq_refl) ltac:(lia)) as (b & Eb & Tb). rewrite Eb in *.
    cbn [opt_layout_truthy andb app]. rewrite andb_false_r. cbn [andb].
    apply (proj1 (vtt_groups_aux_general t Ht St)). exact Tb.
  - cbn [app] in *. destruct (n_kind n =? 3); [apply IH; assumption|].
    cbn [opt_layout_truthy]. rewrite !andb_false_r. cbn [andb]. apply IH; assumption.
Qed.

(* without positioned spans (no STYLE node carries a layout) the hypothesis on spans holds trivially *)
Lemma spans_follow_unpositioned : forall nodes,
  (forall n, In n nodes -> n_kind n <> 1 -> n_kind n <> 3 -> n_layout n = None) -> spans_follow nodes.
Proof.
  induction nodes as [|n t IH]; intros H; [exact I|]. split.
  - intros N1 N3 _ l El. rewrite (H n (or_introl eq_refl) N1 N3) in El. discriminate El.
  - apply IH. intros x Hx. apply H. right. exact Hx.
Qed.

(* the fix's point: a positioned span that follows text of another layout opens in the NEXT cue - the group that is
   flushed at the span's start node is the one of the text before it *)
Theorem vtt_span_opens_next_group : forall k a l t, style_start k = true -> layout_truthy a = true -> layout_truthy l = true ->
  layout_eqb l a = false ->
  vtt_groups_aux (mkNode k (Some l) :: t) true (Some a) = Some a :: vtt_groups_aux t (style_tags k) (Some l).
Proof.
  intros k a l t SS Ta Tl E. cbn [vtt_groups_aux n_kind n_layout].
  assert (K1 : k =? 1 = false) by (unfold style_start in SS; lia).
  assert (K3 : k =? 3 = false) by (unfold style_start in SS; lia).
  rewrite K1, K3, SS. cbn [opt_layout_truthy opt_layout_eqb andb]. rewrite Ta, Tl, E. reflexivity.
Qed.

