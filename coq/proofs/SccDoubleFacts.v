(* Facts about doubled control codes, PAC + tab offset units, backspace and extended characters
   of the SCC decoder model (model/SccDecoder.v). *)
From Coq Require Import List ZArith QArith Lia Bool ZifyBool.
From PV Require Import lib.Sx lib.Str lib.Result model.GenScc model.SccLen model.SccTime model.SccStash model.SccDecoder.
Import ListNotations.
Open Scope Z_scope.

(* ---- table facts (computed over the whole generated tables) ------------------------------------ *)
Lemma assocz_in : forall A w (l : list (Z * A)) v, assocz w l = Some v -> In w (map fst l).
Proof.
  intros A w. induction l as [|[k x] l IH]; intros v H.
  - discriminate.
  - cbn [assocz] in H. cbn [map fst]. destruct (Z.eqb_spec k w).
    + left. assumption.
    + right. eapply IH. eassumption.
Qed.

Definition is_none {A} (o : option A) : bool := match o with None => true | Some _ => false end.

Lemma is_none_true : forall A (o : option A), is_none o = true -> o = None.
Proof. intros A [x|]; [discriminate|reflexivity]. Qed.

Lemma pac_table :
  forallb (fun k => is_none (tab_of k) && negb (is_cue_start k)) (map fst scc_pac) = true.
Proof. vm_compute. reflexivity. Qed.

Lemma pac_facts : forall w, is_pac w = true -> tab_of w = None /\ is_cue_start w = false.
Proof.
  intros w H. unfold is_pac, pac_pos in H. destruct (assocz w scc_pac) eqn:E; [|discriminate].
  apply assocz_in in E. pose proof (proj1 (forallb_forall _ _) pac_table w E) as F. cbv beta in F.
  apply andb_true_iff in F. destruct F as [F1 F2]. split.
  - apply is_none_true. exact F1.
  - apply negb_true_iff. exact F2.
Qed.

Lemma tab_table :
  forallb (fun k => is_command k && negb (is_cue_start k) && negb (is_pac k)
                    && is_none (special_of k) && is_none (extended_of k)) (map fst scc_tab_offsets) = true.
Proof. vm_compute. reflexivity. Qed.

Lemma tab_facts : forall t, tab_of t <> None ->
  is_command t = true /\ is_cue_start t = false /\ is_pac t = false /\ special_of t = None /\ extended_of t = None.
Proof.
  intros t H. unfold tab_of in H. destruct (assocz t scc_tab_offsets) eqn:E; [|congruence].
  apply assocz_in in E. pose proof (proj1 (forallb_forall _ _) tab_table t E) as F. cbv beta in F.
  repeat (apply andb_true_iff in F; let G := fresh "G" in destruct F as [F G]).
  repeat split.
  - exact F.
  - apply negb_true_iff. assumption.
  - apply negb_true_iff. assumption.
  - apply is_none_true. assumption.
  - apply is_none_true. assumption.
Qed.

Lemma extended_not_bs : extended_of w_bs = None.
Proof. vm_compute. reflexivity. Qed.

Lemma extended_neq_bs : forall w txt, extended_of w = Some txt -> (w =? w_bs) = false.
Proof.
  intros w txt H. destruct (Z.eqb_spec w w_bs) as [->|]; [|reflexivity].
  rewrite extended_not_bs in H. discriminate.
Qed.

(* ---- the doubling memory (last_command, double_starter) is touched only by handle_double --------- *)
Definition dbl (s : rstate) : lastcmd * bool := (r_last s, r_dstart s).

Lemma rstate_eq : forall a b,
  r_stash a = r_stash b -> r_tk a = r_tk b -> r_last a = r_last b -> r_dstart a = r_dstart b ->
  r_pop a = r_pop b -> r_paint a = r_paint b -> r_roll a = r_roll b -> r_active a = r_active b ->
  r_queue a = r_queue b -> r_time a = r_time b -> r_tc a = r_tc b -> r_frames a = r_frames b ->
  r_offset a = r_offset b -> r_err a = r_err b -> a = b.
Proof. intros [] []; cbn; intros; subst; reflexivity. Qed.

Lemma dbl_set_buf : forall s c, dbl (set_buf s c) = dbl s.
Proof. intros. unfold set_buf. destruct (r_active s); reflexivity. Qed.
Lemma dbl_set_stash : forall s x, dbl (set_stash s x) = dbl s.  Proof. reflexivity. Qed.
Lemma dbl_set_tk : forall s x, dbl (set_tk s x) = dbl s.  Proof. reflexivity. Qed.
Lemma dbl_set_active : forall s x, dbl (set_active s x) = dbl s.  Proof. reflexivity. Qed.
Lemma dbl_set_queue : forall s x, dbl (set_queue s x) = dbl s.  Proof. reflexivity. Qed.
Lemma dbl_set_time : forall s x, dbl (set_time s x) = dbl s.  Proof. reflexivity. Qed.
Lemma dbl_set_clock : forall s x f, dbl (set_clock s x f) = dbl s.  Proof. reflexivity. Qed.
Lemma dbl_set_err : forall s x, dbl (set_err s x) = dbl s.  Proof. reflexivity. Qed.
Lemma dbl_bump : forall s, dbl (bump s) = dbl s.  Proof. reflexivity. Qed.
Lemma dbl_set_dbl : forall s l d, dbl (set_dbl s l d) = (l, d).  Proof. reflexivity. Qed.

Lemma dbl_with_time : forall s k, (forall t, dbl (k t) = dbl s) -> dbl (with_time s k) = dbl s.
Proof. intros s k H. unfold with_time. destruct (get_time _ _ _); [apply H|apply dbl_set_err]. Qed.

Lemma dbl_store : forall s c a b, dbl (store s c a b) = dbl s.
Proof. reflexivity. Qed.

Lemma dbl_pop_on : forall s e, dbl (pop_on s e) = dbl s.
Proof. intros. unfold pop_on. destruct (r_queue s) as [[c st]|]; reflexivity. Qed.

Lemma dbl_roll_up : forall s, dbl (roll_up s) = dbl s.
Proof.
  intros. unfold roll_up. cbv zeta. rewrite dbl_with_time.
  - rewrite dbl_set_buf. apply dbl_store.
  - intros t. rewrite dbl_set_stash, dbl_set_time. reflexivity.
Qed.

Lemma dbl_flush_implicit : forall s, dbl (flush_implicit s) = dbl s.
Proof.
  intros. unfold flush_implicit. destruct (r_active s).
  - destruct (r_queue s); [apply dbl_pop_on|reflexivity].
  - destruct (cr_is_empty (buf s)); [reflexivity|]. rewrite dbl_set_buf. apply dbl_store.
  - destruct (cr_is_empty (buf s)); [reflexivity|]. apply dbl_roll_up.
Qed.

Lemma dbl_activate : forall s m, dbl (activate s m) = dbl s.
Proof.
  intros. unfold activate. destruct (mode_eqb m (r_active s)); [reflexivity|].
  rewrite dbl_set_active. apply dbl_flush_implicit.
Qed.

Lemma dbl_flush_buffer : forall s, dbl (flush_buffer s) = dbl s.
Proof.
  intros. unfold flush_buffer. destruct (cr_is_empty (buf s)); [reflexivity|].
  rewrite dbl_set_buf. apply dbl_store.
Qed.

Lemma dbl_do_interpret : forall s w n, dbl (do_interpret s w n) = dbl s.
Proof.
  intros. unfold do_interpret. destruct (interpret_command _ _ _ _) as [[t c] [e|]].
  - rewrite dbl_set_err, dbl_set_buf. reflexivity.
  - rewrite dbl_set_buf. reflexivity.
Qed.

Lemma dbl_add_to_buf : forall s txt, dbl (add_to_buf s txt) = dbl s.
Proof.
  intros. unfold add_to_buf. destruct (add_chars _ _ _) as [t c]. rewrite dbl_set_buf. reflexivity.
Qed.

Lemma dbl_mode_switch : forall s0 s, dbl s = dbl s0 ->
  dbl (if (match r_err s with Some _ => true | None => false end) then s
       else with_time s (fun t => set_time s t)) = dbl s0.
Proof.
  intros s0 s H. destruct (r_err s); [exact H|]. rewrite dbl_with_time; [exact H|reflexivity].
Qed.

Lemma dbl_translate_command : forall s w n, dbl (translate_command s w n) = dbl s.
Proof.
  intros. unfold translate_command.
  destruct (w =? w_rcl); [apply dbl_activate|].
  destruct (w =? w_rdc).
  { cbv zeta. apply dbl_mode_switch. rewrite dbl_flush_buffer. apply dbl_activate. }
  destruct ((w =? w_ru2) || (w =? w_ru3) || (w =? w_ru4)).
  { cbv zeta. apply dbl_mode_switch. rewrite dbl_flush_buffer. apply dbl_activate. }
  destruct (w =? w_enm); [apply dbl_set_buf|].
  destruct (w =? w_eoc).
  { apply dbl_with_time. intros t. cbv zeta.
    set (s' := match r_queue (set_time s t) with Some _ => pop_on (set_time s t) t | None => set_time s t end).
    assert (H : dbl s' = dbl s).
    { subst s'. destruct (r_queue (set_time s t)); [rewrite dbl_pop_on|]; reflexivity. }
    clearbody s'. destruct (cr_is_empty (buf s')); [exact H|].
    rewrite dbl_set_buf. exact H. }
  destruct (w =? w_cr).
  { destruct (cr_is_empty (buf s)); [reflexivity|apply dbl_roll_up]. }
  destruct ((w =? w_edm) && _).
  { apply dbl_with_time. intros t. apply dbl_pop_on. }
  apply dbl_do_interpret.
Qed.

(* an executed word: everything after handle_double keeps the doubling memory *)
Lemma translate_word_dbl : forall s w n s',
  r_err s = None -> handle_double s w = (false, s') -> dbl (translate_word s w n) = dbl s'.
Proof.
  intros s w n s' He Hd. unfold translate_word. rewrite He, Hd. cbv beta iota zeta.
  assert (HX : forall X, dbl X = dbl s' -> dbl (match r_err X with Some _ => X | None => bump X end) = dbl s').
  { intros X HX. destruct (r_err X); [|rewrite dbl_bump]; exact HX. }
  apply HX.
  destruct (is_command w || is_pac w); [apply dbl_translate_command|].
  destruct (special_of w); [apply dbl_add_to_buf|].
  destruct (extended_of w); [rewrite dbl_add_to_buf; apply dbl_set_buf|].
  destruct (char_of (hi w)); [|reflexivity].
  destruct (char_of (lo w)); [apply dbl_add_to_buf|reflexivity].
Qed.

Lemma handle_double_exec : forall s w, fst (handle_double s w) = false -> tab_of w = None ->
  handle_double s w =
  (false, set_dbl s (LWord w) (if is_cue_start w && negb (last_is (r_last s) w) then false else r_dstart s)).
Proof.
  intros s w H Ht. unfold handle_double in *. rewrite Ht in *. cbv zeta in *.
  destruct (_ && last_is (r_last s) w); [discriminate H|].
  destruct (is_pac w && last_contains (r_last s) w); [discriminate H|].
  reflexivity.
Qed.

Lemma first_copy_last : forall s w n,
  r_err s = None -> fst (handle_double s w) = false -> tab_of w = None ->
  r_last (translate_word s w n) = LWord w.
Proof.
  intros s w n He Hd Ht.
  pose proof (translate_word_dbl s w n _ He (handle_double_exec s w Hd Ht)) as H.
  rewrite dbl_set_dbl in H. unfold dbl in H. congruence.
Qed.

(* ---- A. a doubled control code counts once ------------------------------------------------------ *)
(* every control code type (command incl. backspace, preamble code, special, extended) is doubled, whatever the
   state; the state argument is kept for the callers *)
Definition doubled_type (s : rstate) (w : Z) : bool :=
  is_command w || is_pac w
  || (match special_of w with Some _ => true | None => false end)
  || (match extended_of w with Some _ => true | None => false end).

Theorem doubling_unconditional : forall s w,
  doubled_type s w = (is_command w || is_pac w
                      || (match special_of w with Some _ => true | None => false end)
                      || (match extended_of w with Some _ => true | None => false end)).
Proof. reflexivity. Qed.

Lemma handle_double_second : forall s w, r_last s = LWord w -> doubled_type s w = true ->
  handle_double s w = (true, set_dbl s LNone (if is_cue_start w then true else r_dstart s)).
Proof.
  intros s w Hl Hd. unfold handle_double, doubled_type in *. cbv zeta. rewrite Hl. cbn [last_is].
  rewrite Z.eqb_refl, Hd. cbn [andb negb]. rewrite andb_false_r. reflexivity.
Qed.

Theorem doubling_once : forall s w n1 n2,
  r_err s = None ->
  fst (handle_double s w) = false ->
  tab_of w = None ->
  let s1 := translate_word s w n1 in
  r_err s1 = None ->
  doubled_type s1 w = true ->
  translate_word s1 w n2 = bump (set_dbl s1 LNone (if is_cue_start w then true else r_dstart s1)).
Proof.
  intros s w n1 n2 He Hd Ht s1 He1 Hty.
  assert (Hl : r_last s1 = LWord w) by (apply first_copy_last; assumption).
  unfold translate_word at 1. rewrite He1, (handle_double_second s1 w Hl Hty). reflexivity.
Qed.

Corollary doubling_once_words : forall s w rest,
  r_err s = None -> fst (handle_double s w) = false -> tab_of w = None ->
  r_err (translate_word s w (Some w)) = None -> doubled_type (translate_word s w (Some w)) w = true ->
  translate_words s (w :: w :: rest) =
  translate_words (bump (set_dbl (translate_word s w (Some w)) LNone
                     (if is_cue_start w then true else r_dstart (translate_word s w (Some w))))) rest.
Proof.
  intros s w rest He Hd Ht He1 Hty. cbn [translate_words].
  rewrite (doubling_once s w (Some w) _ He Hd Ht He1 Hty). reflexivity.
Qed.

(* ---- B. PAC + tab offset ------------------------------------------------------------------------ *)
Lemma set_dbl_same : forall s, set_dbl s (r_last s) (r_dstart s) = s.
Proof. intros []; reflexivity. Qed.

(* a tab offset that does not follow its preamble code is skipped *)
Lemma handle_double_tab_skip : forall s t, tab_of t <> None -> (forall p, r_last s = LWord p -> is_pac p = false) ->
  last_is (r_last s) t = false ->
  handle_double s t = (true, s).
Proof.
  intros s t Ht Hl Hli. destruct (tab_facts t Ht) as (_ & Hc & Hp & _ & _).
  unfold handle_double. cbv zeta. rewrite Hli, Hc, Hp. cbn [andb]. rewrite andb_false_r.
  destruct (tab_of t); [|congruence].
  destruct (r_last s) eqn:E; try (rewrite <- E, set_dbl_same; reflexivity).
  rewrite (Hl w eq_refl). rewrite <- E, set_dbl_same. reflexivity.
Qed.

Lemma tab_skip_none : forall s t n, r_err s = None -> r_last s = LNone -> tab_of t <> None ->
  translate_word s t n = bump s.
Proof.
  intros s t n He Hl Ht. unfold translate_word. rewrite He, (handle_double_tab_skip s t Ht).
  - reflexivity.
  - intros p E. congruence.
  - rewrite Hl. reflexivity.
Qed.

Lemma pac_neq_tab : forall p t, is_pac p = true -> tab_of t <> None -> (p =? t) = false.
Proof.
  intros p t Hp Ht. destruct (Z.eqb_spec p t) as [->|]; [|reflexivity].
  destruct (pac_facts t Hp) as [E _]. congruence.
Qed.

(* the tab offset right after its (executed) preamble code is executed and remembered with it *)
Lemma tab_after_pac : forall s p t n, r_err s = None -> r_last s = LWord p -> is_pac p = true -> tab_of t <> None ->
  dbl (translate_word s t n) = (LPacTo p t, r_dstart s).
Proof.
  intros s p t n He Hl Hp Ht. destruct (tab_facts t Ht) as (_ & Hc & Hpt & _ & _).
  rewrite (translate_word_dbl s t n (set_dbl s (LPacTo p t) (r_dstart s)) He); [reflexivity|].
  unfold handle_double. cbv zeta. rewrite Hl, Hc, Hpt. cbn [last_is andb].
  rewrite (pac_neq_tab p t Hp Ht), andb_false_r, Hp.
  destruct (tab_of t); [reflexivity|congruence].
Qed.

(* the second copy of a preamble code whose first copy is remembered (alone or with its tab offset) *)
Lemma pac_second : forall s p n, r_err s = None -> is_pac p = true -> last_contains (r_last s) p = true ->
  translate_word s p n = bump (set_dbl s LNone (r_dstart s)).
Proof.
  intros s p n He Hp Hl. destruct (pac_facts p Hp) as [_ Hc].
  unfold translate_word. rewrite He. unfold handle_double. cbv zeta. rewrite Hp, Hc, Hl. cbn [andb].
  rewrite orb_true_r. cbn [orb].
  destruct (last_is (r_last s) p); reflexivity.
Qed.

Lemma bump_bump_dbl : forall s d, bump (set_dbl (bump (set_dbl s LNone d)) LNone d) = bump (bump (set_dbl s LNone d)).
Proof. intros [] d. reflexivity. Qed.

(* p t p t : the second pair is skipped entirely *)
Theorem pac_tab_unit_once : forall s p t n1 n2 n3 n4,
  r_err s = None -> is_pac p = true -> tab_of t <> None ->
  fst (handle_double s p) = false ->
  let s1 := translate_word s p n1 in r_err s1 = None ->
  let s2 := translate_word s1 t n2 in r_err s2 = None ->
  r_last s2 = LPacTo p t /\
  translate_word (translate_word s2 p n3) t n4 = bump (bump (set_dbl s2 LNone (r_dstart s2))).
Proof.
  intros s p t n1 n2 n3 n4 He Hp Ht Hd s1 He1 s2 He2.
  destruct (pac_facts p Hp) as [Htp _].
  assert (Hl1 : r_last s1 = LWord p) by (apply first_copy_last; assumption).
  pose proof (tab_after_pac s1 p t n2 He1 Hl1 Hp Ht) as D2. fold s2 in D2. unfold dbl in D2.
  assert (Hl2 : r_last s2 = LPacTo p t) by congruence.
  split; [exact Hl2|].
  rewrite (pac_second s2 p n3 He2 Hp).
  - apply tab_skip_none; [exact He2|reflexivity|exact Ht].
  - rewrite Hl2. cbn [last_contains]. rewrite Z.eqb_refl. reflexivity.
Qed.

(* p p t t : both tab offsets are skipped *)
Theorem pac_pac_tab_tab_drops_offset : forall s p t n1 n2 n3 n4,
  r_err s = None -> is_pac p = true -> tab_of t <> None ->
  fst (handle_double s p) = false ->
  let s1 := translate_word s p n1 in r_err s1 = None ->
  translate_word (translate_word (translate_word s1 p n2) t n3) t n4 = bump (bump (bump (set_dbl s1 LNone (r_dstart s1)))).
Proof.
  intros s p t n1 n2 n3 n4 He Hp Ht Hd s1 He1.
  destruct (pac_facts p Hp) as [Htp _].
  assert (Hl1 : r_last s1 = LWord p) by (apply first_copy_last; assumption).
  rewrite (pac_second s1 p n2 He1 Hp).
  - rewrite (tab_skip_none _ t n3); [|exact He1|reflexivity|exact Ht].
    apply tab_skip_none; [exact He1|reflexivity|exact Ht].
  - rewrite Hl1. cbn [last_contains]. apply Z.eqb_refl.
Qed.

(* ---- C. backspace and extended characters -------------------------------------------------------- *)
Definition ncontent (l : list inode) : str := concat (map i_text l).
Definition content (c : creator) : str := concat (map i_text (cr_nodes c)).
Definition wf_nodes (l : list inode) : Prop := forall n, In n l -> is_text n = false -> i_text n = [].

Lemma ncontent_app : forall a b, ncontent (a ++ b) = ncontent a ++ ncontent b.
Proof. intros. unfold ncontent. rewrite map_app, concat_app. reflexivity. Qed.

Lemma ncontent_one : forall n, ncontent [n] = i_text n.
Proof. intros. unfold ncontent. cbn [map concat]. apply app_nil_r. Qed.

Lemma ncontent_empty : forall l, (forall n, In n l -> i_text n = []) -> ncontent l = [].
Proof.
  induction l as [|a l IH]; intros H; [reflexivity|].
  unfold ncontent. cbn [map concat]. rewrite (H a (or_introl eq_refl)).
  apply IH. intros n Hn. apply H. right. exact Hn.
Qed.

Lemma wf_app : forall a b, wf_nodes (a ++ b) <-> wf_nodes a /\ wf_nodes b.
Proof.
  intros a b. unfold wf_nodes. split.
  - intros H. split; intros n Hn; apply H; apply in_or_app; auto.
  - intros [Ha Hb] n Hn. apply in_app_or in Hn. destruct Hn; auto.
Qed.

Lemma wf_rev : forall l, wf_nodes (rev l) <-> wf_nodes l.
Proof.
  intros l. unfold wf_nodes. split; intros H n Hn; apply H.
  - apply in_rev in Hn. exact Hn.
  - apply in_rev. exact Hn.
Qed.

Lemma wf_cons : forall n l, wf_nodes (n :: l) <-> (is_text n = false -> i_text n = []) /\ wf_nodes l.
Proof.
  intros n l. unfold wf_nodes. split.
  - intros H. split; [apply H; left; reflexivity|]. intros m Hm. apply H. right. exact Hm.
  - intros [H1 H2] m [<-|Hm]; auto.
Qed.

Lemma wf_empty_text : forall l, (forall n, In n l -> i_text n = []) -> wf_nodes l.
Proof. intros l H n Hn _. apply H. exact Hn. Qed.

Lemma last_some_snoc : forall A (l : list A) c, last (map Some l) None = Some c -> exists l', l = l' ++ [c].
Proof.
  intros A. induction l as [|a t IH]; intros c H; [discriminate|].
  destruct t as [|b t'].
  - cbn in H. inversion H. exists []. reflexivity.
  - change (last (map Some (b :: t')) None = Some c) in H. destruct (IH c H) as [l' E].
    exists (a :: l'). rewrite E. reflexivity.
Qed.

Lemma map_last_snoc : forall A (f : A -> A) l x, map_last f (l ++ [x]) = l ++ [f x].
Proof.
  intros A f. induction l as [|a l IH]; intros x; [reflexivity|].
  change ((a :: l) ++ [x]) with (a :: (l ++ [x])).
  assert (E : map_last f (a :: (l ++ [x])) = a :: map_last f (l ++ [x])).
  { destruct (l ++ [x]) eqn:E; [destruct l; discriminate|reflexivity]. }
  rewrite E, IH. reflexivity.
Qed.

Lemma last_app_ne : forall A (a b : list A) d, b <> [] -> last (a ++ b) d = last b d.
Proof.
  intros A a b d Hb. induction a as [|x a IH]; [reflexivity|].
  cbn [app]. destruct (a ++ b) eqn:E.
  - destruct a; [cbn in E; congruence|discriminate].
  - rewrite <- IH. reflexivity.
Qed.

(* the nodes after add_chars: the old nodes, some fresh empty nodes, and the text goes to a final text node *)
Lemma add_chars_shape : forall t c s, exists ext l' x,
  cr_nodes c ++ ext = l' ++ [x] /\ is_text x = true /\ (forall n, In n ext -> i_text n = []) /\
  cr_nodes (snd (add_chars t c s)) = l' ++ [add_text s x].
Proof.
  intros t c s. unfold add_chars. cbv zeta.
  set (cur := current_position t).
  set (T := mkI IText [] cur). set (B := mkI IBreak [] cur). set (R := mkI IRepos [] cur).
  assert (HT : is_text T = true) by reflexivity.
  assert (Emp : forall e, (forall n, In n e -> n = T \/ n = B \/ n = R) -> forall n, In n e -> i_text n = []).
  { intros e H n Hn. destruct (H n Hn) as [->|[->| ->]]; reflexivity. }
  assert (Fresh : forall ext l' x, cr_nodes c ++ ext = l' ++ [x] -> is_text x = true ->
            (forall n, In n ext -> n = T \/ n = B \/ n = R) ->
            forall t' : tracker, exists e0 l'0 x0, cr_nodes c ++ e0 = l'0 ++ [x0] /\ is_text x0 = true /\
              (forall n, In n e0 -> i_text n = []) /\
              cr_nodes (snd (t', mkCr (map_last (add_text s) (cr_nodes c ++ ext)) (cr_style c))) = l'0 ++ [add_text s x0]).
  { intros ext l' x E Hx He t'. exists ext, l', x.
    split; [exact E|]. split; [exact Hx|]. split; [apply Emp; exact He|].
    cbn [snd cr_nodes]. rewrite E. apply map_last_snoc. }
  assert (NoReuse : exists ext l' x,
      cr_nodes c ++ ext = l' ++ [x] /\ is_text x = true /\ (forall n, In n ext -> i_text n = []) /\
      cr_nodes (snd (let '(t', nodes2) :=
         if break_required t then (ack_repos (ack_break t), (cr_nodes c ++ [T]) ++ [B; T])
         else if tk_repos t then (ack_repos t, (cr_nodes c ++ [T]) ++ [R; T])
         else (t, cr_nodes c ++ [T]) in
         (t', mkCr (map_last (add_text s) nodes2) (cr_style c)))) = l' ++ [add_text s x]).
  { destruct (break_required t); [|destruct (tk_repos t)].
    - rewrite <- app_assoc. apply (Fresh _ (cr_nodes c ++ [T; B]) T); auto.
      + rewrite <- app_assoc. reflexivity.
      + cbn. intuition.
    - rewrite <- app_assoc. apply (Fresh _ (cr_nodes c ++ [T; R]) T); auto.
      + rewrite <- app_assoc. reflexivity.
      + cbn. intuition.
    - apply (Fresh _ (cr_nodes c) T); auto. cbn. intuition. }
  destruct (last (map Some (cr_nodes c)) None) as [n|] eqn:El; [|exact NoReuse].
  destruct (is_text n) eqn:Hn; [|exact NoReuse].
  destruct (tk_repos t) eqn:Hr; cbn [andb negb]; [exact NoReuse|].
  destruct (last_some_snoc _ _ _ El) as [l0 E0].
  destruct (break_required t).
  - apply (Fresh [B; T] (cr_nodes c ++ [B]) T); auto.
    + rewrite <- app_assoc. reflexivity.
    + cbn. intuition.
  - exists [], l0, n. split; [rewrite app_nil_r; exact E0|]. split; [exact Hn|]. split; [intros ? []|].
    cbn [snd cr_nodes]. rewrite E0. apply map_last_snoc.
Qed.

Lemma add_chars_content : forall t c s, content (snd (add_chars t c s)) = content c ++ s.
Proof.
  intros t c s. destruct (add_chars_shape t c s) as (ext & l' & x & E & _ & He & Hn).
  unfold content. rewrite Hn. fold (ncontent (l' ++ [add_text s x])). fold (ncontent (cr_nodes c)).
  rewrite ncontent_app, ncontent_one. cbn [add_text i_text].
  assert (H : ncontent (cr_nodes c) = ncontent l' ++ i_text x).
  { rewrite <- (ncontent_one x), <- ncontent_app, <- E, ncontent_app, (ncontent_empty ext He).
    symmetry. apply app_nil_r. }
  rewrite H, app_assoc. reflexivity.
Qed.

Lemma add_chars_wf : forall t c s, wf_nodes (cr_nodes c) -> wf_nodes (cr_nodes (snd (add_chars t c s))).
Proof.
  intros t c s W. destruct (add_chars_shape t c s) as (ext & l' & x & E & Hx & He & Hn).
  rewrite Hn. assert (W' : wf_nodes (l' ++ [x])).
  { rewrite <- E. apply wf_app. split; [exact W|apply wf_empty_text; exact He]. }
  apply wf_app in W'. apply wf_app. split; [apply W'|].
  intros n [<-|[]] H. unfold is_text in *. cbn [add_text i_kind] in H. congruence.
Qed.

(* get_previous_text_node on the reversed node list *)
Lemma prev_text_rev_spec : forall f r b, wf_nodes r ->
  match prev_text_rev r b with
  | None => ncontent (rev r) = []
  | Some (txt, _) => exists pre, ncontent (rev r) = pre ++ txt /\ txt <> [] /\
                                 ncontent (rev (upd_prev_text_rev f r)) = pre ++ f txt
  end.
Proof.
  intros f. induction r as [|n r IH]; intros b W; [reflexivity|].
  apply wf_cons in W. destruct W as [Wn W].
  cbn [prev_text_rev upd_prev_text_rev]. destruct (is_text n && nonempty (i_text n)) eqn:E.
  - exists (ncontent (rev r)). cbn [rev]. rewrite !ncontent_app, !ncontent_one. cbn [i_text].
    repeat split. apply andb_true_iff in E. destruct E as [_ E]. destruct (i_text n); [discriminate|congruence].
  - assert (Hn : i_text n = []).
    { destruct (is_text n); [|auto]. cbn [andb] in E. destruct (i_text n); [reflexivity|discriminate]. }
    specialize (IH (b || is_break n) W).
    destruct (prev_text_rev r (b || is_break n)) as [[txt b']|].
    + destruct IH as (pre & H1 & H2 & H3). exists pre. cbn [rev].
      rewrite !ncontent_app, !ncontent_one, Hn, !app_nil_r. auto.
    + cbn [rev]. rewrite ncontent_app, ncontent_one, Hn, app_nil_r. exact IH.
Qed.

Lemma upd_prev_text_rev_wf : forall f r, wf_nodes r -> wf_nodes (upd_prev_text_rev f r).
Proof.
  intros f. induction r as [|n r IH]; intros W; [exact W|].
  apply wf_cons in W. destruct W as [Wn W]. cbn [upd_prev_text_rev].
  destruct (is_text n && nonempty (i_text n)) eqn:E.
  - apply wf_cons. split; [|exact W]. apply andb_true_iff in E. destruct E as [E _].
    unfold is_text in *. cbn [i_kind]. congruence.
  - apply wf_cons. split; auto.
Qed.

Lemma upd_prev_text_wf : forall f l, wf_nodes l -> wf_nodes (upd_prev_text f l).
Proof. intros f l W. unfold upd_prev_text. apply wf_rev, upd_prev_text_rev_wf, wf_rev. exact W. Qed.

Lemma prev_text_spec : forall f l, wf_nodes l ->
  match prev_text l with
  | None => ncontent l = []
  | Some (txt, _) => exists pre, ncontent l = pre ++ txt /\ txt <> [] /\
                                 ncontent (upd_prev_text f l) = pre ++ f txt
  end.
Proof.
  intros f l W. unfold prev_text, upd_prev_text.
  pose proof (prev_text_rev_spec f (rev l) false (proj2 (wf_rev l) W)) as H.
  rewrite rev_involutive in H. exact H.
Qed.

Lemma handle_backspace_wf : forall w c, wf_nodes (cr_nodes c) -> wf_nodes (cr_nodes (handle_backspace w c)).
Proof.
  intros w c W. unfold handle_backspace. destruct (prev_text (cr_nodes c)) as [[txt b]|]; [|exact W].
  destruct (_ || _); [|exact W]. cbn [cr_nodes]. apply upd_prev_text_wf. exact W.
Qed.

(* without wf_nodes a non-text node could carry text and the statement below fails *)
Example backspace_needs_wf :
  let c := mkCr [mkI IText [65] (1, 0); mkI IBreak [66] (1, 0)] SNone in
  content (handle_backspace w_bs c) = [66] /\ removelast (content c) = [65].
Proof. vm_compute. split; reflexivity. Qed.

(* original statement: forall c, content (handle_backspace w_bs c) = removelast (content c)
   (false without the node invariant, see backspace_needs_wf) *)
Theorem backspace_deletes_one : forall c, wf_nodes (cr_nodes c) ->
  content (handle_backspace w_bs c) = removelast (content c).
Proof.
  intros c W. unfold handle_backspace.
  pose proof (prev_text_spec drop_last (cr_nodes c) W) as P.
  destruct (prev_text (cr_nodes c)) as [[tx b]|].
  - destruct P as (pre & H1 & H2 & H3). rewrite Z.eqb_refl, orb_true_r.
    unfold content. cbn [cr_nodes]. fold (ncontent (upd_prev_text drop_last (cr_nodes c))).
    fold (ncontent (cr_nodes c)). rewrite H3, H1. unfold drop_last. symmetry. apply removelast_app. exact H2.
  - unfold content. fold (ncontent (cr_nodes c)). rewrite P. reflexivity.
Qed.

(* doubling_once instantiated: a doubled backspace after a SINGLE resume-caption-loading command (double_starter is
   false) erases exactly ONE character: 94ae 9420 9440 "ab" 94a1 94a1 leaves "a" *)
Example doubled_backspace_after_single_rcl :
  let s := translate_words (set_clock (rstate0 0) (lit "00:00:01:00") 0) [w_enm; w_rcl; 37952; 24930] in
  let s1 := translate_word s w_bs (Some w_bs) in
  r_err s = None /\ r_dstart s = false /\ fst (handle_double s w_bs) = false /\ tab_of w_bs = None /\
  r_err s1 = None /\ doubled_type s1 w_bs = true /\
  content (buf s) = [97; 98] /\ content (buf s1) = [97] /\
  translate_word s1 w_bs None = bump (set_dbl s1 LNone (if is_cue_start w_bs then true else r_dstart s1)) /\
  content (buf (translate_word s1 w_bs None)) = [97].
Proof.
  intros s s1.
  assert (He : r_err s = None) by (vm_compute; reflexivity).
  assert (Hd : fst (handle_double s w_bs) = false) by (vm_compute; reflexivity).
  assert (Ht : tab_of w_bs = None) by (vm_compute; reflexivity).
  assert (He1 : r_err s1 = None) by (vm_compute; reflexivity).
  assert (Hty : doubled_type s1 w_bs = true) by (vm_compute; reflexivity).
  pose proof (doubling_once s w_bs (Some w_bs) None He Hd Ht He1 Hty) as H. fold s1 in H.
  repeat split; try assumption; try exact H; vm_compute; reflexivity.
Qed.

(* the two statements below were given without wf_nodes; they fail when a non-text node carries text *)
Example extended_replaces_needs_wf :
  let w := fst (hd (0, []) scc_extended_chars) in
  let c := mkCr [mkI IText [65] (1, 0); mkI IBreak [66] (1, 0)] SNone in
  exists txt, extended_of w = Some txt /\ content c <> [] /\ is_extended_value (last (content c) 0) = false /\
    content (snd (add_chars tracker0 (handle_backspace w c) txt)) <> removelast (content c) ++ txt.
Proof.
  eexists. split; [vm_compute; reflexivity|]. split; [discriminate|]. split; [vm_compute; reflexivity|].
  vm_compute. discriminate.
Qed.

Example extended_keeps_needs_wf :
  let w := fst (hd (0, []) scc_extended_chars) in
  let x := hd 0 (snd (hd (0, []) scc_extended_chars)) in
  let c := mkCr [mkI IText [65] (1, 0); mkI IBreak [x] (1, 0)] SNone in
  exists txt, extended_of w = Some txt /\ content c <> [] /\ is_extended_value (last (content c) 0) = true /\
    content (snd (add_chars tracker0 (handle_backspace w c) txt)) <> content c ++ txt.
Proof.
  eexists. split; [vm_compute; reflexivity|]. split; [discriminate|]. split; [vm_compute; reflexivity|].
  vm_compute. discriminate.
Qed.

Theorem extended_replaces_standin : forall w txt c t, wf_nodes (cr_nodes c) ->
  extended_of w = Some txt -> content c <> [] -> is_extended_value (last (content c) 0) = false ->
  content (snd (add_chars t (handle_backspace w c) txt)) = removelast (content c) ++ txt.
Proof.
  intros w txt c t W He Hne Hx. rewrite add_chars_content. f_equal.
  unfold handle_backspace. pose proof (prev_text_spec drop_last (cr_nodes c) W) as P.
  change (content c) with (ncontent (cr_nodes c)) in *.
  destruct (prev_text (cr_nodes c)) as [[tx b]|]; [|congruence].
  destruct P as (pre & H1 & H2 & H3). rewrite H1 in Hx. rewrite (last_app_ne _ pre tx 0 H2) in Hx.
  unfold last_char. rewrite He, Hx. cbn [andb negb orb].
  unfold content. cbn [cr_nodes]. fold (ncontent (upd_prev_text drop_last (cr_nodes c))).
  rewrite H3, H1. unfold drop_last. symmetry. apply removelast_app. exact H2.
Qed.

Theorem extended_after_extended_keeps : forall w txt c t, wf_nodes (cr_nodes c) ->
  extended_of w = Some txt -> content c <> [] -> is_extended_value (last (content c) 0) = true ->
  content (snd (add_chars t (handle_backspace w c) txt)) = content c ++ txt.
Proof.
  intros w txt c t W He Hne Hx. rewrite add_chars_content. f_equal.
  unfold handle_backspace. pose proof (prev_text_spec drop_last (cr_nodes c) W) as P.
  change (content c) with (ncontent (cr_nodes c)) in *.
  destruct (prev_text (cr_nodes c)) as [[tx b]|]; [|reflexivity].
  destruct P as (pre & H1 & H2 & H3). rewrite H1 in Hx. rewrite (last_app_ne _ pre tx 0 H2) in Hx.
  unfold last_char. rewrite He, Hx, (extended_neq_bs w txt He). reflexivity.
Qed.

(* ---- interpret_command keeps the node invariant; plain commands keep the text ------------------- *)
Lemma map_last_wf : forall g l, (forall n, is_text (g n) = is_text n) -> (forall n, i_text n = [] -> i_text (g n) = []) ->
  wf_nodes l -> wf_nodes (map_last g l).
Proof.
  intros g l Hk He. induction l as [|a l IH]; intros W; [exact W|].
  apply wf_cons in W. destruct W as [Wa W]. destruct l as [|b l'].
  - cbn [map_last]. apply wf_cons. split; [|exact W]. intros H. rewrite Hk in H. auto.
  - change (map_last g (a :: b :: l')) with (a :: map_last g (b :: l')). apply wf_cons. split; auto.
Qed.

Ltac wf_solve :=
  repeat (apply wf_app; split); try assumption;
  apply wf_empty_text; intros ? [<-|[]]; reflexivity.

Lemma interpret_command_wf : forall t c w next, wf_nodes (cr_nodes c) ->
  wf_nodes (cr_nodes (snd (fst (interpret_command t c w next)))).
Proof.
  intros t c w next W. unfold interpret_command. cbv zeta.
  set (t1 := update_positioning t c w). clearbody t1.
  set (c1 := if w =? w_bs then handle_backspace w_bs c else c).
  assert (W1 : wf_nodes (cr_nodes c1)).
  { subst c1. destruct (w =? w_bs); [apply handle_backspace_wf|]; exact W. }
  clearbody c1. clear W c.
  match goal with |- wf_nodes (cr_nodes (snd (fst (match ?X with pair _ _ => _ end)))) => set (X2 := X) end.
  assert (W2 : wf_nodes (cr_nodes (fst X2))).
  { subst X2. destruct (memz w scc_background_color_codes); [|exact W1].
    destruct (last (map Some (cr_nodes c1)) None) as [n|]; [|exact W1].
    destruct (is_text n); [|exact W1]. destruct (i_text n) eqn:En; [exact W1|].
    destruct (is_space _); [|exact W1]. cbn [fst cr_nodes]. apply map_last_wf; [reflexivity| |exact W1].
    intros m Hm. cbn [i_text]. rewrite Hm. reflexivity. }
  clearbody X2. destruct X2 as [c2 e]. cbn [fst] in W2. clear W1 c1.
  match goal with |- wf_nodes (cr_nodes (snd (fst (match ?X with pair _ _ => _ end)))) => set (X3 := X) end.
  assert (W3 : wf_nodes (cr_nodes (snd X3))).
  { subst X3. destruct (memz w scc_style_setting_commands); [|exact W2].
    destruct (memz w scc_italics_commands); destruct (cr_style c2); try exact W2;
      destruct (break_required t1); cbn [snd cr_nodes]; wf_solve. }
  clearbody X3. destruct X3 as [t3 c3]. cbn [snd] in W3. clear W2 c2.
  match goal with |- wf_nodes (cr_nodes (snd (fst (match ?X with pair _ _ => _ end)))) => set (X4 := X) end.
  assert (W4 : wf_nodes (cr_nodes (snd X4))).
  { subst X4. destruct (prev_text (cr_nodes c3)) as [[txt brk]|]; [|exact W3].
    destruct (_ && _); [|exact W3].
    destruct (cr_style c3); try (cbn [snd cr_nodes]; apply upd_prev_text_wf; exact W3).
    apply add_chars_wf. exact W3. }
  clearbody X4. destruct X4 as [t4 c4]. exact W4.
Qed.

Lemma interpret_command_content_plain : forall t c w next, wf_nodes (cr_nodes c) ->
  memz w scc_mid_row_codes = false -> memz w scc_background_color_codes = false -> w <> w_bs ->
  content (snd (fst (interpret_command t c w next))) = content c.
Proof.
  intros t c w next _ Hm Hb Hw. unfold interpret_command. cbv zeta.
  apply Z.eqb_neq in Hw. rewrite Hw, Hb, Hm. cbv beta iota.
  set (t1 := update_positioning t c w). clearbody t1.
  match goal with |- content (snd (fst (match ?X with pair _ _ => _ end))) = _ => set (X3 := X) end.
  assert (C3 : content (snd X3) = content c).
  { subst X3. destruct (memz w scc_style_setting_commands); [|reflexivity].
    destruct (memz w scc_italics_commands); destruct (cr_style c); try reflexivity;
      destruct (break_required t1); unfold content; cbn [snd cr_nodes];
      fold (ncontent (cr_nodes c)); repeat (rewrite ?map_app, ?concat_app); cbn [map concat i_text app];
      rewrite ?app_nil_r; reflexivity. }
  clearbody X3. destruct X3 as [t3 c3]. cbn [snd] in C3.
  destruct (prev_text (cr_nodes c3)) as [[txt brk]|]; exact C3.
Qed.
