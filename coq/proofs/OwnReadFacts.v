(* C20 (wave 7, round 3): "and that reader reads the document" for MicroDVD.  The document written by the node-level
   writer model (model/OwnWrite.v) is an instance of C01's abstract MicroDVD document (spec/SpecTime.v mdvd_render), so
   the reader model of C01 (model/TimeRead.v mdvd_read) returns exactly one caption per written cue with the instants of
   the written frames (TimeDocFacts.mdvd_doc_exact, used read-only). *)
From Coq Require Import List ZArith QArith Qround Bool Lia ZifyBool.
From PV Require Import lib.Sx lib.Str lib.Result lib.Dec lib.StrSplit model.Generated model.Detect spec.SpecDetect
  spec.SpecOwn model.OwnWrite spec.SpecOwnNodes proofs.DetectFacts proofs.DetectOwnFacts proofs.DetectNodeFacts
  model.TimeRead spec.SpecTime proofs.TimeDocFacts.
Import ListNotations.
Open Scope Z_scope.
#[local] Ltac Zify.zify_post_hook ::= Z.to_euclidean_division_equations.

Definition to_mc (c : ocap) : mdvd_cue :=
  mkMc 0 (mdvd_frame (oc_start c)) 0 (mdvd_frame (oc_end c)) (split_ch 124 (mdvd_clean (mdvd_raw c))).

(* ---------------- the written line is the rendered cue ---------------- *)
Lemma mdvd_line_render_cue : forall c, 0 <= oc_start c -> 0 <= oc_end c ->
  OwnWrite.mdvd_line c = mdvd_render_cue false (to_mc c).
Proof.
  intros c Hs He. unfold OwnWrite.mdvd_line, OwnWrite.mdvd_cue, mdvd_render_cue, to_mc, brace, padded, mdvd_prefix.
  cbn [fst snd mc_pad0 mc_n0 mc_pad1 mc_n1 mc_lines repeat app nl].
  rewrite split_ch_join. unfold dec_z, mdvd_frame.
  replace (oc_start c / 40000 <? 0) with false by lia. replace (oc_end c / 40000 <? 0) with false by lia.
  cbn [app]. rewrite <- !app_assoc. cbn [app]. rewrite <- !app_assoc. reflexivity.
Qed.

Lemma mdvd_write_render : forall L, forallb (fun c => (0 <=? oc_start c) && (0 <=? oc_end c)) L = true ->
  mdvd_document (map OwnWrite.mdvd_cue L) = mdvd_render false None (map to_mc L).
Proof.
  unfold mdvd_render. cbn [app]. induction L as [|c t IH]; intros H; [reflexivity|].
  cbn [forallb] in H. apply andb_true_iff in H. destruct H as [Hc Ht].
  cbn [map flat_map]. rewrite <- (IH Ht). rewrite <- (mdvd_line_render_cue c) by lia.
  unfold mdvd_document. cbn [map concat]. unfold OwnWrite.mdvd_line. rewrite <- !app_assoc. reflexivity.
Qed.

(* ---------------- no LF / CR is written inside a cue ---------------- *)
Definition nolb (c : Z) : bool := negb ((c =? 10) || (c =? 13)).

Lemma mdvd_sub_nolb : forall n s, (length s <= n)%nat -> forallb nolb (mdvd_sub s) = true.
Proof.
  induction n as [|n IH]; intros s Hl.
  - destruct s; [reflexivity|cbn in Hl; lia].
  - destruct s as [|c t]; [reflexivity|]. cbn [length] in Hl. cbn [mdvd_sub].
    destruct (c =? 13) eqn:E13.
    + cbn [forallb]. destruct t as [|c2 t2]; [reflexivity|]. cbn [length] in Hl.
      destruct (c2 =? 10); cbn [nolb]; apply IH; cbn [length]; lia.
    + destruct (c =? 10) eqn:E10.
      * cbn [forallb]. apply IH. lia.
      * cbn [forallb]. unfold nolb at 1. rewrite E10, E13. cbn [orb negb andb]. apply IH. lia.
Qed.

Lemma mdvd_raw_nolb : forall c, forallb nolb (mdvd_raw c) = true.
Proof.
  intros c. unfold mdvd_raw. induction (oc_nodes c) as [|n t IH]; [reflexivity|].
  cbn [flat_map]. rewrite forallb_app, IH, andb_true_r.
  destruct n; cbn [mdvd_node]; [apply (mdvd_sub_nolb (length s) s (le_n _))|reflexivity|reflexivity].
Qed.

Lemma part_forallb : forall (P : Z -> bool) p s, part p s -> forallb P s = true -> forallb P p = true.
Proof.
  intros P p s [a [b ->]] H. rewrite !forallb_app in H. apply andb_true_iff in H. destruct H as [_ H].
  apply andb_true_iff in H. apply H.
Qed.

Lemma to_mc_dom : forall c, 0 <= oc_start c -> 40000 <= oc_end c -> mdvd_cue_dom (to_mc c) = true.
Proof.
  intros c Hs He. unfold mdvd_cue_dom, to_mc. cbn [mc_pad0 mc_n0 mc_pad1 mc_n1 mc_lines]. unfold mdvd_frame.
  replace (0 <=? oc_start c / 40000) with true by lia. replace (0 <=? oc_end c / 40000) with true by lia.
  replace (oc_end c / 40000 =? 0) with false by lia. rewrite andb_false_r. cbn [andb negb]. rewrite andb_true_r.
  apply forallb_forall. intros p Hp. unfold mdvd_line_ok. apply andb_true_iff. split.
  - apply (part_forallb nolb p (mdvd_raw c)); [|apply mdvd_raw_nolb].
    apply (part_trans _ (mdvd_clean (mdvd_raw c))); [apply (split_ch_part 124 _ p Hp)|apply mdvd_clean_part].
  - apply negb_true_iff. destruct (existsb (Z.eqb 124) p) eqn:E; [|reflexivity]. exfalso.
    apply existsb_exists in E. destruct E as [x [Hx Hx2]]. apply Z.eqb_eq in Hx2. subst x.
    apply (split_ch_no_sep 124 _ p Hp Hx).
Qed.

(* ---------------- a visible caption is written with text ---------------- *)
Lemma lstrip_by_in : forall f s x, In x s -> f x = false -> In x (lstrip_by f s).
Proof.
  intros f. induction s as [|c t IH]; intros x Hx Hf; [destruct Hx|].
  cbn [lstrip_by]. destruct (f c) eqn:E; [|exact Hx].
  destruct Hx as [<-|Hx]; [congruence|apply IH; assumption].
Qed.

Lemma rstrip_by_in : forall f s x, In x s -> f x = false -> In x (rstrip_by f s).
Proof. intros f s x Hx Hf. unfold rstrip_by. apply in_rev. rewrite rev_involutive. apply lstrip_by_in; [apply in_rev in Hx; exact Hx|exact Hf]. Qed.

Lemma mdvd_sub_in : forall n s x, (length s <= n)%nat -> In x s -> nolb x = true -> In x (mdvd_sub s).
Proof.
  induction n as [|n IH]; intros s x Hl Hx Hn.
  - destruct s; [destruct Hx|cbn in Hl; lia].
  - destruct s as [|c t]; [destruct Hx|]. cbn [length] in Hl. cbn [mdvd_sub]. unfold nolb in Hn.
    destruct (c =? 13) eqn:E13.
    + destruct Hx as [<-|Hx]; [lia|]. right. destruct t as [|c2 t2]; [destruct Hx|]. cbn [length] in Hl.
      destruct (c2 =? 10) eqn:E2.
      * destruct Hx as [<-|Hx]; [lia|]. apply IH; [lia|exact Hx|exact Hn].
      * apply IH; [cbn [length]; lia|exact Hx|exact Hn].
    + destruct (c =? 10) eqn:E10.
      * destruct Hx as [<-|Hx]; [lia|]. right. apply IH; [lia|exact Hx|exact Hn].
      * destruct Hx as [<-|Hx]; [left; reflexivity|]. right. apply IH; [lia|exact Hx|exact Hn].
Qed.

Lemma mdvd_raw_in : forall c x, In x (cap_text c) -> nolb x = true -> In x (mdvd_raw c).
Proof.
  intros c x. unfold cap_text, mdvd_raw. induction (oc_nodes c) as [|n t IH]; intros Hx Hn; [destruct Hx|].
  cbn [flat_map] in *. apply in_app_or in Hx. apply in_or_app. destruct Hx as [Hx|Hx]; [left|right; apply IH; assumption].
  destruct n; cbn [node_text mdvd_node] in *.
  - apply (mdvd_sub_in (length s) s x (le_n _) Hx Hn).
  - destruct Hx as [<-|[]]. discriminate.
  - destruct Hx.
Qed.

Lemma split_ch_aux_in : forall sep s cur x, In x (rev cur ++ s) -> x <> sep ->
  exists p, In p (split_ch_aux sep s cur) /\ In x p.
Proof.
  intros sep. induction s as [|c t IH]; intros cur x Hx Hs.
  - rewrite app_nil_r in Hx. exists (rev cur). split; [left; reflexivity|exact Hx].
  - cbn [split_ch_aux]. destruct (c =? sep) eqn:E.
    + apply in_app_or in Hx. destruct Hx as [Hx|[<-|Hx]].
      * exists (rev cur). split; [left; reflexivity|exact Hx].
      * lia.
      * destruct (IH [] x Hx Hs) as [p [Hp Hxp]]. exists p. split; [right; exact Hp|exact Hxp].
    + apply (IH (c :: cur) x); [|exact Hs]. cbn [rev]. rewrite <- app_assoc. exact Hx.
Qed.

Lemma to_mc_nonempty : forall c, mdvd_visible c = true -> mdvd_nonempty (to_mc c) = true.
Proof.
  intros c H. unfold mdvd_visible in H. apply existsb_exists in H. destruct H as [x [Hx Hv]].
  apply andb_true_iff in Hv. destruct Hv as [Hsp Hbar]. apply negb_true_iff in Hsp, Hbar.
  assert (Hn : nolb x = true) by (unfold nolb; unfold is_space in Hsp; lia).
  pose proof (mdvd_raw_in c x Hx Hn) as H1.
  assert (H2 : In x (mdvd_clean (mdvd_raw c))).
  { unfold mdvd_clean. apply rstrip_by_in; [|exact Hbar]. apply rstrip_by_in; [|exact Hsp].
    apply lstrip_by_in; [exact H1|exact Hsp]. }
  destruct (split_ch_aux_in 124 _ [] x H2 ltac:(lia)) as [p [Hp Hxp]].
  unfold mdvd_nonempty, to_mc. cbn [mc_lines]. apply existsb_exists. exists p. split; [exact Hp|].
  destruct p; [destruct Hxp|reflexivity].
Qed.

(* ---------------- instants: frame n at the default 25 fps ---------------- *)
Lemma frame_us : forall n, us (frame_instant None n) = n * 40000.
Proof.
  intros n. unfold us, frame_instant, fps_q.
  assert (E : (inject_Z n / (25 # 1) * 1000000 == inject_Z (n * 40000))%Q).
  { unfold Qeq, Qdiv, Qmult, Qinv, inject_Z. cbn. lia. }
  rewrite E. apply Qfloor_Z.
Qed.

Lemma expected_caps_map : forall L, forallb mdvd_visible L = true ->
  mdvd_expected_caps None (map to_mc L) = map mdvd_expected_cap L.
Proof.
  induction L as [|c t IH]; intros H; [reflexivity|]. cbn [forallb] in H. apply andb_true_iff in H. destruct H as [Hc Ht].
  unfold mdvd_expected_caps in *. cbn [map flat_map]. rewrite (to_mc_nonempty c Hc), (IH Ht).
  cbn [app]. f_equal. unfold mdvd_expected_cap, to_mc. cbn [mc_n0 mc_n1 mc_lines]. rewrite !frame_us. reflexivity.
Qed.

Theorem own_read_mdvd : forall langs, mdvd_read_dom langs = true ->
  mdvd_read (mdvd_write langs) = Ok (map mdvd_expected_cap (concat langs)).
Proof.
  intros langs H. unfold mdvd_read_dom in H. apply andb_true_iff in H. destruct H as [H Hv].
  apply andb_true_iff in H. destruct H as [Hne Ht].
  unfold times_nonneg in Ht. rewrite forallb_concat in Ht, Hv.
  rewrite mdvd_write_document, (mdvd_write_render _ Ht).
  rewrite mdvd_doc_exact; [|reflexivity|].
  - rewrite expected_caps_map.
    + destruct (concat langs); [discriminate|reflexivity].
    + apply forallb_forall. intros c Hc. rewrite forallb_forall in Hv. specialize (Hv c Hc).
      apply andb_true_iff in Hv. apply Hv.
  - apply forallb_forall. intros mc Hmc. apply in_map_iff in Hmc. destruct Hmc as [c [<- Hc]].
    rewrite forallb_forall in Ht, Hv. specialize (Ht c Hc). specialize (Hv c Hc).
    apply andb_true_iff in Hv. destruct Hv as [He _]. apply to_mc_dom; lia.
Qed.

Theorem own_detect_and_read_mdvd : forall langs, mdvd_dom langs = true -> mdvd_read_dom langs = true ->
  detect_format (mdvd_write langs) = Ok (Some R_MDVD) /\
  exists caps, mdvd_read (mdvd_write langs) = Ok caps /\ length caps = length (concat langs) /\
               map (fun r => (fst (fst r), snd (fst r))) caps
               = map (fun c => (mdvd_frame (oc_start c) * 40000, mdvd_frame (oc_end c) * 40000)) (concat langs).
Proof.
  intros langs Hd Hr. split; [apply own_nodes_mdvd; exact Hd|].
  exists (map mdvd_expected_cap (concat langs)). split; [apply own_read_mdvd; exact Hr|].
  split; [apply map_length|]. rewrite map_map. reflexivity.
Qed.
