(* SccReuseFacts.v - C10: reading with a reused SCCReader object.  With a reset that covers the decoder state the result of
   every read() of every history is the result of the same read() on a new object. *)
From Coq Require Import List ZArith QArith Bool.
From PV Require Import lib.Sx lib.Str lib.Result model.SccTime model.SccStash model.SccDecoder model.SccReuse.
Import ListNotations.

Lemma covers_has : forall fs f, covers fs = true -> has fs f = true.
Proof.
  intros fs f H. unfold covers in H. rewrite forallb_forall in H. apply H.
  destruct f; cbn; tauto.
Qed.

(* a covering reset re-creates the whole decoder state, whatever the object went through before *)
Theorem reset_covers_fresh : forall fs s offset, covers fs = true -> reset_fields fs s offset = rstate0 offset.
Proof.
  intros fs s offset H. unfold reset_fields. rewrite !(covers_has fs _ H). reflexivity.
Qed.

(* one read(): the result is that of a new reader object, for every state the object may be in *)
Theorem reader_read_is_fresh_read : forall fs s offset ls,
  covers fs = true -> snd (reader_read fs s offset ls) = read offset ls.
Proof.
  intros fs s offset ls H. unfold reader_read, read, run_lines. rewrite (reset_covers_fresh fs s offset H).
  cbn [snd]. destruct (r_err (fold_left translate_line ls (rstate0 offset))); reflexivity.
Qed.

(* any history of reads on one object: read k returns what a new object returns for document k *)
Theorem reader_history_isolated : forall fs docs s,
  covers fs = true -> reader_history fs s docs = map (fun d => read (fst d) (snd d)) docs.
Proof.
  intros fs docs. induction docs as [|d t IH]; intros s H; [reflexivity|].
  cbn [reader_history map]. pose proof (reader_read_is_fresh_read fs s (fst d) (snd d) H) as E.
  destruct (reader_read fs s (fst d) (snd d)) as [s1 r]. cbn [snd] in E. rewrite E, (IH s1 H). reflexivity.
Qed.

(* hence: the same document read again later, after anything else, on the same object: the same result *)
Theorem reader_history_same_document_same_result : forall fs before between after d s,
  covers fs = true ->
  let rs := reader_history fs s (before ++ d :: between ++ d :: after) in
  nth_error rs (length before) = nth_error rs (length before + S (length between)).
Proof.
  intros fs before between after d s H rs. unfold rs. rewrite (reader_history_isolated fs _ s H).
  rewrite map_app. cbn [map]. rewrite map_app. cbn [map].
  set (f := fun d0 : doc => read (fst d0) (snd d0)).
  rewrite nth_error_app2; rewrite map_length; [|apply Nat.le_refl]. rewrite Nat.sub_diag. cbn [nth_error].
  rewrite nth_error_app2; rewrite map_length; [|apply Nat.le_add_r].
  replace (length before + S (length between) - length before)%nat with (S (length between)).
  - cbn [nth_error]. rewrite nth_error_app2; rewrite map_length; [|apply Nat.le_refl]. rewrite Nat.sub_diag. reflexivity.
  - rewrite Nat.add_comm. rewrite Nat.add_sub. reflexivity.
Qed.

Theorem code_reset_covers : covers code_reset = true.
Proof. reflexivity. Qed.

(* which fields matter: the time translator (_last_time, _frames) is re-initialised by start_at() at the first line of every
   document, and nothing looks at it when there is no line - a reset that leaves these two out still isolates every read *)
Lemma has_cons_other : forall f g fs, fld_code f <> fld_code g -> has (f :: fs) g = has fs g.
Proof. intros f g fs H. unfold has. cbn [existsb]. destruct (Z.eqb (fld_code f) (fld_code g)) eqn:E; [apply Z.eqb_eq in E; contradiction|reflexivity]. Qed.

Theorem time_translator_reset_redundant : forall fs s offset ls,
  covers (FTc :: FFrames :: fs) = true -> snd (reader_read fs s offset ls) = read offset ls.
Proof.
  intros fs s offset ls H.
  assert (K : forall g, fld_code g <> 10%Z -> fld_code g <> 11%Z -> has fs g = true).
  { intros g G1 G2. rewrite <- (has_cons_other FFrames g fs), <- (has_cons_other FTc g (FFrames :: fs)).
    - apply covers_has. exact H.
    - cbn. congruence.
    - cbn. congruence. }
  unfold reader_read, read, run_lines, reset_fields.
  rewrite (K FStash), (K FTk), (K FLast), (K FDstart), (K FPop), (K FPaint), (K FRoll), (K FActive), (K FQueue), (K FTime);
    try (cbn; discriminate).
  cbn [snd].
  destruct ls as [|l t].
  - cbn. reflexivity.
  - cbn [fold_left]. unfold translate_line at 2 4. cbn [r_err rstate0]. unfold set_clock. cbn. reflexivity.
Qed.
