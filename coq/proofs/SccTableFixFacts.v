(* After the table repair (misspelt keys of plain preamble codes), EVERY preamble address code is a style-setting
   command: a plain one ends italics, an italic one starts them. Recomputed against the generated tables on every run. *)
From Coq Require Import List ZArith Bool.
From PV Require Import model.GenScc model.SccDecoder spec.Spec608 proofs.SccTableFacts.
Import ListNotations.
Open Scope Z_scope.

Theorem style_exceptions_none : style_exceptions = [].
Proof. vm_compute. reflexivity. Qed.

Theorem every_pac_sets_style : forall row attr, 1 <= row <= 15 -> 0 <= attr < 32 ->
  memz (pac_word row attr) scc_style_setting_commands = true /\
  memz (pac_word row attr) scc_italics_commands = pac_italics attr.
Proof.
  intros row attr Hr Ha. destruct (style_classes row attr Hr Ha) as [Hi [H1 H2]]. split; [|exact Hi].
  destruct (memz (pac_word row attr) scc_style_setting_commands) eqn:E; [reflexivity|].
  specialize (H1 eq_refl). rewrite style_exceptions_none in H1. destruct H1.
Qed.
