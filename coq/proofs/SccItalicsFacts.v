(* Facts about _format_italics (the seven passes) and the caption builder of the SCC decoder model:
   A. italics are balanced after format_italics (for ALL instruction lists);
   B. every caption built from a formatted list has balanced italics style nodes;
   C. the passes keep every non-empty text / break / reposition node, in order; only trailing
      whitespace of some text nodes is stripped;
   D. the caption builder conserves text. *)
From Coq Require Import List ZArith QArith Lia Bool.
From PV Require Import lib.Sx lib.Str lib.Result model.GenScc model.SccStash model.SccDecoder.
Import ListNotations.

(* ================================================================================================ *)
(* A. Balance                                                                                       *)
(* ================================================================================================ *)

(* italics alternate on/off starting with on, are closed at the end, and are closed at every reposition node
   (= caption boundary): so every caption cut out by the reposition nodes is balanced on its own *)
Fixpoint chk (on : bool) (l : list inode) : bool :=
  match l with
  | [] => negb on
  | n :: t => if is_on n then negb on && chk true t
              else if is_off n then on && chk false t
              else if is_repos n then negb on && chk false t
              else chk on t
  end.

(* strict alternation only: the end may be open, reposition nodes are allowed anywhere *)
Fixpoint alt (on : bool) (l : list inode) : bool :=
  match l with
  | [] => true
  | n :: t => if is_on n then negb on && alt true t
              else if is_off n then on && alt false t
              else alt on t
  end.

(* alternation + closed at every reposition node; the end may be open *)
Fixpoint chkr (on : bool) (l : list inode) : bool :=
  match l with
  | [] => true
  | n :: t => if is_on n then negb on && chkr true t
              else if is_off n then on && chkr false t
              else if is_repos n then negb on && chkr false t
              else chkr on t
  end.

Definition st_on (s : option bool) : bool := match s with Some true => true | _ => false end.
Definition isS {A} (o : option A) : bool := match o with Some _ => true | None => false end.

(* pass 3 *)
Lemma skip_redundant_alt : forall l s, alt (st_on s) (skip_redundant l s) = true.
Proof.
  induction l as [|n t IH]; intros s; [reflexivity|].
  destruct n as [k x p]; destruct k; simpl; try apply IH.
  - destruct s as [[|]|]; simpl;
      first [apply (IH (Some true)) | apply (IH (Some false))].
  - destruct s as [[|]|]; simpl;
      first [apply (IH (Some false)) | apply (IH (Some true))].
Qed.

(* pass 4 *)
Lemma close_chkr : forall l op, alt (isS op) l = true -> chkr (isS op) (close_before_repos l op) = true.
Proof.
  induction l as [|n t IH]; intros op H; [reflexivity|].
  destruct n as [k x p]; destruct k; simpl in *.
  - apply IH, H.
  - apply IH, H.
  - apply andb_true_iff in H; destruct H as [H1 H2]; rewrite H1; simpl.
    apply (IH (Some p)); exact H2.
  - apply andb_true_iff in H; destruct H as [H1 H2]; rewrite H1; simpl.
    apply (IH None); exact H2.
  - destruct op as [p0|]; simpl in *.
    + apply (IH (Some p0)); exact H.
    + apply (IH None); exact H.
Qed.

(* pass 5 *)
Lemma final_chk : forall l op, chkr (isS op) l = true ->
  chk (isS op) (l ++ match final_on_pos l op with Some p => [mkI IItalOff [] p] | None => [] end) = true.
Proof.
  induction l as [|n t IH]; intros op H.
  - destruct op; reflexivity.
  - destruct n as [k x p]; destruct k; simpl in *.
    + apply IH, H.
    + apply IH, H.
    + apply andb_true_iff in H; destruct H as [H1 H2]; rewrite H1; simpl.
      apply (IH (Some p)); exact H2.
    + apply andb_true_iff in H; destruct H as [H1 H2]; rewrite H1; simpl.
      apply (IH None); exact H2.
    + destruct op as [p0|]; simpl in *; [discriminate|].
      apply (IH None); exact H.
Qed.

Lemma ensure_final_closes_eq : forall l,
  ensure_final_closes l = l ++ match final_on_pos l None with Some p => [mkI IItalOff [] p] | None => [] end.
Proof.
  intros l; unfold ensure_final_closes. destruct (final_on_pos l None); [reflexivity|].
  rewrite app_nil_r; reflexivity.
Qed.

(* pass 6a *)
Lemma remove_on_off_chk : forall l,
  (forall on, chk on l = true -> chk on (remove_on_off l None) = true) /\
  (forall p, is_on p = true -> chk true l = true -> chk false (remove_on_off l (Some p)) = true).
Proof.
  induction l as [|n t [IH1 IH2]]; split.
  - intros on H; exact H.
  - intros p _ H; discriminate H.
  - intros on H. destruct n as [k x q]; destruct k; simpl in *.
    + apply IH1, H.
    + apply IH1, H.
    + apply andb_true_iff in H; destruct H as [H1 H2].
      destruct on; [discriminate|]. apply (IH2 (mkI IItalOn x q)); [reflexivity|exact H2].
    + apply andb_true_iff in H; destruct H as [H1 H2]; rewrite H1; simpl. apply IH1, H2.
    + apply andb_true_iff in H; destruct H as [H1 H2]; rewrite H1; simpl. apply IH1, H2.
  - intros p Hp H. destruct n as [k x q]; destruct k; simpl in *; rewrite ?Hp; simpl.
    + assert (Hoff : is_off p = false) by (unfold is_on, is_off in *; destruct (i_kind p); congruence).
      apply IH1, H.
    + apply IH1, H.
    + discriminate H.
    + apply IH1, H.
    + discriminate H.
Qed.

(* pass 6b *)
Lemma remove_off_on_chk : forall l,
  (forall on, chk on l = true -> chk on (remove_off_on l None) = true) /\
  (forall p, is_off p = true -> chk false l = true -> chk true (remove_off_on l (Some p)) = true).
Proof.
  induction l as [|n t [IH1 IH2]]; split.
  - intros on H; exact H.
  - intros p Hp _. assert (Hon : is_on p = false) by (unfold is_on, is_off in *; destruct (i_kind p); congruence).
    simpl. rewrite Hon, Hp. reflexivity.
  - intros on H. destruct n as [k x q]; destruct k; simpl in *.
    + apply IH1, H.
    + apply IH1, H.
    + apply andb_true_iff in H; destruct H as [H1 H2]; rewrite H1; simpl. apply IH1, H2.
    + apply andb_true_iff in H; destruct H as [H1 H2].
      destruct on; [|discriminate]. apply (IH2 (mkI IItalOff x q)); [reflexivity|exact H2].
    + apply andb_true_iff in H; destruct H as [H1 H2]; rewrite H1; simpl. apply IH1, H2.
  - intros p Hp H.
    assert (Hon : is_on p = false) by (unfold is_on, is_off in *; destruct (i_kind p); congruence).
    destruct n as [k x q]; destruct k; simpl in *; rewrite ?Hon, ?Hp; simpl.
    + apply IH1, H.
    + apply IH1, H.
    + apply IH1, H.
    + discriminate H.
    + apply IH1, H.
Qed.

(* pass 7: only text changes *)
Fixpoint chkk (on : bool) (ks : list ikind) : bool :=
  match ks with
  | [] => negb on
  | IItalOn :: t => negb on && chkk true t
  | IItalOff :: t => on && chkk false t
  | IRepos :: t => negb on && chkk false t
  | _ :: t => chkk on t
  end.

Lemma chk_kinds : forall l on, chk on l = chkk on (map i_kind l).
Proof.
  induction l as [|n t IH]; intros on; [reflexivity|].
  destruct n as [k x p]; destruct k; simpl; rewrite ?IH; reflexivity.
Qed.

Lemma sle_cons2 : forall n t,
  strip_line_ends (n :: t)
  = (if is_text n && next_plain_is_sep t then rstrip_node n else n) :: strip_line_ends t.
Proof. reflexivity. Qed.

Lemma strip_line_ends_kinds : forall l, map i_kind (strip_line_ends l) = map i_kind l.
Proof.
  induction l as [|n t IH]; [reflexivity|].
  rewrite sle_cons2, map_cons, IH. rewrite (map_cons i_kind n). f_equal.
  destruct (is_text n && next_plain_is_sep t); reflexivity.
Qed.

Lemma strip_line_ends_pos : forall l, map i_pos (strip_line_ends l) = map i_pos l.
Proof.
  induction l as [|n t IH]; [reflexivity|].
  rewrite sle_cons2, map_cons, IH. rewrite (map_cons i_pos n). f_equal.
  destruct (is_text n && next_plain_is_sep t); reflexivity.
Qed.

Theorem italics_balanced : forall l, chk false (format_italics l) = true.
Proof.
  intros l. unfold format_italics.
  rewrite chk_kinds, strip_line_ends_kinds, <- chk_kinds.
  apply (proj1 (remove_off_on_chk _)).
  apply (proj1 (remove_on_off_chk _)).
  rewrite ensure_final_closes_eq.
  apply (final_chk _ None).
  apply (close_chkr _ None).
  apply (skip_redundant_alt _ None).
Qed.

(* ================================================================================================ *)
(* B. The caption builder respects the balance                                                      *)
(* ================================================================================================ *)

Fixpoint cchk (on : bool) (l : list cnode) : bool :=
  match l with
  | [] => negb on
  | CStyle true _ :: t => negb on && cchk true t
  | CStyle false _ :: t => on && cchk false t
  | _ :: t => cchk on t
  end.

Definition cbal (c : precap) : Prop := cchk false (pc_nodes c) = true.
(* scanning the nodes of [cur] from the off state leaves the scanner in state [on] *)
Definition cinv (cur : precap) (on : bool) : Prop :=
  forall rest, cchk false (pc_nodes cur ++ rest) = cchk on rest.

Lemma cinv_snoc : forall cur on on' x s e lay,
  cinv cur on -> (forall rest, cchk on (x :: rest) = cchk on' rest) ->
  cinv (mkPre s e (pc_nodes cur ++ [x]) lay) on'.
Proof.
  intros cur on on' x s e lay H Hx rest. simpl.
  rewrite <- app_assoc. simpl. rewrite H. apply Hx.
Qed.

Lemma build_captions_balanced : forall l start e on done cur,
  chk on l = true -> Forall cbal done -> cinv cur on ->
  Forall cbal (build_captions l start e done cur).
Proof.
  induction l as [|n t IH]; intros start e on done cur H Hd Hc.
  - simpl in *. apply Forall_app; split; [exact Hd|]. constructor; [|constructor].
    unfold cbal. specialize (Hc []). rewrite app_nil_r in Hc. rewrite Hc. exact H.
  - destruct n as [k x p]; destruct k; simpl in *.
    + destruct (nonempty x).
      * apply (IH start e on); [exact H|exact Hd|].
        eapply cinv_snoc; [exact Hc|]. intros rest; reflexivity.
      * apply (IH start e on); assumption.
    + apply (IH start e on); [exact H|exact Hd|].
      unfold add_node. eapply cinv_snoc; [exact Hc|]. intros rest; reflexivity.
    + apply andb_true_iff in H; destruct H as [H1 H2]. destruct on; [discriminate|].
      apply (IH start e true); [exact H2|exact Hd|].
      unfold add_node. eapply cinv_snoc; [exact Hc|]. intros rest; reflexivity.
    + apply andb_true_iff in H; destruct H as [H1 H2]. destruct on; [|discriminate].
      apply (IH start e false); [exact H2|exact Hd|].
      unfold add_node. eapply cinv_snoc; [exact Hc|]. intros rest; reflexivity.
    + apply andb_true_iff in H; destruct H as [H1 H2]. destruct on; [discriminate|].
      apply (IH start e false); [exact H2| |].
      * apply Forall_app; split; [exact Hd|]. constructor; [|constructor].
        unfold cbal. specialize (Hc []). rewrite app_nil_r in Hc. rewrite Hc. reflexivity.
      * intros rest; reflexivity.
Qed.

Theorem captions_balanced : forall l start e,
  Forall (fun c => cchk false (pc_nodes c) = true)
         (build_captions (format_italics l) start e [] (mkPre start e [] None)).
Proof.
  intros l start e.
  apply (build_captions_balanced (format_italics l) start e false [] (mkPre start e [] None)).
  - apply italics_balanced.
  - constructor.
  - intros rest; reflexivity.
Qed.

(* ================================================================================================ *)
(* C. Text is kept                                                                                  *)
(* ================================================================================================ *)

Definition plain (n : inode) : bool := negb (is_on n || is_off n).
Definition keep (n : inode) : bool := plain n && negb (is_text n && negb (nonempty (i_text n))).
(* passes 1-6 *)
Definition passes16 (l : list inode) : list inode :=
  remove_off_on (remove_on_off (ensure_final_closes (close_before_repos (skip_redundant (skip_empty_text (skip_initial_off l false)) None) None)) None) None.

Lemma filter_comm : forall {A} (f g : A -> bool) l, filter f (filter g l) = filter g (filter f l).
Proof.
  induction l as [|a t IH]; [reflexivity|]. simpl.
  destruct (g a) eqn:G, (f a) eqn:F; simpl; rewrite ?G, ?F, IH; reflexivity.
Qed.

Lemma filter_filter_and : forall {A} (f g : A -> bool) l,
  filter g (filter f l) = filter (fun x => f x && g x) l.
Proof.
  induction l as [|a t IH]; [reflexivity|]. simpl.
  destruct (f a) eqn:F; simpl; [destruct (g a)|]; rewrite IH; reflexivity.
Qed.

Lemma sio_plain : forall l b, filter plain (skip_initial_off l b) = filter plain l.
Proof.
  induction l as [|n t IH]; intros b; [reflexivity|].
  destruct n as [k x p]; destruct k; simpl; rewrite ?IH; try reflexivity.
  destruct b; simpl; rewrite IH; reflexivity.
Qed.

Lemma sr_plain : forall l s, filter plain (skip_redundant l s) = filter plain l.
Proof.
  induction l as [|n t IH]; intros s; [reflexivity|].
  destruct n as [k x p]; destruct k; simpl; rewrite ?IH; try reflexivity.
  - destruct s as [[|]|]; simpl; rewrite IH; reflexivity.
  - destruct s as [[|]|]; simpl; rewrite IH; reflexivity.
Qed.

Lemma cbr_plain : forall l op, filter plain (close_before_repos l op) = filter plain l.
Proof.
  induction l as [|n t IH]; intros op; [reflexivity|].
  destruct n as [k x p]; destruct k; simpl; rewrite ?IH; try reflexivity.
  destruct op; simpl; rewrite IH; reflexivity.
Qed.

Lemma efc_plain : forall l, filter plain (ensure_final_closes l) = filter plain l.
Proof.
  intros l. rewrite ensure_final_closes_eq, filter_app.
  destruct (final_on_pos l None); simpl; apply app_nil_r.
Qed.

Definition pend_ok (pend : option inode) : Prop :=
  match pend with Some p => plain p = false | None => True end.

Lemma roo_plain : forall l pend, pend_ok pend -> filter plain (remove_on_off l pend) = filter plain l.
Proof.
  induction l as [|n t IH]; intros pend H; [reflexivity|].
  destruct n as [k x p]; destruct k; simpl.
  - destruct pend as [q|]; simpl in *; rewrite ?H, (IH None I); reflexivity.
  - destruct pend as [q|]; simpl in *; rewrite ?H, (IH None I); reflexivity.
  - apply (IH (Some (mkI IItalOn x p))). reflexivity.
  - destruct pend as [q|]; simpl in *; rewrite (IH None I); reflexivity.
  - destruct pend as [q|]; simpl in *; rewrite ?H, (IH None I); reflexivity.
Qed.

Lemma rof_plain : forall l pend, pend_ok pend -> filter plain (remove_off_on l pend) = filter plain l.
Proof.
  induction l as [|n t IH]; intros pend H.
  - destruct pend as [q|]; simpl in *; rewrite ?H; reflexivity.
  - destruct n as [k x p]; destruct k; simpl.
    + destruct pend as [q|]; simpl in *; rewrite ?H, (IH None I); reflexivity.
    + destruct pend as [q|]; simpl in *; rewrite ?H, (IH None I); reflexivity.
    + destruct pend as [q|]; simpl in *; rewrite (IH None I); reflexivity.
    + apply (IH (Some (mkI IItalOff x p))). reflexivity.
    + destruct pend as [q|]; simpl in *; rewrite ?H, (IH None I); reflexivity.
Qed.

Theorem passes16_keep_plain : forall l, filter plain (passes16 l) = filter keep l.
Proof.
  intros l. unfold passes16.
  rewrite (rof_plain _ None I), (roo_plain _ None I), efc_plain, cbr_plain, sr_plain.
  unfold skip_empty_text. rewrite filter_comm, sio_plain, filter_filter_and. reflexivity.
Qed.

Theorem format_italics_is : forall l, format_italics l = strip_line_ends (passes16 l).
Proof. reflexivity. Qed.

Lemma strip_line_ends_texts : forall l,
  Forall2 (fun a b => i_text b = i_text a \/ i_text b = rstrip (i_text a)) l (strip_line_ends l).
Proof.
  induction l as [|n t IH]; [constructor|].
  rewrite sle_cons2. constructor; [|exact IH].
  destruct (is_text n && next_plain_is_sep t); simpl; auto.
Qed.

Theorem strip_line_ends_shape : forall l, map i_kind (strip_line_ends l) = map i_kind l /\ map i_pos (strip_line_ends l) = map i_pos l /\
  Forall2 (fun a b => i_text b = i_text a \/ i_text b = rstrip (i_text a)) l (strip_line_ends l).
Proof.
  intros l. split; [apply strip_line_ends_kinds|]. split; [apply strip_line_ends_pos|apply strip_line_ends_texts].
Qed.

Definition nonspace (s : str) : str := filter (fun c => negb (is_space c)) s.

Lemma filter_rev' : forall {A} (f : A -> bool) l, filter f (rev l) = rev (filter f l).
Proof.
  induction l as [|a t IH]; [reflexivity|]. simpl. rewrite filter_app, IH. simpl.
  destruct (f a); simpl; [reflexivity|apply app_nil_r].
Qed.

Lemma filter_lstrip_by : forall (f : Z -> bool) s,
  filter (fun c => negb (f c)) (lstrip_by f s) = filter (fun c => negb (f c)) s.
Proof.
  induction s as [|c t IH]; [reflexivity|]. simpl.
  destruct (f c) eqn:F; simpl; [exact IH|]. rewrite F. reflexivity.
Qed.

Lemma nonspace_rstrip : forall s, nonspace (rstrip s) = nonspace s.
Proof.
  intros s. unfold nonspace, rstrip, rstrip_by.
  rewrite filter_rev', filter_lstrip_by, filter_rev', rev_involutive. reflexivity.
Qed.

Lemma nonspace_app : forall a b, nonspace (a ++ b) = nonspace a ++ nonspace b.
Proof. intros; unfold nonspace; apply filter_app. Qed.

(* The statement
     forall l, nonspace (concat (map i_text (format_italics l))) = nonspace (concat (map i_text l))
   is FALSE for arbitrary instruction lists: the record allows an italics node to carry text, and
   such a node may be dropped by the passes. *)
Example format_italics_nonspace_counterexample :
  let l := [mkI IItalOff [65%Z] (0%Z, 0%Z)] in
  nonspace (concat (map i_text (format_italics l))) = [] /\
  nonspace (concat (map i_text l)) = [65%Z].
Proof. vm_compute. split; reflexivity. Qed.

(* holds for every list the decoder builds: only text nodes carry text *)
Definition wf_nodes (l : list inode) : Prop := forall n, In n l -> is_text n = false -> i_text n = [].

Definition wfn (n : inode) : Prop := is_text n = false -> i_text n = [].

Lemma wf_nodes_Forall : forall l, wf_nodes l <-> Forall wfn l.
Proof. intros l. unfold wf_nodes, wfn. rewrite Forall_forall. reflexivity. Qed.

Lemma wfn_fresh : forall k p, wfn (mkI k [] p).
Proof. intros k p _; reflexivity. Qed.

Lemma sio_wf : forall l b, Forall wfn l -> Forall wfn (skip_initial_off l b).
Proof.
  induction l as [|n t IH]; intros b H; [constructor|]. inversion H; subst. simpl.
  destruct (is_on n); [constructor; auto|].
  destruct (is_off n); [destruct b|]; try constructor; auto.
Qed.

Lemma filter_wf : forall f l, Forall wfn l -> Forall wfn (filter f l).
Proof.
  induction l as [|n t IH]; intros H; [constructor|]. inversion H; subst. simpl.
  destruct (f n); try constructor; auto.
Qed.

Lemma sr_wf : forall l s, Forall wfn l -> Forall wfn (skip_redundant l s).
Proof.
  induction l as [|n t IH]; intros s H; [constructor|]. inversion H; subst. simpl.
  destruct (is_on n || is_off n);
    [destruct s as [b|]; [destruct (Bool.eqb (is_on n) b)|destruct (is_on n)]|];
    try constructor; auto.
Qed.

Lemma cbr_wf : forall l op, Forall wfn l -> Forall wfn (close_before_repos l op).
Proof.
  induction l as [|n t IH]; intros op H; [constructor|]. inversion H; subst. simpl.
  destruct (is_on n); [constructor; auto|].
  destruct (is_off n); [constructor; auto|].
  destruct (is_repos n); [destruct op|]; repeat (constructor; auto using wfn_fresh).
Qed.

Lemma efc_wf : forall l, Forall wfn l -> Forall wfn (ensure_final_closes l).
Proof.
  intros l H. rewrite ensure_final_closes_eq. apply Forall_app; split; [exact H|].
  destruct (final_on_pos l None); [constructor; [apply wfn_fresh|constructor]|constructor].
Qed.

Definition pend_wf (pend : option inode) : Prop :=
  match pend with Some p => wfn p | None => True end.

Lemma roo_wf : forall l pend, Forall wfn l -> pend_wf pend -> Forall wfn (remove_on_off l pend).
Proof.
  induction l as [|n t IH]; intros pend H Hp; [constructor|]. inversion H; subst. simpl.
  destruct (is_on n); [apply IH; auto|].
  destruct (is_off n); destruct pend as [q|]; simpl in *;
    repeat (constructor; auto); apply IH; simpl; auto.
Qed.

Lemma rof_wf : forall l pend, Forall wfn l -> pend_wf pend -> Forall wfn (remove_off_on l pend).
Proof.
  induction l as [|n t IH]; intros pend H Hp.
  - destruct pend; simpl in *; [constructor; [exact Hp|constructor]|constructor].
  - inversion H; subst. simpl.
    destruct (is_off n); [apply IH; auto|].
    destruct (is_on n); destruct pend as [q|]; simpl in *;
      repeat (constructor; auto); apply IH; simpl; auto.
Qed.

Lemma passes16_wf : forall l, Forall wfn l -> Forall wfn (passes16 l).
Proof.
  intros l H. unfold passes16.
  apply rof_wf; [|exact I]. apply roo_wf; [|exact I]. apply efc_wf, cbr_wf, sr_wf.
  unfold skip_empty_text. apply filter_wf, sio_wf, H.
Qed.

Definition txt (l : list inode) : str := concat (map i_text l).

Lemma txt_text_only : forall l, Forall wfn l -> txt l = txt (filter is_text l).
Proof.
  induction l as [|n t IH]; intros H; [reflexivity|]. inversion H as [|? ? Hn Ht]; subst.
  unfold txt in *. simpl. destruct (is_text n) eqn:E; simpl.
  - rewrite (IH Ht). reflexivity.
  - rewrite (Hn E). simpl. apply IH, Ht.
Qed.

Lemma filter_text_plain : forall l, filter is_text (filter plain l) = filter is_text l.
Proof.
  induction l as [|n t IH]; [reflexivity|].
  destruct n as [k x p]; destruct k; simpl; rewrite IH; reflexivity.
Qed.

Lemma txt_text_keep : forall l, txt (filter is_text (filter keep l)) = txt (filter is_text l).
Proof.
  induction l as [|n t IH]; [reflexivity|].
  destruct n as [k x p]; destruct k; simpl; try exact IH.
  destruct x as [|c x']; simpl.
  - exact IH.
  - unfold txt in *. simpl. rewrite IH. reflexivity.
Qed.

Lemma passes16_txt : forall l, Forall wfn l -> txt (passes16 l) = txt l.
Proof.
  intros l H.
  rewrite (txt_text_only _ (passes16_wf _ H)).
  rewrite <- filter_text_plain, passes16_keep_plain, txt_text_keep.
  symmetry. apply txt_text_only, H.
Qed.

Lemma strip_line_ends_nonspace : forall l, nonspace (txt (strip_line_ends l)) = nonspace (txt l).
Proof.
  induction l as [|n t IH]; [reflexivity|].
  rewrite sle_cons2. unfold txt in *.
  rewrite map_cons, concat_cons, nonspace_app, IH.
  rewrite (map_cons i_text n), concat_cons, nonspace_app. f_equal.
  destruct (is_text n && next_plain_is_sep t); [|reflexivity]. simpl. apply nonspace_rstrip.
Qed.

(* original statement (false without wf_nodes, see format_italics_nonspace_counterexample):
   Theorem format_italics_nonspace : forall l,
     nonspace (concat (map i_text (format_italics l))) = nonspace (concat (map i_text l)). *)
Theorem format_italics_nonspace_partial : forall l, wf_nodes l ->
  nonspace (concat (map i_text (format_italics l))) = nonspace (concat (map i_text l)).
Proof.
  intros l H. apply wf_nodes_Forall in H.
  rewrite format_italics_is.
  change (nonspace (txt (strip_line_ends (passes16 l))) = nonspace (txt l)).
  rewrite strip_line_ends_nonspace, (passes16_txt _ H). reflexivity.
Qed.

(* same theorem under the requested name (with the added hypothesis wf_nodes l) *)
Theorem format_italics_nonspace : forall l, wf_nodes l ->
  nonspace (concat (map i_text (format_italics l))) = nonspace (concat (map i_text l)).
Proof. exact format_italics_nonspace_partial. Qed.

(* ================================================================================================ *)
(* D. Caption building conserves text                                                               *)
(* ================================================================================================ *)

Definition ctext (n : cnode) : str := match n with CText s _ => s | _ => [] end.

Theorem build_captions_text : forall l start e done cur, (forall n, In n l -> is_text n = false -> i_text n = []) ->
  concat (map (fun c => concat (map ctext (pc_nodes c))) (build_captions l start e done cur))
  = concat (map (fun c => concat (map ctext (pc_nodes c))) done) ++ concat (map ctext (pc_nodes cur)) ++ concat (map i_text l).
Proof.
  induction l as [|n t IH]; intros start e done cur H.
  - simpl. rewrite map_app, concat_app. simpl. rewrite !app_nil_r. reflexivity.
  - assert (Ht : forall n0, In n0 t -> is_text n0 = false -> i_text n0 = [])
      by (intros n0 Hin; apply H; right; exact Hin).
    assert (Hn : is_text n = false -> i_text n = []) by (apply H; left; reflexivity).
    destruct n as [k x p]; destruct k; simpl in *.
    + destruct x as [|c x']; simpl.
      * apply IH, Ht.
      * rewrite (IH _ _ _ _ Ht). simpl. rewrite map_app, concat_app. simpl.
        rewrite app_nil_r, <- !app_assoc. reflexivity.
    + rewrite (Hn eq_refl), (IH _ _ _ _ Ht). simpl. rewrite map_app, concat_app. simpl.
      rewrite <- !app_assoc. reflexivity.
    + rewrite (Hn eq_refl), (IH _ _ _ _ Ht). simpl. rewrite map_app, concat_app. simpl.
      rewrite <- !app_assoc. reflexivity.
    + rewrite (Hn eq_refl), (IH _ _ _ _ Ht). simpl. rewrite map_app, concat_app. simpl.
      rewrite <- !app_assoc. reflexivity.
    + rewrite (Hn eq_refl), (IH _ _ _ _ Ht). simpl. rewrite map_app, concat_app. simpl.
      rewrite app_nil_r, <- !app_assoc. reflexivity.
Qed.
