(* C07, wave 7: the rendered DFXP document (model/DfxpSkel.v) is accepted by the document machine of
   spec/SpecXmlDoc.v.  Part 1: the content machine is compositional - a run stays a run when the machine has more
   elements open underneath (and more text read before), so accepted content is accepted inside any element. *)
From Coq Require Import List ZArith Lia Bool ZifyBool Arith Permutation.
From PV Require Import lib.Sx lib.Str model.DfxpXml model.DfxpRegion model.DfxpDoc model.DfxpSkel spec.SpecXmlAttr spec.SpecXmlDoc.
From PV Require Import proofs.XmlAttrFacts proofs.DfxpPayloadFacts proofs.DfxpDocFacts.
Import ListNotations.
Open Scope Z_scope.

(* ---- simulation: more open elements below, other events, other text before ---------------------------------- *)
Definition hd1 (a : str) : bool := match a with x :: _ => x =? 93 | [] => false end.
Definition hd2 (a : str) : bool := match a with x :: y :: _ => (x =? 93) && (y =? 93) | _ => false end.
Definition arel (a a' : str) : Prop := (hd1 a' = true -> hd1 a = true) /\ (hd2 a' = true -> hd2 a = true).
Definition vrel (v v' : vst) : Prop :=
  match v, v' with
  | VNormal a, VNormal a' => arel a a'
  | VRef a n, VRef a' n' => n = n' /\ arel a a'
  | _, _ => False
  end.
Definition mrel (m m' : mode) : Prop :=
  match m, m' with
  | MContent v, MContent v' => vrel v v'
  | MContent _, _ => False
  | _, MContent _ => False
  | _, _ => m = m'
  end.
Definition srel (base : list str) (s s' : pst) : Prop :=
  p_stack s' = p_stack s ++ base /\ p_tag s' = p_tag s /\ p_attrs s' = p_attrs s /\ p_aname s' = p_aname s
  /\ mrel (p_mode s) (p_mode s').

Lemma arel_cons : forall c a a', arel a a' -> arel (c :: a) (c :: a').
Proof.
  intros c a a' [H1 H2]. split; cbn [hd1 hd2]; [auto|].
  destruct a as [|x a], a' as [|y a']; cbn [hd1] in *; try discriminate; auto.
  - intros H. apply andb_prop in H. destruct H as [_ H]. specialize (H1 H). discriminate.
  - intros H. apply andb_prop in H. destruct H as [Hc H]. rewrite Hc, (H1 H). reflexivity.
Qed.

Lemma vstep_sim : forall v v' c w, vrel v v' -> vstep v c = Some w -> exists w', vstep v' c = Some w' /\ vrel w w'.
Proof.
  intros v v' c w R H. destruct v as [a|a n], v' as [a'|a' n']; cbn [vrel] in R; try contradiction.
  - cbn [vstep] in *. destruct (c =? 38); [inversion H; subst; eexists; split; [reflexivity|]; cbn [vrel]; auto|].
    destruct (c =? 60); [discriminate|]. destruct (is_xml_char c); [|discriminate].
    inversion H; subst. eexists; split; [reflexivity|]. cbn [vrel]. apply arel_cons; exact R.
  - destruct R as [<- R]. cbn [vstep] in *. destruct (c =? 59).
    + destruct (decode_ref (rev n)); [|discriminate]. inversion H; subst. eexists; split; [reflexivity|].
      cbn [vrel]. apply arel_cons; exact R.
    + destruct (length n <? 10)%nat; [|discriminate]. inversion H; subst. eexists; split; [reflexivity|]. cbn [vrel]. auto.
Qed.

Lemma after_brackets_hd2 : forall a, after_brackets (VNormal a) = hd2 a.
Proof. intros [|x [|y a]]; reflexivity. Qed.

Lemma xstep_sim : forall base s s' c t, srel base s s' -> xstep s c = Some t ->
  exists t', xstep s' c = Some t' /\ srel base t t'.
Proof.
  intros base [stack ev tag attrs aname m] [stack' ev' tag' attrs' aname' m'] c t (Hs & Ht & Ha & Hn & Hm) H.
  cbn [p_stack p_tag p_attrs p_aname p_mode] in *. subst stack' tag' attrs' aname'.
  destruct m.
  - (* content *)
    destruct m'; cbn [mrel] in Hm; try contradiction. cbn [xstep] in *.
    destruct (c =? 60).
    + destruct v as [a|a n]; [|discriminate]. destruct v0 as [a'|]; [|contradiction]. cbn [flush_text] in *.
      inversion H; subst. eexists; split; [reflexivity|]. repeat split.
    + assert (AB : after_brackets v = true \/ after_brackets v0 = false).
      { destruct v as [a|a n], v0 as [a'|a' n']; cbn [vrel] in Hm; try contradiction; [|right; reflexivity].
        rewrite !after_brackets_hd2. destruct Hm as [_ H2]. destruct (hd2 a'); [left; auto|right; reflexivity]. }
      destruct ((c =? 62) && after_brackets v) eqn:E; [discriminate|].
      assert (E' : (c =? 62) && after_brackets v0 = false).
      { destruct (c =? 62); [|reflexivity]. cbn [andb] in *. destruct AB as [AB|AB]; [congruence|exact AB]. }
      rewrite E'. destruct (vstep v c) as [w|] eqn:V; [|discriminate]. inversion H; subst.
      destruct (vstep_sim v v0 c w Hm V) as (w' & V' & R'). rewrite V'. eexists; split; [reflexivity|]. repeat split. exact R'.
  - destruct m'; cbn [mrel] in Hm; try contradiction; try discriminate. cbn [xstep] in *.
    destruct (c =? 47); [inversion H; subst; eexists; split; [reflexivity|repeat split]|].
    destruct (is_name_start c); [|discriminate]. inversion H; subst. eexists; split; [reflexivity|repeat split].
  - destruct m'; cbn [mrel] in Hm; try contradiction; try discriminate. inversion Hm; subst. cbn [xstep] in *.
    destruct (is_name_char c); [inversion H; subst; eexists; split; [reflexivity|repeat split]|].
    destruct (is_xml_space c); [inversion H; subst; eexists; split; [reflexivity|repeat split]|].
    destruct (c =? 62); [inversion H; subst; eexists; split; [reflexivity|repeat split; cbn; auto]|].
    destruct (c =? 47); [inversion H; subst; eexists; split; [reflexivity|repeat split]|discriminate].
  - destruct m'; cbn [mrel] in Hm; try contradiction; try discriminate. inversion Hm; subst. cbn [xstep] in *.
    destruct (is_xml_space c); [inversion H; subst; eexists; split; [reflexivity|repeat split]|].
    destruct (c =? 62); [inversion H; subst; eexists; split; [reflexivity|repeat split; cbn; auto]|].
    destruct (c =? 47); [inversion H; subst; eexists; split; [reflexivity|repeat split]|].
    destruct (ws0 && is_name_start c); [inversion H; subst; eexists; split; [reflexivity|repeat split]|discriminate].
  - destruct m'; cbn [mrel] in Hm; try contradiction; try discriminate. inversion Hm; subst. cbn [xstep] in *.
    destruct (is_name_char c); [inversion H; subst; eexists; split; [reflexivity|repeat split]|].
    destruct (c =? 61).
    { destruct (existsb _ attrs); [discriminate|]. inversion H; subst; eexists; split; [reflexivity|repeat split]. }
    destruct (is_xml_space c); [|discriminate].
    destruct (existsb _ attrs); [discriminate|]. inversion H; subst; eexists; split; [reflexivity|repeat split].
  - destruct m'; cbn [mrel] in Hm; try contradiction; try discriminate. cbn [xstep] in *.
    destruct (is_xml_space c); [inversion H; subst; eexists; split; [reflexivity|repeat split]|].
    destruct (c =? 61); [inversion H; subst; eexists; split; [reflexivity|repeat split]|discriminate].
  - destruct m'; cbn [mrel] in Hm; try contradiction; try discriminate. cbn [xstep] in *.
    destruct (is_xml_space c); [inversion H; subst; eexists; split; [reflexivity|repeat split]|].
    destruct ((c =? 34) || (c =? 39)); [inversion H; subst; eexists; split; [reflexivity|repeat split]|discriminate].
  - destruct m'; cbn [mrel] in Hm; try contradiction; try discriminate. inversion Hm; subst. cbn [xstep] in *.
    destruct (c =? q0).
    { destruct v0; [|discriminate]. inversion H; subst; eexists; split; [reflexivity|repeat split]. }
    destruct (vstep v0 c); [|discriminate]. inversion H; subst; eexists; split; [reflexivity|repeat split].
  - destruct m'; cbn [mrel] in Hm; try contradiction; try discriminate. cbn [xstep] in *.
    destruct (c =? 62); [inversion H; subst; eexists; split; [reflexivity|repeat split; cbn; auto]|discriminate].
  - destruct m'; cbn [mrel] in Hm; try contradiction; try discriminate. inversion Hm; subst. cbn [xstep] in *.
    destruct (is_name_char c); [inversion H; subst; eexists; split; [reflexivity|repeat split]|].
    destruct (is_xml_space c).
    { destruct n0; [discriminate|]. inversion H; subst; eexists; split; [reflexivity|repeat split]. }
    destruct (c =? 62); [|discriminate]. destruct stack as [|top rest]; [discriminate|]. cbn [app].
    destruct (str_eqb top (rev n0)); [|discriminate]. inversion H; subst; eexists; split; [reflexivity|repeat split; cbn; auto].
  - destruct m'; cbn [mrel] in Hm; try contradiction; try discriminate. inversion Hm; subst. cbn [xstep] in *.
    destruct (is_xml_space c); [inversion H; subst; eexists; split; [reflexivity|repeat split]|].
    destruct (c =? 62); [|discriminate]. destruct stack as [|top rest]; [discriminate|]. cbn [app].
    destruct (str_eqb top n0); [|discriminate]. inversion H; subst; eexists; split; [reflexivity|repeat split; cbn; auto].
Qed.

Lemma xrun_sim : forall base f s s' t, srel base s s' -> xrun s f = Some t ->
  exists t', xrun s' f = Some t' /\ srel base t t'.
Proof.
  induction f as [|c f IH]; intros s s' t R H; cbn [xrun] in *.
  - inversion H; subst. exists s'. split; [reflexivity|exact R].
  - destruct (xstep s c) as [s1|] eqn:X; [|discriminate]. destruct (xstep_sim base s s' c s1 R X) as (s1' & X' & R1).
    rewrite X'. apply (IH s1 s1' t R1 H).
Qed.

(* in content mode the tag fields are empty (invariant of every run from pst0) *)
Definition wf (s : pst) : Prop :=
  match p_mode s with MContent _ => p_tag s = [] /\ p_attrs s = [] /\ p_aname s = [] | _ => True end.
Lemma xstep_wf : forall s c t, wf s -> xstep s c = Some t -> wf t.
Proof.
  intros [stack ev tag attrs aname m] c t W H. unfold wf in *. cbn [p_mode p_tag p_attrs p_aname] in *.
  destruct m; cbn [xstep] in H;
    repeat match type of H with
           | context [if ?b then _ else _] => destruct b
           | context [match ?x with _ => _ end] => destruct x
           end; try discriminate; inversion H; subst; cbn; auto.
Qed.
Lemma xrun_wf : forall f s t, wf s -> xrun s f = Some t -> wf t.
Proof.
  induction f as [|c f IH]; intros s t W H; cbn [xrun] in H; [inversion H; subst; exact W|].
  destruct (xstep s c) as [s1|] eqn:X; [|discriminate]. apply (IH s1 t (xstep_wf s c s1 W X) H).
Qed.

(* content accepted on its own (content_parse) is accepted inside any element, after any text not ending in ']' *)
Lemma content_in_context : forall f evs, content_parse f = Some evs ->
  forall base ev acc, hd1 acc = false -> exists ev' acc', xrun (cst base ev acc) f = Some (cst base ev' acc').
Proof.
  intros f evs H base ev acc Hacc. unfold content_parse in H.
  destruct (xrun pst0 f) as [[stack ev1 tag attrs aname m]|] eqn:X; [|discriminate].
  destruct stack; [|discriminate]. destruct m; try discriminate. destruct v as [a|]; [|discriminate].
  assert (W : wf (mkPst [] ev1 tag attrs aname (MContent (VNormal a)))) by (apply (xrun_wf f pst0); [cbn; auto|exact X]).
  unfold wf in W. cbn [p_mode p_tag p_attrs p_aname] in W. destruct W as (-> & -> & ->).
  assert (R : srel base pst0 (cst base ev acc)).
  { repeat split; cbn [p_mode pst0 cst mrel vrel]; intros H0; exfalso.
    - rewrite Hacc in H0; discriminate.
    - destruct acc as [|x [|y r]]; cbn [hd1 hd2] in *; try discriminate. rewrite Hacc in H0. discriminate. }
  destruct (xrun_sim base f pst0 _ _ R X) as ([stack' ev' tag' attrs' aname' m'] & X' & (Hs & Ht & Ha & Hn & Hm)).
  cbn [p_stack p_tag p_attrs p_aname p_mode app] in *. subst. destruct m'; cbn [mrel] in Hm; try contradiction.
  destruct v; cbn [vrel] in Hm; [|contradiction]. exists ev', acc0. exact X'.
Qed.

(* white space is character data: leading white space may be dropped, trailing white space too *)
Lemma ws_run : forall w st ev acc s1, forallb is_space w = true -> xrun (cst st ev acc) w = Some s1 ->
  exists acc1, s1 = cst st ev acc1.
Proof.
  induction w as [|c w IH]; intros st ev acc s1 Hw H; cbn [xrun] in H; [inversion H; subst; eexists; reflexivity|].
  cbn [forallb] in Hw. apply andb_prop in Hw. destruct Hw as [Hc Hw].
  destruct (space_facts c Hc) as (F59 & F62 & F60 & F38). unfold cst in H at 1. cbn [xstep] in H. rewrite F60, F62 in H.
  cbn [andb vstep] in H. rewrite F38, F60 in H. destruct (is_xml_char c); [|discriminate]. apply (IH st ev (c :: acc) s1 Hw H).
Qed.

Lemma content_strip : forall f evs, content_parse f = Some evs -> exists evs', content_parse (strip f) = Some evs'.
Proof.
  intros f evs H. unfold content_parse in H.
  destruct (xrun pst0 f) as [[stack ev1 tag attrs aname m]|] eqn:X; [|discriminate].
  destruct stack; [|discriminate]. destruct m; try discriminate. destruct v as [a|]; [|discriminate].
  destruct (lstrip_split is_space f) as (w & E & Hw). fold (lstrip f) in E.
  rewrite E, xrun_app in X. destruct (xrun pst0 w) as [s1|] eqn:X1; [|discriminate].
  destruct (ws_run w [] [] [] s1 Hw X1) as [acc1 ->].
  assert (R : srel [] (cst [] [] acc1) pst0).
  { repeat split; cbn [p_mode pst0 cst mrel vrel]; cbn; discriminate. }
  destruct (xrun_sim [] _ _ _ _ R X) as ([stack' ev' tag' attrs' aname' m'] & X' & (Hs & Ht & Ha & Hn & Hm)).
  cbn [p_stack p_tag p_attrs p_aname p_mode app] in *. subst. destruct m'; cbn [mrel] in Hm; try contradiction.
  destruct v; cbn [vrel] in Hm; [|contradiction].
  assert (W : wf (mkPst [] ev' tag attrs aname (MContent (VNormal acc)))) by (apply (xrun_wf (lstrip f) pst0); [cbn; auto|exact X']).
  unfold wf in W. cbn [p_mode p_tag p_attrs p_aname] in W. destruct W as (-> & -> & ->).
  assert (A : accepted [] (lstrip f)) by (exists ev', acc; exact X').
  destruct (rstrip_accepted [] _ A) as (ev2 & acc2 & X2).
  unfold strip, strip_by. fold (lstrip f). fold (rstrip (lstrip f)). unfold content_parse. rewrite X2. cbn. eexists. reflexivity.
Qed.

(* ---- attributes of a bs4 tag: sorted, values through attr_out ------------------------------------------------- *)
Lemma doc_attr_run : forall (name v : str) stack ev tag attrs ws,
  valid_name name = true -> existsb (fun a => str_eqb (fst a) name) attrs = false -> forallb is_xml_char v = true ->
  xrun (tst stack ev tag attrs ws) (doc_attr (name, v)) = Some (tst stack ev tag ((name, v) :: attrs) false).
Proof.
  intros name v stack ev tag attrs ws Hn Hd Hv. unfold doc_attr. cbn [fst snd].
  unfold tst at 1. cbn [app xrun]. cbn [xstep]. change (is_xml_space 32) with true. cbv iota.
  destruct name as [|c t]; [discriminate|].
  cbn [valid_name] in Hn. apply andb_prop in Hn. destruct Hn as [Hc Ht].
  destruct (name_start_facts c Hc) as (F1 & F2 & F3 & F4).
  cbn [app xrun]. cbn [xstep]. rewrite F1, F2, F3, Hc. cbn [andb].
  rewrite xrun_app, name_run by exact Ht.
  assert (R : rev (rev t ++ [c]) = c :: t) by (rewrite rev_app_distr, rev_involutive; reflexivity).
  cbn [app xrun]. cbn [xstep]. rewrite R.
  assert (N61 : is_name_char 61 = false) by reflexivity. rewrite N61. cbn [Z.eqb Pos.eqb]. rewrite Hd.
  unfold attr_out. rewrite xml_escape_esc.
  destruct (quote_value_shape false v Hv) as (q & body & E & Hq & Hh & Hr). rewrite E.
  cbn [app xrun]. cbn [xstep].
  assert (Sq : is_xml_space q = false) by (destruct Hq; subst; reflexivity).
  assert (Qq : (q =? 34) || (q =? 39) = true) by lia. rewrite Sq, Qq.
  rewrite xrun_app, attr_value_run by exact Hh. rewrite Hr. cbn [xrun xstep]. rewrite Z.eqb_refl, rev_involutive. reflexivity.
Qed.

Lemma doc_attrs_run : forall attrs seen stack ev tag ws, attrs_ok attrs seen ->
  xrun (tst stack ev tag seen ws) (flat_map doc_attr attrs)
  = Some (tst stack ev tag (rev attrs ++ seen) (match attrs with [] => ws | _ => false end)).
Proof.
  induction attrs as [|[n v] t IH]; intros seen stack ev tag ws H; [reflexivity|].
  destruct H as (H1 & H2 & H3 & H4). cbn [flat_map].
  rewrite xrun_app. rewrite (doc_attr_run n v stack ev tag seen ws H1 H2 H3).
  rewrite IH by exact H4. cbn [rev]. rewrite <- app_assoc. cbn [app]. destruct t; reflexivity.
Qed.

(* attrs_ok does not depend on the order *)
Lemma seqb_eq : forall a b, str_eqb a b = true <-> a = b.
Proof.
  induction a as [|x a IH]; intros [|y b]; cbn [str_eqb]; split; intros H; try discriminate; try reflexivity.
  - apply andb_prop in H. destruct H as [H1 H2]. apply Z.eqb_eq in H1. apply IH in H2. subst. reflexivity.
  - inversion H; subst. rewrite Z.eqb_refl. cbn [andb]. apply IH. reflexivity.
Qed.
Lemma seen_false : forall n (seen : list (str * str)),
  existsb (fun a => str_eqb (fst a) n) seen = false <-> ~ In n (map fst seen).
Proof.
  intros n seen. induction seen as [|[k v] t IH]; cbn [existsb map In fst]; [tauto|].
  rewrite orb_false_iff, IH. split.
  - intros [H1 H2] [E|E]; [subst; rewrite (proj2 (seqb_eq n n) eq_refl) in H1; discriminate|tauto].
  - intros H. split; [|tauto]. destruct (str_eqb k n) eqn:E; [|reflexivity]. apply seqb_eq in E. tauto.
Qed.
Definition good_attr (kv : str * str) : Prop := valid_name (fst kv) = true /\ forallb is_xml_char (snd kv) = true.
Lemma attrs_ok_char : forall attrs seen,
  attrs_ok attrs seen <-> Forall good_attr attrs /\ (forall n, In n (map fst attrs) -> ~ In n (map fst seen)) /\ NoDup (map fst attrs).
Proof.
  induction attrs as [|[n v] t IH]; intros seen; cbn [attrs_ok map fst].
  - split; [intros _; repeat split; [constructor|intros ? []|constructor]|tauto].
  - rewrite IH, seen_false. cbn [map fst In]. split.
    + intros (H1 & H2 & H3 & H4 & H5 & H6). split; [constructor; [split; assumption|assumption]|]. split.
      * intros m [<-|Hm]; [exact H2|]. intros Hin. apply (H5 m Hm). right. exact Hin.
      * constructor; [|exact H6]. intros Hin. apply (H5 n Hin). left. reflexivity.
    + intros (H1 & H2 & H3). inversion H1 as [|? ? [G1 G2] G3]; subst. inversion H3; subst. repeat split; auto.
      intros m Hm [<-|Hin]; [contradiction|]. apply (H2 m); [right; exact Hm|exact Hin].
Qed.
Lemma insert_perm : forall a l, Permutation (a :: l) (insert_attr a l).
Proof.
  intros a l. induction l as [|b t IH]; cbn [insert_attr]; [apply Permutation_refl|].
  destruct (str_leb (fst a) (fst b)); [apply Permutation_refl|].
  apply perm_trans with (b :: a :: t); [apply perm_swap|apply perm_skip; exact IH].
Qed.
Lemma sort_perm : forall l, Permutation l (sort_attrs l).
Proof.
  induction l as [|a t IH]; [apply Permutation_refl|]. cbn [sort_attrs fold_right]. fold (sort_attrs t).
  apply perm_trans with (a :: sort_attrs t); [apply perm_skip; exact IH|apply insert_perm].
Qed.
Lemma attrs_ok_sorted : forall attrs, attrs_ok attrs [] -> attrs_ok (sort_attrs attrs) [].
Proof.
  intros attrs H. apply attrs_ok_char in H. destruct H as (H1 & _ & H3). apply attrs_ok_char.
  pose proof (sort_perm attrs) as P. split; [|split].
  - apply (Permutation_Forall P). exact H1.
  - intros n _ [].
  - apply (Permutation_NoDup (Permutation_map fst P)). exact H3.
Qed.

(* ---- tags -------------------------------------------------------------------------------------------------------- *)
Lemma ind_accepts : forall n a, accepts a a (ind n).
Proof.
  induction n as [|n IH]; intros a; [apply accepts_nil|]. change (ind (S n)) with ([32] ++ ind n).
  apply (accepts_app a a a); [apply accepts_space|apply IH].
Qed.
Lemma lf_accepts : forall a, accepts a a [10].
Proof. intros a ev acc. exists ev, (10 :: acc). reflexivity. Qed.

Lemma tagname_run : forall t n stack ev, forallb is_name_char t = true ->
  xrun (mkPst stack ev [] [] [] (MOpenName n)) t = Some (mkPst stack ev [] [] [] (MOpenName (rev t ++ n))).
Proof.
  induction t as [|c t IH]; intros n stack ev H; [reflexivity|].
  cbn [forallb] in H. apply andb_prop in H. destruct H as [H1 H2].
  cbn [xrun xstep]. rewrite H1, IH by exact H2. cbn [rev]. rewrite <- app_assoc. reflexivity.
Qed.
Lemma closename_run : forall t n stack ev, forallb is_name_char t = true ->
  xrun (mkPst stack ev [] [] [] (MCloseName n)) t = Some (mkPst stack ev [] [] [] (MCloseName (rev t ++ n))).
Proof.
  induction t as [|c t IH]; intros n stack ev H; [reflexivity|].
  cbn [forallb] in H. apply andb_prop in H. destruct H as [H1 H2].
  cbn [xrun xstep]. rewrite H1, IH by exact H2. cbn [rev]. rewrite <- app_assoc. reflexivity.
Qed.

(* "<name attrs" brings the machine into the tag *)
Lemma open_run : forall name attrs a ev acc, valid_name name = true -> attrs_ok attrs [] ->
  exists ws, xrun (cst a ev acc) ([60] ++ name ++ flat_map doc_attr attrs) = Some (tst a (map EText acc ++ ev) name (rev attrs) ws)
             \/ (attrs = [] /\ xrun (cst a ev acc) ([60] ++ name ++ flat_map doc_attr attrs)
                              = Some (mkPst a (map EText acc ++ ev) [] [] [] (MOpenName (rev name)))).
Proof.
  intros name attrs a ev acc Hn Ha. destruct name as [|c t]; [discriminate|].
  cbn [valid_name] in Hn. apply andb_prop in Hn. destruct Hn as [Hc Ht].
  destruct (name_start_facts c Hc) as (F1 & F2 & F3 & F4).
  assert (N47 : (c =? 47) = false) by exact F3.
  assert (P : xrun (cst a ev acc) ([60] ++ (c :: t)) = Some (mkPst a (map EText acc ++ ev) [] [] [] (MOpenName (rev (c :: t))))).
  { unfold cst. cbn [app xrun]. cbn [xstep flush_text]. cbn [Z.eqb Pos.eqb]. cbn [xstep]. rewrite N47, Hc.
    rewrite tagname_run by exact Ht. reflexivity. }
  exists false. destruct attrs as [|[n v] r].
  - right. split; [reflexivity|]. cbn [flat_map]. rewrite app_nil_r. exact P.
  - left. rewrite app_assoc, xrun_app, P. destruct Ha as (H1 & H2 & H3 & H4). cbn [flat_map]. rewrite xrun_app.
    unfold doc_attr at 1. cbn [fst snd app xrun]. cbn [xstep].
    assert (NC : is_name_char 32 = false) by reflexivity. rewrite NC. change (is_xml_space 32) with true. cbv iota.
    rewrite rev_involutive.
    pose proof (doc_attr_run n v a (map EText acc ++ ev) (c :: t) [] true H1 H2 H3) as D.
    unfold doc_attr in D. cbn [fst snd app xrun] in D. unfold tst in D at 1. cbn [xstep] in D.
    change (is_xml_space 32) with true in D. cbv iota in D. unfold tst at 1. rewrite D.
    rewrite (doc_attrs_run r [(n, v)] a _ (c :: t) false H4). cbn [rev]. destruct r; reflexivity.
Qed.

Lemma accepts_open : forall name attrs a, valid_name name = true -> attrs_ok attrs [] ->
  accepts a (name :: a) ([60] ++ name ++ flat_map doc_attr attrs ++ [62]).
Proof.
  intros name attrs a Hn Ha ev acc. destruct (open_run name attrs a ev acc Hn Ha) as [ws [E|[-> E]]].
  all: match goal with |- context [?x ++ ?n ++ ?f ++ ?e] =>
         assert (SPLIT : x ++ n ++ f ++ e = (x ++ n ++ f) ++ e) by (rewrite <- !app_assoc; reflexivity) end.
  - rewrite SPLIT, xrun_app, E. eexists. eexists. cbn [xrun xstep tst]. reflexivity.
  - rewrite SPLIT, xrun_app, E. cbn [xrun xstep].
    destruct name as [|c t]; [discriminate|].
    assert (L : is_name_char 62 = false) by reflexivity. rewrite L. change (is_xml_space 62) with false. cbv iota.
    cbn [Z.eqb Pos.eqb]. rewrite rev_involutive. eexists. eexists. reflexivity.
Qed.
Lemma accepts_empty : forall name attrs a, valid_name name = true -> attrs_ok attrs [] ->
  accepts a a ([60] ++ name ++ flat_map doc_attr attrs ++ [47; 62]).
Proof.
  intros name attrs a Hn Ha ev acc. destruct (open_run name attrs a ev acc Hn Ha) as [ws [E|[-> E]]].
  all: match goal with |- context [?x ++ ?n ++ ?f ++ ?e] =>
         assert (SPLIT : x ++ n ++ f ++ e = (x ++ n ++ f) ++ e) by (rewrite <- !app_assoc; reflexivity) end.
  - rewrite SPLIT, xrun_app, E. eexists. eexists. cbn [xrun xstep tst]. reflexivity.
  - rewrite SPLIT, xrun_app, E. cbn [xrun xstep].
    assert (L : is_name_char 47 = false) by reflexivity. rewrite L. change (is_xml_space 47) with false. cbv iota.
    cbn [Z.eqb Pos.eqb]. cbn [xstep]. cbn [Z.eqb Pos.eqb]. eexists. eexists. reflexivity.
Qed.
Lemma accepts_close : forall name a, valid_name name = true -> accepts (name :: a) a ([60; 47] ++ name ++ [62]).
Proof.
  intros name a Hn ev acc. destruct name as [|c t]; [discriminate|].
  cbn [valid_name] in Hn. apply andb_prop in Hn. destruct Hn as [Hc Ht].
  destruct (name_start_facts c Hc) as (F1 & F2 & F3 & F4).
  unfold cst. cbn [app xrun]. cbn [xstep flush_text]. cbn [Z.eqb Pos.eqb]. cbn [xstep]. cbn [Z.eqb Pos.eqb]. cbn [xstep]. rewrite F4.
  rewrite xrun_app, closename_run by exact Ht. cbn [xrun xstep].
  assert (L : is_name_char 62 = false) by reflexivity. rewrite L. change (is_xml_space 62) with false. cbv iota.
  cbn [Z.eqb Pos.eqb]. rewrite rev_app_distr, rev_involutive. cbn [rev app]. rewrite (proj2 (seqb_eq (c :: t) (c :: t)) eq_refl).
  eexists. eexists. reflexivity.
Qed.

(* ---- elements ---------------------------------------------------------------------------------------------------- *)
Lemma elem_accepts : forall n name attrs inner a, valid_name name = true -> attrs_ok attrs [] ->
  accepts (name :: a) (name :: a) inner -> accepts a a (elem n name attrs inner).
Proof.
  intros n name attrs inner a Hn Ha Hi. apply attrs_ok_sorted in Ha. unfold elem, doc_attrs. destruct inner as [|i0 inner'].
  - replace (ind n ++ [60] ++ name ++ flat_map doc_attr (sort_attrs attrs) ++ [47; 62; 10])
      with (ind n ++ ([60] ++ name ++ flat_map doc_attr (sort_attrs attrs) ++ [47; 62]) ++ [10])
      by (rewrite <- !app_assoc; reflexivity).
    apply (accepts_app a a a); [apply ind_accepts|]. apply (accepts_app a a a); [apply accepts_empty; assumption|apply lf_accepts].
  - set (inner := i0 :: inner') in *.
    replace (ind n ++ [60] ++ name ++ flat_map doc_attr (sort_attrs attrs) ++ [62; 10] ++ inner ++ ind n ++ [60; 47] ++ name ++ [62; 10])
      with (ind n ++ ([60] ++ name ++ flat_map doc_attr (sort_attrs attrs) ++ [62]) ++ [10] ++ inner ++ ind n
            ++ ([60; 47] ++ name ++ [62]) ++ [10])
      by (rewrite <- !app_assoc; reflexivity).
    apply (accepts_app a a a); [apply ind_accepts|].
    apply (accepts_app a (name :: a) a); [apply accepts_open; assumption|].
    apply (accepts_app _ (name :: a) a); [apply lf_accepts|].
    apply (accepts_app _ (name :: a) a); [exact Hi|].
    apply (accepts_app _ (name :: a) a); [apply ind_accepts|].
    apply (accepts_app _ a a); [apply accepts_close; exact Hn|apply lf_accepts].
Qed.

Lemma flat_map_accepts : forall (A : Type) (f : A -> str) l a, (forall x, In x l -> accepts a a (f x)) -> accepts a a (flat_map f l).
Proof.
  intros A f l a H. induction l as [|x t IH]; [apply accepts_nil|]. cbn [flat_map].
  apply (accepts_app a a a); [apply H; left; reflexivity|apply IH; intros y Hy; apply H; right; exact Hy].
Qed.

Lemma sp_content_accepts : forall s evs b, content_parse s = Some evs -> accepts b b ([32] ++ s).
Proof.
  intros s evs b H ev acc. cbn [app xrun]. unfold cst at 1. cbn [xstep]. cbn [Z.eqb Pos.eqb andb vstep]. cbn [Z.eqb Pos.eqb].
  change (is_xml_char 32) with true. cbv iota. apply (content_in_context s evs H b ev (32 :: acc)). reflexivity.
Qed.

Definition content_ok (s : str) : Prop := exists evs, content_parse s = Some evs.
Definition skp_ok (p : skp) : Prop := attrs_ok (kp_attrs p) [] /\ content_ok (kp_text p).
Definition skdiv_ok (dv : skdiv) : Prop := attrs_ok (kd_attrs dv) [] /\ Forall skp_ok (kd_ps dv).
Definition skdoc_ok (d : skdoc) : Prop :=
  attrs_ok (k_tt d) [] /\ Forall (fun a => attrs_ok a []) (k_styles d) /\ Forall (fun a => attrs_ok a []) (k_regions d)
  /\ Forall skdiv_ok (k_divs d).

Lemma p_text_accepts : forall t b, content_ok t -> accepts b b (p_text t).
Proof.
  intros t b [evs H]. unfold p_text. destruct (content_strip t evs H) as [evs' H']. destruct (strip t) as [|c s] eqn:E; [apply accepts_nil|].
  change (ind 4) with (ind 3 ++ [32]). rewrite <- app_assoc.
  apply (accepts_app b b b); [apply ind_accepts|]. rewrite app_assoc.
  apply (accepts_app b b b); [apply (sp_content_accepts _ evs'); exact H'|apply lf_accepts].
Qed.

Lemma p_elem_accepts : forall p a, skp_ok p -> accepts a a (p_elem p).
Proof.
  intros p a [Ha Ht]. apply attrs_ok_sorted in Ha. unfold p_elem, doc_attrs.
  replace (ind 3 ++ lit "<p" ++ flat_map doc_attr (sort_attrs (kp_attrs p)) ++ [62; 10] ++ p_text (kp_text p) ++ ind 3 ++ lit "</p>" ++ [10])
    with (ind 3 ++ ([60] ++ lit "p" ++ flat_map doc_attr (sort_attrs (kp_attrs p)) ++ [62]) ++ [10] ++ p_text (kp_text p) ++ ind 3
          ++ ([60; 47] ++ lit "p" ++ [62]) ++ [10])
    by (rewrite <- !app_assoc; reflexivity).
  apply (accepts_app a a a); [apply ind_accepts|].
  apply (accepts_app a (lit "p" :: a) a); [apply accepts_open; [reflexivity|exact Ha]|].
  apply (accepts_app _ (lit "p" :: a) a); [apply lf_accepts|].
  apply (accepts_app _ (lit "p" :: a) a); [apply p_text_accepts; exact Ht|].
  apply (accepts_app _ (lit "p" :: a) a); [apply ind_accepts|].
  apply (accepts_app _ a a); [apply accepts_close; reflexivity|apply lf_accepts].
Qed.

Lemma head_accepts : forall d a, skdoc_ok d -> accepts a a (head_elem d).
Proof.
  intros d a (_ & Hs & Hr & _). unfold head_elem. apply elem_accepts; [reflexivity|exact I|].
  apply (accepts_app _ (lit "head" :: a) _).
  - apply elem_accepts; [reflexivity|exact I|]. apply flat_map_accepts. intros x Hx.
    apply elem_accepts; [reflexivity| |apply accepts_nil]. rewrite Forall_forall in Hs. apply Hs. exact Hx.
  - apply elem_accepts; [reflexivity|exact I|]. apply flat_map_accepts. intros x Hx.
    apply elem_accepts; [reflexivity| |apply accepts_nil]. rewrite Forall_forall in Hr. apply Hr. exact Hx.
Qed.
Lemma body_accepts : forall d a, skdoc_ok d -> accepts a a (body_elem d).
Proof.
  intros d a (_ & _ & _ & Hd). unfold body_elem. apply elem_accepts; [reflexivity|exact I|].
  apply flat_map_accepts. intros dv Hdv. rewrite Forall_forall in Hd. destruct (Hd dv Hdv) as [Ha Hp].
  apply elem_accepts; [reflexivity|exact Ha|]. apply flat_map_accepts. intros p Hp'. apply p_elem_accepts.
  rewrite Forall_forall in Hp. apply Hp. exact Hp'.
Qed.

(* ---- the document machine ----------------------------------------------------------------------------------------- *)
Lemma drun_app : forall a b st, drun st (a ++ b) = match drun st a with Some st' => drun st' b | None => None end.
Proof. induction a as [|c t IH]; intros b st; cbn [app drun]; [reflexivity|]. destruct (dstep st c); [apply IH|reflexivity]. Qed.

(* inside the root element (something is open underneath) the document machine is the content machine *)
Lemma drun_root_sim : forall base f s s' t, base <> [] -> srel base s s' -> xrun s f = Some t ->
  exists t', drun (DRoot, s') f = Some (DRoot, t') /\ srel base t t'.
Proof.
  intros base. induction f as [|c f IH]; intros s s' t B R H; cbn [xrun drun] in *.
  - inversion H; subst. exists s'. split; [reflexivity|exact R].
  - destruct (xstep s c) as [s1|] eqn:X; [|discriminate]. destruct (xstep_sim base s s' c s1 R X) as (s1' & X' & R1).
    unfold dstep. cbn [fst snd]. rewrite X'.
    assert (C : root_closed s1' = false).
    { unfold root_closed. destruct R1 as (Hs & _). rewrite Hs. destruct (p_stack s1); [destruct base; [contradiction|reflexivity]|reflexivity]. }
    rewrite C. apply (IH s1 s1' t B R1 H).
Qed.

(* without '>' an element is neither completed nor closed *)
Lemma no_gt_step : forall s c t, root_closed s = false -> (c =? 62) = false -> xstep s c = Some t -> root_closed t = false.
Proof.
  intros [stack ev tag attrs aname m] c t C G H. unfold root_closed in *. cbn [p_stack p_mode] in *.
  destruct m; cbn [xstep] in H; rewrite ?G in H; cbn [andb] in H;
    repeat match type of H with
           | context [if ?b then _ else _] => destruct b
           | context [match ?x with _ => _ end] => destruct x
           end; try discriminate; inversion H; subst; cbn [p_stack p_mode]; try reflexivity; try exact C;
    try (destruct stack; reflexivity).
Qed.
Lemma drun_no_gt : forall f s t, has 62 f = false -> root_closed s = false -> xrun s f = Some t ->
  drun (DRoot, s) f = Some (DRoot, t) /\ root_closed t = false.
Proof.
  induction f as [|c f IH]; intros s t G C H; cbn [xrun drun] in *; [inversion H; subst; split; [reflexivity|exact C]|].
  unfold has in G. cbn [existsb] in G. apply orb_false_elim in G. destruct G as [G1 G2].
  destruct (xstep s c) as [s1|] eqn:X; [|discriminate]. unfold dstep. cbn [fst snd]. rewrite X.
  assert (G1' : (c =? 62) = false) by lia.
  rewrite (no_gt_step s c s1 C G1' X). apply (IH s1 t G2 (no_gt_step s c s1 C G1' X) H).
Qed.

Lemma has_app : forall c a b, has c (a ++ b) = has c a || has c b.
Proof. intros. unfold has. apply existsb_app. Qed.
Lemma name_no_gt : forall n, forallb is_name_char n = true -> has 62 n = false.
Proof.
  induction n as [|c t IH]; intros H; [reflexivity|]. cbn [forallb] in H. apply andb_prop in H. destruct H as [H1 H2].
  unfold has. cbn [existsb]. fold (has 62 t). rewrite (IH H2), orb_false_r. unfold is_name_char, is_name_start in H1. lia.
Qed.
Lemma valid_name_chars : forall n, valid_name n = true -> forallb is_name_char n = true.
Proof.
  intros [|c t] H; [discriminate|]. cbn [valid_name] in H. apply andb_prop in H. destruct H as [H1 H2].
  cbn [forallb]. rewrite H2, andb_true_r. apply (name_start_facts c H1).
Qed.
Lemma attr_out_no_gt : forall v, has 62 (attr_out v) = false.
Proof.
  intros v. unfold attr_out. rewrite xml_escape_esc. unfold quote_value.
  destruct (has 34 (flat_map (esc false false) v)); [destruct (has 39 (flat_map (esc false false) v))|].
  - rewrite quot_esc, !has_app, has_gt_free. reflexivity.
  - rewrite !has_app, has_gt_free. reflexivity.
  - rewrite !has_app, has_gt_free. reflexivity.
Qed.
Lemma doc_attrs_no_gt : forall attrs, Forall good_attr attrs -> has 62 (flat_map doc_attr attrs) = false.
Proof.
  induction 1 as [|[n v] t [H1 H2] _ IH]; [reflexivity|]. cbn [flat_map]. unfold doc_attr at 1. cbn [fst snd] in *.
  rewrite !has_app, IH, attr_out_no_gt, (name_no_gt n (valid_name_chars n H1)). reflexivity.
Qed.

Definition tt_name : str := lit "tt".
(* the whole document: the prolog is an XML declaration, then one root element and white space *)
Lemma root_document_accepted : forall attrs inner, attrs_ok attrs [] -> inner <> [] -> accepts [] [] inner ->
  exists evs, doc_parse (prolog ++ elem 0 tt_name attrs inner) = Some evs.
Proof.
  intros attrs inner Ha Hne Hi. unfold doc_parse.
  assert (D : forall rest, xml_decl (prolog ++ rest) = Some ([10] ++ rest)) by (intros rest; reflexivity).
  unfold elem. destruct inner as [|i0 inner']; [contradiction|]. set (inner := i0 :: inner') in *.
  set (F := flat_map doc_attr (sort_attrs attrs)). unfold doc_attrs. fold F. cbn [ind repeat app].
  change (60 :: tt_name ++ F ++ 62 :: 10 :: inner ++ 60 :: 47 :: tt_name ++ [62; 10])
    with ([60] ++ (tt_name ++ F) ++ [62] ++ ([10] ++ inner) ++ (lit "</tt>" ++ [10])).
  rewrite D.
  apply attrs_ok_sorted in Ha.
  (* the start tag as a run of the content machine *)
  destruct (accepts_open tt_name (sort_attrs attrs) [] eq_refl Ha [] []) as (ev1 & acc1 & E1). fold F in E1.
  assert (G : has 62 (tt_name ++ F) = false).
  { rewrite has_app. unfold F. rewrite doc_attrs_no_gt; [reflexivity|]. apply attrs_ok_char in Ha. apply Ha. }
  replace ([60] ++ tt_name ++ F ++ [62]) with ([60] ++ (tt_name ++ F) ++ [62]) in E1 by (rewrite <- !app_assoc; reflexivity).
  cbn [app xrun] in E1. unfold cst in E1 at 1. cbn [xstep flush_text] in E1. cbn [Z.eqb Pos.eqb map app] in E1.
  rewrite xrun_app in E1. destruct (xrun (mkPst [] [] [] [] [] MLt) (tt_name ++ F)) as [s1|] eqn:X1; [|discriminate].
  destruct (drun_no_gt (tt_name ++ F) (mkPst [] [] [] [] [] MLt) s1 G eq_refl X1) as [Dr C1].
  cbn [app drun]. unfold dstep at 1. cbn [fst snd]. change (is_xml_space 10) with true. cbv iota.
  unfold dstep at 1. cbn [fst snd]. change (is_xml_space 60) with false. cbv iota. cbn [Z.eqb Pos.eqb]. cbn [xstep pst0 flush_text map app].
  cbn [Z.eqb Pos.eqb]. rewrite drun_app, Dr. cbn [xrun] in E1. destruct (xstep s1 62) as [s2|] eqn:X2; [|discriminate]. inversion E1; subst s2.
  cbn [app drun]. unfold dstep at 1. cbn [fst snd]. rewrite X2. cbn [root_closed cst p_stack p_mode].
  (* the children, run on their own, lifted under the open root *)
  destruct (accepts_app [] [] [] _ _ (lf_accepts []) Hi [] []) as (ev2 & acc2 & E2).
  assert (R : srel [tt_name] (cst [] [] []) (cst [tt_name] ev1 acc1)).
  { assert (A1 : hd1 acc1 = false).
    { clear - X2. destruct s1 as [st e tg at' an m]. destruct m; cbn [xstep] in X2;
        repeat match type of X2 with
               | context [if ?b then _ else _] => destruct b
               | context [match ?x with _ => _ end] => destruct x eqn:?
               end; try discriminate; unfold cst in X2; inversion X2; subst; try reflexivity.
      match goal with V : vstep ?v 62 = Some (VNormal acc1) |- _ => destruct v; cbn [vstep] in V; cbn [Z.eqb Pos.eqb] in V;
        repeat match type of V with
               | context [if ?b then _ else _] => destruct b
               | context [match ?x with _ => _ end] => destruct x
               end; try discriminate; inversion V; reflexivity end. }
    repeat split; cbn [p_mode cst mrel vrel]; intros H0; exfalso.
    - rewrite A1 in H0. discriminate.
    - destruct acc1 as [|x [|y r]]; cbn [hd1 hd2] in *; try discriminate. rewrite A1 in H0. discriminate. }
  destruct (drun_root_sim [tt_name] _ _ _ _ ltac:(discriminate) R E2) as ([st3 ev3 tag3 at3 an3 m3] & E3 & (Hs & Ht & Hat & Han & Hm)).
  cbn [p_stack p_tag p_attrs p_aname p_mode cst app] in *. subst. destruct m3; cbn [mrel] in Hm; try contradiction.
  destruct v as [a3|]; cbn [vrel] in Hm; [|contradiction].
  change (match dstep (DRoot, cst [tt_name] ev1 acc1) 10 with
          | Some st' => drun st' (inner ++ lit "</tt>" ++ [10]) | None => None end)
    with (drun (DRoot, cst [tt_name] ev1 acc1) ((10 :: inner) ++ lit "</tt>" ++ [10])).
  rewrite drun_app, E3. eexists. reflexivity.
Qed.

Lemma elem_nonempty : forall n name attrs inner, elem n name attrs inner <> [].
Proof. intros n name attrs inner. unfold elem. destruct inner; destruct n; cbn [ind repeat app]; discriminate. Qed.

(* THE document theorem: every rendered skeleton whose attribute dictionaries have valid, distinct names and values
   made of XML characters, and whose <p> payloads are well-formed content, is a well-formed XML document: XML
   declaration, exactly one root element, white space only outside it *)
Theorem skeleton_wellformed : forall d, skdoc_ok d -> exists evs, doc_parse (dfxp_document d) = Some evs.
Proof.
  intros d H. unfold dfxp_document. apply root_document_accepted.
  - apply H.
  - destruct (head_elem d) eqn:E; [exfalso; apply (elem_nonempty _ _ _ _ E)|discriminate].
  - apply (accepts_app [] [] []); [apply head_accepts; exact H|apply body_accepts; exact H].
Qed.

Lemma tt_attrs_ok : forall lang, forallb is_xml_char lang = true -> attrs_ok (tt_attrs lang) [].
Proof. intros lang H. cbn [tt_attrs attrs_ok]. repeat split; try reflexivity. exact H. Qed.

(* composed with the payload theorem: from caption nodes to the whole document *)
Definition p_of_caption (legacy : bool) (ids : list str) (p : list (str * str) * list cnode) : skp :=
  mkSkp (fst p) (fst (caption_payload legacy ids (snd p))).
Definition doc_of_captions (legacy : bool) (ids : list str) (lang : str) (styles regions : list (list (str * str)))
  (divs : list (list (str * str) * list (list (str * str) * list cnode))) : skdoc :=
  mkSkdoc (tt_attrs lang) styles regions
          (map (fun dv => mkSkdiv (fst dv) (map (p_of_caption legacy ids) (snd dv))) divs).
Definition caption_ok (ids : list str) (p : list (str * str) * list cnode) : Prop :=
  attrs_ok (fst p) [] /\ Forall cnode_ok (snd p) /\ balanced (map (to_pnode ids) (snd p)).

Theorem document_of_captions_wellformed : forall legacy ids lang styles regions divs,
  forallb is_xml_char lang = true ->
  Forall (fun a => attrs_ok a []) styles -> Forall (fun a => attrs_ok a []) regions ->
  Forall (fun dv => attrs_ok (fst dv) [] /\ Forall (caption_ok ids) (snd dv)) divs ->
  exists evs, doc_parse (dfxp_document (doc_of_captions legacy ids lang styles regions divs)) = Some evs.
Proof.
  intros legacy ids lang styles regions divs Hl Hs Hr Hd. apply skeleton_wellformed. unfold doc_of_captions, skdoc_ok.
  cbn [k_tt k_styles k_regions k_divs]. split; [apply tt_attrs_ok; exact Hl|]. split; [exact Hs|]. split; [exact Hr|].
  rewrite Forall_forall in *. intros dv Hdv. apply in_map_iff in Hdv. destruct Hdv as (x & <- & Hx).
  destruct (Hd x Hx) as [Ha Hp]. split; [exact Ha|]. cbn [kd_ps]. rewrite Forall_forall in *. intros p Hp'.
  apply in_map_iff in Hp'. destruct Hp' as (y & <- & Hy). destruct (Hp y Hy) as (A1 & A2 & A3).
  split; [exact A1|]. cbn [kp_text p_of_caption]. apply caption_payload_wellformed; assumption.
Qed.
