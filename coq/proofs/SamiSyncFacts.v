(* C14: where the SAMI writer puts paragraphs (model/Langs.v place / write_lang / sami_write):
   the body stays sorted by start, every paragraph lands in a block of its own start, nothing already placed moves. *)
From Coq Require Import List ZArith Lia Bool ZifyBool Arith.
From PV Require Import lib.Sx lib.Str lib.Result model.Langs spec.SpecLangs.
Import ListNotations.
Open Scope Z_scope.

Definition le_all (t : Z) (b : body) : Prop := forall y, In y b -> t <= fst y.
Definition all_le (b : body) (t : Z) : Prop := forall y, In y b -> fst y <= t.
Fixpoint sorted (b : body) : Prop :=
  match b with [] => True | x :: r => le_all (fst x) r /\ sorted r end.

(* ---- what `place` does to the body: append to an existing block of that start, or insert a new block ------ *)
Inductive placed (t : Z) (p : par) (b : body) : body -> Prop :=
| placed_in : forall pre ps post, b = pre ++ (t, ps) :: post -> placed t p b (pre ++ (t, ps ++ [p]) :: post)
| placed_new : forall pre post, b = pre ++ post -> placed t p b (pre ++ (t, [p]) :: post).

Lemma add_to_first_placed : forall t p b b', add_to_first t p b = Some b' ->
  exists pre ps post, b = pre ++ (t, ps) :: post /\ b' = pre ++ (t, ps ++ [p]) :: post /\
                      (forall y, In y pre -> fst y <> t).
Proof.
  induction b as [|[s ps] r IH]; intros b' H; cbn [add_to_first] in H; [discriminate|].
  destruct (s =? t) eqn:E.
  - inversion H; subst. assert (s = t) by lia. subst. exists [], ps, r. repeat split; auto; intros y [].
  - destruct (add_to_first t p r) as [r'|] eqn:A; [|discriminate]. inversion H; subst.
    destruct (IH r' eq_refl) as (pre & ps' & post & E1 & E2 & E3). subst.
    exists ((s, ps) :: pre), ps', post. repeat split; auto.
    intros y [<-|Hy]; [cbn [fst]; lia|apply E3; exact Hy].
Qed.

Lemma insert_after_none : forall t p b, insert_after_last_earlier t p b = None -> le_all t b.
Proof.
  induction b as [|[s ps] r IH]; intros H y Hy; [destruct Hy|]. cbn [insert_after_last_earlier] in H.
  destruct (insert_after_last_earlier t p r) eqn:A; [discriminate|].
  destruct (s <? t) eqn:E; [discriminate|]. destruct Hy as [<-|Hy]; [cbn [fst]; lia|apply IH; auto].
Qed.

Lemma insert_after_some : forall t p b b', insert_after_last_earlier t p b = Some b' ->
  exists pre0 e post, b = pre0 ++ e :: post /\ b' = pre0 ++ e :: (t, [p]) :: post /\ fst e < t /\ le_all t post.
Proof.
  induction b as [|[s ps] r IH]; intros b' H; cbn [insert_after_last_earlier] in H; [discriminate|].
  destruct (insert_after_last_earlier t p r) as [r'|] eqn:A.
  - inversion H; subst. destruct (IH r' eq_refl) as (pre0 & e & post & E1 & E2 & E3 & E4). subst.
    exists ((s, ps) :: pre0), e, post. repeat split; auto.
  - destruct (s <? t) eqn:E; [|discriminate]. inversion H; subst.
    exists [], (s, ps), r. repeat split; auto; [cbn [fst]; lia|].
    apply (insert_after_none t p). exact A.
Qed.

Lemma insert_before_none : forall t p b, insert_before_first_later t p b = None -> all_le b t.
Proof.
  induction b as [|[s ps] r IH]; intros H y Hy; [destruct Hy|]. cbn [insert_before_first_later] in H.
  destruct (t <? s) eqn:E; [discriminate|].
  destruct (insert_before_first_later t p r) eqn:A; [discriminate|].
  destruct Hy as [<-|Hy]; [cbn [fst]; lia|apply IH; auto].
Qed.

Lemma insert_before_some : forall t p b b', insert_before_first_later t p b = Some b' ->
  exists pre post, b = pre ++ post /\ b' = pre ++ (t, [p]) :: post /\ all_le pre t /\
                   (exists e r, post = e :: r /\ t < fst e).
Proof.
  induction b as [|[s ps] r IH]; intros b' H; cbn [insert_before_first_later] in H; [discriminate|].
  destruct (t <? s) eqn:E.
  - inversion H; subst. exists [], ((s, ps) :: r). repeat split; auto; [intros y []|].
    exists (s, ps), r. split; [reflexivity|cbn [fst]; lia].
  - destruct (insert_before_first_later t p r) as [r'|] eqn:A; [|discriminate]. inversion H; subst.
    destruct (IH r' eq_refl) as (pre & post & E1 & E2 & E3 & E4). subst.
    exists ((s, ps) :: pre), post. repeat split; auto.
    intros y [<-|Hy]; [cbn [fst]; lia|apply E3; exact Hy].
Qed.

(* sami_p_in_own_sync: the paragraph is appended to a block with its start, or put in a new block with its
   start; every other block and every paragraph already there stays where it was *)
Theorem place_placed : forall primary t p b, placed t p b (place primary t p b).
Proof.
  intros primary t p b. unfold place. destruct primary.
  - apply (placed_new t p b b []). rewrite app_nil_r. reflexivity.
  - destruct (add_to_first t p b) as [b'|] eqn:A.
    + destruct (add_to_first_placed _ _ _ _ A) as (pre & ps & post & E1 & E2 & _). subst. apply placed_in. reflexivity.
    + unfold find_closest. destruct (insert_after_last_earlier t p b) as [b'|] eqn:B.
      * destruct (insert_after_some _ _ _ _ B) as (pre0 & e & post & E1 & E2 & _). subst.
        replace (pre0 ++ e :: (t, [p]) :: post) with ((pre0 ++ [e]) ++ (t, [p]) :: post) by (rewrite <- app_assoc; reflexivity).
        apply placed_new. rewrite <- app_assoc. reflexivity.
      * destruct (insert_before_first_later t p b) as [b'|] eqn:C.
        -- destruct (insert_before_some _ _ _ _ C) as (pre & post & E1 & E2 & _). subst. apply placed_new. reflexivity.
        -- apply (placed_new t p b b []). rewrite app_nil_r. reflexivity.
Qed.

(* ---- sortedness --------------------------------------------------------------------------------------------- *)
Lemma sorted_app : forall a b, sorted (a ++ b) <-> sorted a /\ sorted b /\ (forall x y, In x a -> In y b -> fst x <= fst y).
Proof.
  induction a as [|x a IH]; intros b; cbn [app sorted].
  - split; [intros H; repeat split; auto; intros ? ? []|tauto].
  - rewrite IH. unfold le_all. split.
    + intros (H1 & H2 & H3 & H4). repeat split; auto.
      * intros y Hy. apply H1. apply in_app_iff. left. exact Hy.
      * intros u v [<-|Hu] Hv; [apply H1; apply in_app_iff; right; exact Hv|apply H4; assumption].
    + intros ((H1 & H2) & H3 & H4). repeat split; auto.
      * intros y Hy. apply in_app_iff in Hy. destruct Hy as [Hy|Hy]; [apply H1; exact Hy|apply H4; [left; reflexivity|exact Hy]].
      * intros u v Hu Hv. apply H4; [right; exact Hu|exact Hv].
Qed.

Lemma sorted_insert : forall pre post t ps, sorted (pre ++ post) -> all_le pre t -> le_all t post ->
  sorted (pre ++ (t, ps) :: post).
Proof.
  intros pre post t ps S A L. apply sorted_app in S. destruct S as (S1 & S2 & S3).
  apply sorted_app. split; [exact S1|]. split.
  - cbn [sorted fst]. split; [exact L|exact S2].
  - intros x y Hx [<-|Hy]; [cbn [fst]; apply A; exact Hx|apply S3; assumption].
Qed.

Lemma sorted_same_fst : forall pre post t ps ps', sorted (pre ++ (t, ps) :: post) -> sorted (pre ++ (t, ps') :: post).
Proof.
  intros pre post t ps ps' S. apply sorted_app in S. destruct S as (S1 & S2 & S3).
  apply sorted_app. split; [exact S1|]. split; [exact S2|].
  intros x y Hx [<-|Hy]; [apply (S3 x (t, ps)); [exact Hx|left; reflexivity]|apply S3; [exact Hx|right; exact Hy]].
Qed.

(* a secondary language's paragraph never breaks the order, whatever its time *)
Theorem place_secondary_sorted : forall t p b, sorted b -> sorted (place false t p b).
Proof.
  intros t p b S. unfold place. destruct (add_to_first t p b) as [b'|] eqn:A.
  - destruct (add_to_first_placed _ _ _ _ A) as (pre & ps & post & E1 & E2 & _). subst.
    eapply sorted_same_fst. exact S.
  - unfold find_closest. destruct (insert_after_last_earlier t p b) as [b'|] eqn:B.
    + destruct (insert_after_some _ _ _ _ B) as (pre0 & e & post & E1 & E2 & E3 & E4). subst.
      replace (pre0 ++ e :: (t, [p]) :: post) with ((pre0 ++ [e]) ++ (t, [p]) :: post) by (rewrite <- app_assoc; reflexivity).
      apply sorted_insert; [rewrite <- app_assoc; exact S| |exact E4].
      apply sorted_app in S. destruct S as (_ & _ & S3).
      intros y Hy. apply in_app_iff in Hy. destruct Hy as [Hy|[<-|[]]]; [|lia].
      specialize (S3 y e Hy (or_introl eq_refl)). lia.
    + pose proof (insert_after_none _ _ _ B) as L.
      destruct (insert_before_first_later t p b) as [b'|] eqn:C.
      * destruct (insert_before_some _ _ _ _ C) as (pre & post & E1 & E2 & E3 & _). subst.
        apply sorted_insert; [exact S|exact E3|]. intros y Hy. apply L. apply in_app_iff. right. exact Hy.
      * pose proof (insert_before_none _ _ _ C) as U.
        replace (b ++ [(t, [p])]) with (b ++ (t, [p]) :: []) by reflexivity.
        apply sorted_insert; [rewrite app_nil_r; exact S|exact U|intros y []].
Qed.

Lemma place_primary_sorted : forall t p b, sorted b -> all_le b t ->
  sorted (place true t p b) /\ all_le (place true t p b) t.
Proof.
  intros t p b S U. unfold place. split.
  - replace (b ++ [(t, [p])]) with (b ++ (t, [p]) :: []) by reflexivity.
    apply sorted_insert; [rewrite app_nil_r; exact S|exact U|intros y []].
  - intros y Hy. apply in_app_iff in Hy. destruct Hy as [Hy|[<-|[]]]; [apply U; exact Hy|cbn [fst]; lia].
Qed.

Lemma all_le_mono : forall b t t', all_le b t -> t <= t' -> all_le b t'.
Proof. intros b t t' H L y Hy. specialize (H y Hy). lia. Qed.

(* the first language's cues: sorted and non-overlapping at millisecond resolution, from `lo` on *)
Fixpoint caps_sorted (lo : Z) (caps : list wcue) : Prop :=
  match caps with
  | [] => True
  | c :: t => lo <= wc_start c / 1000 /\ wc_start c / 1000 <= wc_end c / 1000 /\ caps_sorted (wc_end c / 1000) t
  end.

Lemma write_lang_primary_sorted : forall cls caps last b,
  sorted b -> all_le b (last_or0 last) -> caps_sorted (last_or0 last) caps -> sorted (write_lang true cls caps last b).
Proof.
  induction caps as [|c t IH]; intros last b S U C; cbn [write_lang]; [exact S|].
  destruct C as (C1 & C2 & C3).
  set (time := wc_start c / 1000) in *.
  set (b1 := if blank_due last time then place true (last_or0 last) (cls, nbsp_text) b else b).
  assert (B1 : sorted b1 /\ all_le b1 time).
  { unfold b1. destruct (blank_due last time).
    - destruct (place_primary_sorted (last_or0 last) (cls, nbsp_text) b S U) as [A B]. split; [exact A|eapply all_le_mono; eauto].
    - split; [exact S|eapply all_le_mono; eauto]. }
  destruct B1 as [S1 U1].
  destruct (place_primary_sorted time (cls, wc_text c) b1 S1 U1) as [S2 U2].
  apply IH; [exact S2|eapply all_le_mono; eauto|exact C3].
Qed.

Lemma write_lang_secondary_sorted : forall cls caps last b, sorted b -> sorted (write_lang false cls caps last b).
Proof.
  induction caps as [|c t IH]; intros last b S; cbn [write_lang]; [exact S|].
  apply IH. apply place_secondary_sorted.
  destruct (blank_due last (wc_start c / 1000)); [apply place_secondary_sorted; exact S|exact S].
Qed.

Lemma write_langs_secondary_sorted : forall cs b, sorted b -> sorted (write_langs false cs b).
Proof.
  induction cs as [|[l caps] t IH]; intros b S; cbn [write_langs]; [exact S|].
  apply IH. apply write_lang_secondary_sorted. exact S.
Qed.

(* sami_syncs_sorted: if the FIRST language's cues are sorted (ms resolution, non-negative), the body is sorted by
   start - whatever the other languages contain, and however their times interleave with the first language's *)
Theorem sami_syncs_sorted : forall cs,
  match cs with (_, caps) :: _ => caps_sorted 0 caps | [] => True end -> sorted (sami_write cs).
Proof.
  intros [|[l caps] t] H; [exact I|]. unfold sami_write. cbn [write_langs].
  apply write_langs_secondary_sorted. apply write_lang_primary_sorted; [exact I|intros y []|exact H].
Qed.

(* sortedness in the form the oracle checks *)
Lemma sorted_nondecr : forall b, sorted b -> SpecLangs.nondecr (map fst b) = true.
Proof.
  induction b as [|x r IH]; intros S; [reflexivity|]. destruct S as [L S].
  destruct r as [|y r']; [reflexivity|].
  assert (H : fst x <= fst y) by (apply L; left; reflexivity).
  change (((fst x <=? fst y) && SpecLangs.nondecr (map fst (y :: r'))) = true).
  apply andb_true_intro. split; [lia|exact (IH S)].
Qed.

(* ---- each language's paragraphs stay in cue order -------------------------------------------------------------
   Proved for bodies whose block starts are pairwise distinct, which is the case whenever the first language's
   cues have positive duration at millisecond resolution (then no two blocks ever share a start). *)
Definition lt_all (t : Z) (b : body) : Prop := forall y, In y b -> t < fst y.
Definition all_lt (b : body) (t : Z) : Prop := forall y, In y b -> fst y < t.
Fixpoint ssorted (b : body) : Prop :=
  match b with [] => True | x :: r => lt_all (fst x) r /\ ssorted r end.

Lemma ssorted_app : forall a b, ssorted (a ++ b) <-> ssorted a /\ ssorted b /\ (forall x y, In x a -> In y b -> fst x < fst y).
Proof.
  induction a as [|x a IH]; intros b; cbn [app ssorted].
  - split; [intros H; repeat split; auto; intros ? ? []|tauto].
  - rewrite IH. unfold lt_all. split.
    + intros (H1 & H2 & H3 & H4). repeat split; auto.
      * intros y Hy. apply H1. apply in_app_iff. left. exact Hy.
      * intros u v [<-|Hu] Hv; [apply H1; apply in_app_iff; right; exact Hv|apply H4; assumption].
    + intros ((H1 & H2) & H3 & H4). repeat split; auto.
      * intros y Hy. apply in_app_iff in Hy. destruct Hy as [Hy|Hy]; [apply H1; exact Hy|apply H4; [left; reflexivity|exact Hy]].
      * intros u v Hu Hv. apply H4; [right; exact Hu|exact Hv].
Qed.

Lemma add_to_first_none : forall t p b, add_to_first t p b = None -> forall y, In y b -> fst y <> t.
Proof.
  induction b as [|[s ps] r IH]; intros H y Hy; [destruct Hy|]. cbn [add_to_first] in H.
  destruct (s =? t) eqn:E; [discriminate|]. destruct (add_to_first t p r) eqn:A; [discriminate|].
  destruct Hy as [<-|Hy]; [cbn [fst]; lia|apply IH; auto].
Qed.

(* the paragraphs of class cls in document order, each with the start of its block *)
Definition cpars (cls : str) (b : body) : list (Z * str) :=
  flat_map (fun s => map (fun p => (fst s, snd p)) (filter (fun p => str_eqb (fst p) cls) (snd s))) b.
Definition upper (cls : str) (b : body) (t : Z) : Prop := forall y, In y b -> cpars cls [y] <> [] -> fst y <= t.

Lemma cpars_app : forall cls a b, cpars cls (a ++ b) = cpars cls a ++ cpars cls b.
Proof. intros. unfold cpars. apply flat_map_app. Qed.
Lemma cpars_none : forall cls b, (forall y, In y b -> cpars cls [y] = []) -> cpars cls b = [].
Proof.
  induction b as [|y r IH]; intros H; [reflexivity|].
  change (y :: r) with ([y] ++ r). rewrite cpars_app, (H y (or_introl eq_refl)), IH; [reflexivity|].
  intros z Hz. apply H. right. exact Hz.
Qed.
Lemma cpars_later_none : forall cls b post t, upper cls b t -> (forall y, In y post -> In y b /\ t < fst y) ->
  cpars cls post = [].
Proof.
  intros cls b post t U H. apply cpars_none. intros y Hy. destruct (H y Hy) as [Hb Ht].
  destruct (cpars cls [y]) eqn:E; [reflexivity|]. exfalso.
  assert (fst y <= t) by (apply U; [exact Hb|rewrite E; discriminate]). lia.
Qed.

Lemma str_eqb_same : forall a, str_eqb a a = true.
Proof. induction a as [|x a IH]; cbn [str_eqb]; auto. rewrite Z.eqb_refl. exact IH. Qed.

Lemma cpars_block_snoc : forall cls t ps x,
  cpars cls [(t, ps ++ [(cls, x)])] = cpars cls [(t, ps)] ++ [(t, x)].
Proof.
  intros. unfold cpars. cbn [flat_map fst snd]. rewrite !app_nil_r, filter_app, map_app. cbn [filter fst].
  rewrite str_eqb_same. reflexivity.
Qed.
Lemma cpars_new_block : forall cls t x, cpars cls [(t, [(cls, x)])] = [(t, x)].
Proof. intros. unfold cpars. cbn [flat_map fst snd filter]. rewrite str_eqb_same. reflexivity. Qed.

(* placing a paragraph of class cls at a time not before any earlier paragraph of that class appends it to the
   class's paragraph sequence *)
Lemma place_secondary_appends : forall cls t x b, ssorted b -> upper cls b t ->
  cpars cls (place false t (cls, x) b) = cpars cls b ++ [(t, x)] /\ ssorted (place false t (cls, x) b).
Proof.
  intros cls t x b S U. unfold place. destruct (add_to_first t (cls, x) b) as [b'|] eqn:A.
  - destruct (add_to_first_placed _ _ _ _ A) as (pre & ps & post & E1 & E2 & _). subst.
    pose proof S as S0. apply ssorted_app in S. destruct S as (S1 & S2 & S3). cbn [ssorted] in S2. destruct S2 as [S2 S4].
    assert (P : cpars cls post = []).
    { apply (cpars_later_none cls _ post t U). intros y Hy. split; [apply in_app_iff; right; right; exact Hy|].
      apply (S2 y Hy). }
    split.
    + change ((t, ps ++ [(cls, x)]) :: post) with ([(t, ps ++ [(cls, x)])] ++ post).
      change ((t, ps) :: post) with ([(t, ps)] ++ post).
      rewrite !cpars_app, cpars_block_snoc, P, !app_nil_r, <- app_assoc. reflexivity.
    + apply ssorted_app. split; [exact S1|]. split; [cbn [ssorted]; split; [exact S2|exact S4]|].
      intros u v Hu [<-|Hv]; [apply (S3 u (t, ps)); [exact Hu|left; reflexivity]|apply S3; [exact Hu|right; exact Hv]].
  - pose proof (add_to_first_none _ _ _ A) as NT.
    assert (Ins : forall pre post, b = pre ++ post -> all_lt pre t -> lt_all t post ->
              cpars cls (pre ++ (t, [(cls, x)]) :: post) = cpars cls b ++ [(t, x)]
              /\ ssorted (pre ++ (t, [(cls, x)]) :: post)).
    { intros pre post E Lp Lq. subst b. apply ssorted_app in S. destruct S as (S1 & S2 & S3).
      assert (P : cpars cls post = []).
      { apply (cpars_later_none cls _ post t U). intros y Hy. split; [apply in_app_iff; right; exact Hy|apply Lq; exact Hy]. }
      split.
      - change ((t, [(cls, x)]) :: post) with ([(t, [(cls, x)])] ++ post).
        rewrite !cpars_app, cpars_new_block, P, !app_nil_r. reflexivity.
      - apply ssorted_app. split; [exact S1|]. split; [cbn [ssorted fst]; split; [exact Lq|exact S2]|].
        intros u v Hu [<-|Hv]; [cbn [fst]; apply Lp; exact Hu|apply S3; assumption]. }
    unfold find_closest. destruct (insert_after_last_earlier t (cls, x) b) as [b'|] eqn:B.
    + destruct (insert_after_some _ _ _ _ B) as (pre0 & e & post & E1 & E2 & E3 & E4). subst b'.
      pose proof (Ins (pre0 ++ [e]) post) as Q. rewrite <- !app_assoc in Q. cbn [app] in Q.
      apply Q; [exact E1| |].
      * subst b. apply ssorted_app in S. destruct S as (_ & _ & S3).
        intros y Hy. apply in_app_iff in Hy. destruct Hy as [Hy|[<-|[]]]; [|exact E3].
        specialize (S3 y e Hy (or_introl eq_refl)). lia.
      * intros y Hy. assert (t <= fst y) by (apply E4; exact Hy).
        assert (fst y <> t) by (apply NT; subst b; apply in_app_iff; right; right; exact Hy). lia.
    + pose proof (insert_after_none _ _ _ B) as L.
      destruct (insert_before_first_later t (cls, x) b) as [b'|] eqn:C.
      * destruct (insert_before_some _ _ _ _ C) as (pre & post & E1 & E2 & E3 & _). subst b'.
        apply Ins; [exact E1| |].
        -- intros y Hy. assert (fst y <= t) by (apply E3; exact Hy).
           assert (fst y <> t) by (apply NT; subst b; apply in_app_iff; left; exact Hy). lia.
        -- intros y Hy. assert (t <= fst y) by (apply L; subst b; apply in_app_iff; right; exact Hy).
           assert (fst y <> t) by (apply NT; subst b; apply in_app_iff; right; exact Hy). lia.
      * pose proof (insert_before_none _ _ _ C) as Ub.
        replace (b ++ [(t, [(cls, x)])]) with (b ++ (t, [(cls, x)]) :: []) by reflexivity.
        apply Ins; [rewrite app_nil_r; reflexivity| |intros y []].
        intros y Hy. assert (fst y <= t) by (apply Ub; exact Hy). assert (fst y <> t) by (apply NT; exact Hy). lia.
Qed.

(* a paragraph of another class changes nothing for class cls' *)
Lemma placed_other_class : forall cls' cls t x b b', placed t (cls, x) b b' -> str_eqb cls cls' = false ->
  cpars cls' b' = cpars cls' b /\ (forall u, upper cls' b u -> upper cls' b' u).
Proof.
  intros cls' cls t x b b' H N. destruct H as [pre ps post E|pre post E]; subst b.
  - assert (Blk : cpars cls' [(t, ps ++ [(cls, x)])] = cpars cls' [(t, ps)]).
    { unfold cpars. cbn [flat_map fst snd]. rewrite filter_app. cbn [filter fst]. rewrite N, !app_nil_r. reflexivity. }
    split.
    + change ((t, ps ++ [(cls, x)]) :: post) with ([(t, ps ++ [(cls, x)])] ++ post).
      change ((t, ps) :: post) with ([(t, ps)] ++ post). rewrite !cpars_app, Blk. reflexivity.
    + intros u U y Hy Hn. apply in_app_iff in Hy. destruct Hy as [Hy|[<-|Hy]].
      * apply U; [apply in_app_iff; left; exact Hy|exact Hn].
      * cbn [fst]. apply (U (t, ps)); [apply in_app_iff; right; left; reflexivity|].
        intros Q. apply Hn. etransitivity; [exact Blk|exact Q].
      * apply U; [apply in_app_iff; right; right; exact Hy|exact Hn].
  - assert (Blk : cpars cls' [(t, [(cls, x)])] = []).
    { unfold cpars. cbn [flat_map fst snd filter]. rewrite N. reflexivity. }
    split.
    + change ((t, [(cls, x)]) :: post) with ([(t, [(cls, x)])] ++ post). rewrite !cpars_app, Blk. reflexivity.
    + intros u U y Hy Hn. apply in_app_iff in Hy. destruct Hy as [Hy|[<-|Hy]].
      * apply U; [apply in_app_iff; left; exact Hy|exact Hn].
      * exfalso. apply Hn. exact Blk.
      * apply U; [apply in_app_iff; right; exact Hy|exact Hn].
Qed.

Lemma placed_upper : forall cls t p b b' u, placed t p b b' -> upper cls b u -> t <= u -> upper cls b' u.
Proof.
  intros cls t p b b' u H U L y Hy Hn. destruct H as [pre ps post E|pre post E]; subst b;
    apply in_app_iff in Hy; destruct Hy as [Hy|[<-|Hy]]; try (cbn [fst]; lia).
  - apply U; [apply in_app_iff; left; exact Hy|exact Hn].
  - apply U; [apply in_app_iff; right; right; exact Hy|exact Hn].
  - apply U; [apply in_app_iff; left; exact Hy|exact Hn].
  - apply U; [apply in_app_iff; right; exact Hy|exact Hn].
Qed.
Lemma upper_mono : forall cls b u u', upper cls b u -> u <= u' -> upper cls b u'.
Proof. intros cls b u u' U L y Hy Hn. specialize (U y Hy Hn). lia. Qed.

(* the paragraphs the writer produces for one language, in order: a blank at the previous end when the next
   cue does not start there, then the cue *)
Fixpoint lang_pars (caps : list wcue) (last : option Z) : list (Z * str) :=
  match caps with
  | [] => []
  | c :: t =>
      let time := wc_start c / 1000 in
      (if blank_due last time then [(last_or0 last, nbsp_text)] else [])
      ++ (time, wc_text c) :: lang_pars t (Some (wc_end c / 1000))
  end.

Lemma write_lang_secondary_pars : forall cls caps last b,
  ssorted b -> upper cls b (last_or0 last) -> caps_sorted (last_or0 last) caps ->
  cpars cls (write_lang false cls caps last b) = cpars cls b ++ lang_pars caps last
  /\ ssorted (write_lang false cls caps last b)
  /\ (forall cls', str_eqb cls cls' = false -> cpars cls' (write_lang false cls caps last b) = cpars cls' b).
Proof.
  induction caps as [|c t IH]; intros last b S U C; cbn [write_lang lang_pars].
  - rewrite app_nil_r. repeat split; auto.
  - destruct C as (C1 & C2 & C3). set (time := wc_start c / 1000) in *.
    set (blank := blank_due last time).
    set (b1 := if blank then place false (last_or0 last) (cls, nbsp_text) b else b).
    assert (B1 : cpars cls b1 = cpars cls b ++ (if blank then [(last_or0 last, nbsp_text)] else [])
                 /\ ssorted b1 /\ upper cls b1 time
                 /\ (forall cls', str_eqb cls cls' = false -> cpars cls' b1 = cpars cls' b)).
    { unfold b1. destruct blank.
      - destruct (place_secondary_appends cls (last_or0 last) nbsp_text b S U) as [A1 A2].
        split; [exact A1|]. split; [exact A2|]. split.
        + apply (placed_upper cls (last_or0 last) (cls, nbsp_text) b); [apply place_placed|eapply upper_mono; eauto|exact C1].
        + intros cls' N. apply (placed_other_class cls' cls (last_or0 last) nbsp_text b); [apply place_placed|exact N].
      - rewrite app_nil_r. repeat split; auto. eapply upper_mono; eauto. }
    destruct B1 as (P1 & S1 & U1 & O1).
    destruct (place_secondary_appends cls time (wc_text c) b1 S1 U1) as [P2 S2].
    assert (U2 : upper cls (place false time (cls, wc_text c) b1) (wc_end c / 1000)).
    { apply (placed_upper cls time (cls, wc_text c) b1); [apply place_placed|eapply upper_mono; eauto|exact C2]. }
    destruct (IH (Some (wc_end c / 1000)) _ S2 U2 C3) as (P3 & S3 & O3).
    split; [|split; [exact S3|]].
    + rewrite P3, P2, P1, <- !app_assoc. reflexivity.
    + intros cls' N. rewrite (O3 cls' N).
      destruct (placed_other_class cls' cls time (wc_text c) b1 _ (place_placed false _ _ _) N) as [Q _].
      rewrite Q. apply O1. exact N.
Qed.

(* first language: cues of positive duration at millisecond resolution, sorted *)
Fixpoint caps_strict (lo : Z) (caps : list wcue) : Prop :=
  match caps with
  | [] => True
  | c :: t => lo <= wc_start c / 1000 /\ wc_start c / 1000 < wc_end c / 1000 /\ caps_strict (wc_end c / 1000) t
  end.

Lemma place_primary_pars : forall cls t x b, ssorted b -> all_lt b t ->
  cpars cls (place true t (cls, x) b) = cpars cls b ++ [(t, x)]
  /\ ssorted (place true t (cls, x) b) /\ all_le (place true t (cls, x) b) t.
Proof.
  intros cls t x b S L. unfold place. split; [|split].
  - rewrite cpars_app, cpars_new_block. reflexivity.
  - apply ssorted_app. split; [exact S|]. split; [cbn [ssorted]; split; [intros y []|exact I]|].
    intros u v Hu [<-|[]]. cbn [fst]. apply L. exact Hu.
  - intros y Hy. apply in_app_iff in Hy. destruct Hy as [Hy|[<-|[]]]; [specialize (L y Hy); lia|cbn [fst]; lia].
Qed.

Lemma write_lang_primary_pars : forall cls caps last b,
  ssorted b -> all_lt b (last_or0 last) -> 0 <= last_or0 last -> caps_strict (last_or0 last) caps ->
  cpars cls (write_lang true cls caps last b) = cpars cls b ++ lang_pars caps last
  /\ ssorted (write_lang true cls caps last b).
Proof.
  induction caps as [|c t IH]; intros last b S L Z0 C; cbn [write_lang lang_pars].
  - rewrite app_nil_r. split; auto.
  - destruct C as (C1 & C2 & C3). set (time := wc_start c / 1000) in *.
    set (blank := blank_due last time).
    set (b1 := if blank then place true (last_or0 last) (cls, nbsp_text) b else b).
    assert (B1 : cpars cls b1 = cpars cls b ++ (if blank then [(last_or0 last, nbsp_text)] else [])
                 /\ ssorted b1 /\ all_lt b1 time).
    { unfold b1. destruct blank eqn:Bk.
      - destruct (place_primary_pars cls (last_or0 last) nbsp_text b S L) as (A1 & A2 & A3).
        split; [exact A1|]. split; [exact A2|]. intros y Hy. specialize (A3 y Hy).
        unfold blank, blank_due in Bk. destruct last as [l|]; [|discriminate]. cbn [last_or0] in *. lia.
      - rewrite app_nil_r. split; [reflexivity|]. split; [exact S|]. intros y Hy. specialize (L y Hy).
        unfold blank, blank_due in Bk. destruct last as [l|]; cbn [last_or0] in *; lia. }
    destruct B1 as (P1 & S1 & L1).
    destruct (place_primary_pars cls time (wc_text c) b1 S1 L1) as (P2 & S2 & U2).
    destruct (IH (Some (wc_end c / 1000)) (place true time (cls, wc_text c) b1) S2) as (P3 & S3).
    { intros y Hy. specialize (U2 y Hy). cbn [last_or0]. lia. }
    { cbn [last_or0]. lia. }
    { exact C3. }
    split; [|exact S3]. rewrite P3, P2, P1, <- !app_assoc. reflexivity.
Qed.

Lemma write_lang_primary_other : forall cls cls' caps last b, str_eqb cls cls' = false ->
  cpars cls' (write_lang true cls caps last b) = cpars cls' b.
Proof.
  induction caps as [|c t IH]; intros last b N; cbn [write_lang]; [reflexivity|].
  rewrite IH by exact N.
  destruct (placed_other_class cls' cls _ (wc_text c) _ _ (place_placed true (wc_start c / 1000) (cls, wc_text c)
             (if blank_due last (wc_start c / 1000) then place true (last_or0 last) (cls, nbsp_text) b else b)) N) as [Q _].
  rewrite Q. destruct (blank_due last (wc_start c / 1000)); [|reflexivity].
  destruct (placed_other_class cls' cls _ nbsp_text _ _ (place_placed true (last_or0 last) (cls, nbsp_text) b) N) as [Q2 _]. exact Q2.
Qed.

Lemma cpars_nil_each : forall cls b, cpars cls b = [] -> forall y, In y b -> cpars cls [y] = [].
Proof.
  induction b as [|z r IH]; intros H y Hy; [destruct Hy|].
  change (z :: r) with ([z] ++ r) in H. rewrite cpars_app in H. apply app_eq_nil in H. destruct H as [H1 H2].
  destruct Hy as [<-|Hy]; [exact H1|apply IH; assumption].
Qed.

Lemma write_langs_secondary_pars : forall cs b,
  ssorted b -> NoDup (map fst cs) ->
  (forall l caps, In (l, caps) cs -> caps_sorted 0 caps /\ cpars l b = []) ->
  ssorted (write_langs false cs b)
  /\ (forall l caps, In (l, caps) cs -> cpars l (write_langs false cs b) = lang_pars caps None)
  /\ (forall cls, ~ In cls (map fst cs) -> cpars cls (write_langs false cs b) = cpars cls b).
Proof.
  induction cs as [|[l caps] t IH]; intros b S N H; cbn [write_langs].
  - repeat split; auto. intros l caps [].
  - inversion N as [|? ? N1 N2]; subst.
    destruct (H l caps (or_introl eq_refl)) as [C E].
    assert (U : upper l b 0).
    { intros y Hy Hn. exfalso. apply Hn. apply (cpars_nil_each l b E y Hy). }
    destruct (write_lang_secondary_pars l caps None b S U C) as (P1 & S1 & O1).
    assert (Neq : forall l', In l' (map fst t) -> str_eqb l l' = false).
    { intros l' Hl. destruct (str_eqb l l') eqn:Q; [|reflexivity].
      assert (l = l').
      { clear - Q. revert l' Q. induction l as [|x l IHl]; intros [|y l'] Q; simpl in Q; try discriminate; [reflexivity|].
        apply andb_prop in Q. destruct Q as [Q1 Q2]. f_equal; [lia|apply IHl; exact Q2]. }
      subst. contradiction. }
    destruct (IH (write_lang false l caps None b) S1 N2) as (S2 & P2 & O2).
    { intros l' caps' Hin. destruct (H l' caps' (or_intror Hin)) as [C' E']. split; [exact C'|].
      rewrite O1; [exact E'|]. apply Neq. apply in_map_iff. exists (l', caps'). split; [reflexivity|exact Hin]. }
    split; [exact S2|]. split.
    + intros l' caps' [Hin|Hin].
      * inversion Hin; subst. rewrite (O2 l' N1), P1, E. reflexivity.
      * apply P2. exact Hin.
    + intros cls Hc. rewrite O2 by (intros C'; apply Hc; right; exact C').
      apply O1. destruct (str_eqb l cls) eqn:Q; [|reflexivity]. exfalso. apply Hc. left. cbn [fst].
      clear - Q. revert cls Q. induction l as [|x l IHl]; intros [|y c] Q; simpl in Q; try discriminate; [reflexivity|].
      apply andb_prop in Q. destruct Q as [Q1 Q2]. f_equal; [lia|apply IHl; exact Q2].
Qed.

(* sami_language_order (partial: the first language's cues have positive duration at ms resolution):
   in the body, the paragraphs of every language are exactly the writer's sequence for its cue list, in order *)
Theorem sami_language_order_partial : forall l0 caps0 rest,
  NoDup (map fst ((l0, caps0) :: rest)) -> caps_strict 0 caps0 ->
  (forall l caps, In (l, caps) rest -> caps_sorted 0 caps) ->
  forall l caps, In (l, caps) ((l0, caps0) :: rest) ->
    cpars l (sami_write ((l0, caps0) :: rest)) = lang_pars caps None.
Proof.
  intros l0 caps0 rest N C0 Cr l caps Hin. unfold sami_write. cbn [write_langs].
  inversion N as [|? ? N1 N2]; subst.
  destruct (write_lang_primary_pars l0 caps0 None [] I (fun y (H : In y []) => match H with end) (Z.le_refl 0) C0) as (P0 & S0).
  assert (Neq : forall l', In l' (map fst rest) -> str_eqb l0 l' = false).
  { intros l' Hl. destruct (str_eqb l0 l') eqn:Q; [|reflexivity]. exfalso. apply N1.
    assert (l0 = l'); [|subst; exact Hl].
    clear - Q. revert l' Q. induction l0 as [|x l IHl]; intros [|y l'] Q; simpl in Q; try discriminate; [reflexivity|].
    apply andb_prop in Q. destruct Q as [Q1 Q2]. f_equal; [lia|apply IHl; exact Q2]. }
  destruct (write_langs_secondary_pars rest (write_lang true l0 caps0 None []) S0 N2) as (S1 & P1 & O1).
  { intros l' caps' H'. split; [apply (Cr l' caps' H')|].
    rewrite write_lang_primary_other; [reflexivity|]. apply Neq. apply in_map_iff. exists (l', caps'). split; [reflexivity|exact H']. }
  destruct Hin as [Hin|Hin].
  - inversion Hin; subst. rewrite (O1 l N1), P0. reflexivity.
  - apply P1. exact Hin.
Qed.

(* ---- the general case: blocks may share a start (zero-duration cues of the first language) -------------------
   Invariant J: of two blocks with the same start, the later one holds only paragraphs of the first language.
   (Later languages always go to the FIRST block of a start, and new blocks are only created for new starts.) *)
Definition all_class (cls0 : str) (y : sync) : Prop := forall p, In p (snd y) -> fst p = cls0.
Fixpoint J (cls0 : str) (b : body) : Prop :=
  match b with
  | [] => True
  | x :: r => (forall y, In y r -> fst y = fst x -> all_class cls0 y) /\ J cls0 r
  end.

Lemma J_app : forall cls0 a b, J cls0 (a ++ b) <->
  J cls0 a /\ J cls0 b /\ (forall x y, In x a -> In y b -> fst y = fst x -> all_class cls0 y).
Proof.
  induction a as [|x a IH]; intros b; cbn [app J].
  - split; [intros H; repeat split; auto; intros ? ? []|tauto].
  - rewrite IH. split.
    + intros (H1 & H2 & H3 & H4). repeat split; auto.
      * intros y Hy. apply H1. apply in_app_iff. left. exact Hy.
      * intros u v [<-|Hu] Hv; [apply H1; apply in_app_iff; right; exact Hv|apply H4; assumption].
    + intros ((H1 & H2) & H3 & H4). repeat split; auto.
      * intros y Hy. apply in_app_iff in Hy. destruct Hy as [Hy|Hy]; [apply H1; exact Hy|apply H4; [left; reflexivity|exact Hy]].
      * intros u v Hu Hv. apply H4; [right; exact Hu|exact Hv].
Qed.

Lemma str_eqb_true_eq : forall a b, str_eqb a b = true -> a = b.
Proof.
  induction a as [|x a IH]; intros [|y b] Q; simpl in Q; try discriminate; [reflexivity|].
  apply andb_prop in Q. destruct Q as [Q1 Q2]. f_equal; [lia|apply IH; exact Q2].
Qed.

Lemma all_class_no_cpars : forall cls0 cls y, all_class cls0 y -> str_eqb cls0 cls = false -> cpars cls [y] = [].
Proof.
  intros cls0 cls [s ps] A N. unfold cpars. cbn [flat_map fst snd]. rewrite app_nil_r.
  assert (F : filter (fun p => str_eqb (fst p) cls) ps = []).
  { unfold all_class in A. cbn [snd] in A. induction ps as [|p t IH]; [reflexivity|]. cbn [filter].
    rewrite (A p (or_introl eq_refl)), N. apply IH. intros q Hq. apply A. right. exact Hq. }
  rewrite F. reflexivity.
Qed.

(* placing a later language's paragraph (class cls <> cls0): appended to that class's sequence; sorted and J kept *)
Lemma place_secondary_general : forall cls0 cls t x b, str_eqb cls0 cls = false ->
  sorted b -> J cls0 b -> upper cls b t ->
  cpars cls (place false t (cls, x) b) = cpars cls b ++ [(t, x)] /\ J cls0 (place false t (cls, x) b).
Proof.
  intros cls0 cls t x b N S Jb U. unfold place. destruct (add_to_first t (cls, x) b) as [b'|] eqn:A.
  - destruct (add_to_first_placed _ _ _ _ A) as (pre & ps & post & E1 & E2 & E3). subst.
    pose proof S as S0. apply sorted_app in S. destruct S as (S1 & S2 & S3). cbn [sorted] in S2. destruct S2 as [S2 S4].
    apply J_app in Jb. destruct Jb as (J1 & J2 & J3). cbn [J fst] in J2. destruct J2 as [J2 J4].
    assert (P : cpars cls post = []).
    { apply cpars_none. intros y Hy. specialize (S2 y Hy). cbn [fst] in S2.
      destruct (Z.eq_dec (fst y) t) as [Et|Nt].
      - apply (all_class_no_cpars cls0); [apply J2; assumption|exact N].
      - destruct (cpars cls [y]) eqn:Ec; [reflexivity|]. exfalso.
        assert (fst y <= t) by (apply U; [apply in_app_iff; right; right; exact Hy|rewrite Ec; discriminate]). lia. }
    split.
    + change ((t, ps ++ [(cls, x)]) :: post) with ([(t, ps ++ [(cls, x)])] ++ post).
      change ((t, ps) :: post) with ([(t, ps)] ++ post).
      rewrite !cpars_app, cpars_block_snoc, P, !app_nil_r, <- app_assoc. reflexivity.
    + apply J_app. split; [exact J1|]. split; [cbn [J fst]; split; [exact J2|exact J4]|].
      intros u v Hu [<-|Hv] Ef.
      * exfalso. cbn [fst] in Ef. apply (E3 u Hu). symmetry. exact Ef.
      * apply (J3 u v Hu (or_intror Hv) Ef).
  - pose proof (add_to_first_none _ _ _ A) as NT.
    assert (Ins : forall pre post, b = pre ++ post ->
              (forall y, In y post -> t < fst y) ->
              cpars cls (pre ++ (t, [(cls, x)]) :: post) = cpars cls b ++ [(t, x)]
              /\ J cls0 (pre ++ (t, [(cls, x)]) :: post)).
    { intros pre post E Lq. subst b. apply J_app in Jb. destruct Jb as (J1 & J2 & J3).
      assert (P : cpars cls post = []).
      { apply (cpars_later_none cls _ post t U). intros y Hy. split; [apply in_app_iff; right; exact Hy|apply Lq; exact Hy]. }
      split.
      - change ((t, [(cls, x)]) :: post) with ([(t, [(cls, x)])] ++ post).
        rewrite !cpars_app, cpars_new_block, P, !app_nil_r. reflexivity.
      - apply J_app. split; [exact J1|]. split.
        + cbn [J fst]. split; [|exact J2]. intros y Hy Ef. exfalso. specialize (Lq y Hy). lia.
        + intros u v Hu [<-|Hv] Ef.
          * exfalso. cbn [fst] in Ef. apply (NT u); [apply in_app_iff; left; exact Hu|symmetry; exact Ef].
          * apply (J3 u v Hu Hv Ef). }
    unfold find_closest. destruct (insert_after_last_earlier t (cls, x) b) as [b'|] eqn:B.
    + destruct (insert_after_some _ _ _ _ B) as (pre0 & e & post & E1 & E2 & E3 & E4). subst b'.
      pose proof (Ins (pre0 ++ [e]) post) as Q. rewrite <- !app_assoc in Q. cbn [app] in Q.
      apply Q; [exact E1|].
      intros y Hy. assert (t <= fst y) by (apply E4; exact Hy).
      assert (fst y <> t) by (apply NT; subst b; apply in_app_iff; right; right; exact Hy). lia.
    + pose proof (insert_after_none _ _ _ B) as L.
      destruct (insert_before_first_later t (cls, x) b) as [b'|] eqn:C.
      * destruct (insert_before_some _ _ _ _ C) as (pre & post & E1 & E2 & E3 & _). subst b'.
        apply Ins; [exact E1|].
        intros y Hy. assert (t <= fst y) by (apply L; subst b; apply in_app_iff; right; exact Hy).
        assert (fst y <> t) by (apply NT; subst b; apply in_app_iff; right; exact Hy). lia.
      * replace (b ++ [(t, [(cls, x)])]) with (b ++ (t, [(cls, x)]) :: []) by reflexivity.
        apply Ins; [rewrite app_nil_r; reflexivity|intros y []].
Qed.

Lemma write_lang_secondary_general : forall cls0 cls caps last b, str_eqb cls0 cls = false ->
  sorted b -> J cls0 b -> upper cls b (last_or0 last) -> caps_sorted (last_or0 last) caps ->
  cpars cls (write_lang false cls caps last b) = cpars cls b ++ lang_pars caps last
  /\ sorted (write_lang false cls caps last b) /\ J cls0 (write_lang false cls caps last b)
  /\ (forall cls', str_eqb cls cls' = false -> cpars cls' (write_lang false cls caps last b) = cpars cls' b).
Proof.
  induction caps as [|c t IH]; intros last b N S Jb U C; cbn [write_lang lang_pars].
  - rewrite app_nil_r. repeat split; auto.
  - destruct C as (C1 & C2 & C3). set (time := wc_start c / 1000) in *.
    set (blank := blank_due last time).
    set (b1 := if blank then place false (last_or0 last) (cls, nbsp_text) b else b).
    assert (B1 : cpars cls b1 = cpars cls b ++ (if blank then [(last_or0 last, nbsp_text)] else [])
                 /\ sorted b1 /\ J cls0 b1 /\ upper cls b1 time
                 /\ (forall cls', str_eqb cls cls' = false -> cpars cls' b1 = cpars cls' b)).
    { unfold b1. destruct blank.
      - destruct (place_secondary_general cls0 cls (last_or0 last) nbsp_text b N S Jb U) as [A1 A2].
        split; [exact A1|]. split; [apply place_secondary_sorted; exact S|]. split; [exact A2|]. split.
        + apply (placed_upper cls (last_or0 last) (cls, nbsp_text) b); [apply place_placed|eapply upper_mono; eauto|exact C1].
        + intros cls' N'. apply (placed_other_class cls' cls (last_or0 last) nbsp_text b); [apply place_placed|exact N'].
      - rewrite app_nil_r. repeat split; auto. eapply upper_mono; eauto. }
    destruct B1 as (P1 & S1 & J1 & U1 & O1).
    destruct (place_secondary_general cls0 cls time (wc_text c) b1 N S1 J1 U1) as [P2 J2].
    pose proof (place_secondary_sorted time (cls, wc_text c) b1 S1) as S2.
    assert (U2 : upper cls (place false time (cls, wc_text c) b1) (wc_end c / 1000)).
    { apply (placed_upper cls time (cls, wc_text c) b1); [apply place_placed|eapply upper_mono; eauto|exact C2]. }
    destruct (IH (Some (wc_end c / 1000)) _ N S2 J2 U2 C3) as (P3 & S3 & J3 & O3).
    split; [|split; [exact S3|split; [exact J3|]]].
    + rewrite P3, P2, P1, <- !app_assoc. reflexivity.
    + intros cls' N'. rewrite (O3 cls' N').
      destruct (placed_other_class cls' cls time (wc_text c) b1 _ (place_placed false _ _ _) N') as [Q _].
      rewrite Q. apply O1. exact N'.
Qed.

(* the first language: appended block by block; afterwards every paragraph is of that language *)
Lemma write_lang_primary_general : forall cls caps last b, (forall y, In y b -> all_class cls y) ->
  cpars cls (write_lang true cls caps last b) = cpars cls b ++ lang_pars caps last
  /\ (forall y, In y (write_lang true cls caps last b) -> all_class cls y).
Proof.
  induction caps as [|c t IH]; intros last b A; cbn [write_lang lang_pars].
  - rewrite app_nil_r. split; auto.
  - set (time := wc_start c / 1000). set (blank := blank_due last time).
    set (b1 := if blank then place true (last_or0 last) (cls, nbsp_text) b else b).
    assert (B1 : cpars cls b1 = cpars cls b ++ (if blank then [(last_or0 last, nbsp_text)] else [])
                 /\ (forall y, In y b1 -> all_class cls y)).
    { unfold b1. destruct blank.
      - unfold place. rewrite cpars_app, cpars_new_block. split; [reflexivity|].
        intros y Hy. apply in_app_iff in Hy. destruct Hy as [Hy|[<-|[]]]; [apply A; exact Hy|].
        intros p [<-|[]]. reflexivity.
      - rewrite app_nil_r. split; [reflexivity|exact A]. }
    destruct B1 as (P1 & A1).
    destruct (IH (Some (wc_end c / 1000)) (place true time (cls, wc_text c) b1)) as (P3 & A3).
    { unfold place. intros y Hy. apply in_app_iff in Hy. destruct Hy as [Hy|[<-|[]]]; [apply A1; exact Hy|].
      intros p [<-|[]]. reflexivity. }
    split; [|exact A3]. rewrite P3. unfold place at 1. rewrite cpars_app, cpars_new_block, P1, <- !app_assoc. reflexivity.
Qed.

Lemma all_class_J : forall cls0 b, (forall y, In y b -> all_class cls0 y) -> J cls0 b.
Proof.
  induction b as [|x r IH]; intros A; [exact I|]. cbn [J]. split.
  - intros y Hy _. apply A. right. exact Hy.
  - apply IH. intros y Hy. apply A. right. exact Hy.
Qed.

Lemma write_langs_secondary_general : forall cls0 cs b,
  sorted b -> J cls0 b -> NoDup (map fst cs) -> ~ In cls0 (map fst cs) ->
  (forall l caps, In (l, caps) cs -> caps_sorted 0 caps /\ cpars l b = []) ->
  (forall l caps, In (l, caps) cs -> cpars l (write_langs false cs b) = lang_pars caps None)
  /\ (forall cls, ~ In cls (map fst cs) -> cpars cls (write_langs false cs b) = cpars cls b).
Proof.
  induction cs as [|[l caps] t IH]; intros b S Jb N N0 H; cbn [write_langs].
  - split; [intros l caps []|auto].
  - inversion N as [|? ? N1 N2]; subst.
    destruct (H l caps (or_introl eq_refl)) as [C E].
    assert (U : upper l b 0).
    { intros y Hy Hn. exfalso. apply Hn. apply (cpars_nil_each l b E y Hy). }
    assert (Nl : str_eqb cls0 l = false).
    { destruct (str_eqb cls0 l) eqn:Q; [|reflexivity]. apply str_eqb_true_eq in Q. subst. exfalso. apply N0. left. reflexivity. }
    destruct (write_lang_secondary_general cls0 l caps None b Nl S Jb U C) as (P1 & S1 & J1 & O1).
    assert (Neq : forall l', In l' (map fst t) -> str_eqb l l' = false).
    { intros l' Hl. destruct (str_eqb l l') eqn:Q; [|reflexivity]. apply str_eqb_true_eq in Q. subst. contradiction. }
    destruct (IH (write_lang false l caps None b) S1 J1 N2) as (P2 & O2).
    { intros C0. apply N0. right. exact C0. }
    { intros l' caps' Hin. destruct (H l' caps' (or_intror Hin)) as [C' E']. split; [exact C'|].
      rewrite O1; [exact E'|]. apply Neq. apply in_map_iff. exists (l', caps'). split; [reflexivity|exact Hin]. }
    split.
    + intros l' caps' [Hin|Hin].
      * inversion Hin; subst. rewrite (O2 l' N1), P1, E. reflexivity.
      * apply P2. exact Hin.
    + intros cls Hc. rewrite O2 by (intros C'; apply Hc; right; exact C').
      apply O1. destruct (str_eqb l cls) eqn:Q; [|reflexivity]. apply str_eqb_true_eq in Q. subst. exfalso. apply Hc. left. reflexivity.
Qed.

(* sami_language_order: whenever every language's cues are sorted (ms resolution; zero-duration and coinciding
   cues allowed) and language names are distinct, the paragraphs of every language in the written body are exactly
   the writer's sequence for its cue list, in order *)
Theorem sami_language_order : forall cs, NoDup (map fst cs) ->
  (forall l caps, In (l, caps) cs -> caps_sorted 0 caps) ->
  forall l caps, In (l, caps) cs -> cpars l (sami_write cs) = lang_pars caps None.
Proof.
  intros [|[l0 caps0] rest] N C l caps Hin; [destruct Hin|]. unfold sami_write. cbn [write_langs].
  inversion N as [|? ? N1 N2]; subst.
  destruct (write_lang_primary_general l0 caps0 None [] (fun y (H : In y []) => match H with end)) as (P0 & A0).
  assert (S0 : sorted (write_lang true l0 caps0 None [])).
  { apply write_lang_primary_sorted; [exact I|intros y []|apply (C l0 caps0); left; reflexivity]. }
  destruct (write_langs_secondary_general l0 rest (write_lang true l0 caps0 None []) S0 (all_class_J _ _ A0) N2 N1) as (P1 & O1).
  { intros l' caps' H'. split; [apply (C l' caps'); right; exact H'|].
    apply cpars_none. intros y Hy. apply (all_class_no_cpars l0); [apply A0; exact Hy|].
    destruct (str_eqb l0 l') eqn:Q; [|reflexivity]. apply str_eqb_true_eq in Q. subst. exfalso. apply N1.
    apply in_map_iff. exists (l', caps'). split; [reflexivity|exact H']. }
  destruct Hin as [Hin|Hin].
  - inversion Hin; subst. rewrite (O1 l N1), P0. reflexivity.
  - apply P1. exact Hin.
Qed.

(* ---- in the terms of the oracle: the non-blank paragraphs of a language are its cues at start // 1000 -------- *)
Definition nonblank (q : Z * str) : bool := negb (str_eqb (snd q) (lit "&nbsp;")).

Lemma pars_block : forall (s : Z) cls (ps : list par),
  map (fun p : str * str => (s, snd p)) (filter (fun p => str_eqb (fst p) cls && negb (SpecLangs.blank_par p)) ps)
  = filter nonblank (map (fun p : str * str => (s, snd p)) (filter (fun p => str_eqb (fst p) cls) ps)).
Proof.
  induction ps as [|p t IH]; [reflexivity|]. cbn [filter].
  destruct (str_eqb (fst p) cls) eqn:E; cbn [andb]; [|exact IH].
  assert (NB : nonblank (s, snd p) = negb (SpecLangs.blank_par p)) by reflexivity.
  cbn [map filter]. rewrite NB.
  destruct (negb (SpecLangs.blank_par p)); cbn [map]; rewrite IH; reflexivity.
Qed.

Lemma pars_of_cpars : forall cls b, SpecLangs.pars_of cls b = filter nonblank (cpars cls b).
Proof.
  intros cls b. unfold SpecLangs.pars_of, cpars. induction b as [|[s ps] r IH]; [reflexivity|].
  cbn [flat_map fst snd]. rewrite filter_app, IH, pars_block. reflexivity.
Qed.

Lemma lang_pars_nonblank : forall caps last,
  (forall c, In c caps -> str_eqb (wc_text c) (lit "&nbsp;") = false) ->
  filter nonblank (lang_pars caps last) = map (fun c => (wc_start c / 1000, wc_text c)) caps.
Proof.
  induction caps as [|c t IH]; intros last H; [reflexivity|]. cbn [lang_pars map].
  rewrite filter_app. cbn [filter]. unfold nonblank at 2. cbn [snd]. rewrite (H c (or_introl eq_refl)). cbn [negb].
  rewrite IH by (intros d Hd; apply H; right; exact Hd).
  destruct (blank_due last (wc_start c / 1000)); reflexivity.
Qed.

(* the model's body satisfies the list clause of the oracle ok_sami_body for every language *)
Theorem sami_language_cues : forall cs, NoDup (map fst cs) ->
  (forall l caps, In (l, caps) cs -> caps_sorted 0 caps) ->
  (forall l caps c, In (l, caps) cs -> In c caps -> str_eqb (wc_text c) (lit "&nbsp;") = false) ->
  forall l caps, In (l, caps) cs ->
    SpecLangs.pars_of l (sami_write cs) = map (fun c => (wc_start c / 1000, wc_text c)) caps.
Proof.
  intros cs N C T l caps Hin. rewrite pars_of_cpars, (sami_language_order cs N C l caps Hin).
  apply lang_pars_nonblank. intros c Hc. apply (T l caps c Hin Hc).
Qed.

(* ---- ALL inputs (no sortedness at all): languages never mix ----------------------------------------------------
   Whatever the cue times, every language's paragraphs in the body are - as a multiset, each with the start of the
   block it sits in - exactly the writer's sequence for that language's cue list; a class that is not a language of
   the set has no paragraph. *)
From Coq Require Import Permutation.

Lemma placed_perm : forall cls t x b b', placed t (cls, x) b b' ->
  Permutation (cpars cls b') (cpars cls b ++ [(t, x)]).
Proof.
  intros cls t x b b' H. destruct H as [pre ps post E|pre post E]; subst b.
  - change ((t, ps ++ [(cls, x)]) :: post) with ([(t, ps ++ [(cls, x)])] ++ post).
    change ((t, ps) :: post) with ([(t, ps)] ++ post).
    rewrite !cpars_app, cpars_block_snoc, <- !app_assoc.
    apply Permutation_app_head. apply Permutation_app_head. apply Permutation_app_comm.
  - change ((t, [(cls, x)]) :: post) with ([(t, [(cls, x)])] ++ post).
    rewrite !cpars_app, cpars_new_block, <- app_assoc. apply Permutation_app_head. apply Permutation_app_comm.
Qed.

Lemma write_lang_perm : forall pr cls caps last b,
  Permutation (cpars cls (write_lang pr cls caps last b)) (cpars cls b ++ lang_pars caps last)
  /\ (forall cls', str_eqb cls cls' = false -> cpars cls' (write_lang pr cls caps last b) = cpars cls' b).
Proof.
  intros pr cls. induction caps as [|c t IH]; intros last b; cbn [write_lang lang_pars].
  - rewrite app_nil_r. split; [apply Permutation_refl|reflexivity].
  - set (time := wc_start c / 1000).
    set (b1 := if blank_due last time then place pr (last_or0 last) (cls, nbsp_text) b else b).
    assert (B1 : Permutation (cpars cls b1) (cpars cls b ++ (if blank_due last time then [(last_or0 last, nbsp_text)] else []))
                 /\ (forall cls', str_eqb cls cls' = false -> cpars cls' b1 = cpars cls' b)).
    { unfold b1. destruct (blank_due last time).
      - split; [apply placed_perm; apply place_placed|].
        intros cls' N. apply (placed_other_class cls' cls (last_or0 last) nbsp_text b); [apply place_placed|exact N].
      - rewrite app_nil_r. split; [apply Permutation_refl|reflexivity]. }
    destruct B1 as [P1 O1].
    destruct (IH (Some (wc_end c / 1000)) (place pr time (cls, wc_text c) b1)) as [P3 O3].
    split.
    + eapply Permutation_trans; [exact P3|].
      pose proof (placed_perm cls time (wc_text c) b1 _ (place_placed pr time (cls, wc_text c) b1)) as P2.
      eapply Permutation_trans; [apply Permutation_app_tail; exact P2|].
      eapply Permutation_trans; [apply Permutation_app_tail; apply Permutation_app_tail; exact P1|].
      rewrite <- !app_assoc. apply Permutation_refl.
    + intros cls' N. rewrite (O3 cls' N).
      destruct (placed_other_class cls' cls time (wc_text c) b1 _ (place_placed pr _ _ _) N) as [Q _].
      rewrite Q. apply O1. exact N.
Qed.

Lemma write_langs_perm : forall cs first b, NoDup (map fst cs) ->
  (forall l caps, In (l, caps) cs ->
     Permutation (cpars l (write_langs first cs b)) (cpars l b ++ lang_pars caps None))
  /\ (forall cls, ~ In cls (map fst cs) -> cpars cls (write_langs first cs b) = cpars cls b).
Proof.
  induction cs as [|[l caps] t IH]; intros first b N; cbn [write_langs].
  - split; [intros l caps []|auto].
  - inversion N as [|? ? N1 N2]; subst.
    destruct (write_lang_perm first l caps None b) as [P1 O1].
    destruct (IH false (write_lang first l caps None b) N2) as [P2 O2].
    assert (Neq : forall cls, l <> cls -> str_eqb l cls = false).
    { intros cls D. destruct (str_eqb l cls) eqn:Q; [|reflexivity]. apply str_eqb_true_eq in Q. contradiction. }
    split.
    + intros l' caps' [Hin|Hin].
      * inversion Hin; subst. rewrite (O2 l' N1). exact P1.
      * eapply Permutation_trans; [apply P2; exact Hin|]. rewrite O1; [apply Permutation_refl|].
        apply Neq. intros D. subst. apply N1. apply in_map_iff. exists (l', caps'). split; [reflexivity|exact Hin].
    + intros cls Hc. rewrite O2 by (intros C'; apply Hc; right; exact C').
      apply O1. apply Neq. intros D. subst. apply Hc. left. reflexivity.
Qed.

Theorem sami_languages_never_mix : forall cs, NoDup (map fst cs) ->
  (forall l caps, In (l, caps) cs -> Permutation (cpars l (sami_write cs)) (lang_pars caps None))
  /\ (forall cls, ~ In cls (map fst cs) -> cpars cls (sami_write cs) = []).
Proof. intros cs N. unfold sami_write. apply (write_langs_perm cs true [] N). Qed.

(* ---- wave 3: the writer model meets the WHOLE oracle ok_sami_body ------------------------------------------- *)
From PV Require Import proofs.LangsFacts.

Definition as_sset (cs : list (str * list wcue)) : sset :=
  map (fun lc => (fst lc, map (fun c => (wc_start c, wc_text c)) (snd lc))) cs.

(* domain: distinct language names, every language's cues sorted at ms resolution, no cue text equal to the blank *)
Definition dom_sami_write (cs : list (str * list wcue)) : Prop :=
  NoDup (map fst cs) /\ (forall l caps, In (l, caps) cs -> caps_sorted 0 caps) /\
  (forall l caps c, In (l, caps) cs -> In c caps -> str_eqb (wc_text c) (lit "&nbsp;") = false).

Lemma in_cpars : forall (s : sync) p b, In s b -> In p (snd s) -> In (fst s, snd p) (cpars (fst p) b).
Proof.
  intros s p b Hs Hp. unfold cpars. apply in_flat_map. exists s. split; [exact Hs|].
  apply in_map_iff. exists p. split; [reflexivity|]. apply filter_In. split; [exact Hp|apply str_eqb_same].
Qed.

Theorem sami_write_meets_oracle : forall cs, dom_sami_write cs -> ok_sami_body (as_sset cs) (sami_write cs) = true.
Proof.
  intros cs (N & C & T). unfold ok_sami_body. apply andb_true_intro. split; [apply andb_true_intro; split|].
  - apply sorted_nondecr. apply sami_syncs_sorted. destruct cs as [|[l caps] t]; [exact I|]. apply (C l caps). left. reflexivity.
  - unfold as_sset. rewrite forallb_forall. intros lc Hlc. apply in_map_iff in Hlc. destruct Hlc as [[l caps] [<- Hin]].
    cbn [fst snd]. rewrite (sami_language_cues cs N C T l caps Hin), map_map. cbn [fst snd].
    apply list_eqb_refl. apply cue_eqb_refl.
  - rewrite forallb_forall. intros s Hs. rewrite forallb_forall. intros p Hp.
    unfold as_sset. rewrite map_map. cbn [fst].
    destruct (smem (fst p) (map fst cs)) eqn:M; [reflexivity|]. exfalso.
    destruct (sami_languages_never_mix cs N) as [_ O].
    assert (NI : ~ In (fst p) (map fst cs)).
    { intros Hin. apply mem_In in Hin. unfold mem in Hin. unfold smem in M. congruence. }
    pose proof (in_cpars s p (sami_write cs) Hs Hp) as I. rewrite (O (fst p) NI) in I. destruct I.
Qed.
