(* ReaderReuseFacts.v - C10: isolation of reads on reused SAMI / DFXP / MicroDVD / WebVTT reader objects (model/ReaderReuse.v):
   generic history theorem, the covering resets of the four machines, which resets are redundant, two-document witnesses for
   the partial resets. *)
From Coq Require Import List ZArith QArith Bool Arith.
From PV Require Import lib.Sx lib.Str lib.Result model.ReaderReuse.
Import ListNotations.
Open Scope Z_scope.

Section ReuseFacts.
  Variables (S D R F : Type).
  Variable prepare : list F -> S -> S.
  Variable consume : list F -> S -> D -> S * R.
  Variable fresh : D -> R.
  Variable covers : list F -> bool.
  Hypothesis read_fresh : forall fs s d, covers fs = true -> snd (obj_read S D R F prepare consume fs s d) = fresh d.

  Theorem obj_history_isolated : forall fs docs s,
    covers fs = true -> obj_history S D R F prepare consume fs s docs = map fresh docs.
  Proof.
    intros fs docs. induction docs as [|d t IH]; intros s H; [reflexivity|].
    cbn [obj_history map]. pose proof (read_fresh fs s d H) as E.
    destruct (obj_read S D R F prepare consume fs s d) as [s1 r]. cbn [snd] in E. rewrite E, (IH s1 H). reflexivity.
  Qed.

  Theorem obj_history_same_document : forall fs before between after d s,
    covers fs = true ->
    let rs := obj_history S D R F prepare consume fs s (before ++ d :: between ++ d :: after) in
    nth_error rs (length before) = nth_error rs (length before + Datatypes.S (length between)).
  Proof.
    intros fs before between after d s H rs. unfold rs. rewrite (obj_history_isolated fs _ s H).
    rewrite map_app. cbn [map]. rewrite map_app. cbn [map].
    rewrite nth_error_app2; rewrite map_length; [|apply Nat.le_refl]. rewrite Nat.sub_diag. cbn [nth_error].
    rewrite nth_error_app2; rewrite map_length; [|apply Nat.le_add_r].
    replace (length before + Datatypes.S (length between) - length before)%nat with (Datatypes.S (length between)).
    - cbn [nth_error]. rewrite nth_error_app2; rewrite map_length; [|apply Nat.le_refl]. rewrite Nat.sub_diag. reflexivity.
    - rewrite Nat.add_comm. rewrite Nat.add_sub. reflexivity.
  Qed.
End ReuseFacts.

(* ---- par (SAMI line / first_alignment, DFXP nodes) ------------------------------------------------------------------------ *)
Lemma ppars_covering : forall d fs s s' acc,
  pcovers fs = true -> snd (ppars fs s d acc) = snd (ppars par_code_reset s' d acc).
Proof.
  induction d as [|p t IH]; intros fs s s' acc H; [reflexivity|].
  unfold pcovers in H. apply andb_true_iff in H. destruct H as [H1 H2].
  cbn [ppars]. rewrite H1, H2.
  change (phas par_code_reset PLine) with true. change (phas par_code_reset PFaPre) with true.
  change (phas par_code_reset PFaPost) with true. cbn iota.
  destruct (pitems (mkP [] None) p) as [s1 ok]. destruct ok; [|reflexivity].
  apply IH. unfold pcovers. rewrite H1, H2. reflexivity.
Qed.

Theorem par_read_is_fresh : forall fs s d,
  pcovers fs = true -> snd (obj_read pstate pdoc pres pfld pprepare pconsume fs s d) = par_fresh d.
Proof. intros fs s d H. unfold obj_read, pprepare, pconsume, par_fresh. apply ppars_covering. exact H. Qed.

Theorem par_history_isolated : forall fs docs s, pcovers fs = true -> par_history fs s docs = map par_fresh docs.
Proof. intros. unfold par_history. apply (obj_history_isolated _ _ _ _ _ _ par_fresh pcovers par_read_is_fresh). assumption. Qed.

Theorem par_code_reset_covers : pcovers par_code_reset = true /\ pcovers [PLine; PFaPre] = true.
Proof. split; reflexivity. Qed.

Definition pd_text (z : Z) : pdoc := [[IText z]].
Definition pd_aligned : pdoc := [[IAlign 3; IText 1]].
Definition pd_raises_after_align : pdoc := [[IText 0]; [IAlign 3; IText 1; IFail]].

(* partial resets: a two-document history whose second result is not the fresh one; the covering reset agrees *)
Theorem par_partial_resets_refuted :
  par_history [PFaPre; PFaPost] pstate0 [pd_text 1; pd_text 2] <> map par_fresh [pd_text 1; pd_text 2] /\
  par_history [PLine] pstate0 [pd_aligned; pd_text 2] <> map par_fresh [pd_aligned; pd_text 2] /\
  par_history [PLine; PFaPost] pstate0 [pd_raises_after_align; pd_text 2] <> map par_fresh [pd_raises_after_align; pd_text 2] /\
  par_history [PLine; PFaPost] pstate0 [pd_aligned; pd_text 2] = map par_fresh [pd_aligned; pd_text 2] /\
  par_history [PLine; PFaPre] pstate0 [pd_raises_after_align; pd_text 2] = map par_fresh [pd_raises_after_align; pd_text 2].
Proof. repeat split; vm_compute; try reflexivity; intros H; discriminate H. Qed.

(* ---- mdvd ----------------------------------------------------------------------------------------------------------------- *)
Theorem mdvd_read_is_fresh : forall fs s d,
  mcovers fs = true -> snd (obj_read mstate mdoc mres mfld mprepare mconsume fs s d) = mdvd_fresh d.
Proof. intros fs s d H. unfold obj_read, mprepare, mdvd_fresh, mcovers in *. rewrite H. reflexivity. Qed.

Theorem mdvd_history_isolated : forall fs docs s, mcovers fs = true -> mdvd_history fs s docs = map mdvd_fresh docs.
Proof. intros. unfold mdvd_history. apply (obj_history_isolated _ _ _ _ _ _ mdvd_fresh mcovers mdvd_read_is_fresh). assumption. Qed.

Definition md_ntsc : mdoc := [MHeader 23976 1000; MCue 24 48].
Definition md_plain : mdoc := [MCue 25 50].
Definition md_header_then_bad : mdoc := [MHeader 30 1; MCue 30 60; MBad].

Theorem mdvd_no_reset_refuted :
  mdvd_history [] mstate0 [md_ntsc; md_plain] <> map mdvd_fresh [md_ntsc; md_plain] /\
  mdvd_history [] mstate0 [md_header_then_bad; md_plain] <> map mdvd_fresh [md_header_then_bad; md_plain] /\
  mdvd_history [MFps] mstate0 [md_header_then_bad; md_plain] = map mdvd_fresh [md_header_then_bad; md_plain].
Proof. repeat split; vm_compute; try reflexivity; intros H; discriminate H. Qed.

(* ---- vtt ------------------------------------------------------------------------------------------------------------------ *)
Theorem vtt_read_is_fresh : forall o fs s d,
  vcovers fs = true -> snd (obj_read vstate vdoc vres vfld vprepare (vconsume o) fs s d) = vtt_fresh o d.
Proof. intros o fs s d H. unfold obj_read, vprepare, vtt_fresh, vcovers in *. rewrite H. reflexivity. Qed.

Theorem vtt_history_isolated : forall o fs docs s, vcovers fs = true -> vtt_history o fs s docs = map (vtt_fresh o) docs.
Proof. intros. unfold vtt_history. apply (obj_history_isolated _ _ _ _ _ _ (vtt_fresh o) vcovers (vtt_read_is_fresh o)). assumption. Qed.

(* with ignore_timing_errors=True (the default) the previous start is never consulted: no reset is needed at all *)
Lemma vcues_lenient : forall o cs s s' acc, v_strict o = false -> snd (vcues o s cs acc) = snd (vcues o s' cs acc).
Proof.
  intros o cs. induction cs as [|[a b] t IH]; intros s s' acc H; [reflexivity|].
  cbn [vcues]. rewrite H. cbn [andb]. apply IH. exact H.
Qed.

Theorem vtt_lenient_needs_no_reset : forall o fs docs s,
  v_strict o = false -> vtt_history o fs s docs = map (vtt_fresh o) docs.
Proof.
  intros o fs docs. induction docs as [|d t IH]; intros s H; [reflexivity|].
  unfold vtt_history in *. cbn [obj_history map]. unfold obj_read at 1.
  destruct (vconsume o fs (vprepare fs s) d) as [s1 r] eqn:E. rewrite (IH s1 H). f_equal.
  unfold vtt_fresh, vconsume in *. replace r with (snd (vcues o (vprepare fs s) d [])) by (rewrite E; reflexivity).
  apply vcues_lenient. exact H.
Qed.

Definition strict (shift : Z) : vopts := mkV true shift.
Definition vd_late : vdoc := [(5000000, 6000000); (7000000, 8000000)].
Definition vd_early : vdoc := [(1000000, 2000000)].
Definition vd_raises_midway : vdoc := [(40000000, 41000000); (5000000, 4000000)].

Theorem vtt_no_reset_refuted :
  vtt_history (strict 0) [] vstate0 [vd_late; vd_early] <> map (vtt_fresh (strict 0)) [vd_late; vd_early] /\
  vtt_history (strict 500000) [] vstate0 [vd_late; vd_late] <> map (vtt_fresh (strict 500000)) [vd_late; vd_late] /\
  vtt_history (strict 0) [] vstate0 [vd_raises_midway; vd_early] <> map (vtt_fresh (strict 0)) [vd_raises_midway; vd_early] /\
  vtt_history (strict 0) [VPrev] vstate0 [vd_raises_midway; vd_early] = map (vtt_fresh (strict 0)) [vd_raises_midway; vd_early].
Proof. repeat split; vm_compute; try reflexivity; intros H; discriminate H. Qed.
