(* C01, wave 7: the string-level reader of DFXP documents (model/XmlRead.v) on every rendering of every abstract
   document (spec/SpecXmlDocT.v): the text parses to the intended tree, the reader's queries on the tree give the
   <div>s and <p>s of the abstract document, hence (TimeTreeFacts.dfxp_doc_exact) the caption set it denotes. *)
From Coq Require Import List ZArith Lia Bool ZifyBool Arith.
From PV Require Import lib.Sx lib.Str lib.Result lib.Dec.
From PV Require Import model.Langs model.TimeRead model.TimeTree model.XmlRead.
From PV Require Import spec.SpecTime spec.SpecTimeTree spec.SpecXmlDocT.
From PV Require Import proofs.TimeStrFacts proofs.TimeTreeFacts.
Import ListNotations.
Open Scope Z_scope.

(* ---- generic string lemmas -------------------------------------------------------------------------------- *)
Definition stops (f : Z -> bool) (s : str) : Prop := match s with [] => True | c :: _ => f c = false end.

Lemma take_while_stops : forall f a b, forallb f a = true -> stops f b -> take_while f (a ++ b) = a.
Proof.
  intros f a b Ha Hb. induction a as [|x a IH].
  - destruct b as [|c r]; [reflexivity|]. cbn in Hb |- *. rewrite Hb. reflexivity.
  - cbn [forallb] in Ha. apply andb_true_iff in Ha. destruct Ha as [Hx Ha]. cbn [app take_while]. rewrite Hx, (IH Ha). reflexivity.
Qed.

Lemma drop_while_stops : forall f a b, forallb f a = true -> stops f b -> drop_while f (a ++ b) = b.
Proof.
  intros f a b Ha Hb. induction a as [|x a IH].
  - destruct b as [|c r]; [reflexivity|]. cbn in Hb |- *. rewrite Hb. reflexivity.
  - cbn [forallb] in Ha. apply andb_true_iff in Ha. destruct Ha as [Hx Ha]. cbn [app drop_while]. rewrite Hx. exact (IH Ha).
Qed.

Definition lacksq (q : Z) (s : str) : bool := forallb (fun c => negb (c =? q)) s.

Lemma take_to_app : forall q a r, lacksq q a = true -> take_to q (a ++ q :: r) = a.
Proof.
  intros q a r H. induction a as [|x a IH]; cbn [app take_to].
  - rewrite Z.eqb_refl. reflexivity.
  - cbn [lacksq forallb] in H. apply andb_true_iff in H. destruct H as [Hx H].
    destruct (x =? q); [discriminate|]. rewrite (IH H). reflexivity.
Qed.

Lemma drop_to_app : forall q a r, lacksq q a = true -> drop_to q (a ++ q :: r) = Some r.
Proof.
  intros q a r H. induction a as [|x a IH]; cbn [app drop_to].
  - rewrite Z.eqb_refl. reflexivity.
  - cbn [lacksq forallb] in H. apply andb_true_iff in H. destruct H as [Hx H].
    destruct (x =? q); [discriminate|]. exact (IH H).
Qed.

Lemma forallb_flat_map : forall (A : Type) (p : Z -> bool) (f : A -> str) l,
  (forall x, In x l -> forallb p (f x) = true) -> forallb p (flat_map f l) = true.
Proof.
  intros A p f l H. induction l as [|x l IH]; [reflexivity|].
  cbn [flat_map]. rewrite forallb_app, (H x (or_introl eq_refl)), IH; [reflexivity|].
  intros y Hy. apply H. right. exact Hy.
Qed.

Lemma forallb_imp : forall (p q : Z -> bool) s, (forall c, p c = true -> q c = true) -> forallb p s = true -> forallb q s = true.
Proof.
  intros p q s H. induction s as [|c s IH]; [reflexivity|]. cbn [forallb]. intros Hs.
  apply andb_true_iff in Hs. destruct Hs as [Hc Hs]. rewrite (H c Hc), (IH Hs). reflexivity.
Qed.

(* ---- character classes ------------------------------------------------------------------------------------ *)
Lemma xws_facts : forall c, xws c = true ->
  h_ws c = true /\ tag_name_c c = false /\ attr_name_c c = false /\ not_lt c = true /\ (c =? 38) = false
  /\ is_space c = true.
Proof.
  intros c H. assert (E : c = 32 \/ c = 9 \/ c = 10 \/ c = 13) by (unfold xws in H; lia).
  destruct E as [E|[E|[E|E]]]; subst c; repeat split; reflexivity.
Qed.

Lemma name_c_facts : forall c, name_c c = true ->
  h_ws c = false /\ tag_name_c c = true /\ attr_name_c c = true /\ lower_ch c = c
  /\ (c =? 62) = false /\ (c =? 47) = false /\ (c =? 61) = false.
Proof.
  intros c H. unfold name_c, lc_letter, is_digit, tag_name_c, attr_name_c, lower_ch, h_ws in *.
  repeat split; try lia. destruct ((65 <=? c) && (c <=? 90)) eqn:E; lia.
Qed.

Lemma lc_letter_name_c : forall c, lc_letter c = true -> name_c c = true.
Proof. intros c H. unfold name_c. rewrite H. reflexivity. Qed.

Lemma lc_letter_facts : forall c, lc_letter c = true ->
  is_letter c = true /\ (c =? 47) = false /\ (c =? 63) = false /\ (c =? 60) = false.
Proof. intros c H. unfold lc_letter, is_letter in *. lia. Qed.

Lemma is_ws_h_ws : forall w, is_ws w = true -> forallb h_ws w = true.
Proof. intros w. apply forallb_imp. intros c H. apply xws_facts in H. tauto. Qed.

Lemma is_ws_not_lt : forall w, is_ws w = true -> forallb not_lt w = true.
Proof. intros w. apply forallb_imp. intros c H. apply xws_facts in H. tauto. Qed.

Lemma name_ok_inv : forall n, name_ok n = true ->
  exists c t, n = c :: t /\ lc_letter c = true /\ forallb name_c (c :: t) = true.
Proof.
  intros [|c t] H; [discriminate|]. cbn [name_ok] in H. apply andb_true_iff in H. destruct H as [Hc Ht].
  exists c, t. repeat split; [exact Hc|]. cbn [forallb]. rewrite (lc_letter_name_c c Hc), Ht. reflexivity.
Qed.

Lemma names_lower : forall n, forallb name_c n = true -> lower n = n.
Proof.
  induction n as [|c n IH]; [reflexivity|]. cbn [forallb]. intros H. apply andb_true_iff in H. destruct H as [Hc Hn].
  unfold lower in *. cbn [map]. rewrite (IH Hn). destruct (name_c_facts c Hc) as (_ & _ & _ & E & _). rewrite E. reflexivity.
Qed.

Lemma names_tag : forall n, forallb name_c n = true -> forallb tag_name_c n = true.
Proof. intros n. apply forallb_imp. intros c H. apply name_c_facts in H. tauto. Qed.
Lemma names_attr : forall n, forallb name_c n = true -> forallb attr_name_c n = true.
Proof. intros n. apply forallb_imp. intros c H. apply name_c_facts in H. tauto. Qed.

Lemma aname_c_facts : forall c, aname_c c = true ->
  h_ws c = false /\ attr_name_c c = true /\ (c =? 62) = false /\ (c =? 47) = false /\ (c =? 61) = false.
Proof.
  intros c H. unfold aname_c in H. apply orb_true_iff in H. destruct H as [H|H].
  - apply name_c_facts in H. tauto.
  - unfold uc_letter in H. unfold attr_name_c, h_ws. lia.
Qed.

Lemma aname_ok_inv : forall n, aname_ok n = true ->
  exists c t, n = c :: t /\ lc_letter c = true /\ forallb aname_c (c :: t) = true.
Proof.
  intros [|c t] H; [discriminate|]. cbn [aname_ok] in H. apply andb_true_iff in H. destruct H as [Hc Ht].
  exists c, t. repeat split; [exact Hc|]. cbn [forallb]. unfold aname_c at 1. rewrite (lc_letter_name_c c Hc), Ht. reflexivity.
Qed.

Lemma anames_attr : forall n, forallb aname_c n = true -> forallb attr_name_c n = true.
Proof. intros n. apply forallb_imp. intros c H. apply aname_c_facts in H. tauto. Qed.

(* what follows a run of white space inside a tag *)
Lemma stops_ws_then : forall (f : Z -> bool) w c r,
  is_ws w = true -> (forall x, xws x = true -> f x = false) -> f c = false -> stops f (w ++ c :: r).
Proof.
  intros f w c r Hw Hf Hc. destruct w as [|x w]; [exact Hc|]. cbn [app stops].
  cbn [is_ws forallb] in Hw. apply andb_true_iff in Hw. apply Hf. tauto.
Qed.

(* ---- references --------------------------------------------------------------------------------------------- *)
Definition quote_or_text (q : Z) : Prop := q = 34 \/ q = 39 \/ q = -1.

Lemma unescape_esc_ch : forall q c rest, quote_or_text q ->
  unescape (esc_ch q c ++ rest) None = c :: unescape rest None.
Proof.
  intros q c rest Hq. unfold esc_ch.
  destruct (c =? 38) eqn:E38; [assert (c = 38) by lia; subst; reflexivity|].
  destruct (c =? 60) eqn:E60; [assert (c = 60) by lia; subst; reflexivity|].
  destruct (c =? 62) eqn:E62; [assert (c = 62) by lia; subst; reflexivity|].
  destruct (c =? q) eqn:Eq.
  - assert (c = q) by lia. subst c. destruct Hq as [Hq|[Hq|Hq]]; subst q; reflexivity.
  - cbn [app unescape]. rewrite E38. reflexivity.
Qed.

Lemma unescape_esc_val : forall q v rest, quote_or_text q ->
  unescape (esc_val q v ++ rest) None = v ++ unescape rest None.
Proof.
  intros q v rest Hq. unfold esc_val. induction v as [|c v IH]; [reflexivity|].
  cbn [flat_map]. rewrite <- app_assoc, (unescape_esc_ch q c _ Hq), IH. reflexivity.
Qed.

Lemma unescape_plain : forall w rest, forallb (fun c => negb (c =? 38)) w = true ->
  unescape (w ++ rest) None = w ++ unescape rest None.
Proof.
  induction w as [|c w IH]; intros rest H; [reflexivity|]. cbn [forallb] in H. apply andb_true_iff in H.
  destruct H as [Hc Hw]. cbn [app unescape]. destruct (c =? 38); [discriminate|]. rewrite (IH rest Hw). reflexivity.
Qed.

Lemma unescape_ref_acc : forall ds r rest, forallb is_digit ds = true ->
  unescape (ds ++ 59 :: rest) (Some r)
  = match ref_char (rev r ++ ds) with
    | Some v => v :: unescape rest None
    | None => 38 :: (rev r ++ ds) ++ 59 :: unescape rest None
    end.
Proof.
  induction ds as [|d ds IH]; intros r rest H.
  - cbn [app unescape]. rewrite app_nil_r. reflexivity.
  - cbn [forallb] in H. apply andb_true_iff in H. destruct H as [Hd Hds].
    cbn [app unescape]. assert (E : (d =? 59) = false) by (unfold is_digit in Hd; lia). rewrite E.
    etransitivity; [apply (IH (d :: r) rest Hds)|]. cbn [rev]. rewrite <- app_assoc. reflexivity.
Qed.

Lemma ref_char_dec : forall c, 0 <= c -> (128 <=? c) && (c <? 160) = false -> ref_char (35 :: dec_nonneg c) = Some c.
Proof.
  intros c H0 Hr. unfold ref_char.
  change (str_eqb (35 :: dec_nonneg c) (lit "amp")) with false.
  change (str_eqb (35 :: dec_nonneg c) (lit "lt")) with false.
  change (str_eqb (35 :: dec_nonneg c) (lit "gt")) with false.
  change (str_eqb (35 :: dec_nonneg c) (lit "quot")) with false.
  change (str_eqb (35 :: dec_nonneg c) (lit "apos")) with false.
  cbv iota. pose proof (dec_nonneg_digits c H0) as Hd. pose proof (int_of_dec c H0) as Hi.
  destruct (dec_nonneg c) as [|x ds] eqn:E; [exfalso; exact (dec_nonneg_nonempty c E)|].
  cbn [forallb] in Hd. apply andb_true_iff in Hd. destruct Hd as [Hx _].
  assert (Ex : (x =? 120) || (x =? 88) = false) by (unfold is_digit in Hx; lia). rewrite Ex, Hi, Hr. reflexivity.
Qed.

Lemma unescape_tchar : forall x rest, tchar_ok x = true ->
  unescape (render_tchar x ++ rest) None = fst x :: unescape rest None.
Proof.
  intros [c b] rest H. unfold render_tchar, tchar_ok in *. cbn [fst snd] in *. destruct b.
  - apply andb_true_iff in H. destruct H as [H0 Hr].
    change (lit "&#") with [38; 35]. rewrite <- !app_assoc. cbn [app unescape].
    change (38 =? 38) with true. cbv iota. change (35 =? 59) with false. cbv iota.
    rewrite unescape_ref_acc by (apply dec_nonneg_digits; lia). cbn [rev app].
    rewrite ref_char_dec; [reflexivity|lia|]. destruct ((128 <=? c) && (c <? 160)); [discriminate|reflexivity].
  - apply unescape_esc_ch. right. right. reflexivity.
Qed.

Lemma unescape_tstr : forall t rest, tstr_ok t = true ->
  unescape (render_tstr t ++ rest) None = tstr_val t ++ unescape rest None.
Proof.
  unfold render_tstr, tstr_val, tstr_ok. induction t as [|x t IH]; intros rest H; [reflexivity|].
  cbn [forallb] in H. apply andb_true_iff in H. destruct H as [Hx Ht].
  cbn [flat_map map]. rewrite <- app_assoc, (unescape_tchar x _ Hx), (IH rest Ht). reflexivity.
Qed.

(* ---- what renderings cannot contain ----------------------------------------------------------------------- *)
Lemma esc_ch_not_lt : forall q c, forallb not_lt (esc_ch q c) = true.
Proof.
  intros q c. unfold esc_ch.
  destruct (c =? 38); [reflexivity|]. destruct (c =? 60) eqn:E60; [reflexivity|]. destruct (c =? 62); [reflexivity|].
  destruct (c =? q); [destruct (q =? 34); [reflexivity|destruct (q =? 39); [reflexivity|]]|];
    cbn [forallb]; unfold not_lt; rewrite E60; reflexivity.
Qed.

Lemma esc_ch_lacksq : forall q c, q = 34 \/ q = 39 -> lacksq q (esc_ch q c) = true.
Proof.
  intros q c Hq. unfold esc_ch, lacksq.
  destruct (c =? 38); [destruct Hq; subst q; reflexivity|].
  destruct (c =? 60); [destruct Hq; subst q; reflexivity|].
  destruct (c =? 62); [destruct Hq; subst q; reflexivity|].
  destruct (c =? q) eqn:E; [destruct Hq; subst q; reflexivity|]. cbn [forallb]. rewrite E. reflexivity.
Qed.

Lemma esc_val_lacksq : forall q v, q = 34 \/ q = 39 -> lacksq q (esc_val q v) = true.
Proof. intros q v Hq. unfold lacksq, esc_val. apply forallb_flat_map. intros x _. apply esc_ch_lacksq. exact Hq. Qed.

Lemma render_tchar_not_lt : forall x, 0 <= fst x \/ snd x = false -> forallb not_lt (render_tchar x) = true.
Proof.
  intros [c b] H. unfold render_tchar. cbn [fst snd] in *. destruct b; [|apply esc_ch_not_lt].
  destruct H as [H|H]; [|discriminate]. change (lit "&#") with [38; 35]. cbn [app forallb].
  rewrite forallb_app. cbn [forallb]. change (not_lt 38) with true. change (not_lt 35) with true. change (not_lt 59) with true.
  rewrite (forallb_imp is_digit not_lt); [reflexivity| |apply dec_nonneg_digits; exact H].
  intros d Hd. unfold is_digit, not_lt in *. lia.
Qed.

Lemma render_tstr_not_lt : forall t, tstr_ok t = true -> forallb not_lt (render_tstr t) = true.
Proof.
  intros t H. unfold render_tstr. apply forallb_flat_map. intros x Hx. apply render_tchar_not_lt.
  unfold tstr_ok in H. rewrite forallb_forall in H. specialize (H x Hx). unfold tchar_ok in H.
  destruct (snd x); [left; lia|right; reflexivity].
Qed.

(* ---- attributes and tags ------------------------------------------------------------------------------------ *)
Lemma quote_of_cases : forall f, quote_of f = 34 \/ quote_of f = 39.
Proof. intros f. unfold quote_of. destruct (af_dq f); [left|right]; reflexivity. Qed.

Lemma parse_attr_render : forall name e1 e2 q v T,
  aname_ok name = true -> is_ws e1 = true -> is_ws e2 = true -> (q = 34 \/ q = 39) ->
  parse_attr (name ++ e1 ++ [61] ++ e2 ++ [q] ++ esc_val q v ++ [q] ++ T) = Some (lower name, v, T).
Proof.
  intros name e1 e2 q v T Hn H1 H2 Hq. destruct (aname_ok_inv name Hn) as (c & t & En & Hc & Hnc).
  cbn [app]. unfold parse_attr.
  assert (S1 : stops attr_name_c (e1 ++ 61 :: e2 ++ q :: esc_val q v ++ q :: T)).
  { apply stops_ws_then; [exact H1| |reflexivity]. intros x Hx. apply xws_facts in Hx. tauto. }
  rewrite (take_while_stops attr_name_c name _ (anames_attr _ (eq_ind_r (fun n => forallb aname_c n = true) Hnc En)) S1).
  rewrite (drop_while_stops attr_name_c name _ (anames_attr _ (eq_ind_r (fun n => forallb aname_c n = true) Hnc En)) S1).
  subst name. cbv iota.
  rewrite (drop_while_stops h_ws e1 _ (is_ws_h_ws _ H1)) by reflexivity.
  change (61 =? 61) with true. cbv iota.
  assert (Hqw : h_ws q = false) by (destruct Hq; subst q; reflexivity).
  rewrite (drop_while_stops h_ws e2 _ (is_ws_h_ws _ H2)) by exact Hqw.
  assert (Hqq : (q =? 34) || (q =? 39) = true) by lia. rewrite Hqq.
  rewrite (drop_to_app q _ T (esc_val_lacksq q v Hq)), (take_to_app q _ T (esc_val_lacksq q v Hq)).
  rewrite <- (app_nil_r (esc_val q v)), unescape_esc_val by (destruct Hq; [left|right; left]; assumption).
  cbn [unescape]. rewrite app_nil_r. reflexivity.
Qed.

Definition tag_closer (sc : bool) : str := if sc then [47; 62] else [62].

Lemma render_attr_shape : forall a T,
  render_attr a ++ T
  = af_pre (ra_fmt a) ++ ra_name a ++ af_e1 (ra_fmt a) ++ [61] ++ af_e2 (ra_fmt a) ++ [quote_of (ra_fmt a)]
    ++ esc_val (quote_of (ra_fmt a)) (ra_val a) ++ [quote_of (ra_fmt a)] ++ T.
Proof. intros a T. unfold render_attr. cbv zeta. rewrite <- !app_assoc. reflexivity. Qed.

Lemma parse_attrs_render : forall l fuel acc e sc rest,
  forallb rattr_ok l = true -> is_ws e = true -> (length l < fuel)%nat ->
  parse_attrs fuel (flat_map render_attr l ++ e ++ tag_closer sc ++ rest) acc = Some (rev acc ++ plain l, sc, rest).
Proof.
  induction l as [|a l IH]; intros fuel acc e sc rest Hl He Hf; (destruct fuel as [|f]; [cbn [length] in Hf; lia|]).
  - cbn [flat_map app parse_attrs plain map]. rewrite app_nil_r.
    rewrite (drop_while_stops h_ws e _ (is_ws_h_ws _ He)) by (destruct sc; reflexivity).
    destruct sc; reflexivity.
  - cbn [forallb] in Hl. apply andb_true_iff in Hl. destruct Hl as [Ha Hl].
    unfold rattr_ok, afmt_ok in Ha. repeat (apply andb_true_iff in Ha; destruct Ha as [Ha ?]).
    cbn [flat_map]. rewrite <- app_assoc, render_attr_shape. cbn [parse_attrs].
    destruct (aname_ok_inv _ H) as (c & t & En & Hc & Hnc).
    assert (Hcw : h_ws c = false) by (apply lc_letter_name_c, name_c_facts in Hc; tauto).
    rewrite (drop_while_stops h_ws (af_pre (ra_fmt a)) _ (is_ws_h_ws _ Ha)) by (rewrite En; exact Hcw).
    pose proof (parse_attr_render (ra_name a) (af_e1 (ra_fmt a)) (af_e2 (ra_fmt a)) (quote_of (ra_fmt a)) (ra_val a)
                  (flat_map render_attr l ++ e ++ tag_closer sc ++ rest) H H1 H0 (quote_of_cases _)) as P.
    rewrite En in P |- *. cbn [app] in P |- *.
    destruct (name_c_facts c (lc_letter_name_c c Hc)) as (_ & _ & _ & _ & E62 & E47 & _).
    rewrite E62, E47. cbn [app] in P. rewrite P.
    rewrite IH; [|exact Hl|exact He|cbn [length] in Hf; lia].
    cbn [rev plain map]. rewrite <- app_assoc, En. reflexivity.
Qed.

Lemma render_attrs_length : forall l T, (length l <= length (flat_map render_attr l ++ T))%nat.
Proof.
  induction l as [|a l IH]; intros T; [cbn; lia|]. cbn [flat_map length]. rewrite <- app_assoc.
  unfold render_attr at 1. cbv zeta. rewrite <- !app_assoc. rewrite !app_length. cbn [length].
  specialize (IH T). rewrite app_length in IH. lia.
Qed.

Lemma tag_tail_stops : forall l e sc rest, forallb rattr_ok l = true -> is_ws e = true ->
  stops tag_name_c (flat_map render_attr l ++ e ++ tag_closer sc ++ rest).
Proof.
  intros l e sc rest Hl He. destruct l as [|a l].
  - cbn [flat_map app]. destruct e as [|x e].
    + destruct sc; reflexivity.
    + cbn [app stops]. cbn [is_ws forallb] in He. apply andb_true_iff in He. destruct He as [Hx _].
      apply xws_facts in Hx. tauto.
  - cbn [forallb] in Hl. apply andb_true_iff in Hl. destruct Hl as [Ha _].
    unfold rattr_ok, afmt_ok in Ha. repeat (apply andb_true_iff in Ha; destruct Ha as [Ha ?]).
    cbn [flat_map]. rewrite <- app_assoc, render_attr_shape.
    destruct (af_pre (ra_fmt a)) as [|x p]; [discriminate|]. cbn [app stops].
    cbn [is_ws forallb] in Ha. apply andb_true_iff in Ha. destruct Ha as [Hx _]. apply xws_facts in Hx. tauto.
Qed.

Lemma parse_open_render : forall name l e sc rest,
  name_ok name = true -> forallb rattr_ok l = true -> is_ws e = true ->
  parse_open (name ++ flat_map render_attr l ++ e ++ tag_closer sc ++ rest) = Some (name, plain l, sc, rest).
Proof.
  intros name l e sc rest Hn Hl He. destruct (name_ok_inv name Hn) as (c & t & En & Hc & Hnc).
  assert (Hnn : forallb name_c name = true) by (rewrite En; exact Hnc).
  unfold parse_open.
  rewrite (drop_while_stops tag_name_c name _ (names_tag _ Hnn) (tag_tail_stops l e sc rest Hl He)).
  rewrite (take_while_stops tag_name_c name _ (names_tag _ Hnn) (tag_tail_stops l e sc rest Hl He)).
  rewrite parse_attrs_render; [|exact Hl|exact He|].
  - rewrite (names_lower name Hnn). reflexivity.
  - rewrite app_length. pose proof (render_attrs_length l (e ++ tag_closer sc ++ rest)). lia.
Qed.

Lemma parse_close_render : forall name w rest, name_ok name = true -> is_ws w = true ->
  parse_close name (name ++ w ++ [62] ++ rest) = Some rest.
Proof.
  intros name w rest Hn Hw. destruct (name_ok_inv name Hn) as (c & t & En & Hc & Hnc).
  assert (Hnn : forallb name_c name = true) by (rewrite En; exact Hnc).
  assert (S1 : stops tag_name_c (w ++ [62] ++ rest)).
  { apply stops_ws_then; [exact Hw| |reflexivity]. intros x Hx. apply xws_facts in Hx. tauto. }
  unfold parse_close.
  rewrite (take_while_stops tag_name_c name _ (names_tag _ Hnn) S1), (drop_while_stops tag_name_c name _ (names_tag _ Hnn) S1).
  rewrite (names_lower name Hnn), str_eqb_refl.
  rewrite (drop_while_stops h_ws w _ (is_ws_h_ws _ Hw)) by reflexivity. reflexivity.
Qed.

(* ---- nodes: one step of parse_nodes ----------------------------------------------------------------------- *)
Definition is_end (rest : str) : Prop := rest = [] \/ exists t, rest = 60 :: 47 :: t.

Lemma is_end_stops : forall rest, is_end rest -> stops not_lt rest.
Proof. intros rest [H|[t H]]; subst rest; reflexivity. Qed.

Lemma parse_nodes_at_end : forall rest f, is_end rest -> (length rest < f)%nat -> parse_nodes f rest = Some ([], rest).
Proof. intros rest f H Hf. destruct f as [|f]; [lia|]. destruct H as [H|[t H]]; subst rest; reflexivity. Qed.

Definition raw_text_nodes (txt : str) : list hnode := match txt with [] => [] | _ => [HText (unescape txt None)] end.

Lemma parse_nodes_text_then : forall txt X res,
  forallb not_lt txt = true -> stops not_lt X ->
  (forall f, (length X < f)%nat -> parse_nodes f X = Some res) ->
  forall fuel, (length (txt ++ X) < fuel)%nat ->
  parse_nodes fuel (txt ++ X) = Some (raw_text_nodes txt ++ fst res, snd res).
Proof.
  intros txt X res Ht HX HR fuel Hf. destruct txt as [|c t].
  - cbn [app raw_text_nodes]. rewrite (HR fuel Hf). destruct res; reflexivity.
  - destruct fuel as [|f]; [lia|]. cbn [app length] in Hf.
    pose proof Ht as Ht'. cbn [forallb] in Ht'. apply andb_true_iff in Ht'. destruct Ht' as [Hc _].
    assert (E : (c =? 60) = false) by (unfold not_lt in Hc; lia).
    cbn [app parse_nodes]. rewrite E.
    change (c :: t ++ X) with ((c :: t) ++ X).
    rewrite (drop_while_stops not_lt (c :: t) X Ht HX), (take_while_stops not_lt (c :: t) X Ht HX).
    rewrite (HR f) by (rewrite app_length in Hf; lia). destruct res; reflexivity.
Qed.

Lemma render_open_shape : forall name l e sc X,
  render_open name l e sc ++ X = 60 :: name ++ flat_map render_attr l ++ e ++ tag_closer sc ++ X.
Proof. intros. unfold render_open, tag_closer. rewrite <- !app_assoc. reflexivity. Qed.

Lemma render_close_shape : forall name w X, render_close name w ++ X = 60 :: 47 :: name ++ w ++ [62] ++ X.
Proof. intros. unfold render_close. rewrite <- !app_assoc. reflexivity. Qed.

Lemma render_close_is_end : forall name w X, is_end (render_close name w ++ X).
Proof. intros. right. rewrite render_close_shape. eexists. reflexivity. Qed.

Lemma render_open_stops : forall name l e sc X, stops not_lt (render_open name l e sc ++ X).
Proof. intros. rewrite render_open_shape. reflexivity. Qed.

Lemma render_open_length : forall name l e sc, (1 <= length (render_open name l e sc))%nat.
Proof. intros. unfold render_open. cbn [app length]. lia. Qed.

Lemma parse_nodes_open : forall f name l e sc X, name_ok name = true -> forallb rattr_ok l = true -> is_ws e = true ->
  parse_nodes (S f) (render_open name l e sc ++ X)
  = match Some (name, plain l, sc, X) with
    | Some (name, a, true, r) =>
        match parse_nodes f r with Some (sibs, r') => Some (HElem name a [] :: sibs, r') | None => None end
    | Some (name, a, false, r) =>
        match parse_nodes f r with
        | Some (kids, r1) =>
            match r1 with
            | _ :: _ :: r1' =>
                match parse_close name r1' with
                | Some r2 => match parse_nodes f r2 with Some (sibs, r3) => Some (HElem name a kids :: sibs, r3) | None => None end
                | None => None
                end
            | _ => None
            end
        | None => None
        end
    | None => None
    end.
Proof.
  intros f name l e sc X Hn Hl He. rewrite render_open_shape.
  pose proof (parse_open_render name l e sc X Hn Hl He) as P.
  destruct (name_ok_inv name Hn) as (c & t & En & Hc & Hnc). rewrite En in P |- *. cbn [app] in P |- *.
  destruct (lc_letter_facts c Hc) as (L & E47 & E63 & _).
  cbn [parse_nodes]. change (60 =? 60) with true. cbv iota. rewrite E47, E63, L, P. reflexivity.
Qed.

Lemma parse_nodes_empty_elem : forall name l e X sibs r,
  name_ok name = true -> forallb rattr_ok l = true -> is_ws e = true ->
  (forall f, (length X < f)%nat -> parse_nodes f X = Some (sibs, r)) ->
  forall fuel, (length (render_open name l e true ++ X) < fuel)%nat ->
  parse_nodes fuel (render_open name l e true ++ X) = Some (HElem name (plain l) [] :: sibs, r).
Proof.
  intros name l e X sibs r Hn Hl He HX fuel Hf. destruct fuel as [|f]; [lia|].
  rewrite (parse_nodes_open f name l e true X Hn Hl He). cbv iota.
  rewrite (HX f); [reflexivity|]. rewrite app_length in Hf. pose proof (render_open_length name l e true). lia.
Qed.

Lemma parse_nodes_elem : forall name l e inner cw X kids sibs r,
  name_ok name = true -> forallb rattr_ok l = true -> is_ws e = true -> is_ws cw = true ->
  (forall f, (length (inner ++ render_close name cw ++ X) < f)%nat ->
             parse_nodes f (inner ++ render_close name cw ++ X) = Some (kids, render_close name cw ++ X)) ->
  (forall f, (length X < f)%nat -> parse_nodes f X = Some (sibs, r)) ->
  forall fuel, (length (render_open name l e false ++ inner ++ render_close name cw ++ X) < fuel)%nat ->
  parse_nodes fuel (render_open name l e false ++ inner ++ render_close name cw ++ X)
  = Some (HElem name (plain l) kids :: sibs, r).
Proof.
  intros name l e inner cw X kids sibs r Hn Hl He Hcw HK HX fuel Hf. destruct fuel as [|f]; [lia|].
  rewrite (parse_nodes_open f name l e false _ Hn Hl He). cbv iota.
  rewrite app_length in Hf. pose proof (render_open_length name l e false) as L1.
  rewrite (HK f) by lia.
  rewrite render_close_shape. rewrite (parse_close_render name cw X Hn Hcw).
  rewrite (HX f); [reflexivity|].
  rewrite !app_length in Hf. lia.
Qed.

(* ---- the intended tree ---------------------------------------------------------------------------------------- *)
Definition text_nodes (s : str) : list hnode := match s with [] => [] | _ => [HText s] end.

Definition tree_of_pel (e : pel) : hnode :=
  match e with
  | PBr _ => HElem (lit "br") [] []
  | PSpan t txt _ => HElem (lit "span") (plain (rt_attrs t)) (text_nodes (tstr_val txt))
  end.
Definition tree_of_items (items : list (tstr * pel)) : list hnode :=
  flat_map (fun it : tstr * pel => text_nodes (tstr_val (fst it)) ++ [tree_of_pel (snd it)]) items.
Definition tree_of_content (c : pcontent) : list hnode := tree_of_items (fst c) ++ text_nodes (tstr_val (snd c)).

Fixpoint tree_of (d : dforest) : list hnode :=
  match d with
  | FEnd w => text_nodes w
  | FP pre pa _ c _ next => text_nodes pre ++ HElem (lit "p") (plain (pattrs_list pa)) (tree_of_content c) :: tree_of next
  | FDiv pre l1 lang l2 _ kids _ next =>
      text_nodes pre ++ HElem (lit "div") (plain (lang_attrs l1 lang l2)) (tree_of kids) :: tree_of next
  | FElem pre name t kids _ next => text_nodes pre ++ HElem name (plain (rt_attrs t)) (tree_of kids) :: tree_of next
  | FEmpty pre name t next => text_nodes pre ++ HElem name (plain (rt_attrs t)) [] :: tree_of next
  end.

Lemma raw_text_ws : forall w, is_ws w = true -> raw_text_nodes w = text_nodes w.
Proof.
  intros w H. destruct w as [|c w]; [reflexivity|]. unfold raw_text_nodes, text_nodes.
  rewrite <- (app_nil_r (c :: w)) at 1. rewrite unescape_plain.
  - cbn [unescape]. rewrite app_nil_r. reflexivity.
  - revert H. apply forallb_imp. intros x Hx. apply xws_facts in Hx. destruct Hx as (_ & _ & _ & _ & E & _). rewrite E. reflexivity.
Qed.

Lemma render_tchar_nonempty : forall x, render_tchar x <> [].
Proof.
  intros [c b]. unfold render_tchar. cbn [fst snd]. destruct b; [discriminate|]. unfold esc_ch.
  destruct (c =? 38); [discriminate|]. destruct (c =? 60); [discriminate|]. destruct (c =? 62); [discriminate|].
  destruct (c =? -1); [|discriminate]. destruct (-1 =? 34); [discriminate|]. destruct (-1 =? 39); discriminate.
Qed.

Lemma raw_text_tstr : forall t, tstr_ok t = true -> raw_text_nodes (render_tstr t) = text_nodes (tstr_val t).
Proof.
  intros t H. destruct t as [|x t]; [reflexivity|].
  unfold raw_text_nodes, text_nodes. pose proof (unescape_tstr (x :: t) [] H) as U. rewrite app_nil_r in U.
  cbn [unescape] in U. rewrite app_nil_r in U. rewrite U.
  destruct (render_tstr (x :: t)) eqn:E.
  - unfold render_tstr in E. cbn [flat_map] in E. apply app_eq_nil in E. destruct E as [E _].
    exfalso. exact (render_tchar_nonempty x E).
  - reflexivity.
Qed.

Lemma parse_nodes_ws_then : forall w X res, is_ws w = true -> stops not_lt X ->
  (forall f, (length X < f)%nat -> parse_nodes f X = Some res) ->
  forall fuel, (length (w ++ X) < fuel)%nat -> parse_nodes fuel (w ++ X) = Some (text_nodes w ++ fst res, snd res).
Proof.
  intros w X res Hw HX HR fuel Hf. rewrite <- (raw_text_ws w Hw).
  apply parse_nodes_text_then; [apply is_ws_not_lt; exact Hw|exact HX|exact HR|exact Hf].
Qed.

Lemma parse_nodes_tstr_then : forall t X res, tstr_ok t = true -> stops not_lt X ->
  (forall f, (length X < f)%nat -> parse_nodes f X = Some res) ->
  forall fuel, (length (render_tstr t ++ X) < fuel)%nat ->
  parse_nodes fuel (render_tstr t ++ X) = Some (text_nodes (tstr_val t) ++ fst res, snd res).
Proof.
  intros t X res Ht HX HR fuel Hf. rewrite <- (raw_text_tstr t Ht).
  apply parse_nodes_text_then; [apply render_tstr_not_lt; exact Ht|exact HX|exact HR|exact Hf].
Qed.

(* ---- the content of a <p> ------------------------------------------------------------------------------------- *)
Lemma parse_pel : forall e X sibs r, pel_ok e = true ->
  (forall f, (length X < f)%nat -> parse_nodes f X = Some (sibs, r)) ->
  forall fuel, (length (render_pel e ++ X) < fuel)%nat ->
  parse_nodes fuel (render_pel e ++ X) = Some (tree_of_pel e :: sibs, r).
Proof.
  intros e X sibs r He HX fuel Hf. destruct e as [w|t txt cw]; cbn [render_pel tree_of_pel pel_ok] in *.
  - apply (parse_nodes_empty_elem (lit "br") [] w X sibs r); [reflexivity|reflexivity|exact He|exact HX|exact Hf].
  - apply andb_true_iff in He. destruct He as [He Hcw]. apply andb_true_iff in He. destruct He as [Ht Htxt].
    unfold rtag_ok in Ht. apply andb_true_iff in Ht. destruct Ht as [Hl Hend].
    rewrite <- !app_assoc in Hf |- *.
    apply (parse_nodes_elem (lit "span") (rt_attrs t) (rt_end t) (render_tstr txt) cw X (text_nodes (tstr_val txt)) sibs r);
      [reflexivity|exact Hl|exact Hend|exact Hcw| |exact HX|exact Hf].
    intros f Hk.
    rewrite (parse_nodes_tstr_then txt _ ([], render_close (lit "span") cw ++ X) Htxt
               (is_end_stops _ (render_close_is_end _ _ _))); [cbn [fst snd]; rewrite app_nil_r; reflexivity| |exact Hk].
    intros f' Hf'. apply parse_nodes_at_end; [apply render_close_is_end|exact Hf'].
Qed.

Lemma render_pel_stops : forall e X, stops not_lt (render_pel e ++ X).
Proof. intros [w|t txt cw] X; cbn [render_pel]; rewrite <- ?app_assoc; apply render_open_stops. Qed.

Lemma parse_content : forall items last rest,
  content_ok (items, last) = true -> is_end rest ->
  forall fuel, (length (render_content (items, last) ++ rest) < fuel)%nat ->
  parse_nodes fuel (render_content (items, last) ++ rest) = Some (tree_of_content (items, last), rest).
Proof.
  unfold content_ok, render_content, tree_of_content. cbn [fst snd].
  induction items as [|[t e] items IH]; intros last rest Hc Hend fuel Hf.
  - cbn [forallb andb] in Hc. cbn [flat_map app tree_of_items] in *.
    rewrite (parse_nodes_tstr_then last rest ([], rest) Hc (is_end_stops _ Hend)); [cbn [fst snd]; rewrite app_nil_r; reflexivity| |exact Hf].
    intros f Hf'. apply parse_nodes_at_end; assumption.
  - cbn [forallb] in Hc. apply andb_true_iff in Hc. destruct Hc as [Hc Hlast].
    apply andb_true_iff in Hc. destruct Hc as [Hte Hitems]. cbn [fst snd] in Hte.
    apply andb_true_iff in Hte. destruct Hte as [Ht He].
    cbn [flat_map tree_of_items fst snd] in *. rewrite <- !app_assoc in Hf |- *.
    rewrite (parse_nodes_tstr_then t _ (tree_of_pel e :: tree_of_items items ++ text_nodes (tstr_val last), rest) Ht
               (render_pel_stops e _)); [cbn [fst snd]; unfold tree_of_items; rewrite <- !app_assoc; reflexivity| |exact Hf].
    intros f Hf1. apply parse_pel; [exact He| |exact Hf1].
    intros f' Hf2. rewrite app_assoc. apply IH; [|exact Hend|rewrite <- app_assoc; exact Hf2].
    rewrite Hitems, Hlast. reflexivity.
Qed.

(* ---- forests ---------------------------------------------------------------------------------------------------- *)
Lemma pattrs_list_ok : forall pa, pattrs_ok pa = true -> forallb rattr_ok (pattrs_list pa) = true.
Proof.
  intros [l1 l2 l3 sw fb fc t|l] H; cbn [pattrs_ok pattrs_list] in *; [|exact H].
  repeat (apply andb_true_iff in H; destruct H as [H ?]).
  rewrite !forallb_app in H. apply andb_true_iff in H. destruct H as [Ha H]. apply andb_true_iff in H. destruct H as [Hb Hc].
  rewrite !forallb_app, Ha, Hb, Hc. cbn [forallb].
  assert (B : rattr_ok (begin_attr fb t) = true) by (unfold rattr_ok, begin_attr; cbn [ra_fmt ra_name]; rewrite H2; reflexivity).
  assert (C : rattr_ok (close_attr fc t) = true)
    by (unfold rattr_ok, close_attr; cbn [ra_fmt ra_name]; rewrite H1; destruct (p_is_dur t); reflexivity).
  destruct sw; rewrite B, C; reflexivity.
Qed.

Lemma lang_attrs_list_ok : forall l1 lang l2, lang_attrs_ok l1 lang l2 = true -> forallb rattr_ok (lang_attrs l1 lang l2) = true.
Proof.
  intros l1 lang l2 H. unfold lang_attrs_ok in H. apply andb_true_iff in H. destruct H as [H Hf].
  apply andb_true_iff in H. destruct H as [H _]. rewrite forallb_app in H. apply andb_true_iff in H. destruct H as [Ha Hb].
  unfold lang_attrs. rewrite !forallb_app, Ha, Hb. destruct lang as [[f v]|]; [|reflexivity].
  cbn [forallb]. unfold rattr_ok. cbn [ra_fmt ra_name]. rewrite Hf. reflexivity.
Qed.

Lemma generic_name_ok : forall n, generic_name n = true -> name_ok n = true.
Proof. intros n H. unfold generic_name in H. apply andb_true_iff in H. tauto. Qed.
Lemma empty_name_ok : forall n, empty_name n = true -> name_ok n = true.
Proof. intros n H. unfold empty_name in H. apply andb_true_iff in H. tauto. Qed.

Lemma parse_forest : forall d rest, forest_ok d = true -> is_end rest ->
  forall fuel, (length (render_forest d ++ rest) < fuel)%nat ->
  parse_nodes fuel (render_forest d ++ rest) = Some (tree_of d, rest).
Proof.
  induction d as [w|pre pa e c cw next IHn|pre l1 lang l2 e kids IHk cw next IHn|pre name t kids IHk cw next IHn|pre name t next IHn];
    intros rest Hd Hend fuel Hf; cbn [render_forest tree_of forest_ok] in *.
  - rewrite (parse_nodes_ws_then w rest ([], rest) Hd (is_end_stops _ Hend)); [cbn [fst snd]; rewrite app_nil_r; reflexivity| |exact Hf].
    intros f Hf'. apply parse_nodes_at_end; assumption.
  - repeat (apply andb_true_iff in Hd; destruct Hd as [Hd ?]).
    unfold p_ok in H2. repeat (apply andb_true_iff in H2; destruct H2 as [H2 ?]).
    rewrite <- !app_assoc in Hf |- *.
    rewrite (parse_nodes_ws_then pre _ (HElem (lit "p") (plain (pattrs_list pa)) (tree_of_content c) :: tree_of next, rest) Hd
               (render_open_stops _ _ _ _ _)); [reflexivity| |exact Hf].
    intros f Hf1.
    apply (parse_nodes_elem (lit "p") (pattrs_list pa) e (render_content c) cw (render_forest next ++ rest));
      [reflexivity|apply pattrs_list_ok; exact H2|exact H1|exact H0| | |exact Hf1].
    + intros f' Hf2. destruct c as [items last]. apply parse_content; [exact H4|apply render_close_is_end|exact Hf2].
    + intros f' Hf2. apply IHn; assumption.
  - repeat (apply andb_true_iff in Hd; destruct Hd as [Hd ?]).
    rewrite <- !app_assoc in Hf |- *.
    rewrite (parse_nodes_ws_then pre _ (HElem (lit "div") (plain (lang_attrs l1 lang l2)) (tree_of kids) :: tree_of next, rest) Hd
               (render_open_stops _ _ _ _ _)); [reflexivity| |exact Hf].
    intros f Hf1.
    apply (parse_nodes_elem (lit "div") (lang_attrs l1 lang l2) e (render_forest kids) cw (render_forest next ++ rest));
      [reflexivity|apply lang_attrs_list_ok; exact H3|exact H2|exact H0| | |exact Hf1].
    + intros f' Hf2. apply IHk; [exact H1|apply render_close_is_end|exact Hf2].
    + intros f' Hf2. apply IHn; assumption.
  - repeat (apply andb_true_iff in Hd; destruct Hd as [Hd ?]).
    unfold rtag_ok in H2. apply andb_true_iff in H2. destruct H2 as [Hl He].
    rewrite <- !app_assoc in Hf |- *.
    rewrite (parse_nodes_ws_then pre _ (HElem name (plain (rt_attrs t)) (tree_of kids) :: tree_of next, rest) Hd
               (render_open_stops _ _ _ _ _)); [reflexivity| |exact Hf].
    intros f Hf1.
    apply (parse_nodes_elem name (rt_attrs t) (rt_end t) (render_forest kids) cw (render_forest next ++ rest));
      [apply generic_name_ok; exact H3|exact Hl|exact He|exact H0| | |exact Hf1].
    + intros f' Hf2. apply IHk; [exact H1|apply render_close_is_end|exact Hf2].
    + intros f' Hf2. apply IHn; assumption.
  - repeat (apply andb_true_iff in Hd; destruct Hd as [Hd ?]).
    unfold rtag_ok in H0. apply andb_true_iff in H0. destruct H0 as [Hl He].
    rewrite <- !app_assoc in Hf |- *.
    rewrite (parse_nodes_ws_then pre _ (HElem name (plain (rt_attrs t)) [] :: tree_of next, rest) Hd
               (render_open_stops _ _ _ _ _)); [reflexivity| |exact Hf].
    intros f Hf1.
    apply (parse_nodes_empty_elem name (rt_attrs t) (rt_end t) (render_forest next ++ rest));
      [apply empty_name_ok; exact H1|exact Hl|exact He| |exact Hf1].
    intros f' Hf2. apply IHn; assumption.
Qed.

(* ---- whole documents: text -> tree -------------------------------------------------------------------------- *)
Definition tree_doc (d : xdoc) : list hnode :=
  text_nodes (xd_pre d)
  ++ HElem (lit "tt") (plain (lang_attrs (xd_l1 d) (xd_lang d) (xd_l2 d))) (tree_of (xd_body d)) :: text_nodes (xd_post d).

Lemma parse_ws_only : forall w f, is_ws w = true -> (length w < f)%nat -> parse_nodes f w = Some (text_nodes w, []).
Proof.
  intros w f Hw Hf. rewrite <- (app_nil_r w) at 1.
  rewrite (parse_nodes_ws_then w [] ([], []) Hw I); [cbn [fst snd]; rewrite app_nil_r; reflexivity| |rewrite app_nil_r; exact Hf].
  intros f' Hf'. apply parse_nodes_at_end; [left; reflexivity|exact Hf'].
Qed.

Lemma parse_doc_body : forall d f, xdoc_ok d = true ->
  let s := xd_pre d ++ render_open (lit "tt") (lang_attrs (xd_l1 d) (xd_lang d) (xd_l2 d)) (xd_e d) false
           ++ render_forest (xd_body d) ++ render_close (lit "tt") (xd_cw d) ++ xd_post d in
  (length s < f)%nat -> parse_nodes f s = Some (tree_doc d, []).
Proof.
  intros d f Hd s Hf. subst s. unfold xdoc_ok in Hd. repeat (apply andb_true_iff in Hd; destruct Hd as [Hd ?]).
  unfold tree_doc.
  rewrite (parse_nodes_ws_then (xd_pre d) _
             (HElem (lit "tt") (plain (lang_attrs (xd_l1 d) (xd_lang d) (xd_l2 d))) (tree_of (xd_body d)) :: text_nodes (xd_post d), [])
             H4 (render_open_stops _ _ _ _ _)); [reflexivity| |exact Hf].
  intros f1 Hf1.
  apply (parse_nodes_elem (lit "tt") _ (xd_e d) (render_forest (xd_body d)) (xd_cw d) (xd_post d));
    [reflexivity|apply lang_attrs_list_ok; exact H3|exact H2|exact H0| | |exact Hf1].
  - intros f2 Hf2. apply parse_forest; [exact H1|apply render_close_is_end|exact Hf2].
  - intros f2 Hf2. apply parse_ws_only; assumption.
Qed.

Theorem parse_doc_render : forall d, xdoc_ok d = true -> parse_doc (render_doc d) = Some (tree_doc d).
Proof.
  intros d Hd. unfold parse_doc, render_doc. destruct (xd_pi d) as [c|] eqn:Epi.
  - assert (Hc : lacksq 62 c = true).
    { unfold xdoc_ok in Hd. rewrite Epi in Hd. repeat (apply andb_true_iff in Hd; destruct Hd as [Hd ?]).
      unfold lacksq. clear - Hd. induction c as [|x c IH]; [reflexivity|]. cbn [existsb] in Hd. cbn [forallb].
      rewrite negb_orb in Hd. apply andb_true_iff in Hd. destruct Hd as [Hx Hc]. rewrite (IH Hc), Z.eqb_sym, Hx. reflexivity. }
    rewrite <- !app_assoc. cbn [app parse_nodes]. change (60 =? 60) with true. cbv iota.
    change (63 =? 47) with false. change (63 =? 63) with true. cbv iota.
    rewrite (drop_to_app 62 c _ Hc).
    rewrite parse_doc_body; [reflexivity|exact Hd|]. cbn [length]. rewrite (app_length c). cbn [length]. lia.
  - cbn [app]. rewrite parse_doc_body; [reflexivity|exact Hd|lia].
Qed.

(* ---- the reader's queries on the tree ------------------------------------------------------------------------- *)
Lemma walk_list_cons : forall chain n l,
  walk_list chain (n :: l) = (fst (walk chain n) ++ fst (walk_list chain l), snd (walk chain n) ++ snd (walk_list chain l)).
Proof. reflexivity. Qed.

Lemma walk_list_app : forall chain a b,
  walk_list chain (a ++ b) = (fst (walk_list chain a) ++ fst (walk_list chain b), snd (walk_list chain a) ++ snd (walk_list chain b)).
Proof. intros. unfold walk_list. cbn [fst snd]. rewrite !flat_map_app. reflexivity. Qed.

Lemma walk_list_text : forall chain s, walk_list chain (text_nodes s) = ([], []).
Proof. intros chain [|c s]; reflexivity. Qed.

Lemma walk_text_then : forall chain s l, walk_list chain (text_nodes s ++ l) = walk_list chain l.
Proof. intros. rewrite walk_list_app, walk_list_text. destruct (walk_list chain l); reflexivity. Qed.

Lemma walk_content : forall chain c, walk_list chain (tree_of_content c) = ([], []).
Proof.
  intros chain [items last]. unfold tree_of_content. cbn [fst snd]. rewrite walk_list_app, walk_list_text.
  assert (E : walk_list chain (tree_of_items items) = ([], [])).
  { induction items as [|[t e] items IH]; [reflexivity|]. unfold tree_of_items in *. cbn [flat_map fst snd].
    rewrite walk_list_app, IH, walk_text_then. destruct e as [w|tg txt cw]; cbn [tree_of_pel].
    - reflexivity.
    - rewrite walk_list_cons. cbn [walk]. change (str_eqb (lit "span") (lit "div")) with false.
      change (str_eqb (lit "span") (lit "p")) with false. cbv iota.
      fold (walk_list chain (text_nodes (tstr_val txt))). rewrite walk_list_text. reflexivity. }
  rewrite E. reflexivity.
Qed.

Lemma h_text_text_nodes : forall s, flat_map h_text (text_nodes s) = s.
Proof. intros [|c s]; [reflexivity|]. cbn [text_nodes flat_map h_text]. apply app_nil_r. Qed.

Lemma h_text_content : forall c, flat_map h_text (tree_of_content c) = content_text c.
Proof.
  intros [items last]. unfold tree_of_content, content_text, tree_of_items. cbn [fst snd].
  rewrite flat_map_app, h_text_text_nodes. f_equal.
  induction items as [|[t e] items IH]; [reflexivity|]. cbn [flat_map fst snd].
  rewrite !flat_map_app, IH, h_text_text_nodes. rewrite <- !app_assoc. f_equal.
  destruct e as [w|tg txt cw]; cbn [tree_of_pel flat_map h_text app]; [reflexivity|].
  rewrite h_text_text_nodes, !app_nil_r. reflexivity.
Qed.

Lemma visible_has : forall s, visible s = has_visible_char s.
Proof.
  intros s. unfold visible, has_visible_char. induction s as [|c s IH]; [reflexivity|].
  cbn [forallb existsb]. rewrite negb_andb, IH. reflexivity.
Qed.

(* attribute dictionaries *)
Lemma plain_app : forall a b, plain (a ++ b) = plain a ++ plain b.
Proof. intros. unfold plain. apply map_app. Qed.

Lemma attr_get_lang : forall l1 lang l2, free_of_lang (l1 ++ l2) = true ->
  attr_get (lit "xml:lang") (plain (lang_attrs l1 lang l2)) = option_map snd lang.
Proof.
  intros l1 lang l2 H. unfold free_of_lang in H. rewrite forallb_app in H. apply andb_true_iff in H. destruct H as [H1 H2].
  assert (F : forall l, forallb (fun a => negb (str_eqb (lower (ra_name a)) (lit "xml:lang"))) l = true ->
                        attr_get (lit "xml:lang") (plain l) = None).
  { intros l. unfold attr_get.
    change (fun acc nv => if str_eqb (fst nv) (lit "xml:lang") then Some (snd nv) else acc) with (aget_step (lit "xml:lang")).
    induction l as [|a l IH]; intros Hl; [reflexivity|]. cbn [forallb] in Hl. apply andb_true_iff in Hl. destruct Hl as [Ha Hl].
    cbn [plain map fold_left]. unfold aget_step at 2. cbn [fst snd].
    destruct (str_eqb (lower (ra_name a)) (lit "xml:lang")); [discriminate|]. exact (IH Hl). }
  unfold lang_attrs. rewrite !plain_app, !attr_get_app, (F l2 H2), (F l1 H1).
  destruct lang as [[f v]|]; [|reflexivity]. cbn [plain map]. unfold attr_get. cbn [fold_left fst snd ra_name ra_val].
  rewrite str_eqb_refl. reflexivity.
Qed.

Lemma time_free_app : forall a b, time_free (a ++ b) = time_free a && time_free b.
Proof. intros. unfold time_free. apply forallb_app. Qed.

Lemma xp_times_timed : forall l1 l2 l3 sw fb fc t tx, free_of_times (l1 ++ l2 ++ l3) = true ->
  xp_times (mkXp (plain (pattrs_list (PaTimed l1 l2 l3 sw fb fc t))) tx) = dfxp_p_attrs t.
Proof.
  intros l1 l2 l3 sw fb fc t tx H. unfold free_of_times in H. rewrite !plain_app, !time_free_app in H.
  apply andb_true_iff in H. destruct H as [H1 H]. apply andb_true_iff in H. destruct H as [H2 H3].
  unfold xp_times, dfxp_p_attrs. cbn [xp_attrs pattrs_list]. rewrite !plain_app, !attr_get_app.
  rewrite !(attr_get_free _ (plain l1)), !(attr_get_free _ (plain l2)), !(attr_get_free _ (plain l3)) by (assumption || reflexivity).
  unfold begin_attr, close_attr, plain, attr_get.
  destruct sw, (p_is_dur t); reflexivity.
Qed.

(* what dfxp_read_doc looks at in a paragraph *)
Definition pkey (cp : option lang_chain * xp) := (fst cp, xp_text (snd cp), xp_times (snd cp)).
Definition rendered (ps : list (option (list (option str)) * ap)) : list (option lang_chain * xp) :=
  map (fun cp => (fst cp, ap_render (snd cp))) ps.

Lemma p_key : forall chain pa c, p_ok pa c = true ->
  pkey (chain, mkXp (plain (pattrs_list pa)) (visible (flat_map h_text (tree_of_content c))))
  = pkey (chain, ap_render (to_ap pa c)).
Proof.
  intros chain pa c H. unfold p_ok in H. apply andb_true_iff in H. destruct H as [H Hv].
  apply andb_true_iff in H. destruct H as [Hpa _].
  rewrite h_text_content, visible_has. unfold to_ap, pkey. cbn [fst snd].
  destruct (has_visible_char (content_text c)) eqn:V.
  - destruct pa as [l1 l2 l3 sw fb fc t|l]; [|discriminate].
    cbn [pattrs_ok] in Hpa. repeat (apply andb_true_iff in Hpa; destruct Hpa as [Hpa ?]).
    rewrite (xp_times_timed l1 l2 l3 sw fb fc t true H2).
    rewrite (xp_times_render (plain (l1 ++ l2 ++ l3)) t H2). reflexivity.
  - reflexivity.
Qed.

Lemma generic_not : forall n, generic_name n = true ->
  str_eqb n (lit "div") = false /\ str_eqb n (lit "p") = false /\ str_eqb n (lit "tt") = false.
Proof.
  intros n H. unfold generic_name in H. apply andb_true_iff in H. destruct H as [_ H]. apply negb_true_iff in H.
  unfold special_names in H. cbn [existsb] in H. repeat (apply orb_false_iff in H; destruct H as [? H]). tauto.
Qed.

Lemma empty_not : forall n, empty_name n = true ->
  str_eqb n (lit "div") = false /\ str_eqb n (lit "p") = false /\ str_eqb n (lit "tt") = false.
Proof.
  intros n H. unfold empty_name in H. apply andb_true_iff in H. destruct H as [_ H]. apply negb_true_iff in H.
  cbn [existsb] in H. repeat (apply orb_false_iff in H; destruct H as [? H]). tauto.
Qed.

Lemma walk_generic : forall chain name a kids, str_eqb name (lit "div") = false -> str_eqb name (lit "p") = false ->
  walk chain (HElem name a kids) = walk_list chain kids.
Proof. intros chain name a kids H1 H2. cbn [walk]. rewrite H1, H2. reflexivity. Qed.

Lemma walk_forest : forall d chain, forest_ok d = true ->
  fst (walk_list chain (tree_of d)) = fst (flat chain d) /\
  map pkey (snd (walk_list chain (tree_of d))) = map pkey (rendered (snd (flat chain d))).
Proof.
  induction d as [w|pre pa e c cw next IHn|pre l1 lang l2 e kids IHk cw next IHn|pre name t kids IHk cw next IHn|pre name t next IHn];
    intros chain Hd; cbn [tree_of forest_ok flat] in *.
  - rewrite walk_list_text. split; reflexivity.
  - repeat (apply andb_true_iff in Hd; destruct Hd as [Hd ?]).
    destruct (IHn chain H) as [I1 I2].
    rewrite walk_text_then, walk_list_cons. cbn [walk].
    change (str_eqb (lit "p") (lit "div")) with false. change (str_eqb (lit "p") (lit "p")) with true. cbv iota.
    change (flat_map (fun k => fst (walk chain k)) (tree_of_content c)) with (fst (walk_list chain (tree_of_content c))).
    change (flat_map (fun k => snd (walk chain k)) (tree_of_content c)) with (snd (walk_list chain (tree_of_content c))).
    rewrite walk_content. cbn [fst snd app]. split; [exact I1|].
    unfold rendered. cbn [map]. rewrite (p_key chain pa c H2). f_equal. exact I2.
  - repeat (apply andb_true_iff in Hd; destruct Hd as [Hd ?]).
    destruct (IHn chain H) as [I1 I2].
    rewrite walk_text_then, walk_list_cons. cbn [walk].
    change (str_eqb (lit "div") (lit "div")) with true. cbv iota.
    assert (Hfree : free_of_lang (l1 ++ l2) = true).
    { unfold lang_attrs_ok in H3. apply andb_true_iff in H3. destruct H3 as [H3 _]. apply andb_true_iff in H3. tauto. }
    rewrite (attr_get_lang l1 lang l2 Hfree).
    destruct (IHk (Some (option_map snd lang :: chain_of chain)) H1) as [K1 K2].
    unfold walk_list in I1, I2, K1, K2 |- *. unfold chain_of in K1, K2 |- *. cbn [fst snd] in I1, I2, K1, K2 |- *. split.
    + cbn [app]. f_equal. f_equal; [exact K1|exact I1].
    + unfold rendered in *. rewrite !map_app. f_equal; [exact K2|exact I2].
  - repeat (apply andb_true_iff in Hd; destruct Hd as [Hd ?]).
    destruct (IHn chain H) as [I1 I2]. destruct (IHk chain H1) as [K1 K2].
    destruct (generic_not name H3) as (N1 & N2 & _).
    rewrite walk_text_then, walk_list_cons, (walk_generic chain name _ _ N1 N2). cbn [fst snd]. split.
    + rewrite K1, I1. reflexivity.
    + unfold rendered in *. rewrite !map_app, K2, I2. reflexivity.
  - repeat (apply andb_true_iff in Hd; destruct Hd as [Hd ?]).
    destruct (IHn chain H) as [I1 I2]. destruct (empty_not name H1) as (N1 & N2 & _).
    rewrite walk_text_then, walk_list_cons, (walk_generic chain name _ _ N1 N2). cbn [fst snd walk_list flat_map app].
    split; assumption.
Qed.

(* ---- dfxp_read_doc looks at a paragraph only through pkey ------------------------------------------------- *)
Lemma dfxp_read_doc_ext : forall default tt divs ps ps', map pkey ps = map pkey ps' ->
  dfxp_read_doc default tt divs ps = dfxp_read_doc default tt divs ps'.
Proof.
  intros default tt divs ps ps' H. unfold dfxp_read_doc.
  match goal with |- bind (res_map ?G ps) _ = _ => set (g := G) end.
  assert (E : res_map g ps = res_map g ps').
  { revert ps' H. induction ps as [|x ps IH]; intros [|y ps'] H; try discriminate; [reflexivity|].
    assert (Hxy : pkey x = pkey y) by exact (f_equal (hd (pkey x)) H).
    assert (Hrest : map pkey ps = map pkey ps') by exact (f_equal (@tl _) H). cbn [res_map].
    assert (Eg : g x = g y).
    { assert (Q1 : fst (fst (pkey x)) = fst (fst (pkey y))) by (rewrite Hxy; reflexivity).
      assert (Q2 : snd (fst (pkey x)) = snd (fst (pkey y))) by (rewrite Hxy; reflexivity).
      assert (Q3 : snd (pkey x) = snd (pkey y)) by (rewrite Hxy; reflexivity).
      unfold pkey in Q1, Q2, Q3. cbn [fst snd] in Q1, Q2, Q3. unfold g. cbv beta. rewrite Q1, Q2, Q3. reflexivity. }
    rewrite Eg, (IH ps' Hrest). reflexivity. }
  rewrite E. reflexivity.
Qed.

(* ---- the domain of the tree-level theorem follows from the well-formedness of the text ------------------- *)
Lemma chain_eqb_refl : forall a, chain_eqb a a = true.
Proof.
  intros a. unfold chain_eqb. rewrite Nat.eqb_refl. cbn [andb].
  induction a as [|[x|] a IH]; [reflexivity| |]; cbn [combine forallb fst snd]; rewrite IH; [rewrite str_eqb_refl|]; reflexivity.
Qed.

Lemma to_ap_dom : forall pa c, p_ok pa c = true -> ap_dom (to_ap pa c) = true.
Proof.
  intros pa c H. unfold p_ok in H. apply andb_true_iff in H. destruct H as [H Hv]. apply andb_true_iff in H. destruct H as [Hpa _].
  unfold to_ap. destruct (has_visible_char (content_text c)); [|reflexivity].
  destruct pa as [l1 l2 l3 sw fb fc t|l]; [|reflexivity].
  cbn [pattrs_ok] in Hpa. repeat (apply andb_true_iff in Hpa; destruct Hpa as [Hpa ?]).
  cbn [ap_dom]. unfold free_of_times in H2. rewrite H2, H. reflexivity.
Qed.

Lemma flat_ap_dom : forall d chain, forest_ok d = true -> forallb (fun cp => ap_dom (snd cp)) (snd (flat chain d)) = true.
Proof.
  induction d as [w|pre pa e c cw next IHn|pre l1 lang l2 e kids IHk cw next IHn|pre name t kids IHk cw next IHn|pre name t next IHn];
    intros chain Hd; cbn [forest_ok flat fst snd] in *; repeat (apply andb_true_iff in Hd; destruct Hd as [Hd ?]).
  - reflexivity.
  - cbn [forallb snd]. rewrite (to_ap_dom pa c H2), (IHn chain H). reflexivity.
  - rewrite forallb_app, (IHk _ H1), (IHn chain H). reflexivity.
  - rewrite forallb_app, (IHk _ H1), (IHn chain H). reflexivity.
  - apply IHn. exact H.
Qed.

Lemma flat_chains : forall d chain cp, In cp (snd (flat chain d)) ->
  fst cp = chain \/ exists ch, fst cp = Some ch /\ In ch (fst (flat chain d)).
Proof.
  induction d as [w|pre pa e c cw next IHn|pre l1 lang l2 e kids IHk cw next IHn|pre name t kids IHk cw next IHn|pre name t next IHn];
    intros chain cp H; cbn [flat fst snd] in *.
  - destruct H.
  - destruct H as [H|H]; [left; subst cp; reflexivity|]. exact (IHn chain cp H).
  - apply in_app_or in H. destruct H as [H|H].
    + right. destruct (IHk _ cp H) as [E|[ch [E Hin]]].
      * eexists. split; [exact E|]. left. reflexivity.
      * exists ch. split; [exact E|]. right. apply in_or_app. left. exact Hin.
    + destruct (IHn chain cp H) as [E|[ch [E Hin]]]; [left; exact E|].
      right. exists ch. split; [exact E|]. right. apply in_or_app. right. exact Hin.
  - apply in_app_or in H. destruct H as [H|H].
    + destruct (IHk chain cp H) as [E|[ch [E Hin]]]; [left; exact E|].
      right. exists ch. split; [exact E|]. apply in_or_app. left. exact Hin.
    + destruct (IHn chain cp H) as [E|[ch [E Hin]]]; [left; exact E|].
      right. exists ch. split; [exact E|]. apply in_or_app. right. exact Hin.
  - exact (IHn chain cp H).
Qed.

Theorem xdoc_doc_dom : forall d, xdoc_ok d = true -> doc_dom (xdoc_divs d) (xdoc_ps d) = true.
Proof.
  intros d Hd. unfold doc_dom, xdoc_divs, xdoc_ps.
  assert (Hf : forest_ok (xd_body d) = true).
  { unfold xdoc_ok in Hd. repeat (apply andb_true_iff in Hd; destruct Hd as [Hd ?]). assumption. }
  apply forallb_forall. intros cp Hin.
  pose proof (flat_ap_dom (xd_body d) None Hf) as A. rewrite forallb_forall in A. rewrite (A cp Hin). cbn [andb].
  destruct (flat_chains (xd_body d) None cp Hin) as [E|[ch [E Hc]]]; rewrite E; [reflexivity|].
  apply existsb_exists. exists ch. split; [exact Hc|apply chain_eqb_refl].
Qed.

(* ---- the string-level theorem ------------------------------------------------------------------------------ *)
Lemma find_tt_doc : forall d, find_tt_list (tree_doc d) = Some (plain (lang_attrs (xd_l1 d) (xd_lang d) (xd_l2 d))).
Proof. intros d. unfold tree_doc. destruct (xd_pre d); reflexivity. Qed.

Lemma walk_doc : forall d, walk_list None (tree_doc d) = walk_list None (tree_of (xd_body d)).
Proof.
  intros d. unfold tree_doc. rewrite walk_text_then, walk_list_cons, walk_generic by reflexivity.
  rewrite walk_list_text. cbn [fst snd]. rewrite !app_nil_r. destruct (walk_list None (tree_of (xd_body d))); reflexivity.
Qed.

Theorem dfxp_string_exact : forall default d, xdoc_ok d = true ->
  dfxp_read_string default (render_doc d) = xdoc_expected default d.
Proof.
  intros default d Hd. unfold dfxp_read_string. rewrite (parse_doc_render d Hd), find_tt_doc, walk_doc.
  assert (Hf : forest_ok (xd_body d) = true).
  { pose proof Hd as Hd'. unfold xdoc_ok in Hd'. repeat (apply andb_true_iff in Hd'; destruct Hd' as [Hd' ?]). assumption. }
  assert (Hl : free_of_lang (xd_l1 d ++ xd_l2 d) = true).
  { pose proof Hd as Hd'. unfold xdoc_ok in Hd'. repeat (apply andb_true_iff in Hd'; destruct Hd' as [Hd' ?]).
    unfold lang_attrs_ok in H3. apply andb_true_iff in H3. destruct H3 as [H3 _]. apply andb_true_iff in H3. tauto. }
  rewrite (attr_get_lang _ _ _ Hl).
  destruct (walk_forest (xd_body d) None Hf) as [W1 W2].
  rewrite W1, (dfxp_read_doc_ext default _ _ _ _ W2).
  unfold rendered, xdoc_expected, xdoc_tt_lang, xdoc_divs, xdoc_ps.
  apply dfxp_doc_exact. exact (xdoc_doc_dom d Hd).
Qed.

(* the same text read under the other admissible begin+dur reading differs at most in the ends of begin+dur paragraphs;
   the oracle accepts both (ok_times_alt): see C01_dfxp_div_meets_oracle *)
