(* LINE-LAYOUT INVARIANCE of the SCC reader model (C05 / C06 audit gap).
   The refinement theorems of proofs/SccPoponStage9.v are stated for one stream layout (one load per timecode line,
   Erase-Displayed-Memory on lines of their own). Here: the reader model does not depend on how a word sequence is
   distributed over timecode lines, as long as every word keeps its instant (`same_clock`) and no line ends right
   after a word whose interpretation looks at the following word of the same line (mid-row codes, `split_ok`).

   1. same_clock, and frame arithmetic on rendered timecodes (same_clock_wf, same_clock_frames)
   2. state_eq: equality of reader states up to the representation (timecode string, frame counter) of the clock;
      translate_word / translate_words / translate_line / flush_implicit / run_lines / read respect it
   3. the only use of `next`: tw_next_irrelevant; the split lemma split_line
   4. relayout (split / merge / empty lines, context, symmetry, transitivity) and read_layout_invariant
   5. the corollaries for popon_refines_608 / popon_times, a load split in two lines, two segments on one line
   6. a concrete example *)
From Coq Require Import List ZArith QArith Lia Bool.
From PV Require Import lib.Sx lib.Str lib.Result model.GenScc model.SccLen model.SccTime model.SccStash model.SccDecoder model.SccPopon.
From PV Require Import spec.Spec608 spec.SpecScc05 spec.SpecSccTime.
From PV Require Import proofs.SccTimeFacts proofs.SccPoponFacts proofs.SccPoponStage3 proofs.SccPoponStage4 proofs.SccPoponStage6
                       proofs.SccPoponStage7 proofs.SccPoponStage8 proofs.SccPoponStage9.
Import ListNotations.
Open Scope Z_scope.

(* ================================================================================================== *)
(* 1. clocks                                                                                           *)

(* the timecode tc' denotes the instant n frames after tc (as far as the time translator can tell) *)
Definition same_clock (off : Q) (tc : str) (n : Z) (tc' : str) : Prop :=
  forall k, 0 <= k -> get_time tc (n + k) off = get_time tc' k off.

(* get_time on a rendered timecode, as a Leibniz equality (get_time_exact gives the value up to ==) *)
Lemma get_time_formula : forall tc k off, tc_wf tc = true -> 0 <= k ->
  get_time (render_tc tc) k off = Ok (time_formula (tc_h tc) (tc_m tc) (tc_s tc) (tc_f tc + k) (tc_drop tc) off).
Proof.
  intros tc k off Hwf Hk. unfold tc_wf in Hwf.
  assert (Hb : 0 <= tc_h tc < 100 /\ 0 <= tc_m tc < 100 /\ 0 <= tc_s tc < 100 /\ 0 <= tc_f tc < 100) by lia.
  destruct Hb as (Hh & Hm & Hs & Hf).
  destruct (two_is _ Hh) as (a & b & Eab & Da & Db & Vab).
  destruct (two_is _ Hm) as (c & d & Ecd & Dc & Dd & Vcd).
  destruct (two_is _ Hs) as (e & f & Eef & De & Df & Vef).
  destruct (two_is _ Hf) as (g & h & Egh & Dg & Dh & Vgh).
  unfold render_tc. rewrite Eab, Ecd, Eef, Egh.
  set (sep := if tc_drop tc then 59 else 58).
  assert (Hsep : sep = 58 \/ sep = 59) by (subst sep; destruct (tc_drop tc); auto).
  unfold get_time.
  change (last2 ([a; b] ++ [58] ++ [c; d] ++ [58] ++ [e; f] ++ [sep] ++ [g; h])) with [g; h].
  change (but_last2 ([a; b] ++ [58] ++ [c; d] ++ [58] ++ [e; f] ++ [sep] ++ [g; h]))
    with [a; b; 58; c; d; 58; e; f; sep].
  rewrite int2 by assumption. rewrite Vgh.
  unfold dec_z. destruct (tc_f tc + k <? 0) eqn:E; [lia|].
  assert (Hfk : 0 <= tc_f tc + k) by lia.
  destruct (dec_nonneg_digits _ Hfk) as [Hd Hne]. pose proof (dec_nonneg_val _ Hfk) as Hv.
  cbn [app].
  rewrite (translate_ok a b c d e f sep _ (tc_f tc + k) off) by assumption.
  rewrite Vab, Vcd, Vef.
  replace (sep =? 59) with (tc_drop tc) by (subst sep; destruct (tc_drop tc); reflexivity).
  reflexivity.
Qed.

(* the formula only depends on the frame number (hh*3600 + mm*60 + ss) * 30 + ff *)
Lemma time_formula_frames : forall h m s ff h' m' s' ff' drop off,
  (h * 3600 + m * 60 + s) * 30 + ff = (h' * 3600 + m' * 60 + s') * 30 + ff' ->
  time_formula h m s ff drop off = time_formula h' m' s' ff' drop off.
Proof.
  intros h m s ff h' m' s' ff' drop off H. unfold time_formula. f_equal. apply Qred_complete.
  set (S := h * 3600 + m * 60 + s) in *. set (S' := h' * 3600 + m' * 60 + s') in *.
  assert (E : (inject_Z S + inject_Z ff / inject_Z 30 == inject_Z S' + inject_Z ff' / inject_Z 30)%Q).
  { replace ff' with (30 * (S - S') + ff) by lia.
    rewrite inject_Z_plus, inject_Z_mult. unfold Zminus. rewrite inject_Z_plus, inject_Z_opp.
    change (inject_Z 30) with (30 # 1)%Q. field. }
  rewrite E. reflexivity.
Qed.

(* frame arithmetic: two well-formed timecodes of the same kind, n frames apart in hh:mm:ss:ff counting *)
Theorem same_clock_wf : forall off t t' n, tc_wf t = true -> tc_wf t' = true -> tc_drop t = tc_drop t' -> 0 <= n ->
  (tc_h t * 3600 + tc_m t * 60 + tc_s t) * 30 + tc_f t + n = (tc_h t' * 3600 + tc_m t' * 60 + tc_s t') * 30 + tc_f t' ->
  same_clock off (render_tc t) n (render_tc t').
Proof.
  intros off t t' n W W' D Hn H k Hk.
  rewrite !get_time_formula by (assumption || lia). rewrite D. f_equal. apply time_formula_frames. lia.
Qed.

(* same hh:mm:ss, frame field ff + n (the field is two digits: ff + n < 100; it may exceed 29) *)
Corollary same_clock_frames : forall off t n, tc_wf t = true -> 0 <= n -> tc_f t + n < 100 ->
  same_clock off (render_tc t) n (render_tc (mkTc (tc_h t) (tc_m t) (tc_s t) (tc_drop t) (tc_f t + n))).
Proof.
  intros off t n W Hn Hf. apply same_clock_wf; try assumption; cbn [tc_h tc_m tc_s tc_f tc_drop]; try reflexivity.
  all: unfold tc_wf in *; cbn [tc_h tc_m tc_s tc_f tc_drop]; lia.
Qed.

Example same_clock_example : forall off, same_clock off (lit "00:00:01:00") 4 (lit "00:00:01:04").
Proof. intro off. exact (same_clock_frames off (mkTc 0 0 1 false 0) 4 eq_refl ltac:(lia) ltac:(cbn; lia)). Qed.

(* 26 frames before the next second: the frame field rolls over *)
Example same_clock_example_rollover : forall off, same_clock off (lit "00:00:01:26") 6 (lit "00:00:02:02").
Proof.
  intro off. exact (same_clock_wf off (mkTc 0 0 1 false 26) (mkTc 0 0 2 false 2) 6 eq_refl eq_refl eq_refl ltac:(lia) eq_refl).
Qed.

(* ================================================================================================== *)
(* 2. states up to the representation of the clock                                                     *)

Definition clock_eq (s1 s2 : rstate) : Prop :=
  forall k, 0 <= k -> get_time (r_tc s1) (r_frames s1 + k) (r_offset s1) = get_time (r_tc s2) (r_frames s2 + k) (r_offset s2).

(* every field but (r_tc, r_frames) is equal; the two clocks denote the same instants now and after any number of
   further words *)
Record state_eq (s1 s2 : rstate) : Prop := mkSE {
  se_stash : r_stash s1 = r_stash s2;   se_tk : r_tk s1 = r_tk s2;         se_last : r_last s1 = r_last s2;
  se_dstart : r_dstart s1 = r_dstart s2; se_pop : r_pop s1 = r_pop s2;     se_paint : r_paint s1 = r_paint s2;
  se_roll : r_roll s1 = r_roll s2;       se_active : r_active s1 = r_active s2; se_queue : r_queue s1 = r_queue s2;
  se_time : r_time s1 = r_time s2;       se_offset : r_offset s1 = r_offset s2; se_err : r_err s1 = r_err s2;
  se_clock : clock_eq s1 s2 }.

Ltac rs_cbn :=
  cbn [r_stash r_tk r_last r_dstart r_pop r_paint r_roll r_active r_queue r_time r_tc r_frames r_offset r_err
       set_dbl set_buf set_tk set_stash set_active set_queue set_time set_clock set_err buf bump fst snd].
Ltac rs_cbn_in H :=
  cbn [r_stash r_tk r_last r_dstart r_pop r_paint r_roll r_active r_queue r_time r_tc r_frames r_offset r_err
       set_dbl set_buf set_tk set_stash set_active set_queue set_time set_clock set_err buf bump fst snd] in H.

Lemma se_mk : forall st tk l ds po pa ro ac q tm off e tc1 f1 tc2 f2,
  (forall k, 0 <= k -> get_time tc1 (f1 + k) off = get_time tc2 (f2 + k) off) ->
  state_eq (mkR st tk l ds po pa ro ac q tm tc1 f1 off e) (mkR st tk l ds po pa ro ac q tm tc2 f2 off e).
Proof. intros. constructor; try reflexivity. exact H. Qed.

(* open a hypothesis state_eq s1 s2 (s1, s2 variables): both states become constructor terms sharing all non-clock fields *)
Ltac se_open H :=
  match type of H with
  | state_eq ?s1 ?s2 =>
      let Hc := fresh "Hclk" in
      destruct s1, s2; destruct H as [? ? ? ? ? ? ? ? ? ? ? ? Hc]; unfold clock_eq in Hc;
      cbn [r_stash r_tk r_last r_dstart r_pop r_paint r_roll r_active r_queue r_time r_tc r_frames r_offset r_err] in *;
      subst
  end.

Lemma se_refl : forall s, state_eq s s.
Proof. intro s. constructor; try reflexivity. intros k _. reflexivity. Qed.
Lemma se_sym : forall s1 s2, state_eq s1 s2 -> state_eq s2 s1.
Proof. intros s1 s2 H. destruct H. constructor; try (symmetry; assumption). intros k Hk. symmetry. auto. Qed.
Lemma se_trans : forall s1 s2 s3, state_eq s1 s2 -> state_eq s2 s3 -> state_eq s1 s3.
Proof.
  intros s1 s2 s3 H1 H2. destruct H1, H2. constructor; try (etransitivity; eassumption).
  intros k Hk. etransitivity; [apply se_clock0 | apply se_clock1]; assumption.
Qed.

Lemma se_buf : forall s1 s2, state_eq s1 s2 -> buf s1 = buf s2.
Proof. intros s1 s2 H. unfold buf. rewrite (se_active _ _ H), (se_pop _ _ H), (se_paint _ _ H), (se_roll _ _ H). reflexivity. Qed.

(* ---- the setters ---- *)
Lemma se_set_buf : forall s1 s2 c, state_eq s1 s2 -> state_eq (set_buf s1 c) (set_buf s2 c).
Proof. intros s1 s2 c H. se_open H. unfold set_buf. rs_cbn. destruct r_active0; apply se_mk; assumption. Qed.
Lemma se_set_stash : forall s1 s2 x, state_eq s1 s2 -> state_eq (set_stash s1 x) (set_stash s2 x).
Proof. intros s1 s2 x H. se_open H. apply se_mk; assumption. Qed.
Lemma se_set_tk : forall s1 s2 x, state_eq s1 s2 -> state_eq (set_tk s1 x) (set_tk s2 x).
Proof. intros s1 s2 x H. se_open H. apply se_mk; assumption. Qed.
Lemma se_set_dbl : forall s1 s2 l d, state_eq s1 s2 -> state_eq (set_dbl s1 l d) (set_dbl s2 l d).
Proof. intros s1 s2 l d H. se_open H. apply se_mk; assumption. Qed.
Lemma se_set_active : forall s1 s2 m, state_eq s1 s2 -> state_eq (set_active s1 m) (set_active s2 m).
Proof. intros s1 s2 m H. se_open H. apply se_mk; assumption. Qed.
Lemma se_set_queue : forall s1 s2 q, state_eq s1 s2 -> state_eq (set_queue s1 q) (set_queue s2 q).
Proof. intros s1 s2 q H. se_open H. apply se_mk; assumption. Qed.
Lemma se_set_time : forall s1 s2 t, state_eq s1 s2 -> state_eq (set_time s1 t) (set_time s2 t).
Proof. intros s1 s2 t H. se_open H. apply se_mk; assumption. Qed.
Lemma se_set_err : forall s1 s2 e, state_eq s1 s2 -> state_eq (set_err s1 e) (set_err s2 e).
Proof. intros s1 s2 e H. se_open H. apply se_mk; assumption. Qed.
(* a new line: both clocks are replaced *)
Lemma se_set_clock : forall s1 s2 tc f, state_eq s1 s2 -> state_eq (set_clock s1 tc f) (set_clock s2 tc f).
Proof. intros s1 s2 tc f H. se_open H. apply se_mk. reflexivity. Qed.
(* one more word: both frame counters advance *)
Lemma se_bump : forall s1 s2, state_eq s1 s2 -> state_eq (bump s1) (bump s2).
Proof.
  intros s1 s2 H. se_open H. unfold bump. rs_cbn. apply se_mk. intros k Hk. rewrite <- !Z.add_assoc. apply Hclk. lia.
Qed.

Lemma se_with_time : forall s1 s2 k1 k2, state_eq s1 s2 -> (forall t, state_eq (k1 t) (k2 t)) ->
  state_eq (with_time s1 k1) (with_time s2 k2).
Proof.
  intros s1 s2 k1 k2 H Hk. unfold with_time. pose proof (se_clock _ _ H 0 ltac:(lia)) as E. rewrite !Z.add_0_r in E.
  rewrite E. destruct (get_time (r_tc s2) (r_frames s2) (r_offset s2)); [apply Hk | apply se_set_err; exact H].
Qed.

Lemma se_store : forall s1 s2 c a b, state_eq s1 s2 -> state_eq (store s1 c a b) (store s2 c a b).
Proof. intros s1 s2 c a b H. unfold store. rewrite (se_stash _ _ H). apply se_set_stash, H. Qed.

Lemma se_pop_on : forall s1 s2 e, state_eq s1 s2 -> state_eq (pop_on s1 e) (pop_on s2 e).
Proof.
  intros s1 s2 e H. unfold pop_on. rewrite (se_queue _ _ H). destruct (r_queue s2) as [[c st]|].
  - apply se_store, se_set_queue, H.
  - apply se_set_err, H.
Qed.

Lemma se_flushed : forall s1 s2 c t, state_eq s1 s2 ->
  state_eq (set_buf (store s1 c t 0) creator0) (set_buf (store s2 c t 0) creator0).
Proof. intros s1 s2 c t H. apply se_set_buf, se_store, H. Qed.

Lemma se_roll_up : forall s1 s2, state_eq s1 s2 -> state_eq (roll_up s1) (roll_up s2).
Proof.
  intros s1 s2 H. unfold roll_up. cbv zeta. rewrite (se_buf _ _ H), (se_time _ _ H).
  pose proof (se_flushed _ _ (buf s2) (r_time s2) H) as HS.
  apply se_with_time; [exact HS|]. intro t. rewrite (se_stash _ _ HS). apply se_set_stash, se_set_time, HS.
Qed.

Lemma se_flush_implicit : forall s1 s2, state_eq s1 s2 -> state_eq (flush_implicit s1) (flush_implicit s2).
Proof.
  intros s1 s2 H. unfold flush_implicit. rewrite (se_active _ _ H), (se_queue _ _ H), (se_buf _ _ H), (se_time _ _ H).
  destruct (r_active s2).
  - destruct (r_queue s2); [apply se_pop_on, H | exact H].
  - destruct (cr_is_empty (buf s2)); [exact H | apply se_flushed, H].
  - destruct (cr_is_empty (buf s2)); [exact H | apply se_roll_up, H].
Qed.

Lemma se_activate : forall s1 s2 m, state_eq s1 s2 -> state_eq (activate s1 m) (activate s2 m).
Proof.
  intros s1 s2 m H. unfold activate. rewrite (se_active _ _ H).
  destruct (mode_eqb m (r_active s2)); [exact H | apply se_set_active, se_flush_implicit, H].
Qed.

Lemma se_flush_buffer : forall s1 s2, state_eq s1 s2 -> state_eq (flush_buffer s1) (flush_buffer s2).
Proof.
  intros s1 s2 H. unfold flush_buffer. rewrite (se_buf _ _ H), (se_time _ _ H).
  destruct (cr_is_empty (buf s2)); [exact H | apply se_flushed, H].
Qed.

Lemma se_do_interpret : forall s1 s2 w n, state_eq s1 s2 -> state_eq (do_interpret s1 w n) (do_interpret s2 w n).
Proof.
  intros s1 s2 w n H. unfold do_interpret. rewrite (se_tk _ _ H), (se_buf _ _ H).
  destruct (interpret_command (r_tk s2) (buf s2) w n) as [[t c] e].
  assert (H1 : state_eq (set_buf (set_tk s1 t) c) (set_buf (set_tk s2 t) c)) by apply se_set_buf, se_set_tk, H.
  destruct e; [apply se_set_err, H1 | exact H1].
Qed.

Lemma se_add_to_buf : forall s1 s2 txt, state_eq s1 s2 -> state_eq (add_to_buf s1 txt) (add_to_buf s2 txt).
Proof.
  intros s1 s2 txt H. unfold add_to_buf. rewrite (se_tk _ _ H), (se_buf _ _ H).
  destruct (add_chars (r_tk s2) (buf s2) txt) as [t c]. apply se_set_buf, se_set_tk, H.
Qed.

(* a pop-on / roll-up / paint-on mode switch followed by the time stamp of the new cue *)
Lemma se_stamp : forall s1 s2, state_eq s1 s2 ->
  state_eq (if (match r_err s1 with Some _ => true | None => false end) then s1 else with_time s1 (fun t => set_time s1 t))
           (if (match r_err s2 with Some _ => true | None => false end) then s2 else with_time s2 (fun t => set_time s2 t)).
Proof.
  intros s1 s2 H. rewrite (se_err _ _ H). destruct (r_err s2); [exact H|].
  apply se_with_time; [exact H|]. intro t. apply se_set_time, H.
Qed.

Lemma se_eoc : forall s1 s2 t, state_eq s1 s2 ->
  state_eq (let s := set_time s1 t in
            let s := match r_queue s with Some _ => pop_on s t | None => s end in
            if cr_is_empty (buf s) then s else set_buf (set_queue s (Some (buf s, t))) creator0)
           (let s := set_time s2 t in
            let s := match r_queue s with Some _ => pop_on s t | None => s end in
            if cr_is_empty (buf s) then s else set_buf (set_queue s (Some (buf s, t))) creator0).
Proof.
  intros s1 s2 t H. pose proof (se_set_time _ _ t H) as H1. revert H1.
  generalize (set_time s1 t) (set_time s2 t). intros a1 a2 H1. cbv zeta.
  assert (H2 : state_eq (match r_queue a1 with Some _ => pop_on a1 t | None => a1 end)
                        (match r_queue a2 with Some _ => pop_on a2 t | None => a2 end)).
  { rewrite (se_queue _ _ H1). destruct (r_queue a2); [apply se_pop_on, H1 | exact H1]. }
  revert H2. generalize (match r_queue a1 with Some _ => pop_on a1 t | None => a1 end)
                        (match r_queue a2 with Some _ => pop_on a2 t | None => a2 end). intros b1 b2 H2.
  rewrite (se_buf _ _ H2). destruct (cr_is_empty (buf b2)); [exact H2 | apply se_set_buf, se_set_queue, H2].
Qed.

Lemma se_translate_command : forall s1 s2 w n, state_eq s1 s2 ->
  state_eq (translate_command s1 w n) (translate_command s2 w n).
Proof.
  intros s1 s2 w n H. unfold translate_command.
  destruct (w =? w_rcl); [apply se_activate, H|].
  destruct (w =? w_rdc); [cbv zeta; apply se_stamp, se_flush_buffer, se_activate, H|].
  destruct ((w =? w_ru2) || (w =? w_ru3) || (w =? w_ru4)); [cbv zeta; apply se_stamp, se_flush_buffer, se_activate, H|].
  destruct (w =? w_enm); [rewrite (se_tk _ _ H); apply se_set_tk, se_set_buf, H|].
  destruct (w =? w_eoc); [apply se_with_time; [exact H | intro t; apply se_eoc, H]|].
  destruct (w =? w_cr).
  { rewrite (se_buf _ _ H). destruct (cr_is_empty (buf s2)); [exact H | apply se_roll_up, H]. }
  rewrite (se_queue _ _ H).
  destruct ((w =? w_edm) && (match r_queue s2 with Some _ => true | None => false end)).
  - apply se_with_time; [exact H | intro t; apply se_pop_on, H].
  - apply se_do_interpret, H.
Qed.

Lemma se_handle_double : forall s1 s2 w, state_eq s1 s2 ->
  fst (handle_double s1 w) = fst (handle_double s2 w) /\ state_eq (snd (handle_double s1 w)) (snd (handle_double s2 w)).
Proof.
  intros s1 s2 w H. se_open H. unfold handle_double. cbv zeta. rs_cbn.
  repeat match goal with
         | |- context [if ?b then _ else _] => destruct b
         | |- context [match ?x with _ => _ end] => destruct x
         end; rs_cbn; (split; [reflexivity | apply se_mk; assumption]).
Qed.

(* ---- words, lines, streams ---- *)
Theorem se_translate_word : forall s1 s2 w n, state_eq s1 s2 -> state_eq (translate_word s1 w n) (translate_word s2 w n).
Proof.
  intros s1 s2 w n H. unfold translate_word. rewrite (se_err _ _ H). destruct (r_err s2); [exact H|].
  destruct (se_handle_double _ _ w H) as [Hf Hs].
  destruct (handle_double s1 w) as [k1 a1], (handle_double s2 w) as [k2 a2]. cbn [fst snd] in Hf, Hs. subst k2.
  destruct k1; [apply se_bump, Hs|].
  cbv zeta.
  match goal with |- state_eq (match r_err ?A with _ => _ end) (match r_err ?B with _ => _ end) => assert (HB : state_eq A B) end.
  { destruct (is_command w || is_pac w); [apply se_translate_command, Hs|].
    destruct (special_of w); [apply se_add_to_buf, Hs|].
    destruct (extended_of w).
    - rewrite (se_buf _ _ Hs). apply se_add_to_buf, se_set_buf, Hs.
    - destruct (char_of (hi w)); [|exact Hs]. destruct (char_of (lo w)); [apply se_add_to_buf, Hs | exact Hs]. }
  revert HB.
  match goal with |- state_eq ?A ?B -> _ => generalize A B end. intros b1 b2 HB.
  rewrite (se_err _ _ HB). destruct (r_err b2); [exact HB | apply se_bump, HB].
Qed.

Theorem se_translate_words : forall ws s1 s2, state_eq s1 s2 -> state_eq (translate_words s1 ws) (translate_words s2 ws).
Proof. induction ws as [|w t IH]; intros s1 s2 H; [exact H|]. cbn [translate_words]. apply IH, se_translate_word, H. Qed.

Theorem se_translate_line : forall s1 s2 l, state_eq s1 s2 -> state_eq (translate_line s1 l) (translate_line s2 l).
Proof.
  intros s1 s2 l H. unfold translate_line. rewrite (se_err _ _ H). destruct (r_err s2); [exact H|].
  apply se_translate_words, se_set_clock, H.
Qed.

Theorem se_fold_lines : forall ls s1 s2, state_eq s1 s2 ->
  state_eq (fold_left translate_line ls s1) (fold_left translate_line ls s2).
Proof. induction ls as [|l t IH]; intros s1 s2 H; [exact H|]. cbn [fold_left]. apply IH, se_translate_line, H. Qed.

(* ================================================================================================== *)
(* 3. the clock fields along a run; the only use of `next`; the split lemma                            *)

(* nothing but bump (one per word) and set_clock (one per line) touches the clock *)
Definition keeps (s s' : rstate) : Prop := r_tc s' = r_tc s /\ r_frames s' = r_frames s /\ r_offset s' = r_offset s.

Lemma keeps_refl : forall s, keeps s s. Proof. intro s. repeat split. Qed.
Lemma keeps_trans : forall a b c, keeps a b -> keeps b c -> keeps a c.
Proof. intros a b c (A1 & A2 & A3) (B1 & B2 & B3). repeat split; congruence. Qed.

Lemma k_set_buf : forall s c, keeps s (set_buf s c).
Proof. intros s c. destruct s. unfold set_buf. rs_cbn. destruct r_active; repeat split. Qed.
Lemma k_set_stash : forall s x, keeps s (set_stash s x). Proof. intros s x. destruct s. repeat split. Qed.
Lemma k_set_tk : forall s x, keeps s (set_tk s x). Proof. intros s x. destruct s. repeat split. Qed.
Lemma k_set_dbl : forall s l d, keeps s (set_dbl s l d). Proof. intros s l d. destruct s. repeat split. Qed.
Lemma k_set_active : forall s m, keeps s (set_active s m). Proof. intros s m. destruct s. repeat split. Qed.
Lemma k_set_queue : forall s q, keeps s (set_queue s q). Proof. intros s q. destruct s. repeat split. Qed.
Lemma k_set_time : forall s t, keeps s (set_time s t). Proof. intros s t. destruct s. repeat split. Qed.
Lemma k_set_err : forall s e, keeps s (set_err s e). Proof. intros s e. destruct s. repeat split. Qed.

Lemma k_with_time : forall s k, (forall t, keeps s (k t)) -> keeps s (with_time s k).
Proof. intros s k H. unfold with_time. destruct (get_time _ _ _); [apply H | apply k_set_err]. Qed.
Lemma k_store : forall s c a b, keeps s (store s c a b). Proof. intros. apply k_set_stash. Qed.
Lemma k_pop_on : forall s e, keeps s (pop_on s e).
Proof.
  intros s e. unfold pop_on. destruct (r_queue s) as [[c st]|]; [|apply k_set_err].
  eapply keeps_trans; [apply k_set_queue | apply k_store].
Qed.
Lemma k_flushed : forall s c t, keeps s (set_buf (store s c t 0) creator0).
Proof. intros. eapply keeps_trans; [apply k_store | apply k_set_buf]. Qed.
Lemma k_roll_up : forall s, keeps s (roll_up s).
Proof.
  intro s. unfold roll_up. cbv zeta. eapply keeps_trans; [apply k_flushed|]. apply k_with_time. intro t.
  eapply keeps_trans; [apply k_set_time | apply k_set_stash].
Qed.
Lemma k_flush_implicit : forall s, keeps s (flush_implicit s).
Proof.
  intro s. unfold flush_implicit. destruct (r_active s).
  - destruct (r_queue s); [apply k_pop_on | apply keeps_refl].
  - destruct (cr_is_empty (buf s)); [apply keeps_refl | apply k_flushed].
  - destruct (cr_is_empty (buf s)); [apply keeps_refl | apply k_roll_up].
Qed.
Lemma k_activate : forall s m, keeps s (activate s m).
Proof.
  intros s m. unfold activate. destruct (mode_eqb m (r_active s)); [apply keeps_refl|].
  eapply keeps_trans; [apply k_flush_implicit | apply k_set_active].
Qed.
Lemma k_flush_buffer : forall s, keeps s (flush_buffer s).
Proof. intro s. unfold flush_buffer. destruct (cr_is_empty (buf s)); [apply keeps_refl | apply k_flushed]. Qed.
Lemma k_do_interpret : forall s w n, keeps s (do_interpret s w n).
Proof.
  intros s w n. unfold do_interpret. destruct (interpret_command (r_tk s) (buf s) w n) as [[t c] e].
  assert (H : keeps s (set_buf (set_tk s t) c)) by (eapply keeps_trans; [apply k_set_tk | apply k_set_buf]).
  destruct e; [eapply keeps_trans; [exact H | apply k_set_err] | exact H].
Qed.
Lemma k_add_to_buf : forall s txt, keeps s (add_to_buf s txt).
Proof.
  intros s txt. unfold add_to_buf. destruct (add_chars (r_tk s) (buf s) txt) as [t c].
  eapply keeps_trans; [apply k_set_tk | apply k_set_buf].
Qed.
Lemma k_stamp : forall s0 s, keeps s0 s ->
  keeps s0 (if (match r_err s with Some _ => true | None => false end) then s else with_time s (fun t => set_time s t)).
Proof.
  intros s0 s H. destruct (r_err s); [exact H|]. eapply keeps_trans; [exact H|]. apply k_with_time. intro; apply k_set_time.
Qed.
Lemma k_translate_command : forall s w n, keeps s (translate_command s w n).
Proof.
  intros s w n. unfold translate_command.
  destruct (w =? w_rcl); [apply k_activate|].
  destruct (w =? w_rdc); [cbv zeta; apply k_stamp; eapply keeps_trans; [apply k_activate | apply k_flush_buffer]|].
  destruct ((w =? w_ru2) || (w =? w_ru3) || (w =? w_ru4));
    [cbv zeta; apply k_stamp; eapply keeps_trans; [apply k_activate | apply k_flush_buffer]|].
  destruct (w =? w_enm); [eapply keeps_trans; [apply k_set_buf | apply k_set_tk]|].
  destruct (w =? w_eoc).
  { apply k_with_time. intro t. cbv zeta.
    assert (H1 : keeps s (match r_queue (set_time s t) with Some _ => pop_on (set_time s t) t | None => set_time s t end)).
    { destruct (r_queue (set_time s t)); [eapply keeps_trans; [apply k_set_time | apply k_pop_on] | apply k_set_time]. }
    revert H1. generalize (match r_queue (set_time s t) with Some _ => pop_on (set_time s t) t | None => set_time s t end).
    intros b H1. destruct (cr_is_empty (buf b)); [exact H1|].
    eapply keeps_trans; [exact H1|]. eapply keeps_trans; [apply k_set_queue | apply k_set_buf]. }
  destruct (w =? w_cr); [destruct (cr_is_empty (buf s)); [apply keeps_refl | apply k_roll_up]|].
  destruct ((w =? w_edm) && (match r_queue s with Some _ => true | None => false end)).
  - apply k_with_time. intro; apply k_pop_on.
  - apply k_do_interpret.
Qed.
Lemma k_handle_double : forall s w, keeps s (snd (handle_double s w)).
Proof.
  intros s w. unfold handle_double. cbv zeta.
  repeat match goal with
         | |- context [if ?b then _ else _] => destruct b
         | |- context [match ?x with _ => _ end] => destruct x
         end; cbn [snd]; apply k_set_dbl.
Qed.
Lemma hd_err : forall s w, r_err (snd (handle_double s w)) = r_err s.
Proof.
  intros s w. unfold handle_double. cbv zeta.
  repeat match goal with
         | |- context [if ?b then _ else _] => destruct b
         | |- context [match ?x with _ => _ end] => destruct x
         end; cbn [snd]; destruct s; reflexivity.
Qed.

(* a word: the timecode string and the offset stay; unless a crash is recorded the frame counter advances by one *)
Lemma tw_clock : forall s w n,
  r_tc (translate_word s w n) = r_tc s /\ r_offset (translate_word s w n) = r_offset s /\
  (r_err (translate_word s w n) = None -> r_frames (translate_word s w n) = r_frames s + 1).
Proof.
  intros s w n. unfold translate_word. destruct (r_err s) eqn:Es; [repeat split; congruence|].
  pose proof (k_handle_double s w) as (K1 & K2 & K3).
  destruct (handle_double s w) as [k a]. cbn [snd] in K1, K2, K3.
  destruct k.
  { destruct a; cbn in *. repeat split; congruence. }
  cbv zeta.
  match goal with |- context [match r_err ?A with _ => _ end] => assert (HB : keeps a A) end.
  { destruct (is_command w || is_pac w); [apply k_translate_command|].
    destruct (special_of w); [apply k_add_to_buf|].
    destruct (extended_of w); [eapply keeps_trans; [apply k_set_buf | apply k_add_to_buf]|].
    destruct (char_of (hi w)); [|apply keeps_refl]. destruct (char_of (lo w)); [apply k_add_to_buf | apply keeps_refl]. }
  revert HB. match goal with |- keeps a ?A -> _ => generalize A end. intros b (B1 & B2 & B3).
  destruct (r_err b) eqn:Eb.
  - repeat split; congruence.
  - destruct b; cbn in *. repeat split; congruence.
Qed.

Lemma tw_err : forall s w n e, r_err s = Some e -> translate_word s w n = s.
Proof. intros s w n e H. unfold translate_word. rewrite H. reflexivity. Qed.
Lemma tws_err : forall ws s e, r_err s = Some e -> translate_words s ws = s.
Proof. induction ws as [|w t IH]; intros s e H; [reflexivity|]. cbn [translate_words]. rewrite (tw_err _ _ _ _ H). eapply IH, H. Qed.

Lemma tws_clock : forall ws s,
  r_tc (translate_words s ws) = r_tc s /\ r_offset (translate_words s ws) = r_offset s /\
  (r_err (translate_words s ws) = None -> r_frames (translate_words s ws) = r_frames s + Z.of_nat (length ws)).
Proof.
  induction ws as [|w t IH]; intro s.
  - cbn [translate_words length]. repeat split. intros _. cbn. lia.
  - cbn [translate_words]. set (n := match t with n :: _ => Some n | [] => None end).
    destruct (tw_clock s w n) as (A1 & A2 & A3). destruct (IH (translate_word s w n)) as (B1 & B2 & B3).
    repeat split; try congruence. intro He.
    destruct (r_err (translate_word s w n)) eqn:E1.
    + rewrite (tws_err _ _ _ E1) in He. congruence.
    + rewrite B3, A3 by auto. cbn [length]. lia.
Qed.

Lemma tl_offset : forall s l, r_offset (translate_line s l) = r_offset s.
Proof.
  intros s l. unfold translate_line. destruct (r_err s); [reflexivity|].
  destruct (tws_clock (snd l) (set_clock s (fst l) 0)) as (_ & A & _). rewrite A. destruct s; reflexivity.
Qed.
Lemma fold_offset : forall ls s, r_offset (fold_left translate_line ls s) = r_offset s.
Proof. induction ls as [|l t IH]; intro s; [reflexivity|]. cbn [fold_left]. rewrite IH. apply tl_offset. Qed.

(* ---- `next` ---- *)
(* `next` reaches interpret_command only, and there only the test "the following word starts with a punctuation
   character" of the space that a mid-row code may insert: the words whose translation consults `next` are the 19
   words of scc_mid_row_codes *)
Definition no_lookahead (w : Z) : bool := negb (memz w scc_mid_row_codes).
Definition next_punct (nx : option Z) : bool := match nx with Some nw => is_punct_hi (hi nw) | None => false end.
Definition nexto (b : list Z) : option Z := match b with n :: _ => Some n | [] => None end.
(* the line may end after `a` when `b` follows on the next line *)
Definition split_ok (a b : list Z) : bool := no_lookahead (last a 0) || negb (next_punct (nexto b)).

Lemma ic_next_irrelevant : forall t c w nx, no_lookahead w || negb (next_punct nx) = true ->
  interpret_command t c w nx = interpret_command t c w None.
Proof.
  intros t c w nx H. unfold interpret_command. unfold no_lookahead, next_punct in H.
  destruct (memz w scc_mid_row_codes) eqn:M.
  - cbn [negb orb] in H. apply negb_true_iff in H. rewrite H. reflexivity.
  - cbn [andb]. reflexivity.
Qed.

Theorem tw_next_irrelevant : forall s w nx, no_lookahead w || negb (next_punct nx) = true ->
  translate_word s w nx = translate_word s w None.
Proof.
  intros s w nx H. unfold translate_word. destruct (r_err s); [reflexivity|].
  destruct (handle_double s w) as [k a]. destruct k; [reflexivity|].
  destruct (is_command w || is_pac w); [|reflexivity].
  replace (translate_command a w nx) with (translate_command a w None); [reflexivity|].
  unfold translate_command, do_interpret. rewrite (ic_next_irrelevant _ _ _ _ H). reflexivity.
Qed.

Lemma tws_cons2 : forall s w w' t, translate_words s (w :: w' :: t) = translate_words (translate_word s w (Some w')) (w' :: t).
Proof. reflexivity. Qed.

Lemma tws_app : forall a b s, split_ok a b = true ->
  translate_words s (a ++ b) = translate_words (translate_words s a) b.
Proof.
  induction a as [|w a IH]; intros b s H; [reflexivity|].
  destruct a as [|w' a'].
  - cbn [app translate_words]. unfold split_ok in H. cbn [last] in H.
    change (match b with n :: _ => Some n | [] => None end) with (nexto b).
    rewrite (tw_next_irrelevant _ _ _ H). reflexivity.
  - change ((w :: w' :: a') ++ b) with (w :: w' :: (a' ++ b)).
    rewrite !tws_cons2. change (w' :: a' ++ b) with ((w' :: a') ++ b). apply IH.
    unfold split_ok in *. cbn [last] in *. exact H.
Qed.

Lemma se_reclock : forall s tc f,
  (forall k, 0 <= k -> get_time tc (f + k) (r_offset s) = get_time (r_tc s) (r_frames s + k) (r_offset s)) ->
  state_eq (set_clock s tc f) s.
Proof. intros s tc f H. destruct s as [st tk l ds po pa ro ac q tm tc0 f0 off e]. apply se_mk. exact H. Qed.

(* ---- THE SPLIT LEMMA ---- *)
Theorem split_line : forall s tc a b tc', split_ok a b = true ->
  same_clock (r_offset s) tc (Z.of_nat (length a)) tc' ->
  state_eq (translate_line (translate_line s (tc, a)) (tc', b)) (translate_line s (tc, a ++ b)).
Proof.
  intros s tc a b tc' Hok Hck. unfold translate_line at 2 3. cbn [fst snd].
  destruct (r_err s) eqn:Es.
  { unfold translate_line. rewrite Es. apply se_refl. }
  rewrite (tws_app _ _ _ Hok). set (s1 := translate_words (set_clock s tc 0) a).
  unfold translate_line. cbn [fst snd].
  destruct (r_err s1) eqn:E1.
  { rewrite (tws_err _ _ _ E1). apply se_refl. }
  apply se_translate_words.
  destruct (tws_clock a (set_clock s tc 0)) as (A1 & A2 & A3). fold s1 in A1, A2, A3. specialize (A3 E1).
  assert (A1' : r_tc s1 = tc) by (rewrite A1; destruct s; reflexivity).
  assert (A2' : r_offset s1 = r_offset s) by (rewrite A2; destruct s; reflexivity).
  assert (A3' : r_frames s1 = Z.of_nat (length a)) by (rewrite A3; destruct s; reflexivity).
  apply se_reclock. intros k Hk. rewrite A1', A2', A3'. symmetry. apply Hck, Hk.
Qed.

(* the form asked for: the last word of the first piece is not a mid-row code *)
Corollary split_line_no_lookahead : forall s tc a b tc', r_err s = None -> a <> [] -> no_lookahead (last a 0) = true ->
  same_clock (r_offset s) tc (Z.of_nat (length a)) tc' ->
  state_eq (translate_line (translate_line s (tc, a)) (tc', b)) (translate_line s (tc, a ++ b)).
Proof. intros s tc a b tc' _ _ Hn Hck. apply split_line; try assumption. unfold split_ok. rewrite Hn. reflexivity. Qed.

(* ================================================================================================== *)
(* 4. layouts                                                                                          *)

(* the equivalence on streams generated by: cutting a line in two (the second piece stamped with the instant of its
   first word; read right to left: joining two lines), dropping an empty line in front of another line, inside any
   context of lines. (rl_split with a = []: restamping a line with an equivalent timecode; with b = []: an empty
   line at the instant the clock has reached anyway.) *)
Inductive relayout (off : Q) : list sline -> list sline -> Prop :=
| rl_refl : forall ls, relayout off ls ls
| rl_sym : forall ls ls', relayout off ls ls' -> relayout off ls' ls
| rl_trans : forall l1 l2 l3, relayout off l1 l2 -> relayout off l2 l3 -> relayout off l1 l3
| rl_ctx : forall pre l1 l2 suf, relayout off l1 l2 -> relayout off (pre ++ l1 ++ suf) (pre ++ l2 ++ suf)
| rl_split : forall tc a b tc', split_ok a b = true -> same_clock off tc (Z.of_nat (length a)) tc' ->
    relayout off [(tc, a ++ b)] [(tc, a); (tc', b)]
| rl_empty : forall tc l, relayout off [(tc, []); l] [l].

Definition run (s : rstate) (ls : list sline) : rstate := fold_left translate_line ls s.

(* what a layout change preserves: from equivalent states (offset off) the two streams lead to equivalent states *)
Definition lay_eq (off : Q) (ls ls' : list sline) : Prop :=
  forall s1 s2, r_offset s1 = off -> state_eq s1 s2 -> state_eq (run s1 ls) (run s2 ls').

Lemma run_app : forall s l1 l2, run s (l1 ++ l2) = run (run s l1) l2.
Proof. intros. unfold run. apply fold_left_app. Qed.

Lemma empty_line : forall s tc l, translate_line (translate_line s (tc, [])) l = translate_line s l.
Proof.
  intros s tc l. unfold translate_line at 2. destruct (r_err s) eqn:E; [reflexivity|].
  cbn [fst snd translate_words]. unfold translate_line. destruct s. cbn in E. subst. reflexivity.
Qed.

Theorem relayout_sound : forall off ls ls', relayout off ls ls' -> lay_eq off ls ls'.
Proof.
  intros off ls ls' H. induction H; intros s1 s2 Ho Hs.
  - apply se_fold_lines, Hs.
  - apply se_sym. apply IHrelayout; [rewrite <- (se_offset _ _ Hs); exact Ho | apply se_sym, Hs].
  - eapply se_trans; [apply IHrelayout1; [exact Ho | exact Hs]|].
    apply IHrelayout2; [rewrite <- (se_offset _ _ Hs); exact Ho | apply se_refl].
  - rewrite !run_app. apply se_fold_lines. apply IHrelayout.
    + unfold run. rewrite fold_offset. exact Ho.
    + apply se_fold_lines, Hs.
  - unfold run. cbn [fold_left].
    eapply se_trans; [apply se_translate_line, Hs|]. apply se_sym, split_line; [assumption|].
    rewrite <- (se_offset _ _ Hs), Ho. assumption.
  - unfold run. cbn [fold_left]. rewrite empty_line. apply se_translate_line, Hs.
Qed.

Theorem run_lines_layout_invariant : forall off ls ls', relayout off ls ls' ->
  state_eq (run_lines off ls) (run_lines off ls').
Proof.
  intros off ls ls' H. unfold run_lines. cbv zeta.
  pose proof (relayout_sound off ls ls' H (rstate0 off) (rstate0 off) eq_refl (se_refl _)) as H0. unfold run in H0.
  rewrite (se_err _ _ H0). destruct (r_err (fold_left translate_line ls' (rstate0 off))); [exact H0|].
  apply se_flush_implicit, H0.
Qed.

Theorem read_layout_invariant : forall off ls ls', relayout off ls ls' -> read off ls = read off ls'.
Proof.
  intros off ls ls' H. unfold read. cbv zeta. pose proof (run_lines_layout_invariant off ls ls' H) as H0.
  rewrite (se_err _ _ H0), (se_stash _ _ H0). reflexivity.
Qed.

(* a single cut, with the surrounding lines *)
Corollary read_split_invariant : forall off pre tc a b tc' suf, split_ok a b = true ->
  same_clock off tc (Z.of_nat (length a)) tc' ->
  read off (pre ++ [(tc, a); (tc', b)] ++ suf) = read off (pre ++ [(tc, a ++ b)] ++ suf).
Proof. intros. apply read_layout_invariant, rl_sym, rl_ctx, rl_split; assumption. Qed.

(* ================================================================================================== *)
(* 5. the refinement theorems for every layout of the stream                                           *)

Theorem popon_refines_608_layout : forall d off segs evs spans ls',
  forallb pseg_ok8 segs = true -> res_map (pseg_event d off) segs = Ok evs -> positive evs -> after_show None evs ->
  expected_with join_threshold evs = Ok spans ->
  relayout off (map (pseg_line d) segs) ls' ->
  exists caps, read off ls' = ROk caps /\
               ok_c05 (mkProg d (ploads_of segs)) (Ok (map observe caps)) = true /\
               dom_c05 (mkProg d (ploads_of segs)) = true.
Proof.
  intros d off segs evs spans ls' H1 H2 H3 H4 H5 HL. rewrite <- (read_layout_invariant _ _ _ HL).
  exact (popon_refines_608 d off segs evs spans H1 H2 H3 H4 H5).
Qed.

Theorem popon_times_layout : forall d off segs evs ls',
  forallb pseg_ok8 segs = true -> res_map (pseg_event d off) segs = Ok evs -> positive evs ->
  relayout off (map (pseg_line d) segs) ls' ->
  spans_of (read off ls')
  = rmap (fun spans => flat_map bspans (combine (ploads_of segs) spans)) (expected_with join_threshold evs).
Proof.
  intros d off segs evs ls' H1 H2 H3 HL. rewrite <- (read_layout_invariant _ _ _ HL).
  exact (popon_times d off segs evs H1 H2 H3).
Qed.

Theorem popon_times_screens_layout : forall d off segs evs ls',
  forallb pseg_ok8 segs = true -> res_map (pseg_event d off) segs = Ok evs -> positive evs ->
  relayout off (map (pseg_line d) segs) ls' ->
  rmap screens (spans_of (read off ls')) = rmap screens (expected_with join_threshold evs).
Proof.
  intros d off segs evs ls' H1 H2 H3 HL. rewrite <- (read_layout_invariant _ _ _ HL).
  exact (popon_times_screens d off segs evs H1 H2 H3).
Qed.

(* (i) a load cut in two lines at any word boundary a | b allowed by split_ok *)
Lemma relayout_split_load : forall d off segs1 tc ld segs2 a b tc', emit_load d ld = a ++ b -> split_ok a b = true ->
  same_clock off tc (Z.of_nat (length a)) tc' ->
  relayout off (map (pseg_line d) (segs1 ++ PLoad tc ld :: segs2))
               (map (pseg_line d) segs1 ++ [(tc, a); (tc', b)] ++ map (pseg_line d) segs2).
Proof.
  intros d off segs1 tc ld segs2 a b tc' E Hok Hck. rewrite map_app. cbn [map pseg_line]. rewrite E.
  change ((tc, a ++ b) :: map (pseg_line d) segs2) with ([(tc, a ++ b)] ++ map (pseg_line d) segs2).
  apply rl_ctx, rl_split; assumption.
Qed.

(* (ii) two consecutive segments on one line: a segment ends with End-Of-Caption / Erase-Displayed-Memory, which do
   not look ahead *)
Lemma last_ctl : forall x d w, last (x ++ ctl d w) 0 = w.
Proof. intros x d w. destruct d; cbn [ctl]; [change [w; w] with ([w] ++ [w]); rewrite app_assoc|]; apply last_last. Qed.

Lemma seg_last_no_lookahead : forall d s, no_lookahead (last (snd (pseg_line d s)) 0) = true.
Proof.
  intros d s. destruct s as [tc l|tc]; cbn [pseg_line snd].
  - unfold emit_load. rewrite !app_assoc. rewrite last_ctl. vm_compute. reflexivity.
  - unfold emit_clear. rewrite <- (app_nil_l (ctl d (ctrl_word 44))). rewrite last_ctl. vm_compute. reflexivity.
Qed.

Lemma relayout_merge_segs : forall d off segs1 s1 s2 segs2,
  same_clock off (fst (pseg_line d s1)) (Z.of_nat (length (snd (pseg_line d s1)))) (fst (pseg_line d s2)) ->
  relayout off (map (pseg_line d) (segs1 ++ s1 :: s2 :: segs2))
               (map (pseg_line d) segs1 ++ [(fst (pseg_line d s1), snd (pseg_line d s1) ++ snd (pseg_line d s2))]
                ++ map (pseg_line d) segs2).
Proof.
  intros d off segs1 s1 s2 segs2 Hck. pose proof (seg_last_no_lookahead d s1) as HL. rewrite map_app. cbn [map].
  revert Hck HL. destruct (pseg_line d s1) as [tc1 w1]. destruct (pseg_line d s2) as [tc2 w2]. cbn [fst snd]. intros Hck HL.
  change ((tc1, w1) :: (tc2, w2) :: map (pseg_line d) segs2) with ([(tc1, w1); (tc2, w2)] ++ map (pseg_line d) segs2).
  apply rl_ctx, rl_sym, rl_split; [|exact Hck]. unfold split_ok. rewrite HL. reflexivity.
Qed.

Corollary popon_refines_608_split_load : forall d off segs1 tc ld segs2 a b tc' evs spans,
  let segs := segs1 ++ PLoad tc ld :: segs2 in
  forallb pseg_ok8 segs = true -> res_map (pseg_event d off) segs = Ok evs -> positive evs -> after_show None evs ->
  expected_with join_threshold evs = Ok spans ->
  emit_load d ld = a ++ b -> split_ok a b = true -> same_clock off tc (Z.of_nat (length a)) tc' ->
  exists caps, read off (map (pseg_line d) segs1 ++ [(tc, a); (tc', b)] ++ map (pseg_line d) segs2) = ROk caps /\
               ok_c05 (mkProg d (ploads_of segs)) (Ok (map observe caps)) = true /\
               dom_c05 (mkProg d (ploads_of segs)) = true.
Proof.
  intros d off segs1 tc ld segs2 a b tc' evs spans segs H1 H2 H3 H4 H5 E Hok Hck.
  eapply popon_refines_608_layout; try eassumption. apply relayout_split_load; assumption.
Qed.

Corollary popon_times_split_load : forall d off segs1 tc ld segs2 a b tc' evs,
  let segs := segs1 ++ PLoad tc ld :: segs2 in
  forallb pseg_ok8 segs = true -> res_map (pseg_event d off) segs = Ok evs -> positive evs ->
  emit_load d ld = a ++ b -> split_ok a b = true -> same_clock off tc (Z.of_nat (length a)) tc' ->
  spans_of (read off (map (pseg_line d) segs1 ++ [(tc, a); (tc', b)] ++ map (pseg_line d) segs2))
  = rmap (fun spans => flat_map bspans (combine (ploads_of segs) spans)) (expected_with join_threshold evs).
Proof.
  intros d off segs1 tc ld segs2 a b tc' evs segs H1 H2 H3 E Hok Hck.
  eapply popon_times_layout; try eassumption. apply relayout_split_load; assumption.
Qed.

Corollary popon_refines_608_merged : forall d off segs1 s1 s2 segs2 evs spans,
  let segs := segs1 ++ s1 :: s2 :: segs2 in
  forallb pseg_ok8 segs = true -> res_map (pseg_event d off) segs = Ok evs -> positive evs -> after_show None evs ->
  expected_with join_threshold evs = Ok spans ->
  same_clock off (fst (pseg_line d s1)) (Z.of_nat (length (snd (pseg_line d s1)))) (fst (pseg_line d s2)) ->
  exists caps, read off (map (pseg_line d) segs1 ++ [(fst (pseg_line d s1), snd (pseg_line d s1) ++ snd (pseg_line d s2))]
                         ++ map (pseg_line d) segs2) = ROk caps /\
               ok_c05 (mkProg d (ploads_of segs)) (Ok (map observe caps)) = true /\
               dom_c05 (mkProg d (ploads_of segs)) = true.
Proof.
  intros d off segs1 s1 s2 segs2 evs spans segs H1 H2 H3 H4 H5 Hck.
  eapply popon_refines_608_layout; try eassumption. apply relayout_merge_segs; assumption.
Qed.

Corollary popon_times_merged : forall d off segs1 s1 s2 segs2 evs,
  let segs := segs1 ++ s1 :: s2 :: segs2 in
  forallb pseg_ok8 segs = true -> res_map (pseg_event d off) segs = Ok evs -> positive evs ->
  same_clock off (fst (pseg_line d s1)) (Z.of_nat (length (snd (pseg_line d s1)))) (fst (pseg_line d s2)) ->
  spans_of (read off (map (pseg_line d) segs1 ++ [(fst (pseg_line d s1), snd (pseg_line d s1) ++ snd (pseg_line d s2))]
                      ++ map (pseg_line d) segs2))
  = rmap (fun spans => flat_map bspans (combine (ploads_of segs) spans)) (expected_with join_threshold evs).
Proof.
  intros d off segs1 s1 s2 segs2 evs segs H1 H2 H3 Hck.
  eapply popon_times_layout; try eassumption. apply relayout_merge_segs; assumption.
Qed.

(* ---- building layouts: clocks compose, cuts can be iterated -------------------------------------- *)
Lemma same_clock_trans : forall off tc n tc' m tc'', 0 <= m ->
  same_clock off tc n tc' -> same_clock off tc' m tc'' -> same_clock off tc (n + m) tc''.
Proof.
  intros off tc n tc' m tc'' Hm H1 H2 k Hk. rewrite <- Z.add_assoc. rewrite H1 by lia. apply H2, Hk.
Qed.

Lemma rl_ctx_eq : forall off pre l1 l2 suf L L', L = pre ++ l1 ++ suf -> L' = pre ++ l2 ++ suf ->
  relayout off l1 l2 -> relayout off L L'.
Proof. intros; subst; apply rl_ctx; assumption. Qed.

(* cut off a first piece, lay out the rest in any way *)
Lemma relayout_split_cons : forall off tc a r tc' ls, split_ok a r = true ->
  same_clock off tc (Z.of_nat (length a)) tc' -> relayout off [(tc', r)] ls ->
  relayout off [(tc, a ++ r)] ((tc, a) :: ls).
Proof.
  intros off tc a r tc' ls Hok Hck H. eapply rl_trans; [apply rl_split; eassumption|].
  pose proof (rl_ctx off [(tc, a)] _ _ [] H) as H1. rewrite !app_nil_r in H1. exact H1.
Qed.

(* a line cut at any number of word boundaries: every piece stamped with the instant of its first word *)
Inductive cuts (off : Q) : str -> list Z -> list sline -> Prop :=
| cuts_one : forall tc ws, cuts off tc ws [(tc, ws)]
| cuts_cons : forall tc a tc' r ls, split_ok a r = true -> same_clock off tc (Z.of_nat (length a)) tc' ->
    cuts off tc' r ls -> cuts off tc (a ++ r) ((tc, a) :: ls).

Lemma cuts_relayout : forall off tc ws ls, cuts off tc ws ls -> relayout off [(tc, ws)] ls.
Proof.
  intros off tc ws ls H. induction H; [apply rl_refl|]. eapply relayout_split_cons; eassumption.
Qed.

Lemma relayout_app : forall off a a' b b', relayout off a a' -> relayout off b b' -> relayout off (a ++ b) (a' ++ b').
Proof.
  intros off a a' b b' Ha Hb. eapply rl_trans.
  - apply (rl_ctx off [] a a' b Ha).
  - pose proof (rl_ctx off a' b b' [] Hb) as H. rewrite !app_nil_r in H. exact H.
Qed.

(* every line of a stream cut independently (lines kept whole: cuts_one); read right to left: runs of lines joined *)
Lemma relayout_each : forall off ls lss, Forall2 (fun l pieces => cuts off (fst l) (snd l) pieces) ls lss ->
  relayout off ls (concat lss).
Proof.
  intros off ls lss H. induction H as [|l pieces ls lss Hc _ IH]; [apply rl_refl|].
  cbn [concat]. change (l :: ls) with ([l] ++ ls). apply relayout_app; [|exact IH].
  rewrite (surjective_pairing l). apply cuts_relayout, Hc.
Qed.

(* the public theorems for a stream whose segments are each cut over several lines *)
Corollary popon_refines_608_cuts : forall d off segs evs spans lss,
  forallb pseg_ok8 segs = true -> res_map (pseg_event d off) segs = Ok evs -> positive evs -> after_show None evs ->
  expected_with join_threshold evs = Ok spans ->
  Forall2 (fun s pieces => cuts off (fst (pseg_line d s)) (snd (pseg_line d s)) pieces) segs lss ->
  exists caps, read off (concat lss) = ROk caps /\
               ok_c05 (mkProg d (ploads_of segs)) (Ok (map observe caps)) = true /\
               dom_c05 (mkProg d (ploads_of segs)) = true.
Proof.
  intros d off segs evs spans lss H1 H2 H3 H4 H5 HC. eapply popon_refines_608_layout; try eassumption.
  apply relayout_each. clear -HC. induction HC; constructor; assumption.
Qed.

Corollary popon_times_cuts : forall d off segs evs lss,
  forallb pseg_ok8 segs = true -> res_map (pseg_event d off) segs = Ok evs -> positive evs ->
  Forall2 (fun s pieces => cuts off (fst (pseg_line d s)) (snd (pseg_line d s)) pieces) segs lss ->
  spans_of (read off (concat lss))
  = rmap (fun spans => flat_map bspans (combine (ploads_of segs) spans)) (expected_with join_threshold evs).
Proof.
  intros d off segs evs lss H1 H2 H3 HC. eapply popon_times_layout; try eassumption.
  apply relayout_each. clear -HC. induction HC; constructor; assumption.
Qed.

(* ================================================================================================== *)
(* 6. a concrete stream                                                                                *)

(* ENM RCL PAC(row 14) "ab" PAC(row 15) "cd" EOC at 00:00:01:00, cut after the fourth word; EDM at 00:00:03:00 *)
Definition ex_load : load := [mkRow 14 0 0 0 [Ch 97; Ch 98]; mkRow 15 0 0 0 [Ch 99; Ch 100]].
Definition ex_a : list Z := [38062; 37920; 37952; 24930].      (* 94ae 9420 9440 6162 *)
Definition ex_b : list Z := [38112; 58212; 37935].             (* 94e0 e364 942f *)
Definition ex_segs : list pseg := [PLoad (lit "00:00:01:00") ex_load; PClear (lit "00:00:03:00")].
Definition ex_one_line : list sline := [(lit "00:00:01:00", ex_a ++ ex_b); (lit "00:00:03:00", [37932])].
Definition ex_split : list sline :=
  [(lit "00:00:01:00", ex_a); (lit "00:00:01:04", ex_b); (lit "00:00:03:00", [37932])].
(* the Erase-Displayed-Memory on the line of the load, and a last layout with all three changes at once *)
Definition ex_merged : list sline := [(lit "00:00:01:00", ex_a ++ ex_b ++ [37932])].
Definition ex_words : list sline :=
  [(lit "00:00:01:00", [38062; 37920]); (lit "00:00:01:02", []); (lit "00:00:01:02", [37952; 24930; 38112]);
   (lit "00:00:01:05", [58212; 37935]); (lit "00:00:03:00", [37932])].

Example ex_is_pseg_stream : map (pseg_line false) ex_segs = ex_one_line.
Proof. vm_compute. reflexivity. Qed.

Example ex_relayout : forall off, relayout off ex_one_line ex_split.
Proof.
  intro off. eapply (rl_ctx_eq off [] [_] [_; _] [_]); [reflexivity | reflexivity |].
  apply rl_split; [vm_compute; reflexivity|]. exact (same_clock_example off).
Qed.

Example ex_read_values :
  read 0 ex_one_line = ROk [mkPre 1201200 3003000 [CText [97; 98] (14, 0); CBreak (14, 0); CText [99; 100] (14, 0)] (Some (14, 0))] /\
  read 0 ex_split = ROk [mkPre 1201200 3003000 [CText [97; 98] (14, 0); CBreak (14, 0); CText [99; 100] (14, 0)] (Some (14, 0))].
Proof. split; vm_compute; reflexivity. Qed.

Example ex_read_eq : forall off, read off ex_split = read off ex_one_line.
Proof. intro off. symmetry. apply read_layout_invariant, ex_relayout. Qed.

(* the public theorem, instantiated on the split layout *)
Example ex_refines : exists caps, read 0 ex_split = ROk caps /\
  ok_c05 (mkProg false [ex_load]) (Ok (map observe caps)) = true /\ dom_c05 (mkProg false [ex_load]) = true.
Proof.
  apply (popon_refines_608_layout false 0 ex_segs [Show 1201200; Clear 3003000] [(1201200%Q, 3003000%Q)]).
  - vm_compute. reflexivity.
  - vm_compute. reflexivity.
  - intros e [<-|[<-|[]]]; reflexivity.
  - cbn. repeat split.
  - vm_compute. reflexivity.
  - rewrite ex_is_pseg_stream. apply ex_relayout.
Qed.

(* EDM on the load's line: 00:00:03:00 is not 7 frames after 00:00:01:00, so the one-line stream is related to the
   two-line stream whose EDM line is stamped 00:00:01:07 *)
Example ex_relayout_merged : forall off,
  relayout off [(lit "00:00:01:00", ex_a ++ ex_b); (lit "00:00:01:07", [37932])] ex_merged.
Proof.
  intro off. apply rl_sym. unfold ex_merged. rewrite app_assoc. apply rl_split; [vm_compute; reflexivity|].
  exact (same_clock_frames off (mkTc 0 0 1 false 0) 7 eq_refl ltac:(lia) ltac:(cbn; lia)).
Qed.

(* several cuts and an empty line *)
Example ex_relayout_words : forall off, relayout off ex_one_line ex_words.
Proof.
  intro off. unfold ex_one_line, ex_words.
  eapply (rl_ctx_eq off [] [_] [_; _; _; _] [_]); [reflexivity | reflexivity |].
  change (ex_a ++ ex_b) with ([38062; 37920] ++ [37952; 24930; 38112; 58212; 37935]).
  eapply relayout_split_cons; [vm_compute; reflexivity | |].
  { exact (same_clock_frames off (mkTc 0 0 1 false 0) 2 eq_refl ltac:(lia) ltac:(cbn; lia)). }
  eapply rl_trans; [|apply rl_sym; eapply (rl_ctx_eq off [] [_; _] [_] [_]); [reflexivity | reflexivity | apply rl_empty]].
  cbn [app].
  change [37952; 24930; 38112; 58212; 37935] with ([37952; 24930; 38112] ++ [58212; 37935]).
  apply rl_split; [vm_compute; reflexivity|].
  exact (same_clock_frames off (mkTc 0 0 1 false 2) 3 eq_refl ltac:(lia) ltac:(cbn; lia)).
Qed.

(* the side condition is needed: a line ending right after a mid-row code (9120) whose next word starts with a
   punctuation character (".x" = aef8) is read differently ("ab .x" instead of "ab.x") *)
Example ex_side_condition_needed :
  split_ok [38062; 37920; 37952; 24930; 37152] [44792; 37935] = false /\
  read 0 [(lit "00:00:01:00", [38062; 37920; 37952; 24930; 37152] ++ [44792; 37935]); (lit "00:00:03:00", [37932])]
    = ROk [mkPre 1201200 3003000 [CText [97; 98; 46; 120] (14, 0)] (Some (14, 0))] /\
  read 0 [(lit "00:00:01:00", [38062; 37920; 37952; 24930; 37152]); (lit "00:00:01:05", [44792; 37935]); (lit "00:00:03:00", [37932])]
    = ROk [mkPre 1201200 3003000 [CText [97; 98; 32; 46; 120] (14, 0)] (Some (14, 0))].
Proof. repeat split; vm_compute; reflexivity. Qed.

Print Assumptions same_clock_wf.
Print Assumptions se_translate_word.
Print Assumptions split_line.
Print Assumptions read_layout_invariant.
Print Assumptions popon_refines_608_layout.
Print Assumptions popon_times_layout.
Print Assumptions popon_times_screens_layout.
Print Assumptions popon_refines_608_split_load.
Print Assumptions popon_times_split_load.
Print Assumptions popon_refines_608_merged.
Print Assumptions popon_times_merged.
Print Assumptions popon_refines_608_cuts.
Print Assumptions popon_times_cuts.
Print Assumptions ex_refines.
Print Assumptions ex_relayout_words.
Print Assumptions ex_side_condition_needed.
