(* C14: facts about the language model (model/Langs.v). *)
From Coq Require Import List ZArith Lia Bool ZifyBool Arith.
From PV Require Import lib.Sx lib.Str lib.Result model.Langs spec.SpecLangs.
Import ListNotations.
Open Scope Z_scope.

(* ---- strings and dicts ---------------------------------------------------------------------------------- *)
Lemma str_eqb_eq : forall a b, str_eqb a b = true <-> a = b.
Proof.
  induction a as [|x a IH]; intros [|y b]; simpl; split; intros H; try discriminate; try reflexivity.
  - apply andb_prop in H. destruct H as [H1 H2]. apply IH in H2. f_equal; [lia|exact H2].
  - inversion H; subst. rewrite Z.eqb_refl. apply IH. reflexivity.
Qed.
Lemma str_eqb_refl' : forall a, str_eqb a a = true.
Proof. intros. apply str_eqb_eq. reflexivity. Qed.
Lemma str_eqb_neq : forall a b, str_eqb a b = false <-> a <> b.
Proof.
  intros a b. split; intros H.
  - intros E. apply str_eqb_eq in E. congruence.
  - destruct (str_eqb a b) eqn:Q; [apply str_eqb_eq in Q; contradiction|reflexivity].
Qed.
Lemma mem_In : forall l ls, mem l ls = true <-> In l ls.
Proof.
  intros l ls. unfold mem. rewrite existsb_exists. split.
  - intros [x [H1 H2]]. apply str_eqb_eq in H2. subst. exact H1.
  - intros H. exists l. split; [exact H|apply str_eqb_refl'].
Qed.
Lemma mem_false : forall l ls, mem l ls = false <-> ~ In l ls.
Proof.
  intros. split; intros H.
  - intros C. apply mem_In in C. congruence.
  - destruct (mem l ls) eqn:Q; [apply mem_In in Q; contradiction|reflexivity].
Qed.

Lemma dict_set_keys : forall (V : Type) k (v : V) d,
  map fst (dict_set k v d) = if mem k (map fst d) then map fst d else map fst d ++ [k].
Proof.
  induction d as [|[k' v'] t IH]; [reflexivity|]. cbn [dict_set map fst mem existsb].
  destruct (str_eqb k' k) eqn:E.
  - apply str_eqb_eq in E. subst. rewrite str_eqb_refl'. reflexivity.
  - assert (E' : str_eqb k k' = false) by (apply str_eqb_neq; apply str_eqb_neq in E; congruence).
    rewrite E'. cbn [orb map fst]. rewrite IH. unfold mem. destruct (existsb (str_eqb k) (map fst t)); reflexivity.
Qed.
Lemma dict_set_fresh : forall (V : Type) k (v : V) d, mem k (map fst d) = false -> dict_set k v d = d ++ [(k, v)].
Proof.
  induction d as [|[k' v'] t IH]; intros H; [reflexivity|]. cbn [map fst mem existsb] in H.
  apply orb_false_elim in H. destruct H as [H1 H2]. cbn [dict_set].
  assert (E : str_eqb k' k = false) by (apply str_eqb_neq; apply str_eqb_neq in H1; congruence).
  rewrite E. cbn [app]. f_equal. apply IH. exact H2.
Qed.
Lemma dict_get_nodup : forall (V : Type) (d : list (str * V)) k v,
  NoDup (map fst d) -> In (k, v) d -> dict_get k d = Some v.
Proof.
  induction d as [|[k' v'] t IH]; intros k v N H; [destruct H|]. cbn [dict_get].
  inversion N as [|? ? N1 N2]; subst. destruct H as [H|H].
  - inversion H; subst. rewrite str_eqb_refl'. reflexivity.
  - destruct (str_eqb k' k) eqn:E.
    + apply str_eqb_eq in E. subst. exfalso. apply N1. apply in_map_iff. exists (k, v). split; [reflexivity|exact H].
    + apply IH; assumption.
Qed.

(* ---- DFXP read ------------------------------------------------------------------------------------------- *)
Theorem dfxp_lang_of_div : forall own tt default,
  div_lang own tt default = match own with Some l => l | None => match tt with Some l => l | None => default end end
  /\ div_lang own tt default = effective_lang own tt default.
Proof. intros [o|] [t|] d; split; reflexivity. Qed.

Definition effs (default : str) (doc : dfxp_doc) : list str :=
  map (fun dv => div_lang (fst dv) (d_tt doc) default) (d_divs doc).

Lemma NoDup_snoc : forall (l : str) acc, NoDup acc -> ~ In l acc -> NoDup (acc ++ [l]).
Proof.
  induction acc as [|a t IH]; intros N H; simpl.
  - constructor; [intros []|constructor].
  - inversion N; subst. constructor.
    + rewrite in_app_iff. simpl. intros [C|[C|[]]]; [contradiction|]. subst. apply H. left. reflexivity.
    + apply IH; [assumption|]. intros C. apply H. right. exact C.
Qed.

Definition fa_step (acc : list str) (l : str) : list str := if mem l acc then acc else acc ++ [l].

Lemma first_appearance_unfold : forall ls, first_appearance ls = fold_left fa_step ls [].
Proof. reflexivity. Qed.

Lemma fa_fold_spec : forall ls acc, NoDup acc ->
  NoDup (fold_left fa_step ls acc) /\ (forall x, In x (fold_left fa_step ls acc) <-> In x acc \/ In x ls).
Proof.
  induction ls as [|l t IH]; intros acc N; cbn [fold_left].
  - split; [exact N|]. intros x. simpl. tauto.
  - unfold fa_step at 2. unfold fa_step at 3. destruct (mem l acc) eqn:M.
    + destruct (IH acc N) as [A B]. split; [exact A|]. intros x. rewrite B. simpl.
      apply mem_In in M. split; [tauto|]. intros [H|[H|H]]; subst; auto.
    + assert (N' : NoDup (acc ++ [l])).
      { apply mem_false in M. apply NoDup_snoc; assumption. }
      destruct (IH _ N') as [A B]. split; [exact A|]. intros x. rewrite B, in_app_iff. simpl. tauto.
Qed.

Theorem first_appearance_spec : forall ls,
  NoDup (first_appearance ls) /\ (forall x, In x (first_appearance ls) <-> In x ls).
Proof.
  intros ls. destruct (fa_fold_spec ls [] (NoDup_nil _)) as [A B]. split; [exact A|].
  intros x. rewrite first_appearance_unfold, B. simpl. tauto.
Qed.

Lemma list_eqb_refl : forall (A : Type) (e : A -> A -> bool) l, (forall x, e x x = true) -> list_eqb e l l = true.
Proof. induction l; intros H; simpl; auto. rewrite H. auto. Qed.
Lemma cue_eqb_refl : forall c, cue_eqb c c = true.
Proof. intros [s t]. unfold cue_eqb. cbn [fst snd]. rewrite Z.eqb_refl, str_eqb_refl'. reflexivity. Qed.
Lemma lang_eqb_refl : forall c, lang_eqb c c = true.
Proof. intros [l cs]. unfold lang_eqb. cbn [fst snd]. rewrite str_eqb_refl', list_eqb_refl by apply cue_eqb_refl. reflexivity. Qed.

Lemma get_captions_nodup : forall cs l c, NoDup (languages cs) -> In (l, c) cs -> get_captions cs l = c.
Proof. intros cs l c N H. unfold get_captions. rewrite (dict_get_nodup _ cs l c N H). reflexivity. Qed.

Lemma map_get_all : forall cs, NoDup (languages cs) ->
  map (fun l => (l, get_captions cs l)) (languages cs) = cs.
Proof.
  intros cs N. unfold languages. rewrite map_map. rewrite <- (map_id cs) at 2. apply map_ext_in.
  intros [l c] H. cbn [fst]. f_equal. apply get_captions_nodup; assumption.
Qed.

(* ---- grouping: the model's fold equals the specification's grouping --------------------------------------- *)
Lemma filter_filter : forall (A : Type) (p q : A -> bool) l, filter p (filter q l) = filter (fun x => q x && p x) l.
Proof. induction l as [|x t IH]; [reflexivity|]. cbn [filter]. destruct (q x); cbn [filter andb]; [destruct (p x)|]; rewrite IH; reflexivity. Qed.

Lemma filter_true : forall (A : Type) (l : list A), filter (fun _ => true) l = l.
Proof. induction l as [|x t IH]; [reflexivity|]. cbn [filter]. rewrite IH. reflexivity. Qed.

(* order of first appearance, pinned down: first_appearance is the specification's `uniq` (keep first occurrences) *)
Lemma fa_fold_uniq : forall ls acc,
  fold_left fa_step ls acc = acc ++ filter (fun x => negb (mem x acc)) (uniq ls).
Proof.
  induction ls as [|l t IH]; intros acc; cbn [fold_left uniq filter]; [rewrite app_nil_r; reflexivity|].
  unfold fa_step at 2. destruct (mem l acc) eqn:M; cbn [negb].
  - rewrite IH. f_equal. rewrite filter_filter. apply filter_ext_in. intros x _.
    destruct (str_eqb x l) eqn:E; cbn [negb andb]; [|reflexivity]. apply str_eqb_eq in E. subst. rewrite M. reflexivity.
  - rewrite IH, <- app_assoc. cbn [app]. f_equal. f_equal. rewrite filter_filter. apply filter_ext_in. intros x _.
    unfold mem. rewrite existsb_app. cbn [existsb]. rewrite orb_false_r, negb_orb, andb_comm. reflexivity.
Qed.
Theorem first_appearance_uniq : forall ls, first_appearance ls = uniq ls.
Proof.
  intros ls. rewrite first_appearance_unfold, fa_fold_uniq. cbn [app].
  transitivity (filter (fun _ : str => true) (uniq ls)); [apply filter_ext; reflexivity|apply filter_true].
Qed.

Lemma dict_extend_keys : forall k v d,
  map fst (dict_extend k v d) = if mem k (map fst d) then map fst d else map fst d ++ [k].
Proof.
  induction d as [|[k' v'] t IH]; [reflexivity|]. cbn [dict_extend map fst mem existsb].
  destruct (str_eqb k' k) eqn:E.
  - apply str_eqb_eq in E. subst. rewrite str_eqb_refl'. reflexivity.
  - assert (E' : str_eqb k k' = false) by (apply str_eqb_neq; apply str_eqb_neq in E; congruence).
    rewrite E'. cbn [orb map fst]. rewrite IH. unfold mem. destruct (existsb (str_eqb k) (map fst t)); reflexivity.
Qed.
Lemma dict_extend_get : forall k v d l,
  get_captions (dict_extend k v d) l = if str_eqb k l then get_captions d l ++ v else get_captions d l.
Proof.
  unfold get_captions. induction d as [|[k' v'] t IH]; intros l; cbn [dict_extend dict_get].
  - destruct (str_eqb k l); reflexivity.
  - destruct (str_eqb k' k) eqn:E; cbn [dict_get].
    + apply str_eqb_eq in E. subst. destruct (str_eqb k l); reflexivity.
    + destruct (str_eqb k' l) eqn:E2.
      * assert (E3 : str_eqb k l = false).
        { apply str_eqb_neq. intros C. subst. apply str_eqb_eq in E2. subst. rewrite str_eqb_refl' in E. discriminate. }
        rewrite E3. reflexivity.
      * apply IH.
Qed.

Definition div_step (default : str) (tt : option str) (d : capset) (dv : option str * list cue) : capset :=
  dict_extend (div_lang (fst dv) tt default) (snd dv) d.

Lemma dfxp_fold_keys : forall default tt divs d,
  map fst (fold_left (div_step default tt) divs d)
  = fold_left fa_step (map (fun dv => div_lang (fst dv) tt default) divs) (map fst d).
Proof.
  induction divs as [|dv t IH]; intros d; [reflexivity|]. cbn [fold_left map]. rewrite IH. unfold div_step.
  rewrite dict_extend_keys. reflexivity.
Qed.
Lemma dfxp_fold_get : forall default tt divs d l,
  get_captions (fold_left (div_step default tt) divs d) l
  = get_captions d l ++ flat_map snd (filter (fun dv => str_eqb (div_lang (fst dv) tt default) l) divs).
Proof.
  induction divs as [|dv t IH]; intros d l; cbn [fold_left filter flat_map]; [rewrite app_nil_r; reflexivity|].
  rewrite IH. unfold div_step. rewrite dict_extend_get.
  destruct (str_eqb (div_lang (fst dv) tt default) l); cbn [flat_map]; rewrite <- ?app_assoc; reflexivity.
Qed.

Lemma flat_map_filter_map : forall (A : Type) (f : A -> str) (g : A -> list cue) l (xs : list A),
  flat_map snd (filter (fun t : str * list cue => str_eqb (fst t) l) (map (fun x => (f x, g x)) xs))
  = flat_map g (filter (fun x => str_eqb (f x) l) xs).
Proof.
  induction xs as [|x t IH]; [reflexivity|]. cbn [map filter fst]. destruct (str_eqb (f x) l); cbn [flat_map snd]; rewrite IH; reflexivity.
Qed.

(* DFXPReader model = the specification's grouping, for EVERY document: languages in order of first appearance; a
   language met again (a further div, a nested div) continues its list; no cue lost, none listed twice *)
Theorem dfxp_read_groups : forall default doc,
  dfxp_read default doc
  = spec_group (map (fun dv => (effective_lang (fst dv) (d_tt doc) default, snd dv)) (d_divs doc)).
Proof.
  intros default doc. unfold dfxp_read. change (fun d dv => dict_extend (div_lang (fst dv) (d_tt doc) default) (snd dv) d)
    with (div_step default (d_tt doc)).
  set (r := fold_left (div_step default (d_tt doc)) (d_divs doc) []).
  assert (K : map fst r = uniq (map (fun dv => div_lang (fst dv) (d_tt doc) default) (d_divs doc))).
  { unfold r. rewrite dfxp_fold_keys. cbn [map]. rewrite <- first_appearance_unfold. apply first_appearance_uniq. }
  assert (N : NoDup (languages r)).
  { unfold languages. rewrite K, <- first_appearance_uniq. apply first_appearance_spec. }
  rewrite <- (map_get_all r N). unfold languages. rewrite K. unfold spec_group. rewrite map_map. cbn [fst].
  assert (Eff : forall dv : option str * list cue, effective_lang (fst dv) (d_tt doc) default = div_lang (fst dv) (d_tt doc) default).
  { intros [o c]. cbn [fst]. destruct o, (d_tt doc); reflexivity. }
  assert (M : map (fun dv : option str * list cue => effective_lang (fst dv) (d_tt doc) default) (d_divs doc)
              = map (fun dv => div_lang (fst dv) (d_tt doc) default) (d_divs doc)) by (apply map_ext; exact Eff).
  rewrite M. apply map_ext. intros l. f_equal.
  unfold r. rewrite dfxp_fold_get. cbn [get_captions dict_get app].
  rewrite (flat_map_filter_map _ (fun dv => effective_lang (fst dv) (d_tt doc) default) snd).
  reflexivity.
Qed.

Lemma sset_eqb_refl : forall s, sset_eqb s s = true.
Proof. intros. apply list_eqb_refl. apply lang_eqb_refl. Qed.

(* the model meets the oracle on every document *)
Theorem dfxp_read_meets_oracle : forall default tt divs,
  ok_dfxp_read default tt divs (dfxp_read default (mkDfxp tt divs)) = true.
Proof. intros. unfold ok_dfxp_read. rewrite dfxp_read_groups. apply sset_eqb_refl. Qed.

(* the body tree: the tree read is the grouping of the segments (flatten_body), for every tree *)
Theorem dfxp_read_tree_groups : forall default tt nodes,
  dfxp_read_tree default tt nodes
  = spec_group (map (fun dv => (effective_lang (fst dv) tt default, snd dv)) (flatten_body nodes)).
Proof. intros. exact (dfxp_read_groups default (mkDfxp tt (flatten_body nodes))). Qed.
Theorem dfxp_read_tree_meets_oracle : forall default tt nodes,
  ok_dfxp_read default tt (flatten_body nodes) (dfxp_read_tree default tt nodes) = true.
Proof. intros. apply dfxp_read_meets_oracle. Qed.

Theorem dfxp_read_order : forall default doc,
  languages (dfxp_read default doc) = first_appearance (effs default doc).
Proof.
  intros. unfold languages, dfxp_read, effs.
  change (fun d dv => dict_extend (div_lang (fst dv) (d_tt doc) default) (snd dv) d) with (div_step default (d_tt doc)).
  rewrite dfxp_fold_keys. reflexivity.
Qed.

(* ---- DFXP write ------------------------------------------------------------------------------------------ *)
Theorem dfxp_write_order : forall force cs, mem force (languages cs) = false ->
  d_divs (dfxp_write force cs) = map (fun l => (Some l, get_captions cs l)) (languages cs).
Proof. intros force cs H. unfold dfxp_write. rewrite H. reflexivity. Qed.

Theorem force_selects : forall force cs, mem force (languages cs) = true ->
  dfxp_write force cs = mkDfxp (Some force) [(Some force, get_captions cs force)]
  /\ (force <> [] ->
      legacy_write force cs = Ok (mkDfxp (Some dfxp_default_language) [(Some force, get_captions cs force)])).
Proof.
  intros force cs H. unfold dfxp_write, legacy_write. rewrite H. split; [reflexivity|].
  intros N. destruct force as [|c f]; [congruence|reflexivity].
Qed.


(* writing and reading back: the same languages in the same order with the same cue lists *)
Lemma uniq_nodup_id : forall ls, NoDup ls -> uniq ls = ls.
Proof.
  induction ls as [|l t IH]; intros N; [reflexivity|]. inversion N; subst. cbn [uniq]. rewrite IH by assumption. f_equal.
  rewrite <- (filter_true _ t) at 2. apply filter_ext_in.
  intros x Hx. destruct (str_eqb x l) eqn:E; [apply str_eqb_eq in E; subst; contradiction|reflexivity].
Qed.

Lemma single_filter : forall (g : str -> list cue) ls l, NoDup ls -> In l ls ->
  flat_map g (filter (fun x => str_eqb x l) ls) = g l.
Proof.
  induction ls as [|x t IH]; intros l N H; [destruct H|]. inversion N; subst. cbn [filter].
  destruct (str_eqb x l) eqn:E.
  - apply str_eqb_eq in E. subst. cbn [flat_map].
    assert (Z0 : filter (fun x => str_eqb x l) t = []).
    { clear IH H N. induction t as [|y r IHr]; [reflexivity|]. cbn [filter].
      destruct (str_eqb y l) eqn:E; [apply str_eqb_eq in E; subst; exfalso; apply H2; left; reflexivity|].
      apply IHr; [intros C; apply H2; right; exact C|inversion H3; assumption]. }
    rewrite Z0. cbn [flat_map]. apply app_nil_r.
  - apply IH; [assumption|]. destruct H as [H|H]; [subst; rewrite str_eqb_refl' in E; discriminate|exact H].
Qed.

(* writing and reading back: the same languages in the same order with the same cue lists *)
Theorem dfxp_roundtrip_langs : forall default cs, NoDup (languages cs) -> mem [] (languages cs) = false ->
  dfxp_read default (dfxp_write [] cs) = cs.
Proof.
  intros default cs N H. rewrite dfxp_read_groups. unfold dfxp_write. rewrite H. cbn [d_divs d_tt].
  rewrite map_map. cbn [fst snd effective_lang]. unfold spec_group. rewrite map_map. cbn [fst]. rewrite map_id.
  fold (languages cs). rewrite (uniq_nodup_id _ N).
  transitivity (map (fun l => (l, get_captions cs l)) (languages cs)); [|apply map_get_all; exact N].
  apply map_ext_in. intros l Hl. f_equal.
  rewrite (flat_map_filter_map _ (fun l0 => l0) (get_captions cs)).
  apply single_filter; assumption.
Qed.
Theorem dfxp_roundtrip_force : forall default force cs, mem force (languages cs) = true ->
  dfxp_read default (dfxp_write force cs) = [(force, get_captions cs force)].
Proof.
  intros default force cs H. destruct (force_selects force cs H) as [E _]. rewrite E. unfold dfxp_read. cbn [d_divs d_tt fold_left fst snd div_lang dict_extend].
  reflexivity.
Qed.

(* ---- WebVTT lang= --------------------------------------------------------------------------------------- *)
Theorem vtt_lang_option : forall l cs c, NoDup (languages cs) -> In (l, c) cs -> vtt_select (Some l) cs = Ok c.
Proof. intros l cs c N H. unfold vtt_select. rewrite (get_captions_nodup cs l c N H). reflexivity. Qed.
Theorem vtt_lang_default : forall l c cs, vtt_select None ((l, c) :: cs) = Ok c.
Proof. intros. unfold vtt_select, get_captions. cbn [dict_get]. rewrite str_eqb_refl'. reflexivity. Qed.

(* ---- SAMI read ---------------------------------------------------------------------------------------------- *)
Definition tag_of (default : str) (styles : sami_styles) (p : sami_p) : str := p_lang default (sp_attrs p) styles.

Theorem sami_read_order : forall default styles ps,
  languages (sami_read default styles ps) = first_appearance (map (tag_of default styles) ps)
  /\ NoDup (languages (sami_read default styles ps)).
Proof.
  intros.
  assert (E : languages (sami_read default styles ps) = first_appearance (map (tag_of default styles) ps)).
  { unfold languages, sami_read, tag_of. rewrite map_map. cbn [fst]. rewrite map_id, map_map. reflexivity. }
  split; [exact E|]. rewrite E. apply first_appearance_spec.
Qed.

Lemma filter_tagged : forall default styles l ps,
  map (fun lp : str * sami_p => (sp_start (snd lp) * 1000, sp_text (snd lp)))
      (filter (fun lp => str_eqb (fst lp) l && negb (is_blank_text (sp_text (snd lp))))
              (map (fun p => (p_lang default (sp_attrs p) styles, p)) ps))
  = map (fun p => (sp_start p * 1000, sp_text p))
        (filter (fun p => str_eqb (tag_of default styles p) l && negb (is_blank_text (sp_text p))) ps).
Proof.
  induction ps as [|p t IH]; [reflexivity|]. cbn [map filter fst snd]. fold (tag_of default styles p).
  destruct (str_eqb (tag_of default styles p) l && negb (is_blank_text (sp_text p))); cbn [map snd]; rewrite IH; reflexivity.
Qed.

(* the cue list of a language is exactly the non-blank paragraphs resolved to that language, in document order *)
Theorem sami_read_lists : forall default styles ps l,
  In l (languages (sami_read default styles ps)) ->
  get_captions (sami_read default styles ps) l
  = map (fun p => (sp_start p * 1000, sp_text p))
        (filter (fun p => str_eqb (tag_of default styles p) l && negb (is_blank_text (sp_text p))) ps).
Proof.
  intros default styles ps l H. destruct (sami_read_order default styles ps) as [E N].
  assert (I : In (l, map (fun p => (sp_start p * 1000, sp_text p))
                       (filter (fun p => str_eqb (tag_of default styles p) l && negb (is_blank_text (sp_text p))) ps))
                 (sami_read default styles ps)).
  { unfold sami_read. apply in_map_iff. exists l. split.
    - f_equal. apply filter_tagged.
    - rewrite E in H. rewrite map_map. exact H. }
  apply get_captions_nodup; assumption.
Qed.

(* partition: summed over the languages listed, every non-blank paragraph is counted exactly once *)
Lemma count_one : forall (x : str) ls, NoDup ls -> In x ls ->
  fold_right (fun l n => ((if str_eqb x l then 1 else 0) + n)%nat) 0%nat ls = 1%nat.
Proof.
  induction ls as [|l t IH]; intros N H; [destruct H|]. inversion N as [|? ? N1 N2]; subst. cbn [fold_right].
  destruct H as [H|H].
  - subst. rewrite str_eqb_refl'.
    assert (Z0 : fold_right (fun l n => ((if str_eqb x l then 1 else 0) + n)%nat) 0%nat t = 0%nat).
    { clear IH N N2. induction t as [|y t IH]; [reflexivity|]. cbn [fold_right].
      assert (E : str_eqb x y = false) by (apply str_eqb_neq; intros C; subst; apply N1; left; reflexivity).
      rewrite E, IH; [reflexivity|]. intros C. apply N1. right. exact C. }
    rewrite Z0. reflexivity.
  - assert (E : str_eqb x l = false) by (apply str_eqb_neq; intros C; subst; contradiction).
    rewrite E, IH by assumption. reflexivity.
Qed.

Definition nb (p : sami_p) : bool := negb (is_blank_text (sp_text p)).
Definition lang_count (default : str) (styles : sami_styles) (ls : list str) (ps : list sami_p) : nat :=
  fold_right (fun l n => (length (filter (fun p => str_eqb (tag_of default styles p) l && nb p) ps) + n)%nat) 0%nat ls.

Lemma lang_count_cons : forall default styles ls p t,
  lang_count default styles ls (p :: t)
  = ((if nb p then fold_right (fun l n => ((if str_eqb (tag_of default styles p) l then 1 else 0) + n)%nat) 0%nat ls else 0)
     + lang_count default styles ls t)%nat.
Proof.
  induction ls as [|l r IH]; intros p t; [destruct (nb p); reflexivity|].
  change (lang_count default styles (l :: r) (p :: t)) with
    ((length (filter (fun q => str_eqb (tag_of default styles q) l && nb q) (p :: t))
      + lang_count default styles r (p :: t))%nat).
  change (lang_count default styles (l :: r) t) with
    ((length (filter (fun q => str_eqb (tag_of default styles q) l && nb q) t) + lang_count default styles r t)%nat).
  rewrite IH. cbn [fold_right filter].
  destruct (nb p); destruct (str_eqb (tag_of default styles p) l); cbn [andb length]; lia.
Qed.

Lemma lang_count_total : forall default styles ls ps, NoDup ls ->
  (forall p, In p ps -> In (tag_of default styles p) ls) ->
  lang_count default styles ls ps = length (filter nb ps).
Proof.
  induction ps as [|p t IH]; intros N C.
  - unfold lang_count. clear N C. induction ls as [|l r IHl]; [reflexivity|]. cbn [fold_right filter length]. exact IHl.
  - rewrite lang_count_cons, IH by (auto; intros q Hq; apply C; right; exact Hq). cbn [filter].
    destruct (nb p); [|reflexivity]. rewrite (count_one _ ls N (C p (or_introl eq_refl))). reflexivity.
Qed.

Theorem sami_read_partition : forall default styles ps,
  fold_right (fun lc n => (length (snd lc) + n)%nat) 0%nat (sami_read default styles ps)
  = length (filter (fun p => negb (is_blank_text (sp_text p))) ps).
Proof.
  intros default styles ps.
  destruct (first_appearance_spec (map (tag_of default styles) ps)) as [N M].
  assert (E : fold_right (fun lc n => (length (snd lc) + n)%nat) 0%nat (sami_read default styles ps)
              = lang_count default styles (first_appearance (map (tag_of default styles) ps)) ps).
  { unfold sami_read, lang_count, tag_of. rewrite map_map. cbn [fst].
    generalize (first_appearance (map (fun p => p_lang default (sp_attrs p) styles) ps)) as ls.
    induction ls as [|l r IH]; [reflexivity|]. cbn [map fold_right snd].
    rewrite (filter_tagged default styles l ps), map_length. fold (tag_of default styles). unfold nb in *.
    f_equal. exact IH. }
  rewrite E. apply lang_count_total; [exact N|]. intros p Hp. apply M. apply in_map. exact Hp.
Qed.

(* ---- _find_lang: a class that declares no language (or is unknown) does not end the lookup ---------------------- *)
Theorem find_lang_class_falls_through : forall name value rest styles,
  str_eqb (lower name) (lit "lang") = false -> str_eqb (lower name) (lit "class") = true ->
  (dict_get (lower value) styles = None \/ dict_get (lower value) styles = Some None) ->
  find_lang ((name, value) :: rest) styles = find_lang rest styles.
Proof. intros name value rest styles H1 H2 [H3|H3]; cbn [find_lang]; rewrite H1, H2, H3; reflexivity. Qed.

Theorem find_lang_inline : forall name value rest styles,
  str_eqb (lower name) (lit "lang") = true -> find_lang ((name, value) :: rest) styles = Some (firstn 2 value).
Proof. intros name value rest styles H. cbn [find_lang]. rewrite H. reflexivity. Qed.

Theorem find_lang_class_with_lang : forall name value l rest styles,
  str_eqb (lower name) (lit "lang") = false -> str_eqb (lower name) (lit "class") = true ->
  dict_get (lower value) styles = Some (Some l) -> find_lang ((name, value) :: rest) styles = Some l.
Proof. intros name value l rest styles H1 H2 H3. cbn [find_lang]. rewrite H1, H2, H3. reflexivity. Qed.

(* ---- the models meet the oracles (wave 3) ------------------------------------------------------------------- *)
(* SAMI read: the model equals the specification's grouping of the tagged paragraphs, blank paragraphs counting for
   the order of languages only - for every document *)
Definition sami_tagged (default : str) (styles : sami_styles) (ps : list sami_p) : list (str * scue * bool) :=
  map (fun p => (tag_of default styles p, (sp_start p * 1000, sp_text p), is_blank_text (sp_text p))) ps.

Theorem sami_read_groups : forall default styles ps,
  sami_read default styles ps
  = spec_group (map (fun t : str * scue * bool => (fst (fst t), if snd t then @nil scue else [snd (fst t)]))
                    (sami_tagged default styles ps)).
Proof.
  intros default styles ps. unfold sami_read, spec_group, sami_tagged. rewrite !map_map. cbn [fst snd].
  rewrite first_appearance_uniq. unfold tag_of. apply map_ext. intros l. f_equal.
  induction ps as [|p t IH]; [reflexivity|]. cbn [map filter fst snd].
  destruct (str_eqb (p_lang default (sp_attrs p) styles) l); cbn [andb flat_map snd]; [|exact IH].
  destruct (is_blank_text (sp_text p)); cbn [negb map app]; rewrite IH; reflexivity.
Qed.

Theorem sami_read_meets_oracle : forall default styles ps,
  ok_sami_read (sami_tagged default styles ps) (sami_read default styles ps) = true.
Proof. intros. unfold ok_sami_read. rewrite sami_read_groups. apply sset_eqb_refl. Qed.

(* DFXP write: the divs written, as (language, cues) *)
Definition doc_sset (d : dfxp_doc) : sset :=
  map (fun dv => (match fst dv with Some l => l | None => [] end, snd dv)) (d_divs d).

Lemma subseq_refl : forall cs, subseq cs cs = true.
Proof. induction cs as [|c t IH]; [reflexivity|]. cbn [subseq]. rewrite lang_eqb_refl. exact IH. Qed.
Lemma subseq_nil : forall cs, subseq [] cs = true.
Proof. destruct cs; reflexivity. Qed.
Lemma subseq_single : forall cs l c, NoDup (languages cs) -> In (l, c) cs -> subseq [(l, c)] cs = true.
Proof.
  induction cs as [|x t IH]; intros l c N H; [destruct H|]. cbn [subseq]. destruct (lang_eqb (l, c) x) eqn:E; [apply subseq_nil|].
  destruct H as [H|H]; [subst; rewrite lang_eqb_refl in E; discriminate|].
  inversion N; subst. apply IH; assumption.
Qed.
Lemma get_in : forall cs l, NoDup (languages cs) -> mem l (languages cs) = true -> In (l, get_captions cs l) cs.
Proof.
  intros cs l N H. apply mem_In in H. unfold languages in H. apply in_map_iff in H. destruct H as [[k c] [E H]].
  cbn [fst] in E. subst k. rewrite (get_captions_nodup cs l c N H). exact H.
Qed.
Lemma doc_sset_all : forall cs tt, NoDup (languages cs) ->
  doc_sset (mkDfxp tt (map (fun l => (Some l, get_captions cs l)) (languages cs))) = cs.
Proof. intros cs tt N. unfold doc_sset. cbn [d_divs]. rewrite map_map. cbn [fst snd]. apply map_get_all. exact N. Qed.

Theorem dfxp_write_meets_oracle : forall force cs, NoDup (languages cs) ->
  ok_dfxp_write force cs (doc_sset (dfxp_write force cs)) = true.
Proof.
  intros force cs N. unfold ok_dfxp_write.
  change (smem force (map fst cs)) with (mem force (languages cs)).
  destruct (mem force (languages cs)) eqn:M.
  - destruct (force_selects force cs M) as [E _]. rewrite E. unfold doc_sset. cbn [d_divs map fst snd].
    apply andb_true_intro. split; [apply (subseq_single cs force _ N (get_in cs force N M))|apply str_eqb_refl'].
  - unfold dfxp_write. rewrite M, (doc_sset_all cs _ N), subseq_refl. destruct force; [apply sset_eqb_refl|reflexivity].
Qed.

(* legacy writer: `if force:` - an empty force writes every language; an absent one the last language *)
Theorem legacy_write_meets_oracle : forall force cs d, NoDup (languages cs) -> mem [] (languages cs) = false ->
  legacy_write force cs = Ok d -> ok_dfxp_write force cs (doc_sset d) = true.
Proof.
  intros force cs d N E0 H. unfold legacy_write in H. unfold ok_dfxp_write.
  change (smem force (map fst cs)) with (mem force (languages cs)).
  destruct force as [|c0 f].
  - cbn [bind] in H. inversion H; subst d. rewrite (doc_sset_all cs _ N), subseq_refl, E0.
    apply sset_eqb_refl.
  - destruct (mem (c0 :: f) (languages cs)) eqn:M.
    + cbn [bind] in H. inversion H; subst d. unfold doc_sset. cbn [d_divs map fst snd].
      apply andb_true_intro. split; [apply (subseq_single cs (c0 :: f) _ N (get_in cs (c0 :: f) N M))|apply str_eqb_refl'].
    + destruct (rev (languages cs)) as [|l r] eqn:R; [discriminate|]. cbn [bind] in H. inversion H; subst d.
      unfold doc_sset. cbn [d_divs map fst snd]. rewrite andb_true_r.
      apply subseq_single; [exact N|]. apply get_in; [exact N|]. apply mem_In. apply in_rev. rewrite R. left. reflexivity.
Qed.

(* language pick (WebVTT lang=) *)
Theorem vtt_select_meets_oracle : forall lang cs obs, NoDup (languages cs) -> vtt_select lang cs = Ok obs ->
  ok_pick lang cs obs = true.
Proof.
  intros lang cs obs N H. unfold vtt_select in H. unfold ok_pick. destruct lang as [l|].
  - inversion H; subst obs. clear H. unfold get_captions.
    induction cs as [|[k c] t IH]; [reflexivity|]. cbn [filter fst dict_get]. inversion N; subst.
    destruct (str_eqb k l) eqn:E.
    + cbn [snd]. apply list_eqb_refl. apply cue_eqb_refl.
    + apply IH. assumption.
  - destruct cs as [|[l c] t]; [discriminate|]. inversion H; subst obs. unfold get_captions. cbn [dict_get snd].
    rewrite str_eqb_refl'. apply list_eqb_refl. apply cue_eqb_refl.
Qed.

(* ---- the class layer of the SAMI writer: the class written on a paragraph resolves to its language ------------- *)
Lemma dict_get_app : forall (V : Type) c (a b : list (str * V)),
  dict_get c (a ++ b) = match dict_get c a with Some v => Some v | None => dict_get c b end.
Proof. induction a as [|[k v] t IH]; intros b; [reflexivity|]. cbn [app dict_get]. destruct (str_eqb k c); [reflexivity|apply IH]. Qed.

Lemma dict_get_notin : forall (V : Type) c (d : list (str * V)), ~ In c (map fst d) -> dict_get c d = None.
Proof.
  induction d as [|[k v] t IH]; intros H; [reflexivity|]. cbn [dict_get]. destruct (str_eqb k c) eqn:E.
  - apply str_eqb_eq in E. subst. exfalso. apply H. left. reflexivity.
  - apply IH. intros C. apply H. right. exact C.
Qed.
Lemma dict_get_rev : forall (V : Type) c (d : list (str * V)), NoDup (map fst d) -> dict_get c (rev d) = dict_get c d.
Proof.
  induction d as [|[k v] t IH]; intros N; [reflexivity|]. inversion N; subst. cbn [rev dict_get]. rewrite dict_get_app, IH by assumption.
  destruct (str_eqb k c) eqn:E.
  - apply str_eqb_eq in E. subst. rewrite (dict_get_notin _ c t H1). cbn [dict_get]. rewrite str_eqb_refl'. reflexivity.
  - destruct (dict_get c t); [reflexivity|]. cbn [dict_get]. rewrite E. reflexivity.
Qed.

Definition style_blocks (styles : list (str * option str)) : list (str * str) :=
  flat_map (fun cl => match snd cl with Some l => [(fst cl, l)] | None => [] end) styles.
Definition lang_blocks (styles : list (str * option str)) (langs : list str) : list (str * str) :=
  flat_map (fun l => match dict_get l styles with
                     | Some (Some l') => if str_eqb l' l then [] else [(l, l)]
                     | _ => [(l, l)]
                     end) langs.

Lemma style_blocks_keys : forall styles c, In c (map fst (style_blocks styles)) -> In c (map fst styles).
Proof.
  induction styles as [|[k [l|]] t IH]; intros c H; cbn [style_blocks flat_map fst snd app map] in *; [destruct H| |right; apply IH; exact H].
  destruct H as [<-|H]; [left; reflexivity|right; apply IH; exact H].
Qed.
Lemma style_blocks_nodup : forall styles, NoDup (map fst styles) -> NoDup (map fst (style_blocks styles)).
Proof.
  induction styles as [|[k [l|]] t IH]; intros N; [constructor| |]; inversion N; subst; cbn [style_blocks flat_map fst snd app map].
  - constructor; [intros C; apply H1; apply style_blocks_keys; exact C|apply IH; assumption].
  - apply IH; assumption.
Qed.
Lemma style_blocks_get : forall styles c, NoDup (map fst styles) ->
  dict_get c (style_blocks styles) = match dict_get c styles with Some (Some l) => Some l | _ => None end.
Proof.
  induction styles as [|[k [l|]] t IH]; intros c N; [reflexivity| |]; inversion N; subst;
    cbn [style_blocks flat_map fst snd app dict_get]; fold (style_blocks t).
  - destruct (str_eqb k c); [reflexivity|apply IH; assumption].
  - destruct (str_eqb k c) eqn:E; [|apply IH; assumption].
    apply str_eqb_eq in E. subst. apply dict_get_notin. intros C. apply H1. apply style_blocks_keys. exact C.
Qed.

Lemma lang_blocks_keys : forall styles langs c, In c (map fst (lang_blocks styles langs)) -> In c langs.
Proof.
  induction langs as [|l t IH]; intros c H; [destruct H|]. cbn [lang_blocks flat_map] in H. rewrite map_app, in_app_iff in H.
  destruct H as [H|H]; [|right; apply IH; exact H].
  destruct (dict_get l styles) as [[l'|]|]; [destruct (str_eqb l' l); [destruct H|]| |]; destruct H as [<-|[]]; left; reflexivity.
Qed.
Lemma lang_blocks_nodup : forall styles langs, NoDup langs -> NoDup (map fst (lang_blocks styles langs)).
Proof.
  induction langs as [|l t IH]; intros N; [constructor|]. inversion N; subst. cbn [lang_blocks flat_map]. rewrite map_app.
  assert (T : NoDup (map fst (lang_blocks styles t))) by (apply IH; assumption).
  destruct (dict_get l styles) as [[l'|]|]; [destruct (str_eqb l' l); [exact T|]| |]; cbn [map fst app];
    (constructor; [intros C; apply H1; eapply lang_blocks_keys; exact C|exact T]).
Qed.
Lemma lang_blocks_get : forall styles langs c, In c langs ->
  dict_get c (lang_blocks styles langs)
  = match dict_get c styles with Some (Some l') => if str_eqb l' c then None else Some c | _ => Some c end.
Proof. intros. revert H. induction langs as [|l t IH]; intros H; [destruct H|].
  change (lang_blocks styles (l :: t)) with ((match dict_get l styles with
    | Some (Some l') => if str_eqb l' l then [] else [(l, l)] | _ => [(l, l)] end) ++ lang_blocks styles t).
  rewrite dict_get_app.
  destruct (str_eqb l c) eqn:E.
  - apply str_eqb_eq in E. subst l.
    destruct (dict_get c styles) as [[l'|]|] eqn:D; [destruct (str_eqb l' c) eqn:E2| |]; cbn [dict_get]; rewrite ?str_eqb_refl'; try reflexivity.
    (* the language's own block is not written (a style of that name declares it): later languages do not write it either *)
    destruct (in_dec (list_eq_dec Z.eq_dec) c t) as [I|NI].
    + rewrite (IH I). reflexivity.
    + apply dict_get_notin. intros C. apply NI. eapply lang_blocks_keys. exact C.
  - assert (Hc : In c t) by (destruct H as [H|H]; [subst; rewrite str_eqb_refl' in E; discriminate|exact H]).
    assert (N1 : dict_get c (match dict_get l styles with
                             | Some (Some l') => if str_eqb l' l then [] else [(l, l)]
                             | _ => [(l, l)] end) = None).
    { destruct (dict_get l styles) as [[l'|]|]; [destruct (str_eqb l' l)| |]; cbn [dict_get]; rewrite ?E; reflexivity. }
    rewrite N1. apply IH. exact Hc.
Qed.

(* for every language l of the set: whatever class the caption carries, the class the (repaired) writer puts on the
   paragraph resolves - through the stylesheet it writes, later blocks winning - to l.  Hypothesis: a style named like a
   language of the set does not declare a DIFFERENT language (otherwise two blocks of one class name contradict) *)
Theorem class_resolves : forall styles langs l cap_class,
  NoDup (map fst styles) -> NoDup langs -> In l langs ->
  (forall l0 l', In l0 langs -> dict_get l0 styles = Some (Some l') -> l' = l0) ->
  resolve_class (p_class l cap_class styles) (sheet_langs styles langs) = Some l.
Proof.
  intros styles langs l cap_class Ns Nl Hl Hc.
  assert (Res : forall c, resolve_class c (sheet_langs styles langs)
                = match dict_get c (lang_blocks styles langs) with
                  | Some v => Some v
                  | None => match dict_get c styles with Some (Some l0) => Some l0 | _ => None end
                  end).
  { intros c. unfold resolve_class, sheet_langs. fold (style_blocks styles). fold (lang_blocks styles langs).
    rewrite rev_app_distr, dict_get_app, !dict_get_rev by (apply lang_blocks_nodup || apply style_blocks_nodup; assumption).
    rewrite style_blocks_get by exact Ns. reflexivity. }
  assert (Own : resolve_class l (sheet_langs styles langs) = Some l).
  { rewrite Res. pose proof (lang_blocks_get styles langs l Hl) as E. rewrite E.
    destruct (dict_get l styles) as [[l'|]|] eqn:D; try reflexivity.
    destruct (str_eqb l' l) eqn:E2; [|reflexivity]. apply str_eqb_eq in E2. subst. reflexivity. }
  unfold p_class. destruct cap_class as [c|]; [|exact Own].
  destruct (dict_get c styles) as [[l0|]|] eqn:D; try exact Own.
  destruct (str_eqb l0 l) eqn:E; [|exact Own]. apply str_eqb_eq in E. subst l0.
  rewrite Res, D.
  destruct (in_dec (list_eq_dec Z.eq_dec) c langs) as [I|NI].
  - pose proof (Hc c l I D). subst c. pose proof (lang_blocks_get styles langs l Hl) as E. rewrite E, D, str_eqb_refl'. reflexivity.
  - rewrite dict_get_notin; [reflexivity|]. intros C. apply NI. eapply lang_blocks_keys. exact C.
Qed.
