(* C14: facts about the language model (model/Langs.v). *)
From Coq Require Import List ZArith Lia Bool ZifyBool Arith.
From PV Require Import lib.Sx lib.Str lib.Result model.Langs spec.SpecLangs.
Import ListNotations.
Open Scope Z_scope.

(* ---- strings and dicts ---------------------------------------------------------------------------------- *)
Lemma str_eqb_eq : forall a b, str_eqb a b = true <-> a = b.
Proof.
  induction a as [|x a IH]; intros [|y b]; simpl; split; intros H; try discriminate; try reflexivity.
  - apply andb_prop in H. destruct H as [H1 H2]. apply IH in H2. f_equal; [lia|exact H2].
  - inversion H; subst. rewrite Z.eqb_refl. apply IH. reflexivity.
Qed.
Lemma str_eqb_refl' : forall a, str_eqb a a = true.
Proof. intros. apply str_eqb_eq. reflexivity. Qed.
Lemma str_eqb_neq : forall a b, str_eqb a b = false <-> a <> b.
Proof.
  intros a b. split; intros H.
  - intros E. apply str_eqb_eq in E. congruence.
  - destruct (str_eqb a b) eqn:Q; [apply str_eqb_eq in Q; contradiction|reflexivity].
Qed.
Lemma mem_In : forall l ls, mem l ls = true <-> In l ls.
Proof.
  intros l ls. unfold mem. rewrite existsb_exists. split.
  - intros [x [H1 H2]]. apply str_eqb_eq in H2. subst. exact H1.
  - intros H. exists l. split; [exact H|apply str_eqb_refl'].
Qed.
Lemma mem_false : forall l ls, mem l ls = false <-> ~ In l ls.
Proof.
  intros. split; intros H.
  - intros C. apply mem_In in C. congruence.
  - destruct (mem l ls) eqn:Q; [apply mem_In in Q; contradiction|reflexivity].
Qed.

Lemma dict_set_keys : forall (V : Type) k (v : V) d,
  map fst (dict_set k v d) = if mem k (map fst d) then map fst d else map fst d ++ [k].
Proof.
  induction d as [|[k' v'] t IH]; [reflexivity|]. cbn [dict_set map fst mem existsb].
  destruct (str_eqb k' k) eqn:E.
  - apply str_eqb_eq in E. subst. rewrite str_eqb_refl'. reflexivity.
  - assert (E' : str_eqb k k' = false) by (apply str_eqb_neq; apply str_eqb_neq in E; congruence).
    rewrite E'. cbn [orb map fst]. rewrite IH. unfold mem. destruct (existsb (str_eqb k) (map fst t)); reflexivity.
Qed.
Lemma dict_set_fresh : forall (V : Type) k (v : V) d, mem k (map fst d) = false -> dict_set k v d = d ++ [(k, v)].
Proof.
  induction d as [|[k' v'] t IH]; intros H; [reflexivity|]. cbn [map fst mem existsb] in H.
  apply orb_false_elim in H. destruct H as [H1 H2]. cbn [dict_set].
  assert (E : str_eqb k' k = false) by (apply str_eqb_neq; apply str_eqb_neq in H1; congruence).
  rewrite E. cbn [app]. f_equal. apply IH. exact H2.
Qed.
Lemma dict_get_nodup : forall (V : Type) (d : list (str * V)) k v,
  NoDup (map fst d) -> In (k, v) d -> dict_get k d = Some v.
Proof.
  induction d as [|[k' v'] t IH]; intros k v N H; [destruct H|]. cbn [dict_get].
  inversion N as [|? ? N1 N2]; subst. destruct H as [H|H].
  - inversion H; subst. rewrite str_eqb_refl'. reflexivity.
  - destruct (str_eqb k' k) eqn:E.
    + apply str_eqb_eq in E. subst. exfalso. apply N1. apply in_map_iff. exists (k, v). split; [reflexivity|exact H].
    + apply IH; assumption.
Qed.

(* ---- DFXP read ------------------------------------------------------------------------------------------- *)
Theorem dfxp_lang_of_div : forall own tt default,
  div_lang own tt default = match own with Some l => l | None => match tt with Some l => l | None => default end end
  /\ div_lang own tt default = effective_lang own tt default.
Proof. intros [o|] [t|] d; split; reflexivity. Qed.

Definition effs (default : str) (doc : dfxp_doc) : list str :=
  map (fun dv => div_lang (fst dv) (d_tt doc) default) (d_divs doc).

Lemma NoDup_snoc : forall (l : str) acc, NoDup acc -> ~ In l acc -> NoDup (acc ++ [l]).
Proof.
  induction acc as [|a t IH]; intros N H; simpl.
  - constructor; [intros []|constructor].
  - inversion N; subst. constructor.
    + rewrite in_app_iff. simpl. intros [C|[C|[]]]; [contradiction|]. subst. apply H. left. reflexivity.
    + apply IH; [assumption|]. intros C. apply H. right. exact C.
Qed.

Definition fa_step (acc : list str) (l : str) : list str := if mem l acc then acc else acc ++ [l].

Lemma first_appearance_unfold : forall ls, first_appearance ls = fold_left fa_step ls [].
Proof. reflexivity. Qed.

Lemma dfxp_read_keys : forall default tt (divs : list (option str * list cue)) (d : capset),
  map fst (fold_left (fun d dv => dict_set (div_lang (fst dv) tt default) (snd dv) d) divs d)
  = fold_left fa_step (map (fun dv => div_lang (fst dv) tt default) divs) (map fst d).
Proof.
  induction divs as [|dv t IH]; intros d; [reflexivity|]. cbn [fold_left map]. rewrite IH, dict_set_keys. reflexivity.
Qed.

(* languages are listed in order of first appearance - every document, duplicated languages included *)
Theorem dfxp_read_order : forall default doc,
  languages (dfxp_read default doc) = first_appearance (effs default doc).
Proof. intros. unfold languages, dfxp_read, effs. rewrite dfxp_read_keys. reflexivity. Qed.

Lemma fa_fold_spec : forall ls acc, NoDup acc ->
  NoDup (fold_left fa_step ls acc) /\ (forall x, In x (fold_left fa_step ls acc) <-> In x acc \/ In x ls).
Proof.
  induction ls as [|l t IH]; intros acc N; cbn [fold_left].
  - split; [exact N|]. intros x. simpl. tauto.
  - unfold fa_step at 2. unfold fa_step at 3. destruct (mem l acc) eqn:M.
    + destruct (IH acc N) as [A B]. split; [exact A|]. intros x. rewrite B. simpl.
      apply mem_In in M. split; [tauto|]. intros [H|[H|H]]; subst; auto.
    + assert (N' : NoDup (acc ++ [l])).
      { apply mem_false in M. apply NoDup_snoc; assumption. }
      destruct (IH _ N') as [A B]. split; [exact A|]. intros x. rewrite B, in_app_iff. simpl. tauto.
Qed.

Theorem first_appearance_spec : forall ls,
  NoDup (first_appearance ls) /\ (forall x, In x (first_appearance ls) <-> In x ls).
Proof.
  intros ls. destruct (fa_fold_spec ls [] (NoDup_nil _)) as [A B]. split; [exact A|].
  intros x. rewrite first_appearance_unfold, B. simpl. tauto.
Qed.

Lemma dfxp_read_distinct_gen : forall default tt (divs : list (option str * list cue)) (d : capset),
  NoDup (map fst d ++ map (fun dv => div_lang (fst dv) tt default) divs) ->
  fold_left (fun d dv => dict_set (div_lang (fst dv) tt default) (snd dv) d) divs d
  = d ++ map (fun dv => (div_lang (fst dv) tt default, snd dv)) divs.
Proof.
  induction divs as [|dv t IH]; intros d N; cbn [fold_left map]; [rewrite app_nil_r; reflexivity|].
  cbn [map] in N. pose proof (NoDup_remove_2 _ _ _ N) as F.
  assert (M : mem (div_lang (fst dv) tt default) (map fst d) = false).
  { apply mem_false. intros C. apply F. apply in_app_iff. left. exact C. }
  rewrite dict_set_fresh by exact M. rewrite IH.
  - rewrite <- app_assoc. reflexivity.
  - rewrite map_app. cbn [map fst]. rewrite <- app_assoc. exact N.
Qed.

(* with distinct effective languages: one language per div, in document order, each with exactly its div's cues *)
Theorem dfxp_read_distinct : forall default doc, NoDup (effs default doc) ->
  dfxp_read default doc = map (fun dv => (div_lang (fst dv) (d_tt doc) default, snd dv)) (d_divs doc).
Proof. intros default doc N. unfold dfxp_read. rewrite dfxp_read_distinct_gen; [reflexivity|exact N]. Qed.

(* the model meets the property oracle on its whole domain *)
Lemma list_eqb_refl : forall (A : Type) (e : A -> A -> bool) l, (forall x, e x x = true) -> list_eqb e l l = true.
Proof. induction l; intros H; simpl; auto. rewrite H. auto. Qed.
Lemma cue_eqb_refl : forall c, cue_eqb c c = true.
Proof. intros [s t]. unfold cue_eqb. cbn [fst snd]. rewrite Z.eqb_refl, str_eqb_refl'. reflexivity. Qed.
Lemma lang_eqb_refl : forall c, lang_eqb c c = true.
Proof. intros [l cs]. unfold lang_eqb. cbn [fst snd]. rewrite str_eqb_refl', list_eqb_refl by apply cue_eqb_refl. reflexivity. Qed.

Lemma nodupb_NoDup : forall ls, nodupb ls = true -> NoDup ls.
Proof.
  induction ls as [|l t IH]; intros H; [constructor|]. simpl in H. apply andb_prop in H. destruct H as [H1 H2].
  constructor; [|apply IH; exact H2]. intros C. apply mem_In in C. unfold mem in C. unfold smem in H1. rewrite C in H1. discriminate.
Qed.

Theorem dfxp_read_meets_oracle : forall default tt divs,
  dom_dfxp_read default tt divs = true ->
  ok_dfxp_read default tt divs (dfxp_read default (mkDfxp tt divs)) = true.
Proof.
  intros default tt divs D. unfold dom_dfxp_read in D. apply nodupb_NoDup in D.
  rewrite dfxp_read_distinct.
  - unfold ok_dfxp_read. cbn [d_tt d_divs]. apply list_eqb_refl. apply lang_eqb_refl.
  - unfold effs. cbn [d_tt d_divs].
    erewrite map_ext; [exact D|]. intros [o c]. cbn [fst]. destruct (dfxp_lang_of_div o tt default) as [_ E]. exact E.
Qed.

(* ---- DFXP write ------------------------------------------------------------------------------------------ *)
Lemma get_captions_nodup : forall cs l c, NoDup (languages cs) -> In (l, c) cs -> get_captions cs l = c.
Proof. intros cs l c N H. unfold get_captions. rewrite (dict_get_nodup _ cs l c N H). reflexivity. Qed.

Lemma map_get_all : forall cs, NoDup (languages cs) ->
  map (fun l => (l, get_captions cs l)) (languages cs) = cs.
Proof.
  intros cs N. unfold languages. rewrite map_map. rewrite <- (map_id cs) at 2. apply map_ext_in.
  intros [l c] H. cbn [fst]. f_equal. apply get_captions_nodup; assumption.
Qed.

Theorem dfxp_write_order : forall force cs, mem force (languages cs) = false ->
  d_divs (dfxp_write force cs) = map (fun l => (Some l, get_captions cs l)) (languages cs).
Proof. intros force cs H. unfold dfxp_write. rewrite H. reflexivity. Qed.

Theorem force_selects : forall force cs, mem force (languages cs) = true ->
  dfxp_write force cs = mkDfxp (Some force) [(Some force, get_captions cs force)]
  /\ (force <> [] ->
      legacy_write force cs = Ok (mkDfxp (Some dfxp_default_language) [(Some force, get_captions cs force)])).
Proof.
  intros force cs H. unfold dfxp_write, legacy_write. rewrite H. split; [reflexivity|].
  intros N. destruct force as [|c f]; [congruence|reflexivity].
Qed.

(* writing and reading back: the same languages in the same order with the same cue lists *)
Theorem dfxp_roundtrip_langs : forall default cs, NoDup (languages cs) -> mem [] (languages cs) = false ->
  dfxp_read default (dfxp_write [] cs) = cs.
Proof.
  intros default cs N H. rewrite dfxp_read_distinct.
  - unfold dfxp_write. rewrite H. cbn [d_divs d_tt]. rewrite map_map. cbn [fst snd div_lang].
    apply map_get_all. exact N.
  - unfold effs, dfxp_write. rewrite H. cbn [d_divs d_tt]. rewrite map_map. cbn [fst div_lang]. rewrite map_id. exact N.
Qed.
Theorem dfxp_roundtrip_force : forall default force cs, mem force (languages cs) = true ->
  dfxp_read default (dfxp_write force cs) = [(force, get_captions cs force)].
Proof. intros default force cs H. destruct (force_selects force cs H) as [E _]. rewrite E. reflexivity. Qed.

(* ---- WebVTT lang= --------------------------------------------------------------------------------------- *)
Theorem vtt_lang_option : forall l cs c, NoDup (languages cs) -> In (l, c) cs -> vtt_select (Some l) cs = Ok c.
Proof. intros l cs c N H. unfold vtt_select. rewrite (get_captions_nodup cs l c N H). reflexivity. Qed.
Theorem vtt_lang_default : forall l c cs, vtt_select None ((l, c) :: cs) = Ok c.
Proof. intros. unfold vtt_select, get_captions. cbn [dict_get]. rewrite str_eqb_refl'. reflexivity. Qed.

(* ---- SAMI read ---------------------------------------------------------------------------------------------- *)
Definition tag_of (default : str) (styles : sami_styles) (p : sami_p) : str := p_lang default (sp_attrs p) styles.

Theorem sami_read_order : forall default styles ps,
  languages (sami_read default styles ps) = first_appearance (map (tag_of default styles) ps)
  /\ NoDup (languages (sami_read default styles ps)).
Proof.
  intros.
  assert (E : languages (sami_read default styles ps) = first_appearance (map (tag_of default styles) ps)).
  { unfold languages, sami_read, tag_of. rewrite map_map. cbn [fst]. rewrite map_id, map_map. reflexivity. }
  split; [exact E|]. rewrite E. apply first_appearance_spec.
Qed.

Lemma filter_tagged : forall default styles l ps,
  map (fun lp : str * sami_p => (sp_start (snd lp) * 1000, sp_text (snd lp)))
      (filter (fun lp => str_eqb (fst lp) l && negb (is_blank_text (sp_text (snd lp))))
              (map (fun p => (p_lang default (sp_attrs p) styles, p)) ps))
  = map (fun p => (sp_start p * 1000, sp_text p))
        (filter (fun p => str_eqb (tag_of default styles p) l && negb (is_blank_text (sp_text p))) ps).
Proof.
  induction ps as [|p t IH]; [reflexivity|]. cbn [map filter fst snd]. fold (tag_of default styles p).
  destruct (str_eqb (tag_of default styles p) l && negb (is_blank_text (sp_text p))); cbn [map snd]; rewrite IH; reflexivity.
Qed.

(* the cue list of a language is exactly the non-blank paragraphs resolved to that language, in document order *)
Theorem sami_read_lists : forall default styles ps l,
  In l (languages (sami_read default styles ps)) ->
  get_captions (sami_read default styles ps) l
  = map (fun p => (sp_start p * 1000, sp_text p))
        (filter (fun p => str_eqb (tag_of default styles p) l && negb (is_blank_text (sp_text p))) ps).
Proof.
  intros default styles ps l H. destruct (sami_read_order default styles ps) as [E N].
  assert (I : In (l, map (fun p => (sp_start p * 1000, sp_text p))
                       (filter (fun p => str_eqb (tag_of default styles p) l && negb (is_blank_text (sp_text p))) ps))
                 (sami_read default styles ps)).
  { unfold sami_read. apply in_map_iff. exists l. split.
    - f_equal. apply filter_tagged.
    - rewrite E in H. rewrite map_map. exact H. }
  apply get_captions_nodup; assumption.
Qed.

(* partition: summed over the languages listed, every non-blank paragraph is counted exactly once *)
Lemma count_one : forall (x : str) ls, NoDup ls -> In x ls ->
  fold_right (fun l n => ((if str_eqb x l then 1 else 0) + n)%nat) 0%nat ls = 1%nat.
Proof.
  induction ls as [|l t IH]; intros N H; [destruct H|]. inversion N as [|? ? N1 N2]; subst. cbn [fold_right].
  destruct H as [H|H].
  - subst. rewrite str_eqb_refl'.
    assert (Z0 : fold_right (fun l n => ((if str_eqb x l then 1 else 0) + n)%nat) 0%nat t = 0%nat).
    { clear IH N N2. induction t as [|y t IH]; [reflexivity|]. cbn [fold_right].
      assert (E : str_eqb x y = false) by (apply str_eqb_neq; intros C; subst; apply N1; left; reflexivity).
      rewrite E, IH; [reflexivity|]. intros C. apply N1. right. exact C. }
    rewrite Z0. reflexivity.
  - assert (E : str_eqb x l = false) by (apply str_eqb_neq; intros C; subst; contradiction).
    rewrite E, IH by assumption. reflexivity.
Qed.

Definition nb (p : sami_p) : bool := negb (is_blank_text (sp_text p)).
Definition lang_count (default : str) (styles : sami_styles) (ls : list str) (ps : list sami_p) : nat :=
  fold_right (fun l n => (length (filter (fun p => str_eqb (tag_of default styles p) l && nb p) ps) + n)%nat) 0%nat ls.

Lemma lang_count_cons : forall default styles ls p t,
  lang_count default styles ls (p :: t)
  = ((if nb p then fold_right (fun l n => ((if str_eqb (tag_of default styles p) l then 1 else 0) + n)%nat) 0%nat ls else 0)
     + lang_count default styles ls t)%nat.
Proof.
  induction ls as [|l r IH]; intros p t; [destruct (nb p); reflexivity|].
  change (lang_count default styles (l :: r) (p :: t)) with
    ((length (filter (fun q => str_eqb (tag_of default styles q) l && nb q) (p :: t))
      + lang_count default styles r (p :: t))%nat).
  change (lang_count default styles (l :: r) t) with
    ((length (filter (fun q => str_eqb (tag_of default styles q) l && nb q) t) + lang_count default styles r t)%nat).
  rewrite IH. cbn [fold_right filter].
  destruct (nb p); destruct (str_eqb (tag_of default styles p) l); cbn [andb length]; lia.
Qed.

Lemma lang_count_total : forall default styles ls ps, NoDup ls ->
  (forall p, In p ps -> In (tag_of default styles p) ls) ->
  lang_count default styles ls ps = length (filter nb ps).
Proof.
  induction ps as [|p t IH]; intros N C.
  - unfold lang_count. clear N C. induction ls as [|l r IHl]; [reflexivity|]. cbn [fold_right filter length]. exact IHl.
  - rewrite lang_count_cons, IH by (auto; intros q Hq; apply C; right; exact Hq). cbn [filter].
    destruct (nb p); [|reflexivity]. rewrite (count_one _ ls N (C p (or_introl eq_refl))). reflexivity.
Qed.

Theorem sami_read_partition : forall default styles ps,
  fold_right (fun lc n => (length (snd lc) + n)%nat) 0%nat (sami_read default styles ps)
  = length (filter (fun p => negb (is_blank_text (sp_text p))) ps).
Proof.
  intros default styles ps.
  destruct (first_appearance_spec (map (tag_of default styles) ps)) as [N M].
  assert (E : fold_right (fun lc n => (length (snd lc) + n)%nat) 0%nat (sami_read default styles ps)
              = lang_count default styles (first_appearance (map (tag_of default styles) ps)) ps).
  { unfold sami_read, lang_count, tag_of. rewrite map_map. cbn [fst].
    generalize (first_appearance (map (fun p => p_lang default (sp_attrs p) styles) ps)) as ls.
    induction ls as [|l r IH]; [reflexivity|]. cbn [map fold_right snd].
    rewrite (filter_tagged default styles l ps), map_length. fold (tag_of default styles). unfold nb in *.
    f_equal. exact IH. }
  rewrite E. apply lang_count_total; [exact N|]. intros p Hp. apply M. apply in_map. exact Hp.
Qed.

(* the model meets the oracle *)
Theorem sami_prefix_selection_refuted :
  exists default styles ps l1 l2 c,
    l1 <> l2 /\ In c (get_captions (sami_read_prefix default styles ps) l1)
             /\ In c (get_captions (sami_read_prefix default styles ps) l2)
             /\ ~ In c (get_captions (sami_read default styles ps) l1).
Proof.
  exists (lit "und"), [(lit "encc", Some (lit "en")); (lit "uscc", Some (lit "en-US"))],
         [mkP [(lit "class", lit "ENCC")] 1000 (lit "short"); mkP [(lit "class", lit "USCC")] 1000 (lit "long")],
         (lit "en"), (lit "en-US"), (1000000, lit "long").
  split; [discriminate|]. split; [vm_compute; auto|]. split; [vm_compute; auto|].
  vm_compute. intros [H|[]]. discriminate.
Qed.

(* ---- _find_lang: a class that declares no language (or is unknown) does not end the lookup ---------------------- *)
Theorem find_lang_class_falls_through : forall name value rest styles,
  str_eqb (lower name) (lit "lang") = false -> str_eqb (lower name) (lit "class") = true ->
  (dict_get (lower value) styles = None \/ dict_get (lower value) styles = Some None) ->
  find_lang ((name, value) :: rest) styles = find_lang rest styles.
Proof. intros name value rest styles H1 H2 [H3|H3]; cbn [find_lang]; rewrite H1, H2, H3; reflexivity. Qed.

Theorem find_lang_inline : forall name value rest styles,
  str_eqb (lower name) (lit "lang") = true -> find_lang ((name, value) :: rest) styles = Some (firstn 2 value).
Proof. intros name value rest styles H. cbn [find_lang]. rewrite H. reflexivity. Qed.

Theorem find_lang_class_with_lang : forall name value l rest styles,
  str_eqb (lower name) (lit "lang") = false -> str_eqb (lower name) (lit "class") = true ->
  dict_get (lower value) styles = Some (Some l) -> find_lang ((name, value) :: rest) styles = Some l.
Proof. intros name value l rest styles H1 H2 H3. cbn [find_lang]. rewrite H1, H2, H3. reflexivity. Qed.
