(* Facts about the GENERATED SCC tables (model/GenScc.v) against the independent CEA-608 transcription
   (spec/Spec608.v).  Every theorem quantifies over a finite, explicit domain and is proved by evaluating a
   check over the COMPLETE current tables with vm_compute; no table content is quoted here. *)
From Coq Require Import List ZArith QArith Lia Bool ZifyBool.
From PV Require Import lib.Sx lib.Str lib.Result model.GenScc model.SccStash model.SccDecoder model.SccLayout spec.Spec608.
Import ListNotations.
Open Scope Z_scope.

(* ================= generic lifting lemmas ===================================================== *)

(* two functions that agree as maps over a list agree on every member *)
Lemma map_eq_pointwise {A B} (f g : A -> B) (l : list A) :
  map f l = map g l -> forall x, In x l -> f x = g x.
Proof.
  induction l as [|a t IH]; intros H x Hx; [destruct Hx|].
  cbn [map] in H. injection H as H1 H2. destruct Hx as [->|Hx]; [exact H1|exact (IH H2 x Hx)].
Qed.

Lemma map_eq_pointwise2 {A B C} (f g : A -> B -> C) (l1 : list A) (l2 : list B) :
  map (fun a => map (f a) l2) l1 = map (fun a => map (g a) l2) l1 ->
  forall a b, In a l1 -> In b l2 -> f a b = g a b.
Proof.
  intros H a b Ha Hb.
  pose proof (map_eq_pointwise (fun a => map (f a) l2) (fun a => map (g a) l2) l1 H a Ha) as H1.
  exact (map_eq_pointwise (f a) (g a) l2 H1 b Hb).
Qed.

(* a boolean check over a list holds on every member *)
Lemma all_in {A} (f : A -> bool) (l : list A) : forallb f l = true -> forall x, In x l -> f x = true.
Proof. intros H. apply forallb_forall. exact H. Qed.

Lemma in_zrange (lo n : nat) (x : Z) : Z.of_nat lo <= x < Z.of_nat lo + Z.of_nat n -> In x (zrange lo n).
Proof.
  intros H. unfold zrange. replace x with (Z.of_nat (Z.to_nat x)) by (apply Z2Nat.id; lia).
  apply in_map. apply in_seq. lia.
Qed.

Lemma memz_In (w : Z) (l : list Z) : memz w l = true <-> In w l.
Proof.
  unfold memz. rewrite existsb_exists. split.
  - intros [x [Hx E]]. apply Z.eqb_eq in E. subst. exact Hx.
  - intros H. exists w. split; [exact H|apply Z.eqb_refl].
Qed.

Lemma memz_notIn (w : Z) (l : list Z) : memz w l = false -> ~ In w l.
Proof. intros H Hin. apply memz_In in Hin. congruence. Qed.

Lemma assocz_In {A} (w : Z) (l : list (Z * A)) (v : A) : assocz w l = Some v -> In (w, v) l.
Proof.
  induction l as [|[k a] t IH]; cbn [assocz]; intros H; [discriminate|].
  destruct (k =? w) eqn:E.
  - apply Z.eqb_eq in E. injection H as ->. subst. left. reflexivity.
  - right. exact (IH H).
Qed.

Lemma assocz_key {A} (w : Z) (l : list (Z * A)) : assocz w l <> None -> In w (map fst l).
Proof.
  intros H. destruct (assocz w l) as [v|] eqn:E; [|congruence].
  apply assocz_In in E. exact (in_map fst _ _ E).
Qed.

(* boolean duplicate check *)
Fixpoint nodupb (l : list Z) : bool :=
  match l with [] => true | x :: t => negb (memz x t) && nodupb t end.
Lemma nodupb_NoDup (l : list Z) : nodupb l = true -> NoDup l.
Proof.
  induction l as [|x t IH]; cbn [nodupb]; intros H; [constructor|].
  apply andb_true_iff in H. destruct H as [H1 H2]. apply negb_true_iff in H1.
  constructor; [exact (memz_notIn _ _ H1)|exact (IH H2)].
Qed.

(* membership of a pair of integers *)
Definition pmem (p : Z * Z) (l : list (Z * Z)) : bool :=
  existsb (fun q => (fst q =? fst p) && (snd q =? snd p)) l.
Lemma pmem_In (p : Z * Z) (l : list (Z * Z)) : pmem p l = true <-> In p l.
Proof.
  unfold pmem. rewrite existsb_exists. split.
  - intros [[a b] [Hq E]]. destruct p as [c d]. cbn [fst snd] in E.
    apply andb_true_iff in E. destruct E as [E1 E2]. apply Z.eqb_eq in E1, E2. subst. exact Hq.
  - intros H. exists p. split; [exact H|]. rewrite !Z.eqb_refl. reflexivity.
Qed.

Definition is_some {A} (o : option A) : bool := match o with Some _ => true | None => false end.

(* split a hypothesis (a1, .., an) = (b1, .., bn) into its component equations *)
Ltac split_pairs E :=
  cbv beta in E;
  repeat match type of E with
         | (_, _) = (_, _) => let E' := fresh "E" in apply pair_equal_spec in E; destruct E as [E E']
         end.

Ltac vmr := vm_compute; reflexivity.
Ltac inrange := apply in_zrange; lia.

(* ================= 1. characters ================================================================ *)

Theorem chars_match_608 : forall c, 32 <= c <= 126 -> char_of (odd_parity c) = Some [basic_608 c].
Proof.
  intros c Hc.
  apply (map_eq_pointwise (fun c => char_of (odd_parity c)) (fun c => Some [basic_608 c]) (zrange 32 95));
    [vmr|inrange].
Qed.

Definition chars_entry_ok (e : Z * list Z) : bool :=
  let '(b, s) := e in
  let c := b mod 128 in
  match s with
  | [] => (b =? 128) || (b =? odd_parity 127)
  | [x] => (32 <=? c) && (c <=? 127) && (b =? odd_parity c) && (x =? basic_608 c)
  | _ => false
  end.

(* the solid block 0x7f may be mapped to the empty string (as pycaption does) or to U+2588 (what a 608 decoder shows) *)
Theorem chars_table_domain : forall b s, In (b, s) scc_characters ->
  (b = 128 /\ s = []) \/ (b = odd_parity 127 /\ s = []) \/ (exists c, 32 <= c <= 127 /\ b = odd_parity c /\ s = [basic_608 c]).
Proof.
  intros b s H.
  assert (E : chars_entry_ok (b, s) = true) by (revert H; apply all_in; vmr).
  unfold chars_entry_ok in E. destruct s as [|x [|y t]]; [| |discriminate].
  - apply orb_true_iff in E. destruct E as [E|E]; apply Z.eqb_eq in E; auto.
  - right. right. exists (b mod 128).
    rewrite !andb_true_iff in E. destruct E as [[[E1 E2] E3] E4].
    apply Z.leb_le in E1, E2. apply Z.eqb_eq in E3, E4. subst x. auto.
Qed.

Theorem chars_table_functional : NoDup (map fst scc_characters).
Proof. apply nodupb_NoDup. vmr. Qed.

(* ================= 2. special and extended characters ========================================== *)

Theorem special_match_608 : forall i, 0 <= i < 16 -> special_of (special_word i) = Some [nth (Z.to_nat i) special_608 0].
Proof.
  intros i Hi.
  apply (map_eq_pointwise (fun i => special_of (special_word i))
                          (fun i => Some [nth (Z.to_nat i) special_608 0]) (zrange 0 16)); [vmr|inrange].
Qed.

Theorem special_table_size : length scc_special_chars = 16%nat /\ NoDup (map fst scc_special_chars).
Proof. split; [vmr|apply nodupb_NoDup; vmr]. Qed.

Theorem extended_match_608 : forall i, 0 <= i < 32 ->
  extended_of (extended1_word i) = Some [nth (Z.to_nat i) extended1_608 0] /\
  extended_of (extended2_word i) = Some [nth (Z.to_nat i) extended2_608 0].
Proof.
  intros i Hi. split.
  - apply (map_eq_pointwise (fun i => extended_of (extended1_word i))
                            (fun i => Some [nth (Z.to_nat i) extended1_608 0]) (zrange 0 32)); [vmr|inrange].
  - apply (map_eq_pointwise (fun i => extended_of (extended2_word i))
                            (fun i => Some [nth (Z.to_nat i) extended2_608 0]) (zrange 0 32)); [vmr|inrange].
Qed.

Theorem extended_table_size : length scc_extended_chars = 64%nat /\ NoDup (map fst scc_extended_chars).
Proof. split; [vmr|apply nodupb_NoDup; vmr]. Qed.

(* ================= 3. preamble address codes ==================================================== *)

Theorem pac_grid : forall row attr, 1 <= row <= 15 -> 0 <= attr < 32 -> pac_pos (pac_word row attr) = Some (row, pac_col attr).
Proof.
  intros row attr Hr Ha.
  apply (map_eq_pointwise2 (fun row attr => pac_pos (pac_word row attr))
                           (fun row attr => Some (row, pac_col attr)) (zrange 1 15) (zrange 0 32));
    [vmr|inrange|inrange].
Qed.

Definition parity_ok (w : Z) : bool := has_odd_parity (w / 256) && has_odd_parity (w mod 256).

Theorem pac_table_sound : forall w p, In (w, p) scc_pac ->
  (has_odd_parity (w / 256) && has_odd_parity (w mod 256)) = true -> pac_608 w = Some p.
Proof.
  intros w p H Hp.
  pose proof (map_eq_pointwise (fun e => if parity_ok (fst e) then pac_608 (fst e) else Some (snd e))
                               (fun e => Some (snd e)) scc_pac ltac:(vmr) (w, p) H) as E.
  cbn [fst snd] in E. unfold parity_ok in E. rewrite Hp in E. exact E.
Qed.

Definition pac_extras : list (Z * (Z * Z)) := filter (fun e => negb (has_odd_parity (fst e / 256) && has_odd_parity (fst e mod 256))) scc_pac.

Theorem pac_table_extras : length pac_extras = 7%nat /\ forall e, In e pac_extras -> fst e mod 256 = 252.
Proof.
  split; [vmr|].
  apply (map_eq_pointwise (fun e => fst e mod 256) (fun _ => 252) pac_extras). vmr.
Qed.

Definition pac_entry_in_grid (e : Z * (Z * Z)) : bool :=
  memz (fst (snd e)) rows_608 && memz (snd (snd e)) indents_608.

Theorem pac_grid_total_functional :
  (forall row indent, In row rows_608 -> In indent indents_608 -> exists w, pac_pos w = Some (row, indent)) /\
  (forall w p, pac_pos w = Some p -> In (fst p) rows_608 /\ In (snd p) indents_608) /\
  NoDup (map fst scc_pac).
Proof.
  split; [|split].
  - intros row indent Hr Hi. exists (pac_word row (16 + indent / 2)).
    apply (map_eq_pointwise2 (fun row indent => pac_pos (pac_word row (16 + indent / 2)))
                             (fun row indent => Some (row, indent)) rows_608 indents_608); [vmr|exact Hr|exact Hi].
  - intros w p H. apply assocz_In in H.
    assert (E : pac_entry_in_grid (w, p) = true) by (revert H; apply all_in; vmr).
    unfold pac_entry_in_grid in E. cbn [fst snd] in E. apply andb_true_iff in E. destruct E as [E1 E2].
    split; apply memz_In; assumption.
  - apply nodupb_NoDup. vmr.
Qed.

Theorem tab_offsets_1_2_3 : (forall n, 1 <= n <= 3 -> tab_of (tab_word n) = Some n) /\ length scc_tab_offsets = 3%nat.
Proof.
  split; [|vmr]. intros n Hn.
  apply (map_eq_pointwise (fun n => tab_of (tab_word n)) (fun n => Some n) (zrange 1 3)); [vmr|inrange].
Qed.

(* ================= 4. control codes and dispatch classes ====================================== *)

Definition ctrl_list : list Z := [w_rcl; w_bs; w_ru2; w_ru3; w_ru4; w_rdc; w_edm; w_cr; w_enm; w_eoc].

Theorem control_codes : w_rcl = ctrl_word 32 /\ w_bs = ctrl_word 33 /\ w_ru2 = ctrl_word 37 /\ w_ru3 = ctrl_word 38 /\
  w_ru4 = ctrl_word 39 /\ w_rdc = ctrl_word 41 /\ w_edm = ctrl_word 44 /\ w_cr = ctrl_word 45 /\ w_enm = ctrl_word 46 /\ w_eoc = ctrl_word 47
  /\ Forall (fun w => is_command w = true) [w_rcl; w_bs; w_ru2; w_ru3; w_ru4; w_rdc; w_edm; w_cr; w_enm; w_eoc]
  /\ (forall w, In w scc_cue_starting_commands <-> In w [w_ru2; w_ru3; w_ru4; w_rdc; w_rcl]).     (* as a SET *)
Proof.
  repeat split; try vmr.
  - apply Forall_forall. apply (map_eq_pointwise is_command (fun _ => true)). vmr.
  - intros H. apply memz_In.
    exact (all_in (fun x => memz x [w_ru2; w_ru3; w_ru4; w_rdc; w_rcl]) scc_cue_starting_commands ltac:(vmr) w H).
  - intros H. apply memz_In.
    exact (all_in (fun x => memz x scc_cue_starting_commands) [w_ru2; w_ru3; w_ru4; w_rdc; w_rcl] ltac:(vmr) w H).
Qed.

Definition no_char_pair (w : Z) : bool := negb (is_some (char_of (hi w)) && is_some (char_of (lo w))).
Lemma no_char_pair_spec w : no_char_pair w = true -> char_of (hi w) = None \/ char_of (lo w) = None.
Proof.
  unfold no_char_pair. destruct (char_of (hi w)); [|auto]. destruct (char_of (lo w)); [|auto]. discriminate.
Qed.

Theorem classes_disjoint :
  (forall w, special_of w <> None -> is_command w = false /\ is_pac w = false /\ extended_of w = None /\ tab_of w = None) /\
  (forall w, extended_of w <> None -> is_command w = false /\ is_pac w = false /\ tab_of w = None) /\
  (forall w, is_pac w = true -> tab_of w = None /\ memz w scc_mid_row_codes = false /\ memz w scc_background_color_codes = false
                               /\ ~ In w [w_rcl; w_bs; w_ru2; w_ru3; w_ru4; w_rdc; w_edm; w_cr; w_enm; w_eoc]) /\
  (forall w, tab_of w <> None -> is_command w = true /\ memz w scc_mid_row_codes = false /\ memz w scc_background_color_codes = false
                               /\ memz w scc_style_setting_commands = false /\ w <> w_bs
                               /\ ~ In w [w_rcl; w_ru2; w_ru3; w_ru4; w_rdc; w_edm; w_cr; w_enm; w_eoc]) /\
  (forall w, (is_command w || is_pac w) = true \/ special_of w <> None \/ extended_of w <> None ->
             char_of (hi w) = None \/ char_of (lo w) = None).
Proof.
  split; [|split; [|split; [|split]]].
  - intros w H. apply assocz_key in H.
    pose proof (map_eq_pointwise (fun w => (is_command w, is_pac w, extended_of w, tab_of w))
                                 (fun _ => (false, false, None, None)) (map fst scc_special_chars) ltac:(vmr) w H) as E.
    split_pairs E. auto.
  - intros w H. apply assocz_key in H.
    pose proof (map_eq_pointwise (fun w => (is_command w, is_pac w, tab_of w))
                                 (fun _ => (false, false, None)) (map fst scc_extended_chars) ltac:(vmr) w H) as E.
    split_pairs E. auto.
  - intros w H. assert (Hk : In w (map fst scc_pac)).
    { apply assocz_key. unfold is_pac, pac_pos in H. destruct (assocz w scc_pac); [discriminate|discriminate]. }
    pose proof (map_eq_pointwise
      (fun w => (tab_of w, memz w scc_mid_row_codes, memz w scc_background_color_codes,
                 memz w [w_rcl; w_bs; w_ru2; w_ru3; w_ru4; w_rdc; w_edm; w_cr; w_enm; w_eoc]))
      (fun _ => (None, false, false, false)) (map fst scc_pac) ltac:(vmr) w Hk) as E.
    split_pairs E. repeat split; try assumption. apply memz_notIn; assumption.
  - intros w H. apply assocz_key in H.
    pose proof (map_eq_pointwise
      (fun w => (is_command w, memz w scc_mid_row_codes, memz w scc_background_color_codes,
                 memz w scc_style_setting_commands, w =? w_bs,
                 memz w [w_rcl; w_ru2; w_ru3; w_ru4; w_rdc; w_edm; w_cr; w_enm; w_eoc]))
      (fun _ => (true, false, false, false, false, false)) (map fst scc_tab_offsets) ltac:(vmr) w H) as E.
    split_pairs E. repeat split; try assumption.
    + apply Z.eqb_neq. assumption.
    + apply memz_notIn; assumption.
  - intros w H. apply no_char_pair_spec.
    assert (Hin : In w (scc_commands ++ map fst scc_pac ++ map fst scc_special_chars ++ map fst scc_extended_chars)).
    { rewrite !in_app_iff. destruct H as [H|[H|H]].
      - apply orb_true_iff in H. destruct H as [H|H].
        + left. apply memz_In. exact H.
        + right. left. apply assocz_key. unfold is_pac, pac_pos in H.
          destruct (assocz w scc_pac); [discriminate|discriminate].
      - right. right. left. exact (assocz_key _ _ H).
      - right. right. right. exact (assocz_key _ _ H). }
    revert Hin. apply all_in. vmr.
Qed.

Theorem midrow_classes : forall a, 0 <= a < 16 ->
  memz (midrow_word a) scc_mid_row_codes = true /\ is_command (midrow_word a) = true /\
  memz (midrow_word a) scc_italics_commands = ((a =? 14) || (a =? 15)) /\
  memz (midrow_word a) scc_style_setting_commands = true.
Proof.
  intros a Ha.
  pose proof (map_eq_pointwise
    (fun a => (memz (midrow_word a) scc_mid_row_codes, is_command (midrow_word a),
               memz (midrow_word a) scc_italics_commands, memz (midrow_word a) scc_style_setting_commands))
    (fun a => (true, true, (a =? 14) || (a =? 15), true)) (zrange 0 16) ltac:(vmr) a ltac:(inrange)) as E.
  split_pairs E. auto.
Qed.

(* which PACs close / open italics *)
Definition pac_attr_pairs : list (Z * Z) := flat_map (fun r => map (fun a => (r, a)) (zrange 0 32)) (zrange 1 15).

Definition style_exceptions : list (Z * Z) :=
  Eval vm_compute in
    filter (fun p => negb (memz (pac_word (fst p) (snd p)) scc_style_setting_commands)) pac_attr_pairs.

Theorem style_classes : forall row attr, 1 <= row <= 15 -> 0 <= attr < 32 ->
  memz (pac_word row attr) scc_italics_commands = pac_italics attr /\
  (memz (pac_word row attr) scc_style_setting_commands = false <-> In (row, attr) style_exceptions).
Proof.
  intros row attr Hr Ha.
  pose proof (map_eq_pointwise2
    (fun row attr => (memz (pac_word row attr) scc_italics_commands,
                      negb (memz (pac_word row attr) scc_style_setting_commands)))
    (fun row attr => (pac_italics attr, pmem (row, attr) style_exceptions))
    (zrange 1 15) (zrange 0 32) ltac:(vmr) row attr ltac:(inrange) ltac:(inrange)) as E.
  split_pairs E. split; [exact E|]. rename E0 into E2.
  rewrite <- pmem_In, <- E2, negb_true_iff. reflexivity.
Qed.

(* RESTATED (the expected "<= 3, all attr 2" is false for the current tables): besides the three green (attr 2)
   keys of rows 6, 8, 13, the white-indent-24 PAC (attr 28) of the seven high-half rows 2, 4, 6, 8, 10, 13, 15 is
   not a style-setting command and not even a command: the source lists it with the even-parity low byte 0xfc
   (word + 128, exactly the seven keys of pac_extras) instead of the parity-correct 0x7c. *)
Definition style_exception_ok (e : Z * Z) : bool :=
  let w := pac_word (fst e) (snd e) in
  ((snd e =? 2) && memz (fst e) [6; 8; 13] && is_command w) ||
  ((snd e =? 28) && memz (fst e) [2; 4; 6; 8; 10; 13; 15] && negb (is_command w) &&
   memz (w + 128) (map fst pac_extras) && memz (w + 128) scc_style_setting_commands).

Theorem style_exceptions_small : (length style_exceptions <= 10)%nat /\ forall e, In e style_exceptions ->
  (snd e = 2 /\ In (fst e) [6; 8; 13] /\ is_command (pac_word (fst e) (snd e)) = true) \/
  (snd e = 28 /\ In (fst e) [2; 4; 6; 8; 10; 13; 15] /\ is_command (pac_word (fst e) (snd e)) = false /\
   In (pac_word (fst e) (snd e) + 128) (map fst pac_extras) /\
   memz (pac_word (fst e) (snd e) + 128) scc_style_setting_commands = true).
Proof.
  split; [vm_compute; lia|].
  intros e H. assert (E : style_exception_ok e = true) by (revert H; apply all_in; vmr).
  unfold style_exception_ok in E. cbv zeta in E.
  apply orb_true_iff in E. destruct E as [E|E].
  - left. apply andb_true_iff in E. destruct E as [E E3]. apply andb_true_iff in E. destruct E as [E1 E2].
    apply Z.eqb_eq in E1. apply memz_In in E2. exact (conj E1 (conj E2 E3)).
  - right. apply andb_true_iff in E. destruct E as [E E5]. apply andb_true_iff in E. destruct E as [E E4].
    apply andb_true_iff in E. destruct E as [E E3]. apply andb_true_iff in E. destruct E as [E1 E2].
    apply Z.eqb_eq in E1. apply memz_In in E2. apply negb_true_iff in E3. apply memz_In in E4.
    exact (conj E1 (conj E2 (conj E3 (conj E4 E5)))).
Qed.

(* ================= 5. layout =================================================================== *)

Definition Qlt_bool (a b : Q) : bool := negb (Qle_bool b a).
Lemma Qlt_bool_lt a b : Qlt_bool a b = true -> (a < b)%Q.
Proof.
  unfold Qlt_bool. intros H. apply negb_true_iff in H. apply Qnot_le_lt. intros L.
  apply Qle_bool_iff in L. congruence.
Qed.

Definition layout_ok (p : pos) : bool :=
  Qeq_bool (fst (layout_of_pos p)) (fst (layout_608 (fst p) (snd p))) &&
  Qeq_bool (snd (layout_of_pos p)) (snd (layout_608 (fst p) (snd p))) &&
  Qle_bool 10 (fst (layout_of_pos p)) && Qlt_bool (fst (layout_of_pos p)) 90 &&
  Qle_bool 5 (snd (layout_of_pos p)) && Qlt_bool (snd (layout_of_pos p)) 95.

Theorem layout_linear_exhaustive : forall p, In p grid_positions ->
  (fst (layout_of_pos p) == fst (layout_608 (fst p) (snd p)))%Q /\ (snd (layout_of_pos p) == snd (layout_608 (fst p) (snd p)))%Q /\
  (10 <= fst (layout_of_pos p))%Q /\ (fst (layout_of_pos p) < 90)%Q /\ (5 <= snd (layout_of_pos p))%Q /\ (snd (layout_of_pos p) < 95)%Q.
Proof.
  intros p H. assert (E : layout_ok p = true) by (revert H; apply all_in; vmr).
  unfold layout_ok in E. rewrite !andb_true_iff in E.
  destruct E as [[[[[E1 E2] E3] E4] E5] E6].
  repeat split.
  - apply Qeq_bool_iff; exact E1.
  - apply Qeq_bool_iff; exact E2.
  - apply Qle_bool_iff; exact E3.
  - apply Qlt_bool_lt; exact E4.
  - apply Qle_bool_iff; exact E5.
  - apply Qlt_bool_lt; exact E6.
Qed.

Theorem grid_positions_complete : forall r c, 1 <= r <= 15 -> 0 <= c <= 31 -> In (r, c) grid_positions.
Proof.
  intros r c Hr Hc. unfold grid_positions. apply in_flat_map. exists (Z.to_nat r). split.
  - apply in_seq. lia.
  - apply in_map_iff. exists (Z.to_nat c). split.
    + rewrite !Z2Nat.id by lia. reflexivity.
    + apply in_seq. lia.
Qed.

(* the 480 layouts are computed once, then compared pairwise *)
Definition layout_tab : list (pos * (Q * Q)) := map (fun p => (p, layout_of_pos p)) grid_positions.
Definition layout_inj_ok (a b : pos * (Q * Q)) : bool :=
  implb (Qeq_bool (fst (snd a)) (fst (snd b)) && Qeq_bool (snd (snd a)) (snd (snd b)))
        ((fst (fst a) =? fst (fst b)) && (snd (fst a) =? snd (fst b))).
Definition pairwise_check {A} (ok : A -> A -> bool) (l : list A) : bool :=
  let L := l in forallb (fun a => forallb (ok a) L) L.
Lemma pairwise_lift {A} (ok : A -> A -> bool) (l : list A) :
  pairwise_check ok l = true -> forall a b, In a l -> In b l -> ok a b = true.
Proof.
  unfold pairwise_check. cbv zeta. intros H a b Ha Hb.
  exact (all_in _ _ (all_in (fun a => forallb (ok a) l) l H a Ha) b Hb).
Qed.

Lemma layout_inj_all : pairwise_check layout_inj_ok layout_tab = true.
Proof. vmr. Qed.

Theorem layout_injective : forall p q, In p grid_positions -> In q grid_positions ->
  (fst (layout_of_pos p) == fst (layout_of_pos q))%Q -> (snd (layout_of_pos p) == snd (layout_of_pos q))%Q -> p = q.
Proof.
  intros p q Hp Hq E1 E2.
  assert (Hp' : In (p, layout_of_pos p) layout_tab) by (exact (in_map (fun p => (p, layout_of_pos p)) _ _ Hp)).
  assert (Hq' : In (q, layout_of_pos q) layout_tab) by (exact (in_map (fun p => (p, layout_of_pos p)) _ _ Hq)).
  pose proof (pairwise_lift _ _ layout_inj_all _ _ Hp' Hq') as E.
  apply Qeq_bool_iff in E1, E2.
  unfold layout_inj_ok in E. cbn [fst snd] in E. rewrite E1, E2 in E. cbn [andb implb] in E.
  apply andb_true_iff in E. destruct E as [F1 F2]. apply Z.eqb_eq in F1, F2.
  destruct p, q. cbn [fst snd] in *. subst. reflexivity.
Qed.
