(* C11: balance of what the readers return and of what the writers emit. *)
From Coq Require Import List ZArith Bool Lia ZifyBool.
From PV Require Import lib.Sx lib.Str model.TextNodes model.TextWrite model.TextRead model.TextStyle.
From PV Require Import spec.SpecTextXml spec.SpecTextStyle proofs.TextReadFacts.
Import ListNotations.
Open Scope Z_scope.

(* ---- readers: every start node is followed by its end node, properly nested ----------------------------- *)
Lemma balanced_aux_shift : forall a b d k, balanced_aux a k = true ->
  balanced_aux (a ++ b) (k + d) = balanced_aux b d.
Proof.
  induction a as [|n a IH]; intros b d k H.
  - cbn [balanced_aux] in H. apply Nat.eqb_eq in H. subst k. reflexivity.
  - destruct n as [s| |[] st]; cbn [app balanced_aux] in *.
    + apply IH. exact H.
    + apply IH. exact H.
    + apply (IH b d (S k) H).
    + destruct k as [|k']; [discriminate|]. cbn [Nat.add]. apply (IH b d k' H).
Qed.

Lemma balanced_app : forall a b, balanced a = true -> balanced b = true -> balanced (a ++ b) = true.
Proof. intros a b Ha Hb. unfold balanced in *. pose proof (balanced_aux_shift a b 0 0 Ha) as Q. cbn [Nat.add] in Q. rewrite Q. exact Hb. Qed.

Lemma balanced_wrap : forall st kids, balanced kids = true ->
  balanced ([NStyle true st] ++ kids ++ [NStyle false st]) = true.
Proof.
  intros st kids H. unfold balanced in *. cbn [app balanced_aux].
  pose proof (balanced_aux_shift kids [NStyle false st] 1 0 H) as Q. cbn [Nat.add] in Q. rewrite Q. reflexivity.
Qed.

Lemma balanced_flat_map : forall (f : xnode -> list node) kids,
  Forall (fun x => balanced (f x) = true) kids -> balanced (flat_map f kids) = true.
Proof.
  intros f kids H. induction H as [|x l Hx Hl IH]; [reflexivity|].
  cbn [flat_map]. apply balanced_app; assumption.
Qed.

Theorem dfxp_reader_nodes_balanced : forall fixed x, balanced (dfxp_nodes fixed x) = true.
Proof.
  intros fixed. induction x as [s|n a kids IH] using xnode_ind2.
  - cbn [dfxp_nodes]. destruct (text_node fixed s); reflexivity.
  - cbn [dfxp_nodes]. destruct (str_eqb n (lit "br")); [reflexivity|].
    destruct (str_eqb n (lit "span")).
    + apply balanced_wrap. apply balanced_flat_map. exact IH.
    + apply balanced_flat_map. exact IH.
Qed.

Theorem sami_reader_nodes_balanced : forall fixed x, balanced (sami_nodes fixed x) = true.
Proof.
  intros fixed. induction x as [s|n a kids IH] using xnode_ind2.
  - cbn [sami_nodes]. destruct (text_node fixed s); reflexivity.
  - cbn [sami_nodes]. destruct (str_eqb n (lit "br")); [reflexivity|].
    pose proof (balanced_flat_map (sami_nodes fixed) kids IH) as Hk.
    destruct (str_eqb n (lit "i")); [apply balanced_wrap; exact Hk|].
    destruct (str_eqb n (lit "b")); [apply balanced_wrap; exact Hk|].
    destruct (str_eqb n (lit "u")); [apply balanced_wrap; exact Hk|].
    destruct (str_eqb n (lit "span")); [|exact Hk].
    destruct (sami_span_args a); [apply balanced_wrap; exact Hk|exact Hk].
Qed.

(* whole paragraphs: the concatenation over the children of <p> *)
Theorem dfxp_reader_p_balanced : forall fixed t, balanced (flat_map (dfxp_nodes fixed) t) = true.
Proof. intros fixed t. apply balanced_flat_map. apply Forall_forall. intros x _. apply dfxp_reader_nodes_balanced. Qed.
Theorem sami_reader_p_balanced : forall fixed t, balanced (flat_map (sami_nodes fixed) t) = true.
Proof. intros fixed t. apply balanced_flat_map. apply Forall_forall. intros x _. apply sami_reader_nodes_balanced. Qed.

(* WebVTT, SRT and MicroDVD readers return no style node at all *)
Theorem vtt_reader_nodes_balanced : forall fixed lines, balanced (vtt_cue_nodes fixed lines) = true.
Proof.
  intros fixed lines. unfold vtt_cue_nodes. induction lines as [|l ls IH]; [reflexivity|].
  cbn [map intersperse_break]. destruct (map (fun l0 => NText (vtt_decode fixed l0)) ls) eqn:E; [reflexivity|].
  unfold balanced in *. cbn [balanced_aux]. exact IH.
Qed.

(* ---- writers: the instrumented step functions erase to the models of TextWrite.v ------------------------------ *)
Lemma span_step_tr_erase : forall attrs line open start st,
  fst (span_step_tr attrs line open start st) = span_step attrs line open start st.
Proof. intros. unfold span_step_tr, span_step. destruct start; [destruct (attrs st)|destruct open]; reflexivity. Qed.

Lemma dfxp_run_tr_erase_gen : forall extra ns acc,
  fst (fold_left (dfxp_step_tr extra) ns acc) = fold_left (dfxp_step extra) ns (fst acc).
Proof.
  intros extra. induction ns as [|n ns IH]; intros [[line open] tr]; [reflexivity|].
  cbn [fold_left]. rewrite IH. f_equal. destruct n as [s| |start st]; cbn [dfxp_step_tr dfxp_step fst]; try reflexivity.
  pose proof (span_step_tr_erase (fun st0 => dfxp_style_attrs st0 ++ extra) line open start st) as E.
  destruct (span_step_tr (fun st0 => dfxp_style_attrs st0 ++ extra) line open start st) as [r ev]. cbn [fst] in *. exact E.
Qed.

Theorem dfxp_run_tr_erase : forall extra open ns, fst (dfxp_run_tr extra open ns) = dfxp_run extra open ns.
Proof. intros. unfold dfxp_run_tr, dfxp_run. apply dfxp_run_tr_erase_gen. Qed.

Lemma sami_run_tr_erase_gen : forall ns acc,
  fst (fold_left sami_step_tr ns acc) = fold_left TextWrite.sami_step ns (fst acc).
Proof.
  induction ns as [|n ns IH]; intros [[line open] tr]; [reflexivity|].
  cbn [fold_left]. rewrite IH. f_equal. destruct n as [s| |[] st]; cbn [sami_step_tr TextWrite.sami_step fst]; try reflexivity.
  - destruct (sami_css st); reflexivity.
  - destruct open; reflexivity.
Qed.

Theorem sami_run_tr_erase : forall open ns, fst (sami_run_tr open ns) = TextWrite.sami_run open ns.
Proof. intros. unfold sami_run_tr, TextWrite.sami_run. apply sami_run_tr_erase_gen. Qed.

(* ---- DFXP: along ANY node list the number of open spans is the open_span flag ------------------------------------- *)
Definition b2n (b : bool) : nat := if b then 1%nat else 0%nat.

Lemma trace_depth_app : forall a b d, trace_depth (a ++ b) d = match trace_depth a d with Some d' => trace_depth b d' | None => None end.
Proof.
  induction a as [|x a IH]; intros b d; [reflexivity|]. cbn [app trace_depth].
  destruct x; [apply IH|]. destruct d; [reflexivity|apply IH].
Qed.

Lemma dfxp_trace_invariant : forall extra ns line open tr,
  trace_depth tr 0 = Some (b2n open) ->
  let r := fold_left (dfxp_step_tr extra) ns ((line, open), tr) in
  trace_depth (snd r) 0 = Some (b2n (snd (fst r))).
Proof.
  intros extra. induction ns as [|n ns IH]; intros line open tr H; [exact H|].
  cbn [fold_left]. destruct n as [s| |start st]; cbn [dfxp_step_tr].
  - apply IH. exact H.
  - apply IH. exact H.
  - unfold span_step_tr. destruct start.
    + destruct (dfxp_style_attrs st ++ extra) eqn:A.
      * rewrite app_nil_r. apply IH. exact H.
      * apply IH. rewrite trace_depth_app, H. destruct open; reflexivity.
    + destruct open.
      * apply IH. rewrite trace_depth_app, H. reflexivity.
      * rewrite app_nil_r. apply IH. exact H.
Qed.

(* every </span> closes an open <span>, and what is left open at the end is exactly the flag *)
Theorem dfxp_span_markup_depth : forall extra ns,
  trace_depth (snd (dfxp_run_tr extra false ns)) 0 = Some (b2n (snd (fst (dfxp_run_tr extra false ns)))).
Proof. intros. unfold dfxp_run_tr. apply (dfxp_trace_invariant extra ns [] false []). reflexivity. Qed.

(* for spans that do not nest the flag is down at the end: every <span> is closed *)
Lemma dfxp_flat_flag : forall extra ns line tr cur,
  flat_aux ns cur = true ->
  snd (fst (fold_left (dfxp_step_tr extra) ns
              ((line, match cur with Some st => str_nonempty (dfxp_style_attrs st ++ extra) | None => false end), tr))) = false.
Proof.
  intros extra. induction ns as [|n ns IH]; intros line tr cur H.
  - cbn [flat_aux] in H. destruct cur; [discriminate|reflexivity].
  - cbn [fold_left]. destruct n as [s| |[] st]; cbn [flat_aux dfxp_step_tr] in *.
    + apply IH. exact H.
    + apply IH. exact H.
    + destruct cur as [st0|]; [discriminate|]. unfold span_step_tr.
      destruct (dfxp_style_attrs st ++ extra) as [|z l] eqn:A.
      * pose proof (IH line (tr ++ []) (Some st) H) as Q. cbv beta iota in Q. rewrite A in Q. exact Q.
      * pose proof (IH (line ++ lit "<span" ++ z :: l ++ lit ">") (tr ++ [] ++ [true]) (Some st) H) as Q.
        cbv beta iota in Q. rewrite A in Q. exact Q.
    + destruct cur as [st0|]; [|discriminate]. apply andb_true_iff in H. destruct H as [_ H].
      unfold span_step_tr. destruct (str_nonempty (dfxp_style_attrs st0 ++ extra)).
      * apply (IH _ _ None H).
      * apply (IH _ _ None H).
Qed.

Theorem dfxp_span_markup_balanced : forall extra ns, flat_balanced ns = true ->
  trace_depth (snd (dfxp_run_tr extra false ns)) 0 = Some 0%nat.
Proof.
  intros extra ns H. rewrite dfxp_span_markup_depth.
  pose proof (dfxp_flat_flag extra ns [] [] None H) as Q. cbv beta iota in Q.
  unfold dfxp_run_tr. change (Some 0%nat) with (Some (b2n false)). f_equal. f_equal. exact Q.
Qed.

(* ---- SAMI: for spans that do not nest ------------------------------------------------------------------------------ *)
Lemma sami_flat_trace : forall ns line tr cur,
  flat_aux ns cur = true ->
  let open := match cur with Some st => str_nonempty (sami_css st) | None => false end in
  trace_depth tr 0 = Some (b2n open) ->
  let r := fold_left sami_step_tr ns ((line, open), tr) in
  trace_depth (snd r) 0 = Some 0%nat /\ snd (fst r) = false.
Proof.
  induction ns as [|n ns IH]; intros line tr cur H open Ht.
  - cbn [flat_aux] in H. destruct cur; [discriminate|]. subst open. cbn [fold_left snd fst]. split; [exact Ht|reflexivity].
  - cbn [fold_left]. destruct n as [s| |[] st]; cbn [flat_aux sami_step_tr] in *.
    + apply (IH _ tr cur H Ht).
    + apply (IH _ tr cur H Ht).
    + destruct cur as [st0|]; [discriminate|]. subst open. cbn iota.
      destruct (sami_css st) as [|z l] eqn:C.
      * pose proof (IH line tr (Some st) H) as Q. cbv beta iota zeta in Q. rewrite C in Q. cbn [str_nonempty] in Q. apply Q. exact Ht.
      * pose proof (IH (line ++ lit "<span style=""" ++ z :: l ++ lit """>") (tr ++ [true]) (Some st) H) as Q.
        cbv beta iota zeta in Q. rewrite C in Q. cbn [str_nonempty] in Q. apply Q. rewrite trace_depth_app, Ht. reflexivity.
    + destruct cur as [st0|]; [|discriminate]. apply andb_true_iff in H. destruct H as [_ H]. subst open.
      destruct (str_nonempty (sami_css st0)).
      * apply (IH _ _ None H). rewrite trace_depth_app, Ht. reflexivity.
      * apply (IH _ _ None H). exact Ht.
Qed.

Theorem sami_span_markup_balanced : forall ns, flat_balanced ns = true ->
  trace_depth (snd (sami_run_tr false ns)) 0 = Some 0%nat /\ snd (fst (sami_run_tr false ns)) = false.
Proof. intros ns H. unfold sami_run_tr. apply (sami_flat_trace ns [] [] None H). reflexivity. Qed.

(* ---- WebVTT: the i / b / u tags written for spans that do not nest are properly nested ------------------------------- *)
Lemma nested_aux_app : forall a b stk stk', (forall rest, nested_aux (a ++ rest) stk = nested_aux rest stk') ->
  nested_aux (a ++ b) stk = nested_aux b stk'.
Proof. intros a b stk stk' H. apply H. Qed.

Definition open_stack (st : style) : list Z :=
  (if st_b st then [1] else []) ++ (if st_u st then [2] else []) ++ (if st_i st then [0] else []).

Lemma vtt_open_push : forall st rest stk, nested_aux (vtt_open_evs st ++ rest) stk = nested_aux rest (open_stack st ++ stk).
Proof. intros [[] [] [] c] rest stk; reflexivity. Qed.

Lemma vtt_close_pop : forall st rest stk, nested_aux (vtt_close_evs st ++ rest) (open_stack st ++ stk) = nested_aux rest stk.
Proof. intros [[] [] [] c] rest stk; reflexivity. Qed.

Lemma style_eqb_flags : forall a b, style_eqb a b = true -> open_stack a = open_stack b /\ vtt_close_evs a = vtt_close_evs b.
Proof.
  intros [ai ab au ac] [bi bb bu bc] H. unfold style_eqb in H. cbn [st_i st_b st_u st_color] in H.
  apply andb_true_iff in H. destruct H as [H _]. apply andb_true_iff in H. destruct H as [H Hu].
  apply andb_true_iff in H. destruct H as [Hi Hb]. apply Bool.eqb_prop in Hi, Hb, Hu. subst. split; reflexivity.
Qed.

Lemma vtt_flat_nested : forall ns cur, flat_aux ns cur = true ->
  nested_aux (vtt_tag_evs ns) (match cur with Some st => open_stack st | None => [] end) = true.
Proof.
  induction ns as [|n ns IH]; intros cur H.
  - cbn [flat_aux] in H. destruct cur; [discriminate|reflexivity].
  - unfold vtt_tag_evs in *. cbn [flat_map]. destruct n as [s| |[] st]; cbn [flat_aux vtt_node_evs app] in *.
    + apply IH. exact H.
    + apply IH. exact H.
    + destruct cur as [st0|]; [discriminate|]. rewrite vtt_open_push, app_nil_r. apply (IH (Some st) H).
    + destruct cur as [st0|]; [|discriminate]. apply andb_true_iff in H. destruct H as [He H].
      destruct (style_eqb_flags st0 st He) as [Hs Hc]. rewrite <- Hc.
      rewrite <- (app_nil_r (open_stack st0)). rewrite vtt_close_pop. apply (IH None H).
Qed.

Theorem vtt_tags_nested : forall ns, flat_balanced ns = true -> well_nested (vtt_tag_evs ns) = true.
Proof. intros ns H. apply (vtt_flat_nested ns None H). Qed.

(* the strings vtt_step writes for a style node are the renderings of those events *)
Theorem vtt_open_is_events : forall st, vtt_open st = concat (map render_tag (vtt_open_evs st)).
Proof. intros [[] [] [] c]; reflexivity. Qed.
Theorem vtt_close_is_events : forall st, vtt_close st = concat (map render_tag (vtt_close_evs st)).
Proof. intros [[] [] [] c]; reflexivity. Qed.

(* a node list used by the non-vacuity examples of props/C11.v *)
Definition ex_nodes : list node :=
  [NStyle true (mkStyle true true false None); NText (lit "a b"); NBreak; NText (lit "c"); NStyle false (mkStyle true true false None);
   NText (lit " d "); NStyle true (mkStyle false false true None); NStyle false (mkStyle false false true None)].

