(* C19 (wave 7): merge_concurrent_captions WITHOUT the hypothesis nodes_nonempty.  Exactly which inputs the code rejects
   (spec/SpecBase.v merge_accepts: no maximal run consists only of captions without nodes), what it returns on every
   accepted input (spec_merge_gen), and the error branch; plus laws of merge: text in order is preserved, merge
   commutes with adjust for a positive skew. *)
From Coq Require Import List ZArith QArith Qabs Bool Lia.
From PV Require Import lib.Sx lib.Result model.Base spec.SpecBase proofs.BaseFacts.
Import ListNotations.

(* ---------------- merge(): one run ---------------- *)
Lemma join_nodes_nonempty : forall f o, f <> [] -> join_nodes f o <> [].
Proof. intros f o H. rewrite join_nodes_concat. destruct f; [congruence|discriminate]. Qed.

Lemma merge_nodes_gen : forall cs, merge_nodes cs = join_nodes_gen (map c_nodes cs).
Proof.
  unfold merge_nodes, join_nodes_gen. induction cs as [|c t IH]; [reflexivity|].
  cbn [fold_left map app]. destruct (c_nodes c) as [|n ns] eqn:E.
  - cbn [drop_empty]. exact IH.
  - cbn [drop_empty]. rewrite merge_nodes_fold by discriminate.
    rewrite join_nodes_concat. unfold tailnodes. rewrite map_map. reflexivity.
Qed.

Lemma drop_empty_nil : forall ls, drop_empty ls = [] <-> forallb (fun l => match l with [] => true | _ => false end) ls = true.
Proof.
  induction ls as [|l t IH]; [split; reflexivity|]. destruct l as [|x l'].
  - cbn [drop_empty forallb andb]. exact IH.
  - cbn [drop_empty forallb andb]. split; discriminate.
Qed.

Lemma drop_empty_head : forall ls f o, drop_empty ls = f :: o -> f <> [].
Proof.
  induction ls as [|l t IH]; intros f o H; [discriminate|]. destruct l as [|x l'].
  - cbn [drop_empty] in H. apply (IH f o H).
  - cbn [drop_empty] in H. injection H as <- _. discriminate.
Qed.

Lemma join_nodes_gen_nil : forall cs, join_nodes_gen (map c_nodes cs) = [] <-> forallb no_nodes cs = true.
Proof.
  intros cs. unfold join_nodes_gen.
  assert (E : forallb no_nodes cs = forallb (fun l => match l with [] => true | _ => false end) (map c_nodes cs)).
  { induction cs as [|c t IH]; [reflexivity|]. cbn [map forallb]. rewrite IH. reflexivity. }
  rewrite E, <- drop_empty_nil.
  destruct (drop_empty (map c_nodes cs)) as [|f o] eqn:D; [split; reflexivity|].
  split; [|discriminate]. intros H. exfalso. apply (join_nodes_nonempty f o (drop_empty_head _ f o D) H).
Qed.

Definition merge_run (r : caption * list caption) : result caption :=
  if run_rejected r then Err ENodeListEmpty else Ok (join_run_gen r).

Lemma merge_caps_gen : forall c cs, merge_caps (c :: cs) = merge_run (c, cs).
Proof.
  intros c cs. unfold merge_caps, merge_run, run_rejected, join_run_gen, run_caps. cbn [fst snd].
  rewrite merge_nodes_gen.
  destruct (forallb no_nodes (c :: cs)) eqn:E.
  - rewrite (proj2 (join_nodes_gen_nil (c :: cs)) E). reflexivity.
  - destruct (join_nodes_gen (map c_nodes (c :: cs))) eqn:J; [|reflexivity].
    rewrite (proj1 (join_nodes_gen_nil (c :: cs)) J) in E. discriminate.
Qed.

(* ---------------- the loop, every input ---------------- *)
Lemma merge_loop_gen : forall caps c0 cs l merged,
  last (c0 :: cs) c0 = l ->
  (forall x, In x cs -> span_eqb x c0 = true) ->
  finish (merge_loop caps (Some l) (c0 :: cs) merged)
  = do js <- res_map merge_run (runs (c0 :: cs ++ caps)); Ok (merged ++ js).
Proof.
  induction caps as [|c t IH]; intros c0 cs l merged Hl Hall.
  - cbn [merge_loop finish bind]. rewrite app_nil_r.
    rewrite merge_caps_gen. rewrite runs_all_same by exact Hall. cbn [res_map].
    destruct (merge_run (c0, cs)); reflexivity.
  - cbn [merge_loop].
    assert (Hlc : span_eqb l c0 = true).
    { destruct cs as [|e cs'] eqn:Ecs; [cbn in Hl; subst; apply span_refl|].
      apply Hall. rewrite <- Hl. clear. revert e. induction cs' as [|f cs'' IHc]; intros e.
      - left. reflexivity.
      - right. apply IHc. }
    rewrite same_span_eq.
    destruct (span_eqb c l) eqn:Ecl.
    + replace (c0 :: cs ++ c :: t) with (c0 :: (cs ++ [c]) ++ t) by (rewrite <- app_assoc; reflexivity).
      change ((c0 :: cs) ++ [c]) with (c0 :: (cs ++ [c])).
      apply IH.
      * clear - c. revert c0. induction cs as [|e cs' IHc]; intros c0; [reflexivity|].
        change (last (c0 :: (e :: cs') ++ [c]) c0) with (last ((e :: cs') ++ [c]) c0).
        cbn [app]. specialize (IHc e).
        replace (last (e :: cs' ++ [c]) c0) with (last (e :: cs' ++ [c]) e); [exact IHc|].
        clear. generalize (cs' ++ [c]). intros l. revert e. induction l; intros; [reflexivity|].
        cbn [last]. destruct l; [reflexivity|]. apply IHl.
      * intros x Hx. apply in_app_or in Hx. destruct Hx as [Hx|[<-|[]]]; [apply Hall; exact Hx|].
        apply span_trans with l; assumption.
    + rewrite merge_caps_gen.
      rewrite runs_prefix_break; [|exact Hall|apply span_neq_trans with l; [rewrite span_sym; exact Hlc|exact Ecl]].
      cbn [res_map]. destruct (merge_run (c0, cs)) as [m|e]; cbn [bind]; [|reflexivity].
      specialize (IH c [] c (merged ++ [m]) eq_refl (fun x (H : In x []) => match H with end)).
      cbn [app] in IH. rewrite IH.
      destruct (res_map merge_run (runs (c :: t))); cbn [bind]; [|reflexivity].
      rewrite <- app_assoc. reflexivity.
Qed.

Theorem merge_lang_gen : forall caps, merge_lang caps = res_map merge_run (runs caps).
Proof.
  intros caps. rewrite merge_lang_unfold. destruct caps as [|c t]; [reflexivity|].
  cbn [merge_loop].
  pose proof (merge_loop_gen t c [] c [] eq_refl (fun x (H : In x []) => match H with end)) as H.
  cbn [app] in H. rewrite H.
  destruct (runs_head c t) as [ds [rest Hr]]. rewrite Hr. cbn [res_map].
  destruct (merge_run (c, ds)); cbn [bind]; [|reflexivity].
  destruct (res_map merge_run rest); reflexivity.
Qed.

Lemma res_map_accepts : forall rs, forallb (fun r => negb (run_rejected r)) rs = true ->
  res_map merge_run rs = Ok (map join_run_gen rs).
Proof.
  induction rs as [|r t IH]; intros H; [reflexivity|]. cbn [forallb] in H. apply andb_true_iff in H.
  destruct H as [Hr Ht]. cbn [res_map map]. unfold merge_run at 1. apply negb_true_iff in Hr. rewrite Hr.
  cbn [bind]. rewrite (IH Ht). reflexivity.
Qed.

Lemma res_map_rejects : forall rs, forallb (fun r => negb (run_rejected r)) rs = false ->
  res_map merge_run rs = Err ENodeListEmpty.
Proof.
  induction rs as [|r t IH]; intros H; [discriminate|]. cbn [forallb] in H. cbn [res_map]. unfold merge_run at 1.
  destruct (run_rejected r); [reflexivity|]. cbn [negb andb bind] in *. rewrite (IH H). reflexivity.
Qed.

(* accepted inputs: never raises, and returns the joined maximal runs *)
Theorem merge_lang_accepted : forall caps, merge_accepts caps = true -> merge_lang caps = Ok (spec_merge_gen caps).
Proof. intros caps H. rewrite merge_lang_gen. apply res_map_accepts. exact H. Qed.

(* the error branch: every other input is refused with Caption()'s error *)
Theorem merge_lang_rejected : forall caps, merge_accepts caps = false -> merge_lang caps = Err ENodeListEmpty.
Proof. intros caps H. rewrite merge_lang_gen. apply res_map_rejects. exact H. Qed.

Theorem merge_lang_raises_iff : forall caps, (exists e, merge_lang caps = Err e) <-> merge_accepts caps = false.
Proof.
  intros caps. split.
  - intros [e H]. destruct (merge_accepts caps) eqn:A; [|reflexivity].
    rewrite (merge_lang_accepted caps A) in H. discriminate.
  - intros H. exists ENodeListEmpty. apply merge_lang_rejected. exact H.
Qed.

(* the domain of the statement lies inside the accepted inputs, and there the general join is the statement's join *)
Lemma runs_heads_nonempty : forall caps r, nodes_nonempty caps = true -> In r (runs caps) -> no_nodes (fst r) = false.
Proof.
  intros caps r H Hr. pose proof (runs_heads_in caps r Hr) as Hin.
  unfold nodes_nonempty in H. rewrite forallb_forall in H. specialize (H _ Hin).
  unfold no_nodes. destruct (c_nodes (fst r)); [discriminate|reflexivity].
Qed.

Theorem nodes_nonempty_accepted : forall caps, nodes_nonempty caps = true -> merge_accepts caps = true.
Proof.
  intros caps H. unfold merge_accepts. apply forallb_forall. intros r Hr. apply negb_true_iff.
  unfold run_rejected, run_caps. cbn [forallb]. rewrite (runs_heads_nonempty caps r H Hr). reflexivity.
Qed.

Lemma join_run_gen_eq : forall r, no_nodes (fst r) = false -> join_run_gen r = join_run r.
Proof.
  intros [c cs] H. unfold join_run_gen, join_run, run_caps, join_nodes_gen. cbn [fst snd map] in *.
  unfold no_nodes in H. destruct (c_nodes c); [discriminate|]. reflexivity.
Qed.

Theorem spec_merge_gen_eq : forall caps, nodes_nonempty caps = true -> spec_merge_gen caps = spec_merge_lang caps.
Proof.
  intros caps H. unfold spec_merge_gen, spec_merge_lang. apply map_ext_in. intros r Hr.
  apply join_run_gen_eq. apply (runs_heads_nonempty caps r H Hr).
Qed.

(* all languages: accepted iff every language is *)
Theorem merge_concurrent_accepted : forall langs, forallb merge_accepts langs = true ->
  merge_concurrent langs = Ok (map spec_merge_gen langs).
Proof.
  unfold merge_concurrent. induction langs as [|l t IH]; intros H; [reflexivity|].
  cbn [forallb] in H. apply andb_true_iff in H. destruct H as [Hl Ht].
  cbn [res_map map]. rewrite (merge_lang_accepted l Hl). cbn [bind]. rewrite (IH Ht). reflexivity.
Qed.

Theorem merge_concurrent_rejected : forall langs, forallb merge_accepts langs = false ->
  merge_concurrent langs = Err ENodeListEmpty.
Proof.
  unfold merge_concurrent. induction langs as [|l t IH]; intros H; [discriminate|].
  cbn [forallb] in H. cbn [res_map]. destruct (merge_accepts l) eqn:A.
  - rewrite (merge_lang_accepted l A). cbn [bind andb] in *. rewrite (IH H). reflexivity.
  - rewrite (merge_lang_rejected l A). reflexivity.
Qed.

(* ---------------- laws of merge on every accepted input ---------------- *)
Lemma runs_of_mapped : forall (j : caption * list caption -> caption),
  (forall r c, span_eqb (j r) c = span_eqb (fst r) c) ->
  forall rs, adjacent_distinct rs -> runs (map j rs) = map (fun r => (j r, [])) rs.
Proof.
  intros j Hj. induction rs as [|r1 t IH]; intros H; [reflexivity|].
  destruct t as [|r2 t'].
  - reflexivity.
  - destruct H as [H1 H2]. specialize (IH H2).
    change (runs (map j (r1 :: r2 :: t'))) with
      (match runs (map j (r2 :: t')) with
       | (d0, ds0) :: rest0 => if span_eqb (j r1) d0 then (j r1, d0 :: ds0) :: rest0
                               else (j r1, []) :: (d0, ds0) :: rest0
       | [] => [(j r1, [])] end).
    rewrite IH. cbn [map]. rewrite Hj. destruct r2 as [d2 ds2].
    assert (Hs : span_eqb (fst r1) (j (d2, ds2)) = false).
    { rewrite span_sym, Hj, span_sym. exact H1. }
    rewrite Hs. reflexivity.
Qed.

Lemma join_run_gen_span : forall r c, span_eqb (join_run_gen r) c = span_eqb (fst r) c.
Proof. intros r c. reflexivity. Qed.

Lemma join_run_gen_single : forall c, join_run_gen (c, []) = c.
Proof.
  intros [s e n]. unfold join_run_gen, run_caps, join_nodes_gen. cbn [fst snd map c_nodes c_start c_end].
  destruct n; reflexivity.
Qed.

Lemma runs_of_merged : forall caps, runs (spec_merge_gen caps) = map (fun r => (join_run_gen r, [])) (runs caps).
Proof. intros caps. apply (runs_of_mapped join_run_gen join_run_gen_span). apply runs_adjacent_distinct. Qed.

(* merging again changes nothing: on the joined runs themselves ... *)
Theorem merge_gen_idempotent : forall caps, spec_merge_gen (spec_merge_gen caps) = spec_merge_gen caps.
Proof.
  intros caps. unfold spec_merge_gen at 1. rewrite runs_of_merged, map_map. unfold spec_merge_gen.
  apply map_ext. intros r. apply join_run_gen_single.
Qed.

Lemma merged_accepted : forall caps, merge_accepts caps = true -> merge_accepts (spec_merge_gen caps) = true.
Proof.
  intros caps H. unfold merge_accepts in *. rewrite runs_of_merged, forallb_forall in *. intros r' Hr'.
  apply in_map_iff in Hr'. destruct Hr' as [r [<- Hr]]. specialize (H r Hr). apply negb_true_iff in H. apply negb_true_iff.
  unfold run_rejected, run_caps in *. cbn [fst snd forallb]. rewrite andb_true_r.
  unfold no_nodes, join_run_gen. cbn [c_nodes].
  destruct (join_nodes_gen (map c_nodes (run_caps r))) eqn:J; [|reflexivity].
  unfold run_caps in J. rewrite (proj1 (join_nodes_gen_nil (fst r :: snd r)) J) in H. discriminate.
Qed.

(* ... and for the function: every accepted input is accepted again and returned unchanged *)
Theorem merge_lang_idempotent_gen : forall caps m, merge_lang caps = Ok m -> merge_lang m = Ok m.
Proof.
  intros caps m H. destruct (merge_accepts caps) eqn:A.
  - rewrite (merge_lang_accepted caps A) in H. injection H as <-.
    rewrite (merge_lang_accepted _ (merged_accepted caps A)), merge_gen_idempotent. reflexivity.
  - rewrite (merge_lang_rejected caps A) in H. discriminate.
Qed.

(* text in order: the node values of a language, line breaks left out, are unchanged by merge *)
Definition nb (n : Z) : bool := negb (Z.eqb n brk).

Lemma filter_concat : forall (A : Type) (p : A -> bool) ls, filter p (concat ls) = concat (map (filter p) ls).
Proof.
  intros A p. induction ls as [|l t IH]; [reflexivity|]. cbn [concat map]. rewrite filter_app, IH. reflexivity.
Qed.

Lemma join_nodes_text : forall f o, filter nb (join_nodes f o) = filter nb (concat (f :: o)).
Proof.
  intros f o. revert f. induction o as [|x t IH]; intros f.
  - cbn. rewrite app_nil_r. reflexivity.
  - cbn [join_nodes concat]. rewrite !filter_app. change (brk :: join_nodes x t) with ([brk] ++ join_nodes x t).
    rewrite filter_app, IH. cbn [concat]. rewrite filter_app. reflexivity.
Qed.

Lemma join_nodes_gen_text : forall ls, filter nb (join_nodes_gen ls) = filter nb (concat ls).
Proof.
  unfold join_nodes_gen. induction ls as [|l t IH]; [reflexivity|].
  destruct l as [|x l']; [cbn [drop_empty concat app]; exact IH|].
  cbn [drop_empty]. apply join_nodes_text.
Qed.

Lemma runs_text : forall R,
  filter nb (concat (map c_nodes (map join_run_gen R))) = filter nb (concat (map c_nodes (concat (map run_caps R)))).
Proof.
  induction R as [|r t IH]; [reflexivity|].
  cbn [map concat]. rewrite map_app, concat_app, !filter_app, IH. f_equal.
  unfold join_run_gen. cbn [c_nodes]. apply join_nodes_gen_text.
Qed.

Theorem merge_keeps_text : forall caps, lang_text (spec_merge_gen caps) = lang_text caps.
Proof.
  intros caps. unfold lang_text. fold nb.
  rewrite <- (runs_partition caps) at 2. unfold spec_merge_gen. apply runs_text.
Qed.

Theorem merge_lang_keeps_text : forall caps m, merge_lang caps = Ok m -> lang_text m = lang_text caps.
Proof.
  intros caps m H. destruct (merge_accepts caps) eqn:A.
  - rewrite (merge_lang_accepted caps A) in H. injection H as <-. apply merge_keeps_text.
  - rewrite (merge_lang_rejected caps A) in H. discriminate.
Qed.

(* the merged list is a function of the ORDERED input only: concatenating the members of the runs gives the input back
   (runs_partition), and the result has one caption per run, in the order of the runs' first members *)
Theorem merge_heads_in_order : forall caps,
  map (fun c => (c_start c, c_end c)) (spec_merge_gen caps) = map (fun r => (c_start (fst r), c_end (fst r))) (runs caps).
Proof. intros caps. unfold spec_merge_gen. rewrite map_map. reflexivity. Qed.

(* ---------------- merge commutes with adjust (skew <> 0, nothing dropped) ---------------- *)
Lemma affine_inj : forall sk off a b, ~ sk == 0 -> (a * sk + off == b * sk + off <-> a == b).
Proof.
  intros sk off a b Hsk. split; intros H.
  - apply Qplus_inj_r in H. apply (Qmult_inj_r a b sk Hsk). exact H.
  - rewrite H. reflexivity.
Qed.

Lemma Qeq_bool_affine : forall sk off a b, ~ sk == 0 ->
  Qeq_bool (Qred (a * sk + off)) (Qred (b * sk + off)) = Qeq_bool a b.
Proof.
  intros sk off a b Hsk.
  destruct (Qeq_bool a b) eqn:E.
  - apply Qeq_bool_iff. apply Qeq_bool_iff in E. rewrite !Qred_correct. apply (affine_inj sk off a b Hsk). exact E.
  - destruct (Qeq_bool (Qred (a * sk + off)) (Qred (b * sk + off))) eqn:E2; [|reflexivity].
    apply Qeq_bool_iff in E2. rewrite !Qred_correct in E2. apply (affine_inj sk off a b Hsk) in E2.
    apply Qeq_bool_iff in E2. congruence.
Qed.

Lemma retime_span : forall sk off a b, ~ sk == 0 -> span_eqb (retime sk off a) (retime sk off b) = span_eqb a b.
Proof.
  intros sk off a b Hsk. unfold span_eqb, retime. cbn [c_start c_end]. rewrite !Qeq_bool_affine by exact Hsk. reflexivity.
Qed.

Definition retime_run (sk off : Q) (r : caption * list caption) : caption * list caption :=
  (retime sk off (fst r), map (retime sk off) (snd r)).

Lemma runs_retime : forall sk off caps, ~ sk == 0 ->
  runs (map (retime sk off) caps) = map (retime_run sk off) (runs caps).
Proof.
  intros sk off caps Hsk. induction caps as [|c t IH]; [reflexivity|].
  cbn [map runs]. rewrite IH. destruct (runs t) as [|[d ds] rest]; [reflexivity|].
  cbn [map]. unfold retime_run at 1. cbn [fst snd]. rewrite retime_span by exact Hsk.
  destruct (span_eqb c d); reflexivity.
Qed.

Lemma join_run_gen_retime : forall sk off r, join_run_gen (retime_run sk off r) = retime sk off (join_run_gen r).
Proof.
  intros sk off [c cs]. unfold join_run_gen, retime_run, run_caps, retime. cbn [fst snd c_start c_end c_nodes map].
  rewrite map_map. reflexivity.
Qed.

Lemma adjust_lang_kept : forall sk off caps, forallb (survives sk off) caps = true ->
  adjust_lang sk off caps = map (retime sk off) caps.
Proof.
  intros sk off caps H. rewrite adjust_lang_filter_map.
  induction caps as [|c t IH]; [reflexivity|]. cbn [forallb] in H. apply andb_true_iff in H. destruct H as [Hc Ht].
  cbn [map filter]. unfold survives in Hc.
  rewrite (Qle_bool_comp _ _ (proj1 (retime_affine sk off c))), Hc, (IH Ht). reflexivity.
Qed.

Lemma merged_survive : forall sk off caps, forallb (survives sk off) caps = true ->
  forallb (survives sk off) (spec_merge_gen caps) = true.
Proof.
  intros sk off caps H. rewrite forallb_forall in *. intros m Hm. unfold spec_merge_gen in Hm.
  apply in_map_iff in Hm. destruct Hm as [r [<- Hr]]. apply (H (fst r)). apply (runs_heads_in caps r Hr).
Qed.

Theorem merge_adjust_commute : forall sk off caps, ~ sk == 0 -> forallb (survives sk off) caps = true ->
  spec_merge_gen (adjust_lang sk off caps) = adjust_lang sk off (spec_merge_gen caps).
Proof.
  intros sk off caps Hsk H.
  rewrite (adjust_lang_kept _ _ _ H), (adjust_lang_kept _ _ _ (merged_survive _ _ _ H)).
  unfold spec_merge_gen. rewrite runs_retime by exact Hsk. rewrite !map_map. apply map_ext. intros r.
  apply join_run_gen_retime.
Qed.

Lemma forallb_map' : forall (A B : Type) (f : A -> B) (p : B -> bool) l,
  forallb p (map f l) = forallb (fun x => p (f x)) l.
Proof. intros A B f p. induction l as [|x t IH]; [reflexivity|]. cbn [map forallb]. rewrite IH. reflexivity. Qed.
Lemma forallb_ext' : forall (A : Type) (p q : A -> bool) l, (forall x, p x = q x) -> forallb p l = forallb q l.
Proof. intros A p q l H. induction l as [|x t IH]; [reflexivity|]. cbn [forallb]. rewrite H, IH. reflexivity. Qed.

Lemma accepts_retime : forall sk off caps, ~ sk == 0 ->
  merge_accepts (map (retime sk off) caps) = merge_accepts caps.
Proof.
  intros sk off caps Hsk. unfold merge_accepts. rewrite runs_retime by exact Hsk. rewrite forallb_map'.
  apply forallb_ext'. intros [c cs]. unfold run_rejected, retime_run, run_caps. cbn [fst snd forallb].
  rewrite forallb_map'. reflexivity.
Qed.

(* at the level of the two functions *)
Theorem merge_lang_adjust_commute : forall sk off caps m, ~ sk == 0 -> forallb (survives sk off) caps = true ->
  merge_lang caps = Ok m -> merge_lang (adjust_lang sk off caps) = Ok (adjust_lang sk off m).
Proof.
  intros sk off caps m Hsk H Hm. destruct (merge_accepts caps) eqn:A.
  - rewrite (merge_lang_accepted caps A) in Hm. injection Hm as <-.
    rewrite <- (merge_adjust_commute sk off caps Hsk H). apply merge_lang_accepted.
    rewrite (adjust_lang_kept _ _ _ H), accepts_retime by exact Hsk. exact A.
  - rewrite (merge_lang_rejected caps A) in Hm. discriminate.
Qed.
