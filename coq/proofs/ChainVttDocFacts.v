(* C08 (wave 6), string level, WebVTT: the writer model's document (escaping included), read back by the model of
   WebVTTReader's line loop with the reader's decoding of every text line, gives every cue with both times floored to the
   millisecond and its text lines unchanged - for lines the escaping leaves alone (no & < >). *)
From Coq Require Import List ZArith QArith Qround Lia Bool ZifyBool.
From PV Require Import lib.Sx lib.Str lib.Result lib.Dec.
From PV Require Import model.TimeRead spec.SpecTime proofs.TimeStrFacts proofs.TimeReadFacts proofs.TimeDocFacts.
From PV Require Import model.TimeWrite spec.SpecTimeW proofs.TimeWriteFacts.
From PV Require Import model.Chain spec.SpecChain proofs.ChainFacts proofs.ChainDocFacts proofs.ChainSrtDocFacts.
From PV Require model.TextWrite model.TextRead proofs.TextReadVttTagFacts proofs.TextReadEndVttFacts.
Import ListNotations.
Open Scope Z_scope.
#[local] Ltac Zify.zify_post_hook ::= Z.to_euclidean_division_equations.

(* ---- a pattern with a character the string lacks is never found ---------------------------------------------- *)
Lemma is_prefix_in : forall p s, is_prefix p s = true -> forall c, In c p -> In c s.
Proof.
  induction p as [|x p IH]; intros s H c Hc; [destruct Hc|].
  destruct s as [|y t]; cbn [is_prefix] in H; [discriminate|].
  apply andb_true_iff in H. destruct H as [E H]. destruct Hc as [<-|Hc]; [left; lia|right; apply (IH t H c Hc)].
Qed.

Lemma replace_aux_absent : forall c p r fuel s, In c p -> ~ In c s -> replace_aux fuel p r s = s.
Proof.
  intros c p r. induction fuel as [|f IH]; intros s Hp Hs; [reflexivity|].
  destruct s as [|x t]; [reflexivity|]. cbn [replace_aux].
  destruct (is_prefix p (x :: t)) eqn:E.
  - exfalso. apply Hs. apply (is_prefix_in p (x :: t) E c Hp).
  - f_equal. apply IH; [exact Hp|]. intros H. apply Hs. right. exact H.
Qed.

Lemma replace_absent : forall c p r s, In c p -> ~ In c s -> replace p r s = s.
Proof. intros c p r s Hp Hs. unfold replace. destruct p; [reflexivity|]. apply (replace_aux_absent c); assumption. Qed.

Lemma is_infix_in : forall p s, is_infix p s = true -> forall c, In c p -> In c s.
Proof.
  intros p. induction s as [|x t IH]; intros H c Hc; cbn [is_infix] in H; apply orb_true_iff in H; destruct H as [H|H].
  - apply (is_prefix_in p [] H c Hc).
  - discriminate.
  - apply (is_prefix_in p (x :: t) H c Hc).
  - right. apply (IH H c Hc).
Qed.

(* ---- the text domain: clean lines without & < > ------------------------------------------------------------------ *)
Definition plain_char (c : Z) : bool := negb ((c =? 38) || (c =? 60) || (c =? 62)).
Definition vtt_lines_ok (ls : list str) : bool := forallb (fun l => clean_line l && forallb plain_char l) ls.
Definition vtt_text_dom (cs : list (Z * Z * list str)) : bool := forallb (fun c => clean_lines (snd c) && vtt_lines_ok (snd c)) cs.

Lemma plain_not_in : forall l c, forallb plain_char l = true -> (c = 38 \/ c = 60 \/ c = 62) -> ~ In c l.
Proof.
  intros l c H Hc Hin. rewrite forallb_forall in H. specialize (H c Hin). unfold plain_char in H. lia.
Qed.

Lemma vtt_encode_plain : forall l, forallb plain_char l = true -> TextWrite.vtt_encode l = l.
Proof.
  intros l H. unfold TextWrite.vtt_encode.
  rewrite (replace_absent 38 (lit "&") _ l) by (first [left; reflexivity | apply plain_not_in; [exact H|lia]]).
  rewrite (replace_absent 60 (lit "<") _ l) by (first [left; reflexivity | apply plain_not_in; [exact H|lia]]).
  apply (replace_absent 62); [right; right; left; reflexivity | apply plain_not_in; [exact H|lia]].
Qed.

Lemma strip_clean : forall l, clean_line l = true -> strip l = l.
Proof.
  intros l H. destruct (clean_line_parts l H) as [_ [_ [[c [t [E1 Hc]]] [p [z [E2 [Hz _]]]]]]].
  apply (strip_ends l c t p z E1 E2 Hc Hz).
Qed.

Lemma vtt_decode_plain : forall l, clean_line l = true -> forallb plain_char l = true -> TextRead.vtt_decode true l = l.
Proof.
  intros l Hc Hp. unfold TextRead.vtt_decode. rewrite (strip_clean l Hc).
  assert (N60 : forallb (fun c => negb (c =? 60)) l = true).
  { apply forallb_forall. intros x Hx. rewrite forallb_forall in Hp. specialize (Hp x Hx). unfold plain_char in Hp. lia. }
  assert (V : TextRead.voice_sub l = l).
  { unfold TextRead.voice_sub. pose proof (TextReadEndVttFacts.voice_text l 1 [] N60) as V.
    rewrite app_nil_r in V. replace (length l + 1)%nat with (S (length l)) in V by lia. rewrite V.
    rewrite TextReadEndVttFacts.voice_sub_nil, app_nil_r. reflexivity. }
  rewrite V.
  assert (O : TextRead.other_sub true l = l).
  { unfold TextRead.other_sub. pose proof (TextReadVttTagFacts.other_sub_text l 1 [] N60) as O.
    rewrite app_nil_r in O. replace (length l + 1)%nat with (S (length l)) in O by lia. rewrite O.
    rewrite TextReadVttTagFacts.other_sub_nil, app_nil_r. reflexivity. }
  rewrite O. unfold TextRead.vtt_entities.
  assert (A : ~ In 38 l) by (apply plain_not_in; [exact Hp|lia]).
  rewrite (replace_absent 38 (lit "&lt;") _ l) by (first [left; reflexivity|exact A]).
  rewrite (replace_absent 38 (lit "&gt;") _ l) by (first [left; reflexivity|exact A]).
  rewrite (replace_absent 38 (lit "&lrm;") _ l) by (first [left; reflexivity|exact A]).
  rewrite (replace_absent 38 (lit "&rlm;") _ l) by (first [left; reflexivity|exact A]).
  rewrite (replace_absent 38 (lit "&nbsp;") _ l) by (first [left; reflexivity|exact A]).
  apply (replace_absent 38); [left; reflexivity|exact A].
Qed.

Lemma plain_line_spec_ok : forall l, clean_line l = true -> forallb plain_char l = true ->
  (text_line_ok l && no_arrow l) = true.
Proof.
  intros l Hc Hp. apply andb_true_iff. split.
  - unfold text_line_ok. destruct (clean_line_parts l Hc) as [NL [_ [[c [t [E1 _]]] _]]].
    rewrite no_linebreak_no_lb, NL. unfold visible_line. rewrite (strip_clean l Hc), E1. reflexivity.
  - unfold no_arrow. destruct (is_infix (lit "-->") l) eqn:E; [|reflexivity]. exfalso.
    apply (plain_not_in l 62 Hp); [lia|]. apply (is_infix_in _ _ E). right. right. left. reflexivity.
Qed.

(* ---- the timing tokens ---------------------------------------------------------------------------------------------- *)
Definition vtt_stamp_of (t : Z) : vtt_stamp :=
  let hh := t / 1000000 / 60 / 60 in
  mkVtt (if hh =? 0 then None else Some ((if hh <? 10 then 1%nat else 0%nat), hh))
        (t / 1000000 / 60 mod 60) (t / 1000000 mod 60) (t mod 1000000 / 1000).

Lemma vtt_ts_stamp : forall t, 0 <= t < 86400000000 ->
  vtt_ts (inject_Z t) = vtt_render_stamp (vtt_stamp_of t) /\ vtt_stamp_dom (vtt_stamp_of t) = true
  /\ us (vtt_shifted 0 (vtt_stamp_of t)) = fl 1000 t.
Proof.
  intros t Ht.
  pose proof (vtt_ts_shape (inject_Z t)) as H. rewrite rhe_int in H. specialize (H Ht). cbv zeta in H.
  unfold vtt_stamp_of. set (hh := t / 1000000 / 60 / 60) in *. set (m := t / 1000000 / 60 mod 60) in *.
  set (s := t / 1000000 mod 60) in *. set (ms := t mod 1000000 / 1000) in *.
  assert (Hh : 0 <= hh < 100) by (unfold hh; lia).
  assert (Hm : 0 <= m < 60) by (unfold m; lia). assert (Hs : 0 <= s < 60) by (unfold s; lia).
  assert (Hms : 0 <= ms < 1000) by (unfold ms; lia).
  split; [|split].
  - rewrite H. unfold vtt_render_stamp. cbn [vt_h vt_m vt_s vt_ms]. destruct (hh =? 0); [reflexivity|].
    rewrite (two_padded hh Hh). rewrite <- app_assoc. reflexivity.
  - unfold vtt_stamp_dom. cbn [vt_h vt_m vt_s vt_ms]. destruct (hh =? 0) eqn:E; lia.
  - rewrite vtt_shift_exact. unfold vtt_instant. cbn [vt_h vt_m vt_s vt_ms]. rewrite us_split.
    destruct (hh =? 0) eqn:E; unfold secs, fl; unfold hh, m, s, ms in *; lia.
Qed.

Definition vtt_cue_of (c : Z * Z * list str) : vtt_cue :=
  let '(s, e, lines) := c in mkVttCue [] (vtt_stamp_of s) (vtt_stamp_of e) [32] [32] None lines 0.

Lemma map_id_on : forall (f : str -> str) ls, (forall l, In l ls -> f l = l) -> map f ls = ls.
Proof. intros f ls H. induction ls as [|a t IH]; [reflexivity|]. cbn [map]. rewrite H by (left; reflexivity). f_equal. apply IH. intros l Hl. apply H. right. exact Hl. Qed.

Lemma vtt_lines_encode : forall ls, vtt_lines_ok ls = true -> map TextWrite.vtt_encode ls = ls.
Proof.
  intros ls H. apply map_id_on. intros l Hl. unfold vtt_lines_ok in H. rewrite forallb_forall in H.
  specialize (H l Hl). apply andb_true_iff in H. apply vtt_encode_plain. apply H.
Qed.
Lemma vtt_lines_decode : forall ls, vtt_lines_ok ls = true -> map (TextRead.vtt_decode true) ls = ls.
Proof.
  intros ls H. apply map_id_on. intros l Hl. unfold vtt_lines_ok in H. rewrite forallb_forall in H.
  specialize (H l Hl). apply andb_true_iff in H. destruct H as [H1 H2]. apply vtt_decode_plain; assumption.
Qed.

(* the cue string followed by the joining line feed is a rendered cue; without it, the cue's lines without a blank *)
Lemma vtt_cue_lines_plain : forall s e ls, 0 <= s < 86400000000 -> 0 <= e < 86400000000 -> ls <> [] -> vtt_lines_ok ls = true ->
  vtt_write_cue (s, e, ls) = flat_map (fun l => l ++ [10]) (vtt_timing (vtt_cue_of (s, e, ls)) :: ls).
Proof.
  intros s e ls Hs He Hl Hok. unfold vtt_write_cue, vtt_timing, vtt_cue_of.
  cbn [vc_t0 vc_t1 vc_ws1 vc_ws2 vc_settings flat_map].
  destruct (vtt_ts_stamp s Hs) as [-> _]. destruct (vtt_ts_stamp e He) as [-> _].
  rewrite (vtt_lines_encode ls Hok), (join_nl ls Hl).
  rewrite <- ?app_assoc. cbn [app]. rewrite ?app_nil_r. reflexivity.
Qed.

Lemma vtt_cue_of_dom : forall s e ls, 0 <= s < 86400000000 -> 0 <= e < 86400000000 -> ls <> [] -> vtt_lines_ok ls = true ->
  vtt_cue_dom (vtt_cue_of (s, e, ls)) = true.
Proof.
  intros s e ls Hs He Hl Hok. unfold vtt_cue_dom, vtt_cue_of.
  cbn [vc_t0 vc_t1 vc_lines vc_pre vc_settings vc_ws1 vc_ws2 forallb].
  destruct (vtt_ts_stamp s Hs) as [_ [-> _]]. destruct (vtt_ts_stamp e He) as [_ [-> _]].
  assert (L : forallb (fun l => text_line_ok l && no_arrow l) ls = true).
  { apply forallb_forall. intros l Hin. unfold vtt_lines_ok in Hok. rewrite forallb_forall in Hok.
    specialize (Hok l Hin). apply andb_true_iff in Hok. destruct Hok. apply plain_line_spec_ok; assumption. }
  rewrite L. destruct ls; [congruence|]. reflexivity.
Qed.

(* ---- whole documents ---------------------------------------------------------------------------------------------- *)
Lemma join_snoc : forall (l : list str) x, join [10] (l ++ [x]) = flat_map (fun y => y ++ [10]) l ++ x.
Proof.
  induction l as [|a t IH]; intros x; [reflexivity|].
  cbn [app flat_map]. rewrite <- app_assoc, <- IH.
  remember (t ++ [x]) as r eqn:Er. destruct r as [|b r']; [destruct t; discriminate|].
  change (join [10] (a :: b :: r')) with (a ++ [10] ++ join [10] (b :: r')). rewrite <- app_assoc. reflexivity.
Qed.

Lemma vtt_last_cue_process : forall c caps s0 e0, vtt_cue_dom c = true ->
  vtt_loop false (0 * 1000) (vc_pre c ++ vtt_timing c :: vc_lines c) (mkVS caps s0 e0 [] false)
  = Ok (mkVS caps (us (vtt_shifted 0 (vc_t0 c))) (us (vtt_shifted 0 (vc_t1 c))) (vc_lines c) true).
Proof.
  intros c caps s0 e0 Hd. unfold vtt_cue_dom in Hd.
  apply andb_true_iff in Hd. destruct Hd as [Hd W2].
  apply andb_true_iff in Hd. destruct Hd as [Hd W1].
  apply andb_true_iff in Hd. destruct Hd as [Hd Hset].
  apply andb_true_iff in Hd. destruct Hd as [Hd Hpre].
  apply andb_true_iff in Hd. destruct Hd as [Hd Hne].
  apply andb_true_iff in Hd. destruct Hd as [Hd Hl].
  apply andb_true_iff in Hd. destruct Hd as [H0 H1].
  rewrite vtt_loop_app. rewrite vtt_loop_idle by exact Hpre. cbn [bind vtt_loop].
  assert (TL : vtt_step false (0 * 1000) (mkVS caps s0 e0 [] false) (vtt_timing c)
               = Ok (mkVS caps (us (vtt_shifted 0 (vc_t0 c))) (us (vtt_shifted 0 (vc_t1 c))) [] true)).
  { unfold vtt_step.
    assert (INF : is_infix (lit "-->") (vtt_timing c) = true).
    { unfold vtt_timing. rewrite app_assoc. rewrite <- !app_assoc. rewrite app_assoc. apply is_infix_hit. }
    rewrite INF. cbn [vs_caps vs_nodes]. unfold vtt_timing.
    rewrite (vtt_timing_exact false (0 * 1000) (vc_t0 c) (vc_t1 c) (vc_ws1 c) (vc_ws2 c) _ (last_start caps) H0 H1 W1 W2).
    - cbn [bind fst snd]. rewrite !vtt_shift_exact. reflexivity.
    - destruct (vc_settings c); [right; eexists; reflexivity|left; reflexivity].
    - intros Hs. discriminate Hs. }
  rewrite TL. cbn [bind]. rewrite vtt_loop_text by exact Hl. reflexivity.
Qed.

Lemma vtt_cues_render : forall cs lo, 0 <= lo -> dom_u 1000 lo (times_of_caps cs) -> vtt_text_dom cs = true ->
  flat_map (fun y => y ++ [10]) (map vtt_write_cue cs) = flat_map (vtt_render_cue false) (map vtt_cue_of cs)
  /\ forallb vtt_cue_dom (map vtt_cue_of cs) = true
  /\ vtt_expected_caps 0 (map vtt_cue_of cs) = floor_caps 1000 cs.
Proof.
  induction cs as [|[[s e] ls] t IH]; intros lo Hlo D T; [repeat split|].
  cbn [times_of_caps map fst snd dom_u] in D. destruct D as [D1 [D2 [D3 [D4 D5]]]].
  cbn [vtt_text_dom forallb snd] in T. apply andb_true_iff in T. destruct T as [Tc Tr].
  apply andb_true_iff in Tc. destruct Tc as [Tc1 Tc2].
  assert (Hs : 0 <= s < 86400000000) by lia. assert (He : 0 <= e < 86400000000) by lia.
  assert (Hl : ls <> []) by (unfold clean_lines in Tc1; destruct ls; [discriminate|discriminate]).
  destruct (IH e ltac:(lia) D5 Tr) as [I1 [I2 I3]].
  cbn [map flat_map]. split; [|split].
  - rewrite I1. f_equal. rewrite vtt_render_cue_lines. unfold vtt_cue_lines.
    rewrite (vtt_cue_lines_plain s e ls Hs He Hl Tc2).
    replace (vc_pre (vtt_cue_of (s, e, ls))) with (@nil str) by reflexivity.
    replace (vc_gap (vtt_cue_of (s, e, ls))) with 0%nat by reflexivity.
    replace (vc_lines (vtt_cue_of (s, e, ls))) with ls by reflexivity.
    cbn [app repeat].
    change (vtt_timing (vtt_cue_of (s, e, ls)) :: ls ++ [[]]) with ((vtt_timing (vtt_cue_of (s, e, ls)) :: ls) ++ [[]]).
    rewrite flat_map_app. reflexivity.
  - cbn [forallb]. rewrite I2, (vtt_cue_of_dom s e ls Hs He Hl Tc2). reflexivity.
  - cbn [vtt_expected_caps flat_map]. fold (vtt_expected_caps 0 (map vtt_cue_of t)). rewrite I3.
    unfold floor_caps. cbn [map fst snd vtt_cue_of vc_lines vc_t0 vc_t1].
    destruct (vtt_ts_stamp s Hs) as [_ [_ ->]]. destruct (vtt_ts_stamp e He) as [_ [_ ->]].
    destruct ls as [|l0 lr]; [congruence|]. reflexivity.
Qed.

Lemma decode_floor_caps : forall cs, vtt_text_dom cs = true ->
  map (fun c : rcap => (fst c, map (TextRead.vtt_decode true) (snd c))) (floor_caps 1000 cs) = floor_caps 1000 cs.
Proof.
  induction cs as [|[[s e] ls] t IH]; intros T; [reflexivity|].
  cbn [vtt_text_dom forallb snd] in T. apply andb_true_iff in T. destruct T as [Tc Tr].
  apply andb_true_iff in Tc. destruct Tc as [_ Tc2].
  unfold floor_caps in *. cbn [map fst snd]. rewrite (vtt_lines_decode ls Tc2). f_equal. apply IH. exact Tr.
Qed.

Lemma finish_decode : forall (f : rcap -> rcap) (X : list rcap), X <> [] -> map f X = X ->
  match no_captions_if_empty (Ok X) with Ok caps => Ok (map f caps) | Err e => Err e end = read_result X.
Proof.
  intros f [|x t] H E; [congruence|]. unfold no_captions_if_empty, read_result. cbv beta iota. rewrite E. reflexivity.
Qed.

(* WebVTT write, then read: every cue comes back with both times floored to the millisecond and its text lines unchanged *)
Theorem vtt_roundtrip_string : forall cs,
  dom_u 1000 0 (times_of_caps cs) -> vtt_text_dom cs = true ->
  vtt_read_doc (vtt_write_doc cs) = read_result (floor_caps 1000 cs).
Proof.
  intros cs D T. destruct (last_or_nil _ cs) as [->|[init [c ->]]]; [reflexivity|].
  pose proof (decode_floor_caps _ T) as DEC.
  destruct (vtt_cues_render (init ++ [c]) 0 ltac:(lia) D T) as [_ [W2 W3]].
  assert (Di : dom_u 1000 0 (times_of_caps init)).
  { unfold times_of_caps in *. rewrite map_app in D. eapply dom_u_app; exact D. }
  assert (Ti : vtt_text_dom init = true).
  { unfold vtt_text_dom in *. rewrite forallb_app in T. apply andb_true_iff in T. apply T. }
  destruct (vtt_cues_render init 0 ltac:(lia) Di Ti) as [V1 [V2 _]].
  rewrite map_app, forallb_app in W2. apply andb_true_iff in W2. destruct W2 as [_ Wc].
  cbn [map forallb] in Wc. rewrite andb_true_r in Wc.
  rewrite <- W3 in *. clear W3. rewrite map_app in *. cbn [map] in *.
  set (cc := vtt_cue_of c) in *. set (ci := map vtt_cue_of init) in *.
  assert (DOC : vtt_write_doc (init ++ [c])
                = flat_map (fun l => l ++ nl_of false)
                    (lit "WEBVTT" :: [] :: flat_map vtt_cue_lines ci ++ vtt_timing cc :: vc_lines cc)).
  { unfold vtt_write_doc. rewrite map_app. cbn [map]. rewrite join_snoc, V1.
    destruct c as [[s e] ls].
    assert (Hc : 0 <= s < 86400000000 /\ 0 <= e < 86400000000 /\ ls <> [] /\ vtt_lines_ok ls = true).
    { unfold vtt_text_dom in T. rewrite forallb_app in T. apply andb_true_iff in T. destruct T as [_ T].
      cbn [forallb snd] in T. rewrite andb_true_r in T. apply andb_true_iff in T. destruct T as [T1 T2].
      unfold times_of_caps in D. rewrite map_app in D. cbn [map fst snd] in D.
      assert (G : forall a lo, dom_u 1000 lo (a ++ [(s, e)]) -> 0 <= lo -> 0 <= s < 86400000000 /\ 0 <= e < 86400000000).
      { induction a as [|[s' e'] a' IHa]; intros lo Da Hlo; cbn [app dom_u] in Da.
        - lia.
        - destruct Da as (A1 & A2 & A3 & A4 & A5). apply (IHa e' A5). lia. }
      destruct (G _ 0 D ltac:(lia)) as [G1 G2]. repeat split; try lia; try exact T2.
      unfold clean_lines in T1. destruct ls; [discriminate|discriminate]. }
    destruct Hc as (Hs & He & Hl & Hok).
    rewrite (vtt_cue_lines_plain s e ls Hs He Hl Hok).
    cbn [flat_map]. change (nl_of false) with [10]. rewrite flat_map_app.
    pose proof (vtt_render_cues_lines false ci) as R. change (nl_of false) with [10] in R.
    rewrite R. subst cc. cbn [flat_map app]. replace (vc_lines (vtt_cue_of (s, e, ls))) with ls by reflexivity.
    rewrite <- ?app_assoc. cbn [app]. reflexivity. }
  unfold vtt_read_doc, vtt_read. rewrite DOC.
  assert (NL : forallb no_lb (lit "WEBVTT" :: [] :: flat_map vtt_cue_lines ci ++ vtt_timing cc :: vc_lines cc) = true).
  { cbn [forallb]. change (no_lb (lit "WEBVTT")) with true. change (no_lb []) with true. cbn [andb].
    rewrite forallb_app. apply andb_true_iff. split.
    - apply forallb_forall. intros l Hl. apply in_flat_map in Hl. destruct Hl as [x [Hx Hin]].
      pose proof (vtt_cue_lines_no_lb x) as N. rewrite forallb_forall in V2. specialize (N (V2 x Hx)).
      rewrite forallb_forall in N. apply N. exact Hin.
    - pose proof (vtt_cue_lines_no_lb cc Wc) as N. unfold vtt_cue_lines in N.
      replace (vc_pre cc) with (@nil str) in N by (unfold cc; destruct c as [[? ?] ?]; reflexivity).
      cbn [app] in N.
      change (vtt_timing cc :: vc_lines cc ++ repeat [] (S (vc_gap cc)))
        with ((vtt_timing cc :: vc_lines cc) ++ repeat [] (S (vc_gap cc))) in N.
      rewrite forallb_app in N. apply andb_true_iff in N. apply N. }
  rewrite (splitlines_lines false _ NL).
  cbn [vtt_loop]. rewrite vtt_step_idle by reflexivity. cbn [bind]. rewrite vtt_step_idle by reflexivity. cbn [bind].
  rewrite vtt_loop_app.
  destruct (vtt_loop_cues false 0 ci [] 0 0 V2 ltac:(intros Hs; discriminate Hs)) as [s1 [e1 E]].
  rewrite E. cbn [bind app].
  pose proof (vtt_last_cue_process cc (vtt_expected_caps 0 ci) s1 e1 Wc) as L.
  replace (vc_pre cc) with (@nil str) in L by (unfold cc; destruct c as [[? ?] ?]; reflexivity). cbn [app] in L.
  rewrite L. cbn [bind vs_nodes vs_caps vs_start vs_end].
  assert (Hne : vc_lines cc <> []).
  { unfold vtt_cue_dom in Wc. repeat (apply andb_true_iff in Wc; destruct Wc as [Wc ?]).
    destruct (vc_lines cc); [discriminate|discriminate]. }
  assert (EXP : vtt_expected_caps 0 (ci ++ [cc])
                = vtt_expected_caps 0 ci ++ [(us (vtt_shifted 0 (vc_t0 cc)), us (vtt_shifted 0 (vc_t1 cc)), vc_lines cc)]).
  { unfold vtt_expected_caps. rewrite flat_map_app. cbn [flat_map]. rewrite app_nil_r.
    destruct (vc_lines cc); [congruence|reflexivity]. }
  rewrite EXP in DEC |- *.
  destruct (vc_lines cc) as [|l0 lr] eqn:EL; [congruence|].
  apply (finish_decode (fun c : rcap => (fst c, map (TextRead.vtt_decode true) (snd c)))
           (vtt_expected_caps 0 ci ++ [(us (vtt_shifted 0 (vc_t0 cc)), us (vtt_shifted 0 (vc_t1 cc)), l0 :: lr)])).
  - destruct (vtt_expected_caps 0 ci); discriminate.
  - exact DEC.
Qed.

(* ---- chains over SRT, MicroDVD and WebVTT at document level: times AND text -------------------------------------- *)
Definition line_fmt3 (f : fmt) : bool := match f with FSrt | FMdvd | FVtt => true | _ => false end.

Theorem run_doc_text3 : forall chain cs lo, forallb line_fmt3 chain = true -> cs <> [] -> 0 <= lo ->
  dom_u 40000 lo (times_of_caps cs) -> text_dom cs = true -> srt_text_dom cs = true -> vtt_text_dom cs = true ->
  exists out, run_doc chain cs = Ok out /\ times_of_caps out = run chain (times_of_caps cs) /\ map snd out = map snd cs.
Proof.
  induction chain as [|f t IH]; intros cs lo Hc Hne Hlo D T1 T2 T3.
  - exists cs. repeat split.
  - cbn [forallb] in Hc. apply andb_true_iff in Hc. destruct Hc as [Hf Ht].
    assert (HOP : hop_doc f cs = Ok (floor_caps (unit_of f) cs)).
    { destruct f; try discriminate Hf; cbn [hop_doc unit_of].
      - rewrite (srt_roundtrip_string cs (dom_u_1000 _ lo Hlo D) T2). fold (floor_caps 1000 cs).
        unfold read_result, floor_caps. destruct cs; [congruence|reflexivity].
      - rewrite (vtt_roundtrip_string cs (dom_u_1000 _ lo Hlo D) T3).
        unfold read_result, floor_caps. destruct cs; [congruence|reflexivity].
      - rewrite (mdvd_roundtrip_string cs (dom_u_weaken 40000 lo 0 _ Hlo D) T1). fold (floor_caps 40000 cs).
        unfold read_result, floor_caps. destruct cs; [congruence|reflexivity]. }
    assert (PI : pi f (times_of_caps cs) = map (pi_pt (unit_of f)) (times_of_caps cs)) by (destruct f; try discriminate Hf; reflexivity).
    assert (Uf : unit_of f <= 40000) by (destruct f; cbn; lia).
    destruct (hop_exact f 40000 lo (times_of_caps cs) (or_intror eq_refl) Uf Hlo D) as [_ D'].
    rewrite PI, <- floor_caps_times in D'.
    assert (Hne' : floor_caps (unit_of f) cs <> []) by (unfold floor_caps; destruct cs; [congruence|discriminate]).
    assert (Hlo' : 0 <= fl (unit_of f) lo) by (unfold fl; destruct f; cbn [unit_of]; lia).
    destruct (IH (floor_caps (unit_of f) cs) (fl (unit_of f) lo) Ht Hne' Hlo' D') as [out [R1 [R2 R3]]].
    + unfold text_dom. rewrite (forallb_snd clean_lines _ cs (floor_caps_texts _ cs)). exact T1.
    + unfold srt_text_dom. rewrite (forallb_snd srt_lines_ok _ cs (floor_caps_texts _ cs)). exact T2.
    + unfold vtt_text_dom.
      rewrite (forallb_snd (fun ls => clean_lines ls && vtt_lines_ok ls) _ cs (floor_caps_texts _ cs)). exact T3.
    + exists out. cbn [run_doc]. rewrite HOP. split; [exact R1|]. split.
      * rewrite R2, floor_caps_times, <- PI. reflexivity.
      * rewrite R3. apply floor_caps_texts.
Qed.
