(* DeepcopyFacts.v - deepcopy is structure preserving: the snapshot of the copy equals the snapshot of the original,
   for every store (sharing and cycles included), every fuel of deepcopy that suffices, every fuel of snap.
   Proof: the memo is, at the end, a simulation between the original objects and their copies. *)
From Coq Require Import List ZArith Bool Arith Lia.
From PV Require Import lib.Sx lib.Str model.Store proofs.StoreFacts.
Import ListNotations.

Definition vrel (m : memo) (v v' : val) : Prop :=
  match v with
  | VLoc a => exists b, mlookup a m = Some b /\ v' = VLoc b
  | _ => v' = v
  end.

Definition irel (m : memo) (its its' : list (val * val)) : Prop :=
  Forall2 (fun kv kv' => vrel m (fst kv) (fst kv') /\ vrel m (snd kv) (snd kv')) its its'.

(* b is a finished copy of a *)
Definition copied (st0 st : store) (m : memo) (a b : loc) : Prop :=
  exists o o', get st0 a = Some o /\ get st b = Some o' /\ o_kind o' = o_kind o /\ irel m (o_items o) (o_items o').

Definition mext (m m' : memo) : Prop := forall a b, mlookup a m = Some b -> mlookup a m' = Some b.
(* entries of m' that are not in m have targets >= n *)
Definition mnew (n : nat) (m m' : memo) : Prop :=
  forall a b, mlookup a m' = Some b -> mlookup a m = Some b \/ (n <= b)%nat.

(* pend: the (original, copy) pairs whose copy is still being filled (the recursion stack) *)
Definition J (st0 st : store) (m : memo) (pend : list (loc * loc)) : Prop :=
  forall a b, mlookup a m = Some b -> (a < length st0)%nat /\ (In (a, b) pend \/ copied st0 st m a b).

Lemma vrel_mext : forall m m' v v', mext m m' -> vrel m v v' -> vrel m' v v'.
Proof. intros m m' [] v' H Hv; simpl in *; auto. destruct Hv as (b & A & B). exists b. auto. Qed.

Lemma irel_mext : forall m m' its its', mext m m' -> irel m its its' -> irel m' its its'.
Proof.
  intros m m' its its' H Hi. unfold irel in *. induction Hi; constructor; auto.
  destruct H0. split; eapply vrel_mext; eauto.
Qed.

Lemma copied_mono : forall st0 st st' m m' a b,
  mext m m' -> (forall o, get st b = Some o -> get st' b = Some o) -> copied st0 st m a b -> copied st0 st' m' a b.
Proof.
  intros st0 st st' m m' a b Hm Hg (o & o' & A & B & C & D).
  exists o, o'. repeat split; auto. eapply irel_mext; eauto.
Qed.

Lemma mext_refl : forall m, mext m m.
Proof. intros m a b H. exact H. Qed.
Lemma mext_trans : forall m1 m2 m3, mext m1 m2 -> mext m2 m3 -> mext m1 m3.
Proof. intros m1 m2 m3 A B a b H. auto. Qed.
Lemma mnew_refl : forall n m, mnew n m m.
Proof. intros n m a b H. left. exact H. Qed.
Lemma mnew_trans : forall n n' m1 m2 m3, (n <= n')%nat -> mnew n m1 m2 -> mnew n' m2 m3 -> mnew n m1 m3.
Proof.
  intros n n' m1 m2 m3 Hn A B a b H. destruct (B a b H) as [H2|H2]; [|right; lia].
  apply A. exact H2.
Qed.

Ltac split6 := split; [|split; [|split; [|split; [|split]]]].

Definition dcs_spec (st0 : store) (rec : store -> memo -> val -> dcres val) : Prop :=
  forall st m v st' m' v' pend,
    wf st0 -> inv st0 st -> memo_inr (length st0) (length st) m -> J st0 st m pend ->
    below (length st0) v ->
    rec st m v = Some (st', m', v') ->
    agree_below (length st) st st' /\ (length st <= length st')%nat /\
    J st0 st' m' pend /\ mext m m' /\ mnew (length st) m m' /\ vrel m' v v'.

Lemma J_frame : forall st0 st st' m m' pend,
  J st0 st m pend -> mext m m' -> agree_below (length st) st st' ->
  forall a b, mlookup a m = Some b -> (a < length st0)%nat /\ (In (a, b) pend \/ copied st0 st' m' a b).
Proof.
  intros st0 st st' m m' pend HJ Hm Ha a b H. destruct (HJ a b H) as [A [B|B]]; split; auto.
  right. eapply copied_mono; [exact Hm| |exact B].
  intros o Hg. rewrite Ha; auto. eapply get_some_lt; eauto.
Qed.

Lemma dcs_items : forall st0 rec, dcs_spec st0 rec ->
  forall its st m st' m' its' pend,
    wf st0 -> inv st0 st -> memo_inr (length st0) (length st) m -> J st0 st m pend ->
    items_below (length st0) its ->
    dc_spec st0 rec ->
    dc_items rec its st m = Some (st', m', its') ->
    agree_below (length st) st st' /\ (length st <= length st')%nat /\
    J st0 st' m' pend /\ mext m m' /\ mnew (length st) m m' /\ irel m' its its'.
Proof.
  intros st0 rec Hrec. induction its as [|[k x] t IH]; intros st m st' m' its' pend Hwf Hinv Hm HJ Hb Hdc H; simpl in H.
  - inversion H; subst. split6; auto.
    + intros l _. reflexivity.
    + apply mext_refl.
    + apply mnew_refl.
    + constructor.
  - destruct (rec st m k) as [[[st1 m1] k']|] eqn:E1; [|discriminate].
    destruct (rec st1 m1 x) as [[[st2 m2] x']|] eqn:E2; [|discriminate].
    destruct (dc_items rec t st2 m2) as [[[st3 m3] t']|] eqn:E3; [|discriminate].
    inversion H; subst. clear H.
    inversion Hb as [|? ? [Hbk Hbx] Hbt]; subst. simpl in Hbk, Hbx.
    destruct (Hdc _ _ _ _ _ _ Hinv Hm E1) as (I1 & M1 & _ & _).
    destruct (Hrec _ _ _ _ _ _ pend Hwf Hinv Hm HJ Hbk E1) as (A1 & L1 & J1 & X1 & N1 & V1).
    destruct (Hdc _ _ _ _ _ _ I1 M1 E2) as (I2 & M2 & _ & _).
    destruct (Hrec _ _ _ _ _ _ pend Hwf I1 M1 J1 Hbx E2) as (A2 & L2 & J2 & X2 & N2 & V2).
    destruct (IH _ _ _ _ _ pend Hwf I2 M2 J2 Hbt Hdc E3) as (A3 & L3 & J3 & X3 & N3 & V3).
    split; [|split; [|split; [|split; [|split]]]].
    + intros l Hl. rewrite A3 by lia. rewrite A2 by lia. apply A1. exact Hl.
    + lia.
    + exact J3.
    + eapply mext_trans; [exact X1|]. eapply mext_trans; eauto.
    + eapply (mnew_trans (length st) (length st1)); [lia|exact N1|].
      eapply (mnew_trans (length st1) (length st2)); [lia|exact N2|exact N3].
    + constructor; [|exact V3]. simpl. split.
      * eapply vrel_mext; [|exact V1]. eapply mext_trans; eauto.
      * eapply vrel_mext; [|exact V2]. exact X3.
Qed.

Lemma mlookup_cons_other : forall l l' a m, a <> l -> mlookup a ((l, l') :: m) = mlookup a m.
Proof. intros. simpl. destruct (Nat.eqb a l) eqn:E; auto. apply Nat.eqb_eq in E. congruence. Qed.

Lemma mlookup_cons_same : forall l l' m, mlookup l ((l, l') :: m) = Some l'.
Proof. intros. simpl. rewrite Nat.eqb_refl. reflexivity. Qed.

Lemma dcs_scalar : forall st0 st m v pend,
  J st0 st m pend -> (match v with VLoc _ => False | _ => True end) ->
  agree_below (length st) st st /\ (length st <= length st)%nat /\
  J st0 st m pend /\ mext m m /\ mnew (length st) m m /\ vrel m v v.
Proof.
  intros st0 st m v pend HJ Hv. split6; auto using mext_refl, mnew_refl.
  - intros l _. reflexivity.
  - destruct v; simpl; auto. contradiction.
Qed.

Lemma dcs_hit : forall st0 st m l l' pend,
  J st0 st m pend -> mlookup l m = Some l' ->
  agree_below (length st) st st /\ (length st <= length st)%nat /\
  J st0 st m pend /\ mext m m /\ mnew (length st) m m /\ vrel m (VLoc l) (VLoc l').
Proof.
  intros st0 st m l l' pend HJ Hl. split6; auto using mext_refl, mnew_refl.
  - intros x _. reflexivity.
  - simpl. exists l'. auto.
Qed.

Lemma dcs_dcv : forall st0 fuel, dcs_spec st0 (dcv fuel).
Proof.
  intros st0. induction fuel as [|f IH]; intros st m v st' m' v' pend Hwf Hinv Hm HJ Hb H.
  - destruct v as [| | |l]; simpl in H; try (inversion H; subst; apply dcs_scalar; auto; exact I).
    destruct (mlookup l m) as [l'|] eqn:El; [|discriminate].
    inversion H; subst. apply dcs_hit; auto.
  - destruct v as [| | |l]; simpl in H; try (inversion H; subst; apply dcs_scalar; auto; exact I).
    destruct (mlookup l m) as [l'|] eqn:El.
    { inversion H; subst. apply dcs_hit; auto. }
    destruct (get st l) as [o|] eqn:Hg; [|discriminate].
    destruct (dc_items (dcv f) (o_items o) (st ++ [mkObj (o_kind o) []]) ((l, length st) :: m))
      as [[[st2 m2] its']|] eqn:E; [|discriminate].
    injection H as Hs' Hm' Hv'. subst st' m' v'.
    simpl in Hb.
    pose proof (inv_len _ _ Hinv) as Hlen.
    assert (Hg0 : get st0 l = Some o). { rewrite <- (inv_agree _ _ Hinv l Hb). exact Hg. }
    remember (length st) as l' eqn:El'.
    remember (st ++ [mkObj (o_kind o) []]) as st1 eqn:Est1.
    remember ((l, l') :: m) as m1 eqn:Em1.
    assert (Hempty : items_inr (length st0) (length st) (o_items (mkObj (o_kind o) []))) by constructor.
    destruct (inv_alloc st0 st (mkObj (o_kind o) []) Hinv Hempty) as [I1 V1]. rewrite <- Est1, <- El' in *.
    assert (Lst1 : length st1 = S l'). { subst st1 l'. rewrite app_length. simpl. lia. }
    assert (M1 : memo_inr (length st0) (length st1) m1).
    { subst m1. constructor; [simpl in *; exact V1|]. eapply memo_inr_mono; [exact Hm|]. lia. }
    assert (X01 : mext m m1).
    { intros a b Hab. subst m1. rewrite mlookup_cons_other; auto. intros ->. congruence. }
    assert (A01 : agree_below (length st) st st1).
    { intros x Hx. subst st1. apply get_app_l. exact Hx. }
    assert (J1 : J st0 st1 m1 ((l, l') :: pend)).
    { intros a b Hab. destruct (Nat.eq_dec a l) as [->|Hne].
      - subst m1. rewrite mlookup_cons_same in Hab. inversion Hab; subst b. split; [exact Hb|left; left; reflexivity].
      - subst m1. rewrite mlookup_cons_other in Hab by assumption.
        destruct (J_frame _ _ _ _ _ _ HJ X01 A01 a b Hab) as [P [Q|Q]]; split; auto. left. right. exact Q. }
    assert (Hbi : items_below (length st0) (o_items o)) by (apply (Hwf l o Hg0)).
    destruct (dcs_items st0 (dcv f) IH _ _ _ _ _ _ ((l, l') :: pend) Hwf I1 M1 J1 Hbi (dcv_spec st0 f) E)
      as (A2 & L2 & J2 & X2 & N2 & V2).
    assert (Hl'2 : (l' < length st2)%nat) by lia.
    assert (Hlm2 : mlookup l m2 = Some l'). { apply X2. subst m1. apply mlookup_cons_same. }
    (* the only memo entry with target l' is (l, l') *)
    assert (Honly : forall a, mlookup a m2 = Some l' -> a = l).
    { intros a Ha. destruct (N2 a l' Ha) as [R|R]; [|lia].
      destruct (Nat.eq_dec a l) as [|Hne]; auto. exfalso.
      subst m1. rewrite mlookup_cons_other in R by assumption.
      pose proof (mlookup_inr _ _ _ _ _ Hm R). lia. }
    split6.
    + intros x Hx. rewrite get_upd_other by lia. rewrite A2 by lia. apply A01. lia.
    + rewrite length_upd. lia.
    + intros a b Hab. destruct (J2 a b Hab) as [P Q]. split; [exact P|].
      destruct (Nat.eq_dec b l') as [->|Hnb].
      * right. rewrite (Honly a Hab) in *. exists o, (mkObj (o_kind o) its'). split; [exact Hg0|].
        split; [apply get_upd_same; exact Hl'2|]. split; [reflexivity|exact V2].
      * destruct Q as [[Q|Q]|Q].
        -- inversion Q; subst. congruence.
        -- left. exact Q.
        -- right. eapply copied_mono; [apply mext_refl| |exact Q].
           intros oo Hgo. rewrite get_upd_other by auto. exact Hgo.
    + eapply mext_trans; eauto.
    + intros a b Hab. destruct (N2 a b Hab) as [R|R]; [|right; lia].
      destruct (Nat.eq_dec a l) as [->|Hne].
      * subst m1. rewrite mlookup_cons_same in R. inversion R; subst. right. lia.
      * subst m1. rewrite mlookup_cons_other in R by assumption. left. exact R.
    + simpl. exists l'. auto.
Qed.

(* a memo all of whose entries are finished copies is a simulation: snapshots agree *)
Lemma sim_snap : forall st0 st' m,
  wf st0 ->
  (forall a b, mlookup a m = Some b -> (a < length st0)%nat /\ copied st0 st' m a b) ->
  forall n v v', below (length st0) v -> vrel m v v' -> snap n st' v' = snap n st0 v.
Proof.
  intros st0 st' m Hwf Hsim. induction n as [|n IH]; intros v v' Hb Hv.
  - destruct v as [| | |a]; simpl in Hv; try (subst v'; reflexivity).
    destruct Hv as (b & _ & ->). reflexivity.
  - destruct v as [| | |a]; simpl in Hv; try (subst v'; reflexivity).
    destruct Hv as (b & Hab & ->).
    destruct (Hsim a b Hab) as [Ha (o & o' & G0 & G1 & K & R)].
    cbn [snap]. rewrite G0, G1, K. f_equal.
    pose proof (Hwf a o G0) as Hbi. unfold items_below in Hbi. unfold irel in R.
    clear G0 G1 K. revert Hbi. induction R as [|kv kv' t t' [R1 R2] Rt IHR]; intros Hbi; [reflexivity|].
    inversion Hbi as [|? ? [B1 B2] Bt]; subst. cbn [map]. f_equal.
    + f_equal; apply IH; assumption.
    + apply IHR. exact Bt.
Qed.

(* C09 / C10: deepcopy is structure preserving, whatever the sharing inside the copied graph *)
Theorem deepcopy_snapshot_eq : forall st fuel v st' v',
  wf st -> below (length st) v -> deepcopy fuel st v = Some (st', v') ->
  forall n, snap n st' v' = snap n st v.
Proof.
  intros st fuel v st' v' Hwf Hb H n. unfold deepcopy in H.
  destruct (dcv fuel st [] v) as [[[st1 m1] v1]|] eqn:E; [|discriminate].
  injection H as <- <-.
  assert (HJ0 : J st st [] []). { intros a b Hab. simpl in Hab. discriminate. }
  destruct (dcs_dcv st fuel st [] v st1 m1 v1 [] Hwf (inv_refl st) (Forall_nil _) HJ0 Hb E)
    as (A & L & HJ & X & N & V).
  apply (sim_snap st st1 m1 Hwf); auto.
  intros a b Hab. destruct (HJ a b Hab) as [P [Q|Q]]; [destruct Q|]. split; assumption.
Qed.

(* ---- deepcopy preserves SHARING: the memo is an injective function from original to copy locations -------------- *)
(* (function: an object reached twice is copied once; injective: two objects are never merged into one copy) *)
Definition minj (m : memo) : Prop :=
  forall a a' b, mlookup a m = Some b -> mlookup a' m = Some b -> a = a'.

Definition dcj_spec (st0 : store) (rec : store -> memo -> val -> dcres val) : Prop :=
  forall st m v st' m' v',
    inv st0 st -> memo_inr (length st0) (length st) m -> minj m ->
    rec st m v = Some (st', m', v') -> minj m' /\ mnew (length st) m m'.

Lemma dcj_items : forall st0 rec, dcj_spec st0 rec -> dc_spec st0 rec ->
  forall its st m st' m' its',
    inv st0 st -> memo_inr (length st0) (length st) m -> minj m ->
    dc_items rec its st m = Some (st', m', its') -> minj m' /\ mnew (length st) m m'.
Proof.
  intros st0 rec Hj Hdc. induction its as [|[k x] t IH]; intros st m st' m' its' Hinv Hm Hi H; simpl in H.
  - inversion H; subst. split; [exact Hi|apply mnew_refl].
  - destruct (rec st m k) as [[[st1 m1] k']|] eqn:E1; [|discriminate].
    destruct (rec st1 m1 x) as [[[st2 m2] x']|] eqn:E2; [|discriminate].
    destruct (dc_items rec t st2 m2) as [[[st3 m3] t']|] eqn:E3; [|discriminate].
    inversion H; subst. clear H.
    destruct (Hdc _ _ _ _ _ _ Hinv Hm E1) as (I1 & M1 & L1 & _).
    destruct (Hj _ _ _ _ _ _ Hinv Hm Hi E1) as (J1 & N1).
    destruct (Hdc _ _ _ _ _ _ I1 M1 E2) as (I2 & M2 & L2 & _).
    destruct (Hj _ _ _ _ _ _ I1 M1 J1 E2) as (J2 & N2).
    destruct (IH _ _ _ _ _ I2 M2 J2 E3) as (J3 & N3).
    split; [exact J3|].
    eapply (mnew_trans (length st) (length st1)); [lia|exact N1|].
    eapply (mnew_trans (length st1) (length st2)); [lia|exact N2|exact N3].
Qed.

Lemma dcj_dcv : forall st0 fuel, dcj_spec st0 (dcv fuel).
Proof.
  intros st0. induction fuel as [|f IH]; intros st m v st' m' v' Hinv Hm Hi H.
  - destruct v as [| | |l]; simpl in H; try (inversion H; subst; split; [exact Hi|apply mnew_refl]).
    destruct (mlookup l m); [|discriminate]. inversion H; subst. split; [exact Hi|apply mnew_refl].
  - destruct v as [| | |l]; simpl in H; try (inversion H; subst; split; [exact Hi|apply mnew_refl]).
    destruct (mlookup l m) as [l'|] eqn:El.
    { inversion H; subst. split; [exact Hi|apply mnew_refl]. }
    destruct (get st l) as [o|] eqn:Hg; [|discriminate].
    destruct (dc_items (dcv f) (o_items o) (st ++ [mkObj (o_kind o) []]) ((l, length st) :: m))
      as [[[st2 m2] its']|] eqn:E; [|discriminate].
    injection H as Hs' Hm' Hv'. subst st' m' v'.
    assert (Hempty : items_inr (length st0) (length st) (o_items (mkObj (o_kind o) []))) by constructor.
    destruct (inv_alloc st0 st (mkObj (o_kind o) []) Hinv Hempty) as [I1 V1].
    assert (Lst1 : length (st ++ [mkObj (o_kind o) []]) = S (length st)) by (rewrite app_length; simpl; lia).
    assert (M1 : memo_inr (length st0) (length (st ++ [mkObj (o_kind o) []])) ((l, length st) :: m)).
    { constructor; [simpl in *; exact V1|]. eapply memo_inr_mono; [exact Hm|]. lia. }
    assert (J1 : minj ((l, length st) :: m)).
    { intros a a' b Ha Ha'. destruct (Nat.eq_dec a l) as [->|Hna]; destruct (Nat.eq_dec a' l) as [->|Hna']; auto.
      - rewrite mlookup_cons_same in Ha. rewrite mlookup_cons_other in Ha' by assumption. inversion Ha; subst.
        pose proof (mlookup_inr _ _ _ _ _ Hm Ha'). lia.
      - rewrite mlookup_cons_same in Ha'. rewrite mlookup_cons_other in Ha by assumption. inversion Ha'; subst.
        pose proof (mlookup_inr _ _ _ _ _ Hm Ha). lia.
      - rewrite mlookup_cons_other in Ha, Ha' by assumption. eapply Hi; eauto. }
    destruct (dcj_items st0 (dcv f) IH (dcv_spec st0 f) _ _ _ _ _ _ I1 M1 J1 E) as (J2 & N2).
    split; [exact J2|].
    intros a b Hab. destruct (N2 a b Hab) as [R|R]; [|right; lia].
    destruct (Nat.eq_dec a l) as [->|Hne].
    + rewrite mlookup_cons_same in R. inversion R; subst. right. lia.
    + rewrite mlookup_cons_other in R by assumption. left. exact R.
Qed.

(* C09: deepcopy yields a graph ISOMORPHIC to the part of the store reachable from its argument: there is an injective
   function (the memo) from original to fresh locations such that the copy of every object is the object with all its
   pointers mapped; so sharing inside the copied graph is preserved exactly (no object copied twice, none merged) *)
Theorem deepcopy_isomorphism : forall st fuel v st' v',
  wf st -> below (length st) v -> deepcopy fuel st v = Some (st', v') ->
  exists m, minj m /\ vrel m v v' /\
            forall a b, mlookup a m = Some b ->
                        (a < length st)%nat /\ (length st <= b < length st')%nat /\ copied st st' m a b.
Proof.
  intros st fuel v st' v' Hwf Hb H. unfold deepcopy in H.
  destruct (dcv fuel st [] v) as [[[st1 m1] v1]|] eqn:E; [|discriminate]. injection H as <- <-.
  assert (HJ0 : J st st [] []). { intros a b Hab. simpl in Hab. discriminate. }
  assert (Hi0 : minj []). { intros a a' b Ha. simpl in Ha. discriminate. }
  destruct (dcs_dcv st fuel st [] v st1 m1 v1 [] Hwf (inv_refl st) (Forall_nil _) HJ0 Hb E)
    as (A & L & HJ & X & N & V).
  destruct (dcj_dcv st fuel st [] v st1 m1 v1 (inv_refl st) (Forall_nil _) Hi0 E) as (Hinj & _).
  destruct (dcv_spec st fuel st [] v st1 m1 v1 (inv_refl st) (Forall_nil _) E) as (_ & Mr & _ & _).
  exists m1. split; [exact Hinj|]. split; [exact V|].
  intros a b Hab. destruct (HJ a b Hab) as [P [Q|Q]]; [destruct Q|].
  split; [exact P|]. split; [apply (mlookup_inr _ _ _ _ _ Mr Hab)|exact Q].
Qed.

(* ---- deepcopy with fuel = 1 + number of objects of the store ALWAYS succeeds on a well-formed store ----------------- *)
(* measure: the number of original locations not yet in the memo; every descent into a new object memoises one *)
Definition unm (m : memo) (l : nat) : bool := match mlookup l m with None => true | Some _ => false end.
Definition cnt (P : nat -> bool) (n : nat) : nat := length (filter P (seq 0 n)).

Lemma cnt_S : forall P n, cnt P (S n) = (cnt P n + (if P n then 1 else 0))%nat.
Proof.
  intros P n. unfold cnt. rewrite seq_S. simpl. rewrite filter_app, app_length. simpl. destruct (P n); reflexivity.
Qed.

Lemma cnt_le : forall P Q n, (forall l, (l < n)%nat -> Q l = true -> P l = true) -> (cnt Q n <= cnt P n)%nat.
Proof.
  intros P Q. induction n as [|n IH]; intros H; [reflexivity|]. rewrite !cnt_S.
  assert (cnt Q n <= cnt P n)%nat by (apply IH; intros; apply H; auto).
  destruct (Q n) eqn:EQ; [rewrite (H n (Nat.lt_succ_diag_r n) EQ); lia|destruct (P n); lia].
Qed.

Lemma cnt_lt : forall P Q n l0, (forall l, (l < n)%nat -> Q l = true -> P l = true) ->
  (l0 < n)%nat -> P l0 = true -> Q l0 = false -> (cnt Q n < cnt P n)%nat.
Proof.
  intros P Q. induction n as [|n IH]; intros l0 H Hl HP HQ; [lia|]. rewrite !cnt_S.
  destruct (Nat.eq_dec l0 n) as [->|Hne].
  - rewrite HP, HQ. assert (cnt Q n <= cnt P n)%nat by (apply cnt_le; intros; apply H; auto). lia.
  - assert (cnt Q n < cnt P n)%nat.
    { apply (IH l0); auto; try lia. }
    destruct (Q n) eqn:EQ; [rewrite (H n (Nat.lt_succ_diag_r n) EQ); lia|destruct (P n); lia].
Qed.

Lemma cnt_bound : forall P n, (cnt P n <= n)%nat.
Proof.
  intros P. induction n as [|n IH]; [reflexivity|]. rewrite cnt_S. destruct (P n); lia.
Qed.

Lemma dc_items_mext : forall rec, (forall st m v st' m' v', rec st m v = Some (st', m', v') -> mext m m') ->
  forall its st m st' m' its', dc_items rec its st m = Some (st', m', its') -> mext m m'.
Proof.
  intros rec Hrec. induction its as [|[k x] t IH]; intros st m st' m' its' H; simpl in H.
  - inversion H; subst. apply mext_refl.
  - destruct (rec st m k) as [[[st1 m1] k']|] eqn:E1; [|discriminate].
    destruct (rec st1 m1 x) as [[[st2 m2] x']|] eqn:E2; [|discriminate].
    destruct (dc_items rec t st2 m2) as [[[st3 m3] t']|] eqn:E3; [|discriminate].
    inversion H; subst. eapply mext_trans; [eapply Hrec; eauto|]. eapply mext_trans; [eapply Hrec; eauto|]. eapply IH; eauto.
Qed.

Lemma dcv_mext : forall fuel st m v st' m' v', dcv fuel st m v = Some (st', m', v') -> mext m m'.
Proof.
  induction fuel as [|f IH]; intros st m v st' m' v' H.
  - destruct v as [| | |l]; simpl in H; try (inversion H; subst; apply mext_refl).
    destruct (mlookup l m); [|discriminate]. inversion H; subst. apply mext_refl.
  - destruct v as [| | |l]; simpl in H; try (inversion H; subst; apply mext_refl).
    destruct (mlookup l m) as [l'|] eqn:El; [inversion H; subst; apply mext_refl|].
    destruct (get st l) as [o|]; [|discriminate].
    destruct (dc_items (dcv f) (o_items o) (st ++ [mkObj (o_kind o) []]) ((l, length st) :: m))
      as [[[st2 m2] its']|] eqn:E; [|discriminate].
    inversion H; subst. eapply mext_trans; [|eapply (dc_items_mext (dcv f) IH); eauto].
    intros a b Hab. rewrite mlookup_cons_other; auto. intros ->. congruence.
Qed.

Lemma unm_mext : forall m m' n, mext m m' -> (cnt (unm m') n <= cnt (unm m) n)%nat.
Proof.
  intros m m' n H. apply cnt_le. intros l _ Hl. unfold unm in *.
  destruct (mlookup l m) as [b|] eqn:E; [|reflexivity]. rewrite (H l b E) in Hl. discriminate.
Qed.

Definition dck_spec (st0 : store) (f : nat) : Prop :=
  forall st m v, inv st0 st -> memo_inr (length st0) (length st) m -> below (length st0) v ->
                 (cnt (unm m) (length st0) < f)%nat -> exists r, dcv f st m v = Some r.

Lemma dc_items_succeeds : forall st0 f, dck_spec st0 f ->
  forall its st m, inv st0 st -> memo_inr (length st0) (length st) m -> items_below (length st0) its ->
                   (cnt (unm m) (length st0) < f)%nat -> exists r, dc_items (dcv f) its st m = Some r.
Proof.
  intros st0 f Hk. induction its as [|[k x] t IH]; intros st m Hinv Hm Hb Hc; simpl; [eexists; reflexivity|].
  inversion Hb as [|? ? [Bk Bx] Bt]; subst. simpl in Bk, Bx.
  destruct (Hk st m k Hinv Hm Bk Hc) as [[[st1 m1] k'] E1]. rewrite E1.
  destruct (dcv_spec st0 f _ _ _ _ _ _ Hinv Hm E1) as (I1 & M1 & _ & _).
  pose proof (unm_mext _ _ (length st0) (dcv_mext _ _ _ _ _ _ _ E1)) as C1.
  destruct (Hk st1 m1 x I1 M1 Bx ltac:(lia)) as [[[st2 m2] x'] E2]. rewrite E2.
  destruct (dcv_spec st0 f _ _ _ _ _ _ I1 M1 E2) as (I2 & M2 & _ & _).
  pose proof (unm_mext _ _ (length st0) (dcv_mext _ _ _ _ _ _ _ E2)) as C2.
  destruct (IH st2 m2 I2 M2 Bt ltac:(lia)) as [[[st3 m3] t'] E3]. rewrite E3. eexists; reflexivity.
Qed.

Lemma dcv_succeeds_n : forall st0, wf st0 -> forall f, dck_spec st0 f.
Proof.
  intros st0 Hwf. induction f as [|f IH]; intros st m v Hinv Hm Hb Hc.
  - lia.
  - destruct v as [| | |l]; simpl; try (eexists; reflexivity).
    destruct (mlookup l m) as [l'|] eqn:El; [eexists; reflexivity|].
    simpl in Hb. rewrite (inv_agree _ _ Hinv l Hb).
    destruct (get st0 l) as [o|] eqn:Hg; [|exfalso; apply get_none_ge in Hg || (unfold get in Hg; apply nth_error_None in Hg); lia].
    assert (Hempty : items_inr (length st0) (length st) (o_items (mkObj (o_kind o) []))) by constructor.
    destruct (inv_alloc st0 st (mkObj (o_kind o) []) Hinv Hempty) as [I1 V1].
    assert (M1 : memo_inr (length st0) (length (st ++ [mkObj (o_kind o) []])) ((l, length st) :: m)).
    { constructor; [simpl in *; exact V1|]. eapply memo_inr_mono; [exact Hm|]. rewrite app_length. lia. }
    assert (C1 : (cnt (unm ((l, length st) :: m)) (length st0) < cnt (unm m) (length st0))%nat).
    { apply (cnt_lt _ _ _ l); auto.
      - intros a _ Ha. unfold unm in *. destruct (Nat.eq_dec a l) as [->|Hne].
        + rewrite mlookup_cons_same in Ha. discriminate.
        + rewrite mlookup_cons_other in Ha by assumption. exact Ha.
      - unfold unm. rewrite El. reflexivity.
      - unfold unm. rewrite mlookup_cons_same. reflexivity. }
    destruct (dc_items_succeeds st0 f IH (o_items o) _ _ I1 M1 (Hwf l o Hg) ltac:(lia)) as [[[st2 m2] its'] E].
    rewrite E. eexists; reflexivity.
Qed.

(* C09: the fuel the writer models pass to deepcopy (one more than the number of objects in the store) always suffices *)
Theorem deepcopy_succeeds : forall st v, wf st -> below (length st) v ->
  exists st' v', deepcopy (S (length st)) st v = Some (st', v').
Proof.
  intros st v Hwf Hb.
  destruct (dcv_succeeds_n st Hwf (S (length st)) st [] v (inv_refl st) (Forall_nil _) Hb) as [[[st' m'] v'] E].
  - pose proof (cnt_bound (unm []) (length st)). lia.
  - exists st', v'. unfold deepcopy. rewrite E. reflexivity.
Qed.
