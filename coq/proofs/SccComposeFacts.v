(* C17, wave 3: the clause theorems composed.  For caption sets over the basic character set, laid out on at most 15
   rows per caption and spaced so that every cue can be transmitted before its start, the DOCUMENT the writer model
   produces satisfies the whole property oracle spec.SpecSccw.ok_output (verdict 0): Scenarist header and hex words,
   odd parity, one pop-on load per cue whose body decodes to rows 1..15 of at most 32 columns carrying the words of
   the text (over-long words in pieces), displayed within three frames of the start, timecodes non-decreasing. *)
From Coq Require Import List ZArith QArith Qround Qabs Lia Lqa Bool ZifyBool Arith.
From PV Require Import lib.Sx lib.Str lib.Result model.GenSccw model.SccWrap model.SccWrite spec.SpecSccw.
From PV Require Import proofs.SccwStr proofs.SccWriteFacts proofs.SccTimingFacts proofs.SccWordsFacts
     proofs.SccDecodeFacts proofs.SccLayoutFacts proofs.SccDocFacts.
Import ListNotations.
Open Scope Z_scope.

Definition to_cue (c : wcap) : cue := mkCue (w_text c) (w_start c) (w_end c).
Definition cap_dom (c : wcap) : Prop :=
  basic_text (w_text c) = true /\ (length (layout_rows (w_text c)) <= 15)%nat.
(* transmission time of a cue in code words: its body and the eight framing words *)
Definition cap_words (c : wcap) : Q :=
  match text_to_words (w_text c) with Ok ws => inject_Z (Z.of_nat (length ws) + 8) | Err _ => 0%Q end.
(* the statement's hypothesis: cues ordered, not overlapping, each starting at least its own transmission time after
   the previous cue's start (the first: after 0) *)
Fixpoint caps_spaced (prev_start : Q) (caps : list wcap) : Prop :=
  match caps with
  | [] => True
  | c :: t => (prev_start <= w_start c - cap_words c * mpc)%Q /\ (w_start c <= w_end c)%Q /\
              match t with [] => True | c' :: _ => (w_end c <= w_start c')%Q end /\ caps_spaced (w_start c) t
  end.

(* ---- one load line ---------------------------------------------------------------------------------------------- *)
Lemma strip_exact_load : forall ws, strip_exact ((pre4 ++ ws ++ post3) ++ [EOC]) = Some ws.
Proof.
  intros ws. change ((pre4 ++ ws ++ post3) ++ [EOC]) with (ENM :: ENM :: RCL :: RCL :: ((ws ++ post3) ++ [EOC])).
  unfold strip_exact. change (w_eqb ENM ENM && w_eqb ENM ENM && w_eqb RCL RCL && w_eqb RCL RCL) with true. cbv iota.
  rewrite rev_app_distr. cbn [rev app]. unfold post3. rewrite rev_app_distr. cbn [rev app].
  change (w_eqb EDM EDM && w_eqb EDM EDM && w_eqb EOC EOC && w_eqb EOC EOC) with true. cbv iota.
  rewrite rev_involutive. reflexivity.
Qed.
Lemma strip_load_load : forall ws, strip_load ((pre4 ++ ws ++ post3) ++ [EOC]) = Some ws.
Proof. intros. unfold strip_load. rewrite strip_exact_load. reflexivity. Qed.

Lemma w_eqb_eq : forall a b, w_eqb a b = true -> a = b.
Proof. intros [a1 a2] [b1 b2] H. unfold w_eqb in H. cbn [fst snd] in H. apply andb_prop in H. destruct H. f_equal; lia. Qed.

(* a body the decoder accepts contains no End-Of-Caption *)
Lemma decode_no_eoc : forall ws prev rows r, decode_body ws prev rows = Some r ->
  match prev with Some p => w_eqb p EOC = false | None => True end ->
  forall x, In x ws -> w_eqb x EOC = false.
Proof.
  induction ws as [|w t IH]; intros prev rows r D P x Hx; [destruct Hx|].
  cbn [decode_body] in D.
  assert (W : w_eqb w EOC = false /\ exists prev' rows', decode_body t prev' rows' = Some r /\
              match prev' with Some p => w_eqb p EOC = false | None => True end).
  { destruct (is_control w) eqn:C.
    - destruct (match prev with Some p => w_eqb p w | None => false end) eqn:Dp.
      + split; [|exists None, rows; split; [exact D|exact I]].
        destruct prev as [p|]; [|discriminate]. destruct (w_eqb w EOC) eqn:E; [|reflexivity].
        apply w_eqb_eq in Dp. apply w_eqb_eq in E. subst. discriminate.
      + destruct (pac_row (fst w) (snd w)) as [rw|] eqn:PR; [|discriminate].
        destruct (pac_indent (snd w)) as [k|]; [|discriminate].
        assert (NE : w_eqb w EOC = false).
        { destruct (w_eqb w EOC) eqn:E; [|reflexivity]. apply w_eqb_eq in E. subst. vm_compute in PR. discriminate. }
        split; [exact NE|]. eexists (Some w), _. split; [exact D|exact NE].
    - assert (NE : w_eqb w EOC = false).
      { destruct (w_eqb w EOC) eqn:E; [|reflexivity]. apply w_eqb_eq in E. subst. vm_compute in C. discriminate. }
      split; [exact NE|].
      destruct (cea_basic (fst w mod 128)) as [c1|]; [|discriminate]. destruct rows as [|[rr txt] rows']; [discriminate|].
      destruct (snd w mod 128 =? 0).
      + eexists (Some w), _. split; [exact D|exact NE].
      + destruct (cea_basic (snd w mod 128)) as [c2|]; [|discriminate]. eexists (Some w), _. split; [exact D|exact NE]. }
  destruct W as (NE & prev' & rows' & D' & P').
  destruct Hx as [<-|Hx]; [exact NE|]. exact (IH prev' rows' r D' P' x Hx).
Qed.

Lemma index_of_skip : forall w l r i, (forall x, In x l -> w_eqb x w = false) ->
  index_of w (l ++ r) i = index_of w r (i + Z.of_nat (length l)).
Proof.
  induction l as [|a t IH]; intros r i H; cbn [app length index_of].
  - f_equal. lia.
  - rewrite (H a (or_introl eq_refl)). rewrite IH by (intros x Hx; apply H; right; exact Hx). f_equal. lia.
Qed.

Lemma index_of_load : forall ws, (forall x, In x ws -> w_eqb x EOC = false) ->
  index_of EOC ((pre4 ++ ws ++ post3) ++ [EOC]) 0 = Some (Z.of_nat (length ws) + 6).
Proof.
  intros ws H. rewrite <- !app_assoc. rewrite (index_of_skip EOC pre4).
  - rewrite (index_of_skip EOC ws _ _ H). cbn [post3 app index_of length].
    change (w_eqb EDM EOC) with false. change (w_eqb EOC EOC) with true. cbv iota. f_equal. cbn [pre4 length]. lia.
  - intros x Hx. cbn [pre4] in Hx. destruct Hx as [<-|[<-|[<-|[<-|[]]]]]; reflexivity.
Qed.

Lemma number_rows_ge : forall lines first x, In x (map fst (number_rows first lines)) -> first <= x.
Proof.
  induction lines as [|l t IH]; intros first x H; cbn [number_rows map] in H; [destruct H|].
  destruct H as [<-|H]; [cbn [fst]; lia|]. apply IH in H. lia.
Qed.
Lemma number_rows_distinct : forall lines first, rows_distinct (map fst (number_rows first lines)) = true.
Proof.
  induction lines as [|l t IH]; intros first; [reflexivity|]. cbn [number_rows map fst rows_distinct].
  rewrite IH, andb_true_r. apply negb_true_iff. apply not_true_is_false. intros C.
  apply existsb_exists in C. destruct C as [x [Hx E]]. apply number_rows_ge in Hx. lia.
Qed.

Lemma flat_map_map : forall (A B C : Type) (f : B -> list C) (g : A -> B) l, flat_map f (map g l) = flat_map (fun a => f (g a)) l.
Proof. induction l as [|a t IH]; [reflexivity|]. cbn [map flat_map]. rewrite IH. reflexivity. Qed.

Lemma code_words_render : forall ws, code_words (render_words ws) = inject_Z (Z.of_nat (length ws) + 8).
Proof.
  intros ws. unfold code_words. rewrite render_words_length. f_equal. f_equal.
  rewrite Nat2Z.inj_mul. change (Z.of_nat 5) with 5. rewrite Z.mul_comm. apply Z.div_mul. lia.
Qed.

(* the load of one in-domain cue passes every per-load clause of the oracle *)
Lemma check_load_ok : forall c ws, cap_dom c -> text_to_words (w_text c) = Ok ws ->
  (0 <= w_start c - cap_words c * mpc)%Q ->
  check_load (to_cue c) (tc_frames (pre_roll (render_words ws) (w_start c)), (pre4 ++ ws ++ post3) ++ [EOC]) = 0.
Proof.
  intros c ws [B L] W S. unfold check_load. cbn [fst snd]. rewrite strip_load_load.
  destruct (decode_rows_basic (w_text c) B L) as (ws' & W' & D). rewrite W in W'. inversion W'; subst ws'. clear W'.
  rewrite D.
  assert (V : forallb (fun r => (1 <=? fst r) && (fst r <=? 15)) (layout_rows (w_text c)) = true).
  { apply forallb_forall. intros r Hr. pose proof (layout_rows_valid (w_text c) L r Hr). lia. }
  rewrite V. cbn [negb].
  assert (Dst : rows_distinct (map fst (layout_rows (w_text c))) = true) by (unfold layout_rows; apply number_rows_distinct).
  rewrite Dst. cbn [negb].
  assert (Len : forallb (fun r => (length (snd r) <=? 32)%nat) (layout_rows (w_text c)) = true).
  { apply forallb_forall. intros r Hr. apply Nat.leb_le. apply (rows_le_32 (w_text c)). apply in_map. exact Hr. }
  rewrite Len. cbn [negb].
  assert (R : refines 32 (words (q_text (to_cue c))) (flat_map (fun r => words (snd r)) (layout_rows (w_text c))) = true).
  { rewrite <- (flat_map_map _ _ _ words snd). apply layout_refines_words_basic. exact B. }
  rewrite R. cbn [negb].
  rewrite (index_of_load ws (decode_no_eoc ws None [] _ D I)).
  assert (CW : cap_words c = code_words (render_words ws)) by (unfold cap_words; rewrite W, code_words_render; reflexivity).
  rewrite CW in S.
  pose proof (visible_within_3_frames (render_words ws) (w_start c) S) as Vis. cbv zeta in Vis.
  rewrite render_words_length in Vis.
  replace (Z.of_nat (5 * length ws) / 5) with (Z.of_nat (length ws)) in Vis
    by (rewrite Nat2Z.inj_mul; change (Z.of_nat 5) with 5; rewrite Z.mul_comm, Z.div_mul; lia).
  assert (Q : q_within (inject_Z (tc_frames (pre_roll (render_words ws) (w_start c)) + (Z.of_nat (length ws) + 6)) * frame_us)
                       (q_start (to_cue c)) (3 * frame_us) = true).
  { unfold q_within. apply Qle_bool_iff. apply Qabs_Qle_condition. change frame_us with mpc. cbn [q_start to_cue].
    destruct Vis as [V1 V2]. pose proof mpc_pos as M. split; lra. }
  rewrite Q. reflexivity.
Qed.

(* ---- from PASS 2's result to the lines of the document ------------------------------------------------------- *)
Definition witem := (list (Z * Z) * Q * option Q)%type.        (* body words, advanced start, clear time *)
Definition unw (x : witem) : str * Q * option Q := (render_words (fst (fst x)), snd (fst x), snd x).
Definition item_ls (x : witem) : list (Q * list (Z * Z) * (Z * Z)) := cap_lines (fst (fst x)) (unw x).
Definition pline (l : Q * list (Z * Z) * (Z * Z)) : Z * list (Z * Z) := (tc_frames (fst (fst l)), snd (fst l) ++ [snd l]).

Lemma items_text : forall out : list witem,
  flat_map write_caption (map unw out)
  = flat_map (fun l => l ++ [10; 10])
             (map (fun l => line_text (fst (fst l)) (snd (fst l)) (snd l)) (flat_map item_ls out)).
Proof.
  induction out as [|[[ws s] eo] t IH]; [reflexivity|].
  cbn [map flat_map]. rewrite map_app, flat_map_app. f_equal; [|exact IH].
  unfold write_caption, item_ls, cap_lines, unw. cbn [fst snd map flat_map]. unfold line_text. rewrite <- load_text.
  destruct eo as [e|]; cbn [map flat_map]; rewrite <- ?clear_text, ?app_nil_r, <- ?app_assoc; reflexivity.
Qed.

Definition wcode := (list (Z * Z) * Q * Q)%type.
Definition rc (x : wcode) : str * Q * Q := (render_words (fst (fst x)), snd (fst x), snd x).
Definition item_of (x : wcode) (y : witem) : Prop :=
  fst (fst y) = fst (fst x) /\ snd (fst y) = pre_roll (render_words (fst (fst x))) (snd (fst x))
  /\ (snd y = Some (snd x) \/ snd y = None).

Lemma pass2_ahead_items : forall (todo : list wcode) ws s0 e,
  exists out, pass2_ahead (render_words ws) (pre_roll (render_words ws) s0) e (map rc todo) = map unw out
              /\ Forall2 item_of ((ws, s0, e) :: todo) out.
Proof.
  induction todo as [|[[ws' s'] e'] t IH]; intros ws s0 e; cbn [map pass2_ahead].
  - exists [(ws, pre_roll (render_words ws) s0, Some e)]. split; [reflexivity|].
    constructor; [|constructor]. unfold item_of. cbn [fst snd]. auto.
  - destruct (IH ws' s' e') as (out & E & F). unfold rc at 1. cbn [fst snd].
    exists ((ws, pre_roll (render_words ws) s0,
             if Qle_bool (pre_roll (render_words ws') s') (e + 3 * mpc) then None else Some e) :: out).
    split.
    + cbn [map]. unfold unw at 1. cbn [fst snd]. rewrite <- E. reflexivity.
    + constructor; [|exact F]. unfold item_of. cbn [fst snd]. split; [reflexivity|split; [reflexivity|]].
      destruct (Qle_bool (pre_roll (render_words ws') s') (e + 3 * mpc)); auto.
Qed.
Lemma pass2_items : forall wcodes : list wcode,
  exists out, pass2 [] (map rc wcodes) = map unw out /\ Forall2 item_of wcodes out.
Proof.
  intros [|[[ws s] e] t].
  - exists []. split; [reflexivity|constructor].
  - cbn [map]. unfold rc at 1. cbn [fst snd]. rewrite pass2_lookahead. apply pass2_ahead_items.
Qed.

Definition code_of (c : wcap) (x : wcode) : Prop :=
  text_to_words (w_text c) = Ok (fst (fst x)) /\ forallb word_odd (fst (fst x)) = true
  /\ snd (fst x) = w_start c /\ snd x = w_end c.

Lemma caps_wcodes : forall caps codes,
  res_map (fun c => do code <- text_to_code (w_text c); Ok (code, w_start c, w_end c)) caps = Ok codes ->
  Forall cap_dom caps ->
  exists wcodes : list wcode, codes = map rc wcodes /\ Forall2 code_of caps wcodes.
Proof.
  induction caps as [|c t IH]; intros codes H D; cbn [res_map] in H.
  - inversion H; subst. exists []. split; [reflexivity|constructor].
  - inversion D as [|? ? Dc Dt]; subst. destruct Dc as [_ Dr].
    destruct (all_bytes_odd_parity (w_text c) Dr) as (ws & Ew & Ow).
    rewrite word_stream_shape, Ew in H. cbn [bind] in H.
    destruct (res_map (fun c0 => do code <- text_to_code (w_text c0); Ok (code, w_start c0, w_end c0)) t) as [rest|] eqn:R;
      [|discriminate]. cbn [bind] in H. inversion H; subst.
    destruct (IH rest eq_refl Dt) as (wt & Et & Ft).
    exists ((ws, w_start c, w_end c) :: wt). split.
    + cbn [map]. unfold rc at 1. cbn [fst snd]. rewrite Et. reflexivity.
    + constructor; [|exact Ft]. unfold code_of. cbn [fst snd]. auto.
Qed.

(* what one element of PASS 2's result has to do with its cue *)
Definition good (c : wcap) (y : witem) : Prop :=
  text_to_words (w_text c) = Ok (fst (fst y)) /\ forallb word_odd (fst (fst y)) = true
  /\ snd (fst y) = pre_roll (render_words (fst (fst y))) (w_start c)
  /\ (snd y = Some (w_end c) \/ snd y = None).

Lemma good_compose : forall caps wcodes out, Forall2 code_of caps wcodes -> Forall2 item_of wcodes out ->
  Forall2 good caps out.
Proof.
  induction caps as [|c t IH]; intros wcodes out F1 F2; inversion F1; subst; inversion F2; subst; constructor.
  - match goal with H1 : code_of c ?x, H2 : item_of ?x ?y |- _ =>
      destruct H1 as (A1 & A2 & A3 & A4); destruct H2 as (B1 & B2 & B3) end.
    unfold good. rewrite B1, B2, A3, <- A4. auto.
  - eapply IH; eassumption.
Qed.

Lemma caps_spaced_each : forall caps prev, (0 <= prev)%Q -> caps_spaced prev caps ->
  Forall (fun c => (0 <= w_start c - cap_words c * mpc)%Q /\ (0 <= w_start c)%Q /\ (0 <= w_end c)%Q) caps.
Proof.
  induction caps as [|c t IH]; intros prev P S; [constructor|]. destruct S as (S1 & S2 & S3 & S4).
  assert (CW : (0 <= cap_words c * mpc)%Q).
  { apply Qmult_le_0_compat; [|pose proof mpc_pos; lra]. unfold cap_words.
    destruct (text_to_words (w_text c)); [|lra]. change 0%Q with (inject_Z 0). rewrite <- Zle_Qle. lia. }
  constructor; [split; [lra|split; lra]|]. apply (IH (w_start c)); [lra|exact S4].
Qed.

Lemma caps_spaced_codes : forall caps wcodes prev, Forall2 code_of caps wcodes -> caps_spaced prev caps ->
  spaced prev (map rc wcodes).
Proof.
  induction caps as [|c t IH]; intros wcodes prev F S; inversion F as [|? x ? wt Hc Ft]; subst; [exact I|].
  destruct S as (S1 & S2 & S3 & S4). destruct Hc as (A1 & A2 & A3 & A4). destruct x as [[ws s] e]. cbn [fst snd] in *. subst s e.
  cbn [map]. unfold rc at 1. cbn [fst snd spaced].
  assert (CW : cap_words c = code_words (render_words ws)) by (unfold cap_words; rewrite A1, code_words_render; reflexivity).
  rewrite <- CW. split; [exact S1|]. split; [exact S2|]. split; [|apply IH; assumption].
  destruct t as [|c' t']; inversion Ft as [|? x' ? ? Hc' ?]; subst; [exact I|].
  destruct x' as [[ws' s'] e']. destruct Hc' as (_ & _ & B3 & _). cbn [fst snd map] in *. unfold rc at 1. cbn [fst snd]. subst s'. exact S3.
Qed.

(* the loads of the document, cue by cue *)
Lemma loads_ok : forall caps out, Forall cap_dom caps ->
  Forall (fun c => (0 <= w_start c - cap_words c * mpc)%Q /\ (0 <= w_start c)%Q /\ (0 <= w_end c)%Q) caps ->
  Forall2 good caps out ->
  check_loads (map to_cue caps)
              (filter (fun l => negb (is_clear_line (snd l))) (map pline (flat_map item_ls out))) = 0.
Proof.
  induction caps as [|c t IH]; intros out D S G; inversion G as [|? y ? yt Gy Gt]; subst; [reflexivity|].
  inversion D as [|? ? Dc Dt]; subst. inversion S as [|? ? Sc St]; subst.
  destruct y as [[ws s] eo]. destruct Gy as (G1 & G2 & G3 & G4). cbn [fst snd] in *.
  cbn [flat_map]. rewrite map_app, filter_app.
  assert (L : filter (fun l => negb (is_clear_line (snd l))) (map pline (item_ls (ws, s, eo)))
              = [(tc_frames s, (pre4 ++ ws ++ post3) ++ [EOC])]).
  { unfold item_ls, cap_lines, unw. cbn [fst snd map]. unfold pline at 1. cbn [fst snd filter].
    change ((pre4 ++ ws ++ post3) ++ [EOC]) with (ENM :: ENM :: RCL :: RCL :: ((ws ++ post3) ++ [EOC])).
    assert (NC : is_clear_line (ENM :: ENM :: RCL :: RCL :: (ws ++ post3) ++ [EOC]) = false).
    { unfold is_clear_line. destruct ((ws ++ post3) ++ [EOC]); reflexivity. }
    rewrite NC. cbn [negb]. destruct eo as [e|]; [|reflexivity]. cbn [map filter]. unfold pline. cbn [fst snd app].
    change (is_clear_line [EDM; EDM]) with true. reflexivity. }
  rewrite L. cbn [map app check_loads]. subst s.
  destruct Sc as (Sc1 & _). rewrite (check_load_ok c ws Dc G1 Sc1). cbn [Z.eqb]. apply IH; assumption.
Qed.

Lemma chainZ_nondecreasing : forall l lo, chainZ lo l -> nondecreasing l = true.
Proof.
  induction l as [|a t IH]; intros lo H; [reflexivity|]. destruct H as [_ H]. destruct t as [|b t']; [reflexivity|].
  change (nondecreasing (a :: b :: t')) with ((a <=? b) && nondecreasing (b :: t')).
  rewrite (IH a H), andb_true_r. destruct H as [H1 H2]. lia.
Qed.

Lemma emitted_items : forall out : list witem,
  map (fun l : Q * list (Z * Z) * (Z * Z) => fst (fst l)) (flat_map item_ls out) = emitted (map unw out).
Proof.
  induction out as [|[[ws s] eo] t IH]; [reflexivity|]. cbn [flat_map map]. rewrite map_app, IH.
  unfold emitted. cbn [flat_map]. f_equal. unfold item_ls, cap_lines, unw. cbn [fst snd map]. destruct eo; reflexivity.
Qed.

(* ---- the composed statement ------------------------------------------------------------------------------------ *)
Theorem write_meets_oracle : forall caps doc,
  write caps = Ok doc -> Forall cap_dom caps -> caps_spaced 0 caps ->
  ok_output (map to_cue caps) doc = 0.
Proof.
  intros caps doc W D S. unfold write in W.
  destruct (res_map (fun c => do code <- text_to_code (w_text c); Ok (code, w_start c, w_end c)) caps) as [codes|] eqn:R;
    [|discriminate]. cbn [bind] in W. inversion W; subst doc. clear W.
  destruct (caps_wcodes caps codes R D) as (wcodes & Ec & F1). subst codes.
  destruct (pass2_items wcodes) as (out & Ep & F2).
  pose proof (good_compose caps wcodes out F1 F2) as G.
  pose proof (caps_spaced_each caps 0 (Qle_refl 0) S) as Each.
  assert (LS : forall l, In l (flat_map item_ls out) ->
               (0 <= fst (fst l))%Q /\ forallb byte_ok (snd (fst l)) = true /\ byte_ok (snd l) = true
               /\ forallb word_odd (snd (fst l) ++ [snd l]) = true).
  { clear - G Each. revert out G Each. induction caps as [|c t IH]; intros out G Each; inversion G as [|? y ? yt Gy Gt]; subst;
      intros l Hl; [destruct Hl|].
    inversion Each as [|? ? Ec Et]; subst. cbn [flat_map] in Hl. apply in_app_iff in Hl. destruct Hl as [Hl|Hl]; [|exact (IH yt Gt Et l Hl)].
    destruct y as [[ws s] eo]. destruct Gy as (G1 & G2 & G3 & G4). destruct Ec as (E1 & E2 & E3). cbn [fst snd] in *.
    unfold item_ls, cap_lines, unw in Hl. cbn [fst snd] in Hl.
    assert (Bw : forallb byte_ok (pre4 ++ ws ++ post3) = true).
    { rewrite !forallb_app. rewrite (forallb_impl _ _ _ ws word_odd_byte_ok G2). reflexivity. }
    assert (Pw : forallb word_odd ((pre4 ++ ws ++ post3) ++ [EOC]) = true).
    { rewrite !forallb_app, G2. reflexivity. }
    destruct Hl as [<-|Hl].
    - cbn [fst snd]. split; [subst s; apply pre_roll_le; exact E2|]. split; [exact Bw|]. split; [reflexivity|exact Pw].
    - destruct eo as [e|]; [|destruct Hl]. destruct Hl as [<-|[]]. cbn [fst snd].
      destruct G4 as [G4|G4]; [|discriminate]. inversion G4; subst e. split; [exact E3|]. repeat split. }
  assert (PD : parse_document (sccw_header ++ [10; 10] ++ flat_map write_caption (pass2 [] (map rc wcodes)))
               = Some (map pline (flat_map item_ls out))).
  { rewrite Ep, items_text. apply (doc_parses (flat_map item_ls out)).
    intros l Hl. destruct (LS l Hl) as (A & B & C & _). auto. }
  unfold ok_output.
  match goal with |- context [parse_document ?d] =>
    change d with (sccw_header ++ [10; 10] ++ flat_map write_caption (pass2 [] (map rc wcodes))) end.
  rewrite PD.
  assert (Par : forallb (fun l => forallb (fun w => odd_parity (fst w) && odd_parity (snd w)) (snd l))
                        (map pline (flat_map item_ls out)) = true).
  { apply forallb_forall. intros l Hl. apply in_map_iff in Hl. destruct Hl as [x [<- Hx]]. unfold pline. cbn [snd].
    destruct (LS x Hx) as (_ & _ & _ & P). exact P. }
  rewrite Par. cbn [negb].
  rewrite (loads_ok caps out D Each G). cbn [Z.eqb negb].
  assert (Mono : nondecreasing (map fst (map pline (flat_map item_ls out))) = true).
  { rewrite map_map. unfold pline. cbn [fst].
    rewrite <- (map_map (fun l : Q * list (Z * Z) * (Z * Z) => fst (fst l)) tc_frames), emitted_items, <- Ep.
    apply (chainZ_nondecreasing _ 0). apply timecodes_monotone. apply (caps_spaced_codes caps); assumption. }
  rewrite Mono. reflexivity.
Qed.
