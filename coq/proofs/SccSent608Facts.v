(* C16, audit gap: "the characters transmitted" was defined with the decoder's own tables and doubling memory
   (`sentx_text`, proofs/SccConserveExtFacts.v).  Here the decoder's edit script is proved equal to the INDEPENDENT
   `sent608` of spec/SpecScc16Sent.v (written from spec/Spec608.v only) on the domain `dom608` of well-formed
   transmissions, and the conservation theorem is restated against `sent608`.

   DOMAIN `dom608` (computational, stated with Spec608 recognisers only - no generated table):
     D1  every word is in `alpha608`: parity-correct RU2/RU3/RU4/RDC, CR, EDM, preamble address codes, tab offsets,
         special characters, extended characters, character pairs with both bytes in 0x20..0x7e (second byte may be
         the padding 0), the null filler 0x8080.  No backspace, no mid-row code (see SccConserveExtFacts), no 0x7f
         (pycaption maps the solid block to the empty string), no parity-incorrect word (pycaption's PAC table holds
         7 keys with a wrong parity bit, `pac_table_extras`), no unknown control pair.
     D2  a tab offset that is not a redundancy copy comes when the redundancy memory holds a PAC, a tab offset or
         nothing (= directly after a PAC / tab offset / ignored copy / at the start).  Needed because the reader skips
         a tab offset that does not follow a PAC WITHOUT clearing its doubling memory: in  S TO S  (S a special
         character) it takes the second S for a copy of the first.
     D3  an extended character that is not a redundancy copy comes directly after the character pair or special
         character that carries its stand-in (that special's own copy may sit in between).  Needed because the reader
         does not erase the stand-in when the preceding character is itself an extended character, and because
         the erasure must not reach across anything else.
   Also needed: the reader raises no error (`r_err ... = None`; after an error its state, hence its doubling memory,
   is frozen: `no_error_hypothesis_needed`) - implied by `read ... = ROk caps` in the composed theorem.

   RESULTS
     word_facts                      for every word of alpha608 the generated tables (is_pac, tab_of, special_of,
                                     extended_of, char_of, is_command, is_flush) agree with the Spec608 recognisers
                                     (one vm_compute sweep over all 128 x 128 parity-correct words, `table_check`)
     skip_decision_608               the reader's skip decision = the CEA-608 redundancy rule (non-positioning words)
     sentx_is_sent608                sentx_text = sent608 on dom608 (equality, not only up to blanks)
     rollup_painton_conserved_608    conservation against sent608
     recognisers_608, special_glyph_sound, extended_glyph_sound   the recognisers are Spec608's constructors inverted
     examples: two streams inside the domain; D2, D3 and the no-error hypothesis are each needed. *)
From Coq Require Import List ZArith QArith Lia Bool.
From PV Require Import lib.Sx lib.Str lib.Result model.GenScc model.SccLen model.SccTime model.SccStash model.SccDecoder
  spec.Spec608 proofs.SccStashFacts proofs.SccTableFacts proofs.SccItalicsFacts proofs.SccDoubleFacts
  proofs.SccConserveFacts proofs.SccConserveExtFacts.
From PV Require Import spec.SpecScc16Sent.   (* last: its `parity_ok` is the one meant below *)
Import ListNotations.
Open Scope Z_scope.

Definition dom608 (ls : list sline) : bool := dom_lines (None, false) (map snd ls).

(* ================= 1. the generated tables against the Spec608 recognisers, word by word ================= *)
Definition one (o : option Z) : option str := match o with Some g => Some [g] | None => None end.
Definition cp (w : Z) : bool := is_command w || is_pac w.
Definition cp608 (w : Z) : bool := is_flush608 w || (w =? edm608) || is_pac608 w || is_tab608 w.
Definition pairchars (w : Z) : str :=
  match char_of (hi w), char_of (lo w) with Some a, Some b => a ++ b | _, _ => [] end.
Definition chars608 (w : Z) : str := match special_glyph w with Some g => [g] | None => pair_glyphs w end.

(* the last character a character pair / special character leaves is not one pycaption takes for an extended one *)
Definition good_glyphs (w : Z) : bool :=
  if is_char_pair w || some (special_glyph w)
  then match rev (chars608 w) with c :: _ => negb (is_extended_value c) | [] => false end else true.

(* facts about the Spec608 recognisers alone, checked in the same sweep (arguments: the recognisers' values, so that
   each is evaluated once) *)
Definition consistent_of (C CP : bool) (S X : option Z) (G : str) (K P T F : bool) : bool :=
  Bool.eqb C (CP || some S || some X)
  && negb (some S && some X)
  && negb (CP && (some S || some X))
  && (negb CP || match G with [] => true | _ => false end)
  && (negb K || negb C)
  && negb (P && T)
  && negb (F && (P || T)).
Definition consistent (w : Z) : bool :=
  consistent_of (is_ctrl608 w) (cp608 w) (special_glyph w) (extended_glyph w) (pair_glyphs w) (is_char_pair w)
    (is_pac608 w) (is_tab608 w) (is_flush608 w).

Definition ostr_eqb (a b : option str) : bool :=
  match a, b with Some x, Some y => str_eqb x y | None, None => true | _, _ => false end.

Definition word_ok (w : Z) : bool :=
  Bool.eqb (is_flush w) (is_flush608 w) && Bool.eqb (is_pac w) (is_pac608 w)
  && Bool.eqb (some (tab_of w)) (is_tab608 w) && Bool.eqb (cp w) (cp608 w)
  && ostr_eqb (special_of w) (one (special_glyph w)) && ostr_eqb (extended_of w) (one (extended_glyph w))
  && str_eqb (pairchars w) (pair_glyphs w) && consistent w && good_glyphs w.

Definition r128 : list Z := zrange 0 128.

(* every parity-correct word is `word b1 b2` for two 7-bit bytes: 128 x 128 words, the complete tables *)
Lemma table_check :
  forallb (fun b1 => forallb (fun b2 => let w := word b1 b2 in if alpha608 w then word_ok w else true) r128) r128 = true.
Proof. vm_compute. reflexivity. Qed.

Lemma str_eqb_true : forall a b, str_eqb a b = true -> a = b.
Proof.
  induction a as [|x a IH]; intros [|y b] H; try discriminate; [reflexivity|].
  cbn [str_eqb] in H. apply andb_true_iff in H. destruct H as [H1 H2]. apply Z.eqb_eq in H1. subst y.
  rewrite (IH b H2). reflexivity.
Qed.

Lemma ostr_eqb_true : forall a b, ostr_eqb a b = true -> a = b.
Proof. intros [x|] [y|] H; try discriminate; [|reflexivity]. cbn in H. rewrite (str_eqb_true x y H). reflexivity. Qed.

Lemma alpha_parity : forall w, alpha608 w = true -> parity_ok w = true.
Proof. intros w H. unfold alpha608 in H. apply andb_true_iff in H. apply H. Qed.

Lemma alpha_ok : forall w, alpha608 w = true -> word_ok w = true.
Proof.
  intros w Ha. pose proof (alpha_parity w Ha) as Hp. unfold parity_ok in Hp. apply Z.eqb_eq in Hp.
  assert (H1 : In (byte1 w) r128) by (apply in_zrange; unfold byte1; pose proof (Z.mod_pos_bound (w / 256) 128); lia).
  assert (H2 : In (byte2 w) r128) by (apply in_zrange; unfold byte2; pose proof (Z.mod_pos_bound w 128); lia).
  pose proof (all_in _ _ (all_in _ _ table_check (byte1 w) H1) (byte2 w) H2) as H. cbv beta zeta in H.
  rewrite <- Hp, Ha in H. exact H.
Qed.

Lemma word_facts : forall w, alpha608 w = true ->
  is_flush w = is_flush608 w /\ is_pac w = is_pac608 w /\ some (tab_of w) = is_tab608 w /\
  (is_command w || is_pac w) = cp608 w /\ special_of w = one (special_glyph w) /\
  extended_of w = one (extended_glyph w) /\ pairchars w = pair_glyphs w /\
  consistent w = true /\ good_glyphs w = true.
Proof.
  intros w Ha. pose proof (alpha_ok w Ha) as H. unfold word_ok in H. rewrite !andb_true_iff in H.
  destruct H as [[[[[[[[H1 H2] H3] H4] H5] H6] H7] H8] H9].
  apply eqb_prop in H1, H2, H3, H4. apply ostr_eqb_true in H5, H6. apply str_eqb_true in H7.
  repeat split; assumption.
Qed.

(* ================= 2. one word: the decoder's edit against show608 ======================================== *)
Definition good_last (cur : str) : Prop := exists pre c, cur = pre ++ [c] /\ is_extended_value c = false.

Lemma edm_word : edm608 = w_edm.
Proof. vm_compute. reflexivity. Qed.


Ltac absw w :=
  set (bF := is_flush608 w) in *; set (bE := w =? edm608) in *; set (bP := is_pac608 w) in *;
  set (bT := is_tab608 w) in *; set (oS := special_glyph w) in *; set (oX := extended_glyph w) in *;
  set (bC := is_ctrl608 w) in *; set (gl := pair_glyphs w) in *; set (bK := is_char_pair w) in *;
  clearbody bF bE bP bT oS oX bC gl bK.
Ltac bsimpl := cbn [orb andb negb some one Bool.eqb fst snd].
Ltac bsimpl_in H := cbn [orb andb negb some one Bool.eqb fst snd] in H.

Lemma alpha_rpx : forall w, alpha608 w = true -> rpx_word w = true.
Proof.
  intros w Ha. destruct (word_facts w Ha) as (E1 & E2 & E3 & E4 & E5 & E6 & _ & E8 & _).
  assert (R : rpx_word w = is_flush w || is_pac w || some (tab_of w) || some (special_of w)
              || (negb (is_command w || is_pac w) && negb (some (extended_of w))) || some (extended_of w) || (w =? w_edm)).
  { unfold rpx_word, rp_word, is_flush.
    generalize (w =? w_ru2) (w =? w_ru3) (w =? w_ru4) (w =? w_rdc) (w =? w_cr) (w =? w_edm). intros b1 b2 b3 b4 b5 b6.
    destruct (is_command w), (is_pac w), (tab_of w), (special_of w), (extended_of w);
      bsimpl; rewrite ?orb_true_r, ?orb_false_r, ?andb_false_r, ?andb_true_r; reflexivity. }
  rewrite R, E4, E1, E2, E3, E5, E6. rewrite <- edm_word. clear R E1 E2 E3 E4 E5 E6 Ha.
  unfold consistent, consistent_of in E8. unfold cp608 in *. absw w.
  destruct bF, bE, bP, bT, oS, oX, bC; bsimpl_in E8; bsimpl; try reflexivity; try discriminate.
Qed.


Lemma word_chars_alt : forall w, word_chars w =
  if is_command w || is_pac w then [] else
  match special_of w with Some t => t | None => match extended_of w with Some _ => [] | None => pairchars w end end.
Proof. reflexivity. Qed.

Lemma xstep_show : forall w acc, alpha608 w = true ->
  (some (extended_glyph w) = true -> good_last (snd acc)) -> xstep w acc = show608 w acc.
Proof.
  intros w acc Ha Hg. destruct (word_facts w Ha) as (E1 & E2 & E3 & E4 & E5 & E6 & E7 & E8 & _).
  rename E7 into E7'.
  pose proof (rpx_not_bs w (alpha_rpx w Ha)) as Hb.
  unfold xstep, show608, edit_word, apply_word. rewrite word_chars_alt, E1, Hb, E4, E5, E6, E7'.
  clear E1 E2 E3 E4 E5 E6 E7' Hb Ha.
  unfold consistent, consistent_of in E8. unfold cp608 in *. absw w. destruct acc as [fin cur]. cbn [fst snd] in *.
  destruct bF, bE, bP, bT, oS as [g|], oX as [x|], bC; bsimpl_in E8; bsimpl; try discriminate; try reflexivity;
    try (destruct gl; [rewrite app_nil_r; reflexivity|discriminate]).
  all: destruct (Hg eq_refl) as (pre & c & Hc & Hx); rewrite Hc.
  all: assert (Em : (match pre ++ [c] with [] => true | _ => is_extended_value (last (pre ++ [c]) 0) end) = false)
         by (rewrite last_last; destruct (pre ++ [c]) eqn:E; [destruct pre; discriminate|exact Hx]).
  all: rewrite Em; reflexivity.
Qed.

(* positioning codes display nothing *)
Lemma show_pos : forall w acc, alpha608 w = true -> (is_pac608 w || is_tab608 w) = true -> show608 w acc = acc.
Proof.
  intros w acc Ha Hp. destruct (word_facts w Ha) as (_ & _ & _ & _ & _ & _ & _ & E8 & _). clear Ha.
  unfold show608. unfold consistent, consistent_of in E8. unfold cp608 in *. absw w. destruct acc as [fin cur]. cbn [fst snd].
  destruct bF, bE, bP, bT, oS as [g|], oX as [x|], bC; bsimpl_in E8; bsimpl_in Hp; try discriminate;
    try (destruct gl; [rewrite app_nil_r; reflexivity|discriminate]).
  all: rewrite ?andb_false_r in E8; try discriminate.
Qed.

(* what a character pair / special character leaves at the end of the row *)
Lemma show_text : forall w acc, alpha608 w = true -> (is_char_pair w || some (special_glyph w)) = true ->
  good_last (snd (show608 w acc)).
Proof.
  intros w acc Ha Hk. destruct (word_facts w Ha) as (_ & _ & _ & _ & _ & _ & _ & E8 & E9). clear Ha.
  unfold good_glyphs in E9. rewrite Hk in E9.
  assert (S : snd (show608 w acc) = snd acc ++ chars608 w).
  { unfold show608, chars608. unfold consistent, consistent_of in E8. unfold cp608 in *. clear E9. absw w.
    destruct bF, bE, bP, bT, oS as [g|], oX as [x|], bC, bK; bsimpl_in E8; bsimpl_in Hk; rewrite ?andb_false_r in E8;
      try discriminate; reflexivity. }
  rewrite S. set (t := chars608 w) in *. clearbody t.
  destruct (rev t) as [|c r] eqn:Er; [discriminate E9|].
  exists (snd acc ++ rev r), c. split; [|apply negb_true_iff; exact E9].
  rewrite <- app_assoc. f_equal. rewrite <- (rev_involutive t), Er. reflexivity.
Qed.

(* ================= 3. the doubling memories ================================================================ *)
Definition dbld (w : Z) : bool :=
  is_command w || is_pac w || (match special_of w with Some _ => true | None => false end)
  || (match extended_of w with Some _ => true | None => false end).

(* handle_double as a function of the doubling memory alone *)
Definition hdp (l : lastcmd) (w : Z) : bool * lastcmd :=
  if dbld w && last_is l w then (true, LNone)
  else if is_pac w && last_contains l w then (true, LNone)
  else match tab_of w with
       | Some _ => match l with
                   | LWord p => if is_pac p then (false, LPacTo p w) else (true, l)
                   | _ => (true, l)
                   end
       | None => (false, LWord w)
       end.

Lemma hd_pure : forall s w, fst (handle_double s w) = fst (hdp (r_last s) w) /\
  r_last (snd (handle_double s w)) = snd (hdp (r_last s) w).
Proof.
  intros s w. unfold handle_double, hdp, dbld. cbv zeta.
  destruct (_ && last_is (r_last s) w); [split; reflexivity|].
  destruct (is_pac w && last_contains (r_last s) w); [split; reflexivity|].
  destruct (tab_of w); [|split; reflexivity].
  destruct (r_last s) as [|p|p t] eqn:E; try (split; reflexivity).
  destruct (is_pac p); split; reflexivity.
Qed.

Lemma tw_last : forall s w n, r_err s = None -> r_last (translate_word s w n) = snd (hdp (r_last s) w).
Proof.
  intros s w n He. destruct (hd_pure s w) as [_ H]. rewrite <- H.
  destruct (handle_double s w) as [b s'] eqn:Hd. destruct b.
  - unfold translate_word. rewrite He, Hd. reflexivity.
  - pose proof (translate_word_dbl s w n s' He Hd) as D. unfold dbl in D. cbn [snd]. congruence.
Qed.

(* the relation between the spec's memory m and the reader's last_command l *)
Definition Inv (m : option Z) (l : lastcmd) : Prop :=
  (forall y, m = Some y -> alpha608 y = true) /\
  match l with
  | LNone => pos_mem m = true
  | LWord x => tab_of x = None /\ (m = Some x \/ (is_pac x = true /\ pos_mem m = true))
  | LPacTo _ _ => pos_mem m = true
  end.

Lemma dbld_ctrl : forall w, alpha608 w = true -> dbld w = is_ctrl608 w.
Proof.
  intros w Ha. destruct (word_facts w Ha) as (_ & _ & _ & E4 & E5 & E6 & _ & E8 & _).
  unfold dbld. rewrite E4, E5, E6. clear E4 E5 E6 Ha. unfold consistent, consistent_of in E8. unfold cp608 in *. absw w.
  destruct bF, bE, bP, bT, oS, oX, bC; bsimpl_in E8; bsimpl; try discriminate; reflexivity.
Qed.

Lemma pos_ctrl : forall w, alpha608 w = true -> (is_pac608 w || is_tab608 w) = true -> is_ctrl608 w = true.
Proof.
  intros w Ha Hp. destruct (word_facts w Ha) as (_ & _ & _ & _ & _ & _ & _ & E8 & _). clear Ha.
  unfold consistent, consistent_of in E8. unfold cp608 in *. absw w.
  destruct bF, bE, bP, bT, oS, oX, bC; bsimpl_in E8; bsimpl_in Hp; try discriminate; reflexivity.
Qed.

Lemma step_inv : forall l m w, alpha608 w = true -> Inv m l ->
  (is_tab608 w = true -> copy608 m w = false -> pos_mem m = true) ->
  Inv (if copy608 m w then None else Some w) (snd (hdp l w)) /\
  ((is_pac608 w || is_tab608 w) = false -> fst (hdp l w) = copy608 m w).
Proof.
  intros l m w Ha [IA I] Ht. destruct (word_facts w Ha) as (_ & E2 & E3 & _).
  pose proof (dbld_ctrl w Ha) as Ed.
  assert (IA' : forall y, (if copy608 m w then None else Some w) = Some y -> alpha608 y = true).
  { intros y Hy. destruct (copy608 m w); [discriminate|]. injection Hy as <-. exact Ha. }
  assert (PM : (is_pac608 w || is_tab608 w) = true -> pos_mem (if copy608 m w then None else Some w) = true).
  { intros H. destruct (copy608 m w); [reflexivity|exact H]. }
  unfold hdp. rewrite Ed, E2.
  destruct (is_pac608 w) eqn:P.
  - (* preamble address code *)
    destruct (pac_facts w) as [Tn _]; [rewrite E2; reflexivity|]. rewrite Tn.
    rewrite (pos_ctrl w Ha) by (rewrite P; reflexivity). cbn [andb orb].
    split; [|discriminate].
    assert (G : forall b : bool, Inv (if copy608 m w then None else Some w) (if b then LNone else LWord w)).
    { intros b. split; [exact IA'|]. destruct b; [apply PM; reflexivity|]. split; [exact Tn|].
      destruct (copy608 m w); [right; split; [rewrite E2; reflexivity|reflexivity]|left; reflexivity]. }
    destruct (last_is l w); [apply (G true)|]. destruct (last_contains l w); [apply (G true)|apply (G false)].
  - cbn [andb orb]. destruct (tab_of w) as [n|] eqn:Tw.
    + (* tab offset *)
      cbn [some] in E3. symmetry in E3. rewrite E3. split; [|discriminate].
      rewrite (pos_ctrl w Ha) by (rewrite P, E3; reflexivity). cbn [andb].
      assert (PM' : pos_mem (if copy608 m w then None else Some w) = true) by (apply PM; rewrite E3; apply orb_true_r).
      destruct l as [|x|p t]; cbn [last_is snd].
      * split; [exact IA'|exact PM'].
      * destruct I as [Tx I]. destruct (Z.eqb_spec x w) as [->|Nx]; [congruence|].
        destruct (is_pac x) eqn:Px; cbn [snd]; (split; [exact IA'|]); [exact PM'|].
        split; [exact Tx|]. exfalso. destruct I as [Im|[Hp _]]; [|congruence]. subst m.
        assert (Hc : copy608 (Some x) w = false).
        { unfold copy608. apply Z.eqb_neq in Nx. rewrite Nx. apply andb_false_r. }
        pose proof (Ht E3 Hc) as Hm. cbn [pos_mem] in Hm.
        destruct (word_facts x (IA x eq_refl)) as (_ & F2 & F3 & _). rewrite <- F2, <- F3, Px, Tx in Hm. discriminate.
      * split; [exact IA'|exact PM'].
    + (* neither *)
      cbn [some] in E3. symmetry in E3. rewrite E3. intros; split; [|intros _].
      all: assert (NP : pos_mem (Some w) = false) by (cbn [pos_mem]; rewrite P, E3; reflexivity).
      all: assert (NC : pos_mem m = true -> copy608 m w = false)
        by (intros Hm; unfold copy608; destruct m as [p|]; [|apply andb_false_r];
            destruct (Z.eqb_spec p w) as [->|]; [congruence|apply andb_false_r]).
      all: assert (IW : Inv (Some w) (LWord w))
        by (split; [intros y Hy; injection Hy as <-; exact Ha|split; [exact Tw|left; reflexivity]]).
      all: destruct (is_ctrl608 w) eqn:C; cbn [andb fst snd].
      all: try (unfold copy608; rewrite C; cbn [andb]; first [exact IW|reflexivity]).
      all: destruct l as [|x|p t]; cbn [last_is fst snd].
      all: try (rewrite (NC I); first [exact IW|reflexivity]).
      all: destruct I as [Tx I]; destruct (Z.eqb_spec x w) as [->|Nx]; cbn [fst snd].
      all: try (destruct I as [Im|[Hp _]]; [|congruence]; subst m; unfold copy608; rewrite C, Z.eqb_refl; cbn [andb];
                first [split; [discriminate|reflexivity]|reflexivity]).
      all: assert (Hc : copy608 m w = false)
        by (destruct I as [Im|[_ Hm]]; [subst m; unfold copy608; apply Z.eqb_neq in Nx; rewrite Nx; apply andb_false_r|exact (NC Hm)]).
      all: rewrite Hc; first [exact IW|reflexivity].
Qed.

(* the reader's skip decision for every word that is not a positioning code - in particular for special and extended
   characters - is the CEA-608 redundancy rule, whenever the two memories are related by Inv *)
Theorem skip_decision_608 : forall s m w, alpha608 w = true -> Inv m (r_last s) ->
  (is_pac608 w || is_tab608 w) = false -> fst (handle_double s w) = copy608 m w.
Proof.
  intros s m w Ha I Hp. destruct (hd_pure s w) as [Hf _]. rewrite Hf.
  destruct (step_inv (r_last s) m w Ha I) as [_ H]; [|exact (H Hp)].
  intros T. rewrite T, orb_true_r in Hp. discriminate.
Qed.

(* ================= 4. whole streams ======================================================================= *)
Lemma words_agree : forall ws s m good acc st',
  r_err (translate_words s ws) = None -> Inv m (r_last s) -> (good = true -> good_last (snd acc)) ->
  dom_words (m, good) ws = Some st' ->
  fold_left step608 ws (m, acc) = (fst st', sentx s ws acc) /\
  Inv (fst st') (r_last (translate_words s ws)) /\ (snd st' = true -> good_last (snd (sentx s ws acc))).
Proof.
  induction ws as [|w t IH]; intros s m good acc st' Hfin I Hg Hd.
  - cbn [dom_words] in Hd. injection Hd as <-. cbn [fold_left sentx translate_words fst snd]. auto.
  - cbn [dom_words fst snd] in Hd. destruct (alpha608 w) eqn:Ha; [|discriminate].
    cbn [translate_words sentx fold_left] in *.
    set (nx := match t with n :: _ => Some n | [] => None end) in *.
    pose proof (translate_words_ok _ _ Hfin) as He1.
    assert (He : r_err s = None).
    { destruct (r_err s) as [e|] eqn:E; [|reflexivity]. rewrite (translate_word_err s w nx e E) in He1. congruence. }
    destruct (hd_pure s w) as [Hf _]. rewrite Hf.
    pose proof (tw_last s w nx He) as Hl.
    unfold step608 at 2. cbn [fst snd].
    assert (Ht : is_tab608 w = true -> copy608 m w = false -> pos_mem m = true).
    { intros T C. destruct (copy608 m w); [discriminate C|]. rewrite T in Hd. destruct (pos_mem m); [reflexivity|discriminate]. }
    destruct (step_inv (r_last s) m w Ha I Ht) as [I1 Hs]. rewrite <- Hl in I1.
    assert (Eacc : (if fst (hdp (r_last s) w) then acc else xstep w acc) = (if copy608 m w then acc else show608 w acc)).
    { destruct (is_pac608 w || is_tab608 w) eqn:P.
      - rewrite xstep_show by (try exact Ha; intros X; exfalso;
          destruct (word_facts w Ha) as (_ & _ & _ & _ & _ & _ & _ & E8 & _); clear - E8 X P;
          unfold consistent, consistent_of, cp608 in E8; absw w; destruct bF, bE, bP, bT, oS, oX, bC; bsimpl_in E8; bsimpl_in X; bsimpl_in P;
          rewrite ?andb_false_r in E8; discriminate).
        rewrite (show_pos w acc Ha P). destruct (fst (hdp (r_last s) w)), (copy608 m w); reflexivity.
      - rewrite (Hs eq_refl). destruct (copy608 m w) eqn:C; [reflexivity|].
        apply xstep_show; [exact Ha|]. intros X. rewrite X in Hd.
        destruct good; [apply Hg; reflexivity|]. rewrite andb_false_r in Hd. discriminate. }
    rewrite Eacc.
    destruct (copy608 m w) eqn:C.
    + exact (IH _ None good acc st' Hfin I1 Hg Hd).
    + destruct ((if is_tab608 w then pos_mem m else true) && (if some (extended_glyph w) then good else true)); [|discriminate].
      apply (IH _ (Some w) (is_char_pair w || some (special_glyph w)) (show608 w acc) st' Hfin I1); [|exact Hd].
      intros K. apply show_text; assumption.
Qed.

Lemma lines_agree : forall ls s m good acc,
  r_err (fold_left translate_line ls s) = None -> Inv m (r_last s) -> (good = true -> good_last (snd acc)) ->
  dom_lines (m, good) (map snd ls) = true ->
  snd (fold_left step608 (concat (map snd ls)) (m, acc)) = sentx_lines s ls acc.
Proof.
  induction ls as [|l t IH]; intros s m good acc Hfin I Hg Hd.
  - reflexivity.
  - cbn [map dom_lines concat fold_left sentx_lines] in *.
    destruct (dom_words (m, good) (snd l)) as [[m' good']|] eqn:Dw; [|discriminate].
    pose proof (translate_lines_ok _ _ Hfin) as He1.
    assert (He : r_err s = None).
    { destruct (r_err s) as [e|] eqn:E; [|reflexivity]. unfold translate_line in He1. rewrite E in He1. congruence. }
    assert (El : translate_line s l = translate_words (set_clock s (fst l) 0) (snd l))
      by (unfold translate_line; rewrite He; reflexivity).
    rewrite El in *.
    destruct (words_agree (snd l) (set_clock s (fst l) 0) m good acc (m', good') He1 I Hg Dw) as (F & I' & G').
    rewrite fold_left_app, F. cbn [fst snd] in *. exact (IH _ m' good' _ Hfin I' G' Hd).
Qed.

Lemma inv0 : forall off, Inv None (r_last (rstate0 off)).
Proof. intros off. split; [discriminate|reflexivity]. Qed.

(* the decoder's edit script (decoder tables, decoder doubling memory) IS the independent CEA-608 text *)
Theorem sentx_is_sent608 : forall off ls, dom608 ls = true ->
  r_err (fold_left translate_line ls (rstate0 off)) = None ->
  sentx_text (rstate0 off) ls = sent608 (map snd ls).
Proof.
  intros off ls Hd He.
  pose proof (lines_agree ls (rstate0 off) None false ([], []) He (inv0 off) ltac:(discriminate) Hd) as L.
  unfold sentx_text, sent608. cbv zeta. rewrite <- L. reflexivity.
Qed.

Lemma dom_words_alpha : forall ws st st', dom_words st ws = Some st' -> forallb rpb_word ws = true.
Proof.
  induction ws as [|w t IH]; intros st st' H; [reflexivity|].
  cbn [dom_words] in H. cbn [forallb]. destruct (alpha608 w) eqn:Ha; [|discriminate].
  assert (Hw : rpb_word w = true) by (unfold rpb_word; rewrite (alpha_rpx w Ha); reflexivity). rewrite Hw. cbn [andb].
  destruct (copy608 (fst st) w); [exact (IH _ _ H)|].
  destruct (_ && _); [exact (IH _ _ H)|discriminate].
Qed.

Lemma dom_lines_alpha : forall ls st, dom_lines st (map snd ls) = true ->
  forallb (fun l : sline => forallb rpb_word (snd l)) ls = true.
Proof.
  induction ls as [|l t IH]; intros st H; [reflexivity|].
  cbn [map dom_lines] in H. cbn [forallb]. destruct (dom_words st (snd l)) as [st'|] eqn:E; [|discriminate].
  rewrite (dom_words_alpha _ _ _ E). exact (IH _ H).
Qed.

(* C16 against the independent definition of the transmitted characters *)
Theorem rollup_painton_conserved_608 : forall off tc0 w0 ws0 ls caps,
  (w0 = w_ru2 \/ w0 = w_ru3 \/ w0 = w_ru4 \/ w0 = w_rdc) ->
  dom608 ((tc0, w0 :: ws0) :: ls) = true ->
  read off ((tc0, w0 :: ws0) :: ls) = ROk caps ->
  nonspace (caps_text caps) = nonspace (sent608 (map snd ((tc0, w0 :: ws0) :: ls))).
Proof.
  intros off tc0 w0 ws0 ls caps Hw0 Hd Hread.
  pose proof (dom_lines_alpha _ _ Hd) as Ha. cbn [forallb snd] in Ha.
  apply andb_true_iff in Ha. destruct Ha as [Ha0 Hals]. apply andb_true_iff in Ha0. destruct Ha0 as [_ Ha0].
  rewrite (rollup_painton_conserved_ext off tc0 w0 ws0 ls caps Hw0 Ha0 Hals Hread).
  rewrite sentx_is_sent608; [reflexivity|exact Hd|].
  unfold read, run_lines in Hread. cbv zeta in Hread.
  destruct (r_err (fold_left translate_line ((tc0, w0 :: ws0) :: ls) (rstate0 off))) as [e|] eqn:E; [|reflexivity].
  rewrite E in Hread. discriminate.
Qed.

(* ================= 5. the recognisers against Spec608's constructors ======================================= *)
Lemma recognisers_608 :
  (forall i, 0 <= i < 16 -> special_glyph (special_word i) = Some (nth (Z.to_nat i) special_608 0)) /\
  (forall i, 0 <= i < 32 -> extended_glyph (extended1_word i) = Some (nth (Z.to_nat i) extended1_608 0) /\
                            extended_glyph (extended2_word i) = Some (nth (Z.to_nat i) extended2_608 0)) /\
  (forall c1 c2, 32 <= c1 < 128 -> 32 <= c2 < 128 -> pair_glyphs (word c1 c2) = [basic_608 c1; basic_608 c2]) /\
  (forall c1, 32 <= c1 < 128 -> pair_glyphs (word c1 0) = [basic_608 c1]) /\
  (forall r a, 1 <= r <= 15 -> 0 <= a < 32 -> is_pac608 (pac_word r a) = true /\ alpha608 (pac_word r a) = true) /\
  (forall n, 1 <= n <= 3 -> is_tab608 (tab_word n) = true /\ alpha608 (tab_word n) = true).
Proof.
  split; [|split; [|split; [|split; [|split]]]].
  - intros i Hi. apply (map_eq_pointwise (fun i => special_glyph (special_word i))
      (fun i => Some (nth (Z.to_nat i) special_608 0)) (zrange 0 16)); [vmr|inrange].
  - intros i Hi. split.
    + apply (map_eq_pointwise (fun i => extended_glyph (extended1_word i))
        (fun i => Some (nth (Z.to_nat i) extended1_608 0)) (zrange 0 32)); [vmr|inrange].
    + apply (map_eq_pointwise (fun i => extended_glyph (extended2_word i))
        (fun i => Some (nth (Z.to_nat i) extended2_608 0)) (zrange 0 32)); [vmr|inrange].
  - intros c1 c2 H1 H2. apply (map_eq_pointwise2 (fun c1 c2 => pair_glyphs (word c1 c2))
      (fun c1 c2 => [basic_608 c1; basic_608 c2]) (zrange 32 96) (zrange 32 96)); [vmr|inrange|inrange].
  - intros c1 H1. apply (map_eq_pointwise (fun c1 => pair_glyphs (word c1 0))
      (fun c1 => [basic_608 c1]) (zrange 32 96)); [vmr|inrange].
  - intros r a Hr Ha.
    pose proof (map_eq_pointwise2 (fun r a => (is_pac608 (pac_word r a), alpha608 (pac_word r a)))
      (fun _ _ => (true, true)) (zrange 1 15) (zrange 0 32) ltac:(vmr) r a ltac:(inrange) ltac:(inrange)) as E.
    split_pairs E. auto.
  - intros n Hn.
    pose proof (map_eq_pointwise (fun n => (is_tab608 (tab_word n), alpha608 (tab_word n)))
      (fun _ => (true, true)) (zrange 1 3) ltac:(vmr) n ltac:(inrange)) as E.
    split_pairs E. auto.
Qed.

(* ... and they recognise nothing else *)
Lemma special_glyph_sound : forall w g, special_glyph w = Some g ->
  exists i, 0 <= i < 16 /\ w = special_word i /\ g = nth (Z.to_nat i) special_608 0.
Proof.
  intros w g H. unfold special_glyph in H.
  destruct (parity_ok w && (byte1 w =? 17) && within 48 63 (byte2 w)) eqn:E; [|discriminate]. injection H as <-.
  rewrite !andb_true_iff in E. destruct E as [[P B1] B2]. unfold parity_ok in P. apply Z.eqb_eq in P, B1.
  unfold within in B2. apply andb_true_iff in B2. destruct B2 as [L U]. apply Z.leb_le in L, U.
  exists (byte2 w - 48). split; [lia|]. split; [|reflexivity].
  unfold special_word. replace (48 + (byte2 w - 48)) with (byte2 w) by lia. rewrite <- B1. exact P.
Qed.

Lemma extended_glyph_sound : forall w g, extended_glyph w = Some g ->
  exists i, 0 <= i < 32 /\ ((w = extended1_word i /\ g = nth (Z.to_nat i) extended1_608 0) \/
                            (w = extended2_word i /\ g = nth (Z.to_nat i) extended2_608 0)).
Proof.
  intros w g H. unfold extended_glyph in H.
  destruct (parity_ok w && within 32 63 (byte2 w)) eqn:E; [|discriminate].
  apply andb_true_iff in E. destruct E as [P B2]. unfold parity_ok in P. apply Z.eqb_eq in P.
  unfold within in B2. apply andb_true_iff in B2. destruct B2 as [L U]. apply Z.leb_le in L, U.
  exists (byte2 w - 32). split; [lia|].
  destruct (Z.eqb_spec (byte1 w) 18) as [B1|_].
  - injection H as <-. left. split; [|reflexivity].
    unfold extended1_word. replace (32 + (byte2 w - 32)) with (byte2 w) by lia. rewrite <- B1. exact P.
  - destruct (Z.eqb_spec (byte1 w) 19) as [B1|_]; [|discriminate]. injection H as <-. right. split; [|reflexivity].
    unfold extended2_word. replace (32 + (byte2 w - 32)) with (byte2 w) by lia. rewrite <- B1. exact P.
Qed.

(* ================= 6. examples ============================================================================= *)
(* RU2 RU2, CR CR, PAC PAC (row 15), "ab", special (R) doubled, "cd" + extended A-acute doubled (replaces "d");
   second line: CR, PAC, "cd" *)
Definition ex608 : list sline :=
  [(lit "00:00:01:00", [w_ru2; w_ru2; w_cr; w_cr; 38000; 38000; 24930; 37296; 37296; 58212; 37408; 37408]);
   (lit "00:00:03:00", [w_cr; 38000; 58212])].


Example rollup_painton_conserved_608_example :
  dom608 ex608 = true /\
  sent608 (map snd ex608) = [97; 98; 174; 99; 193; 99; 100] /\
  sentx_text (rstate0 0) ex608 = [97; 98; 174; 99; 193; 99; 100] /\
  exists caps, read 0 ex608 = ROk caps /\ nonspace (caps_text caps) = [97; 98; 174; 99; 193; 99; 100].
Proof.
  split; [vmr|]. split; [vmr|]. split; [vmr|].
  destruct (read 0 ex608) as [caps| |] eqn:E; try (vm_compute in E; discriminate E).
  exists caps. split; [reflexivity|].
  rewrite (rollup_painton_conserved_608 0 (lit "00:00:01:00") w_ru2
             [w_ru2; w_cr; w_cr; 38000; 38000; 24930; 37296; 37296; 58212; 37408; 37408]
             [(lit "00:00:03:00", [w_cr; 38000; 58212])] caps); [vmr|auto|vmr|exact E].
Qed.


(* paint-on: RDC RDC, the unit PAC TO PAC TO, "ab", null filler, EDM EDM, a special character sent three times (the
   third copy counts: two are displayed), "a" + padding, extended E-acute doubled (replaces "a") *)
Definition ex608b : list sline :=
  [(lit "00:00:01:00", [w_rdc; w_rdc; 38000; 38818; 38000; 38818; 24930; 32896; w_edm; w_edm; 37296; 37296; 37296;
                        24960; 37537; 37537])].

Example rollup_painton_conserved_608_example2 :
  dom608 ex608b = true /\
  sent608 (map snd ex608b) = [97; 98; 174; 174; 201] /\
  exists caps, read 0 ex608b = ROk caps /\ nonspace (caps_text caps) = [97; 98; 174; 174; 201].
Proof.
  split; [vmr|]. split; [vmr|].
  destruct (read 0 ex608b) as [caps| |] eqn:E; try (vm_compute in E; discriminate E).
  exists caps. split; [reflexivity|].
  rewrite (rollup_painton_conserved_608 0 (lit "00:00:01:00") w_rdc
             [w_rdc; 38000; 38818; 38000; 38818; 24930; 32896; w_edm; w_edm; 37296; 37296; 37296; 24960; 37537; 37537]
             [] caps); [vmr|auto|vmr|exact E].
Qed.

(* D2 is needed: special, tab offset, the same special again - a 608 decoder shows two, the reader one *)
Example tab_after_special_diverges :
  let ls := [(lit "00:00:01:00", [w_ru2; w_ru2; 38000; 37296; 38818; 37296])] in
  forallb (fun l => forallb alpha608 (snd l)) ls = true /\ dom608 ls = false /\
  sent608 (map snd ls) = [174; 174] /\ sentx_text (rstate0 0) ls = [174].
Proof. cbv zeta. split; [vmr|split; [vmr|split; vmr]]. Qed.

(* D3 is needed: two different extended characters in a row - a 608 decoder lets the second replace the first, the
   reader keeps both *)
Example ext_after_ext_diverges :
  let ls := [(lit "00:00:01:00", [w_ru2; w_ru2; 38000; 24930; 37408; 37537])] in
  forallb (fun l => forallb alpha608 (snd l)) ls = true /\ dom608 ls = false /\
  sent608 (map snd ls) = [97; 201] /\ sentx_text (rstate0 0) ls = [97; 193; 201].
Proof. cbv zeta. split; [vmr|split; [vmr|split; vmr]]. Qed.

(* the no-error hypothesis of `sentx_is_sent608` is needed: after an error (here: a malformed time code) the reader's
   state is frozen, `sentx_text` keeps consulting the frozen doubling memory and counts both copies *)
Example no_error_hypothesis_needed :
  let ls := [(lit "x", [w_ru2; w_ru2; 37296; 37296])] in
  dom608 ls = true /\ r_err (fold_left translate_line ls (rstate0 0)) <> None /\
  sent608 (map snd ls) = [174] /\ sentx_text (rstate0 0) ls = [174; 174].
Proof. cbv zeta. split; [vmr|split; [vm_compute; discriminate|split; vmr]]. Qed.

Print Assumptions sentx_is_sent608.
Print Assumptions rollup_painton_conserved_608.
Print Assumptions rollup_painton_conserved_608_example.
Print Assumptions skip_decision_608.
