(* String lemmas used by the C17 proofs: split_ch / join, decimal printing (lib/Str.v definitions). *)
From Coq Require Import List ZArith Lia Bool ZifyBool Arith.
From PV Require Import lib.Sx lib.Str.
Import ListNotations.
Open Scope Z_scope.
Ltac Zify.zify_post_hook ::= Z.to_euclidean_division_equations.

(* ---- split_ch ------------------------------------------------------------------------------------ *)
Lemma split_ch_aux_app_nosep : forall sep a rest cur, forallb (fun c => negb (c =? sep)) a = true ->
  split_ch_aux sep (a ++ rest) cur = split_ch_aux sep rest (rev a ++ cur).
Proof.
  induction a as [|x t IH]; intros rest cur H; [reflexivity|].
  simpl in H. apply andb_prop in H. destruct H as [H1 H2]. cbn [app split_ch_aux].
  destruct (x =? sep); [discriminate|]. rewrite IH by exact H2. cbn [rev]. rewrite <- app_assoc. reflexivity.
Qed.

Lemma split_ch_aux_cur : forall sep s cur,
  split_ch_aux sep s cur = match split_ch_aux sep s [] with
                           | x :: t => (rev cur ++ x) :: t
                           | [] => []
                           end.
Proof.
  induction s as [|c t IH]; intros cur; cbn [split_ch_aux].
  - simpl. rewrite app_nil_r. reflexivity.
  - destruct (c =? sep).
    + simpl. rewrite app_nil_r. reflexivity.
    + rewrite (IH (c :: cur)), (IH [c]). destruct (split_ch_aux sep t []); [reflexivity|].
      cbn [rev]. rewrite <- !app_assoc. reflexivity.
Qed.

Lemma split_ch_nonempty : forall sep s, split_ch sep s <> [].
Proof.
  unfold split_ch. intros sep s. generalize (@nil Z).
  induction s as [|c t IH]; intros cur; cbn [split_ch_aux]; [discriminate|].
  destruct (c =? sep); [discriminate|apply IH].
Qed.

(* split distributes over a separator *)
Lemma split_ch_aux_app_sep : forall sep a b cur,
  split_ch_aux sep (a ++ sep :: b) cur = split_ch_aux sep a cur ++ split_ch_aux sep b [].
Proof.
  induction a as [|c t IH]; intros b cur; cbn [app split_ch_aux].
  - rewrite Z.eqb_refl. reflexivity.
  - destruct (c =? sep).
    + rewrite IH. reflexivity.
    + apply IH.
Qed.
Lemma split_ch_app_sep : forall sep a b, split_ch sep (a ++ sep :: b) = split_ch sep a ++ split_ch sep b.
Proof. intros. apply split_ch_aux_app_sep. Qed.

Lemma split_ch_join : forall sep ls, ls <> [] -> split_ch sep (join [sep] ls) = flat_map (split_ch sep) ls.
Proof.
  induction ls as [|a t IH]; intros H; [congruence|].
  destruct t as [|b t'].
  - simpl. rewrite app_nil_r. reflexivity.
  - change (join [sep] (a :: b :: t')) with (a ++ [sep] ++ join [sep] (b :: t')).
    cbn [app]. rewrite split_ch_app_sep, IH by discriminate. reflexivity.
Qed.

Lemma split_ch_aux_len : forall sep s cur x, In x (split_ch_aux sep s cur) ->
  (length x <= length s + length cur)%nat.
Proof.
  induction s as [|c t IH]; intros cur x H; cbn [split_ch_aux] in H.
  - destruct H as [<-|[]]. rewrite rev_length. simpl. lia.
  - destruct (c =? sep).
    + destruct H as [<-|H]; [rewrite rev_length; simpl; lia|]. apply IH in H. simpl in *. lia.
    + apply IH in H. simpl in *. lia.
Qed.
Lemma split_ch_len : forall sep s x, In x (split_ch sep s) -> (length x <= length s)%nat.
Proof. intros. apply split_ch_aux_len in H. simpl in H. lia. Qed.

Lemma split_ch_nosep : forall sep s, forallb (fun c => negb (c =? sep)) s = true -> split_ch sep s = [s].
Proof.
  intros sep s H. unfold split_ch. rewrite <- (app_nil_r s) at 1.
  rewrite split_ch_aux_app_nosep by exact H. simpl. rewrite app_nil_r, rev_involutive. reflexivity.
Qed.

(* ---- decimal ------------------------------------------------------------------------------------- *)
Definition dval (s : str) : Z := fold_left (fun a c => a * 10 + digit_val c) s 0.

Lemma fold_dval : forall s a, fold_left (fun a c => a * 10 + digit_val c) s a
                              = a * 10 ^ Z.of_nat (length s) + dval s.
Proof.
  unfold dval. induction s as [|c t IH]; intros a.
  - simpl. lia.
  - cbn [fold_left length]. rewrite IH, (IH (0 * 10 + digit_val c)).
    rewrite Nat2Z.inj_succ, Z.pow_succ_r by lia. lia.
Qed.
Lemma dval_cons : forall c t, dval (c :: t) = digit_val c * 10 ^ Z.of_nat (length t) + dval t.
Proof. intros. unfold dval at 1. cbn [fold_left]. rewrite fold_dval. lia. Qed.
Lemma dval_app : forall a b, dval (a ++ b) = dval a * 10 ^ Z.of_nat (length b) + dval b.
Proof. intros. unfold dval at 1. rewrite fold_left_app. fold (dval a). apply fold_dval. Qed.

Lemma digits_val_acc_spec : forall s a, forallb is_digit s = true ->
  digits_val_acc s a = Some (fold_left (fun a c => a * 10 + digit_val c) s a).
Proof.
  induction s as [|c t IH]; intros a H; [reflexivity|].
  simpl in H. apply andb_prop in H. destruct H as [H1 H2]. cbn [digits_val_acc fold_left].
  rewrite H1. apply IH. exact H2.
Qed.
Lemma int_of_digits_spec : forall s, s <> [] -> forallb is_digit s = true -> int_of_digits s = Some (dval s).
Proof. intros s N H. destruct s; [congruence|]. unfold int_of_digits. apply digits_val_acc_spec. exact H. Qed.

Lemma dec_aux_S : forall f z acc, dec_aux (S f) z acc =
  if z <? 10 then (48 + z mod 10) :: acc else dec_aux f (z / 10) ((48 + z mod 10) :: acc).
Proof. reflexivity. Qed.

Lemma dec_aux_spec : forall f z acc, 0 <= z < 2 ^ (Z.of_nat f + 1) -> forallb is_digit acc = true ->
  forallb is_digit (dec_aux (S f) z acc) = true /\
  dval (dec_aux (S f) z acc) = z * 10 ^ Z.of_nat (length acc) + dval acc /\
  (length acc < length (dec_aux (S f) z acc))%nat.
Proof.
  induction f as [|f IH]; intros z acc Hz Ha; rewrite dec_aux_S.
  - change (2 ^ (Z.of_nat 0 + 1)) with 2 in Hz.
    assert (E : (z <? 10) = true) by lia. rewrite E.
    assert (D : is_digit (48 + z mod 10) = true) by (unfold is_digit; lia).
    repeat split.
    + cbn [forallb]. rewrite D. exact Ha.
    + rewrite dval_cons. unfold digit_val. rewrite Z.mod_small by lia. lia.
    + simpl. lia.
  - assert (D : is_digit (48 + z mod 10) = true) by (unfold is_digit; lia).
    destruct (z <? 10) eqn:E.
    + repeat split.
      * cbn [forallb]. rewrite D. exact Ha.
      * rewrite dval_cons. unfold digit_val. rewrite Z.mod_small by lia. lia.
      * simpl. lia.
    + assert (Hq : 0 <= z / 10 < 2 ^ (Z.of_nat f + 1)).
      { rewrite Nat2Z.inj_succ in Hz. replace (Z.succ (Z.of_nat f) + 1) with (Z.succ (Z.of_nat f + 1)) in Hz by lia.
        rewrite Z.pow_succ_r in Hz by lia. split; [apply Z.div_pos; lia|].
        assert (0 < 2 ^ (Z.of_nat f + 1)) by (apply Z.pow_pos_nonneg; lia).
        apply Z.div_lt_upper_bound; lia. }
      destruct (IH (z / 10) ((48 + z mod 10) :: acc) Hq) as (I1 & I2 & I3).
      { cbn [forallb]. rewrite D. exact Ha. }
      repeat split; [exact I1| |cbn [length] in I3; lia].
      rewrite I2, dval_cons. cbn [length]. rewrite Nat2Z.inj_succ, Z.pow_succ_r by lia.
      unfold digit_val. pose proof (Z.div_mod z 10). lia.
Qed.

Lemma dec_nonneg_spec : forall z, 0 <= z ->
  forallb is_digit (dec_nonneg z) = true /\ dval (dec_nonneg z) = z /\ dec_nonneg z <> [].
Proof.
  intros z Hz. unfold dec_nonneg.
  assert (B : 0 <= z < 2 ^ (Z.of_nat (Z.to_nat (Z.log2 z)) + 1)).
  { rewrite Z2Nat.id by apply Z.log2_nonneg. destruct (Z.eq_dec z 0) as [->|N]; [simpl; lia|].
    pose proof (Z.log2_spec z). replace (Z.log2 z + 1) with (Z.succ (Z.log2 z)) by lia. lia. }
  destruct (dec_aux_spec _ z [] B eq_refl) as (H1 & H2 & H3).
  repeat split; [exact H1|rewrite H2; cbn [length dval fold_left Z.of_nat]; rewrite Z.pow_0_r; lia|].
  intros E. rewrite E in H3. cbn [length] in H3. lia.
Qed.

Lemma zpad_spec : forall w s, forallb is_digit s = true ->
  forallb is_digit (zpad w s) = true /\ dval (zpad w s) = dval s /\ (w <= length (zpad w s))%nat
  /\ (length s <= length (zpad w s))%nat.
Proof.
  intros w s H. unfold zpad. repeat split.
  - rewrite forallb_app, H, andb_true_r. induction (w - length s)%nat; simpl; auto.
  - rewrite dval_app. assert (Z0 : forall n, dval (repeat 48 n) = 0).
    { induction n; [reflexivity|]. cbn [repeat]. rewrite dval_cons, IHn. reflexivity. }
    rewrite Z0. lia.
  - rewrite app_length, repeat_length. lia.
  - rewrite app_length. lia.
Qed.

(* pieces of a split only contain characters of the string other than the separator *)
Lemma split_ch_aux_forallb : forall (p : Z -> bool) sep s cur,
  forallb (fun c => p c || (c =? sep)) s = true -> forallb p cur = true ->
  forall x, In x (split_ch_aux sep s cur) -> forallb p x = true.
Proof.
  induction s as [|c t IH]; intros cur Hs Hc x Hx; cbn [split_ch_aux] in Hx.
  - destruct Hx as [<-|[]]. rewrite forallb_forall in *. intros y Hy. apply Hc. apply in_rev. exact Hy.
  - cbn [forallb] in Hs. apply andb_prop in Hs. destruct Hs as [H1 H2]. destruct (c =? sep) eqn:E.
    + destruct Hx as [<-|Hx].
      * rewrite forallb_forall in *. intros y Hy. apply Hc. apply in_rev. exact Hy.
      * apply (IH [] H2 eq_refl x Hx).
    + apply (IH (c :: cur)); auto. cbn [forallb]. rewrite Hc, andb_true_r. rewrite orb_false_r in H1. exact H1.
Qed.
