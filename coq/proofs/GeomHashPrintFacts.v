(* C18 (round 4): the hash clause spelled out per class (components may be None), and the canonical print form together
   with the re-parse tolerance as one Prop-level statement. *)
From Coq Require Import List ZArith QArith Qabs Bool Lia.
From PV Require Import lib.Sx lib.Str lib.Result model.Geometry spec.SpecGeom.
From PV Require Import proofs.GeomStr proofs.GeomEq proofs.GeomParse proofs.GeomPrint proofs.GeomLang proofs.GeomFacts.
Import ListNotations.
Open Scope Z_scope.

Section H.
  Variables (hq : Q -> Z) (hu : unit_ -> Z) (hh : option halign -> Z) (hv : option valign -> Z) (hnone : Z) (hint : Z -> Z).

  Theorem hash_eq_per_class :
    (forall a b, size_eqb a b = true -> size_hash hq hu hint a = size_hash hq hu hint b)
    /\ (forall a b, point_eqb a b = true -> point_hash hq hu hint a = point_hash hq hu hint b)
    /\ (forall a b, stretch_eqb a b = true -> stretch_hash hq hu hint a = stretch_hash hq hu hint b)
    /\ (forall a b, padding_eqb a b = true -> padding_hash hq hu hint a = padding_hash hq hu hint b)
    /\ (forall a b, alignment_eqb a b = true -> alignment_hash hh hv hint a = alignment_hash hh hv hint b)
    /\ (forall a b, layout_eqb a b = true -> layout_hash hq hu hh hv hnone hint a = layout_hash hq hu hh hv hnone hint b).
  Proof.
    repeat split; intros a b H.
    - exact (gval_hash_eq hq hu hh hv hnone hint (GSize a) (GSize b) H).
    - exact (gval_hash_eq hq hu hh hv hnone hint (GPoint a) (GPoint b) H).
    - exact (gval_hash_eq hq hu hh hv hnone hint (GStretch a) (GStretch b) H).
    - exact (gval_hash_eq hq hu hh hv hnone hint (GPadding a) (GPadding b) H).
    - exact (gval_hash_eq hq hu hh hv hnone hint (GAlign a) (GAlign b) H).
    - exact (gval_hash_eq hq hu hh hv hnone hint (GLayout a) (GLayout b) H).
  Qed.
End H.

(* the model printer on EVERY non-negative rational: canonical form (digits, optional point and one or two digits without
   a trailing zero, no leading zero, then the unit) and re-parsing gives the same unit and a value within 1/200 *)
Theorem print_canonical_reparse : forall a, (0 <= s_val a)%Q ->
  exists ip fp z,
    size_str a = dotted ip fp ++ unit_str (s_unit a)
    /\ all_digits ip = true /\ (fp = [] \/ all_digits fp = true)
    /\ no_leading_zero ip /\ (length fp <= 2)%nat /\ no_trailing_zero fp
    /\ size_from_string (size_str a) = Ok z /\ s_unit z = s_unit a /\ (Qabs (s_val z - s_val a) <= 1 # 200)%Q.
Proof.
  intros a Ha. destruct (size_str_shape a Ha) as (ip & fp & H1 & H2 & H3 & _ & H5 & H6 & H7).
  destruct (print_parse a Ha) as (z & E & _ & U). destruct (print_parse_print a Ha) as (z2 & E2 & _ & C).
  rewrite E in E2. inversion E2; subst z2. exists ip, fp, z. repeat split; assumption.
Qed.
