(* C03 / C11, payload round trip on the models: what the strict parser builds from the payload a writer model
   assembles is well-formed for flat balanced spans, keeps every visible character and every break in order, and the
   reader model returns from it the same characters with the same style flags. *)
From Coq Require Import List ZArith Bool Lia ZifyBool.
From PV Require Import lib.Sx lib.Str model.TextNodes model.TextWrite model.TextRead.
From PV Require Import spec.SpecTextXml spec.SpecTextStyle.
From PV Require Import proofs.TextStrFacts proofs.TextXmlFacts proofs.TextReadFacts proofs.TextPayloadFacts proofs.TextStyleFacts.
Import ListNotations.
Open Scope Z_scope.

(* ---- token lists the writers produce: span / br only ------------------------------------------------------------- *)
Definition span_tok (tk : xtok) : bool :=
  match tk with
  | TkText _ => true
  | TkOpen n _ => str_eqb n (lit "span")
  | TkClose n => str_eqb n (lit "span")
  | TkEmpty n _ => str_eqb n (lit "br")
  end.

Fixpoint tdepth (toks : list xtok) (d : nat) : option nat :=
  match toks with
  | [] => Some d
  | TkOpen _ _ :: t => tdepth t (S d)
  | TkClose _ :: t => match d with O => None | S d' => tdepth t d' end
  | _ :: t => tdepth t d
  end.

Lemma tdepth_app : forall a b d, tdepth (a ++ b) d = match tdepth a d with Some d' => tdepth b d' | None => None end.
Proof.
  induction a as [|tk a IH]; intros b d; [reflexivity|]. destruct tk; cbn [app tdepth]; try apply IH.
  destruct d; [reflexivity|apply IH].
Qed.

Definition stack_ok (stack : list (str * list (str * str) * list xnode)) : Prop :=
  Forall (fun e => fst (fst e) = lit "span") stack.

Lemma str_eqb_true_eq : forall a b, str_eqb a b = true -> a = b.
Proof.
  induction a as [|x a IH]; intros [|y b] H; cbn [str_eqb] in H; try discriminate; [reflexivity|].
  apply andb_true_iff in H. destruct H as [H1 H2]. apply Z.eqb_eq in H1. subst. f_equal. apply IH. exact H2.
Qed.

(* balanced span tokens always build *)
Lemma xbuild_ok : forall toks stack cur, forallb span_tok toks = true -> stack_ok stack ->
  tdepth toks (length stack) = Some 0%nat -> exists t, xbuild toks stack cur = Some t.
Proof.
  induction toks as [|tk toks IH]; intros stack cur Hs Hst Hd.
  - cbn [tdepth] in Hd. injection Hd as Hd. destruct stack; [|discriminate]. eexists. reflexivity.
  - cbn [forallb] in Hs. apply andb_true_iff in Hs. destruct Hs as [Htk Hs].
    destruct tk as [s|n a|n|n a]; cbn [tdepth xbuild span_tok] in *.
    + apply IH; assumption.
    + apply (IH ((n, a, cur) :: stack) []); [exact Hs| |exact Hd].
      constructor; [apply str_eqb_true_eq; exact Htk|exact Hst].
    + destruct stack as [|[[n' a'] prev] stack']; [discriminate|]. cbn [length] in Hd.
      inversion Hst as [|e l He Hl]; subst. cbn [fst] in He. subst n'. rewrite Htk. apply IH; assumption.
    + apply IH; assumption.
Qed.

(* ---- what a tree shows, from the tokens it was built from -------------------------------------------------------- *)
Definition tok_flat1 (tk : xtok) : str :=
  match tk with TkText s => s | TkEmpty _ _ => [brk_mark] | _ => [] end.
Definition tok_flat (toks : list xtok) : str := flat_map tok_flat1 toks.

Fixpoint unwind_flat (stack : list (str * list (str * str) * list xnode)) (cur : list xnode) : str :=
  match stack with
  | [] => flat_map tree_flat (rev cur)
  | (_, _, prev) :: st => unwind_flat st prev ++ flat_map tree_flat (rev cur)
  end.

Lemma unwind_flat_cons : forall stack x cur, unwind_flat stack (x :: cur) = unwind_flat stack cur ++ tree_flat x.
Proof.
  intros stack x cur. destruct stack as [|[[n a] prev] st]; cbn [unwind_flat rev]; rewrite flat_map_app; cbn [flat_map];
    rewrite app_nil_r; [reflexivity|rewrite app_assoc; reflexivity].
Qed.

Lemma xbuild_flat : forall toks stack cur t, forallb span_tok toks = true -> stack_ok stack ->
  xbuild toks stack cur = Some t -> flat_map tree_flat t = unwind_flat stack cur ++ tok_flat toks.
Proof.
  induction toks as [|tk toks IH]; intros stack cur t Hs Hst H.
  - cbn [xbuild] in H. destruct stack; [|discriminate]. injection H as <-. cbn. rewrite app_nil_r. reflexivity.
  - cbn [forallb] in Hs. apply andb_true_iff in Hs. destruct Hs as [Htk Hs]. unfold tok_flat. cbn [flat_map]. fold (tok_flat toks).
    destruct tk as [s|n a|n|n a]; cbn [xbuild span_tok tok_flat1] in *.
    + rewrite (IH _ _ _ Hs Hst H), unwind_flat_cons, <- app_assoc. reflexivity.
    + assert (Hst2 : stack_ok ((n, a, cur) :: stack)) by (constructor; [apply str_eqb_true_eq; exact Htk|exact Hst]).
      rewrite (IH _ _ _ Hs Hst2 H). cbn [unwind_flat rev flat_map]. rewrite app_nil_r. reflexivity.
    + destruct stack as [|[[n' a'] prev] stack']; [discriminate|].
      inversion Hst as [|e l He Hl]; subst. cbn [fst] in He. subst n'. rewrite Htk in H.
      rewrite (IH _ _ _ Hs Hl H), unwind_flat_cons. cbn [tree_flat unwind_flat].
      apply str_eqb_true_eq in Htk. subst n. change (str_eqb (lit "span") (lit "br")) with false. cbv iota.
      reflexivity.
    + rewrite (IH _ _ _ Hs Hst H), unwind_flat_cons, <- app_assoc. cbn [tree_flat]. rewrite Htk. reflexivity.
Qed.

(* ---- abstract writer: depth, names, visible content ------------------------------------------------------------------ *)
Lemma forallb_rev_gen : forall {A} (P : A -> bool) l, forallb P (rev l) = forallb P l.
Proof.
  intros A P l. induction l as [|c t IH]; [reflexivity|].
  cbn [rev forallb]. rewrite forallb_app, IH. cbn [forallb]. rewrite andb_true_r. apply andb_comm.
Qed.

Definition bn (b : bool) : nat := if b then 1%nat else 0%nat.
Definition o_ok (out : list xtok) (open : bool) : Prop :=
  forallb span_tok out = true /\ tdepth (rev out) 0 = Some (bn open).

Lemma flush_ok : forall cur out o, o_ok out o -> o_ok (flush cur out) o.
Proof.
  intros cur out o [H1 H2]. unfold flush. destruct cur; [split; assumption|]. split.
  - cbn [forallb span_tok]. exact H1.
  - cbn [rev]. rewrite tdepth_app, H2. reflexivity.
Qed.

Definition a_ok (a : ast) (open : bool) : Prop := o_ok (a_out a) open.

Lemma a_ok_text : forall s a o, a_ok a o -> a_ok (a_text s a) o. Proof. intros; exact H. Qed.
Lemma a_ok_lit : forall s a o, a_ok a o -> a_ok (a_lit s a) o. Proof. intros; exact H. Qed.
Lemma a_ok_rstrip : forall a o, a_ok a o -> a_ok (a_rstrip a) o. Proof. intros; exact H. Qed.
Lemma a_ok_br : forall a o, a_ok a o -> a_ok (a_br a) o.
Proof.
  intros a o H. unfold a_br, a_ok, a_lit, a_mark, a_rstrip. cbn [a_out a_cur].
  destruct (flush_ok (drop_while is_space (a_cur a)) (a_out a) o H) as [H1 H2]. split.
  - cbn [forallb span_tok]. exact H1.
  - cbn [rev]. rewrite tdepth_app, H2. reflexivity.
Qed.
Lemma a_ok_close : forall a, a_ok a true -> a_ok (a_close a) false.
Proof.
  intros a H. unfold a_close, a_ok, a_mark. cbn [a_out a_cur].
  destruct (flush_ok (a_cur a) (a_out a) true H) as [H1 H2]. split.
  - cbn [forallb span_tok]. exact H1.
  - cbn [rev]. rewrite tdepth_app, H2. reflexivity.
Qed.
Lemma a_ok_close_sp : forall a, a_ok a true -> a_ok (a_close_sp a) false.
Proof.
  intros a H. unfold a_close_sp, a_ok, a_lit, a_mark, a_rstrip. cbn [a_out a_cur].
  destruct (flush_ok (drop_while is_space (a_cur a)) (a_out a) true H) as [H1 H2]. split.
  - cbn [forallb span_tok]. exact H1.
  - cbn [rev]. rewrite tdepth_app, H2. reflexivity.
Qed.
Lemma a_ok_open : forall a attrs, a_ok a false -> a_ok (a_mark (TkOpen (lit "span") attrs) a) true.
Proof.
  intros a attrs H. unfold a_ok, a_mark. cbn [a_out].
  destruct (flush_ok (a_cur a) (a_out a) false H) as [H1 H2]. split.
  - cbn [forallb span_tok]. exact H1.
  - cbn [rev]. rewrite tdepth_app, H2. reflexivity.
Qed.

Definition opt_some {A} (o : option A) : bool := match o with Some _ => true | None => false end.
Definition flag_of (atok : style -> option (list (str * str))) (cur : option style) : bool :=
  match cur with Some st => opt_some (atok st) | None => false end.

(* along flat balanced spans: the open flag says whether the current span was written, depth = flag *)
Lemma abs_run_ok : forall sfx acl atok, (forall a, a_ok a true -> a_ok (acl a) false) ->
  forall ns a cur, flat_aux ns cur = true -> a_ok a (flag_of atok cur) ->
  let r := fold_left (abs_step sfx acl atok) ns (a, flag_of atok cur) in a_ok (fst r) false /\ snd r = false.
Proof.
  intros sfx acl atok Hacl. induction ns as [|n ns IH]; intros a cur Hf Ha.
  - cbn [flat_aux] in Hf. destruct cur; [discriminate|]. split; [exact Ha|reflexivity].
  - cbn [fold_left]. destruct n as [s| |[] st]; cbn [flat_aux abs_step] in *.
    + apply (IH _ cur Hf). apply a_ok_lit, a_ok_text. exact Ha.
    + apply (IH _ cur Hf). apply a_ok_br. exact Ha.
    + destruct cur as [st0|]; [discriminate|]. cbn [flag_of] in *.
      destruct (atok st) as [attrs|] eqn:E.
      * pose proof (IH (a_mark (TkOpen (lit "span") attrs) a) (Some st) Hf) as Q. cbn [flag_of] in Q. rewrite E in Q.
        apply Q. apply a_ok_open. exact Ha.
      * pose proof (IH a (Some st) Hf) as Q. cbn [flag_of] in Q. rewrite E in Q. apply Q. exact Ha.
    + destruct cur as [st0|]; [|discriminate]. apply andb_true_iff in Hf. destruct Hf as [_ Hf]. cbn [flag_of] in *.
      destruct (opt_some (atok st0)).
      * apply (IH (acl a) None Hf). apply Hacl. exact Ha.
      * apply (IH a None Hf). exact Ha.
Qed.

Theorem abs_tokens_balanced : forall sfx acl atok ns, (forall a, a_ok a true -> a_ok (acl a) false) ->
  flat_balanced ns = true ->
  forallb span_tok (abs_tokens sfx acl atok ns) = true /\ tdepth (abs_tokens sfx acl atok ns) 0 = Some 0%nat.
Proof.
  intros sfx acl atok ns Hacl H. unfold abs_tokens, abs_run.
  destruct (abs_run_ok sfx acl atok Hacl ns (mkA [] []) None H) as [[H1 H2] _]; [split; reflexivity|].
  cbn [flag_of] in *. set (a := fst (fold_left (abs_step sfx acl atok) ns (mkA [] [], false))) in *.
  destruct (flush_ok (a_cur (a_rstrip a)) (a_out (a_rstrip a)) false (conj H1 H2)) as [F1 F2].
  split; [rewrite forallb_rev_gen; exact F1|exact F2].
Qed.

(* visible content *)
Definition a_flat (a : ast) : str := tok_flat (rev (a_out a)) ++ rev (a_cur a).

Lemma tok_flat_app : forall x y, tok_flat (x ++ y) = tok_flat x ++ tok_flat y.
Proof. intros. unfold tok_flat. apply flat_map_app. Qed.

Lemma flat_flush : forall cur out, tok_flat (rev (flush cur out)) = tok_flat (rev out) ++ rev cur.
Proof.
  intros cur out. unfold flush. destruct cur as [|c cur]; [cbn [rev]; rewrite app_nil_r; reflexivity|].
  cbn [rev]. rewrite tok_flat_app. unfold tok_flat at 2. cbn [flat_map tok_flat1]. rewrite app_nil_r. reflexivity.
Qed.

Lemma vis_drop_space_rev : forall cur, vis (rev (drop_while is_space cur)) = vis (rev cur).
Proof.
  induction cur as [|c cur IH]; [reflexivity|]. cbn [drop_while]. destruct (is_space c) eqn:E; [|reflexivity].
  rewrite IH. cbn [rev]. rewrite vis_app. unfold vis at 3. cbn [filter]. rewrite E. cbn [negb]. rewrite app_nil_r. reflexivity.
Qed.

Lemma vis_lit : forall ws, forallb lit_space ws = true -> vis ws = [].
Proof.
  induction ws as [|w ws IH]; intros H; [reflexivity|]. cbn [forallb] in H. apply andb_true_iff in H. destruct H as [Hw Hws].
  unfold vis. cbn [filter]. assert (is_space w = true) by (unfold lit_space in Hw; unfold is_space; lia).
  rewrite H. cbn [negb]. apply IH. exact Hws.
Qed.

Lemma vis_flat_text : forall s a, vis (a_flat (a_text s a)) = vis (a_flat a) ++ vis s.
Proof. intros. unfold a_flat, a_text. cbn [a_cur a_out]. rewrite rev_app_distr, rev_involutive, !vis_app, app_assoc. reflexivity. Qed.
Lemma vis_flat_lit : forall ws a, forallb lit_space ws = true -> vis (a_flat (a_lit ws a)) = vis (a_flat a).
Proof.
  intros. unfold a_flat, a_lit. cbn [a_cur a_out]. rewrite rev_app_distr, rev_involutive, !vis_app, (vis_lit ws H), app_nil_r. reflexivity.
Qed.
Lemma vis_flat_rstrip : forall a, vis (a_flat (a_rstrip a)) = vis (a_flat a).
Proof. intros. unfold a_flat, a_rstrip. cbn [a_cur a_out]. rewrite !vis_app, vis_drop_space_rev. reflexivity. Qed.
Lemma vis_flat_mark : forall tk a, vis (a_flat (a_mark tk a)) = vis (a_flat a) ++ vis (tok_flat1 tk).
Proof.
  intros. unfold a_flat, a_mark. cbn [a_cur a_out rev]. rewrite tok_flat_app, flat_flush. unfold tok_flat at 2.
  cbn [flat_map]. rewrite !app_nil_r, !vis_app. reflexivity.
Qed.

Lemma vis_brk : vis [brk_mark] = [brk_mark]. Proof. reflexivity. Qed.

Lemma vis_close : forall x, vis (a_flat (a_close x)) = vis (a_flat x).
Proof. intros x. unfold a_close. rewrite vis_flat_mark. cbn. rewrite app_nil_r. reflexivity. Qed.
Lemma vis_close_sp : forall x, vis (a_flat (a_close_sp x)) = vis (a_flat x).
Proof.
  intros x. unfold a_close_sp. rewrite vis_flat_lit by reflexivity. rewrite vis_flat_mark, vis_flat_rstrip. cbn. rewrite app_nil_r. reflexivity.
Qed.

Lemma abs_run_vis : forall sfx acl atok, (forall x, vis (a_flat (acl x)) = vis (a_flat x)) ->
  forall ns a open, forallb lit_space sfx = true ->
  vis (a_flat (fst (fold_left (abs_step sfx acl atok) ns (a, open)))) = vis (a_flat a) ++ vis (node_flat ns).
Proof.
  intros sfx acl atok Hclose ns a open Hsfx. revert a open. induction ns as [|n ns IH]; intros a open.
  - cbn. rewrite app_nil_r. reflexivity.
  - cbn [fold_left]. unfold node_flat. cbn [flat_map]. fold (node_flat ns). rewrite vis_app.
    destruct n as [s| |[] st]; cbn [abs_step node_flat1].
    + rewrite IH, vis_flat_lit by exact Hsfx. rewrite vis_flat_text, app_assoc. reflexivity.
    + rewrite IH. unfold a_br. rewrite vis_flat_lit by reflexivity. rewrite vis_flat_mark, vis_flat_rstrip, app_assoc. reflexivity.
    + cbn [vis filter app]. destruct (atok st) as [attrs|].
      * rewrite IH, vis_flat_mark. cbn [tok_flat1]. change (vis []) with (@nil Z). rewrite app_nil_r.
        destruct open; [rewrite Hclose|]; reflexivity.
      * apply IH.
    + cbn [vis filter app]. destruct open; rewrite IH; [rewrite Hclose|]; reflexivity.
Qed.

(* every visible character of every text node and every break, in order, nothing else *)
Theorem abs_tokens_visible : forall sfx acl atok ns, (forall x, vis (a_flat (acl x)) = vis (a_flat x)) ->
  forallb lit_space sfx = true ->
  vis (tok_flat (abs_tokens sfx acl atok ns)) = vis (node_flat ns).
Proof.
  intros sfx acl atok ns Hcl Hsfx. unfold abs_tokens, abs_run.
  set (a := fst (fold_left (abs_step sfx acl atok) ns (mkA [] [], false))).
  cbv zeta. rewrite flat_flush.
  change (tok_flat (rev (a_out (a_rstrip a))) ++ rev (a_cur (a_rstrip a))) with (a_flat (a_rstrip a)).
  rewrite vis_flat_rstrip. unfold a. rewrite (abs_run_vis sfx acl atok Hcl) by exact Hsfx. reflexivity.
Qed.

(* ---- the theorems for the DFXP writers ---------------------------------------------------------------------------------- *)
Theorem dfxp_payload_wellformed : forall region ns, nodes_ok plain_style ns = true -> flat_balanced ns = true ->
  exists t, content_parse (dfxp_payload (extra_of region) ns) = Some t /\
            vis (flat_map tree_flat t) = vis (node_flat ns).
Proof.
  intros region ns Hn Hf. rewrite dfxp_payload_parse by exact Hn.
  destruct (abs_tokens_balanced [] a_close (dfxp_atok region) ns a_ok_close Hf) as [Hs Hd].
  destruct (xbuild_ok _ [] [] Hs (Forall_nil _) Hd) as [t Ht]. exists t. split; [exact Ht|].
  rewrite (xbuild_flat _ [] [] t Hs (Forall_nil _) Ht). cbn [unwind_flat rev flat_map app].
  apply abs_tokens_visible; [exact vis_close|reflexivity].
Qed.

Theorem legacy_payload_wellformed : forall ns, nodes_ok plain_style ns = true -> flat_balanced ns = true ->
  exists t, content_parse (legacy_payload ns) = Some t /\ vis (flat_map tree_flat t) = vis (node_flat ns).
Proof.
  intros ns Hn Hf. rewrite legacy_payload_parse by exact Hn.
  destruct (abs_tokens_balanced [] a_close (dfxp_atok false) ns a_ok_close Hf) as [Hs Hd].
  destruct (xbuild_ok _ [] [] Hs (Forall_nil _) Hd) as [t Ht]. exists t. split; [exact Ht|].
  rewrite (xbuild_flat _ [] [] t Hs (Forall_nil _) Ht). cbn [unwind_flat rev flat_map app].
  apply abs_tokens_visible; [exact vis_close|reflexivity].
Qed.

(* ---- the reader models on trees built from span / br tokens ------------------------------------------------------ *)
Definition somes (stk : list (option style)) : list style :=
  flat_map (fun o => match o with Some s => [s] | None => [] end) stk.

Section reader.
  Variable rd : xnode -> list node.
  Variable est : list (str * str) -> option style.
  Hypothesis rd_text : forall s, rd (XText s) = match text_node true s with Some t => [NText t] | None => [] end.
  Hypothesis rd_br : forall a k, rd (XElem (lit "br") a k) = [NBreak].
  Hypothesis rd_span : forall a k, rd (XElem (lit "span") a k) =
    match est a with Some st => [NStyle true st] ++ flat_map rd k ++ [NStyle false st] | None => flat_map rd k end.

  Definition open_piece (o : option style) : list node := match o with Some st => [NStyle true st] | None => [] end.
  Definition close_piece (o : option style) : list node := match o with Some st => [NStyle false st] | None => [] end.

  Fixpoint tok_nodes (toks : list xtok) (stk : list (option style)) : list node :=
    match toks with
    | [] => []
    | TkText s :: t => rd (XText s) ++ tok_nodes t stk
    | TkEmpty _ _ :: t => NBreak :: tok_nodes t stk
    | TkOpen _ a :: t => open_piece (est a) ++ tok_nodes t (est a :: stk)
    | TkClose _ :: t => close_piece (hd None stk) ++ tok_nodes t (tl stk)
    end.

  Fixpoint unwind_nodes (stack : list (str * list (str * str) * list xnode)) (cur : list xnode) : list node :=
    match stack with
    | [] => flat_map rd (rev cur)
    | (_, a, prev) :: st => unwind_nodes st prev ++ open_piece (est a) ++ flat_map rd (rev cur)
    end.

  Lemma unwind_nodes_cons : forall stack x cur, unwind_nodes stack (x :: cur) = unwind_nodes stack cur ++ rd x.
  Proof.
    intros stack x cur. destruct stack as [|[[n a] prev] st]; cbn [unwind_nodes rev]; rewrite flat_map_app; cbn [flat_map];
      rewrite app_nil_r; [reflexivity|rewrite !app_assoc; reflexivity].
  Qed.

  Lemma xbuild_nodes : forall toks stack cur t, forallb span_tok toks = true -> stack_ok stack ->
    xbuild toks stack cur = Some t ->
    flat_map rd t = unwind_nodes stack cur ++ tok_nodes toks (map (fun e => est (snd (fst e))) stack).
  Proof.
    induction toks as [|tk toks IH]; intros stack cur t Hs Hst H.
    - cbn [xbuild] in H. destruct stack; [|discriminate]. injection H as <-. cbn. rewrite app_nil_r. reflexivity.
    - cbn [forallb] in Hs. apply andb_true_iff in Hs. destruct Hs as [Htk Hs].
      destruct tk as [s|n a|n|n a]; cbn [xbuild span_tok tok_nodes] in *.
      + rewrite (IH _ _ _ Hs Hst H), unwind_nodes_cons, <- app_assoc. reflexivity.
      + assert (Hst2 : stack_ok ((n, a, cur) :: stack)) by (constructor; [apply str_eqb_true_eq; exact Htk|exact Hst]).
        rewrite (IH _ _ _ Hs Hst2 H). cbn [unwind_nodes rev flat_map map fst snd]. rewrite app_nil_r, <- !app_assoc. reflexivity.
      + destruct stack as [|[[n' a'] prev] stack']; [discriminate|].
        inversion Hst as [|e l He Hl]; subst. cbn [fst] in He. subst n'. rewrite Htk in H.
        rewrite (IH _ _ _ Hs Hl H), unwind_nodes_cons. apply str_eqb_true_eq in Htk. subst n. rewrite rd_span.
        cbn [unwind_nodes map fst snd hd tl]. destruct (est a') as [st|]; cbn [open_piece close_piece app];
          rewrite <- ?app_assoc; cbn [app]; rewrite <- ?app_assoc; reflexivity.
      + rewrite (IH _ _ _ Hs Hst H), unwind_nodes_cons, <- app_assoc. apply str_eqb_true_eq in Htk. subst n. rewrite rd_br. reflexivity.
  Qed.

  (* flags of the token-level reading *)
  Fixpoint tflags (toks : list xtok) (stk : list (option style)) : list (Z * flag3) :=
    match toks with
    | [] => []
    | TkText s :: t => map (fun c => (c, stack_flags (somes stk))) (vis s) ++ tflags t stk
    | TkEmpty _ _ :: t => tflags t stk
    | TkOpen _ a :: t => tflags t (est a :: stk)
    | TkClose _ :: t => tflags t (tl stk)
    end.
  Fixpoint tstack (toks : list xtok) (stk : list (option style)) : list (option style) :=
    match toks with
    | [] => stk
    | TkOpen _ a :: t => tstack t (est a :: stk)
    | TkClose _ :: t => tstack t (tl stk)
    | _ :: t => tstack t stk
    end.

  Lemma tflags_app : forall a b stk, tflags (a ++ b) stk = tflags a stk ++ tflags b (tstack a stk).
  Proof.
    induction a as [|tk a IH]; intros b stk; [reflexivity|]. destruct tk; cbn [app tflags tstack]; rewrite ?IH, <- ?app_assoc; reflexivity.
  Qed.
  Lemma tstack_app : forall a b stk, tstack (a ++ b) stk = tstack b (tstack a stk).
  Proof. induction a as [|tk a IH]; intros b stk; [reflexivity|]. destruct tk; cbn [app tstack]; apply IH. Qed.

  Lemma flags_tok_nodes : forall toks stk, flags_aux (tok_nodes toks stk) (somes stk) = tflags toks stk.
  Proof.
    induction toks as [|tk toks IH]; intros stk; [reflexivity|]. destruct tk as [s|n a|n|n a]; cbn [tok_nodes tflags].
    - rewrite rd_text. pose proof (vis_text_node s) as V.
      destruct (text_node true s) as [t|] eqn:E.
      + cbn [app flags_aux]. rewrite IH. fold (vis t). rewrite V. reflexivity.
      + cbn [app]. rewrite IH. rewrite <- V. reflexivity.
    - destruct (est a) as [st|] eqn:E; cbn [open_piece app flags_aux].
      + rewrite <- (IH (Some st :: stk)). reflexivity.
      + rewrite <- (IH (None :: stk)). reflexivity.
    - destruct stk as [|[st|] stk']; cbn [hd tl close_piece app flags_aux somes flat_map]; apply IH.
    - cbn [flags_aux]. apply IH.
  Qed.
End reader.

(* ---- flags along the abstract writer ------------------------------------------------------------------------------ *)
Definition mflags (m : flag3) (l : list (Z * flag3)) : list (Z * flag3) := map (fun p => (fst p, mask3 m (snd p))) l.
Definition cfl (m : flag3) (stk : list (option style)) : flag3 := mask3 m (stack_flags (somes stk)).

Lemma mflags_app : forall m a b, mflags m (a ++ b) = mflags m a ++ mflags m b.
Proof. intros. unfold mflags. apply map_app. Qed.

Lemma flag3_eqb_refl : forall f, flag3_eqb f f = true.
Proof. intros [[[] []] []]; reflexivity. Qed.

Lemma mask3_idem : forall m f, mask3 m (mask3 m f) = mask3 m f.
Proof. intros [[[] []] []] [[[] []] []]; reflexivity. Qed.

Lemma flags_eqb_of_mflags : forall m A B, mflags m A = mflags m B -> flags_eqb m A B = true.
Proof.
  intros m. induction A as [|[c f] A IH]; intros [|[d g] B] H; cbn [mflags map] in H; try discriminate; [reflexivity|].
  injection H as Hc Hf Hr. cbn [fst snd] in *. subst d. cbn [flags_eqb]. rewrite Z.eqb_refl, Hf, flag3_eqb_refl. cbn [andb].
  apply IH. exact Hr.
Qed.

Section writer_flags.
  Variable m : flag3.
  Variable est : list (str * str) -> option style.
  Variable sfx : str.
  Variable acl : ast -> ast.
  Variable atok : style -> option (list (str * str)).
  Variable dom : style -> bool.

  Definition tstk_of (cur : option style) : list (option style) :=
    match cur with
    | Some st => match atok st with Some attrs => [est attrs] | None => [] end
    | None => []
    end.
  Definition nstk_of (cur : option style) : list style := match cur with Some st => [st] | None => [] end.

  Hypothesis agree : forall st, dom st = true -> mask3 m (stack_flags [st]) = cfl m (tstk_of (Some st)).

  Definition shown (a : ast) (tstk : list (option style)) : list (Z * flag3) :=
    mflags m (tflags est (rev (a_out a)) []) ++ map (fun c => (c, cfl m tstk)) (vis (rev (a_cur a))).

  Lemma map_vis_app : forall (f : flag3) x y,
    map (fun c => (c, f)) (vis (x ++ y)) = map (fun c => (c, f)) (vis x) ++ map (fun c => (c, f)) (vis y).
  Proof. intros. rewrite vis_app, map_app. reflexivity. Qed.

  Lemma shown_text : forall s a tstk,
    shown (a_text s a) tstk = shown a tstk ++ map (fun c => (c, cfl m tstk)) (vis s).
  Proof.
    intros. unfold shown, a_text. cbn [a_cur a_out]. rewrite rev_app_distr, rev_involutive, map_vis_app, app_assoc. reflexivity.
  Qed.
  Lemma shown_lit : forall ws a tstk, forallb lit_space ws = true -> shown (a_lit ws a) tstk = shown a tstk.
  Proof.
    intros. unfold shown, a_lit. cbn [a_cur a_out]. rewrite rev_app_distr, rev_involutive, map_vis_app, (vis_lit ws H).
    cbn [map]. rewrite app_nil_r. reflexivity.
  Qed.
  Lemma shown_rstrip : forall a tstk, shown (a_rstrip a) tstk = shown a tstk.
  Proof. intros. unfold shown, a_rstrip. cbn [a_cur a_out]. rewrite vis_drop_space_rev. reflexivity. Qed.

  Lemma tflags_flush : forall cur out,
    tflags est (rev (flush cur out)) [] =
    tflags est (rev out) [] ++ map (fun c => (c, stack_flags (somes (tstack est (rev out) [])))) (vis (rev cur)).
  Proof.
    intros cur out. unfold flush. destruct cur as [|c cur].
    - cbn [rev vis filter map]. rewrite app_nil_r. reflexivity.
    - cbn [rev]. rewrite tflags_app. cbn [tflags]. rewrite app_nil_r. reflexivity.
  Qed.
  Lemma tstack_flush : forall cur out, tstack est (rev (flush cur out)) [] = tstack est (rev out) [].
  Proof. intros cur out. unfold flush. destruct cur; [reflexivity|]. cbn [rev]. rewrite tstack_app. reflexivity. Qed.

  (* a tag token: the pending text is flushed under the stack in force, the stack then changes *)
  Lemma shown_mark : forall tk a tstk tstk', tstack est (rev (a_out a)) [] = tstk ->
    tflags est [tk] tstk = [] ->
    shown (a_mark tk a) tstk' = shown a tstk /\ tstack est (rev (a_out (a_mark tk a))) [] = tstack est [tk] tstk.
  Proof.
    intros tk a tstk tstk' Hst Htk. unfold shown, a_mark. cbn [a_cur a_out rev vis filter map]. rewrite app_nil_r. split.
    - rewrite tflags_app, tflags_flush, tstack_flush, Hst, Htk, app_nil_r, mflags_app. f_equal.
      unfold mflags, cfl. rewrite map_map. reflexivity.
    - rewrite tstack_app, tstack_flush, Hst. reflexivity.
  Qed.

  (* what the close operation does to the shown flags and to the token-level stack *)
  Definition close_spec : Prop := forall a e, tstack est (rev (a_out a)) [] = [e] ->
    shown (acl a) [] = shown a [e] /\ tstack est (rev (a_out (acl a))) [] = [].

  Lemma close_spec_new : acl = a_close -> close_spec.
  Proof.
    intros E a e Hst. rewrite E. unfold a_close.
    destruct (shown_mark (TkClose (lit "span")) a [e] [] Hst eq_refl) as [S T]. split; [exact S|exact T].
  Qed.
  Lemma close_spec_sp : acl = a_close_sp -> close_spec.
  Proof.
    intros E a e Hst. rewrite E. unfold a_close_sp. rewrite shown_lit by reflexivity. cbn [a_lit a_out].
    destruct (shown_mark (TkClose (lit "span")) (a_rstrip a) [e] [] Hst eq_refl) as [S T].
    split; [rewrite S; apply shown_rstrip|exact T].
  Qed.
  Hypothesis Hclose : close_spec.

  Lemma cfl_agree : forall cur, (match cur with Some st => dom st = true | None => True end) ->
    mask3 m (stack_flags (nstk_of cur)) = cfl m (tstk_of cur).
  Proof. intros [st|] H; [apply agree; exact H|reflexivity]. Qed.

  Lemma flags_run : forall ns a cur Fd, forallb lit_space sfx = true -> flat_aux ns cur = true -> nodes_ok dom ns = true ->
    (match cur with Some st => dom st = true | None => True end) ->
    tstack est (rev (a_out a)) [] = tstk_of cur -> mflags m Fd = shown a (tstk_of cur) ->
    let a' := fst (fold_left (abs_step sfx acl atok) ns (a, flag_of atok cur)) in
    mflags m (Fd ++ flags_aux ns (nstk_of cur)) = shown a' [] /\ tstack est (rev (a_out a')) [] = [].
  Proof.
    induction ns as [|n ns IH]; intros a cur Fd Hsfx Hf Hn Hd Hst Hsh.
    - cbn [flat_aux] in Hf. destruct cur; [discriminate|]. cbn [fold_left fst flags_aux]. rewrite app_nil_r. split; assumption.
    - cbn [fold_left]. destruct n as [s| |[] st]; cbn [flat_aux nodes_ok abs_step flags_aux] in *.
      + apply andb_true_iff in Hn. destruct Hn as [_ Hn].
        replace (Fd ++ map (fun c => (c, stack_flags (nstk_of cur))) (filter (fun c => negb (is_space c)) s) ++ flags_aux ns (nstk_of cur))
          with ((Fd ++ map (fun c => (c, stack_flags (nstk_of cur))) (vis s)) ++ flags_aux ns (nstk_of cur))
          by (rewrite <- app_assoc; reflexivity).
        apply (IH _ cur); try assumption.
        rewrite shown_lit by exact Hsfx. rewrite shown_text, mflags_app, Hsh. f_equal.
        unfold mflags. rewrite map_map. cbn [fst snd]. rewrite (cfl_agree cur Hd). reflexivity.
      + apply (IH _ cur); try assumption.
        * unfold a_br. cbn [a_lit a_out]. destruct (shown_mark (TkEmpty (lit "br") []) (a_rstrip a) (tstk_of cur) (tstk_of cur) Hst eq_refl) as [_ T].
          exact T.
        * unfold a_br. rewrite shown_lit by reflexivity.
          destruct (shown_mark (TkEmpty (lit "br") []) (a_rstrip a) (tstk_of cur) (tstk_of cur) Hst eq_refl) as [S _].
          rewrite S, shown_rstrip. exact Hsh.
      + destruct cur as [st0|]; [discriminate|]. apply andb_true_iff in Hn. destruct Hn as [Hdst Hn]. cbn [flag_of nstk_of] in *.
        destruct (atok st) as [attrs|] eqn:E.
        * pose proof (IH (a_mark (TkOpen (lit "span") attrs) a) (Some st) Fd Hsfx Hf Hn Hdst) as Q.
          cbn [flag_of nstk_of tstk_of] in Q. rewrite E in Q. cbn [opt_some] in Q. apply Q.
          -- destruct (shown_mark (TkOpen (lit "span") attrs) a [] [est attrs] Hst eq_refl) as [_ T]. exact T.
          -- destruct (shown_mark (TkOpen (lit "span") attrs) a [] [est attrs] Hst eq_refl) as [S _]. rewrite S. exact Hsh.
        * pose proof (IH a (Some st) Fd Hsfx Hf Hn Hdst) as Q. cbn [flag_of nstk_of tstk_of] in Q. rewrite E in Q. cbn [opt_some] in Q.
          apply Q; assumption.
      + destruct cur as [st0|]; [|discriminate]. apply andb_true_iff in Hf. destruct Hf as [_ Hf].
        apply andb_true_iff in Hn. destruct Hn as [_ Hn]. cbn [flag_of nstk_of tstk_of tl] in *.
        destruct (atok st0) as [attrs|] eqn:E; cbn [opt_some].
        * destruct (Hclose a (est attrs) Hst) as [S T].
          apply (IH (acl a) None Fd Hsfx Hf Hn I); [exact T|]. cbn [tstk_of]. rewrite S. exact Hsh.
        * apply (IH a None Fd Hsfx Hf Hn I); assumption.
  Qed.

  (* the flags of the token-level reading of the abstract tokens are the authored ones, under the mask *)
  Lemma abs_tokens_flags : forall ns, forallb lit_space sfx = true -> flat_balanced ns = true -> nodes_ok dom ns = true ->
    mflags m (flags ns) = mflags m (tflags est (abs_tokens sfx acl atok ns) []).
  Proof.
    intros ns Hsfx Hf Hn. unfold flags, abs_tokens, abs_run.
    destruct (flags_run ns (mkA [] []) None [] Hsfx Hf Hn I eq_refl eq_refl) as [Q T]. cbn [flag_of nstk_of app] in Q, T.
    set (a := fst (fold_left (abs_step sfx acl atok) ns (mkA [] [], false))) in *.
    rewrite Q. cbv zeta. rewrite tflags_flush. cbn [a_rstrip a_cur a_out]. rewrite T, mflags_app, vis_drop_space_rev.
    unfold shown. f_equal. unfold mflags, cfl. rewrite map_map. reflexivity.
  Qed.
End writer_flags.

(* ---- DFXP writer models -> strict parser -> DFXP reader model --------------------------------------------------------- *)
Definition dfxp_est (a : list (str * str)) : option style := Some (dfxp_style a).

Lemma dfxp_rd_text : forall s, dfxp_nodes true (XText s) = match text_node true s with Some t => [NText t] | None => [] end.
Proof. reflexivity. Qed.
Lemma dfxp_rd_br : forall a k, dfxp_nodes true (XElem (lit "br") a k) = [NBreak].
Proof. reflexivity. Qed.
Lemma dfxp_rd_span : forall a k, dfxp_nodes true (XElem (lit "span") a k) =
  match dfxp_est a with Some st => [NStyle true st] ++ flat_map (dfxp_nodes true) k ++ [NStyle false st] | None => flat_map (dfxp_nodes true) k end.
Proof. reflexivity. Qed.

Definition m_i : flag3 := (true, false, false).
Definition m_ibu : flag3 := (true, true, true).

Lemma dfxp_agree : forall region st, plain_style st = true ->
  mask3 m_i (stack_flags [st]) = cfl m_i (tstk_of dfxp_est (dfxp_atok region) (Some st)).
Proof.
  intros region [i b u c] H. unfold plain_style in H. cbn [st_color] in H. destruct c; [discriminate|].
  destruct region, i, b, u; vm_compute; reflexivity.
Qed.

Theorem dfxp_roundtrip_gen : forall region payload ns,
  (content_parse payload = xbuild (abs_tokens [] a_close (dfxp_atok region) ns) [] []) ->
  nodes_ok plain_style ns = true -> flat_balanced ns = true ->
  exists t, content_parse payload = Some t /\
            ok_flags m_i ns (flat_map (dfxp_nodes true) t) = true /\
            balanced (flat_map (dfxp_nodes true) t) = true.
Proof.
  intros region payload ns Hp Hn Hf.
  destruct (abs_tokens_balanced [] a_close (dfxp_atok region) ns a_ok_close Hf) as [Hs Hd].
  destruct (xbuild_ok _ [] [] Hs (Forall_nil _) Hd) as [t Ht]. exists t. split; [rewrite Hp; exact Ht|]. split.
  - unfold ok_flags. apply flags_eqb_of_mflags.
    rewrite (xbuild_nodes (dfxp_nodes true) dfxp_est dfxp_rd_br dfxp_rd_span _ [] [] t Hs (Forall_nil _) Ht).
    cbn [unwind_nodes rev flat_map app map]. unfold flags at 2.
    change (@nil style) with (somes []). rewrite (flags_tok_nodes (dfxp_nodes true) dfxp_est dfxp_rd_text).
    apply (abs_tokens_flags m_i dfxp_est [] a_close (dfxp_atok region) plain_style (dfxp_agree region)
             (close_spec_new m_i dfxp_est a_close eq_refl) ns eq_refl Hf Hn).
  - apply dfxp_reader_p_balanced.
Qed.

(* DFXPWriter / SinglePositioningDFXPWriter -> DFXPReader: well-formed, same italic characters, balanced nodes *)
Theorem dfxp_roundtrip_flags : forall region ns, nodes_ok plain_style ns = true -> flat_balanced ns = true ->
  exists t, content_parse (dfxp_payload (extra_of region) ns) = Some t /\
            ok_flags m_i ns (flat_map (dfxp_nodes true) t) = true /\
            balanced (flat_map (dfxp_nodes true) t) = true.
Proof.
  intros region ns Hn Hf. apply (dfxp_roundtrip_gen region _ ns); try assumption.
  apply dfxp_payload_parse. exact Hn.
Qed.

Theorem legacy_roundtrip_flags : forall ns, nodes_ok plain_style ns = true -> flat_balanced ns = true ->
  exists t, content_parse (legacy_payload ns) = Some t /\
            ok_flags m_i ns (flat_map (dfxp_nodes true) t) = true /\
            balanced (flat_map (dfxp_nodes true) t) = true.
Proof.
  intros ns Hn Hf. apply (dfxp_roundtrip_gen false _ ns); try assumption.
  apply legacy_payload_parse. exact Hn.
Qed.

(* ---- SAMI writer model -> parser -> SAMI reader model: italic, bold and underline --------------------------------------- *)
Lemma sami_abs_flat : forall ns a cur, flat_aux ns cur = true ->
  fold_left sami_abs_step ns (a, flag_of sami_atok cur) = fold_left (abs_step (lit " ") a_close_sp sami_atok) ns (a, flag_of sami_atok cur).
Proof.
  induction ns as [|n ns IH]; intros a cur H; [reflexivity|].
  cbn [fold_left]. destruct n as [s| |[] st]; cbn [flat_aux sami_abs_step abs_step] in *.
  - apply (IH _ cur H).
  - apply (IH _ cur H).
  - destruct cur as [st0|]; [discriminate|]. cbn [flag_of]. destruct (sami_atok st) as [attrs|] eqn:E.
    + pose proof (IH (a_mark (TkOpen (lit "span") attrs) a) (Some st) H) as Q. cbn [flag_of] in Q. rewrite E in Q. exact Q.
    + pose proof (IH a (Some st) H) as Q. cbn [flag_of] in Q. rewrite E in Q. exact Q.
  - destruct cur as [st0|]; [|discriminate]. apply andb_true_iff in H. destruct H as [_ H]. cbn [flag_of].
    destruct (opt_some (sami_atok st0)); apply (IH _ None H).
Qed.

Lemma sami_abs_tokens_flat : forall ns, flat_balanced ns = true -> sami_abs_tokens ns = abs_tokens (lit " ") a_close_sp sami_atok ns.
Proof.
  intros ns H. unfold sami_abs_tokens, abs_tokens, abs_run. pose proof (sami_abs_flat ns (mkA [] []) None H) as Q.
  cbn [flag_of] in Q. rewrite Q. reflexivity.
Qed.

Lemma sami_rd_text : forall s, sami_nodes true (XText s) = match text_node true s with Some t => [NText t] | None => [] end.
Proof. reflexivity. Qed.
Lemma sami_rd_br : forall a k, sami_nodes true (XElem (lit "br") a k) = [NBreak].
Proof. reflexivity. Qed.
Lemma sami_rd_span : forall a k, sami_nodes true (XElem (lit "span") a k) =
  match sami_span_args a with Some st => [NStyle true st] ++ flat_map (sami_nodes true) k ++ [NStyle false st] | None => flat_map (sami_nodes true) k end.
Proof. reflexivity. Qed.

Lemma sami_agree : forall st, plain_style st = true ->
  mask3 m_ibu (stack_flags [st]) = cfl m_ibu (tstk_of sami_span_args sami_atok (Some st)).
Proof.
  intros [i b u c] H. unfold plain_style in H. cbn [st_color] in H. destruct c; [discriminate|].
  destruct i, b, u; vm_compute; reflexivity.
Qed.

Theorem sami_roundtrip_flags : forall ns, nodes_ok plain_style ns = true -> flat_balanced ns = true ->
  exists t, content_parse (sami_payload ns) = Some t /\
            vis (flat_map tree_flat t) = vis (node_flat ns) /\
            ok_flags m_ibu ns (flat_map (sami_nodes true) t) = true /\
            balanced (flat_map (sami_nodes true) t) = true.
Proof.
  intros ns Hn Hf.
  assert (Hp : content_parse (sami_payload ns) = xbuild (abs_tokens (lit " ") a_close_sp sami_atok ns) [] []).
  { unfold content_parse. rewrite (sami_payload_tokens ns Hn), (sami_abs_tokens_flat ns Hf). reflexivity. }
  destruct (abs_tokens_balanced (lit " ") a_close_sp sami_atok ns a_ok_close_sp Hf) as [Hs Hd].
  destruct (xbuild_ok _ [] [] Hs (Forall_nil _) Hd) as [t Ht]. exists t. split; [rewrite Hp; exact Ht|]. split; [|split].
  - rewrite (xbuild_flat _ [] [] t Hs (Forall_nil _) Ht). cbn [unwind_flat rev flat_map app]. apply abs_tokens_visible; [exact vis_close_sp|reflexivity].
  - unfold ok_flags. apply flags_eqb_of_mflags.
    rewrite (xbuild_nodes (sami_nodes true) sami_span_args sami_rd_br sami_rd_span _ [] [] t Hs (Forall_nil _) Ht).
    cbn [unwind_nodes rev flat_map app map]. unfold flags at 2.
    change (@nil style) with (somes []). rewrite (flags_tok_nodes (sami_nodes true) sami_span_args sami_rd_text).
    apply (abs_tokens_flags m_ibu sami_span_args (lit " ") a_close_sp sami_atok plain_style sami_agree
             (close_spec_sp m_ibu sami_span_args a_close_sp eq_refl) ns eq_refl Hf Hn).
  - apply sami_reader_p_balanced.
Qed.

(* cross: the DFXP payload read by the SAMI reader model is not a format statement; the cross round trips of the
   property (DFXP document -> SAMI document) compose the two same-format theorems through the common node model:
   reading gives nodes with the same flags (above), and those nodes are again in the writers' domain. *)
