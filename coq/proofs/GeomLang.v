(* C18: the executable description of the size language used by the check (in_size_lang / spec_parse / ok_parse)
   is the grammar size_lang, and the model of Size.from_string satisfies the oracle on every string. *)
From Coq Require Import List ZArith QArith Qabs Bool Lia Lqa.
From PV Require Import lib.Sx lib.Str lib.Result model.Geometry spec.SpecGeom.
From PV Require Import proofs.GeomStr proofs.GeomEq proofs.GeomParse proofs.GeomPrint.
Import ListNotations.
Open Scope Z_scope.

Lemma is_number_inv : forall num, is_number num = true ->
  exists ip fp, num = dotted ip fp /\ all_digits ip = true /\ (fp = [] \/ all_digits fp = true).
Proof.
  intros num H. unfold is_number in H. pose proof (split_ch_join 46 num) as J.
  destruct (split_ch 46 num) as [|a [|b [|c r]]]; try discriminate.
  - exists a, []. unfold dotted. rewrite app_nil_r. cbn [join] in J. auto.
  - apply andb_true_iff in H. destruct H as [Ha Hb]. exists a, b. unfold dotted.
    destruct b as [|x b]; [discriminate|]. cbn [join app] in J. auto.
Qed.

Lemma spec_split_some : forall s num u, spec_split s = Some (num, u) ->
  ends_with (unit_str u) s = Some num /\ is_number num = true.
Proof.
  intros s num u. unfold spec_split. generalize spec_units. induction l as [|w l IH]; cbn [fold_right]; intros H.
  - discriminate.
  - destruct (ends_with (unit_str w) s) as [pre|] eqn:E; [|auto].
    destruct (is_number pre) eqn:N; [|auto]. inversion H; subst. split; assumption.
Qed.

Theorem in_size_lang_iff : forall s, in_size_lang s = true <-> size_lang s.
Proof.
  intros s. unfold in_size_lang. split.
  - intros H. apply orb_true_iff in H. destruct H as [H|H].
    + apply str_eqb_eq in H. subst. constructor.
    + destruct (spec_split s) as [[num u]|] eqn:E; [|discriminate].
      apply spec_split_some in E. destruct E as [E N]. apply ends_with_some in E.
      destruct (is_number_inv _ N) as (ip & fp & -> & Hip & Hfp). subst s. unfold dotted.
      destruct Hfp as [->|Hfp].
      * rewrite app_nil_r. apply SL_int. exact Hip.
      * destruct fp as [|c fp]; [discriminate|]. rewrite <- app_assoc.
        change ((46 :: c :: fp) ++ unit_str u) with (46 :: (c :: fp) ++ unit_str u). apply SL_frac; assumption.
  - intros H. apply orb_true_iff. destruct H as [|ip u Hip|ip fp u Hip Hfp].
    + left. reflexivity.
    + right. destruct (is_number_dotted ip [] Hip (or_introl eq_refl)) as [Hn _].
      unfold dotted in Hn. rewrite app_nil_r in Hn. rewrite (spec_split_unique _ _ Hn). reflexivity.
    + right. destruct (is_number_dotted ip fp Hip (or_intror Hfp)) as [Hn _].
      destruct fp as [|c fp]; [discriminate|]. unfold dotted in Hn.
      change (ip ++ 46 :: (c :: fp) ++ unit_str u) with (ip ++ (46 :: c :: fp) ++ unit_str u).
      rewrite app_assoc, (spec_split_unique _ _ Hn). reflexivity.
Qed.

Definition obs_of (r : result size) : result (Q * unit_) :=
  match r with Ok z => Ok (s_val z, s_unit z) | Err e => Err e end.

Lemma q_rel_close_eq : forall a b, (a == b)%Q -> q_rel_close a b = true.
Proof.
  intros a b H. unfold q_rel_close. apply Qle_bool_iff.
  assert (E : (Qabs (a - b) == 0)%Q). { rewrite H. setoid_replace (b - b)%Q with 0%Q by ring. reflexivity. }
  rewrite E. destruct (Qle_bool (Qabs b) 1) eqn:L; [lra|].
  pose proof (Qabs_nonneg b). lra.
Qed.

(* refinement: on every string, what the model of Size.from_string returns is
   what the size language prescribes: the denoted value and unit, or the syntax error *)
Theorem ok_parse_model : forall s, ok_parse s (obs_of (size_from_string s)) = true.
Proof.
  intros s. unfold ok_parse, spec_parse, size_from_string.
  destruct (str_eqb s (lit "0")) eqn:E0.
  - apply str_eqb_eq in E0. subst s. reflexivity.
  - destruct (spec_split s) as [[num u]|] eqn:E.
    + apply spec_split_some in E. destruct E as [E N]. apply ends_with_some in E.
      destruct (is_number_inv _ N) as (ip & fp & -> & Hip & Hfp).
      destruct (is_number_dotted ip fp Hip Hfp) as [_ Hq].
      destruct (from_string_value ip fp u Hip Hfp) as (v & Hv & Hvq & _).
      unfold size_from_string in Hv. cbn zeta in Hv.
      assert (Es : s = ip ++ match fp with [] => [] | _ :: _ => 46 :: fp end ++ unit_str u).
      { rewrite E. unfold dotted. rewrite <- app_assoc. reflexivity. }
      rewrite <- Es in Hv. rewrite Hv. cbn [obs_of s_val s_unit].
      rewrite q_rel_close_eq by (rewrite Hvq, Hq; reflexivity).
      assert (Eu : unit_eqb u u = true) by (apply unit_eqb_eq; reflexivity). rewrite Eu. reflexivity.
    + assert (Hn : ~ size_lang s).
      { intros L. apply in_size_lang_iff in L. unfold in_size_lang in L. rewrite E0, E in L. discriminate. }
      rewrite (parse_rejects_with_syntax_error _ Hn). reflexivity.
Qed.
