(* C04, WebVTT tags: OTHER_SPAN_PATTERN (repaired) deletes exactly the tags whose NAME is c, i, b, u, v, ruby, rt
   or lang and leaves every other tag literally in the text; VOICE_SPAN_PATTERN turns <v.classes Name> into
   "Name: ".  (Timestamp tags are covered by the correspondence only.) *)
From Coq Require Import List ZArith Bool Lia ZifyBool.
From PV Require Import lib.Sx lib.Str model.TextNodes model.TextRead proofs.TextStrFacts proofs.TextReadVttFacts.
Import ListNotations.
Open Scope Z_scope.

(* ---- the WebVTT notion of a tag name ------------------------------------------------------------- *)
Definition tag_name_char (c : Z) : bool := is_word c || (c =? 45).
Definition is_boundary (c : Z) : bool := (c =? 32) || (c =? 9) || (c =? 46).
Definition known_names : list str :=
  [lit "c"; lit "i"; lit "b"; lit "u"; lit "v"; lit "ruby"; lit "rt"; lit "lang"].
Definition no_angle (b : str) : bool := forallb (fun c => negb (c =? 60) && negb (c =? 62)) b.
Definition rest_ok (r : str) : bool := match r with [] => true | c :: _ => is_boundary c end.

(* the text between '<' and '>' of a tag WebVTT defines (by name), resp. does not define *)
Definition known_body (b : str) : bool :=
  no_angle b &&
  existsb (fun n => is_prefix n (strip_slash b) && rest_ok (skipn (length n) (strip_slash b))) known_names.

Definition stamp_tail (r1 : str) : bool :=
  match r1 with
  | [p; f1; f2; f3] => (p =? 46) && is_digit f1 && is_digit f2 && is_digit f3
  | [c1; c; d; p; f1; f2; f3] =>
      (c1 =? 58) && is_digit c && is_digit d && (p =? 46) && is_digit f1 && is_digit f2 && is_digit f3
  | _ => false
  end.
(* a WebVTT timestamp tag body: H+:MM[:SS].mmm *)
Definition stamp_body (s : str) : bool :=
  match take_while is_digit s, drop_while is_digit s with
  | _ :: _, c0 :: a :: b :: r1 => (c0 =? 58) && is_digit a && is_digit b && stamp_tail r1
  | _, _ => false
  end.

(* a tag WebVTT defines: by name, or a timestamp *)
Definition tag_body (b : str) : bool := known_body b || (no_angle b && stamp_body b).

Definition ascii_letter (c : Z) : bool := ((65 <=? c) && (c <=? 90)) || ((97 <=? c) && (c <=? 122)).
Definition unknown_body (b : str) : bool :=
  let s := strip_slash b in
  let name := take_while tag_name_char s in
  no_angle b && (match s with c :: _ => ascii_letter c | [] => false end) &&
  negb (mem_str name known_names).

Inductive vseg : Type := SText (s : str) | SKnown (body : str) | SUnknown (body : str).

Definition seg_ok (g : vseg) : bool :=
  match g with
  | SText s => forallb (fun c => negb (c =? 60)) s
  | SKnown b => tag_body b
  | SUnknown b => unknown_body b
  end.
Definition seg_render (g : vseg) : str :=
  match g with SText s => s | SKnown b => 60 :: b ++ [62] | SUnknown b => 60 :: b ++ [62] end.
Definition seg_display (g : vseg) : str :=
  match g with SText s => s | SKnown _ => [] | SUnknown b => 60 :: b ++ [62] end.

(* ---- helper lemmas ---------------------------------------------------------------------------------- *)
Lemma drop_to_app : forall q r R, forallb (fun c => negb (c =? q)) r = true -> drop_to q (r ++ q :: R) = Some R.
Proof.
  intros q r R. induction r as [|c r IH]; intros H.
  - cbn [app drop_to]. rewrite Z.eqb_refl. reflexivity.
  - cbn [forallb] in H. apply andb_true_iff in H. destruct H as [Hc Hr]. cbn [app drop_to].
    destruct (c =? q); [discriminate|]. apply IH. exact Hr.
Qed.

Lemma no_angle_no_gt : forall b, no_angle b = true -> forallb (fun c => negb (c =? 62)) b = true.
Proof.
  induction b as [|c b IH]; intros H; [reflexivity|]. cbn [no_angle forallb] in *.
  apply andb_true_iff in H. destruct H as [Hc Hb]. apply andb_true_iff in Hc. destruct Hc as [_ Hc].
  rewrite Hc. apply IH. exact Hb.
Qed.
Lemma no_angle_no_lt : forall b, no_angle b = true -> forallb (fun c => negb (c =? 60)) b = true.
Proof.
  induction b as [|c b IH]; intros H; [reflexivity|]. cbn [no_angle forallb] in *.
  apply andb_true_iff in H. destruct H as [Hc Hb]. apply andb_true_iff in Hc. destruct Hc as [Hc _].
  rewrite Hc. apply IH. exact Hb.
Qed.
Lemma no_angle_strip_slash : forall b, no_angle b = true -> no_angle (strip_slash b) = true.
Proof.
  intros [|c b] H; [reflexivity|]. unfold strip_slash. destruct (c =? 47); [|exact H].
  cbn [no_angle forallb] in H. apply andb_true_iff in H. apply H.
Qed.

Lemma name_char_facts : forall d, tag_name_char d = true -> (d =? 62) = false /\ is_boundary d = false /\ (d =? 60) = false.
Proof. intros d H. unfold tag_name_char, is_word, is_digit in H. unfold is_boundary. lia. Qed.

Lemma suffix_after_name : forall r R, rest_ok r = true -> forallb (fun c => negb (c =? 62)) r = true ->
  other_suffix true (r ++ 62 :: R) = Some R.
Proof.
  intros [|c r] R Hok Hno; [reflexivity|]. cbn [rest_ok] in Hok. cbn [forallb] in Hno.
  apply andb_true_iff in Hno. destruct Hno as [Hc Hr].
  cbn [app other_suffix]. destruct (c =? 62); [discriminate|]. unfold is_boundary in Hok. rewrite Hok.
  apply drop_to_app. exact Hr.
Qed.

Lemma suffix_name_char_fails : forall d X, tag_name_char d = true -> other_suffix true (d :: X) = None.
Proof.
  intros d X H. destruct (name_char_facts d H) as (H62 & Hb & _). cbn [other_suffix]. rewrite H62.
  unfold is_boundary in Hb. rewrite Hb. reflexivity.
Qed.

Lemma forallb_skipn' : forall (P : Z -> bool) n s, forallb P s = true -> forallb P (skipn n s) = true.
Proof.
  intros P n. induction n as [|n IH]; intros s H; [exact H|]. destruct s as [|c t]; [reflexivity|].
  cbn [skipn]. cbn [forallb] in H. apply andb_true_iff in H. apply IH. apply H.
Qed.

(* a known tag is matched and deleted through its closing bracket *)
Lemma known_matches : forall b R, known_body b = true ->
  match other_name (strip_slash b ++ 62 :: R) with Some r => other_suffix true r | None => None end = Some R.
Proof.
  intros b R H. unfold known_body in H. apply andb_true_iff in H. destruct H as [Hna H].
  pose proof (no_angle_no_gt _ (no_angle_strip_slash b Hna)) as Hgt.
  set (s := strip_slash b) in *.
  assert (G : forall n, is_prefix n s && rest_ok (skipn (length n) s) = true ->
              exists r, s = n ++ r /\ rest_ok r = true /\ forallb (fun c => negb (c =? 62)) r = true).
  { intros n Hn. apply andb_true_iff in Hn. destruct Hn as [Hp Hr]. destruct (is_prefix_inv _ _ Hp) as [r Hs].
    exists r. split; [exact Hs|]. rewrite Hs, skipn_app_exact in Hr. split; [exact Hr|].
    rewrite Hs, forallb_app in Hgt. apply andb_true_iff in Hgt. apply Hgt. }
  cbn [existsb known_names] in H.
  repeat (apply orb_true_iff in H; destruct H as [H|H]); try discriminate;
    destruct (G _ H) as (r & Hs & Hok & Hno); rewrite Hs; cbn -[other_suffix];
    apply suffix_after_name; assumption.
Qed.

Lemma take_drop_while : forall f s, take_while f s ++ drop_while f s = s.
Proof. induction s as [|c s IH]; [reflexivity|]. cbn [take_while drop_while]. destruct (f c); [cbn [app]; rewrite IH|]; reflexivity. Qed.
Lemma take_while_all : forall f s, forallb f (take_while f s) = true.
Proof. induction s as [|c s IH]; [reflexivity|]. cbn [take_while]. destruct (f c) eqn:E; [cbn [forallb]; rewrite E, IH|]; reflexivity. Qed.
Lemma take_while_app_stop : forall f h c t, forallb f h = true -> f c = false ->
  take_while f (h ++ c :: t) = h /\ drop_while f (h ++ c :: t) = c :: t.
Proof.
  induction h as [|x h IH]; intros c t H Hc.
  - cbn. rewrite Hc. split; reflexivity.
  - cbn [forallb] in H. apply andb_true_iff in H. destruct H as [Hx Hh]. cbn [app take_while drop_while]. rewrite Hx.
    destruct (IH c t Hh Hc) as [A B]. rewrite A, B. split; reflexivity.
Qed.
Lemma digit_neq : forall c k, is_digit c = true -> (k < 48 \/ 57 < k) -> (c =? k) = false /\ (k =? c) = false.
Proof.
  intros c k H Hk. unfold is_digit in H. apply andb_true_iff in H. destruct H as [A B]. apply Z.leb_le in A. apply Z.leb_le in B.
  split; apply Z.eqb_neq; lia.
Qed.

Lemma stamp_matches : forall s R, stamp_body s = true ->
  match other_name (strip_slash s ++ 62 :: R) with Some r => other_suffix true r | None => None end = Some R.
Proof.
  intros s R H. unfold stamp_body in H.
  pose proof (take_drop_while is_digit s) as TD. pose proof (take_while_all is_digit s) as TA.
  destruct (take_while is_digit s) as [|x h] eqn:Eh; [discriminate|].
  destruct (drop_while is_digit s) as [|c0 [|a [|b r1]]] eqn:Ed; try discriminate.
  apply andb_true_iff in H. destruct H as [H Ht]. apply andb_true_iff in H. destruct H as [H Hb]. apply andb_true_iff in H.
  destruct H as [Hc Ha]. apply Z.eqb_eq in Hc. subst c0.
  cbn [forallb] in TA. apply andb_true_iff in TA. destruct TA as [Hx Hh].
  assert (S : strip_slash s = s).
  { rewrite <- TD. cbn [app strip_slash]. destruct (digit_neq x 47 Hx) as [-> _]; [lia|]. reflexivity. }
  rewrite S, <- TD. clear S TD Eh Ed.
  assert (ON : forall T, other_name ((x :: h) ++ T) = ts_match ((x :: h) ++ T)).
  { intros T. cbn [app other_name].
    destruct (digit_neq x 99 Hx) as [-> _]; [lia|]. destruct (digit_neq x 105 Hx) as [-> _]; [lia|].
    destruct (digit_neq x 98 Hx) as [-> _]; [lia|]. destruct (digit_neq x 117 Hx) as [-> _]; [lia|].
    destruct (digit_neq x 118 Hx) as [-> _]; [lia|]. cbn [orb].
    change (lit "ruby") with [114; 117; 98; 121]. change (lit "rt") with [114; 116]. change (lit "lang") with [108; 97; 110; 103].
    cbn [is_prefix]. destruct (digit_neq x 114 Hx) as [_ ->]; [lia|]. destruct (digit_neq x 108 Hx) as [_ ->]; [lia|].
    cbn [andb]. reflexivity. }
  assert (TW : forall T, take_while is_digit ((x :: h) ++ 58 :: T) = x :: h /\ drop_while is_digit ((x :: h) ++ 58 :: T) = 58 :: T).
  { intros T. apply take_while_app_stop; [cbn [forallb]; rewrite Hx, Hh; reflexivity|reflexivity]. }
  unfold stamp_tail in Ht.
  destruct r1 as [|p [|f1 [|f2 [|f3 [|e1 [|e2 [|e3 [|e4 r]]]]]]]]; try discriminate.
  - (* MM.mmm *)
    repeat (apply andb_true_iff in Ht; destruct Ht as [Ht ?]). apply Z.eqb_eq in Ht. subst p.
    rewrite <- app_assoc, ON. unfold ts_match.
    change ((58 :: a :: b :: [46; f1; f2; f3]) ++ 62 :: R) with (58 :: a :: b :: 46 :: f1 :: f2 :: f3 :: 62 :: R).
    destruct (TW (a :: b :: 46 :: f1 :: f2 :: f3 :: 62 :: R)) as [-> ->].
    cbn [app two_digits three_digits]. rewrite Ha, Hb. cbn [andb two_digits three_digits].
    repeat (match goal with Hd : is_digit _ = true |- _ => rewrite Hd; clear Hd end; cbn [andb two_digits three_digits]).
    cbn [andb other_suffix]. reflexivity.
  - (* MM:SS.mmm *)
    repeat (apply andb_true_iff in Ht; destruct Ht as [Ht ?]). apply Z.eqb_eq in Ht. subst p.
    match goal with Hq : (f3 =? 46) = true |- _ => apply Z.eqb_eq in Hq; subst f3 end.
    rewrite <- app_assoc, ON. unfold ts_match.
    change ((58 :: a :: b :: [58; f1; f2; 46; e1; e2; e3]) ++ 62 :: R) with (58 :: a :: b :: 58 :: f1 :: f2 :: 46 :: e1 :: e2 :: e3 :: 62 :: R).
    destruct (TW (a :: b :: 58 :: f1 :: f2 :: 46 :: e1 :: e2 :: e3 :: 62 :: R)) as [-> ->].
    cbn [app two_digits three_digits]. rewrite Ha, Hb. cbn [andb two_digits three_digits].
    repeat (match goal with Hd : is_digit _ = true |- _ => rewrite Hd; clear Hd end; cbn [andb two_digits three_digits]).
    cbn [andb other_suffix]. reflexivity.
Qed.

Definition stamp_char (c : Z) : bool := is_digit c || (c =? 58) || (c =? 46).
Lemma stamp_chars : forall s, stamp_body s = true ->
  forallb stamp_char s = true /\ (exists x t, s = x :: t /\ is_digit x = true).
Proof.
  intros s H. unfold stamp_body in H.
  pose proof (take_drop_while is_digit s) as TD. pose proof (take_while_all is_digit s) as TA.
  destruct (take_while is_digit s) as [|x h] eqn:Eh; [discriminate|].
  destruct (drop_while is_digit s) as [|c0 [|a [|b r1]]] eqn:Ed; try discriminate.
  apply andb_true_iff in H. destruct H as [H Ht]. apply andb_true_iff in H. destruct H as [H Hb]. apply andb_true_iff in H.
  destruct H as [Hc Ha]. apply Z.eqb_eq in Hc. subst c0.
  assert (DG : forall l, forallb is_digit l = true -> forallb stamp_char l = true).
  { induction l as [|c l IH]; intros Hl; [reflexivity|]. cbn [forallb] in *. apply andb_true_iff in Hl. destruct Hl as [A B].
    unfold stamp_char at 1. rewrite A, (IH B). reflexivity. }
  split; [|exists x, (h ++ 58 :: a :: b :: r1); split; [rewrite <- TD; reflexivity|cbn [forallb] in TA; apply andb_true_iff in TA; apply TA]].
  rewrite <- TD, forallb_app, (DG _ TA). cbn [forallb andb]. unfold stamp_char at 1 2 3. rewrite Ha, Hb. cbn [orb andb].
  unfold stamp_tail in Ht.
  destruct r1 as [|p [|f1 [|f2 [|f3 [|e1 [|e2 [|e3 [|e4 r]]]]]]]]; try discriminate;
    repeat (apply andb_true_iff in Ht; destruct Ht as [Ht ?]); cbn [forallb]; unfold stamp_char;
    repeat match goal with Hd : _ = true |- _ => rewrite Hd; clear Hd end; rewrite ?orb_true_r; reflexivity.
Qed.

Lemma tag_matches : forall b R, tag_body b = true ->
  match other_name (strip_slash b ++ 62 :: R) with Some r => other_suffix true r | None => None end = Some R.
Proof.
  intros b R H. unfold tag_body in H. apply orb_true_iff in H. destruct H as [H|H]; [apply known_matches, H|].
  apply andb_true_iff in H. apply stamp_matches, H.
Qed.

Lemma mem_str_in : forall x l, In x l -> mem_str x l = true.
Proof.
  intros x l H. unfold mem_str. apply existsb_exists. exists x. split; [exact H|apply str_eqb_refl].
Qed.

(* a known name that is a prefix of the tag text is a prefix of the tag's name *)
Lemma prefix_in_name : forall p s T, forallb tag_name_char p = true ->
  (match T with c :: _ => tag_name_char c = false | [] => True end) ->
  is_prefix p (s ++ T) = true -> exists n2, take_while tag_name_char s = p ++ n2 /\ s = p ++ skipn (length p) s.
Proof.
  induction p as [|x p IH]; intros s T Hp HT H.
  - exists (take_while tag_name_char s). split; reflexivity.
  - cbn [forallb] in Hp. apply andb_true_iff in Hp. destruct Hp as [Hx Hp].
    destruct s as [|c s].
    + cbn [app] in H. destruct T as [|t T]; cbn [is_prefix] in H; [discriminate|].
      apply andb_true_iff in H. destruct H as [H _]. apply Z.eqb_eq in H. subst t. congruence.
    + cbn [app is_prefix] in H. apply andb_true_iff in H. destruct H as [Hc H]. apply Z.eqb_eq in Hc. subst c.
      destruct (IH s T Hp HT H) as [n2 [Hn Hs]]. exists n2. cbn [take_while]. rewrite Hx. cbn [length skipn app].
      split; [rewrite Hn; reflexivity|rewrite Hs at 1; reflexivity].
Qed.

Lemma long_name_fails : forall p s R, forallb tag_name_char p = true -> In p known_names ->
  mem_str (take_while tag_name_char s) known_names = false ->
  is_prefix p (s ++ 62 :: R) = true ->
  other_suffix true (skipn (length p) (s ++ 62 :: R)) = None.
Proof.
  intros p s R Hp Hin Hmem Hpre.
  destruct (prefix_in_name p s (62 :: R) Hp eq_refl Hpre) as [n2 [Hn Hs]].
  rewrite Hs, <- app_assoc, skipn_app_exact.
  assert (Hn2 : n2 <> []).
  { intros ->. rewrite app_nil_r in Hn. rewrite Hn in Hmem. rewrite (mem_str_in p _ Hin) in Hmem. discriminate. }
  (* skipn (length p) s starts with the first character of n2, a name character *)
  assert (Hd : exists d X, skipn (length p) s ++ 62 :: R = d :: X /\ tag_name_char d = true).
  { destruct n2 as [|d n2']; [congruence|].
    assert (Htw : take_while tag_name_char (skipn (length p) s) = d :: n2').
    { rewrite Hs in Hn at 1. clear - Hn Hp.
      revert Hn. generalize (skipn (length p) s) as t. induction p as [|x p IH]; intros t Hn; [exact Hn|].
      cbn [forallb] in Hp. apply andb_true_iff in Hp. destruct Hp as [Hx Hp].
      cbn [app take_while] in Hn. rewrite Hx in Hn. injection Hn as Hn. apply (IH Hp t Hn). }
    destruct (skipn (length p) s) as [|e t]; [discriminate|]. cbn [take_while] in Htw.
    destruct (tag_name_char e) eqn:E; [|discriminate]. injection Htw as -> _. exists d, (t ++ 62 :: R). split; [reflexivity|exact E]. }
  destruct Hd as (d & X & -> & Hd). apply suffix_name_char_fails. exact Hd.
Qed.

Lemma letter_not_digit : forall c, ascii_letter c = true -> is_digit c = false.
Proof. intros c H. unfold ascii_letter in H. unfold is_digit. lia. Qed.
Lemma letter_name_char : forall c, ascii_letter c = true -> tag_name_char c = true.
Proof. intros c H. unfold ascii_letter in H. unfold tag_name_char, is_word, is_digit. lia. Qed.

(* an unknown tag is not matched *)
Lemma unknown_fails : forall b R, unknown_body b = true ->
  match other_name (strip_slash b ++ 62 :: R) with Some r => other_suffix true r | None => None end = None.
Proof.
  intros b R H. unfold unknown_body in H. apply andb_true_iff in H. destruct H as [H Hmem].
  apply andb_true_iff in H. destruct H as [Hna Hl]. apply negb_true_iff in Hmem.
  set (s := strip_slash b) in *. destruct s as [|c s'] eqn:Es; [discriminate|].
  change (c :: s' ++ 62 :: R) with ((c :: s') ++ 62 :: R).
  unfold other_name. cbn [app].
  destruct ((c =? 99) || (c =? 105) || (c =? 98) || (c =? 117) || (c =? 118)) eqn:E1.
  - (* single-letter names: the name must be longer than one character *)
    cbn [take_while] in Hmem. rewrite (letter_name_char c Hl) in Hmem.
    destruct (take_while tag_name_char s') as [|d n'] eqn:Et.
    + exfalso. unfold mem_str, known_names in Hmem. cbn in Hmem.
      repeat (apply orb_true_iff in E1; destruct E1 as [E1|E1]); apply Z.eqb_eq in E1; subst c; discriminate.
    + destruct s' as [|e t]; [discriminate|]. cbn [take_while] in Et. destruct (tag_name_char e) eqn:Ee; [|discriminate].
      cbn [app]. apply suffix_name_char_fails. exact Ee.
  - change (c :: s' ++ 62 :: R) with ((c :: s') ++ 62 :: R).
    destruct (is_prefix (lit "ruby") ((c :: s') ++ 62 :: R)) eqn:P1.
    { apply (long_name_fails (lit "ruby") (c :: s') R eq_refl); [cbn; tauto|exact Hmem|exact P1]. }
    destruct (is_prefix (lit "rt") ((c :: s') ++ 62 :: R)) eqn:P2.
    { apply (long_name_fails (lit "rt") (c :: s') R eq_refl); [cbn; tauto|exact Hmem|exact P2]. }
    destruct (is_prefix (lit "lang") ((c :: s') ++ 62 :: R)) eqn:P3.
    { apply (long_name_fails (lit "lang") (c :: s') R eq_refl); [cbn; tauto|exact Hmem|exact P3]. }
    unfold ts_match. cbn [app take_while]. rewrite (letter_not_digit c Hl). reflexivity.
Qed.

(* ---- the substitution over a whole line --------------------------------------------------------------- *)
Definition render (gs : list vseg) : str := flat_map seg_render gs.
Definition display (gs : list vseg) : str := flat_map seg_display gs.

Lemma other_sub_text : forall s f R, forallb (fun c => negb (c =? 60)) s = true ->
  other_sub_aux true (length s + f) (s ++ R) = s ++ other_sub_aux true f R.
Proof.
  induction s as [|c s IH]; intros f R H; [reflexivity|].
  cbn [forallb] in H. apply andb_true_iff in H. destruct H as [Hc Hs].
  cbn [length Nat.add app other_sub_aux]. destruct (c =? 60); [discriminate|]. rewrite IH by exact Hs. reflexivity.
Qed.

Lemma strip_slash_app_gt : forall b R, strip_slash (b ++ 62 :: R) = strip_slash b ++ 62 :: R.
Proof. intros [|c b] R; [reflexivity|]. cbn [app strip_slash]. destruct (c =? 47); reflexivity. Qed.

Lemma other_sub_nil : forall f, other_sub_aux true f [] = [].
Proof. destruct f; reflexivity. Qed.

Lemma other_sub_segments_fuel : forall gs f, forallb seg_ok gs = true -> (length (render gs) <= f)%nat ->
  other_sub_aux true f (render gs) = display gs.
Proof.
  induction gs as [|g gs IH]; intros f Hok Hf; [apply other_sub_nil|].
  cbn [forallb] in Hok. apply andb_true_iff in Hok. destruct Hok as [Hg Hgs].
  unfold render, display in *. cbn [flat_map] in *. rewrite app_length in Hf.
  destruct g as [s|b|b]; cbn [seg_ok seg_render seg_display] in *.
  - replace f with (length s + (f - length s))%nat by lia.
    rewrite other_sub_text by exact Hg. f_equal. apply IH; [exact Hgs|lia].
  - cbn [length] in Hf. rewrite app_length in Hf. cbn [length] in Hf.
    destruct f as [|f']; [lia|]. cbn [app other_sub_aux]. rewrite Z.eqb_refl.
    rewrite <- app_assoc. cbn [app]. rewrite strip_slash_app_gt, (tag_matches b _ Hg).
    apply IH; [exact Hgs|lia].
  - cbn [length] in Hf. rewrite app_length in Hf. cbn [length] in Hf.
    destruct f as [|f']; [lia|]. cbn [app other_sub_aux]. rewrite Z.eqb_refl.
    rewrite <- app_assoc. cbn [app]. rewrite strip_slash_app_gt, (unknown_fails b _ Hg).
    f_equal. change (b ++ 62 :: flat_map seg_render gs) with (b ++ [62] ++ flat_map seg_render gs).
    rewrite app_assoc. set (t62 := b ++ [62]).
    assert (HL : length t62 = (length b + 1)%nat) by (unfold t62; rewrite app_length; reflexivity).
    replace f' with (length t62 + (f' - length t62))%nat by lia.
    rewrite other_sub_text.
    + f_equal. apply IH; [exact Hgs|lia].
    + unfold unknown_body in Hg. apply andb_true_iff in Hg. destruct Hg as [Hg _]. apply andb_true_iff in Hg. destruct Hg as [Hna _].
      unfold t62. rewrite forallb_app, (no_angle_no_lt b Hna). reflexivity.
Qed.

(* known tags (by NAME) vanish, every other tag stays literally, text is untouched *)
Theorem vtt_tags_by_name : forall gs, forallb seg_ok gs = true -> other_sub true (render gs) = display gs.
Proof. intros gs H. unfold other_sub. apply other_sub_segments_fuel; [exact H|lia]. Qed.

(* the pinned pattern deleted tags whose name merely begins with c, i, b, u or v *)
Theorem vtt_unknown_tag_refuted : exists gs, forallb seg_ok gs = true /\ other_sub false (render gs) <> display gs.
Proof.
  exists [SUnknown (lit "bar"); SText (lit "x"); SUnknown (lit "/bar"); SText (lit " "); SUnknown (lit "verbatim"); SText (lit "z")].
  split; [vm_compute; reflexivity|vm_compute; discriminate].
Qed.

(* ---- the voice tag ------------------------------------------------------------------------------------- *)
Definition class_ok (c : str) : bool := match c with [] => false | _ => forallb is_word c end.

Lemma drop_while_word_app : forall c X, forallb is_word c = true ->
  (match X with x :: _ => is_word x = false | [] => True end) -> drop_while is_word (c ++ X) = X.
Proof.
  induction c as [|x c IH]; intros X Hc HX.
  - cbn [app]. destruct X as [|y X]; [reflexivity|]. cbn [drop_while]. rewrite HX. reflexivity.
  - cbn [forallb] in Hc. apply andb_true_iff in Hc. destruct Hc as [Hx Hc]. cbn [app drop_while]. rewrite Hx. apply IH; assumption.
Qed.

Definition dotted (cls : list str) : str := concat (map (fun c => 46 :: c) cls).
Lemma concat_dots_length : forall cls : list str, (length cls <= length (dotted cls))%nat.
Proof. unfold dotted. induction cls as [|c cls IH]; [reflexivity|]. cbn [map concat length]. rewrite app_length. cbn [length]. lia. Qed.

Lemma voice_classes_ok : forall cls f X, forallb class_ok cls = true -> (length cls <= f)%nat ->
  voice_classes f (concat (map (fun c => 46 :: c) cls) ++ 32 :: X) = 32 :: X.
Proof.
  induction cls as [|c cls IH]; intros f X Hc Hf.
  - cbn [map concat app]. destruct f; reflexivity.
  - cbn [forallb] in Hc. apply andb_true_iff in Hc. destruct Hc as [Hc Hcls].
    cbn [length] in Hf. destruct f as [|f']; [lia|].
    cbn [map concat]. unfold class_ok in Hc. destruct c as [|x c]; [discriminate|].
    cbn [forallb] in Hc. apply andb_true_iff in Hc. destruct Hc as [Hx Hcw].
    rewrite <- app_assoc. cbn [app voice_classes]. rewrite Hx.
    change (x :: c ++ concat (map (fun c0 => 46 :: c0) cls) ++ 32 :: X)
      with ((x :: c) ++ concat (map (fun c0 => 46 :: c0) cls) ++ 32 :: X).
    rewrite drop_while_word_app.
    + apply IH; [exact Hcls|lia].
    + cbn [forallb]. rewrite Hx, Hcw. reflexivity.
    + destruct cls as [|c2 cls']; cbn [map concat app]; reflexivity.
Qed.

(* <v.class1.class2 Name> becomes "Name: " *)
Theorem vtt_voice_tag : forall cls name R f, forallb class_ok cls = true ->
  forallb (fun c => negb (c =? 62)) name = true ->
  voice_sub_aux (S f) (lit "<v" ++ concat (map (fun c => 46 :: c) cls) ++ lit " " ++ name ++ lit ">" ++ R)
  = name ++ lit ": " ++ voice_sub_aux f R.
Proof.
  intros cls name R f Hc Hn. change (lit "<v") with [60; 118]. change (lit " ") with [32]. change (lit ">") with [62].
  change (lit ": ") with [58; 32]. cbn [app voice_sub_aux]. rewrite !Z.eqb_refl.
  unfold voice_match.
  rewrite voice_classes_ok; [|exact Hc|].
  - change (32 :: name ++ 62 :: R) with (32 :: (name ++ 62 :: R)).
    rewrite drop_to_app by exact Hn.
    assert (T : take_to 62 (name ++ 62 :: R) = name).
    { clear - Hn. induction name as [|c n IH]; cbn [app take_to]; [rewrite Z.eqb_refl; reflexivity|].
      cbn [forallb] in Hn. apply andb_true_iff in Hn. destruct Hn as [Hc Hn]. destruct (c =? 62); [discriminate|].
      rewrite IH by exact Hn. reflexivity. }
    rewrite T. reflexivity.
  - rewrite !app_length. pose proof (concat_dots_length cls) as Q. unfold dotted in Q. lia.
Qed.
