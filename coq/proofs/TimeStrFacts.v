(* String lemmas used by the C01/C02 proofs: take_while / drop_while / split_ch over
   concatenations, digit strings do not contain separators, Q floor helpers. *)
From Coq Require Import List ZArith QArith Qround Lia Bool ZifyBool.
From PV Require Import lib.Sx lib.Str lib.Result lib.Dec.
Import ListNotations.
Open Scope Z_scope.
#[local] Ltac Zify.zify_post_hook ::= Z.to_euclidean_division_equations.

(* ---- take_while / drop_while ------------------------------------------------ *)
Lemma take_while_app_stop : forall f a c r,
  forallb f a = true -> f c = false -> take_while f (a ++ c :: r) = a.
Proof.
  induction a as [|x a IH]; intros c r Ha Hc; cbn [app take_while].
  - rewrite Hc. reflexivity.
  - cbn [forallb] in Ha. apply andb_true_iff in Ha. destruct Ha as [Hx Ha].
    rewrite Hx. f_equal. apply IH; assumption.
Qed.

Lemma drop_while_app_stop : forall f a c r,
  forallb f a = true -> f c = false -> drop_while f (a ++ c :: r) = c :: r.
Proof.
  induction a as [|x a IH]; intros c r Ha Hc; cbn [app drop_while].
  - rewrite Hc. reflexivity.
  - cbn [forallb] in Ha. apply andb_true_iff in Ha. destruct Ha as [Hx Ha].
    rewrite Hx. apply IH; assumption.
Qed.

Lemma take_while_all : forall f a, forallb f a = true -> take_while f a = a.
Proof.
  induction a as [|x a IH]; intros Ha; cbn [take_while]; [reflexivity|].
  cbn [forallb] in Ha. apply andb_true_iff in Ha. destruct Ha as [Hx Ha].
  rewrite Hx. f_equal. apply IH; assumption.
Qed.

Lemma drop_while_all : forall f a, forallb f a = true -> drop_while f a = [].
Proof.
  induction a as [|x a IH]; intros Ha; cbn [drop_while]; [reflexivity|].
  cbn [forallb] in Ha. apply andb_true_iff in Ha. destruct Ha as [Hx Ha].
  rewrite Hx. apply IH; assumption.
Qed.

Lemma forallb_impl : forall (f g : Z -> bool) a,
  (forall x, f x = true -> g x = true) -> forallb f a = true -> forallb g a = true.
Proof.
  induction a as [|x a IH]; intros H Ha; [reflexivity|].
  cbn [forallb] in *. apply andb_true_iff in Ha. destruct Ha as [Hx Ha].
  rewrite (H _ Hx), (IH H Ha). reflexivity.
Qed.

(* ---- split_ch ------------------------------------------------------------------ *)
Definition lacks (c : Z) (s : str) : bool := forallb (fun x => negb (x =? c)) s.

Lemma split_ch_aux_last : forall sep a cur, lacks sep a = true ->
  split_ch_aux sep a cur = [rev cur ++ a].
Proof.
  induction a as [|x a IH]; intros cur H; cbn [split_ch_aux].
  - rewrite app_nil_r. reflexivity.
  - cbn [lacks forallb] in H. apply andb_true_iff in H. destruct H as [Hx Ha].
    assert (Hne : (x =? sep) = false) by (destruct (x =? sep); [discriminate|reflexivity]).
    rewrite Hne. rewrite IH by exact Ha. cbn [rev]. rewrite <- app_assoc. reflexivity.
Qed.

Lemma split_ch_aux_cons : forall sep a rest cur, lacks sep a = true ->
  split_ch_aux sep (a ++ sep :: rest) cur = (rev cur ++ a) :: split_ch_aux sep rest [].
Proof.
  induction a as [|x a IH]; intros rest cur H; cbn [app split_ch_aux].
  - rewrite Z.eqb_refl. rewrite app_nil_r. reflexivity.
  - cbn [lacks forallb] in H. apply andb_true_iff in H. destruct H as [Hx Ha].
    assert (Hne : (x =? sep) = false) by (destruct (x =? sep); [discriminate|reflexivity]).
    rewrite Hne. rewrite IH by exact Ha. cbn [rev]. rewrite <- app_assoc. reflexivity.
Qed.

Lemma split_ch_cons : forall sep a rest, lacks sep a = true ->
  split_ch sep (a ++ sep :: rest) = a :: split_ch sep rest.
Proof. intros. unfold split_ch. rewrite split_ch_aux_cons by assumption. reflexivity. Qed.

Lemma split_ch_last : forall sep a, lacks sep a = true -> split_ch sep a = [a].
Proof. intros. unfold split_ch. rewrite split_ch_aux_last by assumption. reflexivity. Qed.

Lemma digits_lack : forall sep a, is_digit sep = false -> forallb is_digit a = true -> lacks sep a = true.
Proof.
  intros sep a Hs Ha. unfold lacks. apply (forallb_impl is_digit); [|exact Ha].
  intros x Hx. destruct (x =? sep) eqn:E; [|reflexivity].
  apply Z.eqb_eq in E. subst. congruence.
Qed.

Lemma lacks_app : forall c a b, lacks c (a ++ b) = lacks c a && lacks c b.
Proof. intros. unfold lacks. apply forallb_app. Qed.

Lemma has_ch_lacks : forall c s, lacks c s = true -> existsb (Z.eqb c) s = false.
Proof.
  induction s as [|x s IH]; intros H; [reflexivity|].
  cbn [lacks forallb] in H. apply andb_true_iff in H. destruct H as [Hx Hs].
  cbn [existsb]. rewrite (IH Hs). rewrite Z.eqb_sym. destruct (x =? c); [discriminate|reflexivity].
Qed.

Lemma has_ch_app_hit : forall c a b, existsb (Z.eqb c) (a ++ c :: b) = true.
Proof.
  intros. rewrite existsb_app. cbn [existsb]. rewrite Z.eqb_refl. apply orb_true_r.
Qed.


(* ---- split_lines (LF / CR LF / CR) over rendered lines -------------------------------------------- *)
From PV Require Import model.TimeRead.

Definition no_lb (l : str) : bool := forallb (fun c => negb ((c =? 10) || (c =? 13))) l.

Lemma split_lines_aux_line_lf : forall l rest cur st, no_lb l = true ->
  split_lines_aux (l ++ 10 :: rest) cur st = (rev cur ++ l) :: split_lines_aux rest [] false.
Proof.
  induction l as [|c l IH]; intros rest cur st H.
  - cbn [app split_lines_aux]. change (is_lf_cr 10) with true. cbv iota.
    change (10 =? 13) with false. cbv iota. rewrite app_nil_r. reflexivity.
  - cbn [no_lb forallb] in H. apply andb_true_iff in H. destruct H as [Hc Hl].
    cbn [app split_lines_aux]. unfold is_lf_cr.
    destruct ((c =? 10) || (c =? 13)); [discriminate|].
    rewrite IH by exact Hl. cbn [rev]. rewrite <- app_assoc. reflexivity.
Qed.

Lemma split_lines_aux_line_crlf : forall l rest cur st, no_lb l = true ->
  split_lines_aux (l ++ 13 :: 10 :: rest) cur st = (rev cur ++ l) :: split_lines_aux rest [] false.
Proof.
  induction l as [|c l IH]; intros rest cur st H.
  - cbn [app split_lines_aux]. change (is_lf_cr 13) with true. cbv iota.
    change (13 =? 13) with true. cbv iota. rewrite app_nil_r. reflexivity.
  - cbn [no_lb forallb] in H. apply andb_true_iff in H. destruct H as [Hc Hl].
    cbn [app split_lines_aux]. unfold is_lf_cr.
    destruct ((c =? 10) || (c =? 13)); [discriminate|].
    rewrite IH by exact Hl. cbn [rev]. rewrite <- app_assoc. reflexivity.
Qed.

Definition nl_of (crlf : bool) : str := if crlf then [13; 10] else [10].

Lemma splitlines_lines : forall crlf ls, forallb no_lb ls = true ->
  split_lines (flat_map (fun l => l ++ nl_of crlf) ls) = ls.
Proof.
  intros crlf ls H. unfold split_lines.
  induction ls as [|l ls IH]; [reflexivity|].
  cbn [forallb] in H. apply andb_true_iff in H. destruct H as [Hl Hls].
  cbn [flat_map]. rewrite <- app_assoc. destruct crlf; cbn [nl_of app].
  - rewrite split_lines_aux_line_crlf by exact Hl. cbn [rev app]. f_equal. apply IH. exact Hls.
  - rewrite split_lines_aux_line_lf by exact Hl. cbn [rev app]. f_equal. apply IH. exact Hls.
Qed.

(* ---- split_ch over join ------------------------------------------------------------ *)
Lemma split_ch_join : forall sep ls, ls <> [] -> forallb (lacks sep) ls = true ->
  split_ch sep (join [sep] ls) = ls.
Proof.
  intros sep ls. induction ls as [|l ls IH]; intros Hne H; [congruence|].
  cbn [forallb] in H. apply andb_true_iff in H. destruct H as [Hl Hls].
  destruct ls as [|l2 ls'].
  - cbn [join]. apply split_ch_last. exact Hl.
  - change (join [sep] (l :: l2 :: ls')) with (l ++ [sep] ++ join [sep] (l2 :: ls')).
    cbn [app]. rewrite split_ch_cons by exact Hl. f_equal. apply IH; [discriminate|exact Hls].
Qed.
