(* C17, round 4: line lengths of a text by one scan (`runs_ok s k`: no run of non-newline characters, the first one
   continuing a run of k, exceeds 32), its algebra, and the link to the reader's line-length scan
   (model/SccLen.v length_check): texts whose runs are short are never refused. *)
From Coq Require Import List ZArith Lia Bool ZifyBool Arith.
From PV Require Import lib.Sx lib.Str model.SccLen spec.SpecSccLen.
From PV Require proofs.SccLenFacts.
Import ListNotations.
Open Scope Z_scope.

Fixpoint runs_ok (s : str) (k : nat) : bool :=
  match s with
  | [] => true
  | c :: t => if c =? 10 then runs_ok t 0 else (S k <=? 32)%nat && runs_ok t (S k)
  end.
Definition short (s : str) : bool := runs_ok s 0.
Definition no_nl (s : str) : bool := forallb (fun c => negb (c =? 10)) s.

Lemma runs_ok_app_nl : forall a b k, runs_ok (a ++ 10 :: b) k = runs_ok a k && runs_ok b 0.
Proof.
  induction a as [|c t IH]; intros b k; [reflexivity|]. cbn [app runs_ok]. destruct (c =? 10); [apply IH|].
  rewrite IH, andb_assoc. reflexivity.
Qed.

Lemma runs_ok_mono : forall s k k', (k <= k')%nat -> runs_ok s k' = true -> runs_ok s k = true.
Proof.
  induction s as [|c t IH]; intros k k' H R; [reflexivity|]. cbn [runs_ok] in *. destruct (c =? 10); [exact R|].
  apply andb_prop in R. destruct R as [R1 R2]. apply Nat.leb_le in R1.
  rewrite (IH (S k) (S k') ltac:(lia) R2), andb_true_r. apply Nat.leb_le. lia.
Qed.

Lemma runs_ok_line : forall line k, no_nl line = true -> (k + length line <= 32)%nat -> runs_ok line k = true.
Proof.
  induction line as [|c t IH]; intros k N L; [reflexivity|]. cbn [no_nl forallb] in N. apply andb_prop in N. destruct N as [Nc Nt].
  cbn [runs_ok length] in *. apply negb_true_iff in Nc. rewrite Nc. rewrite (IH (S k) Nt ltac:(lia)), andb_true_r. apply Nat.leb_le. lia.
Qed.

Lemma runs_ok_skip : forall sp R k, no_nl sp = true -> runs_ok (sp ++ R) k = true -> runs_ok R k = true.
Proof.
  induction sp as [|c t IH]; intros R k N H; [exact H|]. cbn [no_nl forallb] in N. apply andb_prop in N. destruct N as [Nc Nt].
  cbn [app runs_ok] in H. apply negb_true_iff in Nc. rewrite Nc in H. apply andb_prop in H. destruct H as [_ H].
  apply (runs_ok_mono R k (S k)); [lia|]. exact (IH R (S k) Nt H).
Qed.

Lemma runs_ok_congr : forall y R R' k, (forall k, runs_ok R k = true -> runs_ok R' k = true) ->
  runs_ok (y ++ R) k = true -> runs_ok (y ++ R') k = true.
Proof.
  induction y as [|c t IH]; intros R R' k H X; [apply H; exact X|]. cbn [app runs_ok] in *. destruct (c =? 10); [exact (IH R R' 0%nat H X)|].
  apply andb_prop in X. destruct X as [X1 X2]. rewrite X1. exact (IH R R' (S k) H X2).
Qed.

(* the scan and split("\n") *)
Lemma runs_ok_split : forall s cur, runs_ok s (length cur) = true -> (length cur <= 32)%nat ->
  Forall (fun l => (length l <= 32)%nat) (split_ch_aux 10 s cur).
Proof.
  induction s as [|c t IH]; intros cur H L; cbn [split_ch_aux runs_ok] in *.
  - constructor; [rewrite rev_length; exact L|constructor].
  - destruct (c =? 10).
    + constructor; [rewrite rev_length; exact L|]. apply (IH []); [exact H|cbn; lia].
    + apply andb_prop in H. destruct H as [H1 H2]. apply Nat.leb_le in H1. apply (IH (c :: cur)); [exact H2|cbn [length]; lia].
Qed.

Lemma short_not_too_long : forall s, short s = true -> filter spec_long (spec_lines s) = [].
Proof.
  intros s H. pose proof (runs_ok_split s [] H ltac:(cbn; lia)) as F. unfold spec_lines, split_ch.
  induction F as [|l ls Hl F IH]; [reflexivity|]. cbn [filter]. unfold spec_long at 1.
  replace (32 <? Z.of_nat (length l)) with false by lia. exact IH.
Qed.

Theorem short_texts_pass_length_check : forall caps : list lcap, Forall (fun c => short (snd c) = true) caps ->
  length_check caps = None.
Proof.
  intros caps H. apply SccLenFacts.length_check_none_iff. unfold offending.
  induction H as [|c t Hc H IH]; [reflexivity|]. cbn [map concat]. rewrite (short_not_too_long _ Hc), IH. reflexivity.
Qed.
