(* Facts about the text-level front end of the SCC reader (model/SccTokenise.v):
   tokenise (render ls) = ls for the canonical SCC text and its upper-case / CRLF / CR variants, so that
   every statement about `read off ls` is a statement about the SCC TEXT `render ls`. *)
From Coq Require Import List ZArith Lia Bool ZifyBool QArith.
From PV Require Import lib.Sx lib.Str model.SccDecoder model.SccTokenise.
Import ListNotations.
Open Scope Z_scope.

(* ---- generic list / string lemmas ------------------------------------------------------------ *)

Lemma take_while_app_stop f a c r :
  forallb f a = true -> f c = false -> take_while f (a ++ c :: r) = a.
Proof.
  induction a as [|x a IH]; simpl; intros Ha Hc.
  - rewrite Hc. reflexivity.
  - apply andb_true_iff in Ha. destruct Ha as [Hx Ha]. rewrite Hx, IH by assumption. reflexivity.
Qed.

Lemma drop_while_app_stop f a c r :
  forallb f a = true -> f c = false -> drop_while f (a ++ c :: r) = c :: r.
Proof.
  induction a as [|x a IH]; simpl; intros Ha Hc.
  - rewrite Hc. reflexivity.
  - apply andb_true_iff in Ha. destruct Ha as [Hx Ha]. rewrite Hx. apply IH; assumption.
Qed.

Lemma lstrip_by_app_stop f a c r :
  f c = false -> lstrip_by f (a ++ c :: r) <> [].
Proof.
  induction a as [|x a IH]; simpl; intros Hc.
  - rewrite Hc. discriminate.
  - destruct (f x); [apply IH; assumption | discriminate].
Qed.

Lemma lstrip_by_stop f c r : f c = false -> lstrip_by f (c :: r) = c :: r.
Proof. simpl. intros ->. reflexivity. Qed.

(* a string whose first and last characters are kept is not touched by strip *)
Lemma strip_by_id f c m d :
  f c = false -> f d = false -> strip_by f (c :: m ++ [d]) = c :: m ++ [d].
Proof.
  intros Hc Hd. unfold strip_by, rstrip_by. rewrite (lstrip_by_stop f c _ Hc).
  assert (E : rev (c :: m ++ [d]) = d :: rev (c :: m)).
  { change (c :: m ++ [d]) with ((c :: m) ++ [d]). rewrite rev_app_distr. reflexivity. }
  rewrite E, (lstrip_by_stop f d _ Hd), <- E, rev_involutive. reflexivity.
Qed.

Lemma strip_by_nonempty f c r : f c = false -> strip_by f (c :: r) <> [].
Proof.
  intros Hc. unfold strip_by, rstrip_by. rewrite (lstrip_by_stop f c _ Hc).
  simpl rev at 2. intros H. apply (f_equal (@rev Z)) in H. rewrite rev_involutive in H. simpl in H.
  revert H. apply lstrip_by_app_stop. assumption.
Qed.

Lemma map_join {f : Z -> Z} sep l : map f (join sep l) = join (map f sep) (map (map f) l).
Proof.
  induction l as [|a l IH]; [reflexivity|].
  destruct l as [|b l]; [reflexivity|].
  change (join sep (a :: b :: l)) with (a ++ sep ++ join sep (b :: l)).
  rewrite !map_app, IH. reflexivity.
Qed.

Lemma forallb_join f sep l :
  forallb f sep = true -> Forall (fun t => forallb f t = true) l -> forallb f (join sep l) = true.
Proof.
  intros Hs H. induction H as [|a l Ha Hl IH]; [reflexivity|].
  destruct l as [|b l]; [exact Ha|].
  change (join sep (a :: b :: l)) with (a ++ sep ++ join sep (b :: l)).
  rewrite !forallb_app, Ha, Hs, IH. reflexivity.
Qed.

(* split at a character undoes join with that character *)
Lemma split_ch_aux_app sep t r cur :
  forallb (fun c => negb (c =? sep)) t = true ->
  split_ch_aux sep (t ++ r) cur = split_ch_aux sep r (rev t ++ cur).
Proof.
  revert cur. induction t as [|x t IH]; intros cur Ht; [reflexivity|].
  simpl in Ht. apply andb_true_iff in Ht. destruct Ht as [Hx Ht].
  simpl. destruct (x =? sep); [discriminate|]. rewrite IH by assumption.
  rewrite <- app_assoc. reflexivity.
Qed.

Lemma split_ch_aux_join sep t ts cur :
  Forall (fun t => forallb (fun c => negb (c =? sep)) t = true) (t :: ts) ->
  split_ch_aux sep (join [sep] (t :: ts)) cur = (rev cur ++ t) :: ts.
Proof.
  revert t cur. induction ts as [|u ts IH]; intros t cur H.
  - inversion H; subst. simpl join. rewrite <- (app_nil_r t) at 1.
    rewrite split_ch_aux_app by assumption. simpl. rewrite rev_app_distr, rev_involutive. reflexivity.
  - inversion H; subst.
    change (join [sep] (t :: u :: ts)) with (t ++ sep :: join [sep] (u :: ts)).
    rewrite split_ch_aux_app by assumption. cbn [split_ch_aux]. rewrite Z.eqb_refl.
    rewrite IH by assumption. cbn [rev app]. rewrite rev_app_distr, rev_involutive. reflexivity.
Qed.

Lemma split_ch_join sep t ts :
  Forall (fun t => forallb (fun c => negb (c =? sep)) t = true) (t :: ts) ->
  split_ch sep (join [sep] (t :: ts)) = t :: ts.
Proof. intros H. unfold split_ch. rewrite split_ch_aux_join by assumption. reflexivity. Qed.

(* ---- splitlines ------------------------------------------------------------------------------- *)

Definition no_break (s : str) : bool := forallb (fun c => negb (is_linebreak c)) s.

Definition good_eol (eol : str) : Prop := eol = eol_lf \/ eol = eol_crlf \/ eol = eol_cr.

(* a line without line boundaries, a line end, and a rest that does not start with \n *)
Lemma splitlines_aux_line a eol t cur st :
  no_break a = true -> good_eol eol -> (eol = eol_cr -> hd 0 t <> 10) ->
  splitlines_aux (a ++ eol ++ t) cur st = (rev cur ++ a) :: splitlines_aux t [] false.
Proof.
  intros Ha He Ht. revert cur st. induction a as [|x a IH]; intros cur st.
  - rewrite app_nil_r. destruct He as [->|[->| ->]]; try reflexivity.
    specialize (Ht eq_refl). simpl. destruct t as [|y t]; [reflexivity|].
    simpl in Ht. destruct y as [|p|p]; try reflexivity.
    do 4 (destruct p as [p|p|]; try reflexivity). congruence.
  - simpl in Ha. apply andb_true_iff in Ha. destruct Ha as [Hx Ha].
    simpl. destruct (is_linebreak x); [discriminate|]. rewrite IH by assumption.
    simpl. rewrite <- app_assoc. reflexivity.
Qed.

Lemma splitlines_line a eol t :
  no_break a = true -> good_eol eol -> (eol = eol_cr -> hd 0 t <> 10) ->
  splitlines (a ++ eol ++ t) = a :: splitlines t.
Proof. intros. unfold splitlines. rewrite splitlines_aux_line by assumption. reflexivity. Qed.

(* ---- characters of a rendered line ------------------------------------------------------------ *)

Lemma tc_char_facts c :
  is_tc_char c = true ->
  is_space c = false /\ is_linebreak c = false /\ lower_ch c = c /\ c <> 10.
Proof.
  unfold is_tc_char, is_digit, is_space, is_linebreak, lower_ch. intros H.
  assert (48 <= c <= 59) by lia.
  repeat split; try lia.
  destruct ((65 <=? c) && (c <=? 90)) eqn:E; lia.
Qed.

Lemma hex_digit_facts up d :
  0 <= d < 16 ->
  let c := hex_digit up d in
  is_space c = false /\ is_linebreak c = false /\
  lower_ch c = hex_digit false d /\ hex_val (hex_digit false d) = Some d /\ (c =? c_sp) = false.
Proof.
  intros Hd.
  assert (E : d = 0 \/ d = 1 \/ d = 2 \/ d = 3 \/ d = 4 \/ d = 5 \/ d = 6 \/ d = 7 \/ d = 8 \/ d = 9 \/
              d = 10 \/ d = 11 \/ d = 12 \/ d = 13 \/ d = 14 \/ d = 15) by lia.
  repeat (destruct E as [E|E]; [subst d; destruct up; vm_compute; repeat split; reflexivity|]).
  subst d; destruct up; vm_compute; repeat split; reflexivity.
Qed.

Lemma hex_recompose w :
  0 <= w < 65536 ->
  ((w / 4096 * 16 + (w / 256) mod 16) * 16 + (w / 16) mod 16) * 16 + w mod 16 = w /\
  0 <= w / 4096 < 16.
Proof. intros H. Z.to_euclidean_division_equations. lia. Qed.

Lemma hex4_facts up w :
  0 <= w < 65536 ->
  lower (hex4 up w) = hex4 false w /\
  strip (hex4 false w) = hex4 false w /\
  word_of_token (hex4 false w) = w /\
  forallb (fun c => negb (c =? c_sp)) (hex4 up w) = true /\
  no_break (hex4 up w) = true /\
  is_space (hd 0 (hex4 up w)) = false.
Proof.
  intros Hw. destruct (hex_recompose w Hw) as [Hv H3].
  assert (H2 : 0 <= (w / 256) mod 16 < 16) by (apply Z.mod_pos_bound; lia).
  assert (H1 : 0 <= (w / 16) mod 16 < 16) by (apply Z.mod_pos_bound; lia).
  assert (H0 : 0 <= w mod 16 < 16) by (apply Z.mod_pos_bound; lia).
  pose proof (hex_digit_facts up _ H3) as (A3 & B3 & C3 & D3 & E3).
  pose proof (hex_digit_facts up _ H2) as (A2 & B2 & C2 & D2 & E2).
  pose proof (hex_digit_facts up _ H1) as (A1 & B1 & C1 & D1 & E1).
  pose proof (hex_digit_facts up _ H0) as (A0 & B0 & C0 & D0 & E0).
  pose proof (hex_digit_facts false _ H3) as (A3' & _).
  pose proof (hex_digit_facts false _ H0) as (A0' & _).
  cbv zeta in *.
  unfold hex4. repeat split.
  - cbn [lower map]. rewrite C3, C2, C1, C0. reflexivity.
  - apply (strip_by_id is_space _ [_; _] _ A3' A0').
  - unfold word_of_token. rewrite D3, D2, D1, D0. exact Hv.
  - cbn [forallb]. rewrite E3, E2, E1, E0. reflexivity.
  - unfold no_break. cbn [forallb]. rewrite B3, B2, B1, B0. reflexivity.
  - exact A3.
Qed.

(* ---- one line --------------------------------------------------------------------------------- *)

Lemma lower_tc tc : forallb is_tc_char tc = true -> lower tc = tc.
Proof.
  unfold lower. induction tc as [|c tc IH]; [reflexivity|]. cbn [map forallb]. intros H.
  apply andb_true_iff in H. destruct H as [Hc H]. destruct (tc_char_facts c Hc) as (_ & _ & E & _).
  rewrite E, IH by assumption. reflexivity.
Qed.

Lemma no_break_tc tc : forallb is_tc_char tc = true -> no_break tc = true.
Proof.
  induction tc as [|c tc IH]; [reflexivity|]. simpl. intros H. apply andb_true_iff in H.
  destruct H as [Hc H]. destruct (tc_char_facts c Hc) as (_ & -> & _ & _). simpl. apply IH, H.
Qed.

Lemma lower_words up ws :
  Forall (fun w => 0 <= w < 65536) ws ->
  lower (join [c_sp] (map (hex4 up) ws)) = join [c_sp] (map (hex4 false) ws).
Proof.
  intros H. unfold lower. rewrite map_join. f_equal. rewrite map_map.
  induction H as [|w ws Hw _ IH]; [reflexivity|]. cbn [map]. rewrite IH. f_equal.
  apply (hex4_facts up w Hw).
Qed.

Lemma lower_render_line up l : wf_sline l -> lower (render_line up l) = render_line false l.
Proof.
  intros (_ & Htc & Hws). unfold render_line, lower. rewrite !map_app.
  fold (lower (fst l)). rewrite lower_tc by assumption.
  fold (lower (join [c_sp] (map (hex4 up) (snd l)))). rewrite lower_words by assumption. reflexivity.
Qed.

Lemma words_of_tokens ws :
  Forall (fun w => 0 <= w < 65536) ws ->
  map word_of_token (filter is_word_token (map strip (map (hex4 false) ws))) = ws.
Proof.
  induction 1 as [|w ws Hw _ IH]; [reflexivity|].
  destruct (hex4_facts false w Hw) as (_ & Hs & Hv & _).
  cbn [map]. unfold strip in *. rewrite Hs. cbn [filter]. change (is_word_token (hex4 false w)) with true.
  cbn [map]. rewrite Hv, IH. reflexivity.
Qed.

Lemma line_words_render ws :
  Forall (fun w => 0 <= w < 65536) ws ->
  map word_of_token (filter is_word_token (map strip
     (split_ch c_sp (drop_while is_space (c_tab :: join [c_sp] (map (hex4 false) ws)))))) = ws.
Proof.
  intros H. destruct ws as [|w ws]; [reflexivity|].
  assert (Hd : drop_while is_space (c_tab :: join [c_sp] (map (hex4 false) (w :: ws)))
               = join [c_sp] (map (hex4 false) (w :: ws))).
  { change (drop_while is_space (c_tab :: ?x)) with (drop_while is_space x).
    inversion H; subst. destruct (hex4_facts false w H2) as (_ & _ & _ & _ & _ & Hh).
    cbn [map]. remember (map (hex4 false) ws) as r. unfold hex4 in *. cbn [hd] in Hh.
    destruct r; cbn [join app drop_while]; rewrite Hh; reflexivity. }
  rewrite Hd. cbn [map]. rewrite split_ch_join.
  - apply (words_of_tokens (w :: ws) H).
  - change (hex4 false w :: map (hex4 false) ws) with (map (hex4 false) (w :: ws)).
    clear Hd. induction H as [|x xs Hx _ IH]; constructor; [|exact IH].
    apply (hex4_facts false x Hx).
Qed.

(* PER-LINE ROUND TRIP *)
Theorem tokenise_render_line up l : wf_sline l -> tokenise_line (render_line up l) = Some l.
Proof.
  intros Hwf. pose proof Hwf as (Hne & Htc & Hws). destruct l as [tc ws]. cbn [fst snd] in *.
  unfold tokenise_line.
  assert (Hb : is_blank (render_line up (tc, ws)) = false).
  { unfold is_blank, render_line. cbn [fst snd]. destruct tc as [|c tc]; [congruence|].
    simpl in Htc. apply andb_true_iff in Htc. destruct Htc as [Hc _].
    destruct (tc_char_facts c Hc) as (Hs & _).
    pose proof (strip_by_nonempty is_space c (tc ++ [c_tab] ++ join [c_sp] (map (hex4 up) ws)) Hs) as Hn.
    unfold strip. cbn [app] in *. destruct (strip_by is_space _); [congruence | reflexivity]. }
  rewrite Hb. unfold line_timecode, line_words, tokens, raw_tokens, line_rest.
  rewrite (lower_render_line up (tc, ws) Hwf). unfold render_line. cbn [fst snd app].
  rewrite take_while_app_stop, drop_while_app_stop by (assumption || reflexivity).
  rewrite line_words_render by assumption. reflexivity.
Qed.

(* ---- the whole file --------------------------------------------------------------------------- *)

Lemma no_break_render_line up l : wf_sline l -> no_break (render_line up l) = true.
Proof.
  intros (_ & Htc & Hws). unfold render_line, no_break. rewrite !forallb_app.
  fold (no_break (fst l)). rewrite no_break_tc by assumption. cbn [forallb andb].
  change (negb (is_linebreak c_tab)) with true. cbn [andb]. apply forallb_join; [reflexivity|].
  induction Hws as [|w ws Hw _ IH]; constructor; [|exact IH]. apply (hex4_facts up w Hw).
Qed.

Lemma hd_render_line up l r : wf_sline l -> hd 0 (render_line up l ++ r) <> 10.
Proof.
  intros (Hne & Htc & _). unfold render_line. destruct (fst l) as [|c tc]; [congruence|].
  simpl in Htc. apply andb_true_iff in Htc. destruct Htc as [Hc _].
  destruct (tc_char_facts c Hc) as (_ & _ & _ & H). exact H.
Qed.

Definition render_body (up : bool) (eol : str) (ls : list sline) : str :=
  concat (map (fun l => render_line up l ++ eol ++ eol) ls).

Lemma hd_render_body up eol ls : Forall wf_sline ls -> hd 0 (render_body up eol ls) <> 10.
Proof.
  intros H. destruct H as [|l ls Hl _]; [simpl; lia|].
  unfold render_body. cbn [map concat]. rewrite <- app_assoc. apply hd_render_line, Hl.
Qed.

Lemma hd_eol_cr t : hd 0 (eol_cr ++ t) <> 10.
Proof. simpl. unfold c_cr. lia. Qed.

Lemma splitlines_two_eols a eol t :
  no_break a = true -> good_eol eol -> hd 0 t <> 10 ->
  splitlines (a ++ eol ++ eol ++ t) = a :: [] :: splitlines t.
Proof.
  intros Ha He Ht. rewrite splitlines_line; [|assumption|assumption|intros ->; apply hd_eol_cr].
  f_equal. apply (splitlines_line [] eol t); [reflexivity | assumption | intros _; assumption].
Qed.

Lemma tokenise_lines_body up eol ls :
  good_eol eol -> Forall wf_sline ls -> tokenise_lines (splitlines (render_body up eol ls)) = ls.
Proof.
  intros He H. induction H as [|l ls Hl Hls IH]; [reflexivity|].
  unfold render_body. cbn [map concat]. fold (render_body up eol ls). rewrite <- !app_assoc.
  rewrite splitlines_two_eols;
    [|apply no_break_render_line, Hl | assumption | apply hd_render_body, Hls].
  unfold tokenise_lines in *. cbn [flat_map]. rewrite (tokenise_render_line up l Hl), IH. reflexivity.
Qed.

(* ROUND TRIP, all variants at once: lower / upper case digits, \n, \r\n or \r line ends *)
Theorem tokenise_render_gen up eol ls :
  good_eol eol -> Forall wf_sline ls -> tokenise (render_gen up eol ls) = ls.
Proof.
  intros He H. unfold tokenise, render_gen. fold (render_body up eol ls).
  rewrite splitlines_two_eols; [|reflexivity | assumption | apply hd_render_body, H].
  cbn [tl]. unfold tokenise_lines. cbn [flat_map]. apply (tokenise_lines_body up eol ls He H).
Qed.

Theorem tokenise_render ls : Forall wf_sline ls -> tokenise (render ls) = ls.
Proof. apply tokenise_render_gen. left. reflexivity. Qed.

Theorem tokenise_render_upper ls : Forall wf_sline ls -> tokenise (render_upper ls) = ls.
Proof. apply tokenise_render_gen. left. reflexivity. Qed.

Theorem tokenise_render_crlf ls : Forall wf_sline ls -> tokenise (render_crlf ls) = ls.
Proof. apply tokenise_render_gen. right. left. reflexivity. Qed.

Theorem tokenise_render_upper_crlf ls : Forall wf_sline ls -> tokenise (render_upper_crlf ls) = ls.
Proof. apply tokenise_render_gen. right. left. reflexivity. Qed.

Theorem tokenise_render_cr ls : Forall wf_sline ls -> tokenise (render_cr ls) = ls.
Proof. apply tokenise_render_gen. right. right. reflexivity. Qed.

(* the refinement theorems about `read off ls` are statements about the SCC text `render ls` *)
Theorem read_tokenise_render off ls :
  Forall wf_sline ls -> read off (tokenise (render ls)) = read off ls.
Proof. intros H. rewrite tokenise_render by assumption. reflexivity. Qed.

Theorem read_tokenise_render_gen off up eol ls :
  good_eol eol -> Forall wf_sline ls -> read off (tokenise (render_gen up eol ls)) = read off ls.
Proof. intros He H. rewrite tokenise_render_gen by assumption. reflexivity. Qed.

(* ---- robustness: blank lines ------------------------------------------------------------------ *)

Lemma tokenise_lines_app l1 l2 : tokenise_lines (l1 ++ l2) = tokenise_lines l1 ++ tokenise_lines l2.
Proof. unfold tokenise_lines. apply flat_map_app. Qed.

(* a blank line among the lines changes nothing *)
Theorem tokenise_lines_blank l1 b l2 :
  is_blank b = true -> tokenise_lines (l1 ++ b :: l2) = tokenise_lines (l1 ++ l2).
Proof.
  intros Hb. rewrite !tokenise_lines_app. f_equal. unfold tokenise_lines. cbn [flat_map].
  unfold tokenise_line at 1. rewrite Hb. reflexivity.
Qed.

(* the same on the text: a text given as lines, each one closed by the same line end *)
Definition unlines (eol : str) (lines : list str) : str := concat (map (fun l => l ++ eol) lines).

Lemma splitlines_unlines eol lines :
  good_eol eol -> Forall (fun l => no_break l = true) lines -> splitlines (unlines eol lines) = lines.
Proof.
  intros He H. induction H as [|a lines Ha Hl IH]; [reflexivity|].
  unfold unlines. cbn [map concat]. fold (unlines eol lines). rewrite <- app_assoc.
  rewrite splitlines_line; [rewrite IH; reflexivity | assumption | assumption |].
  intros ->. destruct Hl as [|b lines Hb _]; [simpl; lia|].
  unfold unlines. cbn [map concat]. destruct b as [|c b]; [simpl; unfold c_cr; lia|].
  simpl in Hb. apply andb_true_iff in Hb. destruct Hb as [Hc _]. simpl.
  intros ->. discriminate.
Qed.

Theorem tokenise_unlines eol h lines :
  good_eol eol -> Forall (fun l => no_break l = true) (h :: lines) ->
  tokenise (unlines eol (h :: lines)) = tokenise_lines lines.
Proof. intros He H. unfold tokenise. rewrite splitlines_unlines by assumption. reflexivity. Qed.

Theorem tokenise_blank_line eol h l1 b l2 :
  good_eol eol -> Forall (fun l => no_break l = true) (h :: l1 ++ b :: l2) -> is_blank b = true ->
  tokenise (unlines eol (h :: l1 ++ b :: l2)) = tokenise (unlines eol (h :: l1 ++ l2)).
Proof.
  intros He H Hb. rewrite !tokenise_unlines; try assumption.
  - apply tokenise_lines_blank, Hb.
  - inversion H as [|? ? Hh Hr]; subst. constructor; [assumption|].
    rewrite Forall_app in *. destruct Hr as [Hr1 Hr2]. inversion Hr2; subst. split; assumption.
Qed.

(* ---- robustness: trailing whitespace on a line ------------------------------------------------- *)

Lemma lstrip_by_app f t u :
  lstrip_by f (t ++ u) = if forallb f t then lstrip_by f u else lstrip_by f t ++ u.
Proof.
  induction t as [|c t IH]; [reflexivity|]. cbn [app lstrip_by forallb].
  destruct (f c); [exact IH | reflexivity].
Qed.

Lemma lstrip_by_nil f t : forallb f t = true -> lstrip_by f t = [].
Proof.
  induction t as [|c t IH]; [reflexivity|]. cbn [lstrip_by forallb]. destruct (f c); [exact IH | discriminate].
Qed.

Lemma drop_while_lstrip f s : drop_while f s = lstrip_by f s.
Proof. induction s as [|c s IH]; [reflexivity|]. simpl. rewrite IH. reflexivity. Qed.

Lemma strip_by_app_space f t w : f w = true -> strip_by f (t ++ [w]) = strip_by f t.
Proof.
  intros Hw. unfold strip_by, rstrip_by. rewrite lstrip_by_app. destruct (forallb f t) eqn:E.
  - rewrite (lstrip_by_nil f t E). cbn [lstrip_by]. rewrite Hw. reflexivity.
  - rewrite rev_app_distr. cbn [rev app lstrip_by]. rewrite Hw. reflexivity.
Qed.

Lemma strip_by_app_spaces f u : forall t, forallb f u = true -> strip_by f (t ++ u) = strip_by f t.
Proof.
  induction u as [|w u IH]; intros t H; [rewrite app_nil_r; reflexivity|].
  cbn [forallb] in H. apply andb_true_iff in H. destruct H as [Hw Hu].
  change (t ++ w :: u) with (t ++ [w] ++ u). rewrite app_assoc, IH by assumption.
  apply strip_by_app_space, Hw.
Qed.

Lemma take_while_app_neg f a b :
  forallb (fun c => negb (f c)) b = true -> take_while f (a ++ b) = take_while f a.
Proof.
  intros Hb. induction a as [|x a IH].
  - destruct b as [|c b]; [reflexivity|]. simpl in *. destruct (f c); [discriminate | reflexivity].
  - simpl. destruct (f x); [rewrite IH; reflexivity | reflexivity].
Qed.

Lemma drop_while_app_neg f a b :
  forallb (fun c => negb (f c)) b = true -> drop_while f (a ++ b) = drop_while f a ++ b.
Proof.
  intros Hb. induction a as [|x a IH].
  - destruct b as [|c b]; [reflexivity|]. simpl in *. destruct (f c); [discriminate | reflexivity].
  - simpl. destruct (f x); [exact IH | reflexivity].
Qed.

Lemma space_facts c : is_space c = true -> is_tc_char c = false /\ lower_ch c = c.
Proof.
  unfold is_space, is_tc_char, is_digit, lower_ch. intros H. split; [lia|].
  destruct ((65 <=? c) && (c <=? 90)) eqn:E; lia.
Qed.

Lemma spaces_facts ws :
  forallb is_space ws = true ->
  lower ws = ws /\ forallb (fun c => negb (is_tc_char c)) ws = true.
Proof.
  unfold lower. induction ws as [|c ws IH]; [split; reflexivity|]. cbn [forallb map]. intros H.
  apply andb_true_iff in H. destruct H as [Hc H]. destruct (space_facts c Hc) as [E1 E2].
  destruct (IH H) as [I1 I2]. rewrite E1, E2, I1, I2. split; reflexivity.
Qed.

(* the words of a token list *)
Definition words_of (toks : list str) : list Z :=
  map word_of_token (filter is_word_token (map strip toks)).

Lemma words_of_cons t ts : words_of (t :: ts) = words_of [t] ++ words_of ts.
Proof. unfold words_of. cbn [map filter]. destruct (is_word_token (strip t)); reflexivity. Qed.

Lemma words_split_spaces ws : forall cur,
  forallb is_space ws = true -> words_of (split_ch_aux c_sp ws cur) = words_of [rev cur].
Proof.
  induction ws as [|w ws IH]; intros cur H; [reflexivity|].
  cbn [forallb] in H. apply andb_true_iff in H. destruct H as [Hw H].
  cbn [split_ch_aux]. destruct (w =? c_sp).
  - rewrite words_of_cons, IH by assumption. change (words_of [rev []]) with (@nil Z).
    apply app_nil_r.
  - rewrite IH by assumption. cbn [rev]. unfold words_of. cbn [map]. unfold strip.
    rewrite strip_by_app_space by assumption. reflexivity.
Qed.

Lemma words_split_app r ws : forall cur,
  forallb is_space ws = true ->
  words_of (split_ch_aux c_sp (r ++ ws) cur) = words_of (split_ch_aux c_sp r cur).
Proof.
  induction r as [|c r IH]; intros cur H.
  - cbn [app split_ch_aux]. apply words_split_spaces, H.
  - cbn [app split_ch_aux]. destruct (c =? c_sp).
    + rewrite words_of_cons, (words_of_cons _ (split_ch_aux c_sp r [])), IH by assumption. reflexivity.
    + apply IH, H.
Qed.

(* whitespace at the end of a line (blanks, tabs ...) changes nothing *)
Theorem tokenise_line_trailing_space line ws :
  forallb is_space ws = true -> tokenise_line (line ++ ws) = tokenise_line line.
Proof.
  intros H. destruct (spaces_facts ws H) as [Hl Hn]. unfold tokenise_line.
  assert (Hb : is_blank (line ++ ws) = is_blank line).
  { unfold is_blank, strip. rewrite strip_by_app_spaces by assumption. reflexivity. }
  rewrite Hb. destruct (is_blank line); [reflexivity|]. f_equal.
  assert (Hlow : lower (line ++ ws) = lower line ++ ws).
  { unfold lower in *. rewrite map_app, Hl. reflexivity. }
  f_equal.
  - unfold line_timecode. rewrite Hlow. apply take_while_app_neg, Hn.
  - unfold line_words, tokens, raw_tokens, line_rest. fold (words_of (split_ch c_sp
      (drop_while is_space (drop_while is_tc_char (lower (line ++ ws)))))).
    fold (words_of (split_ch c_sp (drop_while is_space (drop_while is_tc_char (lower line))))).
    rewrite Hlow, drop_while_app_neg by assumption.
    generalize (drop_while is_tc_char (lower line)). intros R.
    rewrite (drop_while_lstrip is_space (R ++ ws)), (drop_while_lstrip is_space R).
    rewrite lstrip_by_app. destruct (forallb is_space R) eqn:E.
    + rewrite (lstrip_by_nil _ _ E), (lstrip_by_nil _ _ H). reflexivity.
    + unfold split_ch. apply words_split_app, H.
Qed.

(* the same on the text *)
Theorem tokenise_trailing_space eol h l1 l ws l2 :
  good_eol eol -> Forall (fun l => no_break l = true) (h :: l1 ++ (l ++ ws) :: l2) ->
  forallb is_space ws = true ->
  tokenise (unlines eol (h :: l1 ++ (l ++ ws) :: l2)) = tokenise (unlines eol (h :: l1 ++ l :: l2)).
Proof.
  intros He H Hws. rewrite !tokenise_unlines; try assumption.
  - rewrite !tokenise_lines_app. f_equal. unfold tokenise_lines. cbn [flat_map].
    rewrite tokenise_line_trailing_space by assumption. reflexivity.
  - inversion H as [|? ? Hh Hr]; subst. constructor; [assumption|].
    rewrite Forall_app in *. destruct Hr as [Hr1 Hr2]. inversion Hr2 as [|? ? Hl Hr3]; subst.
    split; [assumption|]. constructor; [|assumption].
    unfold no_break in *. rewrite forallb_app in Hl. apply andb_true_iff in Hl. apply Hl.
Qed.

(* ---- next_command: regular lines --------------------------------------------------------------- *)

Lemma str_eqb_eq a : forall b, str_eqb a b = true -> a = b.
Proof.
  induction a as [|x a IH]; intros [|y b] H; simpl in H; try discriminate; [reflexivity|].
  apply andb_true_iff in H. destruct H as [Hx H]. apply Z.eqb_eq in Hx. subst. f_equal. apply IH, H.
Qed.

Lemma str_eqb_refl a : str_eqb a a = true.
Proof. induction a as [|x a IH]; [reflexivity|]. simpl. rewrite Z.eqb_refl. exact IH. Qed.

(* on a regular token list the kept words are the raw tokens themselves, in order, apart from a
   last token that is blank: the raw token after a kept word is the next kept word, or that blank
   token, or nothing *)
Theorem regular_tokens_kept ts :
  regular_tokens ts = true ->
  exists ws last, ts = ws ++ last /\ (last = [] \/ exists t, last = [t] /\ strip t = []) /\
                  filter is_word_token (map strip ts) = ws.
Proof.
  induction ts as [|t ts IH]; intros H.
  - exists [], []. repeat split. left. reflexivity.
  - destruct ts as [|u ts].
    + cbn [regular_tokens] in H. apply orb_true_iff in H. destruct H as [H|H].
      * apply andb_true_iff in H. destruct H as [Hw He]. apply str_eqb_eq in He.
        exists [t], []. repeat split; [left; reflexivity|]. cbn [map filter]. rewrite He, Hw. reflexivity.
      * exists [], [t]. assert (E : strip t = []) by (destruct (strip t); [reflexivity | discriminate]).
        repeat split; [right; exists t; split; [reflexivity | exact E]|].
        cbn [map filter]. rewrite E. reflexivity.
    + change (regular_tokens (t :: u :: ts))
        with (is_word_token t && str_eqb (strip t) t && regular_tokens (u :: ts)) in H.
      apply andb_true_iff in H. destruct H as [H Hr]. apply andb_true_iff in H. destruct H as [Hw He].
      apply str_eqb_eq in He. destruct (IH Hr) as (ws & last & E1 & E2 & E3).
      exists (t :: ws), last. repeat split; [rewrite E1; reflexivity | exact E2 |].
      change (map strip (t :: u :: ts)) with (strip t :: map strip (u :: ts)).
      cbn [filter]. rewrite He, Hw, E3. reflexivity.
Qed.

Lemma raw_tokens_render_line up l :
  wf_sline l ->
  raw_tokens (render_line up l) = match snd l with [] => [[]] | ws => map (hex4 false) ws end.
Proof.
  intros Hwf. pose proof Hwf as (Hne & Htc & Hws). unfold raw_tokens, line_rest.
  rewrite (lower_render_line up l Hwf). unfold render_line. cbn [app].
  rewrite drop_while_app_stop by (assumption || reflexivity).
  destruct (snd l) as [|w ws]; [reflexivity|].
  change (drop_while is_space (c_tab :: ?x)) with (drop_while is_space x).
  assert (Hall : Forall (fun t => forallb (fun c => negb (c =? c_sp)) t = true /\ is_space (hd 0 t) = false)
                        (map (hex4 false) (w :: ws))).
  { induction Hws as [|x xs Hx _ IH]; constructor; [|exact IH].
    destruct (hex4_facts false x Hx) as (_ & _ & _ & A & _ & B). split; assumption. }
  cbn [map] in *. inversion Hall as [|? ? [_ Hh] _]; subst.
  assert (Hd : forall r, drop_while is_space (hex4 false w ++ r) = hex4 false w ++ r).
  { intros r. unfold hex4 in *. cbn [hd] in Hh. cbn [app drop_while]. rewrite Hh. reflexivity. }
  assert (Hj : drop_while is_space (join [c_sp] (hex4 false w :: map (hex4 false) ws))
               = join [c_sp] (hex4 false w :: map (hex4 false) ws)).
  { destruct (map (hex4 false) ws) as [|t ts].
    - cbn [join]. rewrite <- (app_nil_r (hex4 false w)). apply Hd.
    - change (join [c_sp] (hex4 false w :: t :: ts)) with (hex4 false w ++ [c_sp] ++ join [c_sp] (t :: ts)).
      apply Hd. }
  rewrite Hj. apply split_ch_join. eapply Forall_impl; [|exact Hall]. intros a [Ha _]. exact Ha.
Qed.

(* rendered lines are regular: on them the lookahead of the real code and of the model coincide *)
Theorem tokens_regular_render_line up l : wf_sline l -> tokens_regular (render_line up l) = true.
Proof.
  intros Hwf. unfold tokens_regular. rewrite (raw_tokens_render_line up l Hwf).
  destruct Hwf as (_ & _ & Hws). destruct (snd l) as [|w ws]; [reflexivity|].
  induction Hws as [|x xs Hx Hxs IH]; [reflexivity|].
  destruct (hex4_facts false x Hx) as (_ & Hs & _).
  assert (Hx' : is_word_token (hex4 false x) && str_eqb (strip (hex4 false x)) (hex4 false x) = true).
  { rewrite Hs, str_eqb_refl. reflexivity. }
  destruct xs as [|y ys].
  - cbn [map regular_tokens]. rewrite Hx'. reflexivity.
  - change (regular_tokens (map (hex4 false) (x :: y :: ys)))
      with (is_word_token (hex4 false x) && str_eqb (strip (hex4 false x)) (hex4 false x)
            && regular_tokens (map (hex4 false) (y :: ys))).
    rewrite Hx', IH. reflexivity.
Qed.

(* ---- examples (vm_compute), cross-checked against harness/sccobs.py parse_lines ---------------- *)

Definition nl2 : str := [10; 10].
Definition tab : str := [9].

Example tokenise_ex1 :
  tokenise (lit "Scenarist_SCC V1.0" ++ nl2 ++ lit "00:00:01:00" ++ tab ++ lit "94AE 9420 9470 6162 942F" ++ nl2
            ++ lit "00:00:03:00" ++ tab ++ lit "942c" ++ nl2)
  = [ (lit "00:00:01:00", [38062; 37920; 38000; 24930; 37935]);   (* 0x94ae 0x9420 0x9470 0x6162 0x942f *)
      (lit "00:00:03:00", [37932]) ].                              (* 0x942c *)
Proof. vm_compute. reflexivity. Qed.

(* CRLF line ends, drop-frame timecode, trailing blanks, a blank line made of blanks and tabs *)
Example tokenise_ex2 :
  tokenise (lit "Scenarist_SCC V1.0" ++ [13; 10; 13; 10] ++ lit "00:00:01;00" ++ tab ++ lit "94ae 94ae   " ++ [13; 10]
            ++ lit "  " ++ tab ++ [13; 10] ++ lit "00:00:03;00" ++ tab ++ lit "942C" ++ tab ++ [13; 10])
  = [ (lit "00:00:01;00", [38062; 38062]); (lit "00:00:03;00", [37932]) ].
Proof. vm_compute. reflexivity. Qed.

(* a double blank (empty token, dropped), a non-hexadecimal 4-character token (0), tokens of other lengths
   (dropped), a token with a tab in front (stripped, kept), blanks instead of the tab after the timecode, no final
   line end *)
Example tokenise_ex3 :
  tokenise (lit "anything" ++ [10] ++ lit "00:00:01:00  9420  9470 zz61 942 94200 " ++ tab ++ lit "942f")
  = [ (lit "00:00:01:00", [37920; 38000; 0; 37935]) ].
Proof. vm_compute. reflexivity. Qed.

(* the header is skipped whatever it is, even when it is a data line; a line without timecode *)
Example tokenise_ex4 :
  tokenise (lit "00:00:00:00" ++ tab ++ lit "9420" ++ [10] ++ lit "x 9420" ++ [13] ++ lit "01:02:03:04" ++ [10])
  = [ ([], [37920]); (lit "01:02:03:04", []) ].
Proof. vm_compute. reflexivity. Qed.

Example render_ex1 :
  render [ (lit "00:00:01:00", [38062; 37920]); (lit "00:00:03:00", [37932]) ]
  = lit "Scenarist_SCC V1.0" ++ nl2 ++ lit "00:00:01:00" ++ tab ++ lit "94ae 9420" ++ nl2
    ++ lit "00:00:03:00" ++ tab ++ lit "942c" ++ nl2.
Proof. vm_compute. reflexivity. Qed.

Example render_ex2 :
  render_upper_crlf [ (lit "00:00:01:00", [38062; 10]) ]
  = lit "Scenarist_SCC V1.0" ++ [13; 10; 13; 10] ++ lit "00:00:01:00" ++ tab ++ lit "94AE 000A" ++ [13; 10; 13; 10].
Proof. vm_compute. reflexivity. Qed.

(* a double blank makes a line irregular (the real lookahead of the first 9420 is "", the model's is 9470);
   the canonical text is regular *)
Example tokens_regular_ex :
  tokens_regular (lit "00:00:01:00" ++ tab ++ lit "9420  9470") = false /\
  tokens_regular (lit "00:00:01:00" ++ tab ++ lit "9420 9470") = true /\
  tokens_regular (lit "00:00:01:00" ++ tab ++ lit "9420 9470 ") = true /\
  tokens_regular (lit "00:00:01:00" ++ tab ++ lit "9420 947 942c") = false.
Proof. vm_compute. repeat split. Qed.

Print Assumptions tokenise_render_line.
Print Assumptions tokenise_render_gen.
Print Assumptions tokenise_render.
Print Assumptions tokenise_render_upper.
Print Assumptions tokenise_render_crlf.
Print Assumptions tokenise_render_upper_crlf.
Print Assumptions tokenise_render_cr.
Print Assumptions read_tokenise_render.
Print Assumptions read_tokenise_render_gen.
Print Assumptions tokenise_blank_line.
Print Assumptions tokenise_line_trailing_space.
Print Assumptions tokenise_trailing_space.
Print Assumptions regular_tokens_kept.
Print Assumptions tokens_regular_render_line.
