(* C03 / C11 (wave 7): the payload round-trip theorems of proofs/TextRoundtripFacts.v for style dictionaries WITH a colour
   (any string over XML Char, written through quoteattr): well-formed payload, visible characters, italic flags. *)
From Coq Require Import List ZArith Bool Lia ZifyBool.
From PV Require Import lib.Sx lib.Str model.TextNodes model.TextWrite model.TextRead.
From PV Require Import spec.SpecTextXml spec.SpecTextStyle.
From PV Require Import proofs.TextStrFacts proofs.TextXmlFacts proofs.TextReadFacts proofs.TextPayloadFacts proofs.TextStyleFacts.
From PV Require Import proofs.TextRoundtripFacts proofs.TextAttrFacts.
Import ListNotations.
Open Scope Z_scope.

Theorem dfxp_payload_wellformed_c : forall region ns, nodes_ok color_style ns = true -> flat_balanced ns = true ->
  exists t, content_parse (dfxp_payload (extra_of region) ns) = Some t /\
            vis (flat_map tree_flat t) = vis (node_flat ns).
Proof.
  intros region ns Hn Hf. rewrite dfxp_payload_parse_c by exact Hn.
  destruct (abs_tokens_balanced [] a_close (dfxp_atok_c region) ns a_ok_close Hf) as [Hs Hd].
  destruct (xbuild_ok _ [] [] Hs (Forall_nil _) Hd) as [t Ht]. exists t. split; [exact Ht|].
  rewrite (xbuild_flat _ [] [] t Hs (Forall_nil _) Ht). cbn [unwind_flat rev flat_map app].
  apply abs_tokens_visible; [exact vis_close|reflexivity].
Qed.

Theorem legacy_payload_wellformed_c : forall ns, nodes_ok color_style ns = true -> flat_balanced ns = true ->
  exists t, content_parse (legacy_payload ns) = Some t /\ vis (flat_map tree_flat t) = vis (node_flat ns).
Proof.
  intros ns Hn Hf. rewrite legacy_payload_parse_c by exact Hn.
  destruct (abs_tokens_balanced [] a_close (dfxp_atok_c false) ns a_ok_close Hf) as [Hs Hd].
  destruct (xbuild_ok _ [] [] Hs (Forall_nil _) Hd) as [t Ht]. exists t. split; [exact Ht|].
  rewrite (xbuild_flat _ [] [] t Hs (Forall_nil _) Ht). cbn [unwind_flat rev flat_map app].
  apply abs_tokens_visible; [exact vis_close|reflexivity].
Qed.

Lemma dfxp_agree_c : forall region st, color_style st = true ->
  mask3 m_i (stack_flags [st]) = cfl m_i (tstk_of dfxp_est (dfxp_atok_c region) (Some st)).
Proof.
  intros region [i b u c] H. destruct c as [c|].
  - destruct region, i, b, u; reflexivity.
  - destruct region, i, b, u; reflexivity.
Qed.

Theorem dfxp_roundtrip_gen_c : forall region payload ns,
  (content_parse payload = xbuild (abs_tokens [] a_close (dfxp_atok_c region) ns) [] []) ->
  nodes_ok color_style ns = true -> flat_balanced ns = true ->
  exists t, content_parse payload = Some t /\
            ok_flags m_i ns (flat_map (dfxp_nodes true) t) = true /\
            balanced (flat_map (dfxp_nodes true) t) = true.
Proof.
  intros region payload ns Hp Hn Hf.
  destruct (abs_tokens_balanced [] a_close (dfxp_atok_c region) ns a_ok_close Hf) as [Hs Hd].
  destruct (xbuild_ok _ [] [] Hs (Forall_nil _) Hd) as [t Ht]. exists t. split; [rewrite Hp; exact Ht|]. split.
  - unfold ok_flags. apply flags_eqb_of_mflags.
    rewrite (xbuild_nodes (dfxp_nodes true) dfxp_est dfxp_rd_br dfxp_rd_span _ [] [] t Hs (Forall_nil _) Ht).
    cbn [unwind_nodes rev flat_map app map]. unfold flags at 2.
    change (@nil style) with (somes []). rewrite (flags_tok_nodes (dfxp_nodes true) dfxp_est dfxp_rd_text).
    apply (abs_tokens_flags m_i dfxp_est [] a_close (dfxp_atok_c region) color_style (dfxp_agree_c region)
             (close_spec_new m_i dfxp_est a_close eq_refl) ns eq_refl Hf Hn).
  - apply dfxp_reader_p_balanced.
Qed.

Theorem dfxp_roundtrip_flags_c : forall region ns, nodes_ok color_style ns = true -> flat_balanced ns = true ->
  exists t, content_parse (dfxp_payload (extra_of region) ns) = Some t /\
            ok_flags m_i ns (flat_map (dfxp_nodes true) t) = true /\
            balanced (flat_map (dfxp_nodes true) t) = true.
Proof.
  intros region ns Hn Hf. apply (dfxp_roundtrip_gen_c region _ ns); try assumption.
  apply dfxp_payload_parse_c. exact Hn.
Qed.

Theorem legacy_roundtrip_flags_c : forall ns, nodes_ok color_style ns = true -> flat_balanced ns = true ->
  exists t, content_parse (legacy_payload ns) = Some t /\
            ok_flags m_i ns (flat_map (dfxp_nodes true) t) = true /\
            balanced (flat_map (dfxp_nodes true) t) = true.
Proof.
  intros ns Hn Hf. apply (dfxp_roundtrip_gen_c false _ ns); try assumption.
  apply legacy_payload_parse_c. exact Hn.
Qed.
